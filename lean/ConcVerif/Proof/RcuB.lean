import ConcVerif.Proof.RcuA
/-! Layer B of the rcu_list invariant: the log of records (`m_zombie_head` stack), DESIGN §7.4 R1–R5.

`log` = records pushed and not yet taken by a reclaimer, newest first.  `Below log a` = the records older
than `a`.  The invariant is stated over the *B-view* of the state (the fields this layer depends on and the
pcs with every log-irrelevant pc collapsed), so that every step that does not touch the view preserves
it by rewriting. -/
namespace ConcVerif.Rcu

/-- pcs relevant to the log layer are kept, every other pc becomes `idle`; the node phase of the destructor
is collapsed to `called dtor` -/
def BView : Pc → Pc
  | .regAlloc k r => .regAlloc k r
  | .regCons k r => .regCons k r
  | .pushStore c r e => .pushStore c r e
  | .pushCas c r e => .pushCas c r e
  | .uOwner r c m => .uOwner r c m
  | .uNext r c m => .uNext r c m
  | .rZn r m => .rZn r m
  | .rDesN r m _ => .rZn r m
  | .rFreN r m _ => .rZn r m
  | .rNext r m => .rZn r m
  | .rDesZ r m nx => .rDesZ r m nx
  | .rFreZ r m nx => .rFreZ r m nx
  | .uTrunc r => .uTrunc r
  | .eCons c o z => .eCons c o z
  | .eZh o z => .eZh o z
  | .eMark _ o z | .eBack _ o z | .eNext _ o _ z | .eUnl _ o _ _ z | .eFix _ o _ _ z => .eZh o z
  | .called .dtor => .called .dtor
  | .dNext _ => .called .dtor
  | .dDesN .. => .called .dtor
  | .dFreN .. => .called .dtor
  | .dZhead => .called .dtor
  | .dOwner m => .dOwner m
  | .dRNext m => .dOwner m
  | .dZn m nx => .dZn m nx
  | .dDesZN m nx _ => .dZn m nx
  | .dFreZN m nx _ => .dZn m nx
  | .dDesZ m nx => .dZn m nx
  | .dFreZ m nx => .dFreZ m nx
  | .retp .dtor => .retp .dtor
  | _ => .idle

/-- reclaim phase: the record's `next` may dangle -/
def reaper : Pc → Option Nat
  | .rZn r _ | .rDesZ r _ _ | .rFreZ r _ _ | .uTrunc r => some r
  | _ => none

/-- record held privately (not on the log) -/
def privRec : Pc → Option Nat
  | .regAlloc _ r | .regCons _ r | .pushStore _ r _ | .pushCas _ r _ => some r
  | .eCons _ _ z | .eZh _ z => some z
  | .rZn _ m | .rDesZ _ m _ | .rFreZ _ m _ => some m
  | .dOwner m | .dZn m _ | .dFreZ m _ => some m
  | _ => none

/-- its ledger state -/
def privLed : Pc → Led
  | .regAlloc .. | .eCons .. => .alloc
  | .rFreZ .. | .dFreZ .. => .dest
  | _ => .cons

/-- pcs of the destructor at which `m_zombie_head` still is the newest log record -/
def zhExact : Pc → Bool
  | .called .dtor => true
  | _ => false

structure BSt where
  recs : Nat → Rec
  rled : Nat → Led
  nR : Nat
  log : List Nat
  zhead : Option Nat
  dt : Bool
  hnd : Tid → Hnd
  vpc : Tid → Pc

def St.bview (s : St) : BSt :=
  { recs := s.recs, rled := s.rled, nR := s.nR, log := s.log, zhead := s.zhead, dt := s.dt, hnd := s.hnd,
    vpc := fun u => BView (s.pc u) }

/-- owner field of a record the thread is about to publish -/
def RegOwnP (b : BSt) (t : Tid) : Pc → Prop
  | .regCons _ r | .pushStore (.reg _) r _ => (b.recs r).owner = some t
  | .pushCas (.reg _) r e => (b.recs r).owner = some t ∧ (b.recs r).next = e
  | .eZh _ z | .pushStore (.erase _) z _ => (b.recs z).owner = none
  | .pushCas (.erase _) z e => (b.recs z).owner = none ∧ (b.recs z).next = e
  | _ => True

/-- R3: a scanning thread's cursor lies below its own record, every record in between is inactive -/
def ScanP (b : BSt) : Pc → Prop
  | .uOwner a c m =>
      m ∈ Below b.log a ∧ c = (Below b.log a).head? ∧ ∀ x ∈ Below b.log a, m ∈ Below b.log x → (b.recs x).owner = none
  | .uNext a c m =>
      m ∈ Below b.log a ∧ c = (Below b.log a).head? ∧ (b.recs m).owner = none ∧
        ∀ x ∈ Below b.log a, m ∈ Below b.log x → (b.recs x).owner = none
  | _ => True

/-- R4: in the free phase every record below the reclaimer's is inactive; the record it holds continues the log -/
def ReapP (b : BSt) : Pc → Prop
  | .rZn a m =>
      a ∈ b.log ∧ (∀ x ∈ Below b.log a, (b.recs x).owner = none) ∧ (b.recs m).owner = none ∧
        (b.recs m).next = (Below b.log a).head?
  | .rDesZ a _ nx | .rFreZ a _ nx =>
      a ∈ b.log ∧ (∀ x ∈ Below b.log a, (b.recs x).owner = none) ∧ nx = (Below b.log a).head?
  | .uTrunc a => a ∈ b.log ∧ Below b.log a = []
  | _ => True

/-- the destructor walks the log from its head -/
def DtorP (b : BSt) : Pc → Prop
  | .dOwner m => (b.recs m).next = b.log.head?
  | .dZn _ nx | .dFreZ _ nx => nx = b.log.head?
  | .retp .dtor => b.log = []
  | _ => True

structure InvBv (b : BSt) : Prop where
  cntR : ∀ r, b.rled r = .none ↔ b.nR ≤ r
  logNd : b.log.Nodup
  logCons : ∀ r ∈ b.log, b.rled r = .cons
  zh : (b.dt = false ∨ ∃ t, zhExact (b.vpc t) = true) → b.zhead = b.log.head?
  chain : ∀ a ∈ b.log, (b.recs a).next = (Below b.log a).head? ∨ ∃ u, reaper (b.vpc u) = some a
  own1 : ∀ t w r, b.hnd t = .reg w r → r ∈ b.log ∧ (b.recs r).owner = some t
  own2 : ∀ r ∈ b.log, ∀ t, (b.recs r).owner = some t → ∃ w, b.hnd t = .reg w r
  privOk : ∀ t r, privRec (b.vpc t) = some r → r ∉ b.log ∧ b.rled r = privLed (b.vpc t)
  privUq : ∀ t u r, privRec (b.vpc t) = some r → privRec (b.vpc u) = some r → t = u
  regOwn : ∀ t, RegOwnP b t (b.vpc t)
  scan : ∀ t, ScanP b (b.vpc t)
  reap : ∀ t, ReapP b (b.vpc t)
  dtr : ∀ t, DtorP b (b.vpc t)
  cls : ∀ r, r < b.nR → b.rled r = .freed ∨ r ∈ b.log ∨ ∃ t, privRec (b.vpc t) = some r

def InvB (s : St) : Prop := InvBv s.bview

theorem invB_init : InvB init := by
  constructor <;> simp [init, St.bview, BView, zhExact, reaper, privRec, RegOwnP, ScanP, ReapP, DtorP]

/-- a step that leaves the B-view alone preserves layer B -/
theorem invB_of_view {s s' : St} (h : InvB s) (hv : s'.bview = s.bview) : InvB s' := by
  unfold InvB; rw [hv]; exact h

/-- thread `t` moves between pcs with the same B-view -/
theorem bview_setPc {s : St} {t : Tid} {p' : Pc} (hp : BView p' = BView (s.pc t)) :
    (fun u => BView ((s.setPc t p').pc u)) = fun u => BView (s.pc u) := by
  funext u
  by_cases hu : u = t
  · subst hu; simp [hp]
  · simp [hu]

end ConcVerif.Rcu

namespace ConcVerif.Rcu

theorem invB_congr {s s' : St} (h : InvB s) (h1 : s'.recs = s.recs) (h2 : s'.rled = s.rled) (h3 : s'.nR = s.nR)
    (h4 : s'.log = s.log) (h5 : s'.zhead = s.zhead) (h6 : s'.dt = s.dt) (h7 : s'.hnd = s.hnd) (h8 : s'.pc = s.pc) :
    InvB s' := by
  refine invB_of_view h ?_
  simp only [St.bview, h1, h2, h3, h4, h5, h6, h7, h8]

@[simp] theorem bview_recs (s : St) : s.bview.recs = s.recs := rfl
@[simp] theorem bview_rled (s : St) : s.bview.rled = s.rled := rfl
@[simp] theorem bview_nR (s : St) : s.bview.nR = s.nR := rfl
@[simp] theorem bview_log (s : St) : s.bview.log = s.log := rfl
@[simp] theorem bview_zhead (s : St) : s.bview.zhead = s.zhead := rfl
@[simp] theorem bview_dt (s : St) : s.bview.dt = s.dt := rfl
@[simp] theorem bview_hnd (s : St) : s.bview.hnd = s.hnd := rfl
@[simp] theorem bview_vpc (s : St) (u : Tid) : s.bview.vpc u = BView (s.pc u) := rfl

/-- master lemma for steps that only move the pc of `t` (the B-state is unchanged) -/
theorem invB_pc {s : St} {t : Tid} (h : InvB s) (p' : Pc)
    (hz : zhExact (BView p') = true → s.zhead = s.log.head?)
    (hr : ∀ a, reaper (BView (s.pc t)) = some a →
      reaper (BView p') = some a ∨ (s.recs a).next = (Below s.log a).head?)
    (hpriv : ∀ r, privRec (BView p') = some r →
      r ∉ s.log ∧ s.rled r = privLed (BView p') ∧ ∀ u, u ≠ t → privRec (BView (s.pc u)) ≠ some r)
    (hcls : ∀ r, privRec (BView (s.pc t)) = some r → privRec (BView p') = some r ∨ s.rled r = .freed ∨ r ∈ s.log)
    (hreg : RegOwnP s.bview t (BView p')) (hscan : ScanP s.bview (BView p')) (hreap : ReapP s.bview (BView p'))
    (hdtr : DtorP s.bview (BView p')) : InvB (s.setPc t p') := by
  obtain ⟨b1, b2, b3, b4, b5, b6, b7, b8, b9, b10, b11, b12, b13, b14⟩ := h
  refine ⟨b1, b2, b3, ?_, ?_, b6, b7, ?_, ?_, ?_, ?_, ?_, ?_, ?_⟩
  all_goals simp only [bview_recs, bview_rled, bview_nR, bview_log, bview_zhead, bview_dt, bview_hnd, bview_vpc,
    setPc_recs, setPc_rled, setPc_nR, setPc_log, setPc_zhead, setPc_dt, setPc_hnd, setPc_pc] at *
  · rintro (hd | ⟨u, hu⟩)
    · exact b4 (Or.inl hd)
    · by_cases hut : u = t
      · subst hut; rw [upd_same] at hu; exact hz hu
      · rw [upd_other _ _ _ _ hut] at hu; exact b4 (Or.inr ⟨u, hu⟩)
  · intro a ha
    rcases b5 a ha with h1 | ⟨u, hu⟩
    · exact Or.inl h1
    · by_cases hut : u = t
      · subst hut
        rcases hr a hu with h2 | h2
        · exact Or.inr ⟨u, by rw [upd_same]; exact h2⟩
        · exact Or.inl h2
      · exact Or.inr ⟨u, by rw [upd_other _ _ _ _ hut]; exact hu⟩
  · intro u r hu
    by_cases hut : u = t
    · subst hut; rw [upd_same] at hu ⊢; exact ⟨(hpriv r hu).1, (hpriv r hu).2.1⟩
    · rw [upd_other _ _ _ _ hut] at hu ⊢; exact b8 u r hu
  · intro u v r hu hv
    by_cases hut : u = t <;> by_cases hvt : v = t
    · rw [hut, hvt]
    · subst hut; rw [upd_same] at hu; rw [upd_other _ _ _ _ hvt] at hv
      exact absurd hv ((hpriv r hu).2.2 v hvt)
    · subst hvt; rw [upd_same] at hv; rw [upd_other _ _ _ _ hut] at hu
      exact absurd hu ((hpriv r hv).2.2 u hut)
    · rw [upd_other _ _ _ _ hut] at hu; rw [upd_other _ _ _ _ hvt] at hv; exact b9 u v r hu hv
  · intro u; by_cases hut : u = t
    · subst hut; rw [upd_same]; exact hreg
    · rw [upd_other _ _ _ _ hut]; exact b10 u
  · intro u; by_cases hut : u = t
    · subst hut; rw [upd_same]; exact hscan
    · rw [upd_other _ _ _ _ hut]; exact b11 u
  · intro u; by_cases hut : u = t
    · subst hut; rw [upd_same]; exact hreap
    · rw [upd_other _ _ _ _ hut]; exact b12 u
  · intro u; by_cases hut : u = t
    · subst hut; rw [upd_same]; exact hdtr
    · rw [upd_other _ _ _ _ hut]; exact b13 u
  · intro r hr'
    rcases b14 r hr' with h1 | h1 | ⟨u, hu⟩
    · exact Or.inl h1
    · exact Or.inr (Or.inl h1)
    · by_cases hut : u = t
      · subst hut
        rcases hcls r hu with h2 | h2 | h2
        · exact Or.inr (Or.inr ⟨u, by rw [upd_same]; exact h2⟩)
        · exact Or.inl h2
        · exact Or.inr (Or.inl h2)
      · exact Or.inr (Or.inr ⟨u, by rw [upd_other _ _ _ _ hut]; exact hu⟩)

theorem reaper_myRec {p : Pc} {a : Nat} (h : reaper (BView p) = some a) : myRec p = some a := by
  cases p <;> simp [BView, reaper, myRec] at h ⊢ <;> try exact h
  all_goals (rename_i k; cases k <;> simp [BView, reaper] at h)

theorem head?_eq_none {l : List Nat} (h : l.head? = none) : l = [] := by
  cases l <;> simp at h ⊢

/-- only the owner of a registered record can be its reclaimer -/
theorem reaper_is_owner {s : St} (ha : InvA s) (hb : InvB s) {t u : Tid} {w : Bool} {r : Nat} (hh : s.hnd t = .reg w r)
    (hu : reaper (BView (s.pc u)) = some r) : u = t := by
  obtain ⟨w', hw'⟩ := ha.myr u r (reaper_myRec hu)
  have h1 := (hb.own1 u w' r hw').2
  have h2 := (hb.own1 t w r hh).2
  simp only [bview_recs] at h1 h2
  rw [h1] at h2; injection h2

/-- an inactive log record is nobody's: its `next` is exact -/
theorem next_of_inactive {s : St} (ha : InvA s) (hb : InvB s) {m : Nat} (hm : m ∈ s.log) (ho : (s.recs m).owner = none) :
    (s.recs m).next = (Below s.log m).head? := by
  rcases hb.chain m hm with h | ⟨u, hu⟩
  · exact h
  · obtain ⟨w', hw'⟩ := ha.myr u m (reaper_myRec hu)
    have h1 := (hb.own1 u w' m hw').2
    simp only [bview_recs] at h1
    rw [ho] at h1; cases h1

/-- the record of a thread that is not reclaiming has an exact `next` -/
theorem next_of_own {s : St} (ha : InvA s) (hb : InvB s) {t : Tid} {w : Bool} {r : Nat} (hh : s.hnd t = .reg w r)
    (hn : reaper (BView (s.pc t)) = none) : (s.recs r).next = (Below s.log r).head? := by
  rcases hb.chain r (hb.own1 t w r hh).1 with h | ⟨u, hu⟩
  · exact h
  · have := reaper_is_owner ha hb hh hu
    subst this; simp only [bview_vpc] at hu; rw [hn] at hu; cases hu

theorem privLed_ne_none (p : Pc) : privLed p ≠ .none := by
  cases p <;> simp [privLed]

/-- the predicates on pcs only look at `recs` and `log` -/
theorem regOwnP_congr {b b' : BSt} {t : Tid} {p : Pc} (h : RegOwnP b t p)
    (hr : ∀ r, privRec p = some r → b'.recs r = b.recs r) : RegOwnP b' t p := by
  cases p <;> simp only [RegOwnP] at h ⊢ <;> try trivial
  all_goals first
    | (rw [hr _ (by simp [privRec])]; exact h)
    | (rename_i c _ _; cases c <;> simp only [RegOwnP] at h ⊢ <;> (rw [hr _ (by simp [privRec])]; exact h))

/-- K1: a fresh record block is allocated (`alo Z nR`) -/
theorem invB_alloc {s : St} {t : Tid} (h : InvB s) (p' : Pc) (hv : BView (s.pc t) = .idle)
    (h1 : privRec (BView p') = some s.nR) (h2 : privLed (BView p') = .alloc) (h3 : reaper (BView p') = none)
    (h4 : zhExact (BView p') = false) (h5 : ∀ b, RegOwnP b t (BView p')) (h6 : ∀ b, ScanP b (BView p'))
    (h7 : ∀ b, ReapP b (BView p')) (h8 : ∀ b, DtorP b (BView p')) :
    InvB (({ s with nR := s.nR + 1 }.setRled s.nR .alloc).setPc t p') := by
  obtain ⟨b1, b2, b3, b4, b5, b6, b7, b8, b9, b10, b11, b12, b13, b14⟩ := h
  simp only [bview_recs, bview_rled, bview_nR, bview_log, bview_zhead, bview_dt, bview_hnd, bview_vpc] at *
  have hfresh : s.rled s.nR = .none := (b1 s.nR).2 (Nat.le_refl _)
  have hnl : s.nR ∉ s.log := fun hm => by have := b3 _ hm; rw [hfresh] at this; cases this
  have hpne : ∀ u r, privRec (BView (s.pc u)) = some r → r ≠ s.nR := by
    intro u r hu he; subst he
    have := (b8 u _ hu).2; rw [hfresh] at this; exact privLed_ne_none _ this.symm
  refine ⟨?_, b2, ?_, ?_, ?_, b6, b7, ?_, ?_, ?_, ?_, ?_, ?_, ?_⟩
  all_goals simp only [bview_recs, bview_rled, bview_nR, bview_log, bview_zhead, bview_dt, bview_hnd, bview_vpc,
    setPc_recs, setPc_rled, setPc_nR, setPc_log, setPc_zhead, setPc_dt, setPc_hnd, setPc_pc,
    setRled_recs, setRled_rled, setRled_nR, setRled_log, setRled_zhead, setRled_dt, setRled_hnd]
  · intro r
    by_cases hr : r = s.nR
    · subst hr; rw [upd_same]; simp
    · rw [upd_other _ _ _ _ hr, b1 r]; omega
  · intro r hr
    have : r ≠ s.nR := fun he => hnl (he ▸ hr)
    rw [upd_other _ _ _ _ this]; exact b3 r hr
  · rintro (hd | ⟨u, hu⟩)
    · exact b4 (Or.inl hd)
    · by_cases hut : u = t
      · subst hut; rw [upd_same, h4] at hu; cases hu
      · rw [upd_other _ _ _ _ hut] at hu; exact b4 (Or.inr ⟨u, hu⟩)
  · intro a ha
    rcases b5 a ha with h' | ⟨u, hu⟩
    · exact Or.inl h'
    · by_cases hut : u = t
      · subst hut; rw [hv] at hu; simp [reaper] at hu
      · exact Or.inr ⟨u, by rw [upd_other _ _ _ _ hut]; exact hu⟩
  · intro u r hu
    by_cases hut : u = t
    · subst hut; rw [upd_same] at hu ⊢; rw [h1] at hu; injection hu with hu; subst hu
      rw [upd_same, h2]; exact ⟨hnl, rfl⟩
    · rw [upd_other _ _ _ _ hut] at hu ⊢
      rw [upd_other _ _ _ _ (hpne u r hu)]; exact b8 u r hu
  · intro u v r hu hv'
    by_cases hut : u = t <;> by_cases hvt : v = t
    · rw [hut, hvt]
    · subst hut; rw [upd_same, h1] at hu; injection hu with hu; subst hu
      rw [upd_other _ _ _ _ hvt] at hv'; exact absurd rfl (hpne v _ hv')
    · subst hvt; rw [upd_same, h1] at hv'; injection hv' with hv'; subst hv'
      rw [upd_other _ _ _ _ hut] at hu; exact absurd rfl (hpne u _ hu)
    · rw [upd_other _ _ _ _ hut] at hu; rw [upd_other _ _ _ _ hvt] at hv'; exact b9 u v r hu hv'
  · intro u; by_cases hut : u = t
    · subst hut; rw [upd_same]; exact h5 _
    · rw [upd_other _ _ _ _ hut]; exact regOwnP_congr (b10 u) (fun _ _ => rfl)
  · intro u; by_cases hut : u = t
    · subst hut; rw [upd_same]; exact h6 _
    · rw [upd_other _ _ _ _ hut]; exact b11 u
  · intro u; by_cases hut : u = t
    · subst hut; rw [upd_same]; exact h7 _
    · rw [upd_other _ _ _ _ hut]; exact b12 u
  · intro u; by_cases hut : u = t
    · subst hut; rw [upd_same]; exact h8 _
    · rw [upd_other _ _ _ _ hut]; exact b13 u
  · intro r hr
    by_cases hrn : r = s.nR
    · subst hrn; exact Or.inr (Or.inr ⟨t, by rw [upd_same]; exact h1⟩)
    · rw [upd_other _ _ _ _ hrn]
      rcases b14 r (by omega) with h' | h' | ⟨u, hu⟩
      · exact Or.inl h'
      · exact Or.inr (Or.inl h')
      · by_cases hut : u = t
        · subst hut; rw [hv] at hu; simp [privRec] at hu
        · exact Or.inr (Or.inr ⟨u, by rw [upd_other _ _ _ _ hut]; exact hu⟩)

theorem scanP_mono {b b' : BSt} {p : Pc} (h : ScanP b p) (hl : b'.log = b.log)
    (ho : ∀ x ∈ b.log, (b.recs x).owner = none → (b'.recs x).owner = none) : ScanP b' p := by
  cases p <;> simp only [ScanP] at h ⊢ <;> try trivial
  · obtain ⟨h1, h2, h3⟩ := h
    rw [hl]
    refine ⟨h1, h2, ?_⟩
    intro x hx hm; exact ho x (mem_of_mem_below hx) (h3 x hx hm)
  · obtain ⟨h1, h2, h3, h4⟩ := h
    rw [hl]
    refine ⟨h1, h2, ?_, ?_⟩
    · exact ho _ (mem_of_mem_below h1) h3
    · intro x hx hm; exact ho x (mem_of_mem_below hx) (h4 x hx hm)

theorem reapP_mono {b b' : BSt} {p : Pc} (h : ReapP b p) (hl : b'.log = b.log)
    (ho : ∀ x ∈ b.log, (b.recs x).owner = none → (b'.recs x).owner = none)
    (hm : ∀ m, privRec p = some m → b'.recs m = b.recs m) : ReapP b' p := by
  cases p <;> simp only [ReapP] at h ⊢ <;> try trivial
  · obtain ⟨h0, h1, h2, h3⟩ := h
    rw [hl, hm _ (by simp [privRec])]
    exact ⟨h0, fun x hx => ho x (mem_of_mem_below hx) (h1 x hx), h2, h3⟩
  · obtain ⟨h0, h1, h2⟩ := h
    rw [hl]
    exact ⟨h0, fun x hx => ho x (mem_of_mem_below hx) (h1 x hx), h2⟩
  · obtain ⟨h0, h1, h2⟩ := h
    rw [hl]
    exact ⟨h0, fun x hx => ho x (mem_of_mem_below hx) (h1 x hx), h2⟩
  · rw [hl]; exact h

theorem dtorP_congr {b b' : BSt} {p : Pc} (h : DtorP b p) (hl : b'.log = b.log)
    (hm : ∀ m, privRec p = some m → b'.recs m = b.recs m) : DtorP b' p := by
  cases p <;> simp only [DtorP] at h ⊢ <;> try trivial
  · rename_i k; cases k <;> simp only [DtorP] at h ⊢ <;> try trivial
    rw [hl]; exact h
  · rw [hl, hm _ (by simp [privRec])]; exact h
  · rw [hl]; exact h
  · rw [hl]; exact h

/-- K2 / K4 / K7: thread `t` changes the contents or the ledger state of the record it holds privately -/
theorem invB_privUpd {s : St} {t : Tid} (h : InvB s) (p' : Pc) (r : Nat) (recs' : Nat → Rec) (rled' : Nat → Led)
    (hold : privRec (BView (s.pc t)) = some r) (hnew : privRec (BView p') = some r)
    (hrec : ∀ x, x ≠ r → recs' x = s.recs x) (hled : ∀ x, x ≠ r → rled' x = s.rled x)
    (hl : rled' r = privLed (BView p'))
    (hre : reaper (BView p') = reaper (BView (s.pc t))) (hz : zhExact (BView p') = zhExact (BView (s.pc t)))
    (hP : ∀ b' : BSt, b'.recs = recs' → b'.log = s.log →
      RegOwnP b' t (BView p') ∧ ScanP b' (BView p') ∧ ReapP b' (BView p') ∧ DtorP b' (BView p')) :
    InvB ({ s with recs := recs', rled := rled' }.setPc t p') := by
  obtain ⟨b1, b2, b3, b4, b5, b6, b7, b8, b9, b10, b11, b12, b13, b14⟩ := h
  simp only [bview_recs, bview_rled, bview_nR, bview_log, bview_zhead, bview_dt, bview_hnd, bview_vpc] at *
  have hrl : r ∉ s.log := (b8 t r hold).1
  have hlog : ∀ x ∈ s.log, recs' x = s.recs x := fun x hx => hrec x (fun he => hrl (he ▸ hx))
  have hoth : ∀ u, u ≠ t → ∀ x, privRec (BView (s.pc u)) = some x → x ≠ r := by
    intro u hut x hx he; subst he; exact hut (b9 u t x hx hold)
  have hP' := hP { s.bview with recs := recs' } rfl rfl
  refine ⟨?_, b2, ?_, ?_, ?_, ?_, ?_, ?_, ?_, ?_, ?_, ?_, ?_, ?_⟩
  all_goals simp only [bview_recs, bview_rled, bview_nR, bview_log, bview_zhead, bview_dt, bview_hnd, bview_vpc,
    setPc_recs, setPc_rled, setPc_nR, setPc_log, setPc_zhead, setPc_dt, setPc_hnd, setPc_pc]
  · intro x
    by_cases hx : x = r
    · subst hx; rw [hl]
      have := (b8 t x hold).2
      have h2 := b1 x
      constructor
      · intro hc; exact absurd hc (privLed_ne_none _)
      · intro hc; have := h2.2 hc; rw [(b8 t x hold).2] at this; exact absurd this (privLed_ne_none _)
    · rw [hled x hx]; exact b1 x
  · intro x hx
    rw [hled x (fun he => hrl (he ▸ hx))]; exact b3 x hx
  · rintro (hd | ⟨u, hu⟩)
    · exact b4 (Or.inl hd)
    · by_cases hut : u = t
      · subst hut; rw [upd_same, hz] at hu; exact b4 (Or.inr ⟨u, hu⟩)
      · rw [upd_other _ _ _ _ hut] at hu; exact b4 (Or.inr ⟨u, hu⟩)
  · intro a ha
    rw [hlog a ha]
    rcases b5 a ha with h' | ⟨u, hu⟩
    · exact Or.inl h'
    · by_cases hut : u = t
      · subst hut; exact Or.inr ⟨u, by rw [upd_same, hre]; exact hu⟩
      · exact Or.inr ⟨u, by rw [upd_other _ _ _ _ hut]; exact hu⟩
  · intro u w x hu
    have := b6 u w x hu
    rw [hlog x this.1]; exact this
  · intro x hx u hu
    rw [hlog x hx] at hu; exact b7 x hx u hu
  · intro u x hu
    by_cases hut : u = t
    · subst hut; rw [upd_same] at hu ⊢; rw [hnew] at hu; injection hu with hu; subst hu
      exact ⟨hrl, hl⟩
    · rw [upd_other _ _ _ _ hut] at hu ⊢
      rw [hled x (hoth u hut x hu)]; exact b8 u x hu
  · intro u v x hu hv
    by_cases hut : u = t <;> by_cases hvt : v = t
    · rw [hut, hvt]
    · subst hut; rw [upd_same, hnew] at hu; injection hu with hu; subst hu
      rw [upd_other _ _ _ _ hvt] at hv; exact absurd rfl (hoth v hvt _ hv)
    · subst hvt; rw [upd_same, hnew] at hv; injection hv with hv; subst hv
      rw [upd_other _ _ _ _ hut] at hu; exact absurd rfl (hoth u hut _ hu)
    · rw [upd_other _ _ _ _ hut] at hu; rw [upd_other _ _ _ _ hvt] at hv; exact b9 u v x hu hv
  · intro u; by_cases hut : u = t
    · subst hut; rw [upd_same]; exact hP'.1
    · rw [upd_other _ _ _ _ hut]
      exact regOwnP_congr (b10 u) (fun x hx => hrec x (hoth u hut x hx))
  · intro u; by_cases hut : u = t
    · subst hut; rw [upd_same]; exact hP'.2.1
    · rw [upd_other _ _ _ _ hut]; exact scanP_mono (b11 u) rfl (fun x hx hn => by show (recs' x).owner = none; rw [hlog x hx]; exact hn)
  · intro u; by_cases hut : u = t
    · subst hut; rw [upd_same]; exact hP'.2.2.1
    · rw [upd_other _ _ _ _ hut]
      exact reapP_mono (b12 u) rfl (fun x hx hn => by show (recs' x).owner = none; rw [hlog x hx]; exact hn) (fun x hx => hrec x (hoth u hut x hx))
  · intro u; by_cases hut : u = t
    · subst hut; rw [upd_same]; exact hP'.2.2.2
    · rw [upd_other _ _ _ _ hut]
      exact dtorP_congr (b13 u) rfl (fun x hx => hrec x (hoth u hut x hx))
  · intro x hx
    by_cases hxr : x = r
    · subst hxr; exact Or.inr (Or.inr ⟨t, by rw [upd_same]; exact hnew⟩)
    · rw [hled x hxr]
      rcases b14 x hx with h' | h' | ⟨u, hu⟩
      · exact Or.inl h'
      · exact Or.inr (Or.inl h')
      · by_cases hut : u = t
        · subst hut; rw [hold] at hu; injection hu with hu; exact absurd hu.symm hxr
        · exact Or.inr (Or.inr ⟨u, by rw [upd_other _ _ _ _ hut]; exact hu⟩)

theorem dtorP_trivial {b : BSt} {p : Pc} (h : inDtor p = false) : DtorP b (BView p) := by
  cases p <;> simp [inDtor] at h <;> simp [BView, DtorP]
  all_goals (rename_i k; cases k <;> simp [inDtor] at h <;> simp [BView, DtorP])

theorem scanP_cons {b b' : BSt} {p : Pc} {r : Nat} (h : ScanP b p) (hl : b'.log = r :: b.log) (hr : r ∉ b.log)
    (hrec : b'.recs = b.recs) : ScanP b' p := by
  have hb : ∀ a y, y ∈ Below b.log a → Below (r :: b.log) a = Below b.log a := by
    intro a y hy
    have : r ≠ a := fun e => hr (e ▸ mem_of_mem_below' hy)
    exact below_cons_ne _ this
  have hb2 : ∀ x, x ∈ b.log → Below (r :: b.log) x = Below b.log x := by
    intro x hx
    exact below_cons_ne _ (fun e => hr (e ▸ hx))
  cases p <;> simp only [ScanP] at h ⊢ <;> try trivial
  · obtain ⟨h1, h2, h3⟩ := h
    rw [hl, hrec, hb _ _ h1]
    refine ⟨h1, h2, ?_⟩
    intro x hx hm; rw [hb2 x (mem_of_mem_below hx)] at hm; exact h3 x hx hm
  · obtain ⟨h1, h2, h3, h4⟩ := h
    rw [hl, hrec, hb _ _ h1]
    refine ⟨h1, h2, h3, ?_⟩
    intro x hx hm; rw [hb2 x (mem_of_mem_below hx)] at hm; exact h4 x hx hm

theorem reapP_cons {b b' : BSt} {p : Pc} {r : Nat} (h : ReapP b p) (hl : b'.log = r :: b.log) (hr : r ∉ b.log)
    (hrec : b'.recs = b.recs) : ReapP b' p := by
  have hb2 : ∀ x, x ∈ b.log → Below (r :: b.log) x = Below b.log x := by
    intro x hx
    exact below_cons_ne _ (fun e => hr (e ▸ hx))
  cases p <;> simp only [ReapP] at h ⊢ <;> try trivial
  · obtain ⟨h0, h1, h2, h3⟩ := h
    rw [hl, hrec, hb2 _ h0]
    exact ⟨List.mem_cons_of_mem _ h0, h1, h2, h3⟩
  · obtain ⟨h0, h1, h2⟩ := h
    rw [hl, hrec, hb2 _ h0]
    exact ⟨List.mem_cons_of_mem _ h0, h1, h2⟩
  · obtain ⟨h0, h1, h2⟩ := h
    rw [hl, hrec, hb2 _ h0]
    exact ⟨List.mem_cons_of_mem _ h0, h1, h2⟩
  · obtain ⟨h0, h1⟩ := h
    rw [hl, hb2 _ h0]
    exact ⟨List.mem_cons_of_mem _ h0, h1⟩

/-- K5: the publishing CAS succeeds: record `r` becomes the newest log record -/
theorem invB_push {s : St} {t : Tid} (h : InvB s) (p' : Pc) (c : Cont) (r : Nat) (hnd' : Tid → Hnd)
    (hdt : s.dt = false) (hnd : ∀ u, inDtor (s.pc u) = false)
    (hpc : BView (s.pc t) = .pushCas c r s.zhead) (hp' : BView p' = .idle)
    (hh : ∀ u, u ≠ t → hnd' u = s.hnd u)
    (hht : (∃ k w, c = .reg k ∧ hnd' t = .reg w r ∧ ∀ w x, s.hnd t ≠ .reg w x) ∨
           (∃ o, c = .erase o ∧ hnd' t = s.hnd t)) :
    InvB ({ s with zhead := some r, log := r :: s.log, hnd := hnd' }.setPc t p') := by
  obtain ⟨b1, b2, b3, b4, b5, b6, b7, b8, b9, b10, b11, b12, b13, b14⟩ := h
  simp only [bview_recs, bview_rled, bview_nR, bview_log, bview_zhead, bview_dt, bview_hnd, bview_vpc] at *
  have hpr : privRec (BView (s.pc t)) = some r := by rw [hpc]; rfl
  have hrl : r ∉ s.log := (b8 t r hpr).1
  have hrc : s.rled r = .cons := by have := (b8 t r hpr).2; rw [hpc] at this; exact this
  have hzh : s.zhead = s.log.head? := b4 (Or.inl hdt)
  have hreg := b10 t
  rw [hpc] at hreg
  have hoth : ∀ u, u ≠ t → ∀ x, privRec (BView (s.pc u)) = some x → x ≠ r := by
    intro u hut x hx he; subst he; exact hut (b9 u t x hx hpr)
  have hbl : ∀ x, x ∈ s.log → Below (r :: s.log) x = Below s.log x :=
    fun x hx => below_cons_ne _ (fun e => hrl (e ▸ hx))
  refine ⟨b1, ?_, ?_, ?_, ?_, ?_, ?_, ?_, ?_, ?_, ?_, ?_, ?_, ?_⟩
  all_goals simp only [bview_recs, bview_rled, bview_nR, bview_log, bview_zhead, bview_dt, bview_hnd, bview_vpc,
    setPc_recs, setPc_rled, setPc_nR, setPc_log, setPc_zhead, setPc_dt, setPc_hnd, setPc_pc]
  · exact List.nodup_cons.2 ⟨hrl, b2⟩
  · intro x hx
    rcases List.mem_cons.1 hx with hx | hx
    · subst hx; exact hrc
    · exact b3 x hx
  · intro _; rfl
  · intro a ha
    rcases List.mem_cons.1 ha with ha | ha
    · subst ha
      left
      rw [below_cons_self, ← hzh]
      cases c <;> simp only [RegOwnP, bview_recs] at hreg <;> exact hreg.2
    · rw [hbl a ha]
      rcases b5 a ha with h' | ⟨u, hu⟩
      · exact Or.inl h'
      · by_cases hut : u = t
        · subst hut; rw [hpc] at hu; simp [reaper] at hu
        · exact Or.inr ⟨u, by rw [upd_other _ _ _ _ hut]; exact hu⟩
  · intro u w x hu
    by_cases hut : u = t
    · subst hut
      rcases hht with ⟨k, w', hc, hh', _⟩ | ⟨o, hc, hh'⟩
      · rw [hh'] at hu; injection hu with _ hx; subst hx
        subst hc; simp only [RegOwnP, bview_recs] at hreg
        exact ⟨List.mem_cons_self, hreg.1⟩
      · rw [hh'] at hu
        have := b6 u w x hu
        exact ⟨List.mem_cons_of_mem _ this.1, this.2⟩
    · rw [hh u hut] at hu
      have := b6 u w x hu
      exact ⟨List.mem_cons_of_mem _ this.1, this.2⟩
  · intro x hx u hu
    rcases List.mem_cons.1 hx with hx | hx
    · subst hx
      rcases hht with ⟨k, w', hc, hh', _⟩ | ⟨o, hc, hh'⟩
      · subst hc; simp only [RegOwnP, bview_recs] at hreg
        rw [hreg.1] at hu; injection hu with hu; subst hu
        exact ⟨w', hh'⟩
      · subst hc; simp only [RegOwnP, bview_recs] at hreg
        rw [hreg.1] at hu; cases hu
    · obtain ⟨w, hw⟩ := b7 x hx u hu
      by_cases hut : u = t
      · subst hut
        rcases hht with ⟨k, w', hc, hh', hnr⟩ | ⟨o, hc, hh'⟩
        · exact absurd hw (hnr w x)
        · exact ⟨w, by rw [hh']; exact hw⟩
      · exact ⟨w, by rw [hh u hut]; exact hw⟩
  · intro u x hu
    by_cases hut : u = t
    · subst hut; rw [upd_same, hp'] at hu; simp [privRec] at hu
    · rw [upd_other _ _ _ _ hut] at hu ⊢
      have := b8 u x hu
      refine ⟨?_, this.2⟩
      intro hm
      rcases List.mem_cons.1 hm with hm | hm
      · exact hoth u hut x hu hm
      · exact this.1 hm
  · intro u v x hu hv
    by_cases hut : u = t
    · subst hut; rw [upd_same, hp'] at hu; simp [privRec] at hu
    · by_cases hvt : v = t
      · subst hvt; rw [upd_same, hp'] at hv; simp [privRec] at hv
      · rw [upd_other _ _ _ _ hut] at hu; rw [upd_other _ _ _ _ hvt] at hv; exact b9 u v x hu hv
  · intro u; by_cases hut : u = t
    · subst hut; rw [upd_same, hp']; trivial
    · rw [upd_other _ _ _ _ hut]; exact regOwnP_congr (b10 u) (fun _ _ => rfl)
  · intro u; by_cases hut : u = t
    · subst hut; rw [upd_same, hp']; trivial
    · rw [upd_other _ _ _ _ hut]; exact scanP_cons (b11 u) rfl hrl rfl
  · intro u; by_cases hut : u = t
    · subst hut; rw [upd_same, hp']; trivial
    · rw [upd_other _ _ _ _ hut]; exact reapP_cons (b12 u) rfl hrl rfl
  · intro u; by_cases hut : u = t
    · subst hut; rw [upd_same, hp']; trivial
    · rw [upd_other _ _ _ _ hut]; exact dtorP_trivial (hnd u)
  · intro x hx
    rcases b14 x hx with h' | h' | ⟨u, hu⟩
    · exact Or.inl h'
    · exact Or.inr (Or.inl (List.mem_cons_of_mem _ h'))
    · by_cases hut : u = t
      · subst hut; rw [hpr] at hu; injection hu with hu; subst hu
        exact Or.inr (Or.inl List.mem_cons_self)
      · exact Or.inr (Or.inr ⟨u, by rw [upd_other _ _ _ _ hut]; exact hu⟩)

theorem reapP_of_not_reaper {b : BSt} {p : Pc} (h : reaper p = none) : ReapP b p := by
  cases p <;> simp [reaper] at h <;> simp [ReapP]

theorem reapP_facts {b : BSt} {p : Pc} {a : Nat} (h : ReapP b p) (hr : reaper p = some a) :
    a ∈ b.log ∧ ∀ x ∈ Below b.log a, (b.recs x).owner = none := by
  cases p <;> simp [reaper] at hr <;> simp only [ReapP] at h <;> subst hr
  · exact ⟨h.1, h.2.1⟩
  · exact ⟨h.1, h.2.1⟩
  · exact ⟨h.1, h.2.1⟩
  · exact ⟨h.1, by rw [h.2]; intro x hx; simp at hx⟩

theorem scanP_myRec {b : BSt} {p : Pc} (h : ¬ (∀ b' : BSt, ScanP b' (BView p))) : ∃ a c m, BView p = .uOwner a c m ∨ BView p = .uNext a c m := by
  cases hp : BView p <;> first
    | exact ⟨_, _, _, Or.inl rfl⟩
    | exact ⟨_, _, _, Or.inr rfl⟩
    | (exfalso; apply h; intro b'; rw [hp]; trivial)

theorem bview_uOwner {p : Pc} {a : Nat} {c : Option Nat} {m : Nat} (h : BView p = .uOwner a c m) : p = .uOwner a c m := by
  cases p <;> simp [BView] at h ⊢ <;> try exact h
  all_goals (rename_i k; cases k <;> simp [BView] at h)

theorem bview_uNext {p : Pc} {a : Nat} {c : Option Nat} {m : Nat} (h : BView p = .uNext a c m) : p = .uNext a c m := by
  cases p <;> simp [BView] at h ⊢ <;> try exact h
  all_goals (rename_i k; cases k <;> simp [BView] at h)

/-- K6: a reclaimer (record `a`, every older record inactive) takes the record directly behind `a` off the log;
the record it held before (if any) has just been freed -/
theorem invB_pop {s : St} {t : Tid} (ha : InvA s) (h : InvB s) (a m : Nat) (w : Bool) (rled' : Nat → Led)
    (hh : s.hnd t = .reg w a)
    (hin : ∀ x ∈ Below s.log a, (s.recs x).owner = none)
    (hhead : (Below s.log a).head? = some m)
    (hold : (privRec (BView (s.pc t)) = none ∧ rled' = s.rled) ∨
            (∃ m0, privRec (BView (s.pc t)) = some m0 ∧ rled' = upd s.rled m0 .freed))
    (hro : reaper (BView (s.pc t)) = none ∨ reaper (BView (s.pc t)) = some a) :
    InvB ({ s with rled := rled', log := s.log.erase m }.setPc t (.rZn a m)) := by
  have hdt : s.dt = false := by
    cases hd : s.dt with
    | false => rfl
    | true =>
      have := ha.dtl hd
      have h2 := (ha.liveIff t).2 (by rw [hh]; simp)
      rw [this] at h2; simp at h2
  have hnd : ∀ u, inDtor (s.pc u) = false := by
    intro u; cases hc : inDtor (s.pc u) with
    | false => rfl
    | true => have := ha.dtd u hc; rw [hdt] at this; cases this
  have hnextm : ∀ x, x ∈ s.log → (s.recs x).owner = none → (s.recs x).next = (Below s.log x).head? :=
    fun x hx ho => next_of_inactive ha h hx ho
  have hmyr := ha.myr
  obtain ⟨b1, b2, b3, b4, b5, b6, b7, b8, b9, b10, b11, b12, b13, b14⟩ := h
  simp only [bview_recs, bview_rled, bview_nR, bview_log, bview_zhead, bview_dt, bview_hnd, bview_vpc] at *
  have halog : a ∈ s.log := (b6 t w a hh).1
  have haown : (s.recs a).owner = some t := (b6 t w a hh).2
  have hmb : m ∈ Below s.log a := head_mem_below hhead
  have hmlog : m ∈ s.log := mem_of_mem_below hmb
  have hmin : (s.recs m).owner = none := hin m hmb
  have ham : a ≠ m := fun e => not_mem_below_self b2 (e ▸ hmb)
  have hmcons : s.rled m = .cons := b3 m hmlog
  have hm0 : ∀ m0, privRec (BView (s.pc t)) = some m0 → m0 ∉ s.log := fun m0 h0 => (b8 t m0 h0).1
  have hrled : ∀ x, x ∈ s.log → rled' x = s.rled x := by
    intro x hx
    rcases hold with ⟨_, he⟩ | ⟨m0, hp0, he⟩
    · rw [he]
    · rw [he, upd_other]; intro e; exact hm0 m0 hp0 (e ▸ hx)
  have hrled2 : ∀ u, u ≠ t → ∀ x, privRec (BView (s.pc u)) = some x → rled' x = s.rled x := by
    intro u hut x hx
    rcases hold with ⟨_, he⟩ | ⟨m0, hp0, he⟩
    · rw [he]
    · rw [he, upd_other]; intro e; subst e; exact hut (b9 u t x hx hp0)
  have hact : ∀ x u, x ∈ s.log → (s.recs x).owner = some u → x ∉ Below s.log a := by
    intro x u _ ho hb; rw [hin x hb] at ho; cases ho
  have hsub : ∀ x, x ∈ s.log.erase m → x ∈ s.log := fun x hx => List.mem_of_mem_erase hx
  have hne_m : ∀ x, x ∈ s.log.erase m → x ≠ m := by
    intro x hx e; subst e; exact (List.Nodup.mem_erase_iff b2).1 hx |>.1 rfl
  refine ⟨?_, ?_, ?_, ?_, ?_, ?_, ?_, ?_, ?_, ?_, ?_, ?_, ?_, ?_⟩
  all_goals simp only [bview_recs, bview_rled, bview_nR, bview_log, bview_zhead, bview_dt, bview_hnd, bview_vpc,
    setPc_recs, setPc_rled, setPc_nR, setPc_log, setPc_zhead, setPc_dt, setPc_hnd, setPc_pc]
  · -- cntR
    intro x
    rcases hold with ⟨_, he⟩ | ⟨m0, hp0, he⟩
    · rw [he]; exact b1 x
    · rw [he]
      by_cases hx : x = m0
      · subst hx; rw [upd_same]
        have h1 := (b8 t x hp0).2
        constructor
        · intro hc; cases hc
        · intro hc; have := (b1 x).2 hc; rw [h1] at this; exact absurd this (privLed_ne_none _)
      · rw [upd_other _ _ _ _ hx]; exact b1 x
  · exact b2.erase m
  · intro x hx; rw [hrled x (hsub x hx)]; exact b3 x (hsub x hx)
  · intro _
    rw [head_erase_of_ne' (head_ne_of_mem_below b2 hmb)]
    exact b4 (Or.inl hdt)
  · -- chain
    intro x hx
    by_cases hxa : x = a
    · subst hxa; exact Or.inr ⟨t, by rw [upd_same]; rfl⟩
    · rw [below_erase b2 (hne_m x hx)]
      rcases b5 x (hsub x hx) with h' | ⟨u, hu⟩
      · left
        rw [h', head_erase_of_ne']
        intro hc
        exact hxa (pred_unique b2 hc hhead)
      · by_cases hut : u = t
        · subst hut
          rcases hro with hro | hro
          · rw [hro] at hu; cases hu
          · rw [hro] at hu; injection hu with hu; exact absurd hu.symm hxa
        · exact Or.inr ⟨u, by rw [upd_other _ _ _ _ hut]; exact hu⟩
  · -- own1
    intro u w' x hu
    have := b6 u w' x hu
    refine ⟨(List.mem_erase_of_ne ?_).2 this.1, this.2⟩
    intro e; subst e; rw [hmin] at this; cases this.2
  · intro x hx u hu; exact b7 x (hsub x hx) u hu
  · -- privOk
    intro u x hu
    by_cases hut : u = t
    · subst hut; rw [upd_same] at hu ⊢
      simp only [privRec] at hu; injection hu with hu; subst hu
      refine ⟨fun hc => hne_m _ hc rfl, ?_⟩
      rw [hrled _ hmlog]; exact hmcons
    · rw [upd_other _ _ _ _ hut] at hu ⊢
      have := b8 u x hu
      exact ⟨fun hc => this.1 (hsub x hc), by rw [hrled2 u hut x hu]; exact this.2⟩
  · -- privUq
    intro u v x hu hv
    by_cases hut : u = t <;> by_cases hvt : v = t
    · rw [hut, hvt]
    · subst hut; rw [upd_same] at hu; simp only [privRec] at hu; injection hu with hu; subst hu
      rw [upd_other _ _ _ _ hvt] at hv; exact absurd hmlog (b8 v _ hv).1
    · subst hvt; rw [upd_same] at hv; simp only [privRec] at hv; injection hv with hv; subst hv
      rw [upd_other _ _ _ _ hut] at hu; exact absurd hmlog (b8 u _ hu).1
    · rw [upd_other _ _ _ _ hut] at hu; rw [upd_other _ _ _ _ hvt] at hv; exact b9 u v x hu hv
  · intro u; by_cases hut : u = t
    · subst hut; rw [upd_same]; trivial
    · rw [upd_other _ _ _ _ hut]; exact regOwnP_congr (b10 u) (fun _ _ => rfl)
  · -- scan
    intro u; by_cases hut : u = t
    · subst hut; rw [upd_same]; trivial
    · rw [upd_other _ _ _ _ hut]
      have hsc := b11 u
      -- facts about a scanning thread `u` (record a', cursor m')
      have core : ∀ a' c' m', s.pc u = .uOwner a' c' m' ∨ s.pc u = .uNext a' c' m' →
          m' ∈ Below s.log a' → (∀ x ∈ Below s.log a', m' ∈ Below s.log x → (s.recs x).owner = none) →
          a' ≠ m ∧ m' ≠ m ∧ (Below s.log a').head? ≠ some m := by
        intro a' c' m' hpcu h1 h3
        have hmr : myRec (s.pc u) = some a' := by rcases hpcu with e | e <;> rw [e] <;> rfl
        obtain ⟨w', hw'⟩ := hmyr u a' hmr
        have ha'log := (b6 u w' a' hw').1
        have ha'own := (b6 u w' a' hw').2
        have ha'a : a' ≠ a := by intro e; subst e; rw [haown] at ha'own; injection ha'own with e; exact hut e.symm
        have ha'm : a' ≠ m := by intro e; subst e; rw [hmin] at ha'own; cases ha'own
        have hab : a ∈ Below s.log a' := by
          rcases below_total ha'log halog ha'a with h' | h'
          · exact absurd h' (hact a' u ha'log ha'own)
          · exact h'
        have hm'a : m' ∉ Below s.log a := by
          intro hc
          have := h3 a hab hc; rw [haown] at this; cases this
        refine ⟨ha'm, fun e => hm'a (e ▸ hmb), ?_⟩
        intro hc; exact ha'a (pred_unique b2 hc hhead)
      cases hp : BView (s.pc u) <;> rw [hp] at hsc <;> simp only [ScanP, bview_log, bview_recs, setPc_log, setPc_recs] at hsc ⊢ <;> try trivial
      · obtain ⟨h1, h2, h3⟩ := hsc
        obtain ⟨c1, c2, c3⟩ := core _ _ _ (Or.inl (bview_uOwner hp)) h1 h3
        obtain ⟨d1, d2, d3⟩ := scan_erase_core b2 c1 h1 c2 c3
        refine ⟨d1, by rw [d2]; exact h2, ?_⟩
        intro x hx hmx
        obtain ⟨e1, e2⟩ := d3 x hx hmx
        exact h3 x e1 e2
      · obtain ⟨h1, h2, h3, h4⟩ := hsc
        obtain ⟨c1, c2, c3⟩ := core _ _ _ (Or.inr (bview_uNext hp)) h1 h4
        obtain ⟨d1, d2, d3⟩ := scan_erase_core b2 c1 h1 c2 c3
        refine ⟨d1, by rw [d2]; exact h2, h3, ?_⟩
        intro x hx hmx
        obtain ⟨e1, e2⟩ := d3 x hx hmx
        exact h4 x e1 e2
  · -- reap
    intro u; by_cases hut : u = t
    · subst hut; rw [upd_same]
      simp only [ReapP, bview_log, bview_recs, setPc_log, setPc_recs]
      refine ⟨(List.mem_erase_of_ne ham).2 halog, ?_, hmin, ?_⟩
      · intro x hx; rw [below_erase b2 ham] at hx; exact hin x (List.mem_of_mem_erase hx)
      · rw [hnextm m hmlog hmin, below_of_head b2 hhead, below_erase_head b2 ham hhead]
    · rw [upd_other _ _ _ _ hut]
      cases hre : reaper (BView (s.pc u)) with
      | none => exact reapP_of_not_reaper hre
      | some a' =>
        exfalso
        obtain ⟨f1, f2⟩ := reapP_facts (b12 u) hre
        simp only [bview_log, bview_recs] at f1 f2
        obtain ⟨w', hw'⟩ := hmyr u a' (reaper_myRec hre)
        have ha'own := (b6 u w' a' hw').2
        have ha'a : a' ≠ a := by intro e; subst e; rw [haown] at ha'own; injection ha'own with e; exact hut e.symm
        rcases below_total f1 halog ha'a with h' | h'
        · exact hact a' u f1 ha'own h'
        · have := f2 a h'; rw [haown] at this; cases this
  · intro u; by_cases hut : u = t
    · subst hut; rw [upd_same]; trivial
    · rw [upd_other _ _ _ _ hut]; exact dtorP_trivial (hnd u)
  · -- cls
    intro x hx
    by_cases hxm : x = m
    · subst hxm; exact Or.inr (Or.inr ⟨t, by rw [upd_same]; rfl⟩)
    · rcases b14 x hx with h' | h' | ⟨u, hu⟩
      · left
        rcases hold with ⟨_, he⟩ | ⟨m0, hp0, he⟩
        · rw [he]; exact h'
        · rw [he]; by_cases hx0 : x = m0
          · subst hx0; rw [upd_same]
          · rw [upd_other _ _ _ _ hx0]; exact h'
      · exact Or.inr (Or.inl ((List.mem_erase_of_ne hxm).2 h'))
      · by_cases hut : u = t
        · subst hut
          rcases hold with ⟨hn, _⟩ | ⟨m0, hp0, he⟩
          · rw [hn] at hu; cases hu
          · rw [hp0] at hu; injection hu with hu; subst hu
            left; rw [he, upd_same]
        · exact Or.inr (Or.inr ⟨u, by rw [upd_other _ _ _ _ hut]; exact hu⟩)

/-- K8: the reclaimer is done and truncates its record's `next` -/
theorem invB_trunc {s : St} {t : Tid} (h : InvB s) (a : Nat) (hpc : BView (s.pc t) = .uTrunc a) (p' : Pc)
    (hp' : BView p' = .idle) : InvB ((s.setRNext a none).setPc t p') := by
  obtain ⟨b1, b2, b3, b4, b5, b6, b7, b8, b9, b10, b11, b12, b13, b14⟩ := h
  simp only [bview_recs, bview_rled, bview_nR, bview_log, bview_zhead, bview_dt, bview_hnd, bview_vpc] at *
  have hre := b12 t
  rw [hpc] at hre; simp only [ReapP, bview_log] at hre
  obtain ⟨halog, hbel⟩ := hre
  have hown : ∀ x, ((upd s.recs a { s.recs a with next := none }) x).owner = (s.recs x).owner := by
    intro x; by_cases hx : x = a
    · subst hx; rw [upd_same]
    · rw [upd_other _ _ _ _ hx]
  have hpv : ∀ u x, privRec (BView (s.pc u)) = some x → (upd s.recs a { s.recs a with next := none }) x = s.recs x := by
    intro u x hx
    have : x ≠ a := fun e => (b8 u x hx).1 (e ▸ halog)
    rw [upd_other _ _ _ _ this]
  refine ⟨b1, b2, b3, ?_, ?_, ?_, ?_, ?_, ?_, ?_, ?_, ?_, ?_, ?_⟩
  all_goals simp only [bview_recs, bview_rled, bview_nR, bview_log, bview_zhead, bview_dt, bview_hnd, bview_vpc,
    setPc_recs, setPc_rled, setPc_nR, setPc_log, setPc_zhead, setPc_dt, setPc_hnd, setPc_pc,
    setRNext_recs, setRNext_rled, setRNext_nR, setRNext_log, setRNext_zhead, setRNext_dt, setRNext_hnd]
  · rintro (hd | ⟨u, hu⟩)
    · exact b4 (Or.inl hd)
    · by_cases hut : u = t
      · subst hut; rw [upd_same, hp'] at hu; simp [zhExact] at hu
      · rw [upd_other _ _ _ _ hut] at hu; exact b4 (Or.inr ⟨u, hu⟩)
  · intro x hx
    by_cases hxa : x = a
    · subst hxa; left; rw [upd_same, hbel]; rfl
    · rw [upd_other _ _ _ _ hxa]
      rcases b5 x hx with h' | ⟨u, hu⟩
      · exact Or.inl h'
      · by_cases hut : u = t
        · subst hut; rw [hpc] at hu; simp only [reaper] at hu; injection hu with hu; exact absurd hu.symm hxa
        · exact Or.inr ⟨u, by rw [upd_other _ _ _ _ hut]; exact hu⟩
  · intro u w x hu; rw [hown]; exact b6 u w x hu
  · intro x hx u hu; rw [hown] at hu; exact b7 x hx u hu
  · intro u x hu
    by_cases hut : u = t
    · subst hut; rw [upd_same, hp'] at hu; simp [privRec] at hu
    · rw [upd_other _ _ _ _ hut] at hu ⊢; exact b8 u x hu
  · intro u v x hu hv
    by_cases hut : u = t
    · subst hut; rw [upd_same, hp'] at hu; simp [privRec] at hu
    · by_cases hvt : v = t
      · subst hvt; rw [upd_same, hp'] at hv; simp [privRec] at hv
      · rw [upd_other _ _ _ _ hut] at hu; rw [upd_other _ _ _ _ hvt] at hv; exact b9 u v x hu hv
  · intro u; by_cases hut : u = t
    · subst hut; rw [upd_same, hp']; trivial
    · rw [upd_other _ _ _ _ hut]; exact regOwnP_congr (b10 u) (fun x hx => hpv u x hx)
  · intro u; by_cases hut : u = t
    · subst hut; rw [upd_same, hp']; trivial
    · rw [upd_other _ _ _ _ hut]
      exact scanP_mono (b11 u) rfl (fun x _ hn => by show ((upd s.recs a _) x).owner = none; rw [hown]; exact hn)
  · intro u; by_cases hut : u = t
    · subst hut; rw [upd_same, hp']; trivial
    · rw [upd_other _ _ _ _ hut]
      exact reapP_mono (b12 u) rfl (fun x _ hn => by show ((upd s.recs a _) x).owner = none; rw [hown]; exact hn)
        (fun x hx => hpv u x hx)
  · intro u; by_cases hut : u = t
    · subst hut; rw [upd_same, hp']; trivial
    · rw [upd_other _ _ _ _ hut]; exact dtorP_congr (b13 u) rfl (fun x hx => hpv u x hx)
  · intro x hx
    rcases b14 x hx with h' | h' | ⟨u, hu⟩
    · exact Or.inl h'
    · exact Or.inr (Or.inl h')
    · by_cases hut : u = t
      · subst hut; rw [hpc] at hu; simp [privRec] at hu
      · exact Or.inr (Or.inr ⟨u, by rw [upd_other _ _ _ _ hut]; exact hu⟩)

/-- K9: `owner := null`: the handle is gone -/
theorem invB_clear {s : St} {t : Tid} (h : InvB s) (a : Nat) (w : Bool) (hh : s.hnd t = .reg w a)
    (hpc : BView (s.pc t) = .idle) (p' : Pc) (hp' : BView p' = .idle) :
    InvB (((s.setOwner a none).dropHnd t).setPc t p') := by
  obtain ⟨b1, b2, b3, b4, b5, b6, b7, b8, b9, b10, b11, b12, b13, b14⟩ := h
  simp only [bview_recs, bview_rled, bview_nR, bview_log, bview_zhead, bview_dt, bview_hnd, bview_vpc] at *
  have halog : a ∈ s.log := (b6 t w a hh).1
  have haown : (s.recs a).owner = some t := (b6 t w a hh).2
  have hnext : ∀ x, ((upd s.recs a { s.recs a with owner := none }) x).next = (s.recs x).next := by
    intro x; by_cases hx : x = a
    · subst hx; rw [upd_same]
    · rw [upd_other _ _ _ _ hx]
  have hmono : ∀ x, (s.recs x).owner = none → ((upd s.recs a { s.recs a with owner := none }) x).owner = none := by
    intro x hn; by_cases hx : x = a
    · subst hx; rw [upd_same]
    · rw [upd_other _ _ _ _ hx]; exact hn
  have hpv : ∀ u x, privRec (BView (s.pc u)) = some x → (upd s.recs a { s.recs a with owner := none }) x = s.recs x := by
    intro u x hx
    have : x ≠ a := fun e => (b8 u x hx).1 (e ▸ halog)
    rw [upd_other _ _ _ _ this]
  refine ⟨b1, b2, b3, ?_, ?_, ?_, ?_, ?_, ?_, ?_, ?_, ?_, ?_, ?_⟩
  all_goals simp only [bview_recs, bview_rled, bview_nR, bview_log, bview_zhead, bview_dt, bview_hnd, bview_vpc,
    setPc_recs, setPc_rled, setPc_nR, setPc_log, setPc_zhead, setPc_dt, setPc_hnd, setPc_pc,
    dropHnd_recs, dropHnd_rled, dropHnd_nR, dropHnd_log, dropHnd_zhead, dropHnd_dt, dropHnd_hnd, dropHnd_pc,
    setOwner_recs, setOwner_rled, setOwner_nR, setOwner_log, setOwner_zhead, setOwner_dt, setOwner_hnd, setOwner_pc]
  · rintro (hd | ⟨u, hu⟩)
    · exact b4 (Or.inl hd)
    · by_cases hut : u = t
      · subst hut; rw [upd_same, hp'] at hu; simp [zhExact] at hu
      · rw [upd_other _ _ _ _ hut] at hu; exact b4 (Or.inr ⟨u, hu⟩)
  · intro x hx
    rw [hnext]
    rcases b5 x hx with h' | ⟨u, hu⟩
    · exact Or.inl h'
    · by_cases hut : u = t
      · subst hut; rw [hpc] at hu; simp [reaper] at hu
      · exact Or.inr ⟨u, by rw [upd_other _ _ _ _ hut]; exact hu⟩
  · intro u w' x hu
    by_cases hut : u = t
    · subst hut; rw [upd_same] at hu; cases hu
    · rw [upd_other _ _ _ _ hut] at hu
      have := b6 u w' x hu
      have hxa : x ≠ a := by intro e; subst e; rw [haown] at this; injection this.2 with e; exact hut e.symm
      rw [upd_other _ _ _ _ hxa]; exact this
  · intro x hx u hu
    by_cases hxa : x = a
    · subst hxa; rw [upd_same] at hu; cases hu
    · rw [upd_other _ _ _ _ hxa] at hu
      obtain ⟨w', hw'⟩ := b7 x hx u hu
      by_cases hut : u = t
      · subst hut; rw [hh] at hw'; injection hw' with _ e; exact absurd e.symm hxa
      · exact ⟨w', by rw [upd_other _ _ _ _ hut]; exact hw'⟩
  · intro u x hu
    by_cases hut : u = t
    · subst hut; rw [upd_same, hp'] at hu; simp [privRec] at hu
    · rw [upd_other _ _ _ _ hut] at hu ⊢; exact b8 u x hu
  · intro u v x hu hv
    by_cases hut : u = t
    · subst hut; rw [upd_same, hp'] at hu; simp [privRec] at hu
    · by_cases hvt : v = t
      · subst hvt; rw [upd_same, hp'] at hv; simp [privRec] at hv
      · rw [upd_other _ _ _ _ hut] at hu; rw [upd_other _ _ _ _ hvt] at hv; exact b9 u v x hu hv
  · intro u; by_cases hut : u = t
    · subst hut; rw [upd_same, hp']; trivial
    · rw [upd_other _ _ _ _ hut]; exact regOwnP_congr (b10 u) (fun x hx => hpv u x hx)
  · intro u; by_cases hut : u = t
    · subst hut; rw [upd_same, hp']; trivial
    · rw [upd_other _ _ _ _ hut]
      exact scanP_mono (b11 u) rfl (fun x _ hn => hmono x hn)
  · intro u; by_cases hut : u = t
    · subst hut; rw [upd_same, hp']; trivial
    · rw [upd_other _ _ _ _ hut]
      exact reapP_mono (b12 u) rfl (fun x _ hn => hmono x hn) (fun x hx => hpv u x hx)
  · intro u; by_cases hut : u = t
    · subst hut; rw [upd_same, hp']; trivial
    · rw [upd_other _ _ _ _ hut]; exact dtorP_congr (b13 u) rfl (fun x hx => hpv u x hx)
  · intro x hx
    rcases b14 x hx with h' | h' | ⟨u, hu⟩
    · exact Or.inl h'
    · exact Or.inr (Or.inl h')
    · by_cases hut : u = t
      · subst hut; rw [hpc] at hu; simp [privRec] at hu
      · exact Or.inr (Or.inr ⟨u, by rw [upd_other _ _ _ _ hut]; exact hu⟩)

/-- K10: a handle is taken / an unused handle is dropped: no registered handle changes -/
theorem invB_hnd {s : St} {t : Tid} (h : InvB s) (hnd' : Tid → Hnd) (live' : List Tid) (it' : Tid → Option (Option Nat))
    (hh : ∀ u w r, hnd' u = .reg w r ↔ s.hnd u = .reg w r) (p' : Pc) (hp' : BView p' = BView (s.pc t)) :
    InvB ({ s with hnd := hnd', live := live', it := it' }.setPc t p') := by
  have hv : (fun u => BView (({ s with hnd := hnd', live := live', it := it' }.setPc t p').pc u)) = fun u => BView (s.pc u) :=
    bview_setPc (s := { s with hnd := hnd', live := live', it := it' }) hp'
  obtain ⟨b1, b2, b3, b4, b5, b6, b7, b8, b9, b10, b11, b12, b13, b14⟩ := h
  have hvu : ∀ u, BView (upd s.pc t p' u) = BView (s.pc u) := fun u => congrFun hv u
  refine ⟨b1, b2, b3, ?_, ?_, ?_, ?_, ?_, ?_, ?_, ?_, ?_, ?_, ?_⟩
  all_goals simp only [bview_recs, bview_rled, bview_nR, bview_log, bview_zhead, bview_dt, bview_hnd, bview_vpc,
    setPc_recs, setPc_rled, setPc_nR, setPc_log, setPc_zhead, setPc_dt, setPc_hnd, setPc_pc, hvu] at *
  · exact b4
  · exact b5
  · intro u w x hu; exact b6 u w x ((hh u w x).1 hu)
  · intro x hx u hu; obtain ⟨w, hw⟩ := b7 x hx u hu; exact ⟨w, (hh u w x).2 hw⟩
  · exact b8
  · exact b9
  · intro u; exact regOwnP_congr (b10 u) (fun _ _ => rfl)
  · intro u; exact scanP_mono (b11 u) rfl (fun _ _ hn => hn)
  · intro u; exact reapP_mono (b12 u) rfl (fun _ _ hn => hn) (fun _ _ => rfl)
  · intro u; exact dtorP_congr (b13 u) rfl (fun _ _ => rfl)
  · exact b14

/-- K11: the destructor starts -/
theorem invB_dt {s : St} {t : Tid} (h : InvB s) (hd : s.dt = false) (hpc : BView (s.pc t) = .idle) :
    InvB ({ s with dt := true }.setPc t (.called .dtor)) := by
  obtain ⟨b1, b2, b3, b4, b5, b6, b7, b8, b9, b10, b11, b12, b13, b14⟩ := h
  simp only [bview_recs, bview_rled, bview_nR, bview_log, bview_zhead, bview_dt, bview_hnd, bview_vpc] at *
  refine ⟨b1, b2, b3, ?_, ?_, b6, b7, ?_, ?_, ?_, ?_, ?_, ?_, ?_⟩
  all_goals simp only [bview_recs, bview_rled, bview_nR, bview_log, bview_zhead, bview_dt, bview_hnd, bview_vpc,
    setPc_recs, setPc_rled, setPc_nR, setPc_log, setPc_zhead, setPc_dt, setPc_hnd, setPc_pc]
  · intro _; exact b4 (Or.inl hd)
  · intro x hx
    rcases b5 x hx with h' | ⟨u, hu⟩
    · exact Or.inl h'
    · by_cases hut : u = t
      · subst hut; rw [hpc] at hu; simp [reaper] at hu
      · exact Or.inr ⟨u, by rw [upd_other _ _ _ _ hut]; exact hu⟩
  · intro u x hu
    by_cases hut : u = t
    · subst hut; rw [upd_same] at hu; simp [BView, privRec] at hu
    · rw [upd_other _ _ _ _ hut] at hu ⊢; exact b8 u x hu
  · intro u v x hu hv
    by_cases hut : u = t
    · subst hut; rw [upd_same] at hu; simp [BView, privRec] at hu
    · by_cases hvt : v = t
      · subst hvt; rw [upd_same] at hv; simp [BView, privRec] at hv
      · rw [upd_other _ _ _ _ hut] at hu; rw [upd_other _ _ _ _ hvt] at hv; exact b9 u v x hu hv
  · intro u; by_cases hut : u = t
    · subst hut; rw [upd_same]; trivial
    · rw [upd_other _ _ _ _ hut]; exact regOwnP_congr (b10 u) (fun _ _ => rfl)
  · intro u; by_cases hut : u = t
    · subst hut; rw [upd_same]; trivial
    · rw [upd_other _ _ _ _ hut]; exact scanP_mono (b11 u) rfl (fun _ _ hn => hn)
  · intro u; by_cases hut : u = t
    · subst hut; rw [upd_same]; trivial
    · rw [upd_other _ _ _ _ hut]; exact reapP_mono (b12 u) rfl (fun _ _ hn => hn) (fun _ _ => rfl)
  · intro u; by_cases hut : u = t
    · subst hut; rw [upd_same]; trivial
    · rw [upd_other _ _ _ _ hut]; exact dtorP_congr (b13 u) rfl (fun _ _ => rfl)
  · intro x hx
    rcases b14 x hx with h' | h' | ⟨u, hu⟩
    · exact Or.inl h'
    · exact Or.inr (Or.inl h')
    · by_cases hut : u = t
      · subst hut; rw [hpc] at hu; simp [privRec] at hu
      · exact Or.inr (Or.inr ⟨u, by rw [upd_other _ _ _ _ hut]; exact hu⟩)

/-- the record the thread held privately has been freed; the thread holds none now -/
theorem invB_free {s : St} {t : Tid} (h : InvB s) (p' : Pc) (m0 : Nat)
    (hold : privRec (BView (s.pc t)) = some m0) (hnew : privRec (BView p') = none)
    (hre : reaper (BView p') = reaper (BView (s.pc t))) (hz : zhExact (BView p') = false)
    (hP : ∀ b' : BSt, b'.recs = s.recs → b'.log = s.log →
      RegOwnP b' t (BView p') ∧ ScanP b' (BView p') ∧ ReapP b' (BView p') ∧ DtorP b' (BView p')) :
    InvB ({ s with rled := upd s.rled m0 .freed }.setPc t p') := by
  obtain ⟨b1, b2, b3, b4, b5, b6, b7, b8, b9, b10, b11, b12, b13, b14⟩ := h
  simp only [bview_recs, bview_rled, bview_nR, bview_log, bview_zhead, bview_dt, bview_hnd, bview_vpc] at *
  have hml : m0 ∉ s.log := (b8 t m0 hold).1
  have hoth : ∀ u, u ≠ t → ∀ x, privRec (BView (s.pc u)) = some x → x ≠ m0 := by
    intro u hut x hx he; subst he; exact hut (b9 u t x hx hold)
  have hP' := hP { s.bview with rled := upd s.rled m0 .freed } rfl rfl
  refine ⟨?_, b2, ?_, ?_, ?_, b6, b7, ?_, ?_, ?_, ?_, ?_, ?_, ?_⟩
  all_goals simp only [bview_recs, bview_rled, bview_nR, bview_log, bview_zhead, bview_dt, bview_hnd, bview_vpc,
    setPc_recs, setPc_rled, setPc_nR, setPc_log, setPc_zhead, setPc_dt, setPc_hnd, setPc_pc]
  · intro x
    by_cases hx : x = m0
    · subst hx; rw [upd_same]
      have h1 := (b8 t x hold).2
      constructor
      · intro hc; cases hc
      · intro hc; have := (b1 x).2 hc; rw [h1] at this; exact absurd this (privLed_ne_none _)
    · rw [upd_other _ _ _ _ hx]; exact b1 x
  · intro x hx
    rw [upd_other _ _ _ _ (fun e => by subst e; exact hml hx)]; exact b3 x hx
  · rintro (hd | ⟨u, hu⟩)
    · exact b4 (Or.inl hd)
    · by_cases hut : u = t
      · subst hut; rw [upd_same, hz] at hu; cases hu
      · rw [upd_other _ _ _ _ hut] at hu; exact b4 (Or.inr ⟨u, hu⟩)
  · intro a ha
    rcases b5 a ha with h' | ⟨u, hu⟩
    · exact Or.inl h'
    · by_cases hut : u = t
      · subst hut; exact Or.inr ⟨u, by rw [upd_same, hre]; exact hu⟩
      · exact Or.inr ⟨u, by rw [upd_other _ _ _ _ hut]; exact hu⟩
  · intro u x hu
    by_cases hut : u = t
    · subst hut; rw [upd_same, hnew] at hu; cases hu
    · rw [upd_other _ _ _ _ hut] at hu ⊢
      rw [upd_other _ _ _ _ (hoth u hut x hu)]; exact b8 u x hu
  · intro u v x hu hv
    by_cases hut : u = t
    · subst hut; rw [upd_same, hnew] at hu; cases hu
    · by_cases hvt : v = t
      · subst hvt; rw [upd_same, hnew] at hv; cases hv
      · rw [upd_other _ _ _ _ hut] at hu; rw [upd_other _ _ _ _ hvt] at hv; exact b9 u v x hu hv
  · intro u; by_cases hut : u = t
    · subst hut; rw [upd_same]; exact hP'.1
    · rw [upd_other _ _ _ _ hut]; exact regOwnP_congr (b10 u) (fun _ _ => rfl)
  · intro u; by_cases hut : u = t
    · subst hut; rw [upd_same]; exact hP'.2.1
    · rw [upd_other _ _ _ _ hut]; exact scanP_mono (b11 u) rfl (fun _ _ hn => hn)
  · intro u; by_cases hut : u = t
    · subst hut; rw [upd_same]; exact hP'.2.2.1
    · rw [upd_other _ _ _ _ hut]; exact reapP_mono (b12 u) rfl (fun _ _ hn => hn) (fun _ _ => rfl)
  · intro u; by_cases hut : u = t
    · subst hut; rw [upd_same]; exact hP'.2.2.2
    · rw [upd_other _ _ _ _ hut]; exact dtorP_congr (b13 u) rfl (fun _ _ => rfl)
  · intro x hx
    by_cases hxm : x = m0
    · subst hxm; left; rw [upd_same]
    · rw [upd_other _ _ _ _ hxm]
      rcases b14 x hx with h' | h' | ⟨u, hu⟩
      · exact Or.inl h'
      · exact Or.inr (Or.inl h')
      · by_cases hut : u = t
        · subst hut; rw [hold] at hu; injection hu with hu; exact absurd hu.symm hxm
        · exact Or.inr (Or.inr ⟨u, by rw [upd_other _ _ _ _ hut]; exact hu⟩)

/-- in the destructor phase every other thread is outside the list -/
theorem others_idle {s : St} {t : Tid} (ha : InvA s) (hdt : s.dt = true) (hd : inDtor (s.pc t) = true) :
    ∀ u, u ≠ t → BView (s.pc u) = .idle := by
  intro u hut
  have hnone : s.hnd u = .none := by
    have := ha.liveIff u
    rw [ha.dtl hdt] at this
    cases hh : s.hnd u
    · rfl
    · exact absurd (this.2 (by simp [hh])) (by simp)
    · exact absurd (this.2 (by simp [hh])) (by simp)
  have hok := ha.hok u
  rw [hnone] at hok
  have hnd : inDtor (s.pc u) = false := by
    cases hc : inDtor (s.pc u) with
    | false => rfl
    | true => exact absurd (ha.dtu u t hc hd) hut
  cases hp : s.pc u with
  | idle => simp [BView]
  | called k => rw [hp] at hok hnd; cases k <;> simp_all [hndOk, hcls, Hnd.isNone, inDtor, BView]
  | retp k => rw [hp] at hok hnd; cases k <;> simp_all [hndOk, hcls, Hnd.isNone, inDtor, BView]
  | pushStore c r e => rw [hp] at hok hnd; cases c <;> simp_all [hndOk, hcls, Hnd.isNone, Hnd.isFresh, Hnd.isReg]
  | pushCas c r e => rw [hp] at hok hnd; cases c <;> simp_all [hndOk, hcls, Hnd.isNone, Hnd.isFresh, Hnd.isReg]
  | _ => rw [hp] at hok hnd; simp_all [hndOk, hcls, Hnd.isNone, Hnd.isFresh, Hnd.isReg, inDtor, BView]

theorem no_hnd_in_dt {s : St} (ha : InvA s) (hdt : s.dt = true) (u : Tid) : s.hnd u = .none := by
  have := ha.liveIff u
  rw [ha.dtl hdt] at this
  cases hh : s.hnd u
  · rfl
  · exact absurd (this.2 (by simp [hh])) (by simp)
  · exact absurd (this.2 (by simp [hh])) (by simp)

/-- K6 (destructor): the destructor takes the newest record off the log -/
theorem invB_dpop {s : St} {t : Tid} (ha : InvA s) (h : InvB s) (m : Nat) (rled' : Nat → Led)
    (hdt : s.dt = true) (hd : inDtor (s.pc t) = true) (hhead : s.log.head? = some m)
    (hold : (privRec (BView (s.pc t)) = none ∧ rled' = s.rled) ∨
            (∃ m0, privRec (BView (s.pc t)) = some m0 ∧ rled' = upd s.rled m0 .freed))
    (hro : reaper (BView (s.pc t)) = none) :
    InvB ({ s with rled := rled', log := s.log.erase m }.setPc t (.dOwner m)) := by
  have hidle := others_idle ha hdt hd
  have hnoh := no_hnd_in_dt ha hdt
  have hmyr := ha.myr
  have hb := h
  obtain ⟨b1, b2, b3, b4, b5, b6, b7, b8, b9, b10, b11, b12, b13, b14⟩ := h
  simp only [bview_recs, bview_rled, bview_nR, bview_log, bview_zhead, bview_dt, bview_hnd, bview_vpc] at *
  have hinact : ∀ x ∈ s.log, (s.recs x).owner = none := by
    intro x hx
    cases ho : (s.recs x).owner with
    | none => rfl
    | some u => obtain ⟨w, hw⟩ := b7 x hx u ho; rw [hnoh u] at hw; cases hw
  have hmlog : m ∈ s.log := by
    cases hl : s.log with
    | nil => rw [hl] at hhead; cases hhead
    | cons z zs => rw [hl] at hhead; simp at hhead; subst hhead; simp
  have herase : s.log.erase m = s.log.tail := erase_head hhead
  have hbelow_m : Below s.log m = s.log.tail := by
    cases hl : s.log with
    | nil => rw [hl] at hhead; cases hhead
    | cons z zs => rw [hl] at hhead; simp at hhead; subst hhead; simp
  have hsub : ∀ x, x ∈ s.log.erase m → x ∈ s.log := fun x hx => List.mem_of_mem_erase hx
  have hne_m : ∀ x, x ∈ s.log.erase m → x ≠ m := by
    intro x hx e; subst e; exact (List.Nodup.mem_erase_iff b2).1 hx |>.1 rfl
  have hm0 : ∀ m0, privRec (BView (s.pc t)) = some m0 → m0 ∉ s.log := fun m0 h0 => (b8 t m0 h0).1
  have hrled : ∀ x, x ∈ s.log → rled' x = s.rled x := by
    intro x hx
    rcases hold with ⟨_, he⟩ | ⟨m0, hp0, he⟩
    · rw [he]
    · rw [he, upd_other]; intro e; exact hm0 m0 hp0 (e ▸ hx)
  have hoth : ∀ u, u ≠ t → BView (upd s.pc t (.dOwner m) u) = .idle := by
    intro u hut; rw [upd_other _ _ _ _ hut]; exact hidle u hut
  refine ⟨?_, ?_, ?_, ?_, ?_, ?_, ?_, ?_, ?_, ?_, ?_, ?_, ?_, ?_⟩
  all_goals simp only [bview_recs, bview_rled, bview_nR, bview_log, bview_zhead, bview_dt, bview_hnd, bview_vpc,
    setPc_recs, setPc_rled, setPc_nR, setPc_log, setPc_zhead, setPc_dt, setPc_hnd, setPc_pc]
  · intro x
    rcases hold with ⟨_, he⟩ | ⟨m0, hp0, he⟩
    · rw [he]; exact b1 x
    · rw [he]
      by_cases hx : x = m0
      · subst hx; rw [upd_same]
        have h1 := (b8 t x hp0).2
        constructor
        · intro hc; cases hc
        · intro hc; have := (b1 x).2 hc; rw [h1] at this; exact absurd this (privLed_ne_none _)
      · rw [upd_other _ _ _ _ hx]; exact b1 x
  · exact b2.erase m
  · intro x hx; rw [hrled x (hsub x hx)]; exact b3 x (hsub x hx)
  · rintro (hc | ⟨u, hu⟩)
    · rw [hdt] at hc; cases hc
    · by_cases hut : u = t
      · subst hut; rw [upd_same] at hu; simp [BView, zhExact] at hu
      · rw [hoth u hut] at hu; simp [zhExact] at hu
  · intro x hx
    left
    have hxm := hne_m x hx
    rw [below_erase b2 hxm]
    have : m ∉ Below s.log x := fun hc => head_ne_of_mem_below b2 hc hhead
    rw [List.erase_of_not_mem this]
    exact next_of_inactive ha hb (hsub x hx) (hinact x (hsub x hx))
  · intro u w x hu; rw [hnoh u] at hu; cases hu
  · intro x hx u hu; exact b7 x (hsub x hx) u hu
  · intro u x hu
    by_cases hut : u = t
    · subst hut; rw [upd_same] at hu ⊢
      simp only [BView, privRec] at hu; injection hu with hu; subst hu
      refine ⟨fun hc => hne_m _ hc rfl, ?_⟩
      rw [hrled _ hmlog]; exact b3 _ hmlog
    · rw [hoth u hut] at hu; simp [privRec] at hu
  · intro u v x hu hv
    by_cases hut : u = t <;> by_cases hvt : v = t
    · rw [hut, hvt]
    · rw [hoth v hvt] at hv; simp [privRec] at hv
    · rw [hoth u hut] at hu; simp [privRec] at hu
    · rw [hoth u hut] at hu; simp [privRec] at hu
  · intro u; by_cases hut : u = t
    · subst hut; rw [upd_same]; trivial
    · rw [hoth u hut]; trivial
  · intro u; by_cases hut : u = t
    · subst hut; rw [upd_same]; trivial
    · rw [hoth u hut]; trivial
  · intro u; by_cases hut : u = t
    · subst hut; rw [upd_same]; trivial
    · rw [hoth u hut]; trivial
  · intro u; by_cases hut : u = t
    · subst hut; rw [upd_same]
      simp only [BView, DtorP, bview_recs, bview_log, setPc_recs, setPc_log]
      rw [next_of_inactive ha hb hmlog (hinact m hmlog), hbelow_m, herase]
    · rw [hoth u hut]; trivial
  · intro x hx
    by_cases hxm : x = m
    · subst hxm; exact Or.inr (Or.inr ⟨t, by rw [upd_same]; rfl⟩)
    · rcases b14 x hx with h' | h' | ⟨u, hu⟩
      · left
        rcases hold with ⟨_, he⟩ | ⟨m0, hp0, he⟩
        · rw [he]; exact h'
        · rw [he]; by_cases hx0 : x = m0
          · subst hx0; rw [upd_same]
          · rw [upd_other _ _ _ _ hx0]; exact h'
      · exact Or.inr (Or.inl ((List.mem_erase_of_ne hxm).2 h'))
      · by_cases hut : u = t
        · subst hut
          rcases hold with ⟨hn, _⟩ | ⟨m0, hp0, he⟩
          · rw [hn] at hu; cases hu
          · rw [hp0] at hu; injection hu with hu; subst hu
            left; rw [he, upd_same]
        · rw [hidle u hut] at hu; simp [privRec] at hu

/-- generic case: the B-view does not change -/
local macro "frameB" h:ident : tactic =>
  `(tactic| (refine invB_of_view $h ?_
             simp only [St.bview, setPc_recs, setPc_rled, setPc_nR, setPc_log, setPc_zhead, setPc_dt, setPc_hnd]
             congr 1
             refine bview_setPc ?_
             simp_all [BView]; done))

theorem invB_step_call {s s' : St} {t : Tid} {e : Ev} (ha : InvA s) (h : InvB s) (hs : Step s t e s') (he : e.kind = .call) : InvB s' := by
  cases hs <;> cases he
  all_goals (try (frameB h; done))
  all_goals (try exact h)
  case callDtor hpc hl hd => exact invB_dt h hd (by simp [hpc, BView])

theorem invB_step_ret {s s' : St} {t : Tid} {e : Ev} (ha : InvA s) (h : InvB s) (hs : Step s t e s') (he : e.kind = .ret) : InvB s' := by
  cases hs <;> cases he
  all_goals (try (frameB h; done))
  all_goals (try exact h)
  case retLock w hpc hd =>
    have hn : s.hnd t = .none := by
      have := ha.hok t; rw [hpc] at this
      cases hh : s.hnd t <;> simp [hndOk, hcls, hh, Hnd.isNone] at this ⊢
    refine invB_hnd h _ _ s.it ?_ _ (by simp [hpc, BView])
    intro u w' r
    by_cases hu : u = t
    · subst hu; simp [hn]
    · simp [hu]
  case relFresh w hpc hh =>
    refine invB_hnd h _ _ _ ?_ _ (by simp [hpc, BView])
    intro u w' r
    by_cases hu : u = t
    · subst hu; simp [hh]
    · simp [hu]
  case ret k hpc =>
    refine invB_pc h _ (by simp [BView, zhExact]) ?_ (by simp [BView, privRec]) ?_ (by simp [BView, RegOwnP])
      (by simp [BView, ScanP]) (by simp [BView, ReapP]) (by simp [BView, DtorP])
    · intro a hr; rw [hpc] at hr; cases k <;> simp [BView, reaper] at hr
    · intro r hr; rw [hpc] at hr; cases k <;> simp [BView, privRec] at hr

theorem invB_step_exc {s s' : St} {t : Tid} {e : Ev} (ha : InvA s) (h : InvB s) (hs : Step s t e s') (he : e.kind = .exc) : InvB s' := by
  cases hs <;> cases he
  all_goals (try (frameB h; done))
  all_goals (try exact h)

theorem invB_step_mlk {s s' : St} {t : Tid} {e : Ev} (ha : InvA s) (h : InvB s) (hs : Step s t e s') (he : e.kind = .mlk) : InvB s' := by
  cases hs <;> cases he
  all_goals (try (frameB h; done))
  all_goals (try exact h)

theorem invB_step_mul {s s' : St} {t : Tid} {e : Ev} (ha : InvA s) (h : InvB s) (hs : Step s t e s') (he : e.kind = .mul) : InvB s' := by
  cases hs <;> cases he
  all_goals (try (frameB h; done))
  all_goals (try exact h)
  case pUnlock k hpc hm =>
    have hk : k.isPush = true := by have := ha.opk t; rw [hpc] at this; simpa [opOk] using this
    cases k <;> simp [Op.isPush] at hk
    frameB h

theorem invB_step_alo {s s' : St} {t : Tid} {e : Ev} (ha : InvA s) (h : InvB s) (hs : Step s t e s') (he : e.kind = .alo) : InvB s' := by
  cases hs <;> cases he
  all_goals (try (frameB h; done))
  all_goals (try exact h)
  case regAlo k w hpc hk hh =>
    refine invB_alloc h _ ?_ (by simp [BView, privRec]) (by simp [BView, privLed]) (by simp [BView, reaper])
      (by simp [BView, zhExact]) (by intro b; simp [BView, RegOwnP]) (by intro b; simp [BView, ScanP])
      (by intro b; simp [BView, ReapP]) (by intro b; simp [BView, DtorP])
    rcases hk with rfl | ⟨f, em, v, rfl⟩ <;> simp [hpc, BView]
  case eAlo c orig hpc =>
    exact invB_alloc h _ (by simp [hpc, BView]) (by simp [BView, privRec]) (by simp [BView, privLed]) (by simp [BView, reaper])
      (by simp [BView, zhExact]) (by intro b; simp [BView, RegOwnP]) (by intro b; simp [BView, ScanP])
      (by intro b; simp [BView, ReapP]) (by intro b; simp [BView, DtorP])

theorem invB_step_afl {s s' : St} {t : Tid} {e : Ev} (ha : InvA s) (h : InvB s) (hs : Step s t e s') (he : e.kind = .afl) : InvB s' := by
  cases hs <;> cases he
  all_goals (try (frameB h; done))
  case regFail k w hpc hk hh =>
    rcases hk with rfl | ⟨f, em, v, rfl⟩ <;> frameB h

theorem invB_step_con {s s' : St} {t : Tid} {e : Ev} (ha : InvA s) (h : InvB s) (hs : Step s t e s') (he : e.kind = .con) : InvB s' := by
  cases hs <;> cases he
  all_goals (try (frameB h; done))
  all_goals (try exact h)
  case regCon k r hpc =>
    refine invB_privUpd h _ r _ _ (by simp [hpc, BView, privRec]) (by simp [BView, privRec])
      (fun x hx => upd_other _ _ _ _ hx) (fun x hx => upd_other _ _ _ _ hx) (by simp [BView, privLed])
      (by simp [hpc, BView, reaper]) (by simp [hpc, BView, zhExact]) ?_
    intro b' hr hl
    simp [BView, RegOwnP, ScanP, ReapP, DtorP, hr]
  case eCon c orig z hpc =>
    refine invB_privUpd h _ z _ _ (by simp [hpc, BView, privRec]) (by simp [BView, privRec])
      (fun x hx => upd_other _ _ _ _ hx) (fun x hx => upd_other _ _ _ _ hx) (by simp [BView, privLed])
      (by simp [hpc, BView, reaper]) (by simp [hpc, BView, zhExact]) ?_
    intro b' hr hl
    simp [BView, RegOwnP, ScanP, ReapP, DtorP, hr]

theorem invB_step_des {s s' : St} {t : Tid} {e : Ev} (ha : InvA s) (h : InvB s) (hs : Step s t e s') (he : e.kind = .des) : InvB s' := by
  cases hs <;> cases he
  all_goals (try (frameB h; done))
  all_goals (try exact h)
  case rDesZ r m nx hpc =>
    have hre := h.reap t
    simp only [bview_vpc, hpc, BView, ReapP, bview_log, bview_recs] at hre
    refine invB_privUpd h _ m s.recs _ (by simp [hpc, BView, privRec]) (by simp [BView, privRec])
      (fun x hx => rfl) (fun x hx => upd_other _ _ _ _ hx) (by simp [BView, privLed])
      (by simp [hpc, BView, reaper]) (by simp [hpc, BView, zhExact]) ?_
    intro b' hr hl
    simp only [BView, RegOwnP, ScanP, ReapP, DtorP, hr, hl]
    exact ⟨trivial, trivial, hre, trivial⟩
  case dDesZ m nx hpc =>
    have hre := h.dtr t
    simp only [bview_vpc, hpc, BView, DtorP, bview_log, bview_recs] at hre
    refine invB_privUpd h _ m s.recs _ (by simp [hpc, BView, privRec]) (by simp [BView, privRec])
      (fun x hx => rfl) (fun x hx => upd_other _ _ _ _ hx) (by simp [BView, privLed])
      (by simp [hpc, BView, reaper]) (by simp [hpc, BView, zhExact]) ?_
    intro b' hr hl
    simp only [BView, RegOwnP, ScanP, ReapP, DtorP, hr, hl]
    exact ⟨trivial, trivial, trivial, hre⟩

theorem invB_step_fre {s s' : St} {t : Tid} {e : Ev} (ha : InvA s) (h : InvB s) (hs : Step s t e s') (he : e.kind = .fre) : InvB s' := by
  cases hs <;> cases he
  all_goals (try (frameB h; done))
  all_goals (try exact h)
  case rFreZ r m nx hpc =>
    have hre := h.reap t
    simp only [bview_vpc, hpc, BView, ReapP, bview_log, bview_recs] at hre
    obtain ⟨w, hw⟩ := ha.myr t r (by simp [hpc, myRec])
    cases nx with
    | none =>
      refine invB_free h _ m (by simp [hpc, BView, privRec]) (by simp [BView, privRec]) (by simp [hpc, BView, reaper])
        (by simp [BView, zhExact]) ?_
      intro b' hr hl
      simp only [BView, RegOwnP, ScanP, ReapP, DtorP, hl]
      exact ⟨trivial, trivial, ⟨hre.1, head?_eq_none hre.2.2.symm⟩, trivial⟩
    | some m' =>
      exact invB_pop ha h r m' w _ hw hre.2.1 hre.2.2.symm (Or.inr ⟨m, by simp [hpc, BView, privRec], rfl⟩)
        (Or.inr (by simp [hpc, BView, reaper]))
  case dFreZ m nx hpc =>
    have hre := h.dtr t
    simp only [bview_vpc, hpc, BView, DtorP, bview_log, bview_recs] at hre
    have hdt := ha.dtd t (by simp [hpc, inDtor])
    cases nx with
    | none =>
      refine invB_free h _ m (by simp [hpc, BView, privRec]) (by simp [BView, privRec]) (by simp [hpc, BView, reaper])
        (by simp [BView, zhExact]) ?_
      intro b' hr hl
      simp only [BView, RegOwnP, ScanP, ReapP, DtorP, hl]
      exact ⟨trivial, trivial, trivial, head?_eq_none hre.symm⟩
    | some m' =>
      exact invB_dpop ha h m' _ hdt (by simp [hpc, inDtor]) hre.symm (Or.inr ⟨m, by simp [hpc, BView, privRec], rfl⟩)
        (by simp [hpc, BView, reaper])
  case dFreN m nx hpc =>
    cases nx <;> simp only [St.dNodeAt] <;> frameB h

theorem invB_step_ald {s s' : St} {t : Tid} {e : Ev} (ha : InvA s) (h : InvB s) (hs : Step s t e s') (he : e.kind = .ald) : InvB s' := by
  cases hs <;> cases he
  all_goals (try (frameB h; done))
  all_goals (try exact h)
  case relSome w r m o hpc hh ho hv =>
    have hnx := next_of_own ha h hh (by simp [hpc, BView, reaper])
    rw [hv] at hnx
    have hb2 := h.logNd
    simp only [bview_log] at hb2
    refine invB_pc h _ (by simp [BView, zhExact]) (by simp [hpc, BView, reaper]) (by simp [BView, privRec])
      (by simp [hpc, BView, privRec]) (by simp [BView, RegOwnP]) ?_ (by simp [BView, ReapP]) (by simp [BView, DtorP])
    simp only [BView, ScanP, bview_log, bview_recs]
    refine ⟨head_mem_below hnx.symm, hnx, ?_⟩
    intro x hx hm
    rcases mem_below_cases hb2 hnx.symm hx with e | e
    · subst e; exact absurd hm (not_mem_below_self hb2)
    · exact absurd (below_antisymm hb2 e hm) id
  case relNone w r o hpc hh ho hv =>
    have hnx := next_of_own ha h hh (by simp [hpc, BView, reaper])
    rw [hv] at hnx
    refine invB_pc h _ (by simp [BView, zhExact]) (by simp [hpc, BView, reaper]) (by simp [BView, privRec])
      (by simp [hpc, BView, privRec]) (by simp [BView, RegOwnP]) (by simp [BView, ScanP]) ?_ (by simp [BView, DtorP])
    simp only [BView, ReapP, bview_log]
    exact ⟨(h.own1 t w r hh).1, head?_eq_none hnx.symm⟩
  case regZh k r o v hpc =>
    have hp := h.privOk t r (by simp [hpc, BView, privRec])
    have hu := h.privUq
    have hro := h.regOwn t
    simp only [bview_vpc, hpc, BView, RegOwnP, privLed, bview_log, bview_rled, bview_recs] at hp hro hu
    refine invB_pc h _ (by simp [BView, zhExact]) (by simp [hpc, BView, reaper]) ?_
      (by simp [hpc, BView, privRec]) (by simpa [BView, RegOwnP] using hro) (by simp [BView, ScanP]) (by simp [BView, ReapP])
      (by simp [BView, DtorP])
    intro x hx
    simp only [BView, privRec] at hx; injection hx with hx; subst hx
    refine ⟨hp.1, by simpa [BView, privLed] using hp.2, ?_⟩
    intro u hut hc
    exact hut (hu u t _ hc (by simp [hpc, BView, privRec]))
  case eZh orig z o v hpc =>
    have hp := h.privOk t z (by simp [hpc, BView, privRec])
    have hu := h.privUq
    have hro := h.regOwn t
    simp only [bview_vpc, hpc, BView, RegOwnP, privLed, bview_log, bview_rled, bview_recs] at hp hro hu
    refine invB_pc h _ (by simp [BView, zhExact]) (by simp [hpc, BView, reaper]) ?_
      (by simp [hpc, BView, privRec]) (by simpa [BView, RegOwnP] using hro) (by simp [BView, ScanP]) (by simp [BView, ReapP])
      (by simp [BView, DtorP])
    intro x hx
    simp only [BView, privRec] at hx; injection hx with hx; subst hx
    refine ⟨hp.1, by simpa [BView, privLed] using hp.2, ?_⟩
    intro u hut hc
    exact hut (hu u t _ hc (by simp [hpc, BView, privRec]))
  case uOwnerActive r cached m o u hpc ho hv =>
    exact invB_pc h _ (by simp [BView, zhExact]) (by simp [hpc, BView, reaper]) (by simp [BView, privRec])
      (by simp [hpc, BView, privRec]) (by simp [BView, RegOwnP]) (by simp [BView, ScanP]) (by simp [BView, ReapP])
      (by simp [BView, DtorP])
  case uOwnerInactive r cached m o hpc ho hv =>
    have hsc := h.scan t
    simp only [bview_vpc, hpc, BView, ScanP, bview_log, bview_recs] at hsc
    refine invB_pc h _ (by simp [BView, zhExact]) (by simp [hpc, BView, reaper]) (by simp [BView, privRec])
      (by simp [hpc, BView, privRec]) (by simp [BView, RegOwnP]) ?_ (by simp [BView, ReapP]) (by simp [BView, DtorP])
    simp only [BView, ScanP, bview_log, bview_recs]
    exact ⟨hsc.1, hsc.2.1, hv, hsc.2.2⟩
  case uNextSome r cached m m2 o hpc ho hv =>
    have hsc := h.scan t
    simp only [bview_vpc, hpc, BView, ScanP, bview_log, bview_recs] at hsc
    obtain ⟨h1, h2, h3, h4⟩ := hsc
    have hb2 := h.logNd
    simp only [bview_log] at hb2
    have hmlog := mem_of_mem_below h1
    have hnx := next_of_inactive ha h hmlog h3
    rw [hv] at hnx
    have hm2 : m2 ∈ Below s.log m := head_mem_below hnx.symm
    refine invB_pc h _ (by simp [BView, zhExact]) (by simp [hpc, BView, reaper]) (by simp [BView, privRec])
      (by simp [hpc, BView, privRec]) (by simp [BView, RegOwnP]) ?_ (by simp [BView, ReapP]) (by simp [BView, DtorP])
    simp only [BView, ScanP, bview_log, bview_recs]
    refine ⟨below_trans hb2 h1 hm2, h2, ?_⟩
    intro x hx hmx
    by_cases hxm : x = m
    · subst hxm; exact h3
    · rcases below_total (mem_of_mem_below hx) hmlog hxm with e | e
      · rcases mem_below_cases hb2 hnx.symm e with e' | e'
        · subst e'; exact absurd hmx (not_mem_below_self hb2)
        · exact absurd (below_antisymm hb2 e' hmx) id
      · exact h4 x hx e
  case uNextNone r cached m o hpc ho hv =>
    have hsc := h.scan t
    simp only [bview_vpc, hpc, BView, ScanP, bview_log, bview_recs] at hsc
    obtain ⟨h1, h2, h3, h4⟩ := hsc
    have hb2 := h.logNd
    simp only [bview_log] at hb2
    have hmlog := mem_of_mem_below h1
    have hnx := next_of_inactive ha h hmlog h3
    rw [hv] at hnx
    have hbm : Below s.log m = [] := head?_eq_none hnx.symm
    obtain ⟨w, hw⟩ := ha.myr t r (by simp [hpc, myRec])
    cases cached with
    | none =>
      have := head?_eq_none h2.symm
      rw [this] at h1; simp at h1
    | some c =>
      refine invB_pop ha h r c w _ hw ?_ h2.symm (Or.inl ⟨by simp [hpc, BView, privRec], rfl⟩)
        (Or.inl (by simp [hpc, BView, reaper]))
      intro x hx
      by_cases hxm : x = m
      · subst hxm; exact h3
      · rcases below_total (mem_of_mem_below hx) hmlog hxm with e | e
        · rw [hbm] at e; simp at e
        · exact h4 x hx e
  case rNext r m o hpc ho =>
    have hre := h.reap t
    have hp := h.privOk t m (by simp [hpc, BView, privRec])
    have hu := h.privUq
    simp only [bview_vpc, hpc, BView, ReapP, privLed, bview_log, bview_rled, bview_recs] at hre hp hu
    refine invB_pc h _ (by simp [BView, zhExact]) (by simp [hpc, BView, reaper]) ?_
      (by simp [hpc, BView, privRec]) (by simp [BView, RegOwnP]) (by simp [BView, ScanP]) ?_ (by simp [BView, DtorP])
    · intro x hx
      simp only [BView, privRec] at hx; injection hx with hx; subst hx
      refine ⟨hp.1, by simpa [BView, privLed] using hp.2, ?_⟩
      intro u hut hc
      exact hut (hu u t _ hc (by simp [hpc, BView, privRec]))
    · simp only [BView, ReapP, bview_log, bview_recs]
      exact ⟨hre.1, hre.2.1, hre.2.2.2⟩
  case dRNext m o hpc ho =>
    have hre := h.dtr t
    have hp := h.privOk t m (by simp [hpc, BView, privRec])
    have hu := h.privUq
    simp only [bview_vpc, hpc, BView, DtorP, privLed, bview_log, bview_rled, bview_recs] at hre hp hu
    refine invB_pc h _ (by simp [BView, zhExact]) (by simp [hpc, BView, reaper]) ?_
      (by simp [hpc, BView, privRec]) (by simp [BView, RegOwnP]) (by simp [BView, ScanP]) (by simp [BView, ReapP]) ?_
    · intro x hx
      simp only [BView, privRec] at hx; injection hx with hx; subst hx
      refine ⟨hp.1, by simpa [BView, privLed] using hp.2, ?_⟩
      intro u hut hc
      exact hut (hu u t _ hc (by simp [hpc, BView, privRec]))
    · simp only [BView, DtorP, bview_log, bview_recs]
      exact hre
  case dtorHead o hpc ho =>
    cases hh : s.head <;> simp only [St.dNodeAt] <;> frameB h
  case dZhead o hpc ho =>
    have hdt := ha.dtd t (by simp [hpc, inDtor])
    have hzh := h.zh (Or.inr ⟨t, by simp [hpc, BView, zhExact]⟩)
    simp only [bview_zhead, bview_log] at hzh
    cases hz : s.zhead with
    | none =>
      rw [hz] at hzh
      simp only [St.dRecAt]
      refine invB_pc h _ (by simp [BView, zhExact]) (by simp [hpc, BView, reaper]) (by simp [BView, privRec])
        (by simp [hpc, BView, privRec]) (by simp [BView, RegOwnP]) (by simp [BView, ScanP]) (by simp [BView, ReapP]) ?_
      simp only [BView, DtorP, bview_log]
      exact head?_eq_none hzh.symm
    | some m =>
      rw [hz] at hzh
      exact invB_dpop ha h m _ hdt (by simp [hpc, inDtor]) hzh.symm (Or.inl ⟨by simp [hpc, BView, privRec], rfl⟩)
        (by simp [hpc, BView, reaper])

theorem invB_step_ast {s s' : St} {t : Tid} {e : Ev} (ha : InvA s) (h : InvB s) (hs : Step s t e s') (he : e.kind = .ast) : InvB s' := by
  cases hs <;> cases he
  all_goals (try (frameB h; done))
  all_goals (try exact h)
  case pushStore c r exp o hpc =>
    have hp := h.privOk t r (by simp [hpc, BView, privRec])
    have hro := h.regOwn t
    simp only [bview_vpc, hpc, BView, privLed, bview_log, bview_rled, bview_recs] at hp hro
    refine invB_privUpd h _ r _ s.rled (by simp [hpc, BView, privRec]) (by simp [BView, privRec])
      (fun x hx => upd_other _ _ _ _ hx) (fun x hx => rfl) (by simpa [BView, privLed] using hp.2)
      (by simp [hpc, BView, reaper]) (by simp [hpc, BView, zhExact]) ?_
    intro b' hr hl
    cases c <;> simp only [RegOwnP, bview_recs] at hro <;> simp [BView, RegOwnP, ScanP, ReapP, DtorP, hr, hro]
  case uTrunc r o hpc ho =>
    exact invB_trunc h r (by simp [hpc, BView]) _ (by simp [BView])
  case uClear r o hpc ho =>
    obtain ⟨w, hw⟩ := ha.myr t r (by simp [hpc, myRec])
    exact invB_clear h r w hw (by simp [hpc, BView]) _ (by simp [BView])

theorem invB_step_cas {s s' : St} {t : Tid} {e : Ev} (ha : InvA s) (h : InvB s) (hs : Step s t e s') (he : e.kind = .cas) : InvB s' := by
  cases hs <;> cases he
  all_goals (try (frameB h; done))
  all_goals (try exact h)
  case casRegOk k r o hpc ho =>
    have hf : (s.hnd t).isFresh = true := by
      have := ha.hok t; rw [hpc] at this; simpa [hndOk, hcls] using this
    have hne : s.hnd t ≠ .none := by intro hc; rw [hc] at hf; simp [Hnd.isFresh] at hf
    have hdt : s.dt = false := by
      cases hd : s.dt with
      | false => rfl
      | true =>
        have := ha.dtl hd
        have h2 := (ha.liveIff t).2 hne
        rw [this] at h2; simp at h2
    have hk : k.regOp = true := by have := ha.opk t; rw [hpc] at this; simpa [opOk] using this
    refine invB_push h _ (.reg k) r _ hdt ?_ (by simp [hpc, BView]) ?_ (fun u hu => upd_other _ _ _ _ hu)
      (Or.inl ⟨k, _, rfl, upd_same _ _ _, ?_⟩)
    · intro u; cases hc : inDtor (s.pc u) with
      | false => rfl
      | true => have := ha.dtd u hc; rw [hdt] at this; cases this
    · cases k <;> simp [Op.regOp] at hk <;> simp [BView]
    · intro w x hc; rw [hc] at hf; simp [Hnd.isFresh] at hf
  case casEraseOk orig r o hpc ho =>
    obtain ⟨r0, hr0⟩ := ha.wrW t (by simp [hpc, holdsW])
    have hne : s.hnd t ≠ .none := by rw [hr0]; simp
    have hdt : s.dt = false := by
      cases hd : s.dt with
      | false => rfl
      | true =>
        have := ha.dtl hd
        have h2 := (ha.liveIff t).2 hne
        rw [this] at h2; simp at h2
    refine invB_push (s := s) h _ (.erase orig) r s.hnd hdt ?_ (by simp [hpc, BView]) (by simp [BView]) (fun u _ => rfl)
      (Or.inr ⟨orig, rfl, rfl⟩)
    intro u; cases hc : inDtor (s.pc u) with
    | false => rfl
    | true => have := ha.dtd u hc; rw [hdt] at this; cases this
  case casFail c r exp o hpc ho =>
    have hp := h.privOk t r (by simp [hpc, BView, privRec])
    have hu := h.privUq
    have hro := h.regOwn t
    simp only [bview_vpc, hpc, BView, privLed, bview_log, bview_rled, bview_recs] at hp hro hu
    refine invB_pc h _ (by simp [BView, zhExact]) (by simp [hpc, BView, reaper]) ?_
      (by simp [hpc, BView, privRec]) ?_ (by simp [BView, ScanP]) (by simp [BView, ReapP])
      (by simp [BView, DtorP])
    · intro x hx
      simp only [BView, privRec] at hx; injection hx with hx; subst hx
      refine ⟨hp.1, by simpa [BView, privLed] using hp.2, ?_⟩
      intro u hut hc
      exact hut (hu u t _ hc (by simp [hpc, BView, privRec]))
    · cases c <;> simp only [RegOwnP, bview_recs] at hro <;> simp [BView, RegOwnP, hro]

theorem invB_step_plain {s s' : St} {t : Tid} {e : Ev} (ha : InvA s) (h : InvB s) (hs : Step s t e s') (he : e.kind = .plain) : InvB s' := by
  cases hs <;> cases he
  all_goals (try (frameB h; done))
  all_goals (try exact h)

theorem invB_step {s s' : St} {t : Tid} {e : Ev} (ha : InvA s) (h : InvB s) (hs : Step s t e s') : InvB s' := by
  cases hk : e.kind
  · exact invB_step_call ha h hs hk
  · exact invB_step_ret ha h hs hk
  · exact invB_step_exc ha h hs hk
  · exact invB_step_mlk ha h hs hk
  · exact invB_step_mul ha h hs hk
  · exact invB_step_alo ha h hs hk
  · exact invB_step_afl ha h hs hk
  · exact invB_step_con ha h hs hk
  · exact invB_step_des ha h hs hk
  · exact invB_step_fre ha h hs hk
  · exact invB_step_ald ha h hs hk
  · exact invB_step_ast ha h hs hk
  · exact invB_step_cas ha h hs hk
  · exact invB_step_plain ha h hs hk

end ConcVerif.Rcu
