import ConcVerif.Proof.DDInv
/-! Stack grammar of the DelayedDestructor model and the invariants the progress theorem needs:
* `Shape`  — which frame may sit below which, and which frames can be on top of a stack;
* `HoldsL` — a thread whose top frame is a critical-section frame holds the lock (converse of `InvL`);
* `DyPend` — the object of a `dying` frame is pending, and no two threads are about to destroy the same object. -/
namespace ConcVerif.DD

inductive Kind | call | d | dy | x
  deriving DecidableEq

/-- what a frame needs below it: `call` — user code (or nothing); `d` (a running destroyObjects()) — user code or
its internal caller; `dy` (payload destructor) — user code or the release loop it interrupts; `x` — nothing -/
def Frame.kind : Frame → Kind
  | .dCalled | .dUnlock0 | .dUnlock1 _ _ | .dCb _ _ _ _ | .dInCb _ _ _ _ _ | .dClear _ _ _ _ | .dRelock _ | .dUnlock2 => .d
  | .dying _ | .inDt _ => .dy
  | .xInner _ | .xYield _ | .xSleep _ | .xInnerLast | .xVec | .xRet => .x
  | _ => .call

def isDCaller : List Frame → Bool
  | .gInner _ _ _ :: _ | .xInner _ :: _ | .xInnerLast :: _ => true
  | _ => false

def isReleaser : List Frame → Bool
  | .dClear _ _ _ _ :: _ | .xVec :: _ => true
  | _ => false

def allows (k : Kind) (rest : List Frame) : Bool :=
  match k with
  | .call => userLevel rest
  | .d => userLevel rest || isDCaller rest
  | .dy => userLevel rest || isReleaser rest
  | .x => rest.isEmpty

def shape : List Frame → Bool
  | [] => true
  | f :: rest => allows f.kind rest && shape rest

/-- frames that can be on top of a stack -/
def topF : Frame → Bool
  | .gInner _ _ _ | .xInner _ | .xInnerLast | .xVec | .dClear _ _ _ _ => false
  | .dCb _ _ _ [] => false
  | .dUnlock1 _ [] => false
  | _ => true

def topOk : List Frame → Bool
  | [] => true
  | f :: _ => topF f

def good (fs : List Frame) : Bool := shape fs && topOk fs

@[simp] theorem shape_cons (f : Frame) (rest : List Frame) : shape (f :: rest) = (allows f.kind rest && shape rest) := rfl
@[simp] theorem topOk_cons (f : Frame) (rest : List Frame) : topOk (f :: rest) = topF f := rfl

theorem userLevel_topOk {fs : List Frame} (h : userLevel fs = true) : topOk fs = true := by
  cases fs with
  | nil => rfl
  | cons f r => cases f <;> simp [userLevel] at h <;> rfl

theorem userLevel_not_holds {fs : List Frame} (h : userLevel fs = true) : holds fs = false := by
  cases fs with
  | nil => rfl
  | cons f r => cases f <;> simp [userLevel] at h <;> rfl

/-- the stack below a `d`-kind frame, when it is not an internal caller, is user code -/
theorem allows_d_default {rest : List Frame} (h : allows .d rest = true) (hn : isDCaller rest = false) :
    userLevel rest = true := by
  simpa [allows, hn] using h

theorem allows_dy_default {rest : List Frame} (h : allows .dy rest = true) (hn : isReleaser rest = false) :
    userLevel rest = true := by
  simpa [allows, hn] using h

/-! ### the silent loops keep the stack grammar -/

theorem good_vdrain (s : St) (t : Tid) (rest : List Frame) (v : List ObjId) (hx : allows .x rest = true)
    (hs : shape rest = true) : good ((vdrain s t rest v).stk t) = true := by
  induction v generalizing s with
  | nil => simp [vdrain, good, Frame.kind, hx, hs, topF]
  | cons k v ih =>
    simp only [vdrain]; split
    · simp [good, Frame.kind, allows, isReleaser, hs, topF]; simpa [allows] using hx
    · exact ih _

theorem good_xTop (s : St) (t : Tid) (ii : Nat) (rest : List Frame) (hx : allows .x rest = true)
    (hs : shape rest = true) : good ((xTop s t ii rest).stk t) = true := by
  unfold xTop; split
  · simp [good, Frame.kind, hx, hs, topF]
  · simp [good, Frame.kind, allows, isDCaller, hs, topF]; simpa [allows] using hx

theorem good_xAfter (s : St) (t : Tid) (ii : Nat) (rest : List Frame) (hx : allows .x rest = true)
    (hs : shape rest = true) : good ((xAfter s t ii rest).stk t) = true := by
  unfold xAfter; repeat' split
  · simp [good, Frame.kind, hx, hs, topF]
  · simp [good, Frame.kind, allows, isDCaller, hs, topF]; simpa [allows] using hx
  · simp [good, Frame.kind, hx, hs, topF]
  · simp [good, Frame.kind, hx, hs, topF]

theorem good_dDone (s : St) (t : Tid) (r : Option Nat) (rest : List Frame) (hd : allows .d rest = true)
    (hs : shape rest = true) : good ((dDone s t r rest).stk t) = true := by
  unfold dDone; split
  · simp only [shape_cons, Frame.kind, Bool.and_eq_true] at hs
    simp [good, Frame.kind, hs.1, hs.2, topF]
  · simp only [shape_cons, Frame.kind, Bool.and_eq_true] at hs
    exact good_xAfter _ _ _ _ hs.1 hs.2
  · simp only [shape_cons, Frame.kind, Bool.and_eq_true] at hs
    exact good_vdrain _ _ _ _ hs.1 hs.2
  · rename_i h1 h2 h3
    have hn : isDCaller rest = false := by
      cases rest with
      | nil => rfl
      | cons g r =>
        cases g <;> first | rfl | exact absurd rfl (h1 _ _ _ _) | exact absurd rfl (h2 _ _) | exact absurd rfl (h3 _)
    have hu := allows_d_default hd hn
    simp [good, Frame.kind, allows, hu, hs, topF]

theorem good_drain (s : St) (t : Tid) (sz : Nat) (cbs : List ObjId) (thrown : Bool) (rest : List Frame)
    (ec : List ObjId) (hd : allows .d rest = true) (hs : shape rest = true) :
    good ((drain s t sz cbs thrown rest ec).stk t) = true := by
  induction ec generalizing s with
  | nil =>
    simp only [drain]; split
    · exact good_dDone _ _ _ _ hd hs
    · simp [good, Frame.kind, hd, hs, topF]
  | cons k ec ih =>
    simp only [drain]; split
    · simp [good, Frame.kind, allows, isReleaser, hs, topF]; simpa [allows] using hd
    · exact ih _

theorem good_resume (s : St) (t : Tid) (fs : List Frame) (hd : allows .dy fs = true) (hs : shape fs = true) :
    good ((resume s t fs).stk t) = true := by
  unfold resume; split
  · simp only [shape_cons, Frame.kind, Bool.and_eq_true] at hs
    exact good_drain _ _ _ _ _ _ _ hs.1 hs.2
  · simp only [shape_cons, Frame.kind, Bool.and_eq_true] at hs
    exact good_vdrain _ _ _ _ hs.1 hs.2
  · rename_i h1 h2
    have hn : isReleaser fs = false := by
      cases fs with
      | nil => rfl
      | cons g r => cases g <;> first | rfl | exact absurd rfl (h1 _ _ _ _ _) | exact absurd rfl (h2 _)
    have hu := allows_dy_default hd hn
    simp [good, hs, userLevel_topOk hu]

theorem good_select (s : St) (t : Tid) (skip : List ObjId) (rest : List Frame) (hd : allows .d rest = true)
    (hs : shape rest = true) : good ((select s t skip rest).stk t) = true := by
  unfold select; dsimp only; split
  · simp [good, Frame.kind, hd, hs, topF]
  · rename_i hne
    have : ∀ (n : Nat) (l : List ObjId), l ≠ [] → topF (.dUnlock1 n l) = true := by
      intro n l hl; cases l with
      | nil => exact absurd rfl hl
      | cons a b => rfl
    simp only [good, setStk_stk_same, shape_cons, topOk_cons, Frame.kind, hd, hs, this _ _ hne, Bool.and_self]

theorem good_push {fs : List Frame} (f : Frame) (hu : userLevel fs = true) (hg : good fs = true) (ht : topF f = true)
    (hk : f.kind ≠ .x) : good (f :: fs) = true := by
  have hs : shape fs = true := by simp only [good, Bool.and_eq_true] at hg; exact hg.1
  have ha : allows f.kind fs = true := by
    cases hkk : f.kind <;> simp [allows, hu] ; exact absurd hkk hk
  simp [good, ha, hs, ht]

theorem stepUser_good {s s' : St} {t : Tid} {fs : List Frame} {e : Ev} (h : stepUser s t fs e = some s')
    (hfs : s.stk t = fs) (hu : userLevel fs = true) (hg : good fs = true) : good (s'.stk t) = true := by
  unfold stepUser at h
  split at h
  all_goals (try (repeat' (split at h)))
  all_goals (first | cases h | skip)
  all_goals (first
    | (show good (s.stk t) = true; rw [hfs]; exact hg)
    | (rw [setStk_stk_same]; exact good_push _ hu hg rfl (by simp [Frame.kind]))
    | skip)
  -- callDtor
  rename_i hc
  obtain ⟨rfl, _⟩ := hc
  exact good_xTop _ _ _ _ rfl rfl

theorem good_pop {f : Frame} {rest : List Frame} (hg : good (f :: rest) = true) (hk : f.kind = .call) :
    good rest = true := by
  simp only [good, shape_cons, topOk_cons, Bool.and_eq_true, hk, allows] at hg
  simp [good, hg.1.2, userLevel_topOk hg.1.1]

/-- replacing the top frame by another frame of the same kind that can be on top -/
theorem good_replace {f g : Frame} {rest : List Frame} (hg : good (f :: rest) = true) (hk : g.kind = f.kind)
    (ht : topF g = true) : good (g :: rest) = true := by
  simp only [good, shape_cons, topOk_cons, Bool.and_eq_true] at hg ⊢
  rw [hk]; exact ⟨hg.1, ht⟩

theorem good_parts {f : Frame} {rest : List Frame} (hg : good (f :: rest) = true) :
    allows f.kind rest = true ∧ shape rest = true := by
  simp only [good, shape_cons, topOk_cons, Bool.and_eq_true] at hg
  exact hg.1

theorem gBody_ok (len dc cnt : Nat) : (gBody len dc cnt).kind = .call ∧ topF (gBody len dc cnt) = true := by
  unfold gBody; split <;> exact ⟨rfl, rfl⟩

theorem gNext_ok (len dc cnt es : Nat) : (gNext len dc cnt es).kind = .call ∧ topF (gNext len dc cnt es) = true := by
  unfold gNext; repeat' split
  · exact ⟨rfl, rfl⟩
  · exact gBody_ok _ _ _
  · exact ⟨rfl, rfl⟩

theorem step_good {s s' : St} {t : Tid} {e : Ev} (h : step s t e = some s') (hg : good (s.stk t) = true) :
    good (s'.stk t) = true := by
  cases hfs : s.stk t with
  | nil =>
    simp [step, hfs] at h
    exact stepUser_good h hfs rfl (by rw [hfs] at hg; exact hg)
  | cons f rest =>
    rw [hfs] at hg
    have hparts := good_parts hg
    cases f
    case dInCb sz ec cbs k todo =>
      cases e <;> simp [step, hfs] at h
      all_goals (first | exact stepUser_good h hfs rfl hg | skip)
      case uce =>
        obtain ⟨_, h⟩ := h
        split at h <;> (injection h with h; subst h)
        · exact good_drain _ _ _ _ _ _ _ hparts.1 hparts.2
        · rename_i hne
          rw [setStk_stk_same]
          refine good_replace hg rfl ?_
          cases todo with
          | nil => exact absurd rfl hne
          | cons a b => rfl
      case uth =>
        obtain ⟨_, h⟩ := h; subst h
        exact good_drain _ _ _ _ _ _ _ hparts.1 hparts.2
    case inDt k =>
      cases e <;> simp [step, hfs] at h
      all_goals (first | exact stepUser_good h hfs rfl hg | skip)
      obtain ⟨_, h⟩ := h; subst h
      exact good_resume _ _ _ hparts.1 hparts.2
    case dCb sz ec cbs todo =>
      cases todo with
      | nil => cases e <;> simp [step, hfs] at h
      | cons k todo =>
        cases e <;> simp [step, hfs] at h
        obtain ⟨_, h⟩ := h; subst h
        rw [setStk_stk_same]; exact good_replace hg rfl rfl
    all_goals (cases e <;> simp [step, hfs] at h)
    all_goals (try (obtain ⟨_, h⟩ := h))
    all_goals (try subst h)
    all_goals (try (rw [setStk_stk_same]))
    all_goals (first
      | exact good_replace hg rfl rfl
      | exact good_pop hg rfl
      | skip)
    case dCalled.mtf =>
      split at h
      · split at h
        · injection h with h; subst h; exact good_select _ _ _ _ hparts.1 hparts.2
        · contradiction
      · injection h with h; subst h; exact good_dDone _ _ _ _ hparts.1 hparts.2
    case dUnlock0.mul => exact good_dDone _ _ _ _ hparts.1 hparts.2
    case dUnlock1.mul sz ec _ =>
      split at h <;> (injection h with h; subst h)
      · rw [setStk_stk_same]
        refine good_replace hg rfl ?_
        cases ec with
        | nil => simp [good, topF] at hg
        | cons a b => rfl
      · exact good_drain _ _ _ _ _ _ _ hparts.1 hparts.2
    case dRelock.mtf =>
      split at h
      · split at h
        · injection h with h; subst h; rw [setStk_stk_same]; exact good_replace hg rfl rfl
        · contradiction
      · injection h with h; subst h; exact good_dDone _ _ _ _ hparts.1 hparts.2
    case dUnlock2.mul => exact good_dDone _ _ _ _ hparts.1 hparts.2
    case gCalled.mtf =>
      split at h
      · split at h
        · injection h with h; subst h; rw [setStk_stk_same]
          exact good_replace hg (gNext_ok _ _ _ _).1 (gNext_ok _ _ _ _).2
        · contradiction
      · injection h with h; subst h; rw [setStk_stk_same]; exact good_replace hg rfl rfl
    case gRelockS.mtf =>
      split at h
      · split at h
        · injection h with h; subst h; rw [setStk_stk_same]
          exact good_replace hg (gBody_ok _ _ _).1 (gBody_ok _ _ _).2
        · contradiction
      · injection h with h; subst h; rw [setStk_stk_same]; exact good_replace hg rfl rfl
    case gRelockD.mtf =>
      split at h
      · split at h
        · injection h with h; subst h; rw [setStk_stk_same]
          exact good_replace hg (gNext_ok _ _ _ _).1 (gNext_ok _ _ _ _).2
        · contradiction
      · injection h with h; subst h; rw [setStk_stk_same]; exact good_replace hg rfl rfl
    case xYield.yld => exact good_xTop _ _ _ _ hparts.1 hparts.2
    case xSleep.slp => exact good_xTop _ _ _ _ hparts.1 hparts.2
    case xRet.retDtor =>
      have : rest = [] := by simpa [allows, Frame.kind] using hparts.1
      subst this; rfl

def Shape (s : St) : Prop := ∀ t, good (s.stk t) = true

theorem shape_init (cb ns nt) : Shape (init cb ns nt) := by intro t; simp [init, good, shape, topOk]

theorem shape_step {s s' : St} {t : Tid} {e : Ev} (hI : Shape s) (h : step s t e = some s') : Shape s' := by
  intro u
  by_cases hu : u = t
  · subst hu; exact step_good h (hI u)
  · rw [step_stk_other h hu]; exact hI u

theorem shape_reachable {cb ns nt} {s : St} (h : Reachable cb ns nt s) : Shape s := by
  obtain ⟨es, hr⟩ := h
  exact runFrom_inv (Inv := Shape) (fun _ _ _ _ hi hs => shape_step hi hs) (shape_init cb ns nt) hr

/-! ### the silent loops never end on a critical-section frame -/

theorem nh_vdrain (s : St) (t : Tid) (rest : List Frame) (v : List ObjId) : holds ((vdrain s t rest v).stk t) = false := by
  induction v generalizing s with
  | nil => simp [vdrain, holdsF]
  | cons k v ih => simp only [vdrain]; split; simp [holdsF]; exact ih _

theorem nh_xTop (s : St) (t : Tid) (ii : Nat) (rest : List Frame) : holds ((xTop s t ii rest).stk t) = false := by
  unfold xTop; split <;> simp [holdsF]

theorem nh_xAfter (s : St) (t : Tid) (ii : Nat) (rest : List Frame) : holds ((xAfter s t ii rest).stk t) = false := by
  unfold xAfter; repeat' split
  all_goals simp [holdsF]

theorem nh_dDone (s : St) (t : Tid) (r : Option Nat) (rest : List Frame) : holds ((dDone s t r rest).stk t) = false := by
  unfold dDone; split
  · simp [holdsF]
  · exact nh_xAfter _ _ _ _
  · exact nh_vdrain _ _ _ _
  · simp [holdsF]

theorem nh_drain (s : St) (t : Tid) (sz : Nat) (cbs : List ObjId) (thrown : Bool) (rest : List Frame) (ec : List ObjId) :
    holds ((drain s t sz cbs thrown rest ec).stk t) = false := by
  induction ec generalizing s with
  | nil => simp only [drain]; split; exact nh_dDone _ _ _ _; simp [holdsF]
  | cons k ec ih => simp only [drain]; split; simp [holdsF]; exact ih _

theorem nh_resume (s : St) (t : Tid) (fs : List Frame) (hd : allows .dy fs = true) :
    holds ((resume s t fs).stk t) = false := by
  unfold resume; split
  · exact nh_drain _ _ _ _ _ _ _
  · exact nh_vdrain _ _ _ _
  · rename_i h1 h2
    have hn : isReleaser fs = false := by
      cases fs with
      | nil => rfl
      | cons g r => cases g <;> first | rfl | exact absurd rfl (h1 _ _ _ _ _) | exact absurd rfl (h2 _)
    rw [setStk_stk_same]
    exact userLevel_not_holds (allows_dy_default hd hn)

end ConcVerif.DD
