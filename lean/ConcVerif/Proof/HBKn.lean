import ConcVerif.Proof.HB
import ConcVerif.Proof.HBUtil
/-! "Thread `t` knows position `i`": `i` happens-before-or-is an event of `t`.  Generic over every
mapped trace (used by the rcu_list / cow_guarded happens-before proofs). -/
namespace ConcVerif.HB

/-- position `i` happens-before-or-is an event of thread `t` -/
def Kn (tr : Trace) (t : Tid) (i : Nat) : Prop := ∃ j e, tr[j]? = some (t, e) ∧ HBeq tr i j

theorem Kn.mono {tr : Trace} {t : Tid} {i : Nat} (ext : Trace) (h : Kn tr t i) : Kn (tr ++ ext) t i := by
  obtain ⟨j, e, h1, h2⟩ := h
  exact ⟨j, e, get_mono ext h1, h2.mono ext⟩

theorem Kn.self {tr : Trace} {t : Tid} {i : Nat} {e : Ev} (h : tr[i]? = some (t, e)) : Kn tr t i :=
  ⟨i, e, h, .inl rfl⟩

/-- what `t` knows is ordered before (or is) the event `t` has just performed -/
theorem Kn.hb_last {tr : Trace} {t : Tid} {e : Ev} {i : Nat} (h : Kn (tr ++ [(t, e)]) t i) :
    HBeq (tr ++ [(t, e)]) i tr.length := by
  obtain ⟨j, e', hj, hb⟩ := h
  rcases get_snoc hj with ⟨hl, hj'⟩ | ⟨hl, _⟩
  · exact hb.trans (.inr (.po hl (get_mono _ hj') (get_last tr _)))
  · subst hl; exact hb

theorem Kn.of_last {tr : Trace} {t : Tid} {e : Ev} {i : Nat} (h : HBeq (tr ++ [(t, e)]) i tr.length) :
    Kn (tr ++ [(t, e)]) t i :=
  ⟨tr.length, e, get_last tr _, h⟩

/-- knowledge acquired through a synchronises-with edge into the new event -/
theorem Kn.of_sw {tr : Trace} {t : Tid} {e : Ev} {i k : Nat} (hk : HBeq tr i k)
    (hsw : Sw (tr ++ [(t, e)]) k tr.length) : Kn (tr ++ [(t, e)]) t i :=
  .of_last ((hk.mono _).trans (.inr (.sw hsw)))

/-- what `u` knew is ordered before (or is) the next event of `u` -/
theorem Kn.hbeq_of_own {tr : Trace} {u : Tid} {e : Ev} {i : Nat} (h : Kn tr u i) :
    HBeq (tr ++ [(u, e)]) i tr.length :=
  (h.mono [(u, e)]).hb_last

/-- an earlier position known to `t` strictly happens-before the event `t` has just performed -/
theorem Kn.hb_new {tr : Trace} {t : Tid} {e : Ev} {i : Nat} (hi : i < tr.length) (h : Kn tr t i) :
    HB (tr ++ [(t, e)]) i tr.length := by
  rcases h.hbeq_of_own (e := e) with h | h
  · omega
  · exact h

/-- knowledge is closed under happens-before -/
theorem Kn.of_hbeq {tr : Trace} {t : Tid} {i k : Nat} (hik : HBeq tr i k) (h : Kn tr t k) : Kn tr t i := by
  obtain ⟨j, e, h1, h2⟩ := h
  exact ⟨j, e, h1, hik.trans h2⟩

end ConcVerif.HB
