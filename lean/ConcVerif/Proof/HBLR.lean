import ConcVerif.Proof.LR
import ConcVerif.Proof.HB
/-! Connection of the left-right model (`Model/LR.lean`) to the happens-before layer, part 1: the map
from model events to happens-before events, "thread `t` knows position `i`" (`Kn`), publication through
the write mutex (`Pub`) and the three synchronises-with edges the protocol uses:

* `unlock → lock` of the write mutex;
* the writer's store of `m_readingLeft` → a reader's load of it that reads from that store;
* a reader's decrement of a counter (RMW) → the writer's later load of that counter: the counters are
  only ever written by RMWs, so the release sequence headed by the decrement is never broken.

The memory orders are a parameter (`Ords`): the theorems hold for every assignment in which these four
operations are at least release / acquire (`Ords.OK`); today's code (and the model, which parses no
other order) uses seq_cst everywhere (`Ords.sc`).  The increment and the accesses of `m_countingLeft`
carry no happens-before obligation — they matter for the INTERLEAVING part (C03: seq_cst is what makes
the store-buffering pattern `store rl ; load cnt ∥ inc cnt ; load rl` behave as interleaved), which the
operational memory-model abstraction of `Base/HB.lean` takes as given. -/
namespace ConcVerif.LR
open HB (HBeq)

/-- memory orders of the seven kinds of atomic operation of lr_guarded -/
structure Ords where
  ldRL : HB.Ord := .sc
  stRL : HB.Ord := .sc
  ldCL : HB.Ord := .sc
  stCL : HB.Ord := .sc
  inc : HB.Ord := .sc
  dec : HB.Ord := .sc
  ldCnt : HB.Ord := .sc

/-- what the happens-before argument needs of them -/
structure Ords.OK (o : Ords) : Prop where
  stRL : o.stRL.isRel = true
  ldRL : o.ldRL.isAcq = true
  dec : o.dec.isRel = true
  ldCnt : o.ldCnt.isAcq = true

/-- today's code: everything seq_cst -/
def Ords.sc : Ords := {}

theorem Ords.sc_ok : Ords.sc.OK := ⟨rfl, rfl, rfl, rfl⟩

/-- atomic locations: `m_readingLeft` = 0, `m_countingLeft` = 1, the counters 2 and 3 -/
def cntLoc : Side → HB.Loc
  | .L => 2
  | .R => 3

/-- plain locations: the two copies -/
def copyLoc : Side → HB.Loc
  | .L => 0
  | .R => 1

theorem copyLoc_inj {x y : Side} (h : copyLoc x = copyLoc y) : x = y := by
  cases x <;> cases y <;> simp [copyLoc] at h <;> rfl

/-- happens-before content of a model event (write mutex = mutex 0).  A functor application / copy
assignment is a window `begin … end`; both ends are accesses (the begin of a copy carries the read of
the source, its end the write of the target; `LRConf` below counts both ends as both). `fin` (the
inspection after the run, ordered by the joins of the harness) is not an access of the protocol. -/
def toHB (o : Ords) : Ev → HB.Ev
  | .ldRL _ => .ld 0 o.ldRL
  | .stRL _ => .st 0 o.stRL
  | .ldCL _ => .ld 1 o.ldCL
  | .stCL _ => .st 1 o.stCL
  | .inc c _ => .rmw (cntLoc c) o.inc
  | .dec c _ => .rmw (cntLoc c) o.dec
  | .ldCnt c _ => .ld (cntLoc c) o.ldCnt
  | .lock => .acq 0 .X
  | .unlock => .rel 0 .X
  | .fBegin x => .wr (copyLoc x)
  | .fEnd x _ => .wr (copyLoc x)
  | .cpBegin x => .rd (copyLoc x.flip)
  | .cpEnd x _ => .wr (copyLoc x)
  | .rd x _ => .rd (copyLoc x)
  | _ => .nop

def hbTrace (o : Ords) (es : List (Tid × Ev)) : HB.Trace := es.map (fun p => (p.1, toHB o p.2))

theorem hbTrace_append (o : Ords) (es ext : List (Tid × Ev)) :
    hbTrace o (es ++ ext) = hbTrace o es ++ hbTrace o ext := by simp [hbTrace]

theorem hbTrace_snoc (o : Ords) (es : List (Tid × Ev)) (t : Tid) (e : Ev) :
    hbTrace o (es ++ [(t, e)]) = hbTrace o es ++ [(t, toHB o e)] := by simp [hbTrace]

@[simp] theorem hbTrace_length (o : Ords) (es : List (Tid × Ev)) : (hbTrace o es).length = es.length := by
  simp [hbTrace]

theorem hbTrace_get {o : Ords} {es : List (Tid × Ev)} {i : Nat} {t : Tid} {e : Ev} (h : es[i]? = some (t, e)) :
    (hbTrace o es)[i]? = some (t, toHB o e) := by simp [hbTrace, h]

theorem hbTrace_get_inv {o : Ords} {es : List (Tid × Ev)} {i : Nat} {t : Tid} {he : HB.Ev}
    (h : (hbTrace o es)[i]? = some (t, he)) : ∃ e, es[i]? = some (t, e) ∧ toHB o e = he := by
  simp only [hbTrace, List.getElem?_map] at h
  cases hk : es[i]? with
  | none => simp [hk] at h
  | some p =>
    obtain ⟨u, e⟩ := p
    simp [hk] at h
    exact ⟨e, by rw [h.1], h.2⟩

theorem es_get_lt {es : List (Tid × Ev)} {i : Nat} {p : Tid × Ev} (h : es[i]? = some p) : i < es.length :=
  (List.getElem?_eq_some_iff.mp h).1

theorem es_get_mono {es : List (Tid × Ev)} {i : Nat} {p : Tid × Ev} (ext : List (Tid × Ev)) (h : es[i]? = some p) :
    (es ++ ext)[i]? = some p := by
  rw [List.getElem?_append_left (es_get_lt h)]; exact h

theorem es_get_snoc {es : List (Tid × Ev)} {x p : Tid × Ev} {i : Nat} (h : (es ++ [x])[i]? = some p) :
    (i < es.length ∧ es[i]? = some p) ∨ (i = es.length ∧ p = x) := by
  have hl := es_get_lt h
  simp at hl
  by_cases hi : i < es.length
  · left; rw [List.getElem?_append_left hi] at h; exact ⟨hi, h⟩
  · right
    have : i = es.length := by omega
    subst this
    simp at h
    exact ⟨rfl, h.symm⟩

theorem es_get_last (es : List (Tid × Ev)) (x : Tid × Ev) : (es ++ [x])[es.length]? = some x := by simp

/-- only a store of `m_readingLeft` is mapped to a store of atomic 0 -/
theorem toHB_st0 {o : Ords} {e : Ev} {od : HB.Ord} (h : toHB o e = .st 0 od) : ∃ v, e = .stRL v := by
  cases e <;> simp [toHB] at h
  exact ⟨_, rfl⟩

/-- nothing is mapped to a store of a counter -/
theorem toHB_st_cnt {o : Ords} {e : Ev} {c : Side} {od : HB.Ord} : toHB o e ≠ .st (cntLoc c) od := by
  intro h
  cases e <;> cases c <;> simp [toHB, cntLoc] at h

/-! ### what a thread knows -/

/-- position `i` happens-before-or-is an event of thread `t` -/
def Kn (tr : HB.Trace) (t : Tid) (i : Nat) : Prop := ∃ j e, tr[j]? = some (t, e) ∧ HBeq tr i j

theorem Kn.mono {tr : HB.Trace} {t : Tid} {i : Nat} (ext : HB.Trace) (h : Kn tr t i) : Kn (tr ++ ext) t i := by
  obtain ⟨j, e, h1, h2⟩ := h
  exact ⟨j, e, HB.get_mono ext h1, h2.mono ext⟩

theorem Kn.self {tr : HB.Trace} {t : Tid} {i : Nat} {e : HB.Ev} (h : tr[i]? = some (t, e)) : Kn tr t i :=
  ⟨i, e, h, .inl rfl⟩

/-- what `t` knows is ordered before (or is) the event `t` has just performed -/
theorem Kn.hb_last {tr : HB.Trace} {t : Tid} {e : HB.Ev} {i : Nat} (h : Kn (tr ++ [(t, e)]) t i) :
    HBeq (tr ++ [(t, e)]) i tr.length := by
  obtain ⟨j, e', hj, hb⟩ := h
  rcases HB.get_snoc hj with ⟨hl, hj'⟩ | ⟨hl, _⟩
  · exact hb.trans (.inr (.po hl (HB.get_mono _ hj') (HB.get_last tr _)))
  · subst hl; exact hb

theorem Kn.of_last {tr : HB.Trace} {t : Tid} {e : HB.Ev} {i : Nat} (h : HBeq (tr ++ [(t, e)]) i tr.length) :
    Kn (tr ++ [(t, e)]) t i :=
  ⟨tr.length, e, HB.get_last tr _, h⟩

/-- knowledge acquired through a synchronises-with edge into the new event -/
theorem Kn.of_sw {tr : HB.Trace} {t : Tid} {e : HB.Ev} {i k : Nat} (hk : HBeq tr i k)
    (hsw : HB.Sw (tr ++ [(t, e)]) k tr.length) : Kn (tr ++ [(t, e)]) t i :=
  .of_last ((hk.mono _).trans (.inr (.sw hsw)))

/-- … what another thread `u` knew reaches `t` when `u`'s latest knowledge is released at `k` -/
theorem Kn.hbeq_of_own {tr : HB.Trace} {u : Tid} {e : HB.Ev} {i : Nat} (h : Kn tr u i) :
    HBeq (tr ++ [(u, e)]) i tr.length :=
  (h.mono [(u, e)]).hb_last

/-! ### the three synchronises-with edges -/

/-- an unlock of the write mutex synchronises with the lock that has just been performed -/
theorem sw_mutex {o : Ords} {es : List (Tid × Ev)} {k : Nat} {v t : Tid} (hk : es[k]? = some (v, .unlock)) :
    HB.Sw (hbTrace o es ++ [(t, toHB o .lock)]) k (hbTrace o es).length := by
  have hlt : k < (hbTrace o es).length := by simp; exact es_get_lt hk
  exact .mutex (md := .X) (md' := .X) hlt (HB.get_mono _ (hbTrace_get hk)) (HB.get_last _ _) (.inl rfl)

/-- the latest store of `m_readingLeft` synchronises with the load that has just been performed -/
theorem sw_rl {o : Ords} (ho : o.OK) {es : List (Tid × Ev)} {q : Nat} {w t : Tid} {v v' : Side}
    (hq : es[q]? = some (w, .stRL v)) (hlast : ∀ k w' v'', q < k → es[k]? ≠ some (w', .stRL v'')) :
    HB.Sw (hbTrace o es ++ [(t, toHB o (.ldRL v'))]) q (hbTrace o es).length := by
  have hlt : q < (hbTrace o es).length := by simp; exact es_get_lt hq
  refine .atomic (a := 0) hlt (HB.get_mono _ (hbTrace_get hq)) (HB.get_last _ _) ⟨o.stRL, ho.stRL, .inl rfl⟩
    ⟨o.ldRL, ho.ldRL, .inl rfl⟩ ?_
  intro k u od h1 h2 hc
  rw [List.getElem?_append_left h2] at hc
  obtain ⟨e, he, hm⟩ := hbTrace_get_inv hc
  obtain ⟨v'', rfl⟩ := toHB_st0 hm
  exact hlast k u v'' h1 he

/-- every earlier decrement of a counter synchronises with the load of it that has just been
performed: nothing ever stores to a counter, so no release sequence on it is broken -/
theorem sw_cnt {o : Ords} (ho : o.OK) {es : List (Tid × Ev)} {d : Nat} {r t : Tid} {c : Side} {old v : Nat}
    (hd : es[d]? = some (r, .dec c old)) :
    HB.Sw (hbTrace o es ++ [(t, toHB o (.ldCnt c v))]) d (hbTrace o es).length := by
  have hlt : d < (hbTrace o es).length := by simp; exact es_get_lt hd
  refine .atomic (a := cntLoc c) hlt (HB.get_mono _ (hbTrace_get hd)) (HB.get_last _ _) ⟨o.dec, ho.dec, .inr rfl⟩
    ⟨o.ldCnt, ho.ldCnt, .inl rfl⟩ ?_
  intro k u od _ h2 hc
  rw [List.getElem?_append_left h2] at hc
  obtain ⟨e, _, hm⟩ := hbTrace_get_inv hc
  exact toHB_st_cnt hm

/-- program order inside the mapped trace -/
theorem po_hb {o : Ords} {es : List (Tid × Ev)} {i j : Nat} {t : Tid} {ei ej : Ev} (hij : i < j)
    (hi : es[i]? = some (t, ei)) (hj : es[j]? = some (t, ej)) : HB.HB (hbTrace o es) i j :=
  .po hij (hbTrace_get hi) (hbTrace_get hj)

/-! ### publication through the write mutex -/

/-- position `i` is known to the holder of the write mutex, or — while nobody holds it — ordered
before an unlock (so that the next locker will know it) -/
def Pub (o : Ords) (es : List (Tid × Ev)) : Option Tid → Nat → Prop
  | some t, i => Kn (hbTrace o es) t i
  | none, i => ∃ k v, es[k]? = some (v, Ev.unlock) ∧ HBeq (hbTrace o es) i k

theorem Pub.mono {o : Ords} {es : List (Tid × Ev)} {m : Option Tid} {i : Nat} (ext : List (Tid × Ev))
    (h : Pub o es m i) : Pub o (es ++ ext) m i := by
  cases m with
  | some t => simp only [Pub, hbTrace_append] at *; exact h.mono _
  | none =>
    obtain ⟨k, v, h1, h2⟩ := h
    refine ⟨k, v, es_get_mono ext h1, ?_⟩
    rw [hbTrace_append]; exact h2.mono _

theorem Pub.lock {o : Ords} {es : List (Tid × Ev)} {i : Nat} (t : Tid) (h : Pub o es none i) :
    Pub o (es ++ [(t, .lock)]) (some t) i := by
  obtain ⟨k, v, h1, h2⟩ := h
  simp only [Pub, hbTrace_snoc]
  exact .of_sw h2 (sw_mutex h1)

theorem Pub.unlock {o : Ords} {es : List (Tid × Ev)} {i : Nat} {t : Tid} (h : Pub o es (some t) i) :
    Pub o (es ++ [(t, .unlock)]) none i := by
  refine ⟨es.length, t, es_get_last _ _, ?_⟩
  simp only [Pub] at h
  rw [hbTrace_snoc]
  have := h.hbeq_of_own (e := toHB o .unlock)
  simpa using this

/-- the new event of the holder is known to the holder -/
theorem Pub.self {o : Ords} (es : List (Tid × Ev)) (t : Tid) (e : Ev) :
    Pub o (es ++ [(t, e)]) (some t) es.length := by
  simp only [Pub]
  exact .self (hbTrace_get (es_get_last _ _))

/-- what the holder knows is ordered before the event it has just performed -/
theorem Pub.hb_last {o : Ords} {es : List (Tid × Ev)} {t : Tid} {e : Ev} {i : Nat} (hi : i < es.length)
    (h : Pub o (es ++ [(t, e)]) (some t) i) : HB.HB (hbTrace o (es ++ [(t, e)])) i es.length := by
  simp only [Pub, hbTrace_snoc] at *
  rcases h.hb_last with h | h
  · simp at h; omega
  · simpa using h

end ConcVerif.LR
