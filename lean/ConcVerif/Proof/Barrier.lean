import ConcVerif.Model.Barrier
/-! Inductive invariant of the Barrier model (`Model/Barrier.lean`). -/
namespace ConcVerif.Barrier

/-- pcs at which the thread owns `mtx` -/
def Pc.holds : Pc → Bool
  | .locked _ | .notified _ | .woken _ => true
  | _ => false

/-- inside a call whose arrival has not been counted yet -/
def Pc.before : Pc → Bool
  | .called _ | .locked _ => true
  | _ => false

/-- arrival counted, inside the wait loop -/
def Pc.waiting : Pc → Bool
  | .sleep _ | .woken _ => true
  | _ => false

/-- no call in progress, or the call has passed the barrier -/
def Pc.done : Pc → Bool
  | .idle | .notified _ | .unlocked _ => true
  | _ => false

structure Inv (s : St) : Prop where
  holder : ∀ t, (s.pc t).holds = true ↔ s.mtx = some t
  thr : s.threshold = s.parts.length
  cnt : s.count = s.pending.length
  ndP : s.parts.Nodup
  ndQ : s.pending.Nodup
  sub : ∀ t, t ∈ s.pending → t ∈ s.parts
  /-- participants have arrived `generation` times, plus once if they are no longer pending -/
  arrP : ∀ t, t ∈ s.parts → s.arr t = s.generation + (if t ∈ s.pending then 0 else 1)
  before : ∀ t, (s.pc t).before = true → t ∈ s.pending
  waitg : ∀ t, (s.pc t).waiting = true → s.arr t = s.lGen t + 1 ∧ s.lGen t ≤ s.generation
  done : ∀ t, (s.pc t).done = true → s.arr t ≤ s.generation
  /-- no lost wake-up: whoever is in the wait set waits for the CURRENT generation -/
  sleepers : ∀ t, t ∈ s.waiters → (∃ k, s.pc t = .sleep k) ∧ s.lGen t = s.generation
  ndW : s.waiters.Nodup
  /-- somebody still waiting for the current generation ⇒ some participant has not arrived yet -/
  live : ∀ t, (s.pc t).waiting = true → s.lGen t = s.generation → s.pending ≠ []

theorem inv_init (P : List Tid) (hP : P.Nodup) : Inv (init P) := by
  constructor <;> simp [init, Pc.holds, Pc.before, Pc.waiting, Pc.done, hP]
  intro t ht; simp [ht]

@[simp] theorem setPc_pc (s : St) (t : Tid) (p : Pc) : (s.setPc t p).pc = upd s.pc t p := rfl
@[simp] theorem setPc_threshold (s : St) (t : Tid) (p : Pc) : (s.setPc t p).threshold = s.threshold := rfl
@[simp] theorem setPc_count (s : St) (t : Tid) (p : Pc) : (s.setPc t p).count = s.count := rfl
@[simp] theorem setPc_generation (s : St) (t : Tid) (p : Pc) : (s.setPc t p).generation = s.generation := rfl
@[simp] theorem setPc_mtx (s : St) (t : Tid) (p : Pc) : (s.setPc t p).mtx = s.mtx := rfl
@[simp] theorem setPc_waiters (s : St) (t : Tid) (p : Pc) : (s.setPc t p).waiters = s.waiters := rfl
@[simp] theorem setPc_lGen (s : St) (t : Tid) (p : Pc) : (s.setPc t p).lGen = s.lGen := rfl
@[simp] theorem setPc_parts (s : St) (t : Tid) (p : Pc) : (s.setPc t p).parts = s.parts := rfl
@[simp] theorem setPc_pending (s : St) (t : Tid) (p : Pc) : (s.setPc t p).pending = s.pending := rfl
@[simp] theorem setPc_arr (s : St) (t : Tid) (p : Pc) : (s.setPc t p).arr = s.arr := rfl
@[simp] theorem setPc_n0 (s : St) (t : Tid) (p : Pc) : (s.setPc t p).n0 = s.n0 := rfl

/-- the observation built from the model's own fields is accepted -/
theorem sees_obs (s : St) : s.sees s.obs = true := by
  simp [St.sees, St.obs, obsEq]

/-- the holder is unique: two threads at holding pcs are the same thread -/
theorem holder_unique {s : St} (h : Inv s) {t u : Tid} (ht : (s.pc t).holds = true) (hu : (s.pc u).holds = true) :
    u = t := by
  have a := (h.holder t).1 ht
  have b := (h.holder u).1 hu
  rw [a] at b; injection b with b; exact b.symm

theorem not_waiting {s : St} (h : Inv s) {t : Tid} (hns : ∀ k, s.pc t ≠ .sleep k) : t ∉ s.waiters := by
  intro hin; obtain ⟨⟨k, hk⟩, _⟩ := h.sleepers t hin; exact hns k hk

/-- generic frame lemma: thread `t` changes its pc, and possibly the mutex owner and the wait set;
the barrier fields and the ghost fields stay.  Covers call, ret, mlk, mul, cwk, re-wait. -/
theorem inv_frame {s : St} {t : Tid} {p' : Pc} {m' : Option Tid} {w' : List Tid} (h : Inv s)
    (hH : ∀ u, (upd s.pc t p' u).holds = true ↔ m' = some u)
    (hW : ∀ u, u ∈ w' → (∃ k, upd s.pc t p' u = .sleep k) ∧ s.lGen u = s.generation)
    (hN : w'.Nodup)
    (hb : p'.before = true → t ∈ s.pending)
    (hw : p'.waiting = true → s.arr t = s.lGen t + 1 ∧ s.lGen t ≤ s.generation)
    (hd : p'.done = true → s.arr t ≤ s.generation)
    (hl : p'.waiting = true → s.lGen t = s.generation → s.pending ≠ []) :
    Inv ({ s with mtx := m', waiters := w' }.setPc t p') := by
  obtain ⟨h1, h2, h3, h4, h5, h6, h7, h8, h9, h10, h11, h12, h13⟩ := h
  refine ⟨hH, h2, h3, h4, h5, h6, h7, ?_, ?_, ?_, hW, hN, ?_⟩
  all_goals simp only [setPc_pc, setPc_generation, setPc_lGen, setPc_pending, setPc_arr, upd_apply]
  · intro u; by_cases hu : u = t
    · subst hu; simp; exact hb
    · simp [hu]; exact h8 u
  · intro u; by_cases hu : u = t
    · subst hu; simp; exact hw
    · simp [hu]; exact h9 u
  · intro u; by_cases hu : u = t
    · subst hu; simp; exact hd
    · simp [hu]; exact h10 u
  · intro u; by_cases hu : u = t
    · subst hu; simp; exact hl
    · simp [hu]; exact h13 u

/-- holder bookkeeping: the pc change does not touch ownership -/
theorem holder_same {s : St} {t : Tid} {p' : Pc} (h : Inv s) (hh : p'.holds = (s.pc t).holds) :
    ∀ u, (upd s.pc t p' u).holds = true ↔ s.mtx = some u := by
  intro u; simp only [upd_apply]; by_cases hu : u = t
  · subst hu; simp [hh]; exact h.holder u
  · simp [hu]; exact h.holder u

/-- holder bookkeeping: `t` takes the free mutex -/
theorem holder_lock {s : St} {t : Tid} {p' : Pc} (h : Inv s) (hm : s.mtx = none) (hh : p'.holds = true) :
    ∀ u, (upd s.pc t p' u).holds = true ↔ some t = some u := by
  intro u; simp only [upd_apply]; by_cases hu : u = t
  · subst hu; simp [hh]
  · simp [hu]; have := h.holder u; simp [hm] at this; simp [this]; exact fun h => hu h.symm

/-- holder bookkeeping: the owner `t` releases the mutex -/
theorem holder_unlock {s : St} {t : Tid} {p' : Pc} (h : Inv s) (hm : s.mtx = some t) (hh : p'.holds = false) :
    ∀ u, (upd s.pc t p' u).holds = true ↔ none = some u := by
  intro u; simp only [upd_apply]; by_cases hu : u = t
  · subst hu; simp [hh]
  · simp [hu]; cases hc : (s.pc u).holds with
    | false => rfl
    | true => have := (h.holder u).1 hc; rw [hm] at this; injection this with this; exact absurd this.symm hu

/-- wait-set bookkeeping: unchanged wait set, `t` is not in it -/
theorem waiters_same {s : St} {t : Tid} {p' : Pc} (h : Inv s) (ht : t ∉ s.waiters) :
    ∀ u, u ∈ s.waiters → (∃ k, upd s.pc t p' u = .sleep k) ∧ s.lGen u = s.generation := by
  intro u hu'; simp only [upd_apply]; by_cases hu : u = t
  · subst hu; exact absurd hu' ht
  · simp [hu]; exact h.sleepers u hu'

/-- wait-set bookkeeping: `t` leaves the wait set (or was already removed by a notification) -/
theorem waiters_erase {s : St} {t : Tid} {p' : Pc} (h : Inv s) :
    ∀ u, u ∈ s.waiters.erase t → (∃ k, upd s.pc t p' u = .sleep k) ∧ s.lGen u = s.generation := by
  intro u hu'; simp only [upd_apply]; by_cases hu : u = t
  · subst hu; exact absurd hu' (List.Nodup.not_mem_erase h.ndW)
  · simp [hu]; exact h.sleepers u (List.mem_of_mem_erase hu')

/-- wait-set bookkeeping: `t` (re-)enters the wait set while the generation is still its own -/
theorem waiters_cons {s : St} {t : Tid} {k : Kind} (h : Inv s) (hg : s.lGen t = s.generation) :
    ∀ u, u ∈ t :: s.waiters → (∃ k', upd s.pc t (.sleep k) u = .sleep k') ∧ s.lGen u = s.generation := by
  intro u hu'; simp only [upd_apply]; by_cases hu : u = t
  · subst hu; simp [hg]
  · simp [hu] at hu' ⊢; exact h.sleepers u hu'

@[simp] theorem arriveWait_pc (s : St) (t : Tid) (k : Kind) : (s.arriveWait t k).pc = s.pc := rfl
@[simp] theorem arriveRelease_pc (s : St) (t : Tid) (k : Kind) : (s.arriveRelease t k).pc = s.pc := rfl

/-- what the invariant says about a thread that holds the mutex and has not yet been counted -/
theorem locked_facts {s : St} {t : Tid} {k : Kind} (h : Inv s) (hpc : s.pc t = .locked k) :
    t ∈ s.pending ∧ t ∈ s.parts ∧ s.arr t = s.generation ∧ t ∉ s.waiters ∧
    (∀ u, (s.pc u).holds = true → u = t) := by
  have hp : t ∈ s.pending := h.before t (by simp [hpc, Pc.before])
  have hq : t ∈ s.parts := h.sub t hp
  have ha := h.arrP t hq
  simp [hp] at ha
  exact ⟨hp, hq, ha, not_waiting h (by simp [hpc]), fun u hu => holder_unique h (by simp [hpc, Pc.holds]) hu⟩

/-- an arrival that leaves the generation open (`--count_ > 0`) and enters `cv.wait` -/
theorem inv_arriveWait {s : St} {t : Tid} {k : Kind} (h : Inv s) (hpc : s.pc t = .locked k)
    (hc : 2 ≤ s.count) : Inv ((s.arriveWait t k).setPc t (.sleep k)) := by
  obtain ⟨hp, hq, ha, htw, huniq⟩ := locked_facts h hpc
  obtain ⟨h1, h2, h3, h4, h5, h6, h7, h8, h9, h10, h11, h12, h13⟩ := h
  have hlen : 1 ≤ (s.pending.erase t).length := by
    rw [List.length_erase_of_mem hp]; omega
  refine ⟨?_, ?_, ?_, ?_, ?_, ?_, ?_, ?_, ?_, ?_, ?_, ?_, ?_⟩
  all_goals simp only [St.arriveWait, setPc_pc, setPc_threshold, setPc_count, setPc_generation, setPc_mtx,
    setPc_waiters, setPc_lGen, setPc_parts, setPc_pending, setPc_arr, upd_apply]
  · intro u; by_cases hu : u = t
    · subst hu; simp [Pc.holds]
    · simp [hu]; cases hcu : (s.pc u).holds with
      | false => rfl
      | true => exact absurd (huniq u hcu) hu
  · cases k <;> simp [h2, List.length_erase_of_mem hq]
  · rw [List.length_erase_of_mem hp, h3]
  · cases k <;> simp [h4, h4.erase t]
  · exact h5.erase t
  · intro u hu'
    have hu := (h5.mem_erase_iff).1 hu'
    cases k <;> simp [h6 u hu.2, hu.1]
  · intro u hu'
    by_cases hu : u = t
    · subst hu; simp [h5.not_mem_erase, ha]
    · have hup : u ∈ s.parts := by
        cases k
        · simpa using hu'
        · simp at hu'; exact List.mem_of_mem_erase hu'
      simp [hu, h7 u hup]
  · intro u; by_cases hu : u = t
    · subst hu; simp [Pc.before]
    · simp [hu]; intro hb; exact h8 u hb
  · intro u; by_cases hu : u = t
    · subst hu; simp [ha]
    · simp [hu]; exact h9 u
  · intro u; by_cases hu : u = t
    · subst hu; simp [Pc.done]
    · simp [hu]; exact h10 u
  · intro u hu'; by_cases hu : u = t
    · subst hu; simp
    · simp [hu] at hu' ⊢; exact h11 u hu'
  · exact List.nodup_cons.2 ⟨htw, h12⟩
  · intro u _ _ he; rw [he] at hlen; simp at hlen

/-- the arrival that completes the generation (`--count_ == 0`): bump, reset, wake everybody -/
theorem inv_arriveRelease {s : St} {t : Tid} {k : Kind} (h : Inv s) (hpc : s.pc t = .locked k)
    (hc : s.count = 1) : Inv ((s.arriveRelease t k).setPc t (.notified k)) := by
  obtain ⟨hp, hq, ha, htw, huniq⟩ := locked_facts h hpc
  have hm := (h.holder t).1 (by simp [hpc, Pc.holds])
  obtain ⟨h1, h2, h3, h4, h5, h6, h7, h8, h9, h10, h11, h12, h13⟩ := h
  have hpend : s.pending = [t] := by
    rw [h3] at hc
    obtain ⟨a, ha'⟩ := List.length_eq_one_iff.1 hc
    rw [ha'] at hp ⊢; simp at hp; rw [hp]
  refine ⟨?_, ?_, ?_, ?_, ?_, ?_, ?_, ?_, ?_, ?_, ?_, ?_, ?_⟩
  all_goals simp only [St.arriveRelease, setPc_pc, setPc_threshold, setPc_count, setPc_generation, setPc_mtx,
    setPc_waiters, setPc_lGen, setPc_parts, setPc_pending, setPc_arr, upd_apply]
  · intro u; by_cases hu : u = t
    · subst hu; simp [Pc.holds, hm]
    · simp [hu]; exact h1 u
  · cases k <;> simp [h2, List.length_erase_of_mem hq]
  · cases k <;> simp [h2, List.length_erase_of_mem hq]
  · cases k <;> simp [h4, h4.erase t]
  · cases k <;> simp [h4, h4.erase t]
  · intro u hu'; exact hu'
  · intro u hu'
    by_cases hu : u = t
    · subst hu; simp [hu', ha]
    · have hup : u ∈ s.parts := by
        cases k
        · simpa using hu'
        · simp at hu'; exact List.mem_of_mem_erase hu'
      have := h7 u hup
      simp [hpend, hu] at this
      simp [hu, hu', this]
  · intro u; by_cases hu : u = t
    · subst hu; simp [Pc.before]
    · simp [hu]; intro hb; have := h8 u hb; simp [hpend] at this; exact absurd this hu
  · intro u; by_cases hu : u = t
    · subst hu; simp [Pc.waiting]
    · simp [hu]; intro hw; have := h9 u hw; exact ⟨this.1, by omega⟩
  · intro u; by_cases hu : u = t
    · subst hu; simp [ha]
    · simp [hu]; intro hd; have := h10 u hd; omega
  · intro u hu'; simp at hu'
  · simp
  · intro u; by_cases hu : u = t
    · subst hu; simp [Pc.waiting]
    · simp [hu]; intro hw hg; have := (h9 u hw).2; omega

/-- the four shapes of a step: stutter (plain access), a pc / mutex / wait-set move of the acting
thread, the releasing arrival, the non-releasing arrival -/
theorem step_shape {s s' : St} {t : Tid} {e : Ev} (hs : step s t e = some s') :
    (e = .plain ∧ s' = s) ∨
    (e ≠ .plain ∧ ∃ m' w' p', s' = ({ s with mtx := m', waiters := w' } : St).setPc t p') ∨
    (∃ k, s.pc t = .locked k ∧ e = .cna ∧ s' = (s.arriveRelease t k).setPc t (.notified k)) ∨
    (∃ k o, s.pc t = .locked k ∧ e = .cwt o ∧ s' = (s.arriveWait t k).setPc t (.sleep k)) := by
  unfold step at hs
  split at hs <;> (repeat' (split at hs)) <;> first | contradiction | skip
  all_goals (injection hs with hs; subst hs)
  all_goals first
    | exact Or.inl ⟨rfl, rfl⟩
    | exact Or.inr (Or.inr (Or.inl ⟨_, by assumption, rfl, rfl⟩))
    | exact Or.inr (Or.inr (Or.inr ⟨_, _, by assumption, rfl, rfl⟩))
    | exact Or.inr (Or.inl ⟨by simp, s.mtx, s.waiters, _, rfl⟩)
    | exact Or.inr (Or.inl ⟨by simp, _, s.waiters, _, rfl⟩)
    | exact Or.inr (Or.inl ⟨by simp, _, _, _, rfl⟩)

theorem inv_step (s : St) (t : Tid) (e : Ev) (s' : St) (h : Inv s) (hs : step s t e = some s') : Inv s' := by
  unfold step at hs
  split at hs
  · -- call: only a current participant calls; its previous call has passed the barrier, so it is pending
    rename_i k hpc; split at hs
    · rename_i hin; injection hs with hs; subst hs
      have hd := h.done t (by simp [hpc, Pc.done])
      have ha := h.arrP t hin
      have hp : t ∈ s.pending := by
        apply Classical.byContradiction; intro hn; simp [hn] at ha; omega
      exact inv_frame (m' := s.mtx) (w' := s.waiters) h (holder_same h (by simp [hpc, Pc.holds]))
        (waiters_same h (not_waiting h (by simp [hpc]))) h.ndW (fun _ => hp) (by simp [Pc.waiting])
        (by simp [Pc.done]) (by simp [Pc.waiting])
    · contradiction
  · -- mlk
    rename_i k hpc; split at hs
    · rename_i hm; injection hs with hs; subst hs
      exact inv_frame (w' := s.waiters) h (holder_lock h hm (by simp [Pc.holds]))
        (waiters_same h (not_waiting h (by simp [hpc]))) h.ndW
        (fun _ => h.before t (by simp [hpc, Pc.before])) (by simp [Pc.waiting]) (by simp [Pc.done])
        (by simp [Pc.waiting])
    · contradiction
  · -- plain access while locked
    split at hs
    · injection hs with hs; subst hs; exact h
    · contradiction
  · -- plain access after the release
    split at hs
    · injection hs with hs; subst hs; exact h
    · contradiction
  · -- plain access after a wake-up
    split at hs
    · injection hs with hs; subst hs; exact h
    · contradiction
  · -- releasing arrival
    rename_i k hpc; split at hs
    · rename_i hc; injection hs with hs; subst hs; exact inv_arriveRelease h hpc hc.2
    · contradiction
  · -- non-releasing arrival + cv.wait entry
    rename_i k o hpc; split at hs
    · rename_i hc; injection hs with hs; subst hs; exact inv_arriveWait h hpc hc.2.1
    · contradiction
  · -- mul of the releasing thread
    rename_i k o hpc; split at hs
    · rename_i hc; injection hs with hs; subst hs
      exact inv_frame (w' := s.waiters) h (holder_unlock h hc.1 (by simp [Pc.holds]))
        (waiters_same h (not_waiting h (by simp [hpc]))) h.ndW (by simp [Pc.before]) (by simp [Pc.waiting])
        (fun _ => h.done t (by simp [hpc, Pc.done])) (by simp [Pc.waiting])
    · contradiction
  · -- cv.wait exit
    rename_i k r hpc; split at hs
    · rename_i hm
      have hw := h.waitg t (by simp [hpc, Pc.waiting])
      have hl := h.live t (by simp [hpc, Pc.waiting])
      split at hs
      · split at hs
        · contradiction
        · rename_i hnin; injection hs with hs; subst hs
          exact inv_frame h (holder_lock h hm (by simp [Pc.holds])) (waiters_same h hnin) h.ndW
            (by simp [Pc.before]) (fun _ => hw) (by simp [Pc.done]) (fun _ => hl)
      · split at hs
        · injection hs with hs; subst hs
          exact inv_frame h (holder_lock h hm (by simp [Pc.holds])) (waiters_erase h) (h.ndW.erase t)
            (by simp [Pc.before]) (fun _ => hw) (by simp [Pc.done]) (fun _ => hl)
        · contradiction
    · contradiction
  · -- re-wait: the generation is still the thread's own
    rename_i k o hpc; split at hs
    · rename_i hc; injection hs with hs; subst hs
      have hw := h.waitg t (by simp [hpc, Pc.waiting])
      have hl := h.live t (by simp [hpc, Pc.waiting])
      exact inv_frame h (holder_unlock h hc.1 (by simp [Pc.holds])) (waiters_cons h hc.2.1.symm)
        (List.nodup_cons.2 ⟨not_waiting h (by simp [hpc]), h.ndW⟩)
        (by simp [Pc.before]) (fun _ => hw) (by simp [Pc.done]) (fun _ => hl)
    · contradiction
  · -- leaving the wait loop: the generation has moved on
    rename_i k o hpc; split at hs
    · rename_i hc; injection hs with hs; subst hs
      have hw := h.waitg t (by simp [hpc, Pc.waiting])
      exact inv_frame (w' := s.waiters) h (holder_unlock h hc.1 (by simp [Pc.holds]))
        (waiters_same h (not_waiting h (by simp [hpc]))) h.ndW (by simp [Pc.before]) (by simp [Pc.waiting])
        (fun _ => by have := hc.2.1; omega) (by simp [Pc.waiting])
    · contradiction
  · -- ret
    rename_i k k' hpc; split at hs
    · injection hs with hs; subst hs
      exact inv_frame (m' := s.mtx) (w' := s.waiters) h (holder_same h (by simp [hpc, Pc.holds]))
        (waiters_same h (not_waiting h (by simp [hpc]))) h.ndW (by simp [Pc.before]) (by simp [Pc.waiting])
        (fun _ => h.done t (by simp [hpc, Pc.done])) (by simp [Pc.waiting])
    · contradiction
  · contradiction

theorem inv_reachable {P : List Tid} (hP : P.Nodup) {s : St} (h : Reachable P s) : Inv s := by
  obtain ⟨es, hes⟩ := h
  exact runFrom_inv inv_step (inv_init P hP) hes

end ConcVerif.Barrier
