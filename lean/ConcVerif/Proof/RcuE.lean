import ConcVerif.Proof.Rcu
/-! Layer E of the rcu_list invariant: reachability (DESIGN §7.4 N2–N4).

`Safe r c` — node `c` is protected for a handle registered with log record `r`: it is linked, or its
erase is in progress (unlinked, zombie record not yet on the log), or its zombie record is on the log
*above* `r`.  Every node a registered handle can name (its iterator, the value `erase` is about to
return, the `next` of an unlinked node that is itself protected) is protected; with layer B (a record
is taken off the log only when every older record is inactive) and layer D this gives: every node a
live handle dereferences is constructed and not destroyed. -/
namespace ConcVerif.Rcu

/-- pcs relevant to reachability -/
def EView : Pc → Pc
  | .eOrig c a => .eOrig c a
  | .eDel c o => .eDel c o
  | .eAlloc c o => .eDel c o
  | .eCons c o _ => .eDel c o
  | .eMark c o _ => .eDel c o
  | .eBack c o _ => .eDel c o
  | .eNext c o _ _ => .eDel c o
  | .eUnl c o _ _ _ => .eDel c o
  | .eFix _ o _ _ z => .eZh o z
  | .eZh o z => .eZh o z
  | .pushStore (.erase o) z _ => .eZh o z
  | .pushCas (.erase o) z _ => .eZh o z
  | .eUnlock o => .eUnlock o
  | _ => .idle

structure ESt where
  lst : List Nat
  order : List Nat
  log : List Nat
  zn : Nat → Option Nat
  nx : Nat → Option Nat
  hnd : Tid → Hnd
  it : Tid → Option (Option Nat)
  vpc : Tid → Pc

def St.eview (s : St) : ESt :=
  { lst := s.lst, order := s.order, log := s.log, zn := fun x => (s.recs x).znode, nx := fun n => (s.nodes n).next,
    hnd := s.hnd, it := s.it, vpc := fun u => EView (s.pc u) }

/-- node whose erase is in progress: unlinked, zombie record not yet on the log -/
def pendNode (e : ESt) : Pc → Option Nat
  | .eAlloc c _ => some c
  | .eZh _ z => e.zn z
  | _ => none

/-- the nodes `erase` still needs: the one it works on (until its `deleted` flag has been read) and the one it returns -/
def origOf : Pc → List Nat
  | .eOrig c _ => [c]
  | .eDel c o => c :: o.toList
  | .eAlloc _ o | .eZh o _ | .eUnlock o => o.toList
  | _ => []

def Safe (e : ESt) (r c : Nat) : Prop :=
  c ∈ e.lst ∨ (∃ u, pendNode e (e.vpc u) = some c) ∨ ∃ z ∈ e.log, e.zn z = some c ∧ r ∈ Below e.log z

structure InvEv (e : ESt) : Prop where
  cur : ∀ t w r c, e.hnd t = .reg w r → e.it t = some (some c) → Safe e r c
  org : ∀ t w r x, e.hnd t = .reg w r → x ∈ origOf (e.vpc t) → Safe e r x
  edge : ∀ t w r, e.hnd t = .reg w r → ∀ c ∈ e.order, c ∉ e.lst → ∀ x, e.nx c = some x → Safe e r c → Safe e r x
  pend : ∀ u c, pendNode e (e.vpc u) = some c → c ∈ e.order ∧ ∀ x, e.nx c = some x → x ∈ e.lst

def InvE (s : St) : Prop := InvEv s.eview

theorem invE_init : InvE init := by
  constructor <;> simp [init, St.eview, EView, origOf, pendNode, node0]

theorem invE_of_view {s s' : St} (h : InvE s) (hv : s'.eview = s.eview) : InvE s' := by
  unfold InvE; rw [hv]; exact h

theorem eview_setPc {s : St} {t : Tid} {p' : Pc} (hp : EView p' = EView (s.pc t)) :
    (fun u => EView ((s.setPc t p').pc u)) = fun u => EView (s.pc u) := by
  funext u
  by_cases hu : u = t
  · subst hu; simp [hp]
  · simp [hu]

@[simp] theorem eview_lst (s : St) : s.eview.lst = s.lst := rfl
@[simp] theorem eview_order (s : St) : s.eview.order = s.order := rfl
@[simp] theorem eview_log (s : St) : s.eview.log = s.log := rfl
@[simp] theorem eview_zn (s : St) (x : Nat) : s.eview.zn x = (s.recs x).znode := rfl
@[simp] theorem eview_nx (s : St) (n : Nat) : s.eview.nx n = (s.nodes n).next := rfl
@[simp] theorem eview_hnd (s : St) : s.eview.hnd = s.hnd := rfl
@[simp] theorem eview_it (s : St) : s.eview.it = s.it := rfl
@[simp] theorem eview_vpc (s : St) (u : Tid) : s.eview.vpc u = EView (s.pc u) := rfl

/-- field updates that do not touch `zombie_node` / `next` -/
theorem zn_setRNext (s : St) (r : Nat) (v : Option Nat) :
    (fun x => ((s.setRNext r v).recs x).znode) = fun x => (s.recs x).znode := by
  funext x; simp only [setRNext_recs]; by_cases e : x = r
  · subst e; rw [upd_same]
  · rw [upd_other _ _ _ _ e]
theorem zn_setOwner (s : St) (r : Nat) (v : Option Tid) :
    (fun x => ((s.setOwner r v).recs x).znode) = fun x => (s.recs x).znode := by
  funext x; simp only [setOwner_recs]; by_cases e : x = r
  · subst e; rw [upd_same]
  · rw [upd_other _ _ _ _ e]
theorem nx_setBack (s : St) (n : Nat) (v : Option Nat) :
    (fun x => ((s.setBack n v).nodes x).next) = fun x => (s.nodes x).next := by
  funext x; simp only [setBack_nodes]; by_cases e : x = n
  · subst e; rw [upd_same]
  · rw [upd_other _ _ _ _ e]
theorem nx_setDel (s : St) (n : Nat) (v : Bool) :
    (fun x => ((s.setDel n v).nodes x).next) = fun x => (s.nodes x).next := by
  funext x; simp only [setDel_nodes]; by_cases e : x = n
  · subst e; rw [upd_same]
  · rw [upd_other _ _ _ _ e]

end ConcVerif.Rcu

namespace ConcVerif.Rcu

/-- general preservation lemma of layer E.  `hfwd`: protection is stable for the handles that stay registered;
`hbwd`: an unlinked node that is protected after the step was already unlinked and protected before (with the same
`next`), or its `next` is protected outright; the thread that moves re-establishes its own cursor / return value;
a handle registered by this step (`hnew`) starts with nothing but in-progress erases protected. -/
theorem invE_gen {s s' : St} {t : Tid} (h : InvE s)
    (hfwd : ∀ u w r, s'.hnd u = .reg w r →
      (s.hnd u = .reg w r ∧ ∀ c, Safe s.eview r c → Safe s'.eview r c) ∨
      (u = t ∧ s'.it t = none ∧ origOf (EView (s'.pc t)) = [] ∧
        ∀ c ∈ s'.order, c ∉ s'.lst → ∀ x, (s'.nodes c).next = some x → Safe s'.eview r c → Safe s'.eview r x))
    (hbwd : ∀ u w r, s'.hnd u = .reg w r → s.hnd u = .reg w r → ∀ c ∈ s'.order, c ∉ s'.lst → Safe s'.eview r c →
      (c ∈ s.order ∧ c ∉ s.lst ∧ Safe s.eview r c ∧ (s'.nodes c).next = (s.nodes c).next) ∨
      (∀ x, (s'.nodes c).next = some x → Safe s'.eview r x))
    (hcur : ∀ w r c, s'.hnd t = .reg w r → s'.it t = some (some c) → s.it t = some (some c) ∨ Safe s'.eview r c)
    (hit : ∀ u, u ≠ t → s'.it u = s.it u)
    (horg : ∀ w r x, s'.hnd t = .reg w r → x ∈ origOf (EView (s'.pc t)) →
      x ∈ origOf (EView (s.pc t)) ∨ Safe s'.eview r x)
    (hvpc : ∀ u, u ≠ t → s'.pc u = s.pc u)
    (hpend : ∀ u c, pendNode s'.eview (EView (s'.pc u)) = some c →
      c ∈ s'.order ∧ ∀ x, (s'.nodes c).next = some x → x ∈ s'.lst) :
    InvE s' := by
  obtain ⟨e1, e2, e3, e4⟩ := h
  simp only [eview_lst, eview_order, eview_log, eview_zn, eview_nx, eview_hnd, eview_it, eview_vpc] at e1 e2 e3 e4
  refine ⟨?_, ?_, ?_, ?_⟩
  all_goals simp only [eview_lst, eview_order, eview_log, eview_zn, eview_nx, eview_hnd, eview_it, eview_vpc]
  · intro u w r c hu hc
    rcases hfwd u w r hu with ⟨g1, g2⟩ | ⟨g1, g2, _, _⟩
    · by_cases hut : u = t
      · subst hut
        rcases hcur w r c hu hc with g | g
        · exact g2 c (e1 u w r c g1 g)
        · exact g
      · rw [hit u hut] at hc; exact g2 c (e1 u w r c g1 hc)
    · subst g1; rw [g2] at hc; cases hc
  · intro u w r x hu hx
    rcases hfwd u w r hu with ⟨g1, g2⟩ | ⟨g1, _, g3, _⟩
    · by_cases hut : u = t
      · subst hut
        rcases horg w r x hu hx with g | g
        · exact g2 x (e2 u w r x g1 g)
        · exact g
      · rw [hvpc u hut] at hx; exact g2 x (e2 u w r x g1 hx)
    · subst g1; rw [g3] at hx; simp at hx
  · intro u w r hu c hc hcl x hx hs
    rcases hfwd u w r hu with ⟨g1, g2⟩ | ⟨_, _, _, g4⟩
    · rcases hbwd u w r hu g1 c hc hcl hs with ⟨b1, b2, b3, b4⟩ | b
      · rw [b4] at hx
        exact g2 x (e3 u w r g1 c b1 b2 x hx b3)
      · exact b x hx
    · exact g4 c hc hcl x hx hs
  · exact hpend

/-- protection only depends on `lst`, `log`, the `zombie_node` fields and the erases in progress -/
theorem safe_congr {e e' : ESt} {r c : Nat} (h : Safe e r c) (h1 : e'.lst = e.lst) (h2 : e'.log = e.log)
    (h3 : ∀ z ∈ e.log, e'.zn z = e.zn z) (h4 : ∀ u, pendNode e (e.vpc u) = some c → ∃ u', pendNode e' (e'.vpc u') = some c) :
    Safe e' r c := by
  rcases h with g | ⟨u, g⟩ | ⟨z, g1, g2, g3⟩
  · exact Or.inl (by rw [h1]; exact g)
  · exact Or.inr (Or.inl (h4 u g))
  · exact Or.inr (Or.inr ⟨z, by rw [h2]; exact g1, by rw [h3 z g1]; exact g2, by rw [h2]; exact g3⟩)

theorem eview_nonidle {p : Pc} (h : EView p ≠ .idle) : holdsW p = true := by
  cases p with
  | pushStore c r e => cases c <;> simp [EView] at h <;> simp [holdsW]
  | pushCas c r e => cases c <;> simp [EView] at h <;> simp [holdsW]
  | _ => simp [EView] at h <;> simp [holdsW]

theorem eview_eZh_priv {p : Pc} {o : Option Nat} {z : Nat} (h : EView p = .eZh o z) : privRec (BView p) = some z := by
  cases p with
  | pushStore c r e => cases c <;> simp [EView] at h <;> simp [BView, privRec, h]
  | pushCas c r e => cases c <;> simp [EView] at h <;> simp [BView, privRec, h]
  | _ => simp [EView] at h <;> simp [BView, privRec, h]

/-- only the mutex holder can have an erase in progress -/
theorem pend_holder {s : St} (ha : InvA s) {u : Tid} {c : Nat} (h : pendNode s.eview (EView (s.pc u)) = some c) :
    s.wmtx = some u := by
  apply (ha.wm u).1
  apply eview_nonidle
  intro hc; rw [hc] at h; simp [pendNode] at h

theorem safe_iff_of_eq {e e' : ESt} {r c : Nat} (h1 : e'.lst = e.lst) (h2 : e'.log = e.log)
    (h3 : ∀ z ∈ e.log, e'.zn z = e.zn z) (h4 : ∀ u, pendNode e' (e'.vpc u) = pendNode e (e.vpc u)) :
    Safe e' r c ↔ Safe e r c := by
  constructor
  · intro h
    exact safe_congr h h1.symm h2.symm (fun z hz => (h3 z (by rw [← h2]; exact hz)).symm) (fun u hu => ⟨u, by rw [← h4 u]; exact hu⟩)
  · intro h
    exact safe_congr h h1 h2 h3 (fun u hu => ⟨u, by rw [h4 u]; exact hu⟩)

/-- steps that change neither `lst` / `order` / `log`, nor a `zombie_node` on the log or an erase in progress, nor the
`next` of an unlinked node, nor register a handle -/
theorem invE_eq {s s' : St} {t : Tid} (h : InvE s)
    (hA : ∀ u w r, s'.hnd u = .reg w r → s.hnd u = .reg w r)
    (h1 : s'.lst = s.lst) (h1' : s'.order = s.order) (h2 : s'.log = s.log)
    (h3 : ∀ z ∈ s.log, (s'.recs z).znode = (s.recs z).znode)
    (h4 : ∀ u, pendNode s'.eview (EView (s'.pc u)) = pendNode s.eview (EView (s.pc u)))
    (hnx : ∀ c ∈ s.order, (s'.nodes c).next = (s.nodes c).next)
    (hcur : ∀ w r c, s'.hnd t = .reg w r → s'.it t = some (some c) → s.it t = some (some c) ∨ Safe s.eview r c)
    (hit : ∀ u, u ≠ t → s'.it u = s.it u)
    (horg : ∀ w r x, s'.hnd t = .reg w r → x ∈ origOf (EView (s'.pc t)) →
      x ∈ origOf (EView (s.pc t)) ∨ Safe s.eview r x)
    (hvpc : ∀ u, u ≠ t → s'.pc u = s.pc u) : InvE s' := by
  have hS : ∀ r c, Safe s'.eview r c ↔ Safe s.eview r c := fun r c => safe_iff_of_eq h1 h2 h3 h4
  refine invE_gen (t := t) h ?_ ?_ ?_ hit ?_ hvpc ?_
  · intro u w r hu; exact Or.inl ⟨hA u w r hu, fun c hc => (hS r c).2 hc⟩
  · intro u w r hu hu' c hc hcl hs
    left
    rw [h1'] at hc; rw [h1] at hcl
    exact ⟨hc, hcl, (hS r c).1 hs, hnx c hc⟩
  · intro w r c hu hc
    rcases hcur w r c hu hc with g | g
    · exact Or.inl g
    · exact Or.inr ((hS r c).2 g)
  · intro w r x hu hx
    rcases horg w r x hu hx with g | g
    · exact Or.inl g
    · exact Or.inr ((hS r x).2 g)
  · intro u c hu
    rw [h4 u] at hu
    have := h.pend u c hu
    simp only [eview_nx, eview_lst, eview_order] at this
    rw [h1, h1']
    refine ⟨this.1, ?_⟩
    intro x hx
    rw [hnx c this.1] at hx; exact this.2 x hx

/-- a record is taken off the log (by a reclaimer or by the destructor): no registered handle is below it -/
theorem invE_pop {s : St} {t : Tid} (h : InvE s) (hnd : s.log.Nodup) (m : Nat) (rled' : Nat → Led) (p' : Pc)
    (hp' : EView p' = .idle) (hpt : EView (s.pc t) = .idle)
    (hsafe : ∀ u w r, s.hnd u = .reg w r → r ≠ m ∧ r ∉ Below s.log m) :
    InvE ({ s with rled := rled', log := s.log.erase m }.setPc t p') := by
  have hv : ∀ u, EView (({ s with rled := rled', log := s.log.erase m }.setPc t p').pc u) = EView (s.pc u) := by
    intro u; by_cases hut : u = t
    · subst hut; simp [hp', hpt]
    · simp [hut]
  have hpe : ∀ u, pendNode ({ s with rled := rled', log := s.log.erase m }.setPc t p').eview
      (EView (({ s with rled := rled', log := s.log.erase m }.setPc t p').pc u)) = pendNode s.eview (EView (s.pc u)) := by
    intro u; rw [hv u]; rfl
  refine invE_gen (t := t) h ?_ ?_ (fun w r c hu hc => Or.inl hc) (fun u hut => rfl) ?_ (fun u hut => by simp [hut]) ?_
  · intro u w r hu
    left
    refine ⟨hu, ?_⟩
    intro c hc
    rcases hc with g | ⟨u', g⟩ | ⟨z, g1, g2, g3⟩
    · exact Or.inl g
    · exact Or.inr (Or.inl ⟨u', by simp only [eview_vpc] at g ⊢; rw [hpe u']; exact g⟩)
    · obtain ⟨k1, k2⟩ := hsafe u w r hu
      simp only [eview_log, eview_zn] at g1 g2 g3
      have hzm : z ≠ m := by intro e; subst e; exact k2 g3
      refine Or.inr (Or.inr ⟨z, ?_, g2, ?_⟩)
      · exact (List.mem_erase_of_ne hzm).2 g1
      · show r ∈ Below (s.log.erase m) z
        rw [below_erase hnd hzm]; exact (List.mem_erase_of_ne k1).2 g3
  · intro u w r hu hu' c hc hcl hs
    left
    refine ⟨hc, hcl, ?_, rfl⟩
    rcases hs with g | ⟨u', g⟩ | ⟨z, g1, g2, g3⟩
    · exact Or.inl g
    · exact Or.inr (Or.inl ⟨u', by simp only [eview_vpc] at g ⊢; rw [← hpe u']; exact g⟩)
    · have g1' : z ∈ s.log.erase m := g1
      have hzm : z ≠ m := fun e => by subst e; exact (List.Nodup.mem_erase_iff hnd).1 g1' |>.1 rfl
      have g3' : r ∈ Below (s.log.erase m) z := g3
      rw [below_erase hnd hzm] at g3'
      exact Or.inr (Or.inr ⟨z, List.mem_of_mem_erase g1', g2, List.mem_of_mem_erase g3'⟩)
  · intro w r x hu hx; simp [hp', origOf] at hx
  · intro u c hu
    rw [hpe u] at hu
    exact h.pend u c hu

/-- a node is linked (`push_front` / `push_back`): `lst` and `order` grow by a node that was in neither -/
theorem invE_link {s s' : St} {t : Tid} (h : InvE s) (n : Nat) (hn : n ∉ s.order)
    (hA : s'.hnd = s.hnd) (hl : ∀ x, x ∈ s'.lst ↔ x = n ∨ x ∈ s.lst) (ho : ∀ x, x ∈ s'.order ↔ x = n ∨ x ∈ s.order)
    (hlog : s'.log = s.log) (hrec : s'.recs = s.recs) (hsub : ∀ x ∈ s.lst, x ∈ s.order)
    (hnx : ∀ c ∈ s.order, c ∉ s.lst → (s'.nodes c).next = (s.nodes c).next)
    (hit : s'.it = s.it) (hvt : EView (s'.pc t) = .idle) (hvt' : EView (s.pc t) = .idle)
    (hvpc : ∀ u, u ≠ t → s'.pc u = s.pc u) (hnopend : ∀ u, pendNode s.eview (EView (s.pc u)) = none) : InvE s' := by
  have hv : ∀ u, EView (s'.pc u) = EView (s.pc u) := by
    intro u; by_cases hut : u = t
    · subst hut; rw [hvt, hvt']
    · rw [hvpc u hut]
  have hpe : ∀ u, pendNode s'.eview (EView (s'.pc u)) = pendNode s.eview (EView (s.pc u)) := by
    intro u; rw [hv u]
    cases EView (s.pc u) <;> simp [pendNode, hrec]
  refine invE_gen (t := t) h ?_ ?_ (fun w r c hu hc => Or.inl (by rw [← hit]; exact hc)) (fun u hut => by rw [hit]) ?_ hvpc ?_
  · intro u w r hu
    left
    refine ⟨by rw [← hA]; exact hu, ?_⟩
    intro c hc
    rcases hc with g | ⟨u', g⟩ | ⟨z, g1, g2, g3⟩
    · exact Or.inl ((hl c).2 (Or.inr g))
    · exact Or.inr (Or.inl ⟨u', by simp only [eview_vpc] at g ⊢; rw [hpe u']; exact g⟩)
    · exact Or.inr (Or.inr ⟨z, by simp only [eview_log, hlog]; exact g1, by simp only [eview_zn, hrec]; exact g2,
        by simp only [eview_log, hlog]; exact g3⟩)
  · intro u w r hu hu' c hc hcl hs
    left
    have hcn : c ≠ n := fun e => hcl ((hl c).2 (Or.inl e))
    have hco : c ∈ s.order := by rcases (ho c).1 hc with e | e; exact absurd e hcn; exact e
    have hcl' : c ∉ s.lst := fun e => hcl ((hl c).2 (Or.inr e))
    refine ⟨hco, hcl', ?_, hnx c hco hcl'⟩
    rcases hs with g | ⟨u', g⟩ | ⟨z, g1, g2, g3⟩
    · exact absurd g hcl
    · exact Or.inr (Or.inl ⟨u', by simp only [eview_vpc] at g ⊢; rw [← hpe u']; exact g⟩)
    · exact Or.inr (Or.inr ⟨z, by simp only [eview_log, hlog] at g1; exact g1, by simp only [eview_zn, hrec] at g2; exact g2,
        by simp only [eview_log, hlog] at g3; exact g3⟩)
  · intro w r x hu hx; simp [hvt, origOf] at hx
  · intro u c hu
    rw [hpe u, hnopend u] at hu; cases hu

/-- the unlink store of `erase`: `c` leaves `lst`, its erase is now in progress -/
theorem invE_unlink {s : St} {t : Tid} (h : InvE s) {c z : Nat} {o p x : Option Nat} (hpc : s.pc t = .eUnl c o p x z)
    (hz : (s.recs z).znode = some c)
    (nodes' : Nat → Node) (head' : Option Nat)
    (hoth : ∀ u, u ≠ t → EView (s.pc u) = .idle) (hnd : s.lst.Nodup) (hcl : c ∈ s.lst) (hco : c ∈ s.order)
    (hx : (s.nodes c).next = x) (hxl : ∀ y, x = some y → y ∈ s.lst ∧ y ≠ c)
    (hnx : ∀ y, y ∉ s.lst ∨ y = c → (nodes' y).next = (s.nodes y).next) :
    InvE ({ s with nodes := nodes', head := head', lst := s.lst.erase c }.setPc t (.eFix c o p x z)) := by
  have hsubE : ∀ y, y ∈ s.lst.erase c → y ∈ s.lst ∧ y ≠ c := by
    intro y hy
    exact ⟨List.mem_of_mem_erase hy, fun e => by subst e; exact (List.Nodup.mem_erase_iff hnd).1 hy |>.1 rfl⟩
  have hpold : ∀ u, pendNode s.eview (EView (s.pc u)) = none := by
    intro u; by_cases hut : u = t
    · subst hut; simp [hpc, EView, pendNode]
    · rw [hoth u hut]; rfl
  have hpnew : ∀ u y, pendNode ({ s with nodes := nodes', head := head', lst := s.lst.erase c }.setPc t (.eFix c o p x z)).eview
      (EView (({ s with nodes := nodes', head := head', lst := s.lst.erase c }.setPc t (.eFix c o p x z)).pc u)) = some y →
      u = t ∧ y = c := by
    intro u y hy
    by_cases hut : u = t
    · subst hut; simp [EView, pendNode, St.eview, hz] at hy; exact ⟨rfl, hy.symm⟩
    · simp only [setPc_pc, upd_other _ _ _ _ hut] at hy
      have : EView (s.pc u) = .idle := hoth u hut
      rw [show (({ s with nodes := nodes', head := head', lst := s.lst.erase c } : St).pc u) = s.pc u from rfl, this] at hy
      simp [pendNode] at hy
  refine invE_gen (t := t) h ?_ ?_ (fun w r c' hu hc => Or.inl hc) (fun u hut => rfl) ?_ (fun u hut => by simp [hut]) ?_
  · intro u w r hu
    left
    refine ⟨hu, ?_⟩
    intro y hy
    rcases hy with g | ⟨u', g⟩ | ⟨z, g1, g2, g3⟩
    · by_cases e : y = c
      · subst e; exact Or.inr (Or.inl ⟨t, by simp [EView, pendNode, St.eview, hz]⟩)
      · exact Or.inl ((List.mem_erase_of_ne e).2 g)
    · simp only [eview_vpc] at g; rw [hpold u'] at g; cases g
    · exact Or.inr (Or.inr ⟨z, g1, g2, g3⟩)
  · intro u w r hu hu' y hy hyl hs
    by_cases e : y = c
    · subst e
      right
      intro x' hx'
      have : (nodes' y).next = some x' := hx'
      rw [hnx y (Or.inr rfl), hx] at this
      obtain ⟨k1, k2⟩ := hxl x' this
      exact Or.inl ((List.mem_erase_of_ne k2).2 k1)
    · left
      have hyl' : y ∉ s.lst := fun g => hyl ((List.mem_erase_of_ne e).2 g)
      refine ⟨hy, hyl', ?_, hnx y (Or.inl hyl')⟩
      rcases hs with g | ⟨u', g⟩ | ⟨z, g1, g2, g3⟩
      · exact absurd g hyl
      · simp only [eview_vpc] at g; exact absurd (hpnew u' y g).2 e
      · exact Or.inr (Or.inr ⟨z, g1, g2, g3⟩)
  · intro w r x' hu hx'
    left
    simp only [hpc, EView, origOf, setPc_pc, upd_same] at hx' ⊢
    exact List.mem_cons_of_mem _ hx'
  · intro u y hu
    obtain ⟨k1, k2⟩ := hpnew u y hu
    subst k2
    refine ⟨hco, ?_⟩
    intro x' hx'
    have : (nodes' y).next = some x' := hx'
    rw [hnx y (Or.inr rfl), hx] at this
    obtain ⟨j1, j2⟩ := hxl x' this
    exact (List.mem_erase_of_ne j2).2 j1

local macro "frameE" h:ident : tactic =>
  `(tactic| (refine invE_of_view $h ?_
             simp only [St.eview, setPc_lst, setPc_order, setPc_log, setPc_recs, setPc_nodes, setPc_hnd, setPc_it,
               zn_setRNext, zn_setOwner, nx_setBack, nx_setDel]
             congr 1
             refine eview_setPc ?_
             simp_all [EView]; done))

theorem invE_step_call {s s' : St} {t : Tid} {e : Ev} (hi : Inv s) (he' : InvE s) (hs : Step s t e s') (he : e.kind = .call) : InvE s' := by
  have h := he'
  cases hs <;> cases he
  all_goals (try (frameE h; done))
  all_goals (try exact h)

theorem invE_step_ret {s s' : St} {t : Tid} {e : Ev} (hi : Inv s) (he' : InvE s) (hs : Step s t e s') (he : e.kind = .ret) : InvE s' := by
  have h := he'
  cases hs <;> cases he
  all_goals (try (frameE h; done))
  all_goals (try exact h)
  case retLock w hpc hd =>
    refine invE_eq (t := t) h ?_ rfl rfl rfl (fun _ _ => rfl) (fun u => by
      by_cases hut : u = t
      · subst hut; simp [hpc, EView, pendNode]
      · simp only [setPc_pc, upd_other _ _ _ _ hut]; rfl) (fun _ _ => rfl) ?_ ?_ ?_ ?_
    · intro u w' r hu
      by_cases hut : u = t
      · subst hut; simp at hu
      · simpa [hut] using hu
    · intro w' r c hu; simp at hu
    · intro u hut; rfl
    · intro w' r x hu; simp at hu
    · intro u hut; simp [hut]
  case relFresh w hpc hh =>
    refine invE_eq (t := t) h ?_ rfl rfl rfl (fun _ _ => rfl) (fun u => by
      by_cases hut : u = t
      · subst hut; simp [hpc, EView, pendNode]
      · simp only [setPc_pc, upd_other _ _ _ _ hut]; rfl) (fun _ _ => rfl) ?_ ?_ ?_ ?_
    · intro u w' r hu
      by_cases hut : u = t
      · subst hut; simp at hu
      · simpa [hut] using hu
    · intro w' r c hu; simp at hu
    · intro u hut; simp [hut]
    · intro w' r x hu; simp at hu
    · intro u hut; simp [hut]

theorem invE_step_exc {s s' : St} {t : Tid} {e : Ev} (hi : Inv s) (he' : InvE s) (hs : Step s t e s') (he : e.kind = .exc) : InvE s' := by
  have h := he'
  cases hs <;> cases he
  all_goals (try (frameE h; done))
  all_goals (try exact h)

theorem invE_step_mlk {s s' : St} {t : Tid} {e : Ev} (hi : Inv s) (he' : InvE s) (hs : Step s t e s') (he : e.kind = .mlk) : InvE s' := by
  have h := he'
  cases hs <;> cases he
  all_goals (try (frameE h; done))
  all_goals (try exact h)
  case eraseLock adv r c hpc hh hi' hm =>
    have hsc := h.cur t true r c hh hi'
    refine invE_eq (t := t) h (fun u w r hu => hu) rfl rfl rfl (fun _ _ => rfl) (fun u => by
      by_cases hut : u = t
      · subst hut; simp [hpc, EView, pendNode]
      · simp only [setPc_pc, upd_other _ _ _ _ hut]; rfl) (fun _ _ => rfl)
      (fun w r c' hu hc => Or.inl hc) (fun u hut => rfl) ?_ (fun u hut => by simp [hut])
    intro w' r' x hu hx
    right
    have hr : r' = r := by simp at hu; rw [hh] at hu; injection hu with _ e; exact e.symm
    subst hr
    simp [EView, origOf] at hx; subst hx; exact hsc

theorem invE_step_mul {s s' : St} {t : Tid} {e : Ev} (hi : Inv s) (he' : InvE s) (hs : Step s t e s') (he : e.kind = .mul) : InvE s' := by
  have h := he'
  cases hs <;> cases he
  all_goals (try (frameE h; done))
  all_goals (try exact h)
  case eUnlock orig hpc hm =>
    obtain ⟨r0, hr0⟩ := hi.a.wrW t (by simp [hpc, holdsW])
    refine invE_eq (t := t) h (fun u w r hu => hu) rfl rfl rfl (fun _ _ => rfl) (fun u => by
      by_cases hut : u = t
      · subst hut; simp [hpc, EView, pendNode]
      · simp only [setPc_pc, upd_other _ _ _ _ hut]; rfl) (fun _ _ => rfl) ?_ ?_ ?_ ?_
    · intro w r c hu hc
      right
      simp at hc
      exact h.org t w r c hu (by simp [hpc, EView, origOf, hc])
    · intro u hut; simp [hut]
    · intro w r x hu hx; simp [EView, origOf] at hx
    · intro u hut; simp [hut]

theorem invE_step_alo {s s' : St} {t : Tid} {e : Ev} (hi : Inv s) (he' : InvE s) (hs : Step s t e s') (he : e.kind = .alo) : InvE s' := by
  have h := he'
  cases hs <;> cases he
  all_goals (try (frameE h; done))
  all_goals (try exact h)

theorem invE_step_afl {s s' : St} {t : Tid} {e : Ev} (hi : Inv s) (he' : InvE s) (hs : Step s t e s') (he : e.kind = .afl) : InvE s' := by
  have h := he'
  cases hs <;> cases he
  all_goals (try (frameE h; done))
  case eAloFail c orig hpc =>
    refine invE_eq (t := t) h (fun u w r hu => hu) rfl rfl rfl (fun _ _ => rfl) (fun u => by
      by_cases hut : u = t
      · subst hut; simp [hpc, EView, pendNode]
      · simp only [setPc_pc, upd_other _ _ _ _ hut]; rfl) (fun _ _ => rfl)
      (fun w r c' hu hc => Or.inl hc) (fun u hut => rfl) ?_ (fun u hut => by simp [hut])
    intro w r x hu hx; simp [EView, origOf] at hx

theorem invE_step_con {s s' : St} {t : Tid} {e : Ev} (hi : Inv s) (he' : InvE s) (hs : Step s t e s') (he : e.kind = .con) : InvE s' := by
  have h := he'
  cases hs <;> cases he
  all_goals (try (frameE h; done))
  all_goals (try exact h)
  case regCon k r hpc =>
    have hp := hi.b.privOk t r (by simp [hpc, BView, privRec])
    simp only [bview_log] at hp
    have hpu := hi.b.privUq
    simp only [bview_vpc] at hpu
    refine invE_eq (t := t) h (fun u w r hu => hu) rfl rfl rfl ?_ ?_ (fun _ _ => rfl) (fun w r c hu hc => Or.inl hc)
      (fun u hut => rfl) ?_ (fun u hut => by simp [hut])
    · intro z hz
      have : z ≠ r := fun e => hp.1 (e ▸ hz)
      simp [St.setRled, St.setPc, upd_other _ _ _ _ this]
    · intro u
      by_cases hut : u = t
      · subst hut; simp [hpc, EView, pendNode]
      · simp only [setPc_pc, upd_other _ _ _ _ hut]
        have hv0 : ∀ o z, EView (s.pc u) = .eZh o z → z ≠ r := by
          intro o z hv e; subst e
          exact hut (hpu u t z (eview_eZh_priv hv) (by simp [hpc, BView, privRec]))
        show pendNode _ (EView (s.pc u)) = pendNode s.eview (EView (s.pc u))
        generalize EView (s.pc u) = v at hv0
        cases v with
        | eZh o z =>
          have hz := hv0 o z rfl
          simp [pendNode, St.setRled, St.setPc, upd_other _ _ _ _ hz]
        | _ => rfl
    · intro w r' x hu hx; simp [EView, origOf] at hx
  case eCon c orig z hpc =>
    have hp := hi.b.privOk t z (by simp [hpc, BView, privRec])
    simp only [bview_log] at hp
    have hholder : holdsW (s.pc t) = true := by simp [hpc, holdsW]
    refine invE_eq (t := t) h (fun u w r hu => hu) rfl rfl rfl ?_ ?_ (fun _ _ => rfl) (fun w r c hu hc => Or.inl hc)
      (fun u hut => rfl) ?_ (fun u hut => by simp [hut])
    · intro z' hz
      have : z' ≠ z := fun e => hp.1 (e ▸ hz)
      simp [St.setRled, St.setPc, upd_other _ _ _ _ this]
    · intro u
      by_cases hut : u = t
      · subst hut; simp [hpc, EView, pendNode, St.setRled, St.setPc]
      · simp only [setPc_pc, upd_other _ _ _ _ hut]
        have hidle : EView (s.pc u) = .idle := by
          apply Classical.byContradiction
          intro hc
          have a := (hi.a.wm u).1 (eview_nonidle hc)
          have b := (hi.a.wm t).1 hholder
          rw [a] at b; injection b with b; exact hut b
        show pendNode _ (EView (s.pc u)) = pendNode s.eview (EView (s.pc u))
        rw [hidle]; rfl
    · intro w r' x hu hx
      left; simpa [hpc, EView, origOf] using hx
  case pCon f em x n hpc =>
    have hw := hi.c.wr t
    simp only [cview_vpc, hpc, CView, WriterP, cview_order] at hw
    refine invE_eq (t := t) h (fun u w r hu => hu) rfl rfl rfl (fun _ _ => rfl) (fun u => by
      by_cases hut : u = t
      · subst hut; simp [hpc, EView, pendNode]
      · simp only [setPc_pc, upd_other _ _ _ _ hut]; rfl) ?_ (fun w r c hu hc => Or.inl hc)
      (fun u hut => rfl) ?_ (fun u hut => by simp [hut])
    · intro c hc
      have : c ≠ n := fun e => hw.1 (e ▸ hc)
      simp [St.setNled, St.setPc, upd_other _ _ _ _ this]
    · intro w r' x' hu hx; simp [EView, origOf] at hx

theorem invE_step_des {s s' : St} {t : Tid} {e : Ev} (hi : Inv s) (he' : InvE s) (hs : Step s t e s') (he : e.kind = .des) : InvE s' := by
  have h := he'
  cases hs <;> cases he
  all_goals (try (frameE h; done))
  all_goals (try exact h)

theorem invE_step_fre {s s' : St} {t : Tid} {e : Ev} (hi : Inv s) (he' : InvE s) (hs : Step s t e s') (he : e.kind = .fre) : InvE s' := by
  have h := he'
  cases hs <;> cases he
  all_goals (try (frameE h; done))
  all_goals (try exact h)
  case rFreZ r m nx hpc =>
    cases nx with
    | none => simp only [St.reapAt]; frameE h
    | some m' =>
      have hre := hi.b.reap t
      simp only [bview_vpc, hpc, BView, ReapP, bview_log, bview_recs] at hre
      obtain ⟨h0, h1, h2⟩ := hre
      have hb2 : s.log.Nodup := hi.b.logNd
      have hcb : m' ∈ Below s.log r := head_mem_below h2.symm
      refine invE_pop (t := t) h hb2 m' _ (.rZn r m') (by simp [EView]) (by simp [hpc, EView]) ?_
      intro u w r' hu
      have ho := (hi.b.own1 u w r' hu).2
      simp only [bview_recs] at ho
      constructor
      · intro e; subst e; rw [h1 _ hcb] at ho; cases ho
      · intro hc
        rw [h1 r' (below_trans hb2 hcb hc)] at ho; cases ho
  case dFreZ m nx hpc =>
    have hdt := hi.a.dtd t (by simp [hpc, inDtor])
    cases nx with
    | none => simp only [St.dRecAt]; frameE h
    | some m' =>
      refine invE_pop (t := t) h hi.b.logNd m' _ (.dOwner m') (by simp [EView]) (by simp [hpc, EView]) ?_
      intro u w r hu
      have := no_hnd_in_dt hi.a hdt u; rw [hu] at this; cases this
  case dFreN m nx hpc =>
    have hdt := hi.a.dtd t (by simp [hpc, inDtor])
    have hnoh := no_hnd_in_dt hi.a hdt
    have hidle : ∀ u, EView (s.pc u) = .idle := by
      intro u
      apply Classical.byContradiction
      intro hc
      obtain ⟨r, hr⟩ := hi.a.wrW u (eview_nonidle hc)
      rw [hnoh u] at hr; cases hr
    have hpcs : ∀ u, EView (({ (s.setNled m .freed) with lst := s.lst.erase m }.dNodeAt t nx).pc u) = .idle := by
      intro u
      by_cases hut : u = t
      · subst hut; cases nx <;> simp [St.dNodeAt, EView]
      · cases nx <;> simp only [St.dNodeAt, setPc_pc, upd_other _ _ _ _ hut] <;> exact hidle u
    have hh : ({ (s.setNled m .freed) with lst := s.lst.erase m }.dNodeAt t nx).hnd = s.hnd := by cases nx <;> rfl
    refine ⟨?_, ?_, ?_, ?_⟩
    · intro u w r c hu; simp only [eview_hnd, hh] at hu; rw [hnoh u] at hu; cases hu
    · intro u w r x hu; simp only [eview_hnd, hh] at hu; rw [hnoh u] at hu; cases hu
    · intro u w r hu; simp only [eview_hnd, hh] at hu; rw [hnoh u] at hu; cases hu
    · intro u c hu; simp only [eview_vpc] at hu; rw [hpcs u] at hu; simp [pendNode] at hu

theorem invE_step_ald {s s' : St} {t : Tid} {e : Ev} (hi : Inv s) (he' : InvE s) (hs : Step s t e s') (he : e.kind = .ald) : InvE s' := by
  have h := he'
  cases hs <;> cases he
  all_goals (try (frameE h; done))
  all_goals (try exact h)
  case dtorHead o hpc ho =>
    cases hh : s.head <;> simp only [St.dNodeAt] <;> frameE h
  case dZhead o hpc ho =>
    have hdt := hi.a.dtd t (by simp [hpc, inDtor])
    cases hz : s.zhead with
    | none => simp only [St.dRecAt]; frameE h
    | some m =>
      refine invE_pop (t := t) h hi.b.logNd m s.rled (.dOwner m) (by simp [EView]) (by simp [hpc, EView]) ?_
      intro u w r hu
      have := no_hnd_in_dt hi.a hdt u; rw [hu] at this; cases this
  case uNextNone r cached m o hpc ho hv =>
    cases cached with
    | none => simp only [St.reapAt]; frameE h
    | some c =>
      have hsc := hi.b.scan t
      simp only [bview_vpc, hpc, BView, ScanP, bview_log, bview_recs] at hsc
      obtain ⟨h1, h2, h3, h4⟩ := hsc
      have hb2 : s.log.Nodup := hi.b.logNd
      have hmlog := mem_of_mem_below h1
      have hnx := next_of_inactive hi.a hi.b hmlog h3
      rw [hv] at hnx
      have hbm : Below s.log m = [] := head?_eq_none hnx.symm
      have hin : ∀ x ∈ Below s.log r, (s.recs x).owner = none := by
        intro x hx
        by_cases hxm : x = m
        · subst hxm; exact h3
        · rcases below_total (mem_of_mem_below hx) hmlog hxm with e | e
          · rw [hbm] at e; simp at e
          · exact h4 x hx e
      have hcb : c ∈ Below s.log r := head_mem_below h2.symm
      refine invE_pop (t := t) h hb2 c s.rled (.rZn r c) (by simp [EView]) (by simp [hpc, EView]) ?_
      intro u w r' hu
      have ho := (hi.b.own1 u w r' hu).2
      simp only [bview_recs] at ho
      constructor
      · intro e; subst e; rw [hin _ hcb] at ho; cases ho
      · intro hc
        rw [hin r' (below_trans hb2 hcb hc)] at ho; cases ho
  case beg w r o hpc hh ho =>
    have hdt := dt_false_of_hnd hi.a (t := t) (by rw [hh]; simp)
    have hhd : s.head = s.lst.head? := hi.c.hd hdt
    refine invE_eq (t := t) h (fun u w r hu => hu) rfl rfl rfl (fun _ _ => rfl) (fun u => by
      by_cases hut : u = t
      · subst hut; simp [hpc, EView, pendNode]
      · simp only [setPc_pc, upd_other _ _ _ _ hut]; rfl) (fun _ _ => rfl) ?_ ?_ ?_ ?_
    · intro w' r' c hu hc
      right; left
      simp at hc
      show c ∈ s.lst
      exact mem_of_head? (by rw [← hhd]; exact hc)
    · intro u hut; simp [hut]
    · intro w' r' x hu hx; simp [EView, origOf] at hx
    · intro u hut; simp [hut]
  case nxt w r n o hpc hh hi' ho =>
    have hnx0 : ∀ a ∈ s.lst, (s.nodes a).next = (Below s.lst a).head? := hi.c.nx
    have hcur := h.cur t w r n hh hi'
    refine invE_eq (t := t) h (fun u w r hu => hu) rfl rfl rfl (fun _ _ => rfl) (fun u => by
      by_cases hut : u = t
      · subst hut; simp [hpc, EView, pendNode]
      · simp only [setPc_pc, upd_other _ _ _ _ hut]; rfl) (fun _ _ => rfl) ?_ ?_ ?_ ?_
    · intro w' r' c hu hc
      right
      simp at hc
      have hr : r' = r := by simp at hu; rw [hh] at hu; injection hu with _ e; exact e.symm
      subst hr
      by_cases hl : n ∈ s.lst
      · left
        rw [hnx0 n hl] at hc
        exact mem_of_mem_below (head_mem_below hc)
      · exact h.edge t w r' hh n (hi.c.itv t n hi') hl c hc hcur
    · intro u hut; simp [hut]
    · intro w' r' x hu hx; simp [EView, origOf] at hx
    · intro u hut; simp [hut]
  case eOrig c adv o hpc ho =>
    obtain ⟨r0, hr0⟩ := hi.a.wrW t (by simp [hpc, holdsW])
    have hnx0 : ∀ a ∈ s.lst, (s.nodes a).next = (Below s.lst a).head? := hi.c.nx
    have hw := hi.c.wr t
    simp only [cview_vpc, hpc, CView, WriterP, cview_order] at hw
    have hsc := h.org t true r0 c hr0 (by simp [hpc, EView, origOf])
    refine invE_eq (t := t) h (fun u w r hu => hu) rfl rfl rfl (fun _ _ => rfl) (fun u => by
      by_cases hut : u = t
      · subst hut; simp [hpc, EView, pendNode]
      · simp only [setPc_pc, upd_other _ _ _ _ hut]; rfl) (fun _ _ => rfl)
      (fun w r c' hu hc => Or.inl hc) (fun u hut => rfl) ?_ (fun u hut => by simp [hut])
    intro w' r' x hu hx
    right
    have hr : r' = r0 := by simp at hu; rw [hr0] at hu; injection hu with _ e; exact e.symm
    subst hr
    have hxc : x = c ∨ (adv = true ∧ (s.nodes c).next = some x) := by
      cases adv <;> simp [EView, origOf] at hx
      · left; exact hx
      · rcases hx with e | e
        · exact Or.inl e
        · exact Or.inr ⟨rfl, e⟩
    rcases hxc with e | ⟨_, e⟩
    · subst e; exact hsc
    · by_cases hl : c ∈ s.lst
      · left
        rw [hnx0 c hl] at e
        exact mem_of_mem_below (head_mem_below e)
      · exact h.edge t true r' hr0 c hw hl x e hsc

theorem invE_step_ast {s s' : St} {t : Tid} {e : Ev} (hi : Inv s) (he' : InvE s) (hs : Step s t e s') (he : e.kind = .ast) : InvE s' := by
  have h := he'
  cases hs <;> cases he
  all_goals (try (frameE h; done))
  all_goals (try exact h)
  case pushStore c r exp o hpc =>
    cases c <;> frameE h
  case uClear r o hpc ho =>
    refine invE_eq (t := t) h ?_ rfl rfl rfl ?_ ?_ (fun _ _ => rfl) ?_ ?_ ?_ ?_
    rotate_left 2
    · intro u
      by_cases hut : u = t
      · subst hut; simp [hpc, EView, pendNode]
      · show pendNode _ (EView (upd s.pc t (.retp .rel) u)) = pendNode s.eview (EView (s.pc u))
        rw [upd_other _ _ _ _ hut]
        generalize EView (s.pc u) = v
        cases v with
        | eZh o' z =>
          simp only [pendNode, eview_zn, setPc_recs, dropHnd_recs, setOwner_recs]
          by_cases e : z = r
          · subst e; rw [upd_same]
          · rw [upd_other _ _ _ _ e]
        | _ => rfl
    rotate_right 2
    · intro u w' r' hu
      by_cases hut : u = t
      · subst hut; simp at hu
      · simpa [hut] using hu
    · intro z hz
      simp only [setPc_recs, dropHnd_recs, setOwner_recs]
      by_cases e : z = r
      · subst e; rw [upd_same]
      · rw [upd_other _ _ _ _ e]
    · intro w' r' c hu; simp at hu
    · intro u hut; simp [hut]
    · intro w' r' x hu; simp at hu
    · intro u hut; simp [hut]
  case pF1 k n h0 o hpc ho =>
    have hw := hi.c.wr t
    simp only [cview_vpc, hpc, CView, WriterP, FreshN, cview_order] at hw
    refine invE_eq (t := t) h (fun u w r hu => hu) rfl rfl rfl (fun _ _ => rfl) (fun u => by
      by_cases hut : u = t
      · subst hut; simp [hpc, EView, pendNode]
      · simp only [setPc_pc, upd_other _ _ _ _ hut]; rfl) ?_ (fun w r c hu hc => Or.inl hc)
      (fun u hut => rfl) ?_ (fun u hut => by simp [hut])
    · intro c hc
      have : c ≠ n := fun e => hw.1.1 (e ▸ hc)
      simp [St.setNext, St.setPc, upd_other _ _ _ _ this]
    · intro w r' x' hu hx; simp [EView, origOf] at hx
  case pE1 k n o hpc ho =>
    have hw := hi.c.wr t
    simp only [cview_vpc, hpc, CView, WriterP, FreshN, cview_order] at hw
    exact invE_link (t := t) h n hw.1.1 rfl (fun x => by simp) (fun x => by simp) rfl rfl hi.c.sub (fun _ _ _ => rfl) rfl
      (by simp [EView]) (by simp [hpc, EView]) (fun u hut => by simp [hut]) (fun u => by
      by_cases hut : u = t
      · subst hut; simp [hpc, EView, pendNode]
      · have hidle : EView (s.pc u) = .idle := by
          apply Classical.byContradiction
          intro hc
          have a := (hi.a.wm u).1 (eview_nonidle hc)
          have b := (hi.a.wm t).1 (by simp [hpc, holdsW])
          rw [a] at b; injection b with b; exact hut b
        rw [hidle]; rfl)
  case pF3 k n o hpc ho =>
    have hw := hi.c.wr t
    simp only [cview_vpc, hpc, CView, WriterP, FreshN, cview_order] at hw
    obtain ⟨h0, hf, _⟩ := hw
    exact invE_link (t := t) h n hf.1 rfl (fun x => by simp) (fun x => by simp) rfl rfl hi.c.sub (fun _ _ _ => rfl) rfl
      (by simp [EView]) (by simp [hpc, EView]) (fun u hut => by simp [hut]) (fun u => by
      by_cases hut : u = t
      · subst hut; simp [hpc, EView, pendNode]
      · have hidle : EView (s.pc u) = .idle := by
          apply Classical.byContradiction
          intro hc
          have a := (hi.a.wm u).1 (eview_nonidle hc)
          have b := (hi.a.wm t).1 (by simp [hpc, holdsW])
          rw [a] at b; injection b with b; exact hut b
        rw [hidle]; rfl)
  case pB2 k n h0 o hpc ho =>
    have hw := hi.c.wr t
    simp only [cview_vpc, hpc, CView, WriterP, FreshN, NextIs, cview_order, cview_lst] at hw
    refine invE_link (t := t) h n hw.1.1 rfl (fun x => by simp [or_comm]) (fun x => by simp [or_comm]) rfl rfl hi.c.sub ?_ rfl
      (by simp [EView]) (by simp [hpc, EView]) (fun u hut => by simp [hut]) (fun u => by
      by_cases hut : u = t
      · subst hut; simp [hpc, EView, pendNode]
      · have hidle : EView (s.pc u) = .idle := by
          apply Classical.byContradiction
          intro hc
          have a := (hi.a.wm u).1 (eview_nonidle hc)
          have b := (hi.a.wm t).1 (by simp [hpc, holdsW])
          rw [a] at b; injection b with b; exact hut b
        rw [hidle]; rfl)
    intro c hc hcl
    have : c ≠ h0 := fun e => hcl (e ▸ hw.2.1.1)
    simp [St.setNext, St.setPc, upd_other _ _ _ _ this]
  case eUnlPrev c orig pp x z o hpc ho =>
    have hzn : (s.recs z).znode = some c := by
      have := hi.d.held t
      simp only [dview_vpc, hpc, DView, HeldP, dview_zn] at this
      exact this.1
    have hw := hi.c.wr t
    simp only [cview_vpc, hpc, CView, WriterP, NextIs, cview_lst, cview_order] at hw
    obtain ⟨g1, g2, g3, g4, g5⟩ := hw
    have hnd : s.lst.Nodup := hi.c.lstNd
    have hnx0 : ∀ a ∈ s.lst, (s.nodes a).next = (Below s.lst a).head? := hi.c.nx
    refine invE_of_view (invE_unlink (t := t) h hpc hzn (upd s.nodes pp { s.nodes pp with next := x }) s.head ?_ hnd g1
      (hi.c.sub c g1) (by rw [hnx0 c g1, g5]) ?_ ?_) rfl
    · intro u hut
      apply Classical.byContradiction
      intro hc
      have a := (hi.a.wm u).1 (eview_nonidle hc)
      have b := (hi.a.wm t).1 (by simp [hpc, holdsW])
      rw [a] at b; injection b with b; exact hut b
    · intro y hy
      have hb : y ∈ Below s.lst c := head_mem_below (by rw [← g5]; exact hy)
      exact ⟨mem_of_mem_below hb, fun e => not_mem_below_self hnd (e ▸ hb)⟩
    · intro y hy
      have : y ≠ pp := by
        rcases hy with hy | hy
        · exact fun e => hy (e ▸ g4.1)
        · subst hy; exact fun e => not_mem_below_self hnd (e ▸ head_mem_below g4.2)
      rw [upd_other _ _ _ _ this]
  case eUnlHead c orig x z o hpc ho =>
    have hzn : (s.recs z).znode = some c := by
      have := hi.d.held t
      simp only [dview_vpc, hpc, DView, HeldP, dview_zn] at this
      exact this.1
    have hw := hi.c.wr t
    simp only [cview_vpc, hpc, CView, WriterP, NextIs, cview_lst, cview_order] at hw
    obtain ⟨g1, g2, g3, g4, g5⟩ := hw
    have hnd : s.lst.Nodup := hi.c.lstNd
    have hnx0 : ∀ a ∈ s.lst, (s.nodes a).next = (Below s.lst a).head? := hi.c.nx
    refine invE_of_view (invE_unlink (t := t) h hpc hzn s.nodes x ?_ hnd g1
      (hi.c.sub c g1) (by rw [hnx0 c g1, g5]) ?_ (fun _ _ => rfl)) rfl
    · intro u hut
      apply Classical.byContradiction
      intro hc
      have a := (hi.a.wm u).1 (eview_nonidle hc)
      have b := (hi.a.wm t).1 (by simp [hpc, holdsW])
      rw [a] at b; injection b with b; exact hut b
    · intro y hy
      have hb : y ∈ Below s.lst c := head_mem_below (by rw [← g5]; exact hy)
      exact ⟨mem_of_mem_below hb, fun e => not_mem_below_self hnd (e ▸ hb)⟩

theorem invE_step_cas {s s' : St} {t : Tid} {e : Ev} (hi : Inv s) (he' : InvE s) (hs : Step s t e s') (he : e.kind = .cas) : InvE s' := by
  have h := he'
  cases hs <;> cases he
  all_goals (try (frameE h; done))
  all_goals (try exact h)
  case casFail c r exp o hpc ho =>
    cases c <;> frameE h
  case casRegOk k r o hpc ho =>
    have hk : k.regOp = true := by have := hi.a.opk t; rw [hpc] at this; simpa [opOk] using this
    have hf : (s.hnd t).isFresh = true := by
      have := hi.a.hok t; rw [hpc] at this; simpa [hndOk, hcls] using this
    have hitn : s.it t = none := by
      cases hc : s.it t with
      | none => rfl
      | some v =>
        obtain ⟨w, r', hr'⟩ := hi.a.itr t (by rw [hc]; simp)
        rw [hr'] at hf; simp [Hnd.isFresh] at hf
    have hp := hi.b.privOk t r (by simp [hpc, BView, privRec])
    simp only [bview_log] at hp
    have hrl : r ∉ s.log := hp.1
    have hzn : (s.recs r).znode = none := by
      have := hi.d.held t; simpa [hpc, DView, HeldP] using this
    have hbl : ∀ z ∈ s.log, Below (r :: s.log) z = Below s.log z :=
      fun z hz => below_cons_ne _ (fun e => hrl (e ▸ hz))
    have hvk : EView (.called k) = .idle := by cases k <;> simp [Op.regOp] at hk <;> simp [EView]
    have hv : ∀ u, EView (upd s.pc t (.called k) u) = EView (s.pc u) := by
      intro u; by_cases hut : u = t
      · subst hut; rw [upd_same, hvk]; simp [hpc, EView]
      · rw [upd_other _ _ _ _ hut]
    refine invE_gen (t := t) h ?_ ?_ ?_ (fun u hut => rfl) ?_ (fun u hut => by simp [hut]) ?_
    · intro u w r' hu
      by_cases hut : u = t
      · subst hut
        right
        refine ⟨rfl, hitn, by simp [hvk, origOf], ?_⟩
        simp at hu
        obtain ⟨_, hr⟩ := hu; subst hr
        intro c hc hcl x hx hs
        rcases hs with g | ⟨u', g⟩ | ⟨z, g1, g2, g3⟩
        · exact absurd g hcl
        · simp only [eview_vpc, setPc_pc, hv u'] at g
          have := (h.pend u' c g).2 x hx
          exact Or.inl this
        · exfalso
          simp only [eview_log, setPc_log] at g1 g3
          rcases List.mem_cons.1 g1 with e | e
          · subst e; rw [below_cons_self] at g3; exact hrl g3
          · rw [hbl z e] at g3; exact hrl (mem_of_mem_below g3)
      · left
        simp [hut] at hu
        refine ⟨hu, ?_⟩
        intro c hc
        rcases hc with g | ⟨u', g⟩ | ⟨z, g1, g2, g3⟩
        · exact Or.inl g
        · exact Or.inr (Or.inl ⟨u', by simp only [eview_vpc, setPc_pc, hv u']; exact g⟩)
        · exact Or.inr (Or.inr ⟨z, List.mem_cons_of_mem _ g1, g2, by
            simp only [eview_log, setPc_log]; rw [hbl z g1]; exact g3⟩)
    · intro u w r' hu hu' c hc hcl hs
      left
      refine ⟨hc, hcl, ?_, rfl⟩
      rcases hs with g | ⟨u', g⟩ | ⟨z, g1, g2, g3⟩
      · exact Or.inl g
      · exact Or.inr (Or.inl ⟨u', by simp only [eview_vpc, setPc_pc, hv u'] at g; exact g⟩)
      · simp only [eview_log, setPc_log, eview_zn, setPc_recs] at g1 g2 g3
        rcases List.mem_cons.1 g1 with e | e
        · subst e; rw [hzn] at g2; cases g2
        · exact Or.inr (Or.inr ⟨z, e, g2, by simp only [eview_log]; rw [← hbl z e]; exact g3⟩)
    · intro w r' c hu hc; left; exact hc
    · intro w r' x hu hx; simp [hvk, origOf] at hx
    · intro u c hu
      simp only [setPc_pc, hv u] at hu
      exact h.pend u c hu
  case casEraseOk orig r o hpc ho =>
    have hholder : holdsW (s.pc t) = true := by simp [hpc, holdsW]
    have hidle : ∀ u, u ≠ t → EView (s.pc u) = .idle := by
      intro u hut
      apply Classical.byContradiction
      intro hc
      have a := (hi.a.wm u).1 (eview_nonidle hc)
      have b := (hi.a.wm t).1 hholder
      rw [a] at b; injection b with b; exact hut b
    have hp := hi.b.privOk t r (by simp [hpc, BView, privRec])
    simp only [bview_log] at hp
    have hrl : r ∉ s.log := hp.1
    have hbl : ∀ z ∈ s.log, Below (r :: s.log) z = Below s.log z :=
      fun z hz => below_cons_ne _ (fun e => hrl (e ▸ hz))
    have hpt : ∀ c, pendNode s.eview (EView (s.pc t)) = some c ↔ (s.recs r).znode = some c := by
      intro c; simp [hpc, EView, pendNode]
    have hpn : ∀ u c, ¬ pendNode ({ s with zhead := some r, log := r :: s.log }.setPc t (.eUnlock orig)).eview
        (EView (({ s with zhead := some r, log := r :: s.log }.setPc t (.eUnlock orig)).pc u)) = some c := by
      intro u c
      by_cases hut : u = t
      · subst hut; simp [EView, pendNode]
      · simp only [setPc_pc, upd_other _ _ _ _ hut]
        rw [show (({ s with zhead := some r, log := r :: s.log } : St).pc u) = s.pc u from rfl, hidle u hut]
        simp [pendNode]
    refine invE_gen (t := t) h ?_ ?_ (fun w r' c hu hc => Or.inl hc) (fun u hut => rfl) ?_ (fun u hut => by simp [hut]) ?_
    · intro u w r' hu
      left
      refine ⟨hu, ?_⟩
      have hr'log : r' ∈ s.log := (hi.b.own1 u w r' hu).1
      intro c hc
      rcases hc with g | ⟨u', g⟩ | ⟨z, g1, g2, g3⟩
      · exact Or.inl g
      · simp only [eview_vpc] at g
        by_cases hut : u' = t
        · subst hut
          exact Or.inr (Or.inr ⟨r, List.mem_cons_self, (hpt c).1 g, by
            simp only [eview_log, setPc_log]; rw [below_cons_self]; exact hr'log⟩)
        · rw [hidle u' hut] at g; simp [pendNode] at g
      · exact Or.inr (Or.inr ⟨z, List.mem_cons_of_mem _ g1, g2, by
          simp only [eview_log, setPc_log]; rw [hbl z g1]; exact g3⟩)
    · intro u w r' hu hu' c hc hcl hs
      rcases hs with g | ⟨u', g⟩ | ⟨z, g1, g2, g3⟩
      · exact absurd g hcl
      · simp only [eview_vpc] at g; exact absurd g (hpn u' c)
      · simp only [eview_log, setPc_log, eview_zn, setPc_recs] at g1 g2 g3
        rcases List.mem_cons.1 g1 with e | e
        · subst e
          right
          intro x hx
          have := (h.pend t c ((hpt c).2 g2)).2 x hx
          exact Or.inl this
        · left
          exact ⟨hc, hcl, Or.inr (Or.inr ⟨z, e, g2, by simp only [eview_log]; rw [← hbl z e]; exact g3⟩), rfl⟩
    · intro w r' x hu hx
      left; simpa [hpc, EView, origOf] using hx
    · intro u c hu; exact absurd hu (hpn u c)

theorem invE_step_plain {s s' : St} {t : Tid} {e : Ev} (hi : Inv s) (he' : InvE s) (hs : Step s t e s') (he : e.kind = .plain) : InvE s' := by
  have h := he'
  cases hs <;> cases he
  all_goals (try (frameE h; done))
  all_goals (try exact h)
  case eDelDeleted c orig hpc hv =>
    refine invE_eq (t := t) h (fun u w r hu => hu) rfl rfl rfl (fun _ _ => rfl) (fun u => by
      by_cases hut : u = t
      · subst hut; simp [hpc, EView, pendNode]
      · simp only [setPc_pc, upd_other _ _ _ _ hut]; rfl) (fun _ _ => rfl)
      (fun w r c' hu hc => Or.inl hc) (fun u hut => rfl) ?_ (fun u hut => by simp [hut])
    intro w r x hu hx
    left
    simp only [hpc, EView, origOf, setPc_pc, upd_same] at hx ⊢
    exact List.mem_cons_of_mem _ hx

theorem invE_step {s s' : St} {t : Tid} {e : Ev} (hi : Inv s) (he' : InvE s) (hs : Step s t e s') : InvE s' := by
  cases hk : e.kind
  · exact invE_step_call hi he' hs hk
  · exact invE_step_ret hi he' hs hk
  · exact invE_step_exc hi he' hs hk
  · exact invE_step_mlk hi he' hs hk
  · exact invE_step_mul hi he' hs hk
  · exact invE_step_alo hi he' hs hk
  · exact invE_step_afl hi he' hs hk
  · exact invE_step_con hi he' hs hk
  · exact invE_step_des hi he' hs hk
  · exact invE_step_fre hi he' hs hk
  · exact invE_step_ald hi he' hs hk
  · exact invE_step_ast hi he' hs hk
  · exact invE_step_cas hi he' hs hk
  · exact invE_step_plain hi he' hs hk

end ConcVerif.Rcu
