import ConcVerif.Proof.LRStep
import ConcVerif.Model.Cow
/-! Facts about single steps of the left-right model in the form the cow layer needs them: the cow model delegates every
primitive operation on `m_data` to `LR.step`; here each delegated event (or fixed sequence of events) is characterised by
(a) what it leaves unchanged (`Same`: the two values, `committed`) and (b) how it moves the thread between the
coarse position classes `LK` the cow pcs are linked to. -/
namespace ConcVerif.LR

/-- coarse position of a thread inside `m_data`'s operations, as far as the cow layer cares -/
inductive LK
  | idle
  | pre                -- read acquisition in progress: rdCalled / rdCL / rdInc
  | hold               -- owns a read handle
  | wA (op : OpId)     -- inside modify(op), first application not complete: wCalled / wA / wF1
  | wB (op : OpId)     -- first application complete: wF1d / wWait / wF2 / wF2d
  | wR (op : OpId)     -- unlocked, before the LR-level return
  | other              -- transient positions inside a delegated sequence, roll-back / roll-forward, exception
  deriving DecidableEq

def lk : Pc → LK
  | .idle => .idle
  | .rdCalled | .rdCL _ | .rdInc _ => .pre
  | .rdHold _ _ => .hold
  | .wCalled op | .wA op _ | .wF1 op _ => .wA op
  | .wF1d op _ | .wWait op _ _ _ | .wF2 op _ | .wF2d op _ => .wB op
  | .wRet op => .wR op
  | _ => .other

/-- nothing the cow layer reads from the LR state changes, except program counters and reader ghosts -/
structure Same (s s' : St) : Prop where
  valL : s'.valL = s.valL
  valR : s'.valR = s.valR
  committed : s'.committed = s.committed

theorem Same.refl (s : St) : Same s s := ⟨rfl, rfl, rfl⟩
theorem Same.trans {a b c : St} (h1 : Same a b) (h2 : Same b c) : Same a c :=
  ⟨h2.valL.trans h1.valL, h2.valR.trans h1.valR, h2.committed.trans h1.committed⟩
theorem Same.val {s s' : St} (h : Same s s') (x : Side) : s'.val x = s.val x := by
  cases x
  · exact h.valL
  · exact h.valR

/-- events that are neither a mutex operation, nor the end of a write window, nor the flip of `rl` -/
def quietEv : Ev → Bool
  | .lock | .unlock | .fEnd _ _ | .cpEnd _ _ | .stRL _ => false
  | _ => true

theorem same_of_quiet {s s' : St} {t : Tid} {e : Ev} (hq : quietEv e = true) (hs : step s t e = some s') : Same s s' := by
  unfold step at hs
  split at hs <;> (try split at hs) <;> (try split at hs) <;> (try split at hs) <;> (try (simp at hs; done)) <;>
    (try (simp [quietEv] at hq; done)) <;>
    (try (injection hs with hs; subst hs; constructor <;> simp; done))
  all_goals first
    | (rw [stutter_eq hs]; exact Same.refl _)
    | (rename_i c _ _ _; injection hs with hs; subst hs; constructor <;> cases c <;> simp [St.setReg])

theorem lk_idle {p : Pc} (h : lk p = .idle) : p = .idle := by cases p <;> simp [lk] at h; rfl

theorem lk_hold {p : Pc} (h : lk p = .hold) : ∃ c x, p = .rdHold c x := by
  cases p <;> simp [lk] at h
  exact ⟨_, _, rfl⟩

theorem lk_wR {p : Pc} {op : OpId} (h : lk p = .wR op) : p = .wRet op := by
  cases p <;> simp [lk] at h
  subst h; rfl

theorem lk_post {p : Pc} (h : p.post = true) : (∃ op, lk p = .wA op) ∨ (∃ op, lk p = .wB op) ∨ lk p = .other := by
  cases p <;> simp [Pc.post] at h <;> simp [lk]

theorem lk_pre_not_post {p : Pc} (h : lk p = .pre) : p.post = false := by cases p <;> simp [lk] at h <;> rfl
theorem lk_hold_not_post {p : Pc} (h : lk p = .hold) : p.post = false := by cases p <;> simp [lk] at h <;> rfl
theorem lk_idle_not_post {p : Pc} (h : lk p = .idle) : p.post = false := by cases p <;> simp [lk] at h <;> rfl
theorem lk_wR_not_post {p : Pc} {op : OpId} (h : lk p = .wR op) : p.post = false := by cases p <;> simp [lk] at h <;> rfl

/-- a delegated LR step (or sequence of steps) of thread `t`: reachability (hence every LR theorem) survives, other threads do not move -/
structure Deleg (s s' : St) (t : Tid) : Prop where
  reach : Reachable s → Reachable s'
  other : ∀ u, u ≠ t → s'.pc u = s.pc u
  strict : s'.strict = s.strict

theorem Deleg.refl (s : St) (t : Tid) : Deleg s s t := ⟨id, fun _ _ => rfl, rfl⟩

theorem Deleg.of_step {s s' : St} {t : Tid} {e : Ev} (hs : step s t e = some s') : Deleg s s' t :=
  ⟨fun h => reachable_step h hs, fun _ hu => step_pc_other hs hu, step_strict hs⟩

theorem Deleg.trans {a b c : St} {t : Tid} (h1 : Deleg a b t) (h2 : Deleg b c t) : Deleg a c t :=
  ⟨fun h => h2.reach (h1.reach h), fun u hu => (h2.other u hu).trans (h1.other u hu), h2.strict.trans h1.strict⟩

/-! ### readers -/
theorem step_call_ls {s s' : St} {t : Tid} {k : Nat} (hs : step s t (.call (.ls k)) = some s') :
    s.pc t = .idle ∧ lk (s'.pc t) = .pre ∧ s'.snap t = s.committed := by
  cases hp : s.pc t <;> simp [step, hp, Pc.post, stutter] at hs
  subst hs; simp [lk, St.setPc]

theorem step_pre_ldCL {s s' : St} {t : Tid} {v : Side} (hk : lk (s.pc t) = .pre) (hs : step s t (.ldCL v) = some s') :
    lk (s'.pc t) = .pre := by
  cases hp : s.pc t <;> simp [lk, hp] at hk <;> simp [step, hp, Pc.post] at hs
  obtain ⟨_, rfl⟩ := hs; simp [lk]

theorem step_pre_inc {s s' : St} {t : Tid} {c : Side} {old : Nat} (hk : lk (s.pc t) = .pre)
    (hs : step s t (.inc c old) = some s') : lk (s'.pc t) = .pre := by
  cases hp : s.pc t <;> simp [lk, hp] at hk <;> simp [step, hp, Pc.post] at hs
  obtain ⟨_, rfl⟩ := hs; simp [lk]

/-- `ald rl` followed by the LR-level return: the thread owns a handle to side `x` -/
theorem step_pre_got {s s1 s2 : St} {t : Tid} {x : Side} {k : Nat} (hk : lk (s.pc t) = .pre)
    (h1 : step s t (.ldRL x) = some s1) (h2 : step s1 t (.ret (.ls k)) = some s2) :
    ∃ c, s2.pc t = .rdHold c x := by
  cases hp : s.pc t <;> simp [lk, hp] at hk <;> simp [step, hp, Pc.post] at h1
  obtain ⟨_, rfl⟩ := h1
  rename_i c _
  simp [step] at h2
  subst h2; exact ⟨c, by simp⟩

/-- a read through the handle is accepted only from a thread that owns a handle to that side; it observes the value -/
theorem step_rd {s s' : St} {t : Tid} {x : Side} {v : List OpId} (hs : step s t (.rd x v) = some s') :
    ∃ c, s.pc t = .rdHold c x ∧ s'.pc t = .rdHold c x ∧ v = s.val x := by
  cases hp : s.pc t <;> simp [step, hp, Pc.post, stutter] at hs
  obtain ⟨⟨rfl, rfl⟩, rfl⟩ := hs
  exact ⟨_, rfl, by simp, rfl⟩

/-- LR-level destruction of the handle: call, decrement, return -/
theorem step_hold_rel {s s1 s2 s3 : St} {t : Tid} {c : Side} {old : Nat} (hk : lk (s.pc t) = .hold)
    (h1 : step s t (.call .rel) = some s1) (h2 : step s1 t (.dec c old) = some s2) (h3 : step s2 t (.ret .rel) = some s3) :
    s3.pc t = .idle := by
  obtain ⟨c0, x0, hp⟩ := lk_hold hk
  simp [step, hp] at h1
  subst h1
  simp [step] at h2
  obtain ⟨_, rfl⟩ := h2
  simp [step] at h3
  subst h3; simp

/-! ### the writer -/
theorem step_call_modify {s s' : St} {t : Tid} {op : OpId} (hs : step s t (.call (.modify op)) = some s') :
    s.pc t = .idle ∧ lk (s'.pc t) = .wA op := by
  cases hp : s.pc t <;> simp [step, hp, Pc.post, stutter] at hs
  subst hs; simp [lk, St.setPc]

theorem step_wA_lock {s s' : St} {t : Tid} {op : OpId} (hk : lk (s.pc t) = .wA op) (hs : step s t .lock = some s') :
    lk (s'.pc t) = .wA op ∧ s.mtx = none ∧ s'.mtx = some t ∧ Same s s' ∧ (s.pc t).writing = none := by
  cases hp : s.pc t <;> simp [lk, hp] at hk <;> simp [step, hp, Pc.post, stutter] at hs
  obtain ⟨hm, rfl⟩ := hs
  subst hk; simp [lk, hm, Pc.writing]; exact ⟨rfl, rfl, rfl⟩

theorem step_fBegin {s s' : St} {t : Tid} {x : Side} (hs : step s t (.fBegin x) = some s') :
    (s'.pc t).writing = some x ∧ lk (s'.pc t) = lk (s.pc t) ∧ (s.pc t).post = true ∧ (s.pc t).writing = none ∧
      Same s s' := by
  cases hp : s.pc t <;> simp [step, hp, Pc.post, stutter] at hs
  · obtain ⟨rfl, rfl⟩ := hs; simp [Pc.writing, lk, Pc.post]; exact ⟨rfl, rfl, rfl⟩
  · obtain ⟨⟨rfl, _⟩, rfl⟩ := hs; simp [Pc.writing, lk, Pc.post]; exact ⟨rfl, rfl, rfl⟩

theorem step_fEnd {s s' : St} {t : Tid} {x : Side} {v : List OpId} (hs : step s t (.fEnd x v) = some s') :
    (s.pc t).writing = some x ∧ (s'.pc t).writing = none ∧ s'.val x = v ∧ s'.val x.flip = s.val x.flip ∧
      s'.committed = s.committed ∧ s'.mtx = s.mtx ∧
      ((∃ op, lk (s.pc t) = .wA op ∧ lk (s'.pc t) = .wB op) ∨ (∃ op, lk (s.pc t) = .wB op ∧ lk (s'.pc t) = .wB op)) := by
  cases hp : s.pc t <;> simp [step, hp, Pc.post, stutter] at hs
  · obtain ⟨⟨hx, hv⟩, rfl⟩ := hs
    rename_i op l
    subst hx hv
    refine ⟨by simp [Pc.writing], by simp [Pc.writing], ?_, ?_, by simp, by simp, Or.inl ⟨op, by simp [lk], by simp [lk]⟩⟩ <;>
      cases l <;> simp [St.val, St.setVal, Side.flip]
  · obtain ⟨⟨hx, hv⟩, rfl⟩ := hs
    rename_i op l
    subst hv
    rw [hx]
    refine ⟨by simp [Pc.writing], by simp [Pc.writing], ?_, ?_, by simp, by simp, Or.inr ⟨op, by simp [lk], by simp [lk]⟩⟩ <;>
      cases l <;> simp [St.val, St.setVal, Side.flip]

theorem neutral_quiet {e : Ev} (h : Cow.neutral e = true) : quietEv e = true := by
  cases e <;> simp [Cow.neutral] at h <;> rfl

/-- loads before the first application is complete are redundant loads of the mutex holder -/
theorem step_wA_neutral {s s' : St} {t : Tid} {e : Ev} {op : OpId} (hk : lk (s.pc t) = .wA op)
    (hn : Cow.neutral e = true) (hs : step s t e = some s') : s' = s := by
  cases hp : s.pc t <;> simp [lk, hp] at hk <;> cases e <;> simp [Cow.neutral] at hn <;>
    simp [step, hp, Pc.post] at hs <;> exact stutter_eq hs

/-- loads, yields and counting-flag stores after the first application: the thread stays where the cow layer sees it -/
theorem step_wB_neutral {s s' : St} {t : Tid} {e : Ev} {op : OpId} (hk : lk (s.pc t) = .wB op)
    (hn : Cow.neutral e = true) (hs : step s t e = some s') :
    lk (s'.pc t) = .wB op ∧ (s'.pc t).writing = (s.pc t).writing := by
  cases hp : s.pc t <;> simp [lk, hp] at hk <;> subst hk <;> cases e <;> simp [Cow.neutral] at hn <;>
    simp [step, hp, Pc.post] at hs <;>
    first
      | (rw [stutter_eq hs, hp]; simp [lk])
      | (subst hs; simp [hp, lk])
      | (obtain ⟨_, hs⟩ := hs
         split at hs
         · injection hs with hs; subst hs; simp [lk, Pc.writing]
         · split at hs
           · simp at hs
           · injection hs with hs; subst hs; simp [hp, lk])

theorem step_wB_stRL {s s' : St} {t : Tid} {y : Side} {op : OpId} (hk : lk (s.pc t) = .wB op)
    (hs : step s t (.stRL y) = some s') :
    lk (s'.pc t) = .wB op ∧ s'.committed = s.committed ++ [op] ∧ s'.valL = s.valL ∧ s'.valR = s.valR ∧ s'.mtx = s.mtx ∧
      (s'.pc t).writing = none := by
  cases hp : s.pc t <;> simp [lk, hp] at hk <;> subst hk <;> simp [step, hp, Pc.post, stutter] at hs
  obtain ⟨_, rfl⟩ := hs
  simp [lk, Pc.writing]

theorem step_wB_unlock {s s' : St} {t : Tid} {op : OpId} (hk : lk (s.pc t) = .wB op) (hs : step s t .unlock = some s') :
    lk (s'.pc t) = .wR op ∧ s.mtx = some t ∧ s'.mtx = none ∧ Same s s' ∧ (s.pc t).writing = none := by
  cases hp : s.pc t <;> simp [lk, hp] at hk <;> subst hk <;> simp [step, hp, Pc.post, stutter] at hs
  obtain ⟨hm, rfl⟩ := hs
  simp [lk, hm, Pc.writing]; exact ⟨rfl, rfl, rfl⟩

theorem step_wR_ret {s s' : St} {t : Tid} {op op' : OpId} (hk : lk (s.pc t) = .wR op)
    (hs : step s t (.ret (.modify op')) = some s') : s'.pc t = .idle := by
  have hp := lk_wR hk
  simp [step, hp] at hs
  obtain ⟨_, rfl⟩ := hs
  simp

/-- once the first application of `modify(op)` is complete, some side the thread is not writing holds `base ++ [op]` -/
theorem wB_val {s : St} (h : Full s) {t : Tid} {op : OpId} (hk : lk (s.pc t) = .wB op) :
    ∃ y, s.val y = s.base ++ [op] ∧ (s.pc t).writing ≠ some y := by
  cases hp : s.pc t <;> simp [lk, hp] at hk <;> subst hk
  all_goals
    have hv := h.vinv.vk t (by simp [hp, Pc.post])
    rw [hp] at hv
    simp only [Pc.vk, VX] at hv
  · rename_i l; exact ⟨l.flip, hv.2.2, by simp [Pc.writing]⟩
  · rename_i l _ _; exact ⟨l.flip, hv.2.2, by simp [Pc.writing]⟩
  · rename_i l; exact ⟨l.flip, hv.2.2, by simp [Pc.writing]⟩
  · rename_i l; exact ⟨l, hv.2 l, by simp [Pc.writing]⟩

/-! ### the delegated sequences of the cow model -/
theorem lrGot_spec {s : Cow.St} {t : Tid} {k : Nat} {x : Side} {l : St} (hk : lk (s.lr.pc t) = .pre)
    (h : Cow.lrGot s t k x = some l) : Deleg s.lr l t ∧ Same s.lr l ∧ ∃ c, l.pc t = .rdHold c x := by
  simp only [Cow.lrGot, Option.bind_eq_some_iff] at h
  obtain ⟨l1, h1, h2⟩ := h
  exact ⟨(Deleg.of_step h1).trans (Deleg.of_step h2), (same_of_quiet rfl h1).trans (same_of_quiet rfl h2),
    step_pre_got hk h1 h2⟩

theorem lrRel_spec {s : Cow.St} {t : Tid} {c : Side} {old : Nat} {l : St} (hk : lk (s.lr.pc t) = .hold)
    (h : Cow.lrRel s t c old = some l) : Deleg s.lr l t ∧ Same s.lr l ∧ l.pc t = .idle := by
  simp only [Cow.lrRel, Option.bind_eq_some_iff] at h
  obtain ⟨l2, ⟨l1, h1, h2⟩, h3⟩ := h
  exact ⟨((Deleg.of_step h1).trans (Deleg.of_step h2)).trans (Deleg.of_step h3),
    ((same_of_quiet rfl h1).trans (same_of_quiet rfl h2)).trans (same_of_quiet rfl h3), step_hold_rel hk h1 h2 h3⟩

theorem lrRd_spec {s : Cow.St} {t : Tid} {x : Side} {l : St} (h : Cow.lrRd s t x = some l) :
    Deleg s.lr l t ∧ Same s.lr l ∧ ∃ c, s.lr.pc t = .rdHold c x ∧ l.pc t = .rdHold c x := by
  obtain ⟨c, h1, h2, _⟩ := step_rd h
  exact ⟨Deleg.of_step h, same_of_quiet rfl h, c, h1, h2⟩

/-! ### exact positions inside the read acquisition (used to count the reader's steps) -/
theorem step_pre_ldCL_exact {s s' : St} {t : Tid} {v : Side} (hk : lk (s.pc t) = .pre) (hs : step s t (.ldCL v) = some s') :
    s.pc t = .rdCalled ∧ s'.pc t = .rdCL v := by
  cases hp : s.pc t <;> simp [lk, hp] at hk <;> simp [step, hp, Pc.post] at hs
  obtain ⟨_, rfl⟩ := hs; simp

theorem step_pre_inc_exact {s s' : St} {t : Tid} {c : Side} {old : Nat} (hk : lk (s.pc t) = .pre)
    (hs : step s t (.inc c old) = some s') : s.pc t = .rdCL c ∧ s'.pc t = .rdInc c := by
  cases hp : s.pc t <;> simp [lk, hp] at hk <;> simp [step, hp, Pc.post] at hs
  obtain ⟨⟨rfl, _⟩, rfl⟩ := hs; simp

theorem lrGot_exact {s : Cow.St} {t : Tid} {k : Nat} {x : Side} {l : St} (hk : lk (s.lr.pc t) = .pre)
    (h : Cow.lrGot s t k x = some l) : ∃ c, s.lr.pc t = .rdInc c ∧ l.pc t = .rdHold c x := by
  simp only [Cow.lrGot, Option.bind_eq_some_iff] at h
  obtain ⟨l1, h1, h2⟩ := h
  cases hp : s.lr.pc t <;> simp [lk, hp] at hk <;> simp [step, hp, Pc.post] at h1
  obtain ⟨_, rfl⟩ := h1
  rename_i c _
  simp [step] at h2
  subst h2; exact ⟨c, rfl, by simp⟩

end ConcVerif.LR
