import ConcVerif.Proof.HBRcuSafe
/-! rcu_list and happens-before, part 11 (state level): who accesses a node is registered and protects it (or
the node is fresh and the thread holds the write mutex); nobody protects a node whose zombie record a reclaimer
has taken off the log. -/
namespace ConcVerif.Rcu

/-- the node of a zombie record a reclaimer holds privately is protected by nobody -/
theorem not_safe_private {s : St} (hi : Inv s) {t : Tid} {a m d : Nat} (hr : reaper (BView (s.pc t)) = some a)
    (hp : privRec (BView (s.pc t)) = some m) (hc : s.rled m = .cons) (hz : (s.recs m).znode = some d) (x : Nat) :
    ¬ Safe s.eview x d := by
  have zinj := hi.d.zinj
  simp only [dview_rled, dview_zn] at zinj
  have hpo := hi.b.privOk t m (by simpa using hp)
  simp only [bview_log] at hpo
  intro h
  rcases h with g | ⟨u, g⟩ | ⟨z, g1, g2, g3⟩
  · have hne : ∀ c z, DView (s.pc t) ≠ .eMark c none z := by
      intro c z hd
      cases hp' : s.pc t <;> simp [hp', BView, reaper] at hr <;> simp [hp', DView] at hd
    exact (zdel_priv hi hp hne hc hz).2.2 g
  · simp only [eview_vpc] at g
    have viaZ : ∀ z, privRec (BView (s.pc u)) = some z → privLed (BView (s.pc u)) = .cons → (s.recs z).znode = some d →
        EView (s.pc u) ≠ .idle → False := by
      intro z h1 h2 h3 h4
      have hzc : s.rled z = .cons := priv_live hi h1 h2
      have hzm : z = m := zinj z m d hzc hc h3 hz
      subst hzm
      have hut := hi.b.privUq u t z
      simp only [bview_vpc] at hut
      have := hut h1 hp
      subst this
      cases hp' : s.pc u <;> simp [hp', BView, reaper] at hr <;> simp [hp', EView] at h4
    cases hp' : s.pc u with
    | eFix c o p y z =>
      rw [hp'] at g; simp only [EView, pendNode, eview_zn] at g
      exact viaZ z (by simp [hp', BView, privRec]) (by simp [hp', BView, privLed]) g (by simp [hp', EView])
    | eZh o z =>
      rw [hp'] at g; simp only [EView, pendNode, eview_zn] at g
      exact viaZ z (by simp [hp', BView, privRec]) (by simp [hp', BView, privLed]) g (by simp [hp', EView])
    | pushStore cc z ex =>
      cases cc with
      | reg k => rw [hp'] at g; simp [EView, pendNode] at g
      | erase o =>
        rw [hp'] at g; simp only [EView, pendNode, eview_zn] at g
        exact viaZ z (by simp [hp', BView, privRec]) (by simp [hp', BView, privLed]) g (by simp [hp', EView])
    | pushCas cc z ex =>
      cases cc with
      | reg k => rw [hp'] at g; simp [EView, pendNode] at g
      | erase o =>
        rw [hp'] at g; simp only [EView, pendNode, eview_zn] at g
        exact viaZ z (by simp [hp', BView, privRec]) (by simp [hp', BView, privLed]) g (by simp [hp', EView])
    | _ => rw [hp'] at g; simp [EView, pendNode] at g
  · simp only [eview_log, eview_zn] at g1 g2
    have hlc := hi.b.logCons z
    simp only [bview_log, bview_rled] at hlc
    have : z = m := zinj z m d (hlc g1) hc g2 hz
    subst this
    exact hpo.1 g1

/-- a node that has never been linked is protected by nobody -/
theorem not_safe_fresh {s : St} (hx : InvX s) {d : Nat} (hd : d ∉ s.order) (x : Nat) : ¬ Safe s.eview x d := by
  intro h
  rcases h with g | ⟨u, g⟩ | ⟨z, g1, g2, g3⟩
  · exact hd (hx.i.c.sub d g)
  · have := (hx.e.pend u d g).1
    simp only [eview_order] at this
    exact hd this
  · have := hx.i.d.znOrd z d
    simp only [dview_zn, dview_order, eview_zn] at this g2
    exact hd (this g2)

/-- who accesses a node: the holder of the write mutex on a node it has not linked yet, or a registered
thread for which the node is protected -/
theorem touch_safe {s s' : St} {t : Tid} {e : Ev} {d : Nat} (hx : InvX s) (hS : Step s t e s')
    (hnd : inDtor (s.pc t) = false) (hn : e.nodeAcc = some d) :
    (d ∉ s.order ∧ s.wmtx = some t) ∨ ∃ b x, s.hnd t = .reg b x ∧ Safe s.eview x d := by
  have hi := hx.i
  have wm : holdsW (s.pc t) = true → s.wmtx = some t := fun h => (hi.a.wm t).1 h
  have wr := hi.c.wr t
  simp only [cview_vpc] at wr
  have wreg : holdsW (s.pc t) = true → ∃ r, s.hnd t = .reg true r := hi.a.wrW t
  have linked : holdsW (s.pc t) = true → d ∈ s.lst → ∃ b x, s.hnd t = .reg b x ∧ Safe s.eview x d := by
    intro hh hl
    obtain ⟨r, hr⟩ := wreg hh
    exact ⟨true, r, hr, .inl hl⟩
  cases hS <;> simp only [Ev.nodeAcc] at hn <;> first | (cases hn; done) | no_dtor | skip
  all_goals (injection hn with hn; subst hn)
  case nxt w r n o hpc hh hi' ho => exact .inr ⟨w, r, hh, hx.e.cur t w r _ hh hi'⟩
  case der w r n hpc hh hi' => exact .inr ⟨w, r, hh, hx.e.cur t w r _ hh hi'⟩
  case eOrig c adv o hpc ho =>
    obtain ⟨r0, hr0⟩ := wreg (by simp [hpc, holdsW])
    exact .inr ⟨true, r0, hr0, hx.e.org t true r0 _ hr0 (by simp [hpc, EView, origOf])⟩
  case eDelDeleted c orig hpc hv =>
    obtain ⟨r0, hr0⟩ := wreg (by simp [hpc, holdsW])
    exact .inr ⟨true, r0, hr0, hx.e.org t true r0 _ hr0 (by simp [hpc, EView, origOf])⟩
  case eDelFresh c orig hpc hv =>
    obtain ⟨r0, hr0⟩ := wreg (by simp [hpc, holdsW])
    exact .inr ⟨true, r0, hr0, hx.e.org t true r0 _ hr0 (by simp [hpc, EView, origOf])⟩
  case eMark c orig z hpc =>
    rw [hpc] at wr; simp only [CView, WriterP, cview_lst] at wr
    exact .inr (linked (by simp [hpc, holdsW]) wr.1)
  case eBack c orig z o hpc ho =>
    rw [hpc] at wr; simp only [CView, WriterP, cview_lst] at wr
    exact .inr (linked (by simp [hpc, holdsW]) wr.1)
  case eNext c orig p z o hpc ho =>
    rw [hpc] at wr; simp only [CView, WriterP, cview_lst] at wr
    exact .inr (linked (by simp [hpc, holdsW]) wr.1)
  case eUnlPrev c orig pp y z o hpc ho =>
    rw [hpc] at wr; simp only [CView, WriterP, NextIs, cview_lst] at wr
    exact .inr (linked (by simp [hpc, holdsW]) wr.2.2.2.1.1)
  case eFixNext c orig p xx z o hpc ho =>
    rw [hpc] at wr; simp only [CView, WriterP, NextIs, cview_lst] at wr
    have hxl : xx ∈ s.lst := by
      have := wr.2.2.2.2.1
      cases p with
      | none => exact mem_of_head? this
      | some a => exact mem_of_mem_below (head_mem_below this.2)
    exact .inr (linked (by simp [hpc, holdsW]) hxl)
  case pPstDel f em y n hpc =>
    rw [hpc] at wr; simp only [CView, WriterP, cview_order] at wr
    exact .inl ⟨wr.1, wm (by simp [hpc, holdsW])⟩
  case pPstData f em y n hpc =>
    rw [hpc] at wr; simp only [CView, WriterP, cview_order] at wr
    exact .inl ⟨wr.1, wm (by simp [hpc, holdsW])⟩
  case pCon f em y n hpc =>
    rw [hpc] at wr; simp only [CView, WriterP, cview_order] at wr
    exact .inl ⟨wr.1, wm (by simp [hpc, holdsW])⟩
  case pF1 k n h0 o hpc ho =>
    rw [hpc] at wr; simp only [CView, WriterP, FreshN, cview_order] at wr
    exact .inl ⟨wr.1.1, wm (by simp [hpc, holdsW])⟩
  case pB1 k n h0 o hpc ho =>
    rw [hpc] at wr; simp only [CView, WriterP, FreshN, cview_order] at wr
    exact .inl ⟨wr.1.1, wm (by simp [hpc, holdsW])⟩
  case pF2 k n h0 o hpc ho =>
    rw [hpc] at wr; simp only [CView, WriterP, cview_lst] at wr
    exact .inr (linked (by simp [hpc, holdsW]) (mem_of_head? wr.2))
  case pB2 k n h0 o hpc ho =>
    rw [hpc] at wr; simp only [CView, WriterP, NextIs, cview_lst] at wr
    exact .inr (linked (by simp [hpc, holdsW]) wr.2.1.1)

end ConcVerif.Rcu
