import ConcVerif.Proof.RcuC
/-! Layer D of the rcu_list invariant: the allocation ledger of the nodes and the zombie records that name them. -/
namespace ConcVerif.Rcu

/-- pcs relevant to the node ledger, collapsed to one representative per class -/
def DView : Pc → Pc
  | .pCons k n => .pCons k n
  | .pLoad k n | .pE1 k n | .pF3 k n => .pLoad k n
  | .pF1 k n _ | .pF2 k n _ | .pB1 k n _ | .pB2 k n _ => .pLoad k n
  | .eMark c _ z | .eBack c _ z => .eMark c none z
  | .eNext c _ _ z => .eMark c none z
  | .eUnl c _ _ _ z => .eMark c none z
  | .eFix _ _ _ _ z => .eZh none z
  | .eAlloc c _ => .eAlloc c none
  | .eCons c _ _ => .eAlloc c none
  | .eZh _ z => .eZh none z
  | .pushStore (.erase _) z _ => .eZh none z
  | .pushCas (.erase _) z _ => .eZh none z
  | .regCons _ r => .regCons .beg r
  | .pushStore (.reg _) r _ => .regCons .beg r
  | .pushCas (.reg _) r _ => .regCons .beg r
  | .rZn _ m => .rZn 0 m
  | .dOwner m | .dRNext m => .rZn 0 m
  | .dZn m _ => .rZn 0 m
  | .rDesN _ m d => .rDesN 0 m d
  | .dDesZN m _ d => .rDesN 0 m d
  | .rFreN _ m d => .rFreN 0 m d
  | .dFreZN m _ d => .rFreN 0 m d
  | .rNext _ m => .rNext 0 m
  | .rDesZ _ m _ | .rFreZ _ m _ => .rNext 0 m
  | .dDesZ m _ | .dFreZ m _ => .rNext 0 m
  | .dNext m => .dNext m
  | .dDesN m _ => .dNext m
  | .dFreN m _ => .dFreN m none
  | _ => .idle

structure DSt where
  nled : Nat → Led
  rled : Nat → Led
  zn : Nat → Option Nat        -- `zombie_node` of each record
  del : Nat → Bool             -- `deleted` of each node
  nN : Nat
  lst : List Nat
  order : List Nat
  log : List Nat
  vpc : Tid → Pc

def St.dview (s : St) : DSt :=
  { nled := s.nled, rled := s.rled, zn := fun x => (s.recs x).znode, del := fun n => (s.nodes n).deleted, nN := s.nN,
    lst := s.lst, order := s.order, log := s.log, vpc := fun u => DView (s.pc u) }

/-- no constructed record names node `c` -/
def NoRec (d : DSt) (c : Nat) : Prop := ∀ x, d.rled x = .cons → d.zn x ≠ some c

def HeldP (d : DSt) : Pc → Prop
  | .pCons _ n => d.nled n = .alloc
  | .pLoad _ n => d.nled n = .cons
  | .eMark c _ z => d.zn z = some c ∧ d.nled c = .cons
  | .eAlloc c _ => NoRec d c ∧ d.nled c = .cons
  | .eZh _ z => ∃ c, d.zn z = some c ∧ d.nled c = .cons
  | .regCons _ r => d.zn r = none
  | .rZn _ m => ∀ c, d.zn m = some c → d.nled c = .cons
  | .rDesN _ m c => d.zn m = some c ∧ d.nled c = .cons
  | .rFreN _ m c => d.zn m = some c ∧ d.nled c = .dest
  | .rNext _ m => ∀ c, d.zn m = some c → d.nled c = .freed
  | .dNext m => d.nled m = .cons
  | .dFreN m _ => d.nled m = .dest
  | _ => True

structure InvDv (d : DSt) : Prop where
  cntN : ∀ n, d.nled n = .none ↔ d.nN ≤ n
  lstCons : ∀ n ∈ d.lst, d.nled n = .cons ∨ ∃ t, d.vpc t = .dFreN n none
  /-- a constructed record names an unlinked node, except the record of an `erase` that has not unlinked its node yet -/
  zdel : ∀ x c, d.rled x = .cons → d.zn x = some c →
    (d.del c = true ∧ c ∈ d.order ∧ c ∉ d.lst) ∨ ∃ t, d.vpc t = .eMark c none x
  zinj : ∀ x y c, d.rled x = .cons → d.rled y = .cons → d.zn x = some c → d.zn y = some c → x = y
  znOrd : ∀ x c, d.zn x = some c → c ∈ d.order
  zlog : ∀ x ∈ d.log, ∀ c, d.zn x = some c → d.nled c = .cons
  held : ∀ t, HeldP d (d.vpc t)
  cls : ∀ n, n < d.nN → d.nled n = .freed ∨ n ∈ d.lst ∨ (∃ t k, d.vpc t = .pCons k n ∨ d.vpc t = .pLoad k n) ∨
    (∃ x, d.rled x = .cons ∧ d.zn x = some n) ∨ (∃ t, d.vpc t = .eAlloc n none)

def InvD (s : St) : Prop := InvDv s.dview

theorem invD_init : InvD init := by
  constructor <;> simp [init, St.dview, DView, HeldP, rec0]

theorem invD_of_view {s s' : St} (h : InvD s) (hv : s'.dview = s.dview) : InvD s' := by
  unfold InvD; rw [hv]; exact h

theorem dview_setPc {s : St} {t : Tid} {p' : Pc} (hp : DView p' = DView (s.pc t)) :
    (fun u => DView ((s.setPc t p').pc u)) = fun u => DView (s.pc u) := by
  funext u
  by_cases hu : u = t
  · subst hu; simp [hp]
  · simp [hu]

@[simp] theorem dview_nled (s : St) : s.dview.nled = s.nled := rfl
@[simp] theorem dview_rled (s : St) : s.dview.rled = s.rled := rfl
@[simp] theorem dview_zn (s : St) (x : Nat) : s.dview.zn x = (s.recs x).znode := rfl
@[simp] theorem dview_del (s : St) (n : Nat) : s.dview.del n = (s.nodes n).deleted := rfl
@[simp] theorem dview_nN (s : St) : s.dview.nN = s.nN := rfl
@[simp] theorem dview_lst (s : St) : s.dview.lst = s.lst := rfl
@[simp] theorem dview_order (s : St) : s.dview.order = s.order := rfl
@[simp] theorem dview_log (s : St) : s.dview.log = s.log := rfl
@[simp] theorem dview_vpc (s : St) (u : Tid) : s.dview.vpc u = DView (s.pc u) := rfl

end ConcVerif.Rcu

namespace ConcVerif.Rcu

/-- the view `v` says something about the ledger state of node `n0` -/
def Mentions (d : DSt) (v : Pc) (n0 : Nat) : Prop :=
  match v with
  | .pCons _ n | .pLoad _ n => n = n0
  | .eMark c _ _ | .eAlloc c _ => c = n0
  | .eZh _ z => d.zn z = some n0
  | .rZn _ m | .rNext _ m => d.zn m = some n0
  | .rDesN _ _ c | .rFreN _ _ c => c = n0
  | .dNext m | .dFreN m _ => m = n0
  | _ => False

/-- `HeldP` only looks at the ledger of the nodes the view mentions -/
theorem heldP_upd_nled {d : DSt} {v : Pc} {n0 : Nat} {l : Led} (h : HeldP d v) (hm : ¬ Mentions d v n0) :
    HeldP { d with nled := upd d.nled n0 l } v := by
  cases v <;> simp only [HeldP, Mentions, NoRec] at h hm ⊢ <;> try trivial
  all_goals first
    | (rw [upd_other _ _ _ _ hm]; exact h)
    | exact h
    | (refine ⟨h.1, ?_⟩; rw [upd_other _ _ _ _ hm]; exact h.2)
    | (obtain ⟨c, h1, h2⟩ := h; exact ⟨c, h1, by rw [upd_other _ _ _ _ (fun e => hm (by subst e; exact h1))]; exact h2⟩)
    | (intro c hc; rw [upd_other _ _ _ _ (fun e => hm (by subst e; exact hc))]; exact h c hc)

/-- `HeldP` is monotone in the set of constructed records and only reads `nled`, `zn` -/
theorem heldP_mono {d d' : DSt} {v : Pc} (h : HeldP d v) (h1 : d'.nled = d.nled) (h3 : d'.zn = d.zn)
    (h2 : ∀ x, d'.rled x = .cons → d.rled x = .cons) : HeldP d' v := by
  cases v <;> simp only [HeldP, NoRec, h1, h3] at h ⊢ <;> try exact h
  all_goals exact ⟨fun x hx => h.1 x (h2 x hx), h.2⟩

/-- general frame lemma of layer D: the node ledger and the `zombie_node` fields do not change; records may stop being
constructed, `deleted` flags may be set, `lst` / `order` / `log` may grow or shrink in the stated ways; `t` changes its view -/
theorem invD_gen {s s' : St} {t : Tid} (h : InvD s) (p' : Pc)
    (h1 : s'.nled = s.nled)
    (h2 : ∀ x, s'.rled x = .cons → s.rled x = .cons)
    (h2' : ∀ x, s.rled x = .cons → s'.rled x ≠ .cons → ∀ c, (s.recs x).znode = some c → s.nled c = .freed)
    (h3 : ∀ x, (s'.recs x).znode = (s.recs x).znode)
    (h4 : ∀ c, c ∈ s.order → (s.nodes c).deleted = true → (s'.nodes c).deleted = true)
    (h5 : s'.nN = s.nN)
    (h6a : ∀ x ∈ s'.lst, x ∈ s.lst ∨ (s.nled x = .cons ∧ x ∉ s.order))
    (h6b : ∀ x ∈ s.lst, x ∈ s'.lst ∨ ∃ z, s'.rled z = .cons ∧ (s.recs z).znode = some x)
    (h7 : ∀ x ∈ s.order, x ∈ s'.order)
    (h8 : ∀ x ∈ s'.log, x ∈ s.log ∨ ∀ c, (s.recs x).znode = some c → s.nled c = .cons)
    (h9 : s'.pc = upd s.pc t p')
    (hheld : HeldP s'.dview (DView p'))
    (hlst : ∀ n, DView (s.pc t) = .dFreN n none → DView p' = .dFreN n none ∨ s.nled n = .cons ∨ n ∉ s'.lst)
    (hcls : ∀ n, ((∃ k, DView (s.pc t) = .pCons k n ∨ DView (s.pc t) = .pLoad k n) ∨ DView (s.pc t) = .eAlloc n none) →
      ((∃ k, DView p' = .pCons k n ∨ DView p' = .pLoad k n) ∨ DView p' = .eAlloc n none) ∨
        s.nled n = .freed ∨ n ∈ s'.lst ∨ ∃ x, s'.rled x = .cons ∧ (s.recs x).znode = some n)
    (hzd : ∀ c z, DView (s.pc t) = .eMark c none z →
      DView p' = .eMark c none z ∨ ((s'.nodes c).deleted = true ∧ c ∈ s'.order ∧ c ∉ s'.lst) := by
        intro c z hv; first | (exact Or.inl hv) | (simp_all [DView]; done)) : InvD s' := by
  obtain ⟨d1, d2, d3, d4, d8, d5, d6, d7⟩ := h
  simp only [dview_nled, dview_rled, dview_zn, dview_del, dview_nN, dview_lst, dview_order, dview_log, dview_vpc] at *
  have hzn : s'.dview.zn = s.dview.zn := by funext x; exact h3 x
  refine ⟨?_, ?_, ?_, ?_, ?_, ?_, ?_, ?_⟩
  all_goals simp only [dview_nled, dview_rled, dview_zn, dview_del, dview_nN, dview_lst, dview_order, dview_log, dview_vpc,
    h1, h3, h5, h9]
  · exact d1
  · intro n hn
    rcases h6a n hn with g | g
    · rcases d2 n g with f | ⟨u, hu⟩
      · exact Or.inl f
      · by_cases hut : u = t
        · subst hut
          rcases hlst n hu with g' | g' | g'
          · exact Or.inr ⟨u, by rw [upd_same]; exact g'⟩
          · exact Or.inl g'
          · exact absurd hn g'
        · exact Or.inr ⟨u, by rw [upd_other _ _ _ _ hut]; exact hu⟩
    · exact Or.inl g.1
  · intro x c hx hc
    rcases d3 x c (h2 x hx) hc with ⟨e1, e2, e3⟩ | ⟨u, hu⟩
    · refine Or.inl ⟨h4 c e2 e1, h7 c e2, ?_⟩
      intro hm
      rcases h6a c hm with g | g
      · exact e3 g
      · exact g.2 e2
    · by_cases hut : u = t
      · subst hut
        rcases hzd c x hu with g | g
        · exact Or.inr ⟨u, by rw [upd_same]; exact g⟩
        · exact Or.inl g
      · exact Or.inr ⟨u, by rw [upd_other _ _ _ _ hut]; exact hu⟩
  · intro x y c hx hy; exact d4 x y c (h2 x hx) (h2 y hy)
  · intro x c hc; exact h7 c (d8 x c hc)
  · intro x hx c hc
    rcases h8 x hx with g | g
    · exact d5 x g c hc
    · exact g c hc
  · intro u
    by_cases hut : u = t
    · subst hut; rw [upd_same]; exact hheld
    · rw [upd_other _ _ _ _ hut]
      exact heldP_mono (d := s.dview) (d6 u) h1 hzn h2
  · intro n hn
    have back : ∀ x, s.rled x = .cons → (s.recs x).znode = some n →
        s.nled n = .freed ∨ ∃ x, s'.rled x = .cons ∧ (s.recs x).znode = some n := by
      intro x hx1 hx2
      by_cases hc : s'.rled x = .cons
      · exact Or.inr ⟨x, hc, hx2⟩
      · exact Or.inl (h2' x hx1 hc n hx2)
    have lstc : n ∈ s.lst → n ∈ s'.lst ∨ ∃ z, s'.rled z = .cons ∧ (s.recs z).znode = some n := h6b n
    rcases d7 n hn with f | f | ⟨u, k, hu⟩ | ⟨x, hx1, hx2⟩ | ⟨u, hu⟩
    · exact Or.inl f
    · rcases lstc f with g | g
      · exact Or.inr (Or.inl g)
      · exact Or.inr (Or.inr (Or.inr (Or.inl g)))
    · by_cases hut : u = t
      · subst hut
        rcases hcls n (Or.inl ⟨k, hu⟩) with (⟨k', g⟩ | g) | g | g | g
        · exact Or.inr (Or.inr (Or.inl ⟨u, k', by rw [upd_same]; exact g⟩))
        · exact Or.inr (Or.inr (Or.inr (Or.inr ⟨u, by rw [upd_same]; exact g⟩)))
        · exact Or.inl g
        · exact Or.inr (Or.inl g)
        · exact Or.inr (Or.inr (Or.inr (Or.inl g)))
      · exact Or.inr (Or.inr (Or.inl ⟨u, k, by rw [upd_other _ _ _ _ hut]; exact hu⟩))
    · rcases back x hx1 hx2 with g | g
      · exact Or.inl g
      · exact Or.inr (Or.inr (Or.inr (Or.inl g)))
    · by_cases hut : u = t
      · subst hut
        rcases hcls n (Or.inr hu) with (⟨k', g⟩ | g) | g | g | g
        · exact Or.inr (Or.inr (Or.inl ⟨u, k', by rw [upd_same]; exact g⟩))
        · exact Or.inr (Or.inr (Or.inr (Or.inr ⟨u, by rw [upd_same]; exact g⟩)))
        · exact Or.inl g
        · exact Or.inr (Or.inl g)
        · exact Or.inr (Or.inr (Or.inr (Or.inl g)))
      · exact Or.inr (Or.inr (Or.inr (Or.inr ⟨u, by rw [upd_other _ _ _ _ hut]; exact hu⟩)))

/-- views that belong to the mutex holder -/
theorem dview_writer {p : Pc} (h : (∃ k n, DView p = .pCons k n ∨ DView p = .pLoad k n) ∨
    (∃ c o, (∃ z, DView p = .eMark c o z) ∨ DView p = .eAlloc c o) ∨ (∃ o z, DView p = .eZh o z)) : holdsW p = true := by
  cases p with
  | pushStore c r e => cases c <;> simp [DView] at h <;> simp [holdsW]
  | pushCas c r e => cases c <;> simp [DView] at h <;> simp [holdsW]
  | _ => simp [DView] at h <;> simp [holdsW]

theorem dview_dtor {p : Pc} (h : (∃ m, DView p = .dNext m) ∨ (∃ m o, DView p = .dFreN m o)) : inDtor p = true := by
  cases p <;> simp [DView] at h <;> simp [inDtor]
  all_goals (rename_i c _ _; cases c <;> simp [DView] at h)

/-- views with a privately held, constructed record -/
theorem dview_priv {p : Pc} {m : Nat} (h : DView p = .rZn 0 m ∨ (∃ c, DView p = .rDesN 0 m c) ∨
    (∃ c, DView p = .rFreN 0 m c) ∨ DView p = .eZh none m) :
    privRec (BView p) = some m ∧ privLed (BView p) = .cons := by
  cases p with
  | pushStore c r e => cases c <;> simp [DView] at h <;> simp [BView, privRec, privLed, h]
  | pushCas c r e => cases c <;> simp [DView] at h <;> simp [BView, privRec, privLed, h]
  | _ => simp [DView] at h <;> simp [BView, privRec, privLed, h]

/-- an `erase` between the construction of its zombie record and the unlink holds that record privately -/
theorem dview_eMark_priv {p : Pc} {c z : Nat} (h : DView p = .eMark c none z) :
    privRec (BView p) = some z ∧ privLed (BView p) = .cons := by
  cases p with
  | pushStore c r e => cases c <;> simp [DView] at h
  | pushCas c r e => cases c <;> simp [DView] at h
  | _ => simp [DView] at h <;> simp [BView, privRec, privLed, h]

theorem dview_rNext_cases {p : Pc} {m : Nat} (h : DView p = .rNext 0 m) :
    privRec (BView p) = some m ∧ (privLed (BView p) = .cons ∨ privLed (BView p) = .dest) := by
  cases p with
  | pushStore c r e => cases c <;> simp [DView] at h
  | pushCas c r e => cases c <;> simp [DView] at h
  | _ => simp [DView] at h <;> simp [BView, privRec, privLed, h]

/-- a node held privately by a pusher has never been linked -/
theorem dview_node_fresh {s : St} (hc : InvC s) {u : Tid} {k : Op} {n : Nat}
    (h : DView (s.pc u) = .pCons k n ∨ DView (s.pc u) = .pLoad k n) : n ∉ s.order := by
  have hw := hc.wr u
  simp only [cview_vpc] at hw
  cases hp : s.pc u with
  | pushStore c r e => rw [hp] at h; cases c <;> simp [DView] at h
  | pushCas c r e => rw [hp] at h; cases c <;> simp [DView] at h
  | pF3 k' n' =>
    rw [hp] at h hw; simp [DView] at h; simp only [CView, WriterP, FreshN, cview_order] at hw
    obtain ⟨_, hf, _⟩ := hw; rw [← h.2]; exact hf.1
  | _ =>
    rw [hp] at h hw; simp [DView] at h <;>
      (simp only [CView, WriterP, FreshN, cview_order] at hw; first | (rw [← h.2]; exact hw.1) | (rw [← h.2]; exact hw.1.1))

structure Inv (s : St) : Prop where
  a : InvA s
  b : InvB s
  c : InvC s
  d : InvD s

theorem dview_nonidle {p : Pc} (h : DView p ≠ .idle) : BView p ≠ .idle ∨ CView p ≠ .idle := by
  cases p with
  | pushStore c r e => left; simp [BView]
  | pushCas c r e => left; simp [BView]
  | _ => simp [DView] at h <;> simp [BView, CView]

/-- destructor phase: every other thread has an idle D-view -/
theorem others_didle_dt {s : St} {t : Tid} (ha : InvA s) (hdt : s.dt = true) (hd : inDtor (s.pc t) = true) :
    ∀ u, u ≠ t → DView (s.pc u) = .idle := by
  intro u hut
  apply Classical.byContradiction
  intro hc
  rcases dview_nonidle hc with h1 | h1
  · exact h1 (others_idle ha hdt hd u hut)
  · exact h1 (others_cidle_dt ha hdt hd u hut)

/-- nobody else has anything to say about a node that has never been linked and belongs to the writer -/
theorem writer_excl {s : St} {t : Tid} (hi : Inv s) (hw : holdsW (s.pc t) = true) {n0 : Nat} (hn : n0 ∉ s.order) :
    ∀ u, u ≠ t → ¬ Mentions s.dview (DView (s.pc u)) n0 := by
  intro u hut hm
  obtain ⟨hdt, _⟩ := others_cidle hi.a hw
  have hnw : holdsW (s.pc u) = false := by
    cases hc : holdsW (s.pc u) with
    | false => rfl
    | true =>
      have a := (hi.a.wm u).1 hc
      have b := (hi.a.wm t).1 hw
      rw [a] at b; injection b with b; exact absurd b hut
  have hnd : inDtor (s.pc u) = false := by
    cases hc : inDtor (s.pc u) with
    | false => rfl
    | true => have := hi.a.dtd u hc; rw [hdt] at this; cases this
  have hheld := hi.d.held u
  have hzo := hi.d.znOrd
  simp only [dview_vpc, dview_zn, dview_order] at hheld hzo
  cases hv : DView (s.pc u) <;> rw [hv] at hm hheld <;> simp only [Mentions, dview_zn] at hm <;> try exact hm
  case pCons k n => rw [dview_writer (Or.inl ⟨k, n, Or.inl hv⟩)] at hnw; cases hnw
  case pLoad k n => rw [dview_writer (Or.inl ⟨k, n, Or.inr hv⟩)] at hnw; cases hnw
  case eMark c o z => rw [dview_writer (Or.inr (Or.inl ⟨c, o, Or.inl ⟨z, hv⟩⟩))] at hnw; cases hnw
  case eAlloc c o => rw [dview_writer (Or.inr (Or.inl ⟨c, o, Or.inr hv⟩))] at hnw; cases hnw
  case eZh o z => rw [dview_writer (Or.inr (Or.inr ⟨o, z, hv⟩))] at hnw; cases hnw
  case rZn a m => exact hn (hzo m n0 hm)
  case rNext a m => exact hn (hzo m n0 hm)
  case rDesN a m c => subst hm; simp only [HeldP, dview_zn] at hheld; exact hn (hzo m c hheld.1)
  case rFreN a m c => subst hm; simp only [HeldP, dview_zn] at hheld; exact hn (hzo m c hheld.1)
  case dNext m => rw [dview_dtor (Or.inl ⟨m, hv⟩)] at hnd; cases hnd
  case dFreN m o => rw [dview_dtor (Or.inr ⟨m, o, hv⟩)] at hnd; cases hnd

/-- nobody else has anything to say about the node named by a constructed record that `t` holds privately -/
theorem reaper_excl {s : St} {t : Tid} (hi : Inv s) (hdt : s.dt = false) {m d : Nat}
    (hm : privRec (BView (s.pc t)) = some m) (hcons : s.rled m = .cons) (hz : (s.recs m).znode = some d)
    (hnl : s.nled d = .cons ∨ s.nled d = .dest) :
    ∀ u, u ≠ t → ¬ Mentions s.dview (DView (s.pc u)) d := by
  intro u hut hmu
  have hnd : inDtor (s.pc u) = false := by
    cases hc : inDtor (s.pc u) with
    | false => rfl
    | true => have := hi.a.dtd u hc; rw [hdt] at this; cases this
  have hheld := hi.d.held u
  have hzo := hi.d.znOrd
  have hzi := hi.d.zinj
  have hpo := hi.b.privOk u
  have hpu := hi.b.privUq
  simp only [dview_vpc, dview_zn, dview_order, dview_rled, bview_vpc, bview_rled, bview_log] at hheld hzo hzi hpo hpu
  have hdo : d ∈ s.order := hzo m d hz
  -- a constructed private record of `u` naming `d` is impossible
  have key : ∀ m', privRec (BView (s.pc u)) = some m' → s.rled m' = .cons → (s.recs m').znode = some d → False := by
    intro m' h1 h2 h3
    have := hzi m' m d h2 hcons h3 hz
    subst this
    exact hut (hpu u t m' h1 hm)
  cases hv : DView (s.pc u) <;> rw [hv] at hmu hheld <;> simp only [Mentions, dview_zn] at hmu <;> try exact hmu
  case pCons k n => subst hmu; exact dview_node_fresh hi.c (Or.inl hv) hdo
  case pLoad k n => subst hmu; exact dview_node_fresh hi.c (Or.inr hv) hdo
  case eMark c o z =>
    subst hmu
    simp only [HeldP, dview_zn] at hheld
    have hv' : DView (s.pc u) = .eMark c none z := by
      cases hp : s.pc u <;> rw [hp] at hv <;> simp [DView] at hv ⊢ <;> try exact ⟨hv.1, hv.2.2⟩
      all_goals (rename_i c' _ _; cases c' <;> simp [DView] at hv)
    have p1 := dview_eMark_priv hv'
    exact key z p1.1 (by rw [(hpo z p1.1).2, p1.2]) hheld.1
  case eAlloc c o => subst hmu; simp only [HeldP, NoRec, dview_rled, dview_zn] at hheld; exact hheld.1 m hcons hz
  case eZh o z =>
    have hv' : DView (s.pc u) = .eZh none z := by
      cases hp : s.pc u <;> rw [hp] at hv <;> simp [DView] at hv ⊢ <;> try exact hv.2
      all_goals (rename_i c _ _; cases c <;> simp [DView] at hv ⊢ <;> exact hv.2)
    obtain ⟨p1, p2⟩ := dview_priv (Or.inr (Or.inr (Or.inr hv')))
    exact key z p1 (by rw [(hpo z p1).2, p2]) hmu
  case rZn a m' =>
    have hv' : DView (s.pc u) = .rZn 0 m' := by
      cases hp : s.pc u <;> rw [hp] at hv <;> simp [DView] at hv ⊢ <;> try exact hv.2
      all_goals (rename_i c _ _; cases c <;> simp [DView] at hv)
    obtain ⟨p1, p2⟩ := dview_priv (Or.inl hv')
    exact key m' p1 (by rw [(hpo m' p1).2, p2]) hmu
  case rDesN a m' c =>
    subst hmu
    have hv' : DView (s.pc u) = .rDesN 0 m' c := by
      cases hp : s.pc u <;> rw [hp] at hv <;> simp [DView] at hv ⊢ <;> try exact ⟨hv.2.1, hv.2.2⟩
      all_goals (rename_i c' _ _; cases c' <;> simp [DView] at hv)
    obtain ⟨p1, p2⟩ := dview_priv (Or.inr (Or.inl ⟨c, hv'⟩))
    simp only [HeldP, dview_zn] at hheld
    exact key m' p1 (by rw [(hpo m' p1).2, p2]) hheld.1
  case rFreN a m' c =>
    subst hmu
    have hv' : DView (s.pc u) = .rFreN 0 m' c := by
      cases hp : s.pc u <;> rw [hp] at hv <;> simp [DView] at hv ⊢ <;> try exact ⟨hv.2.1, hv.2.2⟩
      all_goals (rename_i c' _ _; cases c' <;> simp [DView] at hv)
    obtain ⟨p1, p2⟩ := dview_priv (Or.inr (Or.inr (Or.inl ⟨c, hv'⟩)))
    simp only [HeldP, dview_zn] at hheld
    exact key m' p1 (by rw [(hpo m' p1).2, p2]) hheld.1
  case rNext a m' =>
    simp only [HeldP, dview_zn, dview_nled] at hheld
    have := hheld d hmu
    rcases hnl with e | e <;> rw [e] at this <;> cases this
  case dNext m' => rw [dview_dtor (Or.inl ⟨m', hv⟩)] at hnd; cases hnd
  case dFreN m' o => rw [dview_dtor (Or.inr ⟨m', o, hv⟩)] at hnd; cases hnd

/-- a constructed record that a thread other than a not-yet-unlinking `erase` holds privately names an unlinked node -/
theorem zdel_priv {s : St} {t : Tid} (hi : Inv s) {m d : Nat} (hpr : privRec (BView (s.pc t)) = some m)
    (hne : ∀ c z, DView (s.pc t) ≠ .eMark c none z) (hc : s.rled m = .cons) (hz : (s.recs m).znode = some d) :
    (s.nodes d).deleted = true ∧ d ∈ s.order ∧ d ∉ s.lst := by
  rcases hi.d.zdel m d hc hz with g | ⟨u, hu⟩
  · exact g
  · exfalso
    simp only [dview_vpc] at hu
    have hpu := hi.b.privUq u t m
    simp only [bview_vpc] at hpu
    have := hpu (dview_eMark_priv hu).1 hpr
    subst this
    exact hne d m hu

/-- a record on the log names an unlinked node -/
theorem zdel_log {s : St} (hi : Inv s) {x c : Nat} (hx : x ∈ s.log) (hz : (s.recs x).znode = some c) :
    (s.nodes c).deleted = true ∧ c ∈ s.order ∧ c ∉ s.lst := by
  have hlc := hi.b.logCons x hx
  simp only [bview_rled] at hlc
  rcases hi.d.zdel x c hlc hz with g | ⟨u, hu⟩
  · exact g
  · exfalso
    simp only [dview_vpc] at hu
    have := hi.b.privOk u x (by simp only [bview_vpc]; exact (dview_eMark_priv hu).1)
    simp only [bview_log] at this
    exact this.1 hx

/-- thread `t` changes the ledger state of node `n0` (nobody else mentions `n0`) -/
theorem invD_nled {s : St} {t : Tid} (h : InvD s) (n0 : Nat) (l : Led) (p' : Pc) (nodes' : Nat → Node)
    (hdel : ∀ c, c ∈ s.order → (s.nodes c).deleted = true → (nodes' c).deleted = true)
    (hoth : ∀ u, u ≠ t → ¬ Mentions s.dview (DView (s.pc u)) n0)
    (hcnt : l ≠ .none ∧ s.nled n0 ≠ .none)
    (hheld : HeldP { s.dview with nled := upd s.nled n0 l } (DView p'))
    (hlst : n0 ∈ s.lst → l = .cons ∨ DView p' = .dFreN n0 none)
    (hlog : ∀ x ∈ s.log, (s.recs x).znode = some n0 → l = .cons)
    (hcls0 : l = .freed ∨ n0 ∈ s.lst ∨ (∃ k, DView p' = .pCons k n0 ∨ DView p' = .pLoad k n0) ∨
      (∃ x, s.rled x = .cons ∧ (s.recs x).znode = some n0) ∨ DView p' = .eAlloc n0 none)
    (hvT : ∀ n, ((∃ k, DView (s.pc t) = .pCons k n ∨ DView (s.pc t) = .pLoad k n) ∨ DView (s.pc t) = .eAlloc n none ∨
      DView (s.pc t) = .dFreN n none) → n = n0)
    (hne : ∀ c z, DView (s.pc t) ≠ .eMark c none z := by intro c z hv; simp_all [DView]; done) :
    InvD (({ s with nodes := nodes' }.setNled n0 l).setPc t p') := by
  obtain ⟨d1, d2, d3, d4, d8, d5, d6, d7⟩ := h
  simp only [dview_nled, dview_rled, dview_zn, dview_del, dview_nN, dview_lst, dview_order, dview_log, dview_vpc] at *
  refine ⟨?_, ?_, ?_, d4, d8, ?_, ?_, ?_⟩
  all_goals simp only [dview_nled, dview_rled, dview_zn, dview_del, dview_nN, dview_lst, dview_order, dview_log, dview_vpc,
    setPc_nled, setPc_rled, setPc_recs, setPc_nodes, setPc_nN, setPc_lst, setPc_order, setPc_log, setPc_pc,
    setNled_nled, setNled_rled, setNled_recs, setNled_nodes, setNled_nN, setNled_lst, setNled_order, setNled_log, setNled_pc]
  · intro n
    by_cases e : n = n0
    · subst e; rw [upd_same]
      constructor
      · intro hc; exact absurd hc hcnt.1
      · intro hc; exact absurd ((d1 n).2 hc) hcnt.2
    · rw [upd_other _ _ _ _ e]; exact d1 n
  · intro n hn
    by_cases e : n = n0
    · subst e; rw [upd_same]
      rcases hlst hn with g | g
      · exact Or.inl g
      · exact Or.inr ⟨t, by rw [upd_same]; exact g⟩
    · rw [upd_other _ _ _ _ e]
      rcases d2 n hn with f | ⟨u, hu⟩
      · exact Or.inl f
      · by_cases hut : u = t
        · subst hut; exact absurd (hvT n (Or.inr (Or.inr hu))) e
        · exact Or.inr ⟨u, by rw [upd_other _ _ _ _ hut]; exact hu⟩
  · intro x c hx hc
    rcases d3 x c hx hc with ⟨e1, e2, e3⟩ | ⟨u, hu⟩
    · exact Or.inl ⟨hdel c e2 e1, e2, e3⟩
    · by_cases hut : u = t
      · subst hut; exact absurd hu (hne c x)
      · exact Or.inr ⟨u, by rw [upd_other _ _ _ _ hut]; exact hu⟩
  · intro x hx c hc
    by_cases e : c = n0
    · subst e; rw [upd_same]; exact hlog x hx hc
    · rw [upd_other _ _ _ _ e]; exact d5 x hx c hc
  · intro u
    by_cases hut : u = t
    · subst hut; rw [upd_same]; exact hheld
    · rw [upd_other _ _ _ _ hut]
      exact heldP_upd_nled (d := s.dview) (d6 u) (hoth u hut)
  · intro n hn
    by_cases e : n = n0
    · subst e; rw [upd_same]
      rcases hcls0 with g | g | ⟨k, g⟩ | g | g
      · exact Or.inl g
      · exact Or.inr (Or.inl g)
      · exact Or.inr (Or.inr (Or.inl ⟨t, k, by rw [upd_same]; exact g⟩))
      · exact Or.inr (Or.inr (Or.inr (Or.inl g)))
      · exact Or.inr (Or.inr (Or.inr (Or.inr ⟨t, by rw [upd_same]; exact g⟩)))
    · rw [upd_other _ _ _ _ e]
      rcases d7 n hn with f | f | ⟨u, k, hu⟩ | f | ⟨u, hu⟩
      · exact Or.inl f
      · exact Or.inr (Or.inl f)
      · by_cases hut : u = t
        · subst hut; exact absurd (hvT n (Or.inl ⟨k, hu⟩)) e
        · exact Or.inr (Or.inr (Or.inl ⟨u, k, by rw [upd_other _ _ _ _ hut]; exact hu⟩))
      · exact Or.inr (Or.inr (Or.inr (Or.inl f)))
      · by_cases hut : u = t
        · subst hut; exact absurd (hvT n (Or.inr (Or.inl hu))) e
        · exact Or.inr (Or.inr (Or.inr (Or.inr ⟨u, by rw [upd_other _ _ _ _ hut]; exact hu⟩)))

/-- a view that mentions a node also claims a ledger state for it -/
theorem mentions_allocated {d : DSt} {v : Pc} {n0 : Nat} (h : HeldP d v) (hm : Mentions d v n0) : d.nled n0 ≠ .none := by
  cases v <;> simp only [HeldP, Mentions] at h hm <;> try exact absurd hm id
  all_goals first
    | (subst hm; rw [h]; simp)
    | (subst hm; rw [h.2]; simp)
    | (obtain ⟨c, h1, h2⟩ := h; rw [h1] at hm; injection hm with hm; subst hm; rw [h2]; simp)
    | (rw [h _ hm]; simp)

/-- `alo N nN` -/
theorem invD_pAlo {s : St} {t : Tid} (h : InvD s) (k : Op) (hv : DView (s.pc t) = .idle) :
    InvD (({ s with nN := s.nN + 1 }.setNled s.nN .alloc).setPc t (.pCons k s.nN)) := by
  obtain ⟨d1, d2, d3, d4, d8, d5, d6, d7⟩ := h
  simp only [dview_nled, dview_rled, dview_zn, dview_del, dview_nN, dview_lst, dview_order, dview_log, dview_vpc] at *
  have hfresh : s.nled s.nN = .none := (d1 s.nN).2 (Nat.le_refl _)
  refine ⟨?_, ?_, ?_, d4, d8, ?_, ?_, ?_⟩
  all_goals simp only [dview_nled, dview_rled, dview_zn, dview_del, dview_nN, dview_lst, dview_order, dview_log, dview_vpc,
    setPc_nled, setPc_rled, setPc_recs, setPc_nodes, setPc_nN, setPc_lst, setPc_order, setPc_log, setPc_pc,
    setNled_nled, setNled_rled, setNled_recs, setNled_nodes, setNled_nN, setNled_lst, setNled_order, setNled_log, setNled_pc]
  rotate_left 2
  · intro x c hx hc
    rcases d3 x c hx hc with g | ⟨u, hu⟩
    · exact Or.inl g
    · by_cases hut : u = t
      · subst hut; rw [hv] at hu; cases hu
      · exact Or.inr ⟨u, by rw [upd_other _ _ _ _ hut]; exact hu⟩
  rotate_right 2
  · intro n
    by_cases e : n = s.nN
    · subst e; rw [upd_same]; simp
    · rw [upd_other _ _ _ _ e, d1 n]; omega
  · intro n hn
    have e : n ≠ s.nN := by
      intro e; subst e
      rcases d2 _ hn with f | ⟨u, hu⟩
      · rw [hfresh] at f; cases f
      · have := d6 u; rw [hu] at this; simp only [HeldP, dview_nled] at this; rw [hfresh] at this; cases this
    rw [upd_other _ _ _ _ e]
    rcases d2 n hn with f | ⟨u, hu⟩
    · exact Or.inl f
    · by_cases hut : u = t
      · subst hut; rw [hv] at hu; cases hu
      · exact Or.inr ⟨u, by rw [upd_other _ _ _ _ hut]; exact hu⟩
  · intro x hx c hc
    have := d5 x hx c hc
    have e : c ≠ s.nN := by intro e; subst e; rw [hfresh] at this; cases this
    rw [upd_other _ _ _ _ e]; exact this
  · intro u
    by_cases hut : u = t
    · subst hut; rw [upd_same]; simp only [DView, HeldP, dview_nled, setPc_nled, setNled_nled, upd_same]
    · rw [upd_other _ _ _ _ hut]
      refine heldP_upd_nled (d := s.dview) (d6 u) ?_
      intro hm; exact mentions_allocated (d := s.dview) (d6 u) hm hfresh
  · intro n hn
    by_cases e : n = s.nN
    · subst e; exact Or.inr (Or.inr (Or.inl ⟨t, k, by rw [upd_same]; exact Or.inl rfl⟩))
    · rw [upd_other _ _ _ _ e]
      rcases d7 n (by omega) with f | f | ⟨u, k', hu⟩ | f | ⟨u, hu⟩
      · exact Or.inl f
      · exact Or.inr (Or.inl f)
      · by_cases hut : u = t
        · subst hut; rw [hv] at hu; rcases hu with hu | hu <;> cases hu
        · exact Or.inr (Or.inr (Or.inl ⟨u, k', by rw [upd_other _ _ _ _ hut]; exact hu⟩))
      · exact Or.inr (Or.inr (Or.inr (Or.inl f)))
      · by_cases hut : u = t
        · subst hut; rw [hv] at hu; cases hu
        · exact Or.inr (Or.inr (Or.inr (Or.inr ⟨u, by rw [upd_other _ _ _ _ hut]; exact hu⟩)))

/-- `con Z r`: the record `t` holds privately becomes constructed, with `zombie_node = zv` -/
theorem invD_conR {s : St} {t : Tid} (h : InvD s) (r : Nat) (R : Rec) (p' : Pc)
    (hnc : s.rled r ≠ .cons) (hrl : r ∉ s.log)
    (hoth : ∀ u, u ≠ t → HeldP s.dview (DView (s.pc u)) →
      HeldP { s.dview with rled := upd s.rled r .cons, zn := fun x => ((upd s.recs r R) x).znode } (DView (s.pc u)))
    (hz : ∀ c, R.znode = some c → c ∈ s.order ∧ DView p' = .eMark c none r ∧
      (∀ y, s.rled y = .cons → (s.recs y).znode ≠ some c))
    (hheld : HeldP { s.dview with rled := upd s.rled r .cons, zn := fun x => ((upd s.recs r R) x).znode } (DView p'))
    (hcls : ∀ n, ((∃ k, DView (s.pc t) = .pCons k n ∨ DView (s.pc t) = .pLoad k n) ∨ DView (s.pc t) = .eAlloc n none) →
      R.znode = some n)
    (hnf : ∀ n, DView (s.pc t) ≠ .dFreN n none)
    (hne : ∀ c z, DView (s.pc t) ≠ .eMark c none z := by intro c z hv; simp_all [DView]; done) :
    InvD (({ s with recs := upd s.recs r R }.setRled r .cons).setPc t p') := by
  obtain ⟨d1, d2, d3, d4, d8, d5, d6, d7⟩ := h
  simp only [dview_nled, dview_rled, dview_zn, dview_del, dview_nN, dview_lst, dview_order, dview_log, dview_vpc] at *
  have hview : (({ s with recs := upd s.recs r R }.setRled r .cons).setPc t p').dview =
      { s.dview with rled := upd s.rled r .cons, zn := fun x => ((upd s.recs r R) x).znode,
                     vpc := fun u => DView (upd s.pc t p' u) } := rfl
  unfold InvD; rw [hview]
  refine ⟨d1, ?_, ?_, ?_, ?_, ?_, ?_, ?_⟩
  all_goals simp only [dview_nled, dview_rled, dview_zn, dview_del, dview_nN, dview_lst, dview_order, dview_log, dview_vpc]
  · intro n hn
    rcases d2 n hn with f | ⟨u, hu⟩
    · exact Or.inl f
    · by_cases hut : u = t
      · subst hut; exact absurd hu (hnf n)
      · exact Or.inr ⟨u, by rw [upd_other _ _ _ _ hut]; exact hu⟩
  · intro x c hx hc
    by_cases e : x = r
    · subst e; rw [upd_same] at hc
      exact Or.inr ⟨t, by rw [upd_same]; exact (hz c hc).2.1⟩
    · rw [upd_other _ _ _ _ e] at hx hc
      rcases d3 x c hx hc with g | ⟨u, hu⟩
      · exact Or.inl g
      · by_cases hut : u = t
        · subst hut; exact absurd hu (hne c x)
        · exact Or.inr ⟨u, by rw [upd_other _ _ _ _ hut]; exact hu⟩
  · intro x y c hx hy hcx hcy
    by_cases ex : x = r <;> by_cases ey : y = r
    · rw [ex, ey]
    · subst ex; rw [upd_same] at hcx; rw [upd_other _ _ _ _ ey] at hy hcy
      exact absurd hcy ((hz c hcx).2.2 y hy)
    · subst ey; rw [upd_same] at hcy; rw [upd_other _ _ _ _ ex] at hx hcx
      exact absurd hcx ((hz c hcy).2.2 x hx)
    · rw [upd_other _ _ _ _ ex] at hx hcx; rw [upd_other _ _ _ _ ey] at hy hcy
      exact d4 x y c hx hy hcx hcy
  · intro x c hc
    by_cases e : x = r
    · subst e; rw [upd_same] at hc; exact (hz c hc).1
    · rw [upd_other _ _ _ _ e] at hc; exact d8 x c hc
  · intro x hx c hc
    have e : x ≠ r := fun e => hrl (e ▸ hx)
    rw [upd_other _ _ _ _ e] at hc; exact d5 x hx c hc
  · intro u
    by_cases hut : u = t
    · subst hut; rw [upd_same]; exact hheld
    · rw [upd_other _ _ _ _ hut]; exact hoth u hut (d6 u)
  · intro n hn
    rcases d7 n hn with f | f | ⟨u, k, hu⟩ | ⟨x, hx1, hx2⟩ | ⟨u, hu⟩
    · exact Or.inl f
    · exact Or.inr (Or.inl f)
    · by_cases hut : u = t
      · subst hut
        exact Or.inr (Or.inr (Or.inr (Or.inl ⟨r, by rw [upd_same], by rw [upd_same]; exact hcls n (Or.inl ⟨k, hu⟩)⟩)))
      · exact Or.inr (Or.inr (Or.inl ⟨u, k, by rw [upd_other _ _ _ _ hut]; exact hu⟩))
    · have e : x ≠ r := fun e => hnc (e ▸ hx1)
      exact Or.inr (Or.inr (Or.inr (Or.inl ⟨x, by rw [upd_other _ _ _ _ e]; exact hx1, by rw [upd_other _ _ _ _ e]; exact hx2⟩)))
    · by_cases hut : u = t
      · subst hut
        exact Or.inr (Or.inr (Or.inr (Or.inl ⟨r, by rw [upd_same], by rw [upd_same]; exact hcls n (Or.inr hu)⟩)))
      · exact Or.inr (Or.inr (Or.inr (Or.inr ⟨u, by rw [upd_other _ _ _ _ hut]; exact hu⟩)))

/-- `~rcu_list`: a linked node has been freed and leaves `lst` -/
theorem invD_dFreN {s : St} {t : Tid} (h : InvD s) (m : Nat) (nx : Option Nat)
    (hv : DView (s.pc t) = .dFreN m none) (hoth : ∀ u, u ≠ t → DView (s.pc u) = .idle)
    (hm : m ∈ s.lst) (hnd : s.lst.Nodup) (hnx : ∀ m', nx = some m' → m' ∈ s.lst ∧ m' ≠ m)
    (hlc : ∀ x ∈ s.log, s.rled x = .cons) :
    InvD ({ (s.setNled m .freed) with lst := s.lst.erase m }.dNodeAt t nx) := by
  obtain ⟨d1, d2, d3, d4, d8, d5, d6, d7⟩ := h
  simp only [dview_nled, dview_rled, dview_zn, dview_del, dview_nN, dview_lst, dview_order, dview_log, dview_vpc] at *
  have hmd : s.nled m = .dest := by
    have := d6 t; rw [hv] at this; simpa [HeldP] using this
  have hcons : ∀ n ∈ s.lst, n ≠ m → s.nled n = .cons := by
    intro n hn hne
    rcases d2 n hn with f | ⟨u, hu⟩
    · exact f
    · by_cases hut : u = t
      · subst hut; rw [hv] at hu; injection hu with hu; exact absurd hu.symm hne
      · rw [hoth u hut] at hu; cases hu
  have hd3 : ∀ x c, s.rled x = .cons → (s.recs x).znode = some c → (s.nodes c).deleted = true ∧ c ∈ s.order ∧ c ∉ s.lst := by
    intro x c hx hc
    rcases d3 x c hx hc with g | ⟨u, hu⟩
    · exact g
    · by_cases hut : u = t
      · subst hut; rw [hv] at hu; cases hu
      · rw [hoth u hut] at hu; cases hu
  have hsubE : ∀ y, y ∈ s.lst.erase m → y ∈ s.lst ∧ y ≠ m := by
    intro y hy
    exact ⟨List.mem_of_mem_erase hy, fun e => by subst e; exact (List.Nodup.mem_erase_iff hnd).1 hy |>.1 rfl⟩
  have hvu : ∀ u, u ≠ t → DView (({ (s.setNled m .freed) with lst := s.lst.erase m }.dNodeAt t nx).pc u) = .idle := by
    intro u hut; cases nx <;> simp only [St.dNodeAt, setPc_pc, upd_other _ _ _ _ hut] <;> exact hoth u hut
  have hnled : ({ (s.setNled m .freed) with lst := s.lst.erase m }.dNodeAt t nx).nled = upd s.nled m .freed := by
    cases nx <;> rfl
  have hlst : ({ (s.setNled m .freed) with lst := s.lst.erase m }.dNodeAt t nx).lst = s.lst.erase m := by
    cases nx <;> rfl
  have hrest : ({ (s.setNled m .freed) with lst := s.lst.erase m }.dNodeAt t nx).rled = s.rled ∧
      ({ (s.setNled m .freed) with lst := s.lst.erase m }.dNodeAt t nx).recs = s.recs ∧
      ({ (s.setNled m .freed) with lst := s.lst.erase m }.dNodeAt t nx).nodes = s.nodes ∧
      ({ (s.setNled m .freed) with lst := s.lst.erase m }.dNodeAt t nx).nN = s.nN ∧
      ({ (s.setNled m .freed) with lst := s.lst.erase m }.dNodeAt t nx).order = s.order ∧
      ({ (s.setNled m .freed) with lst := s.lst.erase m }.dNodeAt t nx).log = s.log := by
    cases nx <;> exact ⟨rfl, rfl, rfl, rfl, rfl, rfl⟩
  obtain ⟨r1, r2, r3, r4, r5, r6⟩ := hrest
  refine ⟨?_, ?_, ?_, ?_, ?_, ?_, ?_, ?_⟩
  all_goals simp only [dview_nled, dview_rled, dview_zn, dview_del, dview_nN, dview_lst, dview_order, dview_log, dview_vpc,
    hnled, hlst, r1, r2, r3, r4, r5, r6]
  · intro n
    by_cases e : n = m
    · subst e; rw [upd_same]
      constructor
      · intro hc; cases hc
      · intro hc; have := (d1 n).2 hc; rw [hmd] at this; cases this
    · rw [upd_other _ _ _ _ e]; exact d1 n
  · intro n hn
    obtain ⟨h1, h2⟩ := hsubE n hn
    rw [upd_other _ _ _ _ h2]; exact Or.inl (hcons n h1 h2)
  · intro x c hx hc
    obtain ⟨e1, e2, e3⟩ := hd3 x c hx hc
    exact Or.inl ⟨e1, e2, fun hm' => e3 (hsubE c hm').1⟩
  · exact d4
  · exact d8
  · intro x hx c hc
    have e : c ≠ m := by
      intro e; subst e
      exact (hd3 x c (hlc x hx) hc).2.2 hm
    rw [upd_other _ _ _ _ e]; exact d5 x hx c hc
  · intro u
    by_cases hut : u = t
    · subst hut
      cases nx with
      | none => simp only [St.dNodeAt, setPc_pc, upd_same, DView]; trivial
      | some m' =>
        simp only [St.dNodeAt, setPc_pc, upd_same, DView, HeldP]
        obtain ⟨g1, g2⟩ := hnx m' rfl
        show (upd s.nled m .freed) m' = .cons
        rw [upd_other _ _ _ _ g2]; exact hcons m' g1 g2
    · rw [hvu u hut]; trivial
  · intro n hn
    by_cases e : n = m
    · subst e; left; rw [upd_same]
    · rw [upd_other _ _ _ _ e]
      rcases d7 n hn with f | f | ⟨u, k, hu⟩ | f | ⟨u, hu⟩
      · exact Or.inl f
      · exact Or.inr (Or.inl ((List.mem_erase_of_ne e).2 f))
      · by_cases hut : u = t
        · subst hut; rw [hv] at hu; rcases hu with hu | hu <;> cases hu
        · rw [hoth u hut] at hu; rcases hu with hu | hu <;> cases hu
      · exact Or.inr (Or.inr (Or.inr (Or.inl f)))
      · by_cases hut : u = t
        · subst hut; rw [hv] at hu; cases hu
        · rw [hoth u hut] at hu; cases hu

theorem upd_self {α : Type} (f : Tid → α) (t : Tid) : upd f t (f t) = f := by
  funext u; by_cases e : u = t
  · subst e; rw [upd_same]
  · rw [upd_other _ _ _ _ e]

/-- record a D-view holds -/
def heldRec : Pc → Option Nat
  | .eZh _ z => some z
  | .eMark _ _ z => some z
  | .regCons _ r => some r
  | .rZn _ m | .rDesN _ m _ | .rFreN _ m _ | .rNext _ m => some m
  | _ => none

theorem heldRec_priv {p : Pc} {m : Nat} (h : heldRec (DView p) = some m) : privRec (BView p) = some m := by
  cases p with
  | pushStore c r e => cases c <;> simp [DView, heldRec] at h <;> simp [BView, privRec, h]
  | pushCas c r e => cases c <;> simp [DView, heldRec] at h <;> simp [BView, privRec, h]
  | _ => simp [DView, heldRec] at h <;> simp [BView, privRec, h]

/-- `HeldP` of a view that does not hold record `r` survives the construction of `r` -/
theorem heldP_conR {d : DSt} {v : Pc} {r : Nat} {zn' : Nat → Option Nat} (h : HeldP d v)
    (hz : ∀ x, x ≠ r → zn' x = d.zn x) (hne : heldRec v ≠ some r)
    (hnr : zn' r = none ∨ ∀ c o, v ≠ .eAlloc c o) :
    HeldP { d with rled := upd d.rled r .cons, zn := zn' } v := by
  cases v <;> simp only [HeldP, NoRec, heldRec] at h hne ⊢ <;> try trivial
  all_goals first
    | exact h
    | (rw [hz _ (fun e => hne (by rw [e]))]; exact h)
    | (refine ⟨?_, h.2⟩
       intro x hx
       by_cases e : x = r
       · subst e
         rcases hnr with g | g
         · rw [g]; simp
         · exact absurd rfl (g _ _)
       · rw [upd_other _ _ _ _ e] at hx; rw [hz x e]; exact h.1 x hx)

/-- steps invisible to layer D (the view of `t` does not change either) -/
theorem invD_quiet {s s' : St} {t : Tid} (h : InvD s) (p' : Pc)
    (h1 : s'.nled = s.nled) (h2 : s'.rled = s.rled) (h3 : ∀ x, (s'.recs x).znode = (s.recs x).znode)
    (h4 : ∀ c, (s'.nodes c).deleted = (s.nodes c).deleted) (h5 : s'.nN = s.nN) (h6 : s'.lst = s.lst)
    (h7 : s'.order = s.order) (h8 : s'.log = s.log) (h9 : s'.pc = upd s.pc t p') (hv : DView p' = DView (s.pc t)) :
    InvD s' := by
  have hzn : s'.dview.zn = s.dview.zn := by funext x; exact h3 x
  refine invD_gen (t := t) (hzd := fun c z hz => Or.inl (by rw [hv]; exact hz)) h p' h1 (fun x hx => by rw [← h2]; exact hx) (fun x hx hn => absurd (by rw [h2]; exact hx) hn) h3
    (fun c _ hd => by rw [h4]; exact hd) h5 (fun x hx => Or.inl (by rw [← h6]; exact hx)) (fun x hx => Or.inl (by rw [h6]; exact hx))
    (fun x hx => by rw [h7]; exact hx) (fun x hx => Or.inl (by rw [← h8]; exact hx)) h9 ?_ ?_ ?_
  · rw [hv]
    exact heldP_mono (d := s.dview) (h.held t) h1 hzn (fun x hx => by simp only [dview_rled] at hx ⊢; rw [← h2]; exact hx)
  · intro n hn; left; rw [hv]; exact hn
  · intro n hn; left; rw [hv]; exact hn

/-- pure pc move with a new view -/
theorem invD_pcmove {s : St} {t : Tid} (h : InvD s) (p' : Pc) (hheld : HeldP s.dview (DView p'))
    (hlst : ∀ n, DView (s.pc t) ≠ .dFreN n none)
    (hcls : ∀ n k, DView (s.pc t) ≠ .pCons k n ∧ DView (s.pc t) ≠ .pLoad k n ∧ DView (s.pc t) ≠ .eAlloc n none)
    (hne : ∀ c z, DView (s.pc t) ≠ .eMark c none z := by intro c z hv; simp_all [DView]; done) :
    InvD (s.setPc t p') := by
  refine invD_gen (t := t) (hzd := fun c z hz => absurd hz (hne c z)) h p' rfl (fun _ hx => hx) (fun _ hx hn => absurd hx hn) (fun _ => rfl) (fun _ _ hd => hd) rfl
    (fun x hx => Or.inl hx) (fun x hx => Or.inl hx) (fun x hx => hx) (fun x hx => Or.inl hx) rfl hheld ?_ ?_
  · intro n hn; exact absurd hn (hlst n)
  · intro n hn
    rcases hn with ⟨k, hn | hn⟩ | hn
    · exact absurd hn (hcls n k).1
    · exact absurd hn (hcls n k).2.1
    · exact absurd hn (hcls n .beg).2.2

local macro "frameD" h:ident : tactic =>
  `(tactic| (refine invD_of_view $h ?_
             simp only [St.dview, setPc_nled, setPc_rled, setPc_recs, setPc_nodes, setPc_nN, setPc_lst, setPc_order, setPc_log]
             congr 1
             refine dview_setPc ?_
             simp_all [DView]; done))

theorem invD_step_call {s s' : St} {t : Tid} {e : Ev} (hi : Inv s) (hs : Step s t e s') (he : e.kind = .call) : InvD s' := by
  have h := hi.d
  cases hs <;> cases he
  all_goals (try (frameD h; done))
  all_goals (try exact h)

theorem invD_step_ret {s s' : St} {t : Tid} {e : Ev} (hi : Inv s) (hs : Step s t e s') (he : e.kind = .ret) : InvD s' := by
  have h := hi.d
  cases hs <;> cases he
  all_goals (try (frameD h; done))
  all_goals (try exact h)

theorem invD_step_exc {s s' : St} {t : Tid} {e : Ev} (hi : Inv s) (hs : Step s t e s') (he : e.kind = .exc) : InvD s' := by
  have h := hi.d
  cases hs <;> cases he
  all_goals (try (frameD h; done))
  all_goals (try exact h)

theorem invD_step_mlk {s s' : St} {t : Tid} {e : Ev} (hi : Inv s) (hs : Step s t e s') (he : e.kind = .mlk) : InvD s' := by
  have h := hi.d
  cases hs <;> cases he
  all_goals (try (frameD h; done))
  all_goals (try exact h)

theorem invD_step_mul {s s' : St} {t : Tid} {e : Ev} (hi : Inv s) (hs : Step s t e s') (he : e.kind = .mul) : InvD s' := by
  have h := hi.d
  cases hs <;> cases he
  all_goals (try (frameD h; done))
  all_goals (try exact h)

theorem invD_step_alo {s s' : St} {t : Tid} {e : Ev} (hi : Inv s) (hs : Step s t e s') (he : e.kind = .alo) : InvD s' := by
  have h := hi.d
  cases hs <;> cases he
  all_goals (try (frameD h; done))
  all_goals (try exact h)
  case regAlo k w hpc hk hh =>
    have hfresh : s.rled s.nR = .none := (hi.b.cntR s.nR).2 (Nat.le_refl _)
    refine invD_gen (t := t) h (.regAlloc k s.nR) rfl ?_ ?_ (fun _ => rfl) (fun _ _ hd => hd) rfl (fun x hx => Or.inl hx)
      (fun x hx => Or.inl hx) (fun x hx => hx) (fun x hx => Or.inl hx) rfl (by simp [DView, HeldP]) ?_ ?_
    · intro x hx
      by_cases e : x = s.nR
      · subst e; simp [St.setRled, St.setPc] at hx
      · simpa [St.setRled, St.setPc, upd_other _ _ _ _ e] using hx
    · intro x hx hn
      by_cases e : x = s.nR
      · subst e; rw [hfresh] at hx; cases hx
      · exact absurd (by simpa [St.setRled, St.setPc, upd_other _ _ _ _ e] using hx) hn
    · intro n hn; rcases hk with rfl | ⟨f, em, v, rfl⟩ <;> simp [hpc, DView] at hn
    · intro n hn; rcases hk with rfl | ⟨f, em, v, rfl⟩ <;> (rcases hn with ⟨k, hn | hn⟩ | hn <;> simp [hpc, DView] at hn)
  case eAlo c orig hpc =>
    have hfresh : s.rled s.nR = .none := (hi.b.cntR s.nR).2 (Nat.le_refl _)
    have hh := h.held t
    simp only [dview_vpc, hpc, DView] at hh
    refine invD_gen (t := t) h (.eCons c orig s.nR) rfl ?_ ?_ (fun _ => rfl) (fun _ _ hd => hd) rfl (fun x hx => Or.inl hx)
      (fun x hx => Or.inl hx) (fun x hx => hx) (fun x hx => Or.inl hx) rfl ?_ (fun n hn => by simp [hpc, DView] at hn) ?_
    · intro x hx
      by_cases e : x = s.nR
      · subst e; simp [St.setRled, St.setPc] at hx
      · simpa [St.setRled, St.setPc, upd_other _ _ _ _ e] using hx
    · intro x hx hn
      by_cases e : x = s.nR
      · subst e; rw [hfresh] at hx; cases hx
      · exact absurd (by simpa [St.setRled, St.setPc, upd_other _ _ _ _ e] using hx) hn
    · refine heldP_mono (d := s.dview) hh rfl rfl ?_
      intro x hx
      by_cases e : x = s.nR
      · subst e; simp [St.setRled, St.setPc, St.dview] at hx
      · simpa [St.setRled, St.setPc, St.dview, upd_other _ _ _ _ e] using hx
    · intro n hn; left; right
      rcases hn with ⟨k, hn | hn⟩ | hn <;> simp [hpc, DView] at hn
      simp [DView, hn]
  case pAlo k hpc => exact invD_pAlo h k (by simp [hpc, DView])

theorem invD_step_con {s s' : St} {t : Tid} {e : Ev} (hi : Inv s) (hs : Step s t e s') (he : e.kind = .con) : InvD s' := by
  have h := hi.d
  cases hs <;> cases he
  all_goals (try (frameD h; done))
  all_goals (try exact h)
  case regCon k r hpc =>
    have hp := hi.b.privOk t r (by simp [hpc, BView, privRec])
    simp only [bview_vpc, hpc, BView, privLed, bview_log, bview_rled] at hp
    have hpu := hi.b.privUq
    simp only [bview_vpc] at hpu
    refine invD_conR (t := t) h r { next := none, owner := some t, znode := none } (.regCons k r)
      (by rw [hp.2]; simp) hp.1 ?_ (by intro c hc; cases hc) (by simp [DView, HeldP]) ?_ (fun n hn => by simp [hpc, DView] at hn)
    · intro u hut hu
      refine heldP_conR (d := s.dview) hu (fun x hx => by simp [upd_other _ _ _ _ hx]) ?_ (Or.inl (by simp))
      intro hc
      exact hut (hpu u t r (heldRec_priv hc) (by simp [hpc, BView, privRec]))
    · intro n hn; rcases hn with ⟨k, hn | hn⟩ | hn <;> simp [hpc, DView] at hn
  case eCon c orig z hpc =>
    have hp := hi.b.privOk t z (by simp [hpc, BView, privRec])
    simp only [bview_vpc, hpc, BView, privLed, bview_log, bview_rled] at hp
    have hpu := hi.b.privUq
    simp only [bview_vpc] at hpu
    have hh := h.held t
    simp only [dview_vpc, hpc, DView, HeldP, NoRec, dview_rled, dview_zn, dview_nled] at hh
    have hw := hi.c.wr t
    simp only [cview_vpc, hpc, CView, WriterP, cview_lst, cview_order, cview_nodes] at hw
    have hholder : holdsW (s.pc t) = true := by simp [hpc, holdsW]
    refine invD_conR (t := t) h z { next := none, owner := none, znode := some c } (.eMark c orig z)
      (by rw [hp.2]; simp) hp.1 ?_ ?_ ?_ ?_ (fun n hn => by simp [hpc, DView] at hn)
    · intro u hut hu
      refine heldP_conR (d := s.dview) hu (fun x hx => by simp [upd_other _ _ _ _ hx]) ?_ (Or.inr ?_)
      · intro hc
        exact hut (hpu u t z (heldRec_priv hc) (by simp [hpc, BView, privRec]))
      · intro c' o' hv
        have := dview_writer (p := s.pc u) (Or.inr (Or.inl ⟨c', o', Or.inr hv⟩))
        have a := (hi.a.wm u).1 this
        have b := (hi.a.wm t).1 hholder
        rw [a] at b; injection b with b; exact hut b
    · intro c' hc'
      simp only at hc'; injection hc' with hc'; subst hc'
      exact ⟨hi.c.sub _ hw.1, rfl, hh.1⟩
    · simp only [DView, HeldP, dview_nled, upd_same]
      exact ⟨trivial, hh.2⟩
    · intro n hn
      rcases hn with ⟨k, hn | hn⟩ | hn <;> simp [hpc, DView] at hn
      simp [hn]
  case pCon f em x n hpc =>
    have hw := hi.c.wr t
    simp only [cview_vpc, hpc, CView, WriterP, cview_order, cview_nN] at hw
    have hh := h.held t
    simp only [dview_vpc, hpc, DView, HeldP, dview_nled] at hh
    have hholder : holdsW (s.pc t) = true := by simp [hpc, holdsW]
    have hzo := h.znOrd
    simp only [dview_zn, dview_order] at hzo
    refine invD_nled (t := t) h n .cons (.pLoad (.push f em x) n) _ ?_ (writer_excl hi hholder hw.1) ⟨by simp, by rw [hh]; simp⟩
      (by simp [DView, HeldP]) (fun hl => Or.inl rfl) (fun _ _ _ => rfl) (Or.inr (Or.inr (Or.inl ⟨.push f em x, Or.inr (by simp [DView])⟩))) ?_
    · intro c hc hd
      have e : c ≠ n := fun e => hw.1 (e ▸ hc)
      simp only [upd_other _ _ _ _ e]; exact hd
    · intro n' hn'
      rcases hn' with ⟨k, hn' | hn'⟩ | hn' | hn' <;> simp [hpc, DView] at hn'
      exact hn'.2.symm

theorem invD_step_des {s s' : St} {t : Tid} {e : Ev} (hi : Inv s) (hs : Step s t e s') (he : e.kind = .des) : InvD s' := by
  have h := hi.d
  cases hs <;> cases he
  all_goals (try (frameD h; done))
  all_goals (try exact h)
  case rDesN r m d hpc =>
    obtain ⟨w, hw⟩ := hi.a.myr t r (by simp [hpc, myRec])
    have hdt := dt_false_of_hnd hi.a (t := t) (by rw [hw]; simp)
    have hpr : privRec (BView (s.pc t)) = some m := by simp [hpc, BView, privRec]
    have hp := hi.b.privOk t m hpr
    simp only [bview_vpc, hpc, BView, privLed, bview_log, bview_rled] at hp
    have hh := h.held t
    simp only [dview_vpc, hpc, DView, HeldP, dview_zn, dview_nled] at hh
    have hzd := zdel_priv hi hpr (by intro c z hv; simp [hpc, DView] at hv) hp.2 hh.1
    have hlc := hi.b.logCons
    simp only [bview_log, bview_rled] at hlc
    refine invD_nled (t := t) h d .dest (.rFreN r m d) s.nodes (fun _ _ hd => hd)
      (reaper_excl hi hdt hpr hp.2 hh.1 (Or.inl hh.2)) ⟨by simp, by rw [hh.2]; simp⟩ ?_ (fun hl => absurd hl hzd.2.2) ?_
      (Or.inr (Or.inr (Or.inr (Or.inl ⟨m, hp.2, hh.1⟩)))) ?_
    · simp only [DView, HeldP, dview_zn, upd_same]; exact ⟨hh.1, trivial⟩
    · intro x hx hc
      have := h.zinj x m d (hlc x hx) hp.2 hc hh.1
      subst this; exact absurd hx hp.1
    · intro n' hn'
      rcases hn' with ⟨k, hn' | hn'⟩ | hn' | hn' <;> simp [hpc, DView] at hn'
  case dDesZN m nx d hpc =>
    have hdt := hi.a.dtd t (by simp [hpc, inDtor])
    have hidle := others_didle_dt (t := t) hi.a hdt (by simp [hpc, inDtor])
    have hpr : privRec (BView (s.pc t)) = some m := by simp [hpc, BView, privRec]
    have hp := hi.b.privOk t m hpr
    simp only [bview_vpc, hpc, BView, privLed, bview_log, bview_rled] at hp
    have hh := h.held t
    simp only [dview_vpc, hpc, DView, HeldP, dview_zn, dview_nled] at hh
    have hzd := zdel_priv hi hpr (by intro c z hv; simp [hpc, DView] at hv) hp.2 hh.1
    have hlc := hi.b.logCons
    simp only [bview_log, bview_rled] at hlc
    refine invD_nled (t := t) h d .dest (.dFreZN m nx d) s.nodes (fun _ _ hd => hd)
      (fun u hut hm => by rw [hidle u hut] at hm; exact hm) ⟨by simp, by rw [hh.2]; simp⟩ ?_ (fun hl => absurd hl hzd.2.2) ?_
      (Or.inr (Or.inr (Or.inr (Or.inl ⟨m, hp.2, hh.1⟩)))) ?_
    · simp only [DView, HeldP, dview_zn, upd_same]; exact ⟨hh.1, trivial⟩
    · intro x hx hc
      have := h.zinj x m d (hlc x hx) hp.2 hc hh.1
      subst this; exact absurd hx hp.1
    · intro n' hn'
      rcases hn' with ⟨k, hn' | hn'⟩ | hn' | hn' <;> simp [hpc, DView] at hn'
  case dDesN m nx hpc =>
    have hdt := hi.a.dtd t (by simp [hpc, inDtor])
    have hidle := others_didle_dt (t := t) hi.a hdt (by simp [hpc, inDtor])
    have hh := h.held t
    simp only [dview_vpc, hpc, DView, HeldP, dview_nled] at hh
    have hw := hi.c.wr t
    simp only [cview_vpc, hpc, CView, WriterP, cview_lst] at hw
    have hml : m ∈ s.lst := mem_of_head? hw.1
    have hlc := hi.b.logCons
    simp only [bview_log, bview_rled] at hlc
    refine invD_nled (t := t) h m .dest (.dFreN m nx) s.nodes (fun _ _ hd => hd)
      (fun u hut hm => by rw [hidle u hut] at hm; exact hm) ⟨by simp, by rw [hh]; simp⟩ ?_ (fun _ => Or.inr (by simp [DView])) ?_
      (Or.inr (Or.inl hml)) ?_
    · simp only [DView, HeldP, upd_same]
    · intro x hx hc
      exact absurd hml (zdel_log hi hx hc).2.2
    · intro n' hn'
      rcases hn' with ⟨k, hn' | hn'⟩ | hn' | hn' <;> simp [hpc, DView] at hn'
  case rDesZ r m nx hpc =>
    have hh := h.held t
    simp only [dview_vpc, hpc, DView, HeldP, dview_zn, dview_nled] at hh
    refine invD_gen (t := t) h (.rFreZ r m nx) rfl ?_ ?_ (fun _ => rfl) (fun _ _ hd => hd) rfl (fun x hx => Or.inl hx)
      (fun x hx => Or.inl hx) (fun x hx => hx) (fun x hx => Or.inl hx) rfl ?_ (fun n hn => by simp [hpc, DView] at hn) (fun n hn => by rcases hn with ⟨k, hn | hn⟩ | hn <;> simp [hpc, DView] at hn)
    · intro x hx
      by_cases e : x = m
      · subst e; simp [St.setRled, St.setPc] at hx
      · simpa [St.setRled, St.setPc, upd_other _ _ _ _ e] using hx
    · intro x hx hn c hc
      by_cases e : x = m
      · subst e; exact hh c hc
      · exact absurd (by simpa [St.setRled, St.setPc, upd_other _ _ _ _ e] using hx) hn
    · refine heldP_mono (d := s.dview) (v := .rNext 0 m) (by simpa [HeldP] using hh) rfl rfl ?_
      intro x hx
      by_cases e : x = m
      · subst e; simp [St.setRled, St.setPc, St.dview] at hx
      · simpa [St.setRled, St.setPc, St.dview, upd_other _ _ _ _ e] using hx
  case dDesZ m nx hpc =>
    have hh := h.held t
    simp only [dview_vpc, hpc, DView, HeldP, dview_zn, dview_nled] at hh
    refine invD_gen (t := t) h (.dFreZ m nx) rfl ?_ ?_ (fun _ => rfl) (fun _ _ hd => hd) rfl (fun x hx => Or.inl hx)
      (fun x hx => Or.inl hx) (fun x hx => hx) (fun x hx => Or.inl hx) rfl ?_ (fun n hn => by simp [hpc, DView] at hn) (fun n hn => by rcases hn with ⟨k, hn | hn⟩ | hn <;> simp [hpc, DView] at hn)
    · intro x hx
      by_cases e : x = m
      · subst e; simp [St.setRled, St.setPc] at hx
      · simpa [St.setRled, St.setPc, upd_other _ _ _ _ e] using hx
    · intro x hx hn c hc
      by_cases e : x = m
      · subst e; exact hh c hc
      · exact absurd (by simpa [St.setRled, St.setPc, upd_other _ _ _ _ e] using hx) hn
    · refine heldP_mono (d := s.dview) (v := .rNext 0 m) (by simpa [HeldP] using hh) rfl rfl ?_
      intro x hx
      by_cases e : x = m
      · subst e; simp [St.setRled, St.setPc, St.dview] at hx
      · simpa [St.setRled, St.setPc, St.dview, upd_other _ _ _ _ e] using hx

theorem invD_step_fre {s s' : St} {t : Tid} {e : Ev} (hi : Inv s) (hs : Step s t e s') (he : e.kind = .fre) : InvD s' := by
  have h := hi.d
  cases hs <;> cases he
  all_goals (try (frameD h; done))
  all_goals (try exact h)
  case rFreN r m d hpc =>
    obtain ⟨w, hw⟩ := hi.a.myr t r (by simp [hpc, myRec])
    have hdt := dt_false_of_hnd hi.a (t := t) (by rw [hw]; simp)
    have hpr : privRec (BView (s.pc t)) = some m := by simp [hpc, BView, privRec]
    have hp := hi.b.privOk t m hpr
    simp only [bview_vpc, hpc, BView, privLed, bview_log, bview_rled] at hp
    have hh := h.held t
    simp only [dview_vpc, hpc, DView, HeldP, dview_zn, dview_nled] at hh
    have hzd := zdel_priv hi hpr (by intro c z hv; simp [hpc, DView] at hv) hp.2 hh.1
    have hlc := hi.b.logCons
    simp only [bview_log, bview_rled] at hlc
    refine invD_nled (t := t) h d .freed (.rNext r m) s.nodes (fun _ _ hd => hd)
      (reaper_excl hi hdt hpr hp.2 hh.1 (Or.inr hh.2)) ⟨by simp, by rw [hh.2]; simp⟩ ?_ (fun hl => absurd hl hzd.2.2) ?_
      (Or.inl rfl) ?_
    · simp only [DView, HeldP, dview_zn]
      intro c hc; rw [hh.1] at hc; injection hc with hc; subst hc; exact upd_same _ _ _
    · intro x hx hc
      have := h.zinj x m d (hlc x hx) hp.2 hc hh.1
      subst this; exact absurd hx hp.1
    · intro n' hn'
      rcases hn' with ⟨k, hn' | hn'⟩ | hn' | hn' <;> simp [hpc, DView] at hn'
  case dFreZN m nx d hpc =>
    have hdt := hi.a.dtd t (by simp [hpc, inDtor])
    have hidle := others_didle_dt (t := t) hi.a hdt (by simp [hpc, inDtor])
    have hpr : privRec (BView (s.pc t)) = some m := by simp [hpc, BView, privRec]
    have hp := hi.b.privOk t m hpr
    simp only [bview_vpc, hpc, BView, privLed, bview_log, bview_rled] at hp
    have hh := h.held t
    simp only [dview_vpc, hpc, DView, HeldP, dview_zn, dview_nled] at hh
    have hzd := zdel_priv hi hpr (by intro c z hv; simp [hpc, DView] at hv) hp.2 hh.1
    have hlc := hi.b.logCons
    simp only [bview_log, bview_rled] at hlc
    refine invD_nled (t := t) h d .freed (.dDesZ m nx) s.nodes (fun _ _ hd => hd)
      (fun u hut hm => by rw [hidle u hut] at hm; exact hm) ⟨by simp, by rw [hh.2]; simp⟩ ?_ (fun hl => absurd hl hzd.2.2) ?_
      (Or.inl rfl) ?_
    · simp only [DView, HeldP, dview_zn]
      intro c hc; rw [hh.1] at hc; injection hc with hc; subst hc; exact upd_same _ _ _
    · intro x hx hc
      have := h.zinj x m d (hlc x hx) hp.2 hc hh.1
      subst this; exact absurd hx hp.1
    · intro n' hn'
      rcases hn' with ⟨k, hn' | hn'⟩ | hn' | hn' <;> simp [hpc, DView] at hn'
  case pThrow f em x n hpc =>
    have hw := hi.c.wr t
    simp only [cview_vpc, hpc, CView, WriterP, cview_order, cview_nN] at hw
    have hh := h.held t
    simp only [dview_vpc, hpc, DView, HeldP, dview_nled] at hh
    have hholder : holdsW (s.pc t) = true := by simp [hpc, holdsW]
    have hzo := h.znOrd
    simp only [dview_zn, dview_order] at hzo
    have hsub : ∀ y ∈ s.lst, y ∈ s.order := hi.c.sub
    refine invD_nled (t := t) h n .freed (.pThrown (.push f em x)) s.nodes (fun _ _ hd => hd)
      (writer_excl hi hholder hw.1) ⟨by simp, by rw [hh]; simp⟩ (by simp [DView, HeldP])
      (fun hl => absurd (hsub n hl) hw.1) (fun x _ hc => absurd (hzo x n hc) hw.1) (Or.inl rfl) ?_
    intro n' hn'
    rcases hn' with ⟨k, hn' | hn'⟩ | hn' | hn' <;> simp [hpc, DView] at hn'
    exact hn'.2.symm
  case rFreZ r m nx hpc =>
    have hpr : privRec (BView (s.pc t)) = some m := by simp [hpc, BView, privRec]
    have hp := hi.b.privOk t m hpr
    simp only [bview_vpc, hpc, BView, privLed, bview_log, bview_rled] at hp
    have hre := hi.b.reap t
    simp only [bview_vpc, hpc, BView, ReapP, bview_log] at hre
    cases nx with
    | none =>
      refine invD_gen (t := t) h (.uTrunc r) rfl ?_ ?_ (fun _ => rfl) (fun _ _ hd => hd) rfl (fun x hx => Or.inl hx)
        (fun x hx => Or.inl hx) (fun x hx => hx) (fun x hx => Or.inl hx) rfl (by simp [DView, HeldP]) (fun n hn => by simp [hpc, DView] at hn) (fun n hn => by rcases hn with ⟨k, hn | hn⟩ | hn <;> simp [hpc, DView] at hn)
      · intro x hx
        by_cases e : x = m
        · subst e; simp [St.setRled, St.setPc, St.reapAt, St.dRecAt] at hx
        · simpa [St.setRled, St.setPc, St.reapAt, St.dRecAt, upd_other _ _ _ _ e] using hx
      · intro x hx hn
        by_cases e : x = m
        · subst e; rw [hp.2] at hx; cases hx
        · exact absurd (by simpa [St.setRled, St.setPc, St.reapAt, St.dRecAt, upd_other _ _ _ _ e] using hx) hn
    | some m' =>
      have hm'log : m' ∈ s.log := mem_of_mem_below (head_mem_below hre.2.2.symm)
      refine invD_gen (t := t) h (.rZn r m') rfl ?_ ?_ (fun _ => rfl) (fun _ _ hd => hd) rfl (fun x hx => Or.inl hx)
        (fun x hx => Or.inl hx) (fun x hx => hx) (fun x hx => Or.inl (List.mem_of_mem_erase hx)) rfl ?_ (fun n hn => by simp [hpc, DView] at hn) (fun n hn => by rcases hn with ⟨k, hn | hn⟩ | hn <;> simp [hpc, DView] at hn)
      · intro x hx
        by_cases e : x = m
        · subst e; simp [St.setRled, St.setPc, St.reapAt, St.dRecAt] at hx
        · simpa [St.setRled, St.setPc, St.reapAt, St.dRecAt, upd_other _ _ _ _ e] using hx
      · intro x hx hn
        by_cases e : x = m
        · subst e; rw [hp.2] at hx; cases hx
        · exact absurd (by simpa [St.setRled, St.setPc, St.reapAt, St.dRecAt, upd_other _ _ _ _ e] using hx) hn
      · simp only [DView, HeldP]
        intro c hc; exact h.zlog m' hm'log c hc
  case dFreZ m nx hpc =>
    have hpr : privRec (BView (s.pc t)) = some m := by simp [hpc, BView, privRec]
    have hp := hi.b.privOk t m hpr
    simp only [bview_vpc, hpc, BView, privLed, bview_log, bview_rled] at hp
    have hre := hi.b.dtr t
    simp only [bview_vpc, hpc, BView, DtorP, bview_log] at hre
    cases nx with
    | none =>
      refine invD_gen (t := t) h (.retp .dtor) rfl ?_ ?_ (fun _ => rfl) (fun _ _ hd => hd) rfl (fun x hx => Or.inl hx)
        (fun x hx => Or.inl hx) (fun x hx => hx) (fun x hx => Or.inl hx) rfl (by simp [DView, HeldP]) (fun n hn => by simp [hpc, DView] at hn) (fun n hn => by rcases hn with ⟨k, hn | hn⟩ | hn <;> simp [hpc, DView] at hn)
      · intro x hx
        by_cases e : x = m
        · subst e; simp [St.setRled, St.setPc, St.reapAt, St.dRecAt] at hx
        · simpa [St.setRled, St.setPc, St.reapAt, St.dRecAt, upd_other _ _ _ _ e] using hx
      · intro x hx hn
        by_cases e : x = m
        · subst e; rw [hp.2] at hx; cases hx
        · exact absurd (by simpa [St.setRled, St.setPc, St.reapAt, St.dRecAt, upd_other _ _ _ _ e] using hx) hn
    | some m' =>
      have hm'log : m' ∈ s.log := mem_of_head? hre.symm
      refine invD_gen (t := t) h (.dOwner m') rfl ?_ ?_ (fun _ => rfl) (fun _ _ hd => hd) rfl (fun x hx => Or.inl hx)
        (fun x hx => Or.inl hx) (fun x hx => hx) (fun x hx => Or.inl (List.mem_of_mem_erase hx)) rfl ?_ (fun n hn => by simp [hpc, DView] at hn) (fun n hn => by rcases hn with ⟨k, hn | hn⟩ | hn <;> simp [hpc, DView] at hn)
      · intro x hx
        by_cases e : x = m
        · subst e; simp [St.setRled, St.setPc, St.reapAt, St.dRecAt] at hx
        · simpa [St.setRled, St.setPc, St.reapAt, St.dRecAt, upd_other _ _ _ _ e] using hx
      · intro x hx hn
        by_cases e : x = m
        · subst e; rw [hp.2] at hx; cases hx
        · exact absurd (by simpa [St.setRled, St.setPc, St.reapAt, St.dRecAt, upd_other _ _ _ _ e] using hx) hn
      · simp only [DView, HeldP]
        intro c hc; exact h.zlog m' hm'log c hc
  case dFreN m nx hpc =>
    have hdt := hi.a.dtd t (by simp [hpc, inDtor])
    have hidle := others_didle_dt (t := t) hi.a hdt (by simp [hpc, inDtor])
    have hw := hi.c.wr t
    simp only [cview_vpc, hpc, CView, WriterP, cview_lst] at hw
    have hnd : s.lst.Nodup := hi.c.lstNd
    have hlc := hi.b.logCons
    simp only [bview_log, bview_rled] at hlc
    refine invD_dFreN (t := t) h m nx (by simp [hpc, DView]) hidle (mem_of_head? hw.1) hnd ?_ hlc
    intro m' hm'
    have hb : m' ∈ Below s.lst m := head_mem_below (by rw [← hw.2]; exact hm')
    exact ⟨mem_of_mem_below hb, fun e => not_mem_below_self hnd (e ▸ hb)⟩

theorem invD_step_ald {s s' : St} {t : Tid} {e : Ev} (hi : Inv s) (hs : Step s t e s') (he : e.kind = .ald) : InvD s' := by
  have h := hi.d
  cases hs <;> cases he
  all_goals (try (frameD h; done))
  all_goals (try exact h)
  case dtorHead o hpc ho =>
    have hdt := hi.a.dtd t (by simp [hpc, inDtor])
    have hidle := others_didle_dt (t := t) hi.a hdt (by simp [hpc, inDtor])
    have hw := hi.c.wr t
    simp only [cview_vpc, hpc, CView, WriterP, cview_head, cview_lst] at hw
    cases hh : s.head with
    | none => simp only [St.dNodeAt]; frameD h
    | some m =>
      simp only [St.dNodeAt]
      refine invD_pcmove h _ ?_ (fun n => by simp [hpc, DView]) (fun n k => by simp [hpc, DView])
      simp only [DView, HeldP, dview_nled]
      have hml : m ∈ s.lst := mem_of_head? (by rw [← hw]; exact hh)
      rcases h.lstCons m hml with f | ⟨u, hu⟩
      · exact f
      · simp only [dview_vpc] at hu
        by_cases hut : u = t
        · subst hut; rw [hpc] at hu; simp [DView] at hu
        · rw [hidle u hut] at hu; cases hu
  case uNextNone r cached m o hpc ho hv =>
    have hsc := hi.b.scan t
    simp only [bview_vpc, hpc, BView, ScanP, bview_log] at hsc
    cases cached with
    | none => simp only [St.reapAt]; frameD h
    | some c =>
      have hclog : c ∈ s.log := mem_of_mem_below (head_mem_below hsc.2.1.symm)
      refine invD_gen (t := t) h (.rZn r c) rfl (fun _ hx => hx) (fun _ hx hn => absurd hx hn) (fun _ => rfl)
        (fun _ _ hd => hd) rfl (fun x hx => Or.inl hx) (fun x hx => Or.inl hx) (fun x hx => hx)
        (fun x hx => Or.inl (List.mem_of_mem_erase hx)) rfl ?_ (fun n hn => by simp [hpc, DView] at hn) (fun n hn => by rcases hn with ⟨k, hn | hn⟩ | hn <;> simp [hpc, DView] at hn)
      simp only [DView, HeldP]
      intro c' hc'; exact h.zlog c hclog c' hc'
  case dZhead o hpc ho =>
    have hzh := hi.b.zh (Or.inr ⟨t, by simp [hpc, BView, zhExact]⟩)
    simp only [bview_zhead, bview_log] at hzh
    cases hz : s.zhead with
    | none => simp only [St.dRecAt]; frameD h
    | some m =>
      have hmlog : m ∈ s.log := mem_of_head? (by rw [← hzh]; exact hz)
      refine invD_gen (t := t) h (.dOwner m) rfl (fun _ hx => hx) (fun _ hx hn => absurd hx hn) (fun _ => rfl)
        (fun _ _ hd => hd) rfl (fun x hx => Or.inl hx) (fun x hx => Or.inl hx) (fun x hx => hx)
        (fun x hx => Or.inl (List.mem_of_mem_erase hx)) rfl ?_ (fun n hn => by simp [hpc, DView] at hn) (fun n hn => by rcases hn with ⟨k, hn | hn⟩ | hn <;> simp [hpc, DView] at hn)
      simp only [DView, HeldP]
      intro c' hc'; exact h.zlog m hmlog c' hc'

theorem invD_step_ast {s s' : St} {t : Tid} {e : Ev} (hi : Inv s) (hs : Step s t e s') (he : e.kind = .ast) : InvD s' := by
  have h := hi.d
  cases hs <;> cases he
  all_goals (try (frameD h; done))
  all_goals (try exact h)
  case pushStore c r exp o hpc =>
    refine invD_quiet (t := t) h (.pushCas c r exp) rfl rfl (fun x => by
      simp only [setPc_recs, setRNext_recs]
      by_cases e : x = r
      · subst e; rw [upd_same]
      · rw [upd_other _ _ _ _ e]) (fun _ => rfl) rfl rfl rfl rfl rfl ?_
    cases c <;> simp [hpc, DView]
  case uTrunc r o hpc ho =>
    exact invD_quiet (t := t) h (.uClear r) rfl rfl (fun x => by
      simp only [setPc_recs, setRNext_recs]
      by_cases e : x = r
      · subst e; rw [upd_same]
      · rw [upd_other _ _ _ _ e]) (fun _ => rfl) rfl rfl rfl rfl rfl (by simp [hpc, DView])
  case uClear r o hpc ho =>
    refine invD_quiet (t := t) h (.retp .rel) rfl rfl ?_ (fun _ => rfl) rfl rfl rfl rfl rfl (by simp [hpc, DView])
    intro x
    simp only [setPc_recs, dropHnd_recs, setOwner_recs]
    by_cases e : x = r
    · subst e; rw [upd_same]
    · rw [upd_other _ _ _ _ e]
  case pF1 k n h0 o hpc ho =>
    exact invD_quiet (t := t) h (.pF2 k n h0) rfl rfl (fun _ => rfl) (fun c => by
      simp only [setPc_nodes, setNext_nodes]
      by_cases e : c = n
      · subst e; rw [upd_same]
      · rw [upd_other _ _ _ _ e]) rfl rfl rfl rfl rfl (by simp [hpc, DView])
  case pF2 k n h0 o hpc ho =>
    exact invD_quiet (t := t) h (.pF3 k n) rfl rfl (fun _ => rfl) (fun c => by
      simp only [setPc_nodes, setBack_nodes]
      by_cases e : c = h0
      · subst e; rw [upd_same]
      · rw [upd_other _ _ _ _ e]) rfl rfl rfl rfl rfl (by simp [hpc, DView])
  case pB1 k n h0 o hpc ho =>
    exact invD_quiet (t := t) h (.pB2 k n h0) rfl rfl (fun _ => rfl) (fun c => by
      simp only [setPc_nodes, setBack_nodes]
      by_cases e : c = n
      · subst e; rw [upd_same]
      · rw [upd_other _ _ _ _ e]) rfl rfl rfl rfl rfl (by simp [hpc, DView])
  case eFixNext c orig p xx z o hpc ho =>
    exact invD_quiet (t := t) h (.eZh orig z) rfl rfl (fun _ => rfl) (fun c => by
      simp only [setPc_nodes, setBack_nodes]
      by_cases e : c = xx
      · subst e; rw [upd_same]
      · rw [upd_other _ _ _ _ e]) rfl rfl rfl rfl rfl (by simp [hpc, DView])
  case pE1 k n o hpc ho =>
    have hh := h.held t
    simp only [dview_vpc, hpc, DView, HeldP, dview_nled] at hh
    have hw := hi.c.wr t
    simp only [cview_vpc, hpc, CView, WriterP, FreshN, cview_order] at hw
    refine invD_gen (t := t) h (.pE2 k n) rfl (fun _ hx => hx) (fun _ hx hn => absurd hx hn) (fun _ => rfl)
      (fun _ _ hd => hd) rfl ?_ (fun x hx => Or.inl (List.mem_cons_of_mem _ hx)) (fun x hx => List.mem_cons_of_mem _ hx)
      (fun x hx => Or.inl hx) rfl (by simp [DView, HeldP]) (fun n hn => by simp [hpc, DView] at hn) ?_
    · intro x hx
      rcases List.mem_cons.1 hx with e | e
      · subst e; exact Or.inr ⟨hh, hw.1.1⟩
      · exact Or.inl e
    · intro n' hn'
      rcases hn' with ⟨k', hn' | hn'⟩ | hn' <;> simp [hpc, DView] at hn'
      right; right; left; rw [← hn'.2]; exact List.mem_cons_self
  case pF3 k n o hpc ho =>
    have hh := h.held t
    simp only [dview_vpc, hpc, DView, HeldP, dview_nled] at hh
    have hw := hi.c.wr t
    simp only [cview_vpc, hpc, CView, WriterP, FreshN, cview_order] at hw
    obtain ⟨h0, hf, _⟩ := hw
    refine invD_gen (t := t) h (.pUnlock k) rfl (fun _ hx => hx) (fun _ hx hn => absurd hx hn) (fun _ => rfl)
      (fun _ _ hd => hd) rfl ?_ (fun x hx => Or.inl (List.mem_cons_of_mem _ hx)) (fun x hx => List.mem_cons_of_mem _ hx)
      (fun x hx => Or.inl hx) rfl (by simp [DView, HeldP]) (fun n hn => by simp [hpc, DView] at hn) ?_
    · intro x hx
      rcases List.mem_cons.1 hx with e | e
      · subst e; exact Or.inr ⟨hh, hf.1⟩
      · exact Or.inl e
    · intro n' hn'
      rcases hn' with ⟨k', hn' | hn'⟩ | hn' <;> simp [hpc, DView] at hn'
      right; right; left; rw [← hn'.2]; exact List.mem_cons_self
  case pB2 k n h0 o hpc ho =>
    have hh := h.held t
    simp only [dview_vpc, hpc, DView, HeldP, dview_nled] at hh
    have hw := hi.c.wr t
    simp only [cview_vpc, hpc, CView, WriterP, FreshN, cview_order] at hw
    refine invD_gen (t := t) h (.pB3 k n) rfl (fun _ hx => hx) (fun _ hx hn => absurd hx hn) (fun _ => rfl)
      ?_ rfl ?_ (fun x hx => Or.inl (List.mem_append_left _ hx)) (fun x hx => List.mem_append_left _ hx)
      (fun x hx => Or.inl hx) rfl (by simp [DView, HeldP]) (fun n hn => by simp [hpc, DView] at hn) ?_
    · intro c _ hd
      simp only [setPc_nodes, setNext_nodes]
      by_cases e : c = h0
      · subst e; rw [upd_same]; exact hd
      · rw [upd_other _ _ _ _ e]; exact hd
    · intro x hx
      rcases List.mem_append.1 hx with e | e
      · exact Or.inl e
      · simp at e; subst e; exact Or.inr ⟨hh, hw.1.1⟩
    · intro n' hn'
      rcases hn' with ⟨k', hn' | hn'⟩ | hn' <;> simp [hpc, DView] at hn'
      right; right; left; rw [← hn'.2]; exact List.mem_append_right _ (by simp)
  case eUnlPrev c orig pp x z o hpc ho =>
    have hh := h.held t
    simp only [dview_vpc, hpc, DView, HeldP, dview_zn, dview_nled] at hh
    have hp := hi.b.privOk t z (by simp [hpc, BView, privRec])
    simp only [bview_vpc, hpc, BView, privLed, bview_rled] at hp
    have hw := hi.c.wr t
    simp only [cview_vpc, hpc, CView, WriterP, cview_lst, cview_nodes] at hw
    have hnd : s.lst.Nodup := hi.c.lstNd
    have hppc : pp ≠ c := by
      intro e; subst e
      exact not_mem_below_self hnd (head_mem_below hw.2.2.2.1.2)
    refine invD_gen (t := t) h (.eFix c orig (some pp) x z) rfl (fun _ hx => hx) (fun _ hx hn => absurd hx hn) (fun _ => rfl)
      ?_ rfl (fun y hy => Or.inl (List.mem_of_mem_erase hy)) ?_ (fun y hy => hy)
      (fun y hy => Or.inl hy) rfl ?_ (fun n hn => by simp [hpc, DView] at hn)
      (fun n hn => by rcases hn with ⟨k, hn | hn⟩ | hn <;> simp [hpc, DView] at hn) ?_
    · intro c' _ hd
      simp only [setPc_nodes, setNext_nodes]
      by_cases e : c' = pp
      · subst e; rw [upd_same]; exact hd
      · rw [upd_other _ _ _ _ e]; exact hd
    · intro y hy
      by_cases e : y = c
      · subst e; right; exact ⟨z, hp.2, hh.1⟩
      · left; exact (List.mem_erase_of_ne e).2 hy
    · simp only [DView, HeldP, dview_zn, dview_nled]; exact ⟨c, hh.1, hh.2⟩
    · intro c' z' hv
      simp only [hpc, DView] at hv
      injection hv with hv1 _ hv3; subst hv1; subst hv3
      right
      refine ⟨?_, hi.c.sub _ hw.1, fun hm => (List.Nodup.mem_erase_iff hnd).1 hm |>.1 rfl⟩
      simp only [setPc_nodes, setNext_nodes, upd_other _ _ _ _ (Ne.symm hppc)]
      exact hw.2.1
  case eUnlHead c orig x z o hpc ho =>
    have hh := h.held t
    simp only [dview_vpc, hpc, DView, HeldP, dview_zn, dview_nled] at hh
    have hp := hi.b.privOk t z (by simp [hpc, BView, privRec])
    simp only [bview_vpc, hpc, BView, privLed, bview_rled] at hp
    have hw := hi.c.wr t
    simp only [cview_vpc, hpc, CView, WriterP, cview_lst, cview_nodes] at hw
    have hnd : s.lst.Nodup := hi.c.lstNd
    refine invD_gen (t := t) h (.eFix c orig none x z) rfl (fun _ hx => hx) (fun _ hx hn => absurd hx hn) (fun _ => rfl)
      (fun _ _ hd => hd) rfl (fun y hy => Or.inl (List.mem_of_mem_erase hy)) ?_ (fun y hy => hy)
      (fun y hy => Or.inl hy) rfl ?_ (fun n hn => by simp [hpc, DView] at hn)
      (fun n hn => by rcases hn with ⟨k, hn | hn⟩ | hn <;> simp [hpc, DView] at hn) ?_
    · intro y hy
      by_cases e : y = c
      · subst e; right; exact ⟨z, hp.2, hh.1⟩
      · left; exact (List.mem_erase_of_ne e).2 hy
    · simp only [DView, HeldP, dview_zn, dview_nled]; exact ⟨c, hh.1, hh.2⟩
    · intro c' z' hv
      simp only [hpc, DView] at hv
      injection hv with hv1 _ hv3; subst hv1; subst hv3
      right
      exact ⟨hw.2.1, hi.c.sub _ hw.1, fun hm => (List.Nodup.mem_erase_iff hnd).1 hm |>.1 rfl⟩

theorem invD_step_cas {s s' : St} {t : Tid} {e : Ev} (hi : Inv s) (hs : Step s t e s') (he : e.kind = .cas) : InvD s' := by
  have h := hi.d
  cases hs <;> cases he
  all_goals (try (frameD h; done))
  all_goals (try exact h)
  case casRegOk k r o hpc ho =>
    have hk : k.regOp = true := by have := hi.a.opk t; rw [hpc] at this; simpa [opOk] using this
    have hh := h.held t
    simp only [dview_vpc, hpc, DView, HeldP, dview_zn] at hh
    refine invD_gen (t := t) h (.called k) rfl (fun _ hx => hx) (fun _ hx hn => absurd hx hn) (fun _ => rfl)
      (fun _ _ hd => hd) rfl (fun x hx => Or.inl hx) (fun x hx => Or.inl hx) (fun x hx => hx) ?_ rfl ?_ (fun n hn => by simp [hpc, DView] at hn) (fun n hn => by rcases hn with ⟨k, hn | hn⟩ | hn <;> simp [hpc, DView] at hn)
    · intro x hx
      rcases List.mem_cons.1 hx with e | e
      · subst e; right; intro c hc; rw [hh] at hc; cases hc
      · exact Or.inl e
    · cases k <;> simp [Op.regOp] at hk <;> simp [DView, HeldP]
  case casEraseOk orig r o hpc ho =>
    have hh := h.held t
    simp only [dview_vpc, hpc, DView, HeldP, dview_zn, dview_nled] at hh
    refine invD_gen (t := t) h (.eUnlock orig) rfl (fun _ hx => hx) (fun _ hx hn => absurd hx hn) (fun _ => rfl)
      (fun _ _ hd => hd) rfl (fun x hx => Or.inl hx) (fun x hx => Or.inl hx) (fun x hx => hx) ?_ rfl (by simp [DView, HeldP])
      (fun n hn => by simp [hpc, DView] at hn) (fun n hn => by rcases hn with ⟨k, hn | hn⟩ | hn <;> simp [hpc, DView] at hn)
    intro x hx
    rcases List.mem_cons.1 hx with e | e
    · subst e; right
      obtain ⟨c, h1, h2⟩ := hh
      intro c' hc'; rw [h1] at hc'; injection hc' with hc'; subst hc'; exact h2
    · exact Or.inl e
  case casFail c r exp o hpc ho =>
    cases c <;> frameD h

theorem invD_step_plain {s s' : St} {t : Tid} {e : Ev} (hi : Inv s) (hs : Step s t e s') (he : e.kind = .plain) : InvD s' := by
  have h := hi.d
  cases hs <;> cases he
  all_goals (try (frameD h; done))
  all_goals (try exact h)
  case rZnNode r m d hpc hz =>
    have hh := h.held t
    simp only [dview_vpc, hpc, DView, HeldP, dview_zn, dview_nled] at hh
    exact invD_pcmove h _ (by simp only [DView, HeldP, dview_zn, dview_nled]; exact ⟨hz, hh d hz⟩) (fun n => by simp [hpc, DView]) (fun n k => by simp [hpc, DView])
  case rZnNull r m hpc hz =>
    exact invD_pcmove h _ (by simp only [DView, HeldP, dview_zn]; intro c hc; rw [hz] at hc; cases hc) (fun n => by simp [hpc, DView]) (fun n k => by simp [hpc, DView])
  case dZnNode m nx d hpc hz =>
    have hh := h.held t
    simp only [dview_vpc, hpc, DView, HeldP, dview_zn, dview_nled] at hh
    exact invD_pcmove h _ (by simp only [DView, HeldP, dview_zn, dview_nled]; exact ⟨hz, hh d hz⟩) (fun n => by simp [hpc, DView]) (fun n k => by simp [hpc, DView])
  case dZnNull m nx hpc hz =>
    exact invD_pcmove h _ (by simp only [DView, HeldP, dview_zn]; intro c hc; rw [hz] at hc; cases hc) (fun n => by simp [hpc, DView]) (fun n k => by simp [hpc, DView])
  case eDelFresh c orig hpc hv =>
    have hholder : holdsW (s.pc t) = true := by simp [hpc, holdsW]
    obtain ⟨hdt, _⟩ := others_cidle hi.a hholder
    obtain ⟨f5, f7, f8, f9⟩ := invC_writer_facts hi.a hi.c hholder
    have hw := hi.c.wr t
    simp only [cview_vpc, hpc, CView, WriterP, cview_order] at hw
    have hcl : c ∈ s.lst := by
      rcases f9 c hw.1 with f | f
      · exact f.2 hv
      · simp [hpc, CView, marking] at f
    refine invD_pcmove h _ ?_ (fun n => by simp [hpc, DView]) (fun n k => by simp [hpc, DView])
    simp only [DView, HeldP, NoRec, dview_rled, dview_zn, dview_nled]
    constructor
    · intro x hx hc
      rcases h.zdel x c hx hc with g | ⟨u, hu⟩
      · have := g.1
        simp only [dview_del] at this
        rw [hv] at this; cases this
      · simp only [dview_vpc] at hu
        have a := (hi.a.wm u).1 (dview_writer (Or.inr (Or.inl ⟨c, none, Or.inl ⟨x, hu⟩⟩)))
        have b := (hi.a.wm t).1 hholder
        rw [a] at b; injection b with b; subst b
        simp [hpc, DView] at hu
    · rcases h.lstCons c hcl with f | ⟨u, hu⟩
      · exact f
      · have := hi.a.dtd u (dview_dtor (Or.inr ⟨c, none, hu⟩))
        rw [hdt] at this; cases this
  case eMark c orig z hpc =>
    have hh := h.held t
    simp only [dview_vpc, hpc, DView] at hh
    refine invD_gen (t := t) h (.eBack c orig z) rfl (fun _ hx => hx) (fun _ hx hn => absurd hx hn) (fun _ => rfl)
      ?_ rfl (fun y hy => Or.inl hy) (fun y hy => Or.inl hy) (fun y hy => hy)
      (fun y hy => Or.inl hy) rfl ?_ (fun n hn => by simp [hpc, DView] at hn) (fun n hn => by rcases hn with ⟨k, hn | hn⟩ | hn <;> simp [hpc, DView] at hn)
    · intro c' _ hd
      simp only [setPc_nodes, setDel_nodes]
      by_cases e : c' = c
      · subst e; rw [upd_same]
      · rw [upd_other _ _ _ _ e]; exact hd
    · simp only [DView]; exact heldP_mono (d := s.dview) (v := .eMark c none z) (by simpa [HeldP] using hh) rfl rfl (fun _ hx => hx)

theorem invD_step_afl {s s' : St} {t : Tid} {e : Ev} (hi : Inv s) (hs : Step s t e s') (he : e.kind = .afl) : InvD s' := by
  have h := hi.d
  cases hs <;> cases he
  all_goals (try (frameD h; done))
  case eAloFail c orig hpc =>
    have hw := hi.c.wr t
    simp only [cview_vpc, hpc, CView, WriterP, cview_lst] at hw
    refine invD_gen (t := t) h (.pThrown (.erase true)) rfl (fun _ hx => hx) (fun _ hx hn => absurd hx hn) (fun _ => rfl)
      (fun _ _ hd => hd) rfl (fun y hy => Or.inl hy) (fun y hy => Or.inl hy) (fun y hy => hy)
      (fun y hy => Or.inl hy) rfl (by simp [DView, HeldP]) (fun n hn => by simp [hpc, DView] at hn) ?_
    intro n hn
    rcases hn with ⟨k, hn | hn⟩ | hn <;> simp [hpc, DView] at hn
    subst hn
    exact Or.inr (Or.inr (Or.inl hw.1))

theorem invD_step {s s' : St} {t : Tid} {e : Ev} (hi : Inv s) (hs : Step s t e s') : InvD s' := by
  cases hk : e.kind
  · exact invD_step_call hi hs hk
  · exact invD_step_ret hi hs hk
  · exact invD_step_exc hi hs hk
  · exact invD_step_mlk hi hs hk
  · exact invD_step_mul hi hs hk
  · exact invD_step_alo hi hs hk
  · exact invD_step_afl hi hs hk
  · exact invD_step_con hi hs hk
  · exact invD_step_des hi hs hk
  · exact invD_step_fre hi hs hk
  · exact invD_step_ald hi hs hk
  · exact invD_step_ast hi hs hk
  · exact invD_step_cas hi hs hk
  · exact invD_step_plain hi hs hk

end ConcVerif.Rcu
