import ConcVerif.Proof.DDAux
import ConcVerif.Proof.HBLock
import ConcVerif.Proof.HBUtil
/-! Happens-before content of the events of the DelayedDestructor model.

The model has no events of its own for the plain accesses to the vector `ElementsToBeDestroyed`: the code that runs
between two events of a thread without a scheduling point (`push_back`, the scan / `remove_if` / `erase`, `size()`,
the `empty()` tests of `~DelayedDestructor`, the destruction of the vector member) is executed by the model together
with the preceding event of that thread.  So ONE model event maps to a short LIST of happens-before events, determined
by the thread's top frame (which code runs) and, for the destructor, by the frames below and the vector:

* mutex `destructionLock` = mutex 0 (always exclusive): `lock_guard` (`mlk`), a SUCCESSFUL `try_lock_for`
  (`mtf true _`) ↦ `acq 0 X`; `mul` ↦ `rel 0 X`; a failed `try_lock_for` ↦ `nop`;
* the vector = plain location 0:
  - `addObjectsToBeDestroyed`: `[acq, wr]` (push_back), then `[rel]`;
  - `size()`: `[acq]`, then `[rd, rel]`;
  - `destroyObjects()`: first acquisition `[acq, wr]` (size, scan, `remove_if`, `erase`, size — counted as one write,
    the strongest reading, also when nothing is selected); `[rd, rel]` where the call returns `size()` under the lock;
  - `destroyObjects(delay)`: `[acq, rd]` where `elementSize = size()` follows the acquisition, `[rd, rel]` at the final
    `return size()`;
  - `~DelayedDestructor` (NO lock): every `empty()` test is a `rd`; when the vector is found empty the body is left and
    the vector member is destroyed (`wr`); after the `break` the vector member's destructor releases what is left (`wr`,
    again after each payload destructor it had to run);
* callbacks, payload destructors, markers, sleeps: `nop` (user code; `shared_ptr` reference counts are atomics of the
  trusted library).

`js` is the list of threads the client joins (or otherwise synchronises with) before it destroys the container: the
event `callDtor` maps to `nop, join u (u ∈ js), rd 0 …`.  `js = []` is the bare model (no edge into the destructor). -/
namespace ConcVerif.DD

/-- critical-section content of event `e` for a thread whose top frame is `f` -/
def csHB (f : Frame) (e : Ev) : List HB.Ev :=
  match f with
  | .addCalled _ _ => (match e with | .mlk => [.acq 0 .X, .wr 0] | _ => [.nop])
  | .addLocked _ => (match e with | .mul => [.rel 0 .X] | _ => [.nop])
  | .sizeCalled => (match e with | .mlk => [.acq 0 .X] | _ => [.nop])
  | .sizeLocked => (match e with | .mul => [.rd 0, .rel 0 .X] | _ => [.nop])
  | .dCalled => (match e with | .mtf ok _ => if ok then [.acq 0 .X, .wr 0] else [.nop] | _ => [.nop])
  | .dUnlock0 => (match e with | .mul => [.rd 0, .rel 0 .X] | _ => [.nop])
  | .dUnlock1 _ _ => (match e with | .mul => [.rel 0 .X] | _ => [.nop])
  | .dRelock _ => (match e with | .mtf ok _ => if ok then [.acq 0 .X] else [.nop] | _ => [.nop])
  | .dUnlock2 => (match e with | .mul => [.rd 0, .rel 0 .X] | _ => [.nop])
  | .gCalled _ => (match e with | .mtf ok _ => if ok then [.acq 0 .X, .rd 0] else [.nop] | _ => [.nop])
  | .gUnlockS _ _ _ => (match e with | .mul => [.rel 0 .X] | _ => [.nop])
  | .gRelockS _ _ _ => (match e with | .mtf ok _ => if ok then [.acq 0 .X, .rd 0] else [.nop] | _ => [.nop])
  | .gUnlockD _ _ _ => (match e with | .mul => [.rel 0 .X] | _ => [.nop])
  | .gRelockD _ _ _ => (match e with | .mtf ok _ => if ok then [.acq 0 .X] else [.nop] | _ => [.nop])
  | .gUnlockE => (match e with | .mul => [.rd 0, .rel 0 .X] | _ => [.nop])
  | _ => [.nop]

/-- the critical-section part of the event, from the thread's stack -/
def csOf (fs : List Frame) (e : Ev) : List HB.Ev :=
  match fs with
  | f :: _ => csHB f e
  | [] => [.nop]

/-- an `empty()` test of `~DelayedDestructor`; if the vector is empty the body is left and the vector member destroyed -/
def topAcc (s : St) : List HB.Ev := if s.vec = [] then [.rd 0, .wr 0] else [.rd 0]

/-- what the destructor frame below a finished `destroyObjects()` does next, without the lock -/
def doneAcc (s : St) : List Frame → List HB.Ev
  | .xInner _ :: _ => topAcc s
  | .xInnerLast :: _ => [.wr 0]
  | _ => []

/-- the release loop `drain` runs to its end (no payload destructor has to run first) -/
def drainEnds (s : St) (t : Tid) : List ObjId → Bool
  | [] => true
  | k :: ec =>
      let s1 := { s with ecs := s.ecs.erase (t, k) }
      if refs s1 k = 0 then false else drainEnds s1 t ec

/-- a payload destructor has returned: what the frames below go on to do with the vector -/
def resumeAcc (s : St) (t : Tid) : List Frame → List HB.Ev
  | .dClear _ ec _ thrown :: rest => if thrown && drainEnds s t ec then doneAcc s rest else []
  | .xVec :: _ => [.wr 0]
  | _ => []

/-- the part of the event that belongs to `~DelayedDestructor` (accesses WITHOUT the lock) -/
def xHB (js : List Tid) (s : St) (t : Tid) (fs : List Frame) (e : Ev) : List HB.Ev :=
  match fs with
  | [] => (match e with | .callDtor => js.map HB.Ev.join ++ topAcc s | _ => [])
  | .xYield _ :: _ => (match e with | .yld => topAcc s | _ => [])
  | .xSleep _ :: _ => (match e with | .slp => topAcc s | _ => [])
  | .dCalled :: rest => (match e with | .mtf ok _ => if ok then [] else doneAcc s rest | _ => [])
  | .dRelock _ :: rest => (match e with | .mtf ok _ => if ok then [] else doneAcc s rest | _ => [])
  | .dUnlock0 :: rest => (match e with | .mul => doneAcc s rest | _ => [])
  | .dUnlock2 :: rest => (match e with | .mul => doneAcc s rest | _ => [])
  | .dInCb _ ec _ _ _ :: rest => (match e with | .uth _ => if drainEnds s t ec then doneAcc s rest else [] | _ => [])
  | .inDt _ :: below => (match e with | .pde _ => resumeAcc s t below | _ => [])
  | _ => []

/-- happens-before content of event `e` of thread `t` in state `s` -/
def toHB (js : List Tid) (s : St) (t : Tid) (e : Ev) : List HB.Ev := csOf (s.stk t) e ++ xHB js s t (s.stk t) e

/-- the events of one thread -/
def evs (t : Tid) (l : List HB.Ev) : HB.Trace := l.map (fun x => (t, x))

@[simp] theorem evs_nil (t : Tid) : evs t [] = [] := rfl
theorem evs_cons (t : Tid) (x : HB.Ev) (l : List HB.Ev) : evs t (x :: l) = (t, x) :: evs t l := rfl
theorem evs_append (t : Tid) (l l' : List HB.Ev) : evs t (l ++ l') = evs t l ++ evs t l' := by simp [evs]
@[simp] theorem evs_length (t : Tid) (l : List HB.Ev) : (evs t l).length = l.length := by simp [evs]

theorem mem_evs {t u : Tid} {x : HB.Ev} {l : List HB.Ev} (h : (u, x) ∈ evs t l) : u = t ∧ x ∈ l := by
  simp only [evs, List.mem_map] at h
  obtain ⟨y, hy, heq⟩ := h
  injection heq with h1 h2
  subst h1; subst h2; exact ⟨rfl, hy⟩

/-- the mapped trace, following the run of the model (it ends where the model rejects) -/
def hbFrom (js : List Tid) : St → List (Tid × Ev) → HB.Trace
  | _, [] => []
  | s, (t, e) :: es =>
      match step s t e with
      | some s' => evs t (toHB js s t e) ++ hbFrom js s' es
      | none => []

def hbTrace (js : List Tid) (cb : Bool) (ns nt : Nat) (es : List (Tid × Ev)) : HB.Trace :=
  hbFrom js (init cb ns nt) es

theorem hbFrom_append (js : List Tid) {s s1 : St} {es : List (Tid × Ev)} (h : runFrom step s es = some s1)
    (ext : List (Tid × Ev)) : hbFrom js s (es ++ ext) = hbFrom js s es ++ hbFrom js s1 ext := by
  induction es generalizing s with
  | nil => simp at h; subst h; simp [hbFrom]
  | cons x es ih =>
    obtain ⟨t, e⟩ := x
    rw [runFrom_cons] at h
    cases h2 : step s t e with
    | none => simp [h2] at h
    | some s2 =>
      simp only [h2, Option.bind_some] at h
      simp only [List.cons_append, hbFrom, h2, ih h, List.append_assoc]

theorem hbTrace_snoc (js : List Tid) {cb : Bool} {ns nt : Nat} {es : List (Tid × Ev)} {s s' : St} {t : Tid} {e : Ev}
    (h : run cb ns nt es = some s) (hs : step s t e = some s') :
    hbTrace js cb ns nt (es ++ [(t, e)]) = hbTrace js cb ns nt es ++ evs t (toHB js s t e) := by
  unfold hbTrace
  rw [hbFrom_append js h]
  simp [hbFrom, hs]

/-- the mapped trace of a prefix is a prefix of the mapped trace -/
theorem hbTrace_take (js : List Tid) {cb : Bool} {ns nt : Nat} {es : List (Tid × Ev)} {s : St}
    (h : run cb ns nt es = some s) (p : Nat) :
    ∃ rest, hbTrace js cb ns nt es = hbTrace js cb ns nt (es.take p) ++ rest := by
  have hsplit : es = es.take p ++ es.drop p := (List.take_append_drop p es).symm
  unfold run at h
  rw [hsplit, runFrom_append] at h
  cases h1 : runFrom step (init cb ns nt) (es.take p) with
  | none => simp [h1] at h
  | some s1 =>
    refine ⟨hbFrom js s1 (es.drop p), ?_⟩
    unfold hbTrace
    conv => lhs; rw [hsplit]
    exact hbFrom_append js h1 _

end ConcVerif.DD
