import ConcVerif.Proof.RcuB
/-! Layer C of the rcu_list invariant: the doubly linked list (DESIGN §7.4 N1).

`lst` = the linked nodes in list order, `order` = every node ever linked, in list order.  Forward links
(`head`, `next`) are exact at all times; `back`, `tail` and the `deleted` flags are exact except inside the
critical section of the writer that is just changing them (the exceptions name the writer's pc). -/
namespace ConcVerif.Rcu

/-- pcs relevant to the list structure -/
def CView : Pc → Pc
  | .pCons k n => .pCons k n
  | .pLoad k n => .pLoad k n
  | .pE1 k n => .pE1 k n
  | .pE2 k n => .pE2 k n
  | .pF1 k n h => .pF1 k n h
  | .pF2 k n h => .pF2 k n h
  | .pF3 k n => .pF3 k n
  | .pB1 k n h => .pB1 k n h
  | .pB2 k n h => .pB2 k n h
  | .pB3 k n => .pB3 k n
  | .eOrig c a => .eOrig c a
  | .eDel c o => .eDel c o
  | .eMark c o _ => .eMark c o 0
  | .eBack c o _ => .eBack c o 0
  | .eNext c o p _ => .eNext c o p 0
  | .eUnl c o p x _ => .eUnl c o p x 0
  | .eFix c o p x _ => .eFix c o p x 0
  | .eAlloc c o => .eAlloc c o
  | .eCons c o _ => .eAlloc c o
  | .eZh o _ => .eUnlock o
  | .pushStore (.erase o) _ _ => .eUnlock o
  | .pushCas (.erase o) _ _ => .eUnlock o
  | .eUnlock o => .eUnlock o
  | .called .dtor => .called .dtor
  | .dNext m => .dNext m
  | .dDesN m nx => .dDesN m nx
  | .dFreN m nx => .dDesN m nx
  | .dZhead => .dZhead
  | .dOwner _ => .dZhead
  | .dRNext _ => .dZhead
  | .dZn .. => .dZhead
  | .dDesZN .. => .dZhead
  | .dFreZN .. => .dZhead
  | .dDesZ .. => .dZhead
  | .dFreZ .. => .dZhead
  | .retp .dtor => .dZhead
  | _ => .idle

structure CSt where
  nodes : Nat → Node
  nN : Nat
  head : Option Nat
  tail : Option Nat
  lst : List Nat
  order : List Nat
  dt : Bool
  it : Tid → Option (Option Nat)
  vpc : Tid → Pc

def St.cview (s : St) : CSt :=
  { nodes := s.nodes, nN := s.nN, head := s.head, tail := s.tail, lst := s.lst, order := s.order, dt := s.dt, it := s.it,
    vpc := fun u => CView (s.pc u) }

/-- `p` is the element directly in front of `x` (`none` = `x` is the first / `p` is the last) -/
def NextIs (l : List Nat) (p x : Option Nat) : Prop :=
  match p with
  | some a => a ∈ l ∧ (Below l a).head? = x
  | none => l.head? = x

/-- the node whose `deleted` flag is set while it is still linked -/
def marking : Pc → Option Nat
  | .eBack c _ _ | .eNext c _ _ _ | .eUnl c _ _ _ _ => some c
  | _ => none

def OrigOk (c : CSt) (o : Option Nat) : Prop := ∀ x, o = some x → x ∈ c.order

def FreshN (c : CSt) (n : Nat) (nx bk : Option Nat) : Prop :=
  n ∉ c.order ∧ n < c.nN ∧ (c.nodes n).next = nx ∧ (c.nodes n).back = bk ∧ (c.nodes n).deleted = false

/-- what the writer (and the destructor) knows at each pc -/
def WriterP (c : CSt) : Pc → Prop
  | .pCons _ n => n ∉ c.order ∧ n < c.nN
  | .pLoad _ n => FreshN c n none none
  | .pE1 _ n => FreshN c n none none ∧ c.lst = [] ∧ c.tail = none
  | .pE2 _ n => c.lst = [n] ∧ c.tail = none
  | .pF1 _ n h => FreshN c n none none ∧ c.lst.head? = some h
  | .pF2 _ n h => FreshN c n (some h) none ∧ c.lst.head? = some h
  | .pF3 _ n => ∃ h, FreshN c n (some h) none ∧ c.lst.head? = some h ∧ (c.nodes h).back = some n
  | .pB1 _ n h => FreshN c n none none ∧ NextIs c.lst (some h) none ∧ c.tail = some h
  | .pB2 _ n h => FreshN c n none (some h) ∧ NextIs c.lst (some h) none ∧ c.tail = some h
  | .pB3 _ n => ∃ h, c.tail = some h ∧ h ∈ c.lst ∧ Below c.lst h = [n]
  | .eOrig x _ => x ∈ c.order
  | .eDel x o => x ∈ c.order ∧ OrigOk c o
  | .eAlloc x o => x ∈ c.lst ∧ (c.nodes x).deleted = false ∧ OrigOk c o
  | .eMark x o _ => x ∈ c.lst ∧ (c.nodes x).deleted = false ∧ OrigOk c o
  | .eBack x o _ => x ∈ c.lst ∧ (c.nodes x).deleted = true ∧ OrigOk c o
  | .eNext x o p _ => x ∈ c.lst ∧ (c.nodes x).deleted = true ∧ OrigOk c o ∧ NextIs c.lst p (some x)
  | .eUnl x o p q _ =>
      x ∈ c.lst ∧ (c.nodes x).deleted = true ∧ OrigOk c o ∧ NextIs c.lst p (some x) ∧ q = (Below c.lst x).head?
  | .eFix x o p q _ =>
      x ∉ c.lst ∧ x ∈ c.order ∧ (c.nodes x).deleted = true ∧ OrigOk c o ∧ NextIs c.lst p q ∧
        (∀ b, q = some b → (c.nodes b).back = some x) ∧ (q = none → c.tail = some x)
  | .eUnlock o => OrigOk c o
  | .called .dtor => c.head = c.lst.head?
  | .dNext m => c.lst.head? = some m
  | .dDesN m nx => c.lst.head? = some m ∧ nx = (Below c.lst m).head?
  | .dZhead => c.lst = []
  | _ => True

/-- `back` of a linked node is its predecessor, except for the two windows inside push_front / erase -/
def BackOk (c : CSt) (b : Nat) : Prop :=
  NextIs c.lst (c.nodes b).back (some b) ∨
    (∃ t k n, c.vpc t = .pF3 k n ∧ c.lst.head? = some b) ∨
    (∃ t x o p, c.vpc t = .eFix x o p (some b) 0)

def TailOk (c : CSt) : Prop :=
  NextIs c.lst c.tail none ∨ (∃ t k n, c.vpc t = .pE2 k n) ∨ (∃ t k n, c.vpc t = .pB3 k n) ∨
    (∃ t x o p, c.vpc t = .eFix x o p none 0)

structure InvCv (c : CSt) : Prop where
  lstNd : c.lst.Nodup
  ordNd : c.order.Nodup
  sub : ∀ n ∈ c.lst, n ∈ c.order
  ordLt : ∀ n ∈ c.order, n < c.nN
  hd : c.dt = false → c.head = c.lst.head?
  nx : ∀ a ∈ c.lst, (c.nodes a).next = (Below c.lst a).head?
  bk : c.dt = false → ∀ b ∈ c.lst, BackOk c b
  tl : c.dt = false → TailOk c
  del : c.dt = false → ∀ x ∈ c.order, (x ∈ c.lst ↔ (c.nodes x).deleted = false) ∨ ∃ t, marking (c.vpc t) = some x
  val : ∀ n ∈ c.order, ∀ x, (c.nodes n).next = some x → x ∈ c.order
  itv : ∀ t x, c.it t = some (some x) → x ∈ c.order
  wr : ∀ t, WriterP c (c.vpc t)

def InvC (s : St) : Prop := InvCv s.cview

theorem invC_init : InvC init := by
  constructor <;> simp [init, St.cview, CView, WriterP, TailOk, NextIs]

theorem invC_of_view {s s' : St} (h : InvC s) (hv : s'.cview = s.cview) : InvC s' := by
  unfold InvC; rw [hv]; exact h

theorem cview_setPc {s : St} {t : Tid} {p' : Pc} (hp : CView p' = CView (s.pc t)) :
    (fun u => CView ((s.setPc t p').pc u)) = fun u => CView (s.pc u) := by
  funext u
  by_cases hu : u = t
  · subst hu; simp [hp]
  · simp [hu]

@[simp] theorem cview_nodes (s : St) : s.cview.nodes = s.nodes := rfl
@[simp] theorem cview_nN (s : St) : s.cview.nN = s.nN := rfl
@[simp] theorem cview_head (s : St) : s.cview.head = s.head := rfl
@[simp] theorem cview_tail (s : St) : s.cview.tail = s.tail := rfl
@[simp] theorem cview_lst (s : St) : s.cview.lst = s.lst := rfl
@[simp] theorem cview_order (s : St) : s.cview.order = s.order := rfl
@[simp] theorem cview_dt (s : St) : s.cview.dt = s.dt := rfl
@[simp] theorem cview_it (s : St) : s.cview.it = s.it := rfl
@[simp] theorem cview_vpc (s : St) (u : Tid) : s.cview.vpc u = CView (s.pc u) := rfl

end ConcVerif.Rcu

namespace ConcVerif.Rcu

/-- the exceptions of `BackOk` / `TailOk` that a given view is responsible for -/
def BackExcV (c : CSt) (v : Pc) (b : Nat) : Prop :=
  (∃ k n, v = .pF3 k n ∧ c.lst.head? = some b) ∨ (∃ x o p, v = .eFix x o p (some b) 0)

def TailExcV (v : Pc) : Prop :=
  (∃ k n, v = .pE2 k n) ∨ (∃ k n, v = .pB3 k n) ∨ (∃ x o p, v = .eFix x o p none 0)

theorem backOk_iff (c : CSt) (b : Nat) :
    BackOk c b ↔ NextIs c.lst (c.nodes b).back (some b) ∨ ∃ t, BackExcV c (c.vpc t) b := by
  unfold BackOk BackExcV
  constructor
  · rintro (h | ⟨t, k, n, h1, h2⟩ | ⟨t, x, o, p, h1⟩)
    · exact Or.inl h
    · exact Or.inr ⟨t, Or.inl ⟨k, n, h1, h2⟩⟩
    · exact Or.inr ⟨t, Or.inr ⟨x, o, p, h1⟩⟩
  · rintro (h | ⟨t, ⟨k, n, h1, h2⟩ | ⟨x, o, p, h1⟩⟩)
    · exact Or.inl h
    · exact Or.inr (Or.inl ⟨t, k, n, h1, h2⟩)
    · exact Or.inr (Or.inr ⟨t, x, o, p, h1⟩)

theorem tailOk_iff (c : CSt) : TailOk c ↔ NextIs c.lst c.tail none ∨ ∃ t, TailExcV (c.vpc t) := by
  unfold TailOk TailExcV
  constructor
  · rintro (h | ⟨t, k, n, h1⟩ | ⟨t, k, n, h1⟩ | ⟨t, x, o, p, h1⟩)
    · exact Or.inl h
    · exact Or.inr ⟨t, Or.inl ⟨k, n, h1⟩⟩
    · exact Or.inr ⟨t, Or.inr (Or.inl ⟨k, n, h1⟩)⟩
    · exact Or.inr ⟨t, Or.inr (Or.inr ⟨x, o, p, h1⟩)⟩
  · rintro (h | ⟨t, ⟨k, n, h1⟩ | ⟨k, n, h1⟩ | ⟨x, o, p, h1⟩⟩)
    · exact Or.inl h
    · exact Or.inr (Or.inl ⟨t, k, n, h1⟩)
    · exact Or.inr (Or.inr (Or.inl ⟨t, k, n, h1⟩))
    · exact Or.inr (Or.inr (Or.inr ⟨t, x, o, p, h1⟩))

/-- master lemma for steps that only move the pc of `t` (the C-state is unchanged) -/
theorem invC_pc {s : St} {t : Tid} (h : InvC s) (p' : Pc)
    (hbk : s.dt = false → ∀ b ∈ s.lst, BackExcV s.cview (CView (s.pc t)) b →
      BackExcV s.cview (CView p') b ∨ NextIs s.lst (s.nodes b).back (some b))
    (htl : s.dt = false → TailExcV (CView (s.pc t)) → TailExcV (CView p') ∨ NextIs s.lst s.tail none)
    (hdel : s.dt = false → ∀ x, marking (CView (s.pc t)) = some x →
      marking (CView p') = some x ∨ (x ∈ s.lst ↔ (s.nodes x).deleted = false))
    (hwr : WriterP s.cview (CView p')) : InvC (s.setPc t p') := by
  obtain ⟨c1, c2, c3, c4, c5, c6, c7, c8, c9, c10, c11, c12⟩ := h
  refine ⟨c1, c2, c3, c4, c5, c6, ?_, ?_, ?_, c10, c11, ?_⟩
  all_goals simp only [cview_nodes, cview_nN, cview_head, cview_tail, cview_lst, cview_order, cview_dt, cview_it, cview_vpc,
    setPc_nodes, setPc_nN, setPc_head, setPc_tail, setPc_lst, setPc_order, setPc_dt, setPc_it, setPc_pc] at *
  · intro hd b hb
    rw [backOk_iff]
    rcases (backOk_iff _ _).1 (c7 hd b hb) with h1 | ⟨u, hu⟩
    · exact Or.inl h1
    · simp only [cview_vpc] at hu
      by_cases hut : u = t
      · subst hut
        rcases hbk hd b hb hu with h2 | h2
        · exact Or.inr ⟨u, by simp only [cview_vpc, setPc_pc, upd_same]; exact h2⟩
        · exact Or.inl h2
      · exact Or.inr ⟨u, by simp only [cview_vpc, setPc_pc, upd_other _ _ _ _ hut]; exact hu⟩
  · intro hd
    rw [tailOk_iff]
    rcases (tailOk_iff _).1 (c8 hd) with h1 | ⟨u, hu⟩
    · exact Or.inl h1
    · simp only [cview_vpc] at hu
      by_cases hut : u = t
      · subst hut
        rcases htl hd hu with h2 | h2
        · exact Or.inr ⟨u, by simp only [cview_vpc, setPc_pc, upd_same]; exact h2⟩
        · exact Or.inl h2
      · exact Or.inr ⟨u, by simp only [cview_vpc, setPc_pc, upd_other _ _ _ _ hut]; exact hu⟩
  · intro hd x hx
    rcases c9 hd x hx with h1 | ⟨u, hu⟩
    · exact Or.inl h1
    · by_cases hut : u = t
      · subst hut
        rcases hdel hd x hu with h2 | h2
        · exact Or.inr ⟨u, by rw [upd_same]; exact h2⟩
        · exact Or.inl h2
      · exact Or.inr ⟨u, by rw [upd_other _ _ _ _ hut]; exact hu⟩
  · intro u; by_cases hut : u = t
    · subst hut; rw [upd_same]; exact hwr
    · rw [upd_other _ _ _ _ hut]; exact c12 u

theorem cview_nonidle {p : Pc} (h : CView p ≠ .idle) : holdsW p = true ∨ inDtor p = true := by
  cases p with
  | called k => cases k <;> simp [CView] at h <;> simp [inDtor]
  | retp k => cases k <;> simp [CView] at h <;> simp [inDtor]
  | pushStore c r e => cases c <;> simp [CView] at h <;> simp [holdsW]
  | pushCas c r e => cases c <;> simp [CView] at h <;> simp [holdsW]
  | _ => simp [CView] at h <;> simp [holdsW, inDtor]

theorem dt_false_of_hnd {s : St} (ha : InvA s) {t : Tid} (hne : s.hnd t ≠ .none) : s.dt = false := by
  cases hd : s.dt with
  | false => rfl
  | true =>
    have := ha.dtl hd
    have h2 := (ha.liveIff t).2 hne
    rw [this] at h2; simp at h2

/-- while a writer holds the mutex every other thread is outside the list structure -/
theorem others_cidle {s : St} {t : Tid} (ha : InvA s) (hw : holdsW (s.pc t) = true) :
    s.dt = false ∧ ∀ u, u ≠ t → CView (s.pc u) = .idle := by
  obtain ⟨r, hr⟩ := ha.wrW t hw
  have hdt := dt_false_of_hnd ha (t := t) (by rw [hr]; simp)
  refine ⟨hdt, ?_⟩
  intro u hut
  apply Classical.byContradiction
  intro hc
  rcases cview_nonidle hc with h1 | h1
  · have a := (ha.wm u).1 h1
    have b := (ha.wm t).1 hw
    rw [a] at b; injection b with b; exact hut b
  · have := ha.dtd u h1; rw [hdt] at this; cases this

/-- building layer C for the state after a writer step: every other thread has an idle view -/
theorem invC_writer_mk {s' : St} {t : Tid} (hoth : ∀ u, u ≠ t → CView (s'.pc u) = .idle)
    (c1 : s'.lst.Nodup) (c2 : s'.order.Nodup) (c3 : ∀ n ∈ s'.lst, n ∈ s'.order) (c4 : ∀ n ∈ s'.order, n < s'.nN)
    (c5 : s'.head = s'.lst.head?) (c6 : ∀ a ∈ s'.lst, (s'.nodes a).next = (Below s'.lst a).head?)
    (c7 : ∀ b ∈ s'.lst, NextIs s'.lst (s'.nodes b).back (some b) ∨ BackExcV s'.cview (CView (s'.pc t)) b)
    (c8 : NextIs s'.lst s'.tail none ∨ TailExcV (CView (s'.pc t)))
    (c9 : ∀ x ∈ s'.order, (x ∈ s'.lst ↔ (s'.nodes x).deleted = false) ∨ marking (CView (s'.pc t)) = some x)
    (c10 : ∀ n ∈ s'.order, ∀ x, (s'.nodes n).next = some x → x ∈ s'.order)
    (c11 : ∀ u x, s'.it u = some (some x) → x ∈ s'.order)
    (c12 : WriterP s'.cview (CView (s'.pc t))) : InvC s' := by
  refine ⟨c1, c2, c3, c4, fun _ => c5, c6, ?_, ?_, ?_, c10, c11, ?_⟩
  · intro _ b hb
    rw [backOk_iff]
    rcases c7 b hb with h | h
    · exact Or.inl h
    · exact Or.inr ⟨t, h⟩
  · intro _
    rw [tailOk_iff]
    rcases c8 with h | h
    · exact Or.inl h
    · exact Or.inr ⟨t, h⟩
  · intro _ x hx
    rcases c9 x hx with h | h
    · exact Or.inl h
    · exact Or.inr ⟨t, h⟩
  · intro u
    by_cases hut : u = t
    · subst hut; exact c12
    · simp only [cview_vpc]; rw [hoth u hut]; trivial

/-- the facts of layer C as seen by the writer `t`: no exception is pending except its own -/
theorem invC_writer_facts {s : St} {t : Tid} (ha : InvA s) (h : InvC s) (hw : holdsW (s.pc t) = true) :
    s.head = s.lst.head? ∧
    (∀ b ∈ s.lst, NextIs s.lst (s.nodes b).back (some b) ∨ BackExcV s.cview (CView (s.pc t)) b) ∧
    (NextIs s.lst s.tail none ∨ TailExcV (CView (s.pc t))) ∧
    (∀ x ∈ s.order, (x ∈ s.lst ↔ (s.nodes x).deleted = false) ∨ marking (CView (s.pc t)) = some x) := by
  obtain ⟨hdt, hoth⟩ := others_cidle ha hw
  refine ⟨h.hd hdt, ?_, ?_, ?_⟩
  · intro b hb
    rcases (backOk_iff _ _).1 (h.bk hdt b hb) with h1 | ⟨u, hu⟩
    · exact Or.inl h1
    · by_cases hut : u = t
      · subst hut; exact Or.inr hu
      · simp only [cview_vpc] at hu; rw [hoth u hut] at hu
        rcases hu with ⟨_, _, hc, _⟩ | ⟨_, _, _, hc⟩ <;> cases hc
  · rcases (tailOk_iff _).1 (h.tl hdt) with h1 | ⟨u, hu⟩
    · exact Or.inl h1
    · by_cases hut : u = t
      · subst hut; exact Or.inr hu
      · simp only [cview_vpc] at hu; rw [hoth u hut] at hu
        rcases hu with ⟨_, _, hc⟩ | ⟨_, _, hc⟩ | ⟨_, _, _, hc⟩ <;> cases hc
  · intro x hx
    rcases h.del hdt x hx with h1 | ⟨u, hu⟩
    · exact Or.inl h1
    · by_cases hut : u = t
      · subst hut; exact Or.inr hu
      · simp only [cview_vpc] at hu; rw [hoth u hut] at hu; simp [marking] at hu

/-- in the destructor phase every other thread is outside the list structure -/
theorem others_cidle_dt {s : St} {t : Tid} (ha : InvA s) (hdt : s.dt = true) (hd : inDtor (s.pc t) = true) :
    ∀ u, u ≠ t → CView (s.pc u) = .idle := by
  intro u hut
  apply Classical.byContradiction
  intro hc
  rcases cview_nonidle hc with h1 | h1
  · obtain ⟨r, hr⟩ := ha.wrW u h1
    have := no_hnd_in_dt ha hdt u
    rw [hr] at this; cases this
  · exact hut (ha.dtu u t h1 hd)

/-- list facts -/
theorem head?_append_singleton {l : List Nat} {n : Nat} (h : l ≠ []) : (l ++ [n]).head? = l.head? := by
  cases l with
  | nil => exact absurd rfl h
  | cons z zs => rfl

theorem nextIs_none_iff {l : List Nat} {a : Nat} : (Below l a).head? = none ↔ Below l a = [] := by
  constructor
  · exact head?_eq_none
  · intro h; rw [h]; rfl

/-- the last element is unique -/
theorem last_unique {l : List Nat} {a b : Nat} (ha : a ∈ l) (hb : b ∈ l) (ha' : Below l a = [])
    (hb' : Below l b = []) : a = b := by
  apply Classical.byContradiction
  intro hne
  rcases below_total ha hb hne with h | h
  · rw [hb'] at h; simp at h
  · rw [ha'] at h; simp at h

/-- every element except the last has a successor -/
theorem below_ne_nil_of_ne_last {l : List Nat} {a h : Nat} (ha : a ∈ l) (hh : h ∈ l) (hl : Below l h = []) (hne : a ≠ h) :
    h ∈ Below l a := by
  rcases below_total ha hh hne with e | e
  · rw [hl] at e; simp at e
  · exact e

theorem hoth_setPc {s : St} {t : Tid} {p' : Pc} (hoth : ∀ u, u ≠ t → CView (s.pc u) = .idle) :
    ∀ u, u ≠ t → CView ((s.setPc t p').pc u) = .idle := by
  intro u hut; simp only [setPc_pc, upd_other _ _ _ _ hut]; exact hoth u hut

/-- `pE1`: push into the empty list, `m_head.store(n)` -/
theorem invC_pE1 {s : St} {t : Tid} (ha : InvA s) (h : InvC s) {k : Op} {n : Nat} (hpc : s.pc t = .pE1 k n) :
    InvC ({ s with head := some n, lst := n :: s.lst, order := n :: s.order }.setPc t (.pE2 k n)) := by
  have hw : holdsW (s.pc t) = true := by simp [hpc, holdsW]
  obtain ⟨hdt, hoth⟩ := others_cidle ha hw
  obtain ⟨f5, f7, f8, f9⟩ := invC_writer_facts ha h hw
  have hwr := h.wr t
  simp only [cview_vpc, hpc, CView, WriterP, FreshN, cview_order, cview_nodes, cview_lst, cview_tail, cview_nN] at hwr f9
  obtain ⟨⟨g1, g2, g3, g4, g5⟩, g6, g7⟩ := hwr
  refine invC_writer_mk (t := t) (hoth_setPc hoth) ?_ ?_ ?_ ?_ ?_ ?_ ?_ ?_ ?_ ?_ ?_ ?_
  all_goals simp only [setPc_nodes, setPc_nN, setPc_head, setPc_tail, setPc_lst, setPc_order, setPc_dt, setPc_it, setPc_pc,
    upd_same, cview_vpc, cview_lst, cview_order, cview_nodes, cview_tail, CView, g6]
  · simp
  · exact List.nodup_cons.2 ⟨g1, h.ordNd⟩
  · intro x hx; simp at hx; subst hx; simp
  · intro x hx
    rcases List.mem_cons.1 hx with e | e
    · subst e; exact g2
    · exact h.ordLt x e
  · rfl
  · intro a ha'; simp at ha'; subst ha'; simp [g3]
  · intro b hb; simp at hb; subst hb; left; simp [NextIs, g4]
  · right; exact Or.inl ⟨k, n, rfl⟩
  · intro x hx
    left
    rcases List.mem_cons.1 hx with e | e
    · subst e; simp [g5]
    · have hne : x ≠ n := fun e' => g1 (e' ▸ e)
      rcases f9 x e with f | f
      · rw [g6] at f; simp [hne]; simpa using f
      · simp [marking] at f
  · intro a ha' x hx
    rcases List.mem_cons.1 ha' with e | e
    · subst e; rw [g3] at hx; cases hx
    · exact List.mem_cons_of_mem _ (h.val a e x hx)
  · intro u x hx; exact List.mem_cons_of_mem _ (h.itv u x hx)
  · simp only [WriterP, cview_lst, cview_tail]; exact ⟨by simp [setPc_lst, g6], g7⟩

/-- `pE2` / `pB3`: the new node becomes the tail -/
theorem invC_setTail {s : St} {t : Tid} (ha : InvA s) (h : InvC s) {k : Op} {n : Nat}
    (hpc : s.pc t = .pE2 k n ∨ s.pc t = .pB3 k n) :
    InvC ({ s with tail := some n }.setPc t (.pUnlock k)) := by
  have hw : holdsW (s.pc t) = true := by rcases hpc with e | e <;> simp [e, holdsW]
  obtain ⟨hdt, hoth⟩ := others_cidle ha hw
  obtain ⟨f5, f7, f8, f9⟩ := invC_writer_facts ha h hw
  have hwr := h.wr t
  have hlast : n ∈ s.lst ∧ Below s.lst n = [] := by
    rcases hpc with e | e
    · simp only [cview_vpc, e, CView, WriterP, cview_lst] at hwr
      rw [hwr.1]; simp
    · simp only [cview_vpc, e, CView, WriterP, cview_lst, cview_tail] at hwr
      obtain ⟨h0, _, g2, g3⟩ := hwr
      have hh : (Below s.lst h0).head? = some n := by rw [g3]; rfl
      refine ⟨mem_of_mem_below (head_mem_below hh), ?_⟩
      have hnd : s.lst.Nodup := h.lstNd
      rw [below_of_head hnd hh, g3]; rfl
  refine invC_writer_mk (t := t) (hoth_setPc hoth) h.lstNd h.ordNd h.sub h.ordLt f5 h.nx ?_ ?_ ?_ h.val h.itv ?_
  all_goals simp only [setPc_nodes, setPc_nN, setPc_head, setPc_tail, setPc_lst, setPc_order, setPc_dt, setPc_it, setPc_pc,
    upd_same, cview_vpc, cview_lst, cview_order, cview_nodes, cview_tail, CView]
  · intro b hb
    rcases f7 b hb with f | f
    · exact Or.inl f
    · rcases hpc with e | e <;> rw [e] at f <;> rcases f with ⟨_, _, hc, _⟩ | ⟨_, _, _, hc⟩ <;> cases hc
  · left; exact ⟨hlast.1, by rw [hlast.2]; rfl⟩
  · intro x hx
    rcases f9 x hx with f | f
    · exact Or.inl f
    · rcases hpc with e | e <;> rw [e] at f <;> simp [CView, marking] at f
  · trivial

/-- `pCon` / `pF1` / `pB1`: the writer changes its private, not yet linked node -/
theorem invC_privNode {s : St} {t : Tid} (ha : InvA s) (h : InvC s) (hw : holdsW (s.pc t) = true) (n : Nat)
    (hn : n ∉ s.order) (nodes' : Nat → Node) (hnodes : ∀ x, x ≠ n → nodes' x = s.nodes x) (p' : Pc)
    (hex : (∀ b, ¬ BackExcV s.cview (CView (s.pc t)) b) ∧ ¬ TailExcV (CView (s.pc t)) ∧ marking (CView (s.pc t)) = none)
    (hwr : ∀ c' : CSt, c'.nodes = nodes' → c'.lst = s.lst → c'.order = s.order → c'.tail = s.tail → c'.nN = s.nN →
      WriterP c' (CView p')) :
    InvC ({ s with nodes := nodes' }.setPc t p') := by
  obtain ⟨hdt, hoth⟩ := others_cidle ha hw
  obtain ⟨f5, f7, f8, f9⟩ := invC_writer_facts ha h hw
  have hl : ∀ x ∈ s.lst, nodes' x = s.nodes x := fun x hx => hnodes x (fun e => hn (e ▸ h.sub x hx))
  have ho : ∀ x ∈ s.order, nodes' x = s.nodes x := fun x hx => hnodes x (fun e => hn (e ▸ hx))
  refine invC_writer_mk (t := t) (hoth_setPc hoth) h.lstNd h.ordNd h.sub h.ordLt f5 ?_ ?_ ?_ ?_ ?_ h.itv ?_
  all_goals simp only [setPc_nodes, setPc_nN, setPc_head, setPc_tail, setPc_lst, setPc_order, setPc_dt, setPc_it, setPc_pc,
    upd_same, cview_vpc, cview_lst, cview_order, cview_nodes, cview_tail]
  · intro a ha'; rw [hl a ha']; exact h.nx a ha'
  · intro b hb
    rw [hl b hb]
    rcases f7 b hb with f | f
    · exact Or.inl f
    · exact absurd f (hex.1 b)
  · rcases f8 with f | f
    · exact Or.inl f
    · exact absurd f hex.2.1
  · intro x hx
    rw [ho x hx]
    rcases f9 x hx with f | f
    · exact Or.inl f
    · rw [hex.2.2] at f; cases f
  · intro a ha' x hx; rw [ho a ha'] at hx; exact h.val a ha' x hx
  · exact hwr _ rfl rfl rfl rfl rfl

/-- `pF2`: `oldHead->back.store(n)` -/
theorem invC_pF2 {s : St} {t : Tid} (ha : InvA s) (h : InvC s) {k : Op} {n h0 : Nat} (hpc : s.pc t = .pF2 k n h0) :
    InvC ((s.setBack h0 (some n)).setPc t (.pF3 k n)) := by
  have hw : holdsW (s.pc t) = true := by simp [hpc, holdsW]
  obtain ⟨hdt, hoth⟩ := others_cidle ha hw
  obtain ⟨f5, f7, f8, f9⟩ := invC_writer_facts ha h hw
  have hwr := h.wr t
  simp only [cview_vpc, hpc, CView, WriterP, FreshN, cview_order, cview_nodes, cview_lst, cview_tail, cview_nN] at hwr f7 f8 f9
  obtain ⟨⟨g1, g2, g3, g4, g5⟩, g6⟩ := hwr
  have hh0 : h0 ∈ s.lst := by
    cases hl : s.lst with
    | nil => rw [hl] at g6; cases g6
    | cons z zs => rw [hl] at g6; simp at g6; subst g6; simp
  have hne : n ≠ h0 := fun e => g1 (e ▸ h.sub h0 hh0)
  have hnx : ∀ x, ((upd s.nodes h0 { s.nodes h0 with back := some n }) x).next = (s.nodes x).next := by
    intro x; by_cases e : x = h0
    · subst e; rw [upd_same]
    · rw [upd_other _ _ _ _ e]
  have hdl : ∀ x, ((upd s.nodes h0 { s.nodes h0 with back := some n }) x).deleted = (s.nodes x).deleted := by
    intro x; by_cases e : x = h0
    · subst e; rw [upd_same]
    · rw [upd_other _ _ _ _ e]
  refine invC_writer_mk (t := t) (hoth_setPc hoth) h.lstNd h.ordNd h.sub h.ordLt f5 ?_ ?_ ?_ ?_ ?_ h.itv ?_
  all_goals simp only [setPc_nodes, setPc_nN, setPc_head, setPc_tail, setPc_lst, setPc_order, setPc_dt, setPc_it, setPc_pc,
    upd_same, cview_vpc, cview_lst, cview_order, cview_nodes, cview_tail, cview_nN, CView, setBack_nodes, setBack_lst,
    setBack_order, setBack_tail, setBack_head, setBack_nN, setBack_it]
  · intro a ha'; rw [hnx]; exact h.nx a ha'
  · intro b hb
    by_cases e : b = h0
    · subst e; right; exact Or.inl ⟨k, n, rfl, g6⟩
    · rw [upd_other _ _ _ _ e]
      rcases f7 b hb with f | f
      · exact Or.inl f
      · rcases f with ⟨_, _, hc, _⟩ | ⟨_, _, _, hc⟩ <;> cases hc
  · rcases f8 with f | f
    · exact Or.inl f
    · rcases f with ⟨_, _, hc⟩ | ⟨_, _, hc⟩ | ⟨_, _, _, hc⟩ <;> cases hc
  · intro x hx
    rw [hdl]
    rcases f9 x hx with f | f
    · exact Or.inl f
    · simp [marking] at f
  · intro a ha' x hx; rw [hnx] at hx; exact h.val a ha' x hx
  · simp only [WriterP, FreshN, cview_order, cview_nodes, cview_lst, cview_nN, setPc_nodes, setPc_order, setPc_lst, setPc_nN,
      setBack_nodes, setBack_order, setBack_lst, setBack_nN]
    refine ⟨h0, ⟨g1, g2, ?_, ?_, ?_⟩, g6, by rw [upd_same]⟩
    · rw [upd_other _ _ _ _ hne]; exact g3
    · rw [upd_other _ _ _ _ hne]; exact g4
    · rw [upd_other _ _ _ _ hne]; exact g5

/-- `pF3`: push_front publishes the node, `m_head.store(n)` -/
theorem invC_pF3 {s : St} {t : Tid} (ha : InvA s) (h : InvC s) {k : Op} {n : Nat} (hpc : s.pc t = .pF3 k n) :
    InvC ({ s with head := some n, lst := n :: s.lst, order := n :: s.order }.setPc t (.pUnlock k)) := by
  have hw : holdsW (s.pc t) = true := by simp [hpc, holdsW]
  obtain ⟨hdt, hoth⟩ := others_cidle ha hw
  obtain ⟨f5, f7, f8, f9⟩ := invC_writer_facts ha h hw
  have hwr := h.wr t
  simp only [cview_vpc, hpc, CView, WriterP, FreshN, cview_order, cview_nodes, cview_lst, cview_tail, cview_nN] at hwr f7 f8 f9
  obtain ⟨h0, ⟨g1, g2, g3, g4, g5⟩, g6, g7⟩ := hwr
  have hnl : n ∉ s.lst := fun e => g1 (h.sub n e)
  have hbl : ∀ a ∈ s.lst, Below (n :: s.lst) a = Below s.lst a :=
    fun a ha' => below_cons_ne _ (fun e => hnl (e ▸ ha'))
  refine invC_writer_mk (t := t) (hoth_setPc hoth) ?_ ?_ ?_ ?_ ?_ ?_ ?_ ?_ ?_ ?_ ?_ ?_
  all_goals simp only [setPc_nodes, setPc_nN, setPc_head, setPc_tail, setPc_lst, setPc_order, setPc_dt, setPc_it, setPc_pc,
    upd_same, cview_vpc, cview_lst, cview_order, cview_nodes, cview_tail, CView]
  · exact List.nodup_cons.2 ⟨hnl, h.lstNd⟩
  · exact List.nodup_cons.2 ⟨g1, h.ordNd⟩
  · intro x hx
    rcases List.mem_cons.1 hx with e | e
    · subst e; simp
    · exact List.mem_cons_of_mem _ (h.sub x e)
  · intro x hx
    rcases List.mem_cons.1 hx with e | e
    · subst e; exact g2
    · exact h.ordLt x e
  · rfl
  · intro a ha'
    rcases List.mem_cons.1 ha' with e | e
    · subst e; rw [below_cons_self, g3, g6]
    · rw [hbl a e]; exact h.nx a e
  · intro b hb
    left
    rcases List.mem_cons.1 hb with e | e
    · subst e; rw [g4]; simp [NextIs]
    · by_cases hb0 : b = h0
      · subst hb0; rw [g7]; simp only [NextIs]
        exact ⟨List.mem_cons_self, by rw [below_cons_self]; exact g6⟩
      · rcases f7 b e with f | f
        · cases hbk : (s.nodes b).back with
          | none => rw [hbk] at f; simp only [NextIs] at f; rw [g6] at f; injection f with f; exact absurd f.symm hb0
          | some a =>
            rw [hbk] at f; simp only [NextIs] at f ⊢
            exact ⟨List.mem_cons_of_mem _ f.1, by rw [hbl a f.1]; exact f.2⟩
        · rcases f with ⟨_, _, _, hc⟩ | ⟨_, _, _, hc⟩
          · simp only [cview_lst] at hc; rw [g6] at hc; injection hc with hc; exact absurd hc.symm hb0
          · cases hc
  · left
    rcases f8 with f | f
    · cases htl : s.tail with
      | none => rw [htl] at f; simp only [NextIs] at f; rw [g6] at f; cases f
      | some a =>
        rw [htl] at f; simp only [NextIs] at f ⊢
        exact ⟨List.mem_cons_of_mem _ f.1, by rw [hbl a f.1]; exact f.2⟩
    · rcases f with ⟨_, _, hc⟩ | ⟨_, _, hc⟩ | ⟨_, _, _, hc⟩ <;> cases hc
  · intro x hx
    left
    rcases List.mem_cons.1 hx with e | e
    · subst e; simp [g5]
    · have hne : x ≠ n := fun e' => g1 (e' ▸ e)
      rcases f9 x e with f | f
      · simp [hne]; exact f
      · simp [marking] at f
  · intro a ha' x hx
    rcases List.mem_cons.1 ha' with e | e
    · subst e; rw [g3] at hx; injection hx with hx; subst hx
      have : h0 ∈ s.lst := by
        cases hl : s.lst with
        | nil => rw [hl] at g6; cases g6
        | cons z zs => rw [hl] at g6; simp at g6; subst g6; simp
      exact List.mem_cons_of_mem _ (h.sub _ this)
    · exact List.mem_cons_of_mem _ (h.val a e x hx)
  · intro u x hx; exact List.mem_cons_of_mem _ (h.itv u x hx)
  · trivial

theorem mem_of_head? {l : List Nat} {h : Nat} (e : l.head? = some h) : h ∈ l := by
  cases l with
  | nil => cases e
  | cons z zs => simp at e; subst e; simp

/-- `pB2`: push_back publishes the node, `oldTail->next.store(n)` -/
theorem invC_pB2 {s : St} {t : Tid} (ha : InvA s) (h : InvC s) {k : Op} {n h0 : Nat} (hpc : s.pc t = .pB2 k n h0) :
    InvC ({ (s.setNext h0 (some n)) with lst := s.lst ++ [n], order := s.order ++ [n] }.setPc t (.pB3 k n)) := by
  have hw : holdsW (s.pc t) = true := by simp [hpc, holdsW]
  obtain ⟨hdt, hoth⟩ := others_cidle ha hw
  obtain ⟨f5, f7, f8, f9⟩ := invC_writer_facts ha h hw
  have hwr := h.wr t
  simp only [cview_vpc, hpc, CView, WriterP, FreshN, NextIs, cview_order, cview_nodes, cview_lst, cview_tail, cview_nN] at hwr f7 f8 f9
  obtain ⟨⟨g1, g2, g3, g4, g5⟩, ⟨g6, g7⟩, g8⟩ := hwr
  have hnd : s.lst.Nodup := h.lstNd
  have hnx0 : ∀ a ∈ s.lst, (s.nodes a).next = (Below s.lst a).head? := h.nx
  have hnl : n ∉ s.lst := fun e => g1 (h.sub n e)
  have hne : n ≠ h0 := fun e => hnl (e ▸ g6)
  have hbel0 : Below s.lst h0 = [] := head?_eq_none g7
  have hlne : s.lst ≠ [] := fun e => by rw [e] at g6; simp at g6
  have hbk : ∀ x, ((upd s.nodes h0 { s.nodes h0 with next := some n }) x).back = (s.nodes x).back := by
    intro x; by_cases e : x = h0
    · subst e; rw [upd_same]
    · rw [upd_other _ _ _ _ e]
  have hdl : ∀ x, ((upd s.nodes h0 { s.nodes h0 with next := some n }) x).deleted = (s.nodes x).deleted := by
    intro x; by_cases e : x = h0
    · subst e; rw [upd_same]
    · rw [upd_other _ _ _ _ e]
  refine invC_writer_mk (t := t) (hoth_setPc hoth) ?_ ?_ ?_ ?_ ?_ ?_ ?_ ?_ ?_ ?_ ?_ ?_
  all_goals simp only [setPc_nodes, setPc_nN, setPc_head, setPc_tail, setPc_lst, setPc_order, setPc_dt, setPc_it, setPc_pc,
    upd_same, cview_vpc, cview_lst, cview_order, cview_nodes, cview_tail, cview_nN, CView, setNext_nodes, setNext_nN,
    setNext_head, setNext_tail, setNext_it, NextIs]
  · exact List.nodup_append.2 ⟨hnd, by simp, by intro a ha' b hb; simp at hb; subst hb; exact fun e => hnl (e ▸ ha')⟩
  · exact List.nodup_append.2 ⟨h.ordNd, by simp, by intro a ha' b hb; simp at hb; subst hb; exact fun e => g1 (e ▸ ha')⟩
  · intro x hx
    rcases List.mem_append.1 hx with e | e
    · exact List.mem_append_left _ (h.sub x e)
    · exact List.mem_append_right _ e
  · intro x hx
    rcases List.mem_append.1 hx with e | e
    · exact h.ordLt x e
    · simp at e; subst e; exact g2
  · rw [head?_append_singleton hlne]; exact f5
  · intro a ha'
    rcases List.mem_append.1 ha' with e | e
    · rw [below_append_singleton e]
      by_cases ea : a = h0
      · subst ea; rw [upd_same, hbel0]; rfl
      · rw [upd_other _ _ _ _ ea, hnx0 a e]
        have : h0 ∈ Below s.lst a := below_ne_nil_of_ne_last e g6 hbel0 ea
        cases hb : Below s.lst a with
        | nil => rw [hb] at this; simp at this
        | cons z zs => rfl
    · simp at e; subst e
      rw [upd_other _ _ _ _ hne, g3, below_append_singleton_new hnl]; rfl
  · intro b hb
    left
    rw [hbk]
    rcases List.mem_append.1 hb with e | e
    · rcases f7 b e with f | f
      · cases hbb : (s.nodes b).back with
        | none => rw [hbb] at f; simp only at f ⊢; rw [head?_append_singleton hlne]; exact f
        | some a =>
          rw [hbb] at f; simp only at f ⊢
          refine ⟨List.mem_append_left _ f.1, ?_⟩
          rw [below_append_singleton f.1]
          cases hba : Below s.lst a with
          | nil => rw [hba] at f; cases f.2
          | cons z zs => rw [hba] at f; exact f.2
      · rcases f with ⟨_, _, hc, _⟩ | ⟨_, _, _, hc⟩ <;> cases hc
    · simp at e; subst e
      rw [g4]
      exact ⟨List.mem_append_left _ g6, by rw [below_append_singleton g6, hbel0]; rfl⟩
  · right; exact Or.inr (Or.inl ⟨k, n, rfl⟩)
  · intro x hx
    left
    rw [hdl]
    rcases List.mem_append.1 hx with e | e
    · have hxn : x ≠ n := fun e' => g1 (e' ▸ e)
      rcases f9 x e with f | f
      · simp [hxn]; exact f
      · simp [marking] at f
    · simp at e; subst e; simp [g5]
  · intro a ha' x hx
    rcases List.mem_append.1 ha' with e | e
    · by_cases ea : a = h0
      · subst ea; rw [upd_same] at hx; simp at hx; subst hx; simp
      · rw [upd_other _ _ _ _ ea] at hx; exact List.mem_append_left _ (h.val a e x hx)
    · simp at e; subst e
      rw [upd_other _ _ _ _ hne, g3] at hx; cases hx
  · intro u x hx; exact List.mem_append_left _ (h.itv u x hx)
  · simp only [WriterP, cview_tail, cview_lst, setPc_tail, setPc_lst]
    exact ⟨h0, g8, List.mem_append_left _ g6, by rw [below_append_singleton g6, hbel0]; rfl⟩

/-- `eMark`: `deleted = true` -/
theorem invC_eMark {s : St} {t : Tid} (ha : InvA s) (h : InvC s) {c z : Nat} {o : Option Nat} (hpc : s.pc t = .eMark c o z) :
    InvC ((s.setDel c true).setPc t (.eBack c o z)) := by
  have hw : holdsW (s.pc t) = true := by simp [hpc, holdsW]
  obtain ⟨hdt, hoth⟩ := others_cidle ha hw
  obtain ⟨f5, f7, f8, f9⟩ := invC_writer_facts ha h hw
  have hwr := h.wr t
  simp only [cview_vpc, hpc, CView, WriterP, cview_order, cview_nodes, cview_lst, cview_tail, cview_nN] at hwr f7 f8 f9
  obtain ⟨g1, g2, g3⟩ := hwr
  have hnx : ∀ x, ((upd s.nodes c { s.nodes c with deleted := true }) x).next = (s.nodes x).next := by
    intro x; by_cases e : x = c
    · subst e; rw [upd_same]
    · rw [upd_other _ _ _ _ e]
  have hbk : ∀ x, ((upd s.nodes c { s.nodes c with deleted := true }) x).back = (s.nodes x).back := by
    intro x; by_cases e : x = c
    · subst e; rw [upd_same]
    · rw [upd_other _ _ _ _ e]
  refine invC_writer_mk (t := t) (hoth_setPc hoth) h.lstNd h.ordNd h.sub h.ordLt f5 ?_ ?_ ?_ ?_ ?_ h.itv ?_
  all_goals simp only [setPc_nodes, setPc_nN, setPc_head, setPc_tail, setPc_lst, setPc_order, setPc_dt, setPc_it, setPc_pc,
    upd_same, cview_vpc, cview_lst, cview_order, cview_nodes, cview_tail, cview_nN, CView, setDel_nodes, setDel_lst,
    setDel_order, setDel_tail, setDel_head, setDel_nN, setDel_it]
  · intro a ha'; rw [hnx]; exact h.nx a ha'
  · intro b hb
    rw [hbk]
    rcases f7 b hb with f | f
    · exact Or.inl f
    · rcases f with ⟨_, _, hc, _⟩ | ⟨_, _, _, hc⟩ <;> cases hc
  · rcases f8 with f | f
    · exact Or.inl f
    · rcases f with ⟨_, _, hc⟩ | ⟨_, _, hc⟩ | ⟨_, _, _, hc⟩ <;> cases hc
  · intro x hx
    by_cases e : x = c
    · subst e; right; rfl
    · rw [upd_other _ _ _ _ e]
      rcases f9 x hx with f | f
      · exact Or.inl f
      · simp [marking] at f
  · intro a ha' x hx; rw [hnx] at hx; exact h.val a ha' x hx
  · simp only [WriterP, cview_lst, cview_nodes, cview_order, setPc_lst, setPc_nodes, setPc_order, setDel_lst, setDel_nodes,
      setDel_order, upd_same]
    exact ⟨g1, trivial, g3⟩

/-- `eUnl`: the unlink store (`oldPrev->next.store(oldNext)` or `m_head.store(oldNext)`) -/
theorem invC_eUnl {s : St} {t : Tid} (ha : InvA s) (h : InvC s) {c : Nat} {o p x : Option Nat}
    {z : Nat} (hpc : s.pc t = .eUnl c o p x z) (nodes' : Nat → Node) (head' : Option Nat)
    (hup : match p with
      | some pp => nodes' = upd s.nodes pp { s.nodes pp with next := x } ∧ head' = s.head
      | none => nodes' = s.nodes ∧ head' = x) :
    InvC ({ s with nodes := nodes', head := head', lst := s.lst.erase c }.setPc t (.eFix c o p x z)) := by
  have hw : holdsW (s.pc t) = true := by simp [hpc, holdsW]
  obtain ⟨hdt, hoth⟩ := others_cidle ha hw
  obtain ⟨f5, f7, f8, f9⟩ := invC_writer_facts ha h hw
  have hwr := h.wr t
  simp only [cview_vpc, hpc, CView, WriterP, cview_order, cview_nodes, cview_lst, cview_tail, cview_nN] at hwr f7 f8 f9
  obtain ⟨g1, g2, g3, g4, g5⟩ := hwr
  have hnd : s.lst.Nodup := h.lstNd
  have hnx0 : ∀ a ∈ s.lst, (s.nodes a).next = (Below s.lst a).head? := h.nx
  have hval0 : ∀ n ∈ s.order, ∀ y, (s.nodes n).next = some y → y ∈ s.order := h.val
  have hsub0 : ∀ n ∈ s.lst, n ∈ s.order := h.sub
  have hxc : (s.nodes c).next = x := by rw [hnx0 c g1, g5]
  have hbk : ∀ y, (nodes' y).back = (s.nodes y).back := by
    intro y
    cases p with
    | none => rw [hup.1]
    | some pp =>
      rw [hup.1]; by_cases e : y = pp
      · subst e; rw [upd_same]
      · rw [upd_other _ _ _ _ e]
  have hdl : ∀ y, (nodes' y).deleted = (s.nodes y).deleted := by
    intro y
    cases p with
    | none => rw [hup.1]
    | some pp =>
      rw [hup.1]; by_cases e : y = pp
      · subst e; rw [upd_same]
      · rw [upd_other _ _ _ _ e]
  have hsubE : ∀ y, y ∈ s.lst.erase c → y ∈ s.lst ∧ y ≠ c := by
    intro y hy
    exact ⟨List.mem_of_mem_erase hy, fun e => by subst e; exact (List.Nodup.mem_erase_iff hnd).1 hy |>.1 rfl⟩
  -- the predecessor facts
  have hpred : NextIs (s.lst.erase c) p x ∧ (s.lst.erase c).head? = head' ∧
      (∀ a ∈ s.lst.erase c, (nodes' a).next = (Below (s.lst.erase c) a).head?) := by
    cases p with
    | none =>
      simp only [NextIs] at g4
      have he : s.lst.erase c = s.lst.tail := erase_head g4
      have hbc : Below s.lst c = s.lst.tail := by
        cases hl : s.lst with
        | nil => rw [hl] at g4; cases g4
        | cons z zs => rw [hl] at g4; simp at g4; subst g4; simp
      refine ⟨?_, ?_, ?_⟩
      · simp only [NextIs]; rw [he, g5, hbc]
      · rw [hup.2, he, g5, hbc]
      · intro a ha'
        obtain ⟨h1, h2⟩ := hsubE a ha'
        rw [hup.1, hnx0 a h1, below_erase hnd h2]
        have : c ∉ Below s.lst a := fun hc => head_ne_of_mem_below hnd hc g4
        rw [List.erase_of_not_mem this]
    | some pp =>
      simp only [NextIs] at g4
      obtain ⟨hp1, hp2⟩ := g4
      have hppc : pp ≠ c := fun e => not_mem_below_self hnd (e ▸ head_mem_below hp2)
      have hbpp : Below (s.lst.erase c) pp = Below s.lst c := by
        rw [below_erase_head hnd hppc hp2, below_of_head hnd hp2]
      refine ⟨?_, ?_, ?_⟩
      · simp only [NextIs]
        exact ⟨(List.mem_erase_of_ne hppc).2 hp1, by rw [hbpp, g5]⟩
      · rw [hup.2, f5]
        exact head_erase_of_ne' (head_ne_of_mem_below hnd (head_mem_below hp2))
      · intro a ha'
        obtain ⟨h1, h2⟩ := hsubE a ha'
        rw [hup.1]
        by_cases e : a = pp
        · subst e; rw [upd_same, hbpp, g5]
        · rw [upd_other _ _ _ _ e, hnx0 a h1, below_erase hnd h2, head_erase_of_ne']
          intro hc; exact e (pred_unique hnd hc hp2)
  obtain ⟨q1, q2, q3⟩ := hpred
  -- the node behind `c` still points back to `c`
  have hsucc : ∀ b, x = some b → (s.nodes b).back = some c := by
    intro b hb
    have hbb : (Below s.lst c).head? = some b := by rw [← g5]; exact hb
    have hbl : b ∈ s.lst := mem_of_mem_below (head_mem_below hbb)
    rcases f7 b hbl with f | f
    · cases hbk' : (s.nodes b).back with
      | none =>
        rw [hbk'] at f; simp only [NextIs] at f
        exact absurd f (head_ne_of_mem_below hnd (head_mem_below hbb))
      | some a =>
        rw [hbk'] at f; simp only [NextIs] at f
        rw [pred_unique hnd f.2 hbb]
    · rcases f with ⟨_, _, hc, _⟩ | ⟨_, _, _, hc⟩ <;> cases hc
  have hlast : x = none → s.tail = some c := by
    intro hx
    have hbc : Below s.lst c = [] := head?_eq_none (by rw [← g5]; exact hx)
    rcases f8 with f | f
    · cases htl : s.tail with
      | none => rw [htl] at f; simp only [NextIs] at f; have := head?_eq_none f; rw [this] at g1; simp at g1
      | some a =>
        rw [htl] at f; simp only [NextIs] at f
        rw [last_unique f.1 g1 (head?_eq_none f.2) hbc]
    · rcases f with ⟨_, _, hc⟩ | ⟨_, _, hc⟩ | ⟨_, _, _, hc⟩ <;> cases hc
  refine invC_writer_mk (t := t) (hoth_setPc hoth) ?_ h.ordNd ?_ h.ordLt ?_ ?_ ?_ ?_ ?_ ?_ h.itv ?_
  all_goals simp only [setPc_nodes, setPc_nN, setPc_head, setPc_tail, setPc_lst, setPc_order, setPc_dt, setPc_it, setPc_pc,
    upd_same, cview_vpc, cview_lst, cview_order, cview_nodes, cview_tail, cview_nN, CView]
  · exact hnd.erase c
  · intro y hy; exact hsub0 y (hsubE y hy).1
  · exact q2.symm
  · exact q3
  · intro b hb
    obtain ⟨h1, h2⟩ := hsubE b hb
    rw [hbk]
    rcases f7 b h1 with f | f
    · cases hbb : (s.nodes b).back with
      | none =>
        rw [hbb] at f; simp only [NextIs] at f ⊢
        left; exact head_erase_of_ne f h2
      | some a =>
        rw [hbb] at f; simp only [NextIs] at f ⊢
        by_cases eac : a = c
        · subst eac
          right; right
          exact ⟨a, o, p, by rw [g5, f.2]⟩
        · left
          refine ⟨(List.mem_erase_of_ne eac).2 f.1, ?_⟩
          rw [below_erase hnd eac]
          exact head_erase_of_ne f.2 h2
    · rcases f with ⟨_, _, hc, _⟩ | ⟨_, _, _, hc⟩ <;> cases hc
  · rcases f8 with f | f
    · cases htl : s.tail with
      | none => rw [htl] at f; simp only [NextIs] at f; have := head?_eq_none f; rw [this] at g1; simp at g1
      | some a =>
        rw [htl] at f; simp only [NextIs] at f ⊢
        by_cases eac : a = c
        · subst eac
          right; right; right
          exact ⟨a, o, p, by rw [g5, f.2]⟩
        · left
          refine ⟨(List.mem_erase_of_ne eac).2 f.1, ?_⟩
          rw [below_erase hnd eac, head?_eq_none f.2]; rfl
    · rcases f with ⟨_, _, hc⟩ | ⟨_, _, hc⟩ | ⟨_, _, _, hc⟩ <;> cases hc
  · intro y hy
    left
    rw [hdl]
    by_cases eyc : y = c
    · subst eyc
      constructor
      · intro hc; exact absurd rfl (hsubE y hc).2
      · intro hc; rw [g2] at hc; cases hc
    · rcases f9 y hy with f | f
      · rw [← f]
        constructor
        · intro hc; exact (hsubE y hc).1
        · intro hc; exact (List.mem_erase_of_ne eyc).2 hc
      · simp only [marking] at f; injection f with f; exact absurd f.symm eyc
  · intro n hn y hy
    cases p with
    | none => rw [hup.1] at hy; exact hval0 n hn y hy
    | some pp =>
      rw [hup.1] at hy
      by_cases e : n = pp
      · subst e; rw [upd_same] at hy; simp only at hy
        exact hval0 c (hsub0 c g1) y (by rw [hxc]; exact hy)
      · rw [upd_other _ _ _ _ e] at hy; exact hval0 n hn y hy
  · simp only [WriterP, cview_lst, cview_nodes, cview_order, cview_tail, setPc_lst, setPc_nodes, setPc_order, setPc_tail]
    refine ⟨fun hc => absurd rfl (hsubE c hc).2, hsub0 c g1, by rw [hdl]; exact g2, g3, q1, ?_, hlast⟩
    intro b hb; rw [hbk]; exact hsucc b hb

/-- `eFix`: `oldNext->back.store(oldPrev)` or `m_tail.store(oldPrev)` -/
theorem invC_eFix {s : St} {t : Tid} (ha : InvA s) (h : InvC s) {c : Nat} {o p x : Option Nat}
    {z : Nat} (hpc : s.pc t = .eFix c o p x z) (nodes' : Nat → Node) (tail' : Option Nat)
    (hup : match x with
      | some xx => nodes' = upd s.nodes xx { s.nodes xx with back := p } ∧ tail' = s.tail
      | none => nodes' = s.nodes ∧ tail' = p) :
    InvC ({ s with nodes := nodes', tail := tail' }.setPc t (.eZh o z)) := by
  have hw : holdsW (s.pc t) = true := by simp [hpc, holdsW]
  obtain ⟨hdt, hoth⟩ := others_cidle ha hw
  obtain ⟨f5, f7, f8, f9⟩ := invC_writer_facts ha h hw
  have hwr := h.wr t
  simp only [cview_vpc, hpc, CView, WriterP, cview_order, cview_nodes, cview_lst, cview_tail, cview_nN] at hwr f7 f8 f9
  obtain ⟨g1, g2, g3, g4, g5, g6, g7⟩ := hwr
  have hnx0 : ∀ a ∈ s.lst, (s.nodes a).next = (Below s.lst a).head? := h.nx
  have hval0 : ∀ n ∈ s.order, ∀ y, (s.nodes n).next = some y → y ∈ s.order := h.val
  have hnx : ∀ y, (nodes' y).next = (s.nodes y).next := by
    intro y
    cases x with
    | none => rw [hup.1]
    | some xx =>
      rw [hup.1]; by_cases e : y = xx
      · subst e; rw [upd_same]
      · rw [upd_other _ _ _ _ e]
  have hdl : ∀ y, (nodes' y).deleted = (s.nodes y).deleted := by
    intro y
    cases x with
    | none => rw [hup.1]
    | some xx =>
      rw [hup.1]; by_cases e : y = xx
      · subst e; rw [upd_same]
      · rw [upd_other _ _ _ _ e]
  refine invC_writer_mk (t := t) (hoth_setPc hoth) h.lstNd h.ordNd h.sub h.ordLt f5 ?_ ?_ ?_ ?_ ?_ h.itv ?_
  all_goals simp only [setPc_nodes, setPc_nN, setPc_head, setPc_tail, setPc_lst, setPc_order, setPc_dt, setPc_it, setPc_pc,
    upd_same, cview_vpc, cview_lst, cview_order, cview_nodes, cview_tail, cview_nN, CView]
  · intro a ha'; rw [hnx]; exact hnx0 a ha'
  · intro b hb
    left
    cases x with
    | none =>
      rw [hup.1]
      rcases f7 b hb with f | f
      · exact f
      · rcases f with ⟨_, _, hc, _⟩ | ⟨_, _, _, hc⟩ <;> cases hc
    | some xx =>
      rw [hup.1]
      by_cases e : b = xx
      · subst e; rw [upd_same]; exact g5
      · rw [upd_other _ _ _ _ e]
        rcases f7 b hb with f | f
        · exact f
        · rcases f with ⟨_, _, hc, _⟩ | ⟨_, _, _, hc⟩
          · cases hc
          · injection hc with _ _ _ hc; injection hc with hc; exact absurd hc.symm e
  · left
    cases x with
    | none => rw [hup.2]; exact g5
    | some xx =>
      rw [hup.2]
      rcases f8 with f | f
      · exact f
      · rcases f with ⟨_, _, hc⟩ | ⟨_, _, hc⟩ | ⟨_, _, _, hc⟩ <;> cases hc
  · intro y hy
    rw [hdl]
    rcases f9 y hy with f | f
    · exact Or.inl f
    · simp [marking] at f
  · intro n hn y hy; rw [hnx] at hy; exact hval0 n hn y hy
  · simp only [WriterP, cview_lst, cview_nodes, cview_order, setPc_lst, setPc_nodes, setPc_order]
    exact g4

/-- the iterator of `t` is assigned a node of `order` (or end / nothing); pcs move between idle views -/
theorem invC_setIt {s : St} {t : Tid} (h : InvC s) (v : Option (Option Nat)) (p' : Pc)
    (hv : ∀ x, v = some (some x) → x ∈ s.order) (hp' : CView p' = .idle)
    (hold : (∀ b, ¬ BackExcV s.cview (CView (s.pc t)) b) ∧ ¬ TailExcV (CView (s.pc t)) ∧ marking (CView (s.pc t)) = none) :
    InvC ({ s with it := upd s.it t v }.setPc t p') := by
  have h1 := invC_pc (t := t) h p' (fun _ b _ hb => absurd hb (hold.1 b)) (fun _ hb => absurd hb hold.2.1)
    (fun _ x hx => by rw [hold.2.2] at hx; cases hx) (by rw [hp']; trivial)
  obtain ⟨c1, c2, c3, c4, c5, c6, c7, c8, c9, c10, c11, c12⟩ := h1
  refine ⟨c1, c2, c3, c4, c5, c6, c7, c8, c9, c10, ?_, c12⟩
  intro u x hx
  simp only [cview_it, setPc_it] at hx
  by_cases hut : u = t
  · subst hut; rw [upd_same] at hx; exact hv x hx
  · rw [upd_other _ _ _ _ hut] at hx; exact c11 u x hx

/-- `call dtor` -/
theorem invC_callDtor {s : St} {t : Tid} (h : InvC s) (hd : s.dt = false) (hpc : CView (s.pc t) = .idle) :
    InvC ({ s with dt := true }.setPc t (.called .dtor)) := by
  obtain ⟨c1, c2, c3, c4, c5, c6, c7, c8, c9, c10, c11, c12⟩ := h
  refine ⟨c1, c2, c3, c4, ?_, c6, ?_, ?_, ?_, c10, c11, ?_⟩
  all_goals simp only [cview_nodes, cview_nN, cview_head, cview_tail, cview_lst, cview_order, cview_dt, cview_it, cview_vpc,
    setPc_nodes, setPc_nN, setPc_head, setPc_tail, setPc_lst, setPc_order, setPc_dt, setPc_it, setPc_pc] at *
  · intro hc; cases hc
  · intro hc; cases hc
  · intro hc; cases hc
  · intro hc; cases hc
  · intro u; by_cases hut : u = t
    · subst hut; rw [upd_same]; simp only [CView, WriterP, cview_head, cview_lst]; exact c5 hd
    · rw [upd_other _ _ _ _ hut]; exact c12 u

/-- destructor steps: `dt = true`, every other thread is idle -/
theorem invC_dtor_mk {s' : St} {t : Tid} (hdt : s'.dt = true) (hoth : ∀ u, u ≠ t → CView (s'.pc u) = .idle)
    (c1 : s'.lst.Nodup) (c2 : s'.order.Nodup) (c3 : ∀ n ∈ s'.lst, n ∈ s'.order) (c4 : ∀ n ∈ s'.order, n < s'.nN)
    (c6 : ∀ a ∈ s'.lst, (s'.nodes a).next = (Below s'.lst a).head?)
    (c10 : ∀ n ∈ s'.order, ∀ x, (s'.nodes n).next = some x → x ∈ s'.order)
    (c11 : ∀ u x, s'.it u = some (some x) → x ∈ s'.order)
    (c12 : WriterP s'.cview (CView (s'.pc t))) : InvC s' := by
  refine ⟨c1, c2, c3, c4, ?_, c6, ?_, ?_, ?_, c10, c11, ?_⟩
  · intro hc; simp only [cview_dt] at hc; rw [hdt] at hc; cases hc
  · intro hc; simp only [cview_dt] at hc; rw [hdt] at hc; cases hc
  · intro hc; simp only [cview_dt] at hc; rw [hdt] at hc; cases hc
  · intro hc; simp only [cview_dt] at hc; rw [hdt] at hc; cases hc
  · intro u
    by_cases hut : u = t
    · subst hut; exact c12
    · simp only [cview_vpc]; rw [hoth u hut]; trivial

local macro "frameC" h:ident : tactic =>
  `(tactic| (refine invC_of_view $h ?_
             simp only [St.cview, setPc_nodes, setPc_nN, setPc_head, setPc_tail, setPc_lst, setPc_order, setPc_dt, setPc_it]
             congr 1
             refine cview_setPc ?_
             simp_all [CView]; done))

theorem invC_step_call {s s' : St} {t : Tid} {e : Ev} (ha : InvA s) (h : InvC s) (hs : Step s t e s') (he : e.kind = .call) : InvC s' := by
  cases hs <;> cases he
  all_goals (try (frameC h; done))
  all_goals (try exact h)
  case callDtor hpc hl hd => exact invC_callDtor h hd (by simp [hpc, CView])

theorem invC_step_ret {s s' : St} {t : Tid} {e : Ev} (ha : InvA s) (h : InvC s) (hs : Step s t e s') (he : e.kind = .ret) : InvC s' := by
  cases hs <;> cases he
  all_goals (try (frameC h; done))
  all_goals (try exact h)
  case relFresh w hpc hh =>
    exact invC_of_view (invC_setIt (t := t) h none .idle (by intro x hx; cases hx) (by simp [CView]) ⟨by intro b hb; rcases hb with ⟨_, _, hc, _⟩ | ⟨_, _, _, hc⟩ <;> simp [hpc, CView] at hc, by intro hb; rcases hb with ⟨_, _, hc⟩ | ⟨_, _, hc⟩ | ⟨_, _, _, hc⟩ <;> simp [hpc, CView] at hc, by simp [hpc, CView, marking]⟩) rfl
  case ret k hpc =>
    refine invC_pc h _ ?_ ?_ ?_ (by simp [CView, WriterP])
    · intro _ b _ hb; rcases hb with ⟨_, _, hc, _⟩ | ⟨_, _, _, hc⟩ <;> (rw [hpc] at hc; cases k <;> simp [CView] at hc)
    · intro _ hb; rcases hb with ⟨_, _, hc⟩ | ⟨_, _, hc⟩ | ⟨_, _, _, hc⟩ <;> (rw [hpc] at hc; cases k <;> simp [CView] at hc)
    · intro _ x hx; rw [hpc] at hx; cases k <;> simp [CView, marking] at hx

theorem invC_step_exc {s s' : St} {t : Tid} {e : Ev} (ha : InvA s) (h : InvC s) (hs : Step s t e s') (he : e.kind = .exc) : InvC s' := by
  cases hs <;> cases he
  all_goals (try (frameC h; done))
  all_goals (try exact h)

theorem invC_step_mlk {s s' : St} {t : Tid} {e : Ev} (ha : InvA s) (h : InvC s) (hs : Step s t e s') (he : e.kind = .mlk) : InvC s' := by
  cases hs <;> cases he
  all_goals (try (frameC h; done))
  all_goals (try exact h)
  case eraseLock adv r c hpc hh hi hm =>
    refine invC_of_view (invC_pc (t := t) h (.eOrig c adv) ?_ ?_ ?_ ?_) rfl
    · intro _ b _ hb; rcases hb with ⟨_, _, hc, _⟩ | ⟨_, _, _, hc⟩ <;> simp [hpc, CView] at hc
    · intro _ hb; rcases hb with ⟨_, _, hc⟩ | ⟨_, _, hc⟩ | ⟨_, _, _, hc⟩ <;> simp [hpc, CView] at hc
    · intro _ x hx; simp [hpc, CView, marking] at hx
    · simp only [CView, WriterP, cview_order]; exact h.itv t c hi

theorem invC_step_mul {s s' : St} {t : Tid} {e : Ev} (ha : InvA s) (h : InvC s) (hs : Step s t e s') (he : e.kind = .mul) : InvC s' := by
  cases hs <;> cases he
  all_goals (try (frameC h; done))
  all_goals (try exact h)
  case pUnlock k hpc hm =>
    have hk : k.isPush = true := by have := ha.opk t; rw [hpc] at this; simpa [opOk] using this
    cases k <;> simp [Op.isPush] at hk
    frameC h
  case eUnlock orig hpc hm =>
    have hwr := h.wr t
    simp only [cview_vpc, hpc, CView, WriterP, OrigOk, cview_order] at hwr
    exact invC_of_view (invC_setIt (t := t) h (some orig) (.retp (.erase true))
      (by intro x hx; injection hx with hx; exact hwr x hx) (by simp [CView]) ⟨by intro b hb; rcases hb with ⟨_, _, hc, _⟩ | ⟨_, _, _, hc⟩ <;> simp [hpc, CView] at hc, by intro hb; rcases hb with ⟨_, _, hc⟩ | ⟨_, _, hc⟩ | ⟨_, _, _, hc⟩ <;> simp [hpc, CView] at hc, by simp [hpc, CView, marking]⟩) rfl

theorem invC_step_alo {s s' : St} {t : Tid} {e : Ev} (ha : InvA s) (h : InvC s) (hs : Step s t e s') (he : e.kind = .alo) : InvC s' := by
  cases hs <;> cases he
  all_goals (try (frameC h; done))
  all_goals (try exact h)
  case regAlo k w hpc hk hh =>
    rcases hk with rfl | ⟨f, em, v, rfl⟩ <;> frameC h
  case pAlo k hpc =>
    have hw : holdsW (s.pc t) = true := by simp [hpc, holdsW]
    obtain ⟨hdt, hoth⟩ := others_cidle ha hw
    obtain ⟨f5, f7, f8, f9⟩ := invC_writer_facts ha h hw
    have hord : ∀ n ∈ s.order, n < s.nN := h.ordLt
    refine invC_writer_mk (t := t) (hoth_setPc hoth) h.lstNd h.ordNd h.sub ?_ f5 h.nx ?_ ?_ ?_ h.val h.itv ?_
    all_goals simp only [setPc_nodes, setPc_nN, setPc_head, setPc_tail, setPc_lst, setPc_order, setPc_dt, setPc_it, setPc_pc,
      upd_same, cview_vpc, cview_lst, cview_order, cview_nodes, cview_tail, cview_nN, CView, setNled_nodes, setNled_nN,
      setNled_head, setNled_tail, setNled_lst, setNled_order, setNled_it]
    · intro n hn; have := hord n hn; omega
    · intro b hb
      rcases f7 b hb with f | f
      · exact Or.inl f
      · rcases f with ⟨_, _, hc, _⟩ | ⟨_, _, _, hc⟩ <;> simp [hpc, CView] at hc
    · rcases f8 with f | f
      · exact Or.inl f
      · rcases f with ⟨_, _, hc⟩ | ⟨_, _, hc⟩ | ⟨_, _, _, hc⟩ <;> simp [hpc, CView] at hc
    · intro x hx
      rcases f9 x hx with f | f
      · exact Or.inl f
      · simp [hpc, CView, marking] at f
    · simp only [WriterP, cview_order, cview_nN, setPc_order, setPc_nN, setNled_order, setNled_nN]
      exact ⟨fun hc => by have := hord _ hc; omega, by omega⟩

theorem invC_step_afl {s s' : St} {t : Tid} {e : Ev} (ha : InvA s) (h : InvC s) (hs : Step s t e s') (he : e.kind = .afl) : InvC s' := by
  cases hs <;> cases he
  all_goals (try (frameC h; done))
  case regFail k w hpc hk hh =>
    rcases hk with rfl | ⟨f, em, v, rfl⟩ <;> frameC h
  case eAloFail c orig hpc =>
    refine invC_pc h _ ?_ ?_ ?_ ?_
    · intro _ b _ hb; rcases hb with ⟨_, _, hc, _⟩ | ⟨_, _, _, hc⟩ <;> simp [hpc, CView] at hc
    · intro _ hb; rcases hb with ⟨_, _, hc⟩ | ⟨_, _, hc⟩ | ⟨_, _, _, hc⟩ <;> simp [hpc, CView] at hc
    · intro _ x hx; simp [hpc, CView, marking] at hx
    · simp only [CView, WriterP]

theorem invC_step_con {s s' : St} {t : Tid} {e : Ev} (ha : InvA s) (h : InvC s) (hs : Step s t e s') (he : e.kind = .con) : InvC s' := by
  cases hs <;> cases he
  all_goals (try (frameC h; done))
  all_goals (try exact h)
  case pCon f em x n hpc =>
    have hwr := h.wr t
    simp only [cview_vpc, hpc, CView, WriterP, cview_order, cview_nN] at hwr
    refine invC_of_view (invC_privNode (t := t) ha h (by simp [hpc, holdsW]) n hwr.1
      (upd s.nodes n { next := none, back := none, deleted := false, val := x }) (fun y hy => upd_other _ _ _ _ hy)
      (.pLoad (.push f em x) n) ⟨by intro b hb; rcases hb with ⟨_, _, hc, _⟩ | ⟨_, _, _, hc⟩ <;> simp [hpc, CView] at hc, by intro hb; rcases hb with ⟨_, _, hc⟩ | ⟨_, _, hc⟩ | ⟨_, _, _, hc⟩ <;> simp [hpc, CView] at hc, by simp [hpc, CView, marking]⟩ ?_) rfl
    intro c' h1 h2 h3 h4 h5
    simp only [CView, WriterP, FreshN, h1, h3, h5, upd_same]
    exact ⟨hwr.1, hwr.2, trivial, trivial, trivial⟩
  case eCon c orig z hpc =>
    have hwr := h.wr t
    simp only [cview_vpc, hpc, CView, WriterP] at hwr
    refine invC_of_view (invC_pc (t := t) h (.eMark c orig z) ?_ ?_ ?_ ?_) rfl
    · intro _ b _ hb; rcases hb with ⟨_, _, hc, _⟩ | ⟨_, _, _, hc⟩ <;> simp [hpc, CView] at hc
    · intro _ hb; rcases hb with ⟨_, _, hc⟩ | ⟨_, _, hc⟩ | ⟨_, _, _, hc⟩ <;> simp [hpc, CView] at hc
    · intro _ x hx; simp [hpc, CView, marking] at hx
    · simp only [CView, WriterP]; exact hwr

theorem invC_step_des {s s' : St} {t : Tid} {e : Ev} (ha : InvA s) (h : InvC s) (hs : Step s t e s') (he : e.kind = .des) : InvC s' := by
  cases hs <;> cases he
  all_goals (try (frameC h; done))
  all_goals (try exact h)

theorem invC_step_fre {s s' : St} {t : Tid} {e : Ev} (ha : InvA s) (h : InvC s) (hs : Step s t e s') (he : e.kind = .fre) : InvC s' := by
  cases hs <;> cases he
  all_goals (try (frameC h; done))
  all_goals (try exact h)
  case pThrow f em x n hpc =>
    refine invC_of_view (invC_pc (t := t) h (.pThrown (.push f em x)) ?_ ?_ ?_ (by simp [CView, WriterP])) rfl
    · intro _ b _ hb; rcases hb with ⟨_, _, hc, _⟩ | ⟨_, _, _, hc⟩ <;> simp [hpc, CView] at hc
    · intro _ hb; rcases hb with ⟨_, _, hc⟩ | ⟨_, _, hc⟩ | ⟨_, _, _, hc⟩ <;> simp [hpc, CView] at hc
    · intro _ x hx; simp [hpc, CView, marking] at hx
  case rFreZ r m nx hpc =>
    cases nx <;> simp only [St.reapAt] <;> frameC h
  case dFreZ m nx hpc =>
    cases nx <;> simp only [St.dRecAt] <;> frameC h
  case dFreN m nx hpc =>
    have hdt := ha.dtd t (by simp [hpc, inDtor])
    have hoth := others_cidle_dt (t := t) ha hdt (by simp [hpc, inDtor])
    have hwr := h.wr t
    simp only [cview_vpc, hpc, CView, WriterP, cview_lst] at hwr
    obtain ⟨g1, g2⟩ := hwr
    have hnd : s.lst.Nodup := h.lstNd
    have hnx0 : ∀ a ∈ s.lst, (s.nodes a).next = (Below s.lst a).head? := h.nx
    have hbm : Below s.lst m = s.lst.tail := by
      cases hl : s.lst with
      | nil => rw [hl] at g1; cases g1
      | cons z zs => rw [hl] at g1; simp at g1; subst g1; simp
    have he : s.lst.erase m = s.lst.tail := erase_head g1
    have hoth' : ∀ u, u ≠ t → CView (({ (s.setNled m .freed) with lst := s.lst.erase m }.dNodeAt t nx).pc u) = .idle := by
      intro u hut; cases nx <;> simp only [St.dNodeAt, setPc_pc, upd_other _ _ _ _ hut] <;> exact hoth u hut
    refine invC_dtor_mk (t := t) ?_ hoth' ?_ ?_ ?_ ?_ ?_ ?_ ?_ ?_
    · cases nx <;> exact hdt
    · cases nx <;> exact hnd.erase m
    · cases nx <;> exact h.ordNd
    · cases nx <;> (intro y hy; exact h.sub y (List.mem_of_mem_erase hy))
    · cases nx <;> exact h.ordLt
    · have : ∀ a ∈ s.lst.erase m, (s.nodes a).next = (Below (s.lst.erase m) a).head? := by
        intro a ha'
        have h1 := List.mem_of_mem_erase ha'
        have h2 : a ≠ m := fun e => by subst e; exact (List.Nodup.mem_erase_iff hnd).1 ha' |>.1 rfl
        rw [hnx0 a h1, below_erase hnd h2]
        have : m ∉ Below s.lst a := fun hc => head_ne_of_mem_below hnd hc g1
        rw [List.erase_of_not_mem this]
      cases nx <;> exact this
    · cases nx <;> exact h.val
    · cases nx <;> exact h.itv
    · cases nx with
      | none =>
        simp only [St.dNodeAt, setPc_pc, upd_same, CView, WriterP, cview_lst, setPc_lst]
        show s.lst.erase m = []
        rw [he, ← hbm]; exact head?_eq_none g2.symm
      | some m' =>
        simp only [St.dNodeAt, setPc_pc, upd_same, CView, WriterP, cview_lst, setPc_lst]
        show (s.lst.erase m).head? = some m'
        rw [he, ← hbm]; exact g2.symm

theorem invC_step_ald {s s' : St} {t : Tid} {e : Ev} (ha : InvA s) (h : InvC s) (hs : Step s t e s') (he : e.kind = .ald) : InvC s' := by
  cases hs <;> cases he
  all_goals (try (frameC h; done))
  all_goals (try exact h)
  case beg w r o hpc hh ho =>
    have hdt := dt_false_of_hnd ha (t := t) (by rw [hh]; simp)
    have hhd : s.head = s.lst.head? := h.hd hdt
    refine invC_setIt (t := t) h (some s.head) (.retp .beg) ?_ (by simp [CView]) ⟨by intro b hb; rcases hb with ⟨_, _, hc, _⟩ | ⟨_, _, _, hc⟩ <;> simp [hpc, CView] at hc, by intro hb; rcases hb with ⟨_, _, hc⟩ | ⟨_, _, hc⟩ | ⟨_, _, _, hc⟩ <;> simp [hpc, CView] at hc, by simp [hpc, CView, marking]⟩
    intro x hx; injection hx with hx
    have hsub0 : ∀ n ∈ s.lst, n ∈ s.order := h.sub
    exact hsub0 x (mem_of_head? (by rw [← hhd]; exact hx))
  case nxt w r n o hpc hh hi ho =>
    refine invC_setIt (t := t) h (some (s.nodes n).next) (.retp .nxt) ?_ (by simp [CView]) ⟨by intro b hb; rcases hb with ⟨_, _, hc, _⟩ | ⟨_, _, _, hc⟩ <;> simp [hpc, CView] at hc, by intro hb; rcases hb with ⟨_, _, hc⟩ | ⟨_, _, hc⟩ | ⟨_, _, _, hc⟩ <;> simp [hpc, CView] at hc, by simp [hpc, CView, marking]⟩
    intro x hx; injection hx with hx
    exact h.val n (h.itv t n hi) x hx
  case uNextNone r cached m o hpc ho hv =>
    cases cached <;> simp only [St.reapAt] <;> frameC h
  case dtorHead o hpc ho =>
    have hwr := h.wr t
    simp only [cview_vpc, hpc, CView, WriterP, cview_head, cview_lst] at hwr
    cases hh : s.head
    · simp only [St.dNodeAt]
      refine invC_pc h _ ?_ ?_ ?_ ?_
      · intro _ b _ hb; rcases hb with ⟨_, _, hc, _⟩ | ⟨_, _, _, hc⟩ <;> simp [hpc, CView] at hc
      · intro _ hb; rcases hb with ⟨_, _, hc⟩ | ⟨_, _, hc⟩ | ⟨_, _, _, hc⟩ <;> simp [hpc, CView] at hc
      · intro _ x hx; simp [hpc, CView, marking] at hx
      · simp only [CView, WriterP, cview_lst]; exact head?_eq_none (by rw [← hwr]; exact hh)
    · simp only [St.dNodeAt]
      refine invC_pc h _ ?_ ?_ ?_ ?_
      · intro _ b _ hb; rcases hb with ⟨_, _, hc, _⟩ | ⟨_, _, _, hc⟩ <;> simp [hpc, CView] at hc
      · intro _ hb; rcases hb with ⟨_, _, hc⟩ | ⟨_, _, hc⟩ | ⟨_, _, _, hc⟩ <;> simp [hpc, CView] at hc
      · intro _ x hx; simp [hpc, CView, marking] at hx
      · simp only [CView, WriterP, cview_lst]; rw [← hwr]; exact hh
  case dNext m o hpc ho =>
    have hwr := h.wr t
    simp only [cview_vpc, hpc, CView, WriterP, cview_lst] at hwr
    have hnx0 : ∀ a ∈ s.lst, (s.nodes a).next = (Below s.lst a).head? := h.nx
    refine invC_pc h _ ?_ ?_ ?_ ?_
    · intro _ b _ hb; rcases hb with ⟨_, _, hc, _⟩ | ⟨_, _, _, hc⟩ <;> simp [hpc, CView] at hc
    · intro _ hb; rcases hb with ⟨_, _, hc⟩ | ⟨_, _, hc⟩ | ⟨_, _, _, hc⟩ <;> simp [hpc, CView] at hc
    · intro _ x hx; simp [hpc, CView, marking] at hx
    · simp only [CView, WriterP, cview_lst]; exact ⟨hwr, hnx0 m (mem_of_head? hwr)⟩
  case dZhead o hpc ho =>
    cases hh : s.zhead <;> simp only [St.dRecAt] <;> frameC h
  case pLoadFrontNone em x n o hpc ho hv =>
    have hw : holdsW (s.pc t) = true := by simp [hpc, holdsW]
    obtain ⟨f5, f7, f8, f9⟩ := invC_writer_facts ha h hw
    have hwr := h.wr t
    simp only [cview_vpc, hpc, CView, WriterP, TailExcV] at hwr f8
    refine invC_pc h _ ?_ ?_ ?_ ?_
    · intro _ b _ hb; rcases hb with ⟨_, _, hc, _⟩ | ⟨_, _, _, hc⟩ <;> simp [hpc, CView] at hc
    · intro _ hb; rcases hb with ⟨_, _, hc⟩ | ⟨_, _, hc⟩ | ⟨_, _, _, hc⟩ <;> simp [hpc, CView] at hc
    · intro _ x hx; simp [hpc, CView, marking] at hx
    · simp only [CView, WriterP, cview_lst, cview_tail]
      have hl : s.lst = [] := head?_eq_none (by rw [← f5]; exact hv)
      refine ⟨hwr, hl, ?_⟩
      rcases f8 with f | f
      · cases htl : s.tail with
        | none => rfl
        | some a => rw [htl] at f; simp only [NextIs] at f; rw [hl] at f; simp at f
      · rcases f with ⟨_, _, hc⟩ | ⟨_, _, hc⟩ | ⟨_, _, _, hc⟩ <;> cases hc
  case pLoadFrontSome em x n h0 o hpc ho hv =>
    have hw : holdsW (s.pc t) = true := by simp [hpc, holdsW]
    obtain ⟨f5, f7, f8, f9⟩ := invC_writer_facts ha h hw
    have hwr := h.wr t
    simp only [cview_vpc, hpc, CView, WriterP] at hwr
    refine invC_pc h _ ?_ ?_ ?_ ?_
    · intro _ b _ hb; rcases hb with ⟨_, _, hc, _⟩ | ⟨_, _, _, hc⟩ <;> simp [hpc, CView] at hc
    · intro _ hb; rcases hb with ⟨_, _, hc⟩ | ⟨_, _, hc⟩ | ⟨_, _, _, hc⟩ <;> simp [hpc, CView] at hc
    · intro _ x hx; simp [hpc, CView, marking] at hx
    · simp only [CView, WriterP, cview_lst]; exact ⟨hwr, by rw [← f5]; exact hv⟩
  case pLoadBackNone em x n o hpc hv =>
    have hw : holdsW (s.pc t) = true := by simp [hpc, holdsW]
    obtain ⟨f5, f7, f8, f9⟩ := invC_writer_facts ha h hw
    have hwr := h.wr t
    simp only [cview_vpc, hpc, CView, WriterP, TailExcV] at hwr f8
    refine invC_pc h _ ?_ ?_ ?_ ?_
    · intro _ b _ hb; rcases hb with ⟨_, _, hc, _⟩ | ⟨_, _, _, hc⟩ <;> simp [hpc, CView] at hc
    · intro _ hb; rcases hb with ⟨_, _, hc⟩ | ⟨_, _, hc⟩ | ⟨_, _, _, hc⟩ <;> simp [hpc, CView] at hc
    · intro _ x hx; simp [hpc, CView, marking] at hx
    · simp only [CView, WriterP, cview_lst, cview_tail]
      refine ⟨hwr, ?_, hv⟩
      rcases f8 with f | f
      · rw [hv] at f; simp only [NextIs] at f; exact head?_eq_none f
      · rcases f with ⟨_, _, hc⟩ | ⟨_, _, hc⟩ | ⟨_, _, _, hc⟩ <;> cases hc
  case pLoadBackSome em x n h0 o hpc hv =>
    have hw : holdsW (s.pc t) = true := by simp [hpc, holdsW]
    obtain ⟨f5, f7, f8, f9⟩ := invC_writer_facts ha h hw
    have hwr := h.wr t
    simp only [cview_vpc, hpc, CView, WriterP, TailExcV] at hwr f8
    refine invC_pc h _ ?_ ?_ ?_ ?_
    · intro _ b _ hb; rcases hb with ⟨_, _, hc, _⟩ | ⟨_, _, _, hc⟩ <;> simp [hpc, CView] at hc
    · intro _ hb; rcases hb with ⟨_, _, hc⟩ | ⟨_, _, hc⟩ | ⟨_, _, _, hc⟩ <;> simp [hpc, CView] at hc
    · intro _ x hx; simp [hpc, CView, marking] at hx
    · simp only [CView, WriterP, cview_lst, cview_tail]
      refine ⟨hwr, ?_, hv⟩
      rcases f8 with f | f
      · rw [hv] at f; exact f
      · rcases f with ⟨_, _, hc⟩ | ⟨_, _, hc⟩ | ⟨_, _, _, hc⟩ <;> cases hc
  case eOrig c adv o hpc ho =>
    have hwr := h.wr t
    simp only [cview_vpc, hpc, CView, WriterP, cview_order] at hwr
    refine invC_pc h _ ?_ ?_ ?_ ?_
    · intro _ b _ hb; rcases hb with ⟨_, _, hc, _⟩ | ⟨_, _, _, hc⟩ <;> simp [hpc, CView] at hc
    · intro _ hb; rcases hb with ⟨_, _, hc⟩ | ⟨_, _, hc⟩ | ⟨_, _, _, hc⟩ <;> simp [hpc, CView] at hc
    · intro _ x hx; simp [hpc, CView, marking] at hx
    · simp only [CView, WriterP, OrigOk, cview_order]
      refine ⟨hwr, ?_⟩
      intro y hy
      cases adv with
      | true => simp at hy; exact h.val c hwr y hy
      | false => simp at hy; subst hy; exact hwr
  case eBack c orig z o hpc ho =>
    have hw : holdsW (s.pc t) = true := by simp [hpc, holdsW]
    obtain ⟨f5, f7, f8, f9⟩ := invC_writer_facts ha h hw
    have hwr := h.wr t
    simp only [cview_vpc, hpc, CView, WriterP] at hwr
    refine invC_pc h _ ?_ ?_ ?_ ?_
    · intro _ b _ hb; rcases hb with ⟨_, _, hc, _⟩ | ⟨_, _, _, hc⟩ <;> simp [hpc, CView] at hc
    · intro _ hb; rcases hb with ⟨_, _, hc⟩ | ⟨_, _, hc⟩ | ⟨_, _, _, hc⟩ <;> simp [hpc, CView] at hc
    · intro _ x hx; left; simpa [hpc, CView, marking] using hx
    · simp only [CView, WriterP, cview_lst, cview_nodes]
      refine ⟨hwr.1, hwr.2.1, hwr.2.2, ?_⟩
      rcases f7 c hwr.1 with f | f
      · exact f
      · rcases f with ⟨_, _, hc, _⟩ | ⟨_, _, _, hc⟩ <;> simp [hpc, CView] at hc
  case eNext c orig p z o hpc ho =>
    have hwr := h.wr t
    simp only [cview_vpc, hpc, CView, WriterP] at hwr
    have hnx0 : ∀ a ∈ s.lst, (s.nodes a).next = (Below s.lst a).head? := h.nx
    refine invC_pc h _ ?_ ?_ ?_ ?_
    · intro _ b _ hb; rcases hb with ⟨_, _, hc, _⟩ | ⟨_, _, _, hc⟩ <;> simp [hpc, CView] at hc
    · intro _ hb; rcases hb with ⟨_, _, hc⟩ | ⟨_, _, hc⟩ | ⟨_, _, _, hc⟩ <;> simp [hpc, CView] at hc
    · intro _ x hx; left; simpa [hpc, CView, marking] using hx
    · simp only [CView, WriterP, cview_lst, cview_nodes]
      exact ⟨hwr.1, hwr.2.1, hwr.2.2.1, hwr.2.2.2, hnx0 c hwr.1⟩

theorem invC_step_ast {s s' : St} {t : Tid} {e : Ev} (ha : InvA s) (h : InvC s) (hs : Step s t e s') (he : e.kind = .ast) : InvC s' := by
  cases hs <;> cases he
  all_goals (try (frameC h; done))
  all_goals (try exact h)
  case pushStore c r exp o hpc =>
    cases c <;> frameC h
  case uClear r o hpc ho =>
    exact invC_of_view (invC_setIt (t := t) h none (.retp .rel) (by intro x hx; cases hx) (by simp [CView]) ⟨by intro b hb; rcases hb with ⟨_, _, hc, _⟩ | ⟨_, _, _, hc⟩ <;> simp [hpc, CView] at hc, by intro hb; rcases hb with ⟨_, _, hc⟩ | ⟨_, _, hc⟩ | ⟨_, _, _, hc⟩ <;> simp [hpc, CView] at hc, by simp [hpc, CView, marking]⟩) rfl
  case pE1 k n o hpc ho => exact invC_pE1 ha h hpc
  case pE2 k n o hpc ho => exact invC_setTail ha h (Or.inl hpc)
  case pB3 k n o hpc ho => exact invC_setTail ha h (Or.inr hpc)
  case pF1 k n h0 o hpc ho =>
    have hwr := h.wr t
    simp only [cview_vpc, hpc, CView, WriterP, FreshN, cview_order, cview_nN, cview_nodes, cview_lst] at hwr
    refine invC_of_view (invC_privNode (t := t) ha h (by simp [hpc, holdsW]) n hwr.1.1
      (upd s.nodes n { s.nodes n with next := some h0 }) (fun y hy => upd_other _ _ _ _ hy)
      (.pF2 k n h0) ⟨by intro b hb; rcases hb with ⟨_, _, hc, _⟩ | ⟨_, _, _, hc⟩ <;> simp [hpc, CView] at hc, by intro hb; rcases hb with ⟨_, _, hc⟩ | ⟨_, _, hc⟩ | ⟨_, _, _, hc⟩ <;> simp [hpc, CView] at hc, by simp [hpc, CView, marking]⟩ ?_) rfl
    intro c' h1 h2 h3 h4 h5
    simp only [CView, WriterP, FreshN, h1, h2, h3, h5, upd_same]
    exact ⟨⟨hwr.1.1, hwr.1.2.1, trivial, hwr.1.2.2.2.1, hwr.1.2.2.2.2⟩, hwr.2⟩
  case pB1 k n h0 o hpc ho =>
    have hwr := h.wr t
    simp only [cview_vpc, hpc, CView, WriterP, FreshN, cview_order, cview_nN, cview_nodes, cview_lst, cview_tail] at hwr
    refine invC_of_view (invC_privNode (t := t) ha h (by simp [hpc, holdsW]) n hwr.1.1
      (upd s.nodes n { s.nodes n with back := some h0 }) (fun y hy => upd_other _ _ _ _ hy)
      (.pB2 k n h0) ⟨by intro b hb; rcases hb with ⟨_, _, hc, _⟩ | ⟨_, _, _, hc⟩ <;> simp [hpc, CView] at hc, by intro hb; rcases hb with ⟨_, _, hc⟩ | ⟨_, _, hc⟩ | ⟨_, _, _, hc⟩ <;> simp [hpc, CView] at hc, by simp [hpc, CView, marking]⟩ ?_) rfl
    intro c' h1 h2 h3 h4 h5
    simp only [CView, WriterP, FreshN, h1, h2, h3, h4, h5, upd_same]
    exact ⟨⟨hwr.1.1, hwr.1.2.1, hwr.1.2.2.1, trivial, hwr.1.2.2.2.2⟩, hwr.2.1, hwr.2.2⟩
  case pF2 k n h0 o hpc ho => exact invC_pF2 ha h hpc
  case pF3 k n o hpc ho => exact invC_pF3 ha h hpc
  case pB2 k n h0 o hpc ho => exact invC_pB2 ha h hpc
  case eUnlPrev c orig pp x z o hpc ho =>
    exact invC_of_view (invC_eUnl (t := t) ha h hpc (upd s.nodes pp { s.nodes pp with next := x }) s.head ⟨rfl, rfl⟩) rfl
  case eUnlHead c orig x z o hpc ho =>
    exact invC_of_view (invC_eUnl (t := t) ha h hpc s.nodes x ⟨rfl, rfl⟩) rfl
  case eFixNext c orig p xx z o hpc ho =>
    exact invC_of_view (invC_eFix (t := t) ha h hpc (upd s.nodes xx { s.nodes xx with back := p }) s.tail ⟨rfl, rfl⟩) rfl
  case eFixTail c orig p z o hpc ho =>
    exact invC_of_view (invC_eFix (t := t) ha h hpc s.nodes p ⟨rfl, rfl⟩) rfl

theorem invC_step_cas {s s' : St} {t : Tid} {e : Ev} (ha : InvA s) (h : InvC s) (hs : Step s t e s') (he : e.kind = .cas) : InvC s' := by
  cases hs <;> cases he
  all_goals (try (frameC h; done))
  all_goals (try exact h)
  case casRegOk k r o hpc ho =>
    have hk : k.regOp = true := by have := ha.opk t; rw [hpc] at this; simpa [opOk] using this
    cases k <;> simp [Op.regOp] at hk <;> frameC h
  case casFail c r exp o hpc ho =>
    cases c <;> frameC h

theorem invC_step_plain {s s' : St} {t : Tid} {e : Ev} (ha : InvA s) (h : InvC s) (hs : Step s t e s') (he : e.kind = .plain) : InvC s' := by
  cases hs <;> cases he
  all_goals (try (frameC h; done))
  all_goals (try exact h)
  case eDelDeleted c orig hpc hv =>
    have hwr := h.wr t
    simp only [cview_vpc, hpc, CView, WriterP] at hwr
    refine invC_pc h _ ?_ ?_ ?_ ?_
    · intro _ b _ hb; rcases hb with ⟨_, _, hc, _⟩ | ⟨_, _, _, hc⟩ <;> simp [hpc, CView] at hc
    · intro _ hb; rcases hb with ⟨_, _, hc⟩ | ⟨_, _, hc⟩ | ⟨_, _, _, hc⟩ <;> simp [hpc, CView] at hc
    · intro _ x hx; simp [hpc, CView, marking] at hx
    · simp only [CView, WriterP]; exact hwr.2
  case eDelFresh c orig hpc hv =>
    have hw : holdsW (s.pc t) = true := by simp [hpc, holdsW]
    obtain ⟨f5, f7, f8, f9⟩ := invC_writer_facts ha h hw
    have hwr := h.wr t
    simp only [cview_vpc, hpc, CView, WriterP, cview_order] at hwr
    refine invC_pc h _ ?_ ?_ ?_ ?_
    · intro _ b _ hb; rcases hb with ⟨_, _, hc, _⟩ | ⟨_, _, _, hc⟩ <;> simp [hpc, CView] at hc
    · intro _ hb; rcases hb with ⟨_, _, hc⟩ | ⟨_, _, hc⟩ | ⟨_, _, _, hc⟩ <;> simp [hpc, CView] at hc
    · intro _ x hx; simp [hpc, CView, marking] at hx
    · simp only [CView, WriterP, cview_lst, cview_nodes]
      refine ⟨?_, hv, hwr.2⟩
      rcases f9 c hwr.1 with f | f
      · exact f.2 hv
      · simp [hpc, CView, marking] at f
  case eMark c orig z hpc => exact invC_eMark ha h hpc

theorem invC_step {s s' : St} {t : Tid} {e : Ev} (ha : InvA s) (h : InvC s) (hs : Step s t e s') : InvC s' := by
  cases hk : e.kind
  · exact invC_step_call ha h hs hk
  · exact invC_step_ret ha h hs hk
  · exact invC_step_exc ha h hs hk
  · exact invC_step_mlk ha h hs hk
  · exact invC_step_mul ha h hs hk
  · exact invC_step_alo ha h hs hk
  · exact invC_step_afl ha h hs hk
  · exact invC_step_con ha h hs hk
  · exact invC_step_des ha h hs hk
  · exact invC_step_fre ha h hs hk
  · exact invC_step_ald ha h hs hk
  · exact invC_step_ast ha h hs hk
  · exact invC_step_cas ha h hs hk
  · exact invC_step_plain ha h hs hk

end ConcVerif.Rcu
