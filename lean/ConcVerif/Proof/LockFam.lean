import ConcVerif.Model.LockFam
namespace ConcVerif.LockFam

/-! ## Global invariant: the mutex state and the per-thread `held` ghost agree -/

structure GInv (s : St) : Prop where
  exclHeld : ∀ t, s.excl = some t ↔ s.held t = .X
  sharedHeld : ∀ t, t ∈ s.shared ↔ s.held t = .S
  sharedNodup : s.shared.Nodup
  xorRW : s.excl ≠ none → s.shared = []
  capS : s.shared ≠ [] → s.capable = true

theorem ginv_init (en cap : Bool) : GInv (init en cap) := by
  constructor <;> simp [init]

theorem ginv_congr {s s' : St} (h : GInv s) (h1 : s'.excl = s.excl) (h2 : s'.shared = s.shared)
    (h3 : s'.held = s.held) (h4 : s'.capable = s.capable) : GInv s' := by
  obtain ⟨a, b, c, d, e⟩ := h
  constructor
  · intro t; rw [h1, h3]; exact a t
  · intro t; rw [h2, h3]; exact b t
  · rw [h2]; exact c
  · rw [h1, h2]; exact d
  · rw [h2, h4]; exact e

theorem ginv_acquire {s s1 : St} {t : Tid} {sd : Side} (h : GInv s) (ha : s.acquire t sd = some s1) : GInv s1 := by
  obtain ⟨a, b, c, d, e⟩ := h
  unfold St.acquire at ha
  split at ha
  · contradiction
  · rename_i hnone
    have hnone : s.held t = .none := by simpa using hnone
    cases sd with
    | X =>
      simp only at ha
      split at ha
      · rename_i hfree; obtain ⟨hx, hs⟩ := hfree
        injection ha with ha; subst ha
        constructor
        · intro u; simp only [upd_apply]
          by_cases hu : u = t
          · subst hu; simp
          · simp [hu]; constructor
            · intro h; exact absurd h.symm hu
            · intro h; have := (a u).2 h; simp [hx] at this
        · intro u; simp only [upd_apply]
          by_cases hu : u = t
          · subst hu; simp [hs]
          · simp [hu]; exact b u
        · exact c
        · intro _; exact hs
        · exact e
      · contradiction
    | S =>
      simp only at ha
      split at ha
      · rename_i hfree; obtain ⟨hx, hcap⟩ := hfree
        injection ha with ha; subst ha
        have htn : t ∉ s.shared := by intro hin; have := (b t).1 hin; simp [hnone] at this
        constructor
        · intro u; simp only [upd_apply]
          by_cases hu : u = t
          · subst hu; simp [hx]
          · simp [hu]; exact a u
        · intro u; simp only [upd_apply]
          by_cases hu : u = t
          · subst hu; simp
          · simp [hu]; exact b u
        · exact List.nodup_cons.2 ⟨htn, c⟩
        · intro hne; exact absurd hx hne
        · intro _; exact hcap
      · contradiction

theorem ginv_release {s s1 : St} {t : Tid} {sd : Side} (h : GInv s) (hr : s.release t sd = some s1) : GInv s1 := by
  obtain ⟨a, b, c, d, e⟩ := h
  unfold St.release at hr
  cases sd with
  | X =>
    simp only at hr
    split at hr
    · rename_i hh; obtain ⟨hx, hex⟩ := hh
      injection hr with hr; subst hr
      constructor
      · intro u; simp only [upd_apply]
        by_cases hu : u = t
        · subst hu; simp
        · simp [hu]; intro h; have := (a u).2 h; rw [hex] at this; injection this with this; exact hu this.symm
      · intro u; simp only [upd_apply]
        by_cases hu : u = t
        · subst hu; simp; intro hin; have := (b u).1 hin; simp [hx] at this
        · simp [hu]; exact b u
      · exact c
      · intro hne; exact absurd rfl hne
      · exact e
    · contradiction
  | S =>
    simp only at hr
    split at hr
    · rename_i hh; obtain ⟨hx, hin⟩ := hh
      injection hr with hr; subst hr
      constructor
      · intro u; simp only [upd_apply]
        by_cases hu : u = t
        · subst hu; simp; intro h; have := (a u).1 h; simp [hx] at this
        · simp [hu]; exact a u
      · intro u; simp only [upd_apply]
        by_cases hu : u = t
        · subst hu; simp; exact List.Nodup.not_mem_erase c
        · simp [hu]; exact b u
      · exact c.erase t
      · intro hne
        have := d hne; rw [this] at hin; simp at hin
      · intro hne; apply e; intro h0; rw [h0] at hne; simp at hne
    · contradiction

/-! ## Thread-local invariant -/

def slotsMode (l : Loc) : Mode := if l.ha.owns ≠ .none then l.ha.owns else l.hb.owns

/-- what the thread's local state says it holds on the mutex -/
def ownMode (l : Loc) : Mode :=
  match l.pc with
  | .whole _ m _ _ _ => m
  | .acqd _ m => m
  | _ => slotsMode l

/-- only a live, non-null, not moved-from handle owns a lock -/
def Handle.ok (h : Handle) : Prop :=
  h.owns ≠ .none → h.live = true ∧ h.nonnull = true ∧ h.husk = false

/-- (locking enabled) a live, non-null, not moved-from handle owns the lock -/
def Handle.keeps (h : Handle) : Prop :=
  h.live = true → h.nonnull = true → h.husk = false → h.owns ≠ .none

def Pc.inSession : Pc → Bool
  | .sess | .hop _ _ => true
  | _ => false

def HopK.wf (l : Loc) : HopK → Prop
  | .destroy i => (l.get i).live = true
  | .unlock i => (l.get i).live = true
  | .movec src dst => (l.get src).live = true ∧ (l.get dst).live = false ∧ src ≠ dst
  | .movea src dst => (l.get src).live = true ∧ (l.get dst).live = true ∧ src ≠ dst

structure TInv (en : Bool) (held : Mode) (acqs rels : Nat) (l : Loc) : Prop where
  link : held = ownMode l
  counts : acqs = rels + (if held = .none then 0 else 1)
  ha : l.ha.ok
  hb : l.hb.ok
  keeps : en = true → ∀ j, (∀ k p, l.pc = .hop k p → j ≠ k.relSlot) → (l.get j).keeps
  one : ¬ (l.ha.owns ≠ .none ∧ l.hb.owns ≠ .none)
  dead : l.pc.inSession = false → l.ha.live = false ∧ l.hb.live = false
  acqdOk : ∀ ok m, l.pc = .acqd ok m → (ok = true ↔ m ≠ .none)
  hopOk : ∀ k p, l.pc = .hop k p → k.wf l ∧ (p = true ↔ (l.get k.relSlot).owns ≠ .none)
  wholeM : ∀ w m a b c, l.pc = .whole w m a b c → m ≠ .none

structure Inv (s : St) : Prop where
  g : GInv s
  l : ∀ t, TInv s.enabled (s.held t) (s.acqs t) (s.rels t) (s.loc t)

theorem tinv_init (en : Bool) : TInv en .none 0 0 {} := by
  constructor <;> simp [ownMode, slotsMode, Handle.ok, Pc.inSession]
  intro _ j; cases j <;> simp [Loc.get, Handle.keeps]

theorem inv_init (en cap : Bool) : Inv (init en cap) :=
  ⟨ginv_init en cap, fun _ => tinv_init en⟩

/-- frame: a step of thread `t` that re-establishes the global invariant and `t`'s local one -/
theorem inv_frame {s s' : St} {t : Tid} (h : Inv s) (hg : GInv s') (he : s'.enabled = s.enabled)
    (hheld : ∀ u, u ≠ t → s'.held u = s.held u) (hacq : ∀ u, u ≠ t → s'.acqs u = s.acqs u)
    (hrel : ∀ u, u ≠ t → s'.rels u = s.rels u) (hloc : ∀ u, u ≠ t → s'.loc u = s.loc u)
    (ht : TInv s.enabled (s'.held t) (s'.acqs t) (s'.rels t) (s'.loc t)) : Inv s' := by
  refine ⟨hg, ?_⟩
  intro u
  rw [he]
  by_cases hu : u = t
  · subst hu; exact ht
  · rw [hheld u hu, hacq u hu, hrel u hu, hloc u hu]; exact h.l u

/-- a step that only changes `t`'s local state -/
theorem inv_setLoc {s : St} {t : Tid} {l' : Loc} (h : Inv s)
    (ht : TInv s.enabled (s.held t) (s.acqs t) (s.rels t) l') : Inv (s.setLoc t l') := by
  refine inv_frame (t := t) h (ginv_congr h.g rfl rfl rfl rfl) rfl (fun _ _ => rfl) (fun _ _ => rfl) (fun _ _ => rfl) ?_ ?_
  · intro u hu; simp [St.setLoc, upd, hu]
  · simpa [St.setLoc] using ht

theorem acquire_spec {s s1 : St} {t : Tid} {sd : Side} (ha : s.acquire t sd = some s1) :
    s.held t = .none ∧ s1.held = upd s.held t sd.mode ∧ s1.acqs = upd s.acqs t (s.acqs t + 1) ∧
    s1.rels = s.rels ∧ s1.loc = s.loc ∧ s1.enabled = s.enabled ∧ s1.capable = s.capable ∧ s1.val = s.val ∧
    s1.committed = s.committed ∧ s1.hist = s.hist := by
  unfold St.acquire at ha
  split at ha
  · contradiction
  · rename_i hn
    have hn : s.held t = .none := by simpa using hn
    cases sd <;> simp only at ha <;> split at ha <;> first | contradiction | (injection ha with ha; subst ha; simp [hn, Side.mode])

theorem release_spec {s s1 : St} {t : Tid} {sd : Side} (hr : s.release t sd = some s1) :
    s.held t = sd.mode ∧ s1.held = upd s.held t .none ∧ s1.rels = upd s.rels t (s.rels t + 1) ∧
    s1.acqs = s.acqs ∧ s1.loc = s.loc ∧ s1.enabled = s.enabled ∧ s1.capable = s.capable ∧ s1.val = s.val ∧
    s1.committed = s.committed ∧ s1.hist = s.hist := by
  unfold St.release at hr
  cases sd <;> simp only at hr <;> split at hr <;> first | contradiction | (rename_i hh; injection hr with hr; subst hr; simp [hh.1, Side.mode])

/-- a step that changes only data fields (value, committed, history) -/
theorem inv_data {s s' : St} (h : Inv s) (h1 : s'.excl = s.excl) (h2 : s'.shared = s.shared)
    (h3 : s'.held = s.held) (h4 : s'.capable = s.capable) (h5 : s'.enabled = s.enabled)
    (h6 : s'.acqs = s.acqs) (h7 : s'.rels = s.rels) (h8 : s'.loc = s.loc) : Inv s' := by
  refine ⟨ginv_congr h.g h1 h2 h3 h4, ?_⟩
  intro u; rw [h5, h3, h6, h7, h8]; exact h.l u

@[simp] theorem setLoc_loc (s : St) (t : Tid) (l : Loc) : (s.setLoc t l).loc = upd s.loc t l := rfl
@[simp] theorem setLoc_held (s : St) (t : Tid) (l : Loc) : (s.setLoc t l).held = s.held := rfl
@[simp] theorem setLoc_acqs (s : St) (t : Tid) (l : Loc) : (s.setLoc t l).acqs = s.acqs := rfl
@[simp] theorem setLoc_rels (s : St) (t : Tid) (l : Loc) : (s.setLoc t l).rels = s.rels := rfl
@[simp] theorem setLoc_excl (s : St) (t : Tid) (l : Loc) : (s.setLoc t l).excl = s.excl := rfl
@[simp] theorem setLoc_shared (s : St) (t : Tid) (l : Loc) : (s.setLoc t l).shared = s.shared := rfl
@[simp] theorem setLoc_enabled (s : St) (t : Tid) (l : Loc) : (s.setLoc t l).enabled = s.enabled := rfl
@[simp] theorem setLoc_capable (s : St) (t : Tid) (l : Loc) : (s.setLoc t l).capable = s.capable := rfl
@[simp] theorem setLoc_val (s : St) (t : Tid) (l : Loc) : (s.setLoc t l).val = s.val := rfl
@[simp] theorem setLoc_committed (s : St) (t : Tid) (l : Loc) : (s.setLoc t l).committed = s.committed := rfl
@[simp] theorem setLoc_hist (s : St) (t : Tid) (l : Loc) : (s.setLoc t l).hist = s.hist := rfl
theorem setPc_eq (s : St) (t : Tid) (p : Pc) : s.setPc t p = s.setLoc t { s.loc t with pc := p } := rfl

/-- general pc-only change of the acting thread -/
theorem tinv_setPc {en : Bool} {hd : Mode} {a r : Nat} {l : Loc} {p' : Pc} (h : TInv en hd a r l)
    (hown : ownMode { l with pc := p' } = ownMode l)
    (hdead : p'.inSession = false → l.ha.live = false ∧ l.hb.live = false)
    (hacqd : ∀ ok m, p' = .acqd ok m → (ok = true ↔ m ≠ .none))
    (hhop : ∀ k p, p' = .hop k p → k.wf l ∧ (p = true ↔ (l.get k.relSlot).owns ≠ .none))
    (hwhole : ∀ w m x y z, p' = .whole w m x y z → m ≠ .none)
    (hkeeps : en = true → ∀ j, (∀ k p, p' = .hop k p → j ≠ k.relSlot) → (l.get j).keeps) :
    TInv en hd a r { l with pc := p' } := by
  obtain ⟨h1, h2, h3, h4, hk, h5, h6, h7, h8, h9⟩ := h
  refine ⟨by rw [hown]; exact h1, h2, h3, h4, ?_, h5, hdead, hacqd, ?_, hwhole⟩
  · intro he j hj; exact hkeeps he j hj
  intro k p hk
  have := hhop k p hk
  refine ⟨?_, this.2⟩
  cases k <;> exact this.1

/-- outside a session both slots are dead, hence own nothing -/
theorem TInv.slots_none {en : Bool} {hd : Mode} {a r : Nat} {l : Loc} (h : TInv en hd a r l)
    (hp : l.pc.inSession = false) : l.ha.owns = .none ∧ l.hb.owns = .none := by
  have hd' := h.dead hp
  constructor
  · apply Classical.byContradiction; intro hne
    have := (h.ha hne).1; simp [hd'.1] at this
  · apply Classical.byContradiction; intro hne
    have := (h.hb hne).1; simp [hd'.2] at this

@[simp] theorem slotsMode_setPc (l : Loc) (p : Pc) : slotsMode { l with pc := p } = slotsMode l := rfl

/-- pcs outside sessions and outside brackets: the thread holds nothing and has no live handle -/
def Pc.plain : Pc → Bool
  | .idle | .sessCalled | .acq _ _ | .wCalled _ | .wDone _ | .wExc => true
  | _ => false

theorem tinv_plain {en : Bool} {hd : Mode} {a r : Nat} {l : Loc} {p' : Pc} (h : TInv en hd a r l)
    (hp : l.pc.plain = true) (hp' : p'.plain = true) : TInv en hd a r { l with pc := p' } := by
  have hns : l.pc.inSession = false := by cases hpc : l.pc <;> simp [hpc, Pc.plain] at hp <;> rfl
  refine tinv_setPc h ?_ (fun _ => h.dead hns) ?_ ?_ ?_ ?_
  · cases hpc : l.pc <;> simp [hpc, Pc.plain] at hp <;> cases p' <;> simp [Pc.plain] at hp' <;> simp [ownMode, hpc]
  · intro ok m hk; subst hk; simp [Pc.plain] at hp'
  · intro k p hk; subst hk; simp [Pc.plain] at hp'
  · intro w m x y z hk; subst hk; simp [Pc.plain] at hp'
  · intro he j _; apply h.keeps he j
    intro k p hk; rw [hk] at hp; simp [Pc.plain] at hp

/-- at a plain pc the thread holds nothing -/
theorem TInv.plain_none {en : Bool} {hd : Mode} {a r : Nat} {l : Loc} (h : TInv en hd a r l)
    (hp : l.pc.plain = true) : hd = .none := by
  have hns : l.pc.inSession = false := by cases hpc : l.pc <;> simp [hpc, Pc.plain] at hp <;> rfl
  have := h.slots_none hns
  rw [h.link]
  cases hpc : l.pc <;> simp [hpc, Pc.plain] at hp <;> simp [ownMode, hpc, slotsMode, this.1, this.2]

theorem Side.mode_ne_none (sd : Side) : sd.mode ≠ .none := by cases sd <;> simp [Side.mode]

/-- a successful acquisition from a plain pc, moving to `acqd true _` or into a whole-object bracket -/
theorem inv_acquire {s s1 : St} {t : Tid} {sd : Side} {p' : Pc} (h : Inv s) (hacq : s.acquire t sd = some s1)
    (hplain : (s.loc t).pc.plain = true)
    (hp' : p' = .acqd true sd.mode ∨ ∃ w, p' = .whole w sd.mode none none false) : Inv (s1.setPc t p') := by
  obtain ⟨hn, hheld, hacqs, hrels, hloc, hen, hcap, _⟩ := acquire_spec hacq
  have hl := h.l t
  have hns : (s.loc t).pc.inSession = false := by
    cases hpc : (s.loc t).pc <;> simp [hpc, Pc.plain] at hplain <;> rfl
  have hsl := hl.slots_none hns
  rw [setPc_eq]
  refine inv_frame (t := t) h (ginv_congr (ginv_acquire h.g hacq) rfl rfl rfl rfl) (by simp [hen]) ?_ ?_ ?_ ?_ ?_
  · intro u hu; simp [hheld, upd, hu]
  · intro u hu; simp [hacqs, upd, hu]
  · intro u hu; simp [hrels]
  · intro u hu; simp [hloc, upd, hu]
  · simp only [setLoc_held, setLoc_acqs, setLoc_rels, setLoc_loc, hheld, hacqs, hrels, hloc, upd_same]
    obtain ⟨h1, h2, h3, h4, hkp, h5, h6, h7, h8, h9⟩ := hl
    have hc : s.acqs t = s.rels t := by rw [h2, hn]; simp
    refine ⟨?_, ?_, h3, h4, ?_, h5, fun _ => h6 hns, ?_, ?_, ?_⟩
    · rcases hp' with hp | ⟨w, hp⟩ <;> subst hp <;> simp [ownMode]
    · simp [Side.mode_ne_none, hc]
    · intro he j _; apply hkp he j
      intro k p hk; rw [hk] at hplain; simp [Pc.plain] at hplain
    · intro ok m hk
      rcases hp' with hp | ⟨w, hp⟩
      · rw [hp] at hk; injection hk with e1 e2; subst e1; subst e2; simp [Side.mode_ne_none]
      · rw [hp] at hk; cases hk
    · intro k p hk
      rcases hp' with hp | ⟨w, hp⟩ <;> rw [hp] at hk <;> cases hk
    · intro w m x y z hk
      rcases hp' with hp | ⟨w', hp⟩
      · rw [hp] at hk; cases hk
      · rw [hp] at hk; injection hk with _ e2; subst e2; exact Side.mode_ne_none sd

/-- a release: the caller supplies the thread's new local state, which must own nothing -/
theorem inv_release {s s1 : St} {t : Tid} {sd : Side} {l' : Loc} (h : Inv s) (hr : s.release t sd = some s1)
    (ht : TInv s.enabled .none (s.acqs t) (s.rels t + 1) l') : Inv (s1.setLoc t l') := by
  obtain ⟨hm, hheld, hrels, hacqs, hloc, hen, hcap, _⟩ := release_spec hr
  refine inv_frame (t := t) h (ginv_congr (ginv_release h.g hr) rfl rfl rfl rfl) (by simp [hen]) ?_ ?_ ?_ ?_ ?_
  · intro u hu; simp [hheld, upd, hu]
  · intro u hu; simp [hacqs]
  · intro u hu; simp [hrels, upd, hu]
  · intro u hu; simp [hloc, upd, hu]
  · simpa [hheld, hacqs, hrels] using ht

@[simp] theorem get_setPc (l : Loc) (p : Pc) (i : Slot) : ({ l with pc := p } : Loc).get i = l.get i := by
  cases i <;> rfl
@[simp] theorem set_pc (l : Loc) (i : Slot) (h : Handle) : (l.set i h).pc = l.pc := by cases i <;> rfl
theorem get_set (l : Loc) (i j : Slot) (h : Handle) : (l.set i h).get j = if j = i then h else l.get j := by
  cases i <;> cases j <;> simp [Loc.get, Loc.set]
theorem ha_eq (l : Loc) : l.ha = l.get .a := rfl
theorem hb_eq (l : Loc) : l.hb = l.get .b := rfl

/-- entering a handle operation -/
theorem tinv_hbegin {en : Bool} {hd : Mode} {a r : Nat} {l : Loc} {k : HopK} (h : TInv en hd a r l)
    (hpc : l.pc = .sess) (hwf : k.wf l) :
    TInv en hd a r { l with pc := .hop k (decide ((l.get k.relSlot).owns ≠ .none)) } := by
  refine tinv_setPc h ?_ ?_ ?_ ?_ ?_ ?_
  · simp [ownMode, hpc]
  · intro hk; simp [Pc.inSession] at hk
  · intro ok m hk; cases hk
  · intro k' p hk; injection hk with e1 e2; subst e1; subst e2; exact ⟨hwf, by simp⟩
  · intro w m x y z hk; cases hk
  · intro he j _; apply h.keeps he j
    intro k' p hk; rw [hk] at hpc; cases hpc

theorem slot_ok {en : Bool} {hd : Mode} {a r : Nat} {l : Loc} (h : TInv en hd a r l) (i : Slot) : (l.get i).ok := by
  cases i
  · exact h.ha
  · exact h.hb

theorem modeSide_some {m : Mode} {sd : Side} (h : modeSide m = some sd) : m = sd.mode := by
  cases m <;> cases sd <;> simp [modeSide, Side.mode] at h ⊢

theorem wf_congr {l l' : Loc} {k : HopK} (hlive : ∀ j, (l'.get j).live = (l.get j).live) (h : k.wf l) : k.wf l' := by
  cases k <;> simp only [HopK.wf] at h ⊢ <;> simp only [hlive] <;> exact h

/-- the release inside a handle operation -/
theorem tinv_hop_rel {en : Bool} {hd : Mode} {a r : Nat} {l : Loc} {k : HopK} (h : TInv en hd a r l)
    (hpc : l.pc = .hop k true) :
    TInv en .none a (r + 1)
      (({ l with pc := .hop k false } : Loc).set k.relSlot { l.get k.relSlot with owns := .none }) := by
  obtain ⟨h1, h2, h3, h4, hkp, h5, h6, h7, h8, h9⟩ := h
  obtain ⟨hwf, hp⟩ := h8 k true hpc
  have hown : (l.get k.relSlot).owns ≠ .none := hp.1 rfl
  have hhd : hd ≠ .none := by
    rw [h1]; simp only [ownMode, hpc, slotsMode]
    cases hi : k.relSlot <;> rw [hi] at hown <;> simp only [Loc.get] at hown
    · simp [hown]
    · have : l.ha.owns = .none := by
        apply Classical.byContradiction; intro hne; exact h5 ⟨hne, hown⟩
      simp [this, hown]
  have hcnt : a = r + 1 := by rw [h2]; simp [hhd]
  cases hi : k.relSlot <;> rw [hi] at hown <;> simp only [Loc.get] at hown
  · have hbn : l.hb.owns = .none := by
      apply Classical.byContradiction; intro hne; exact h5 ⟨hown, hne⟩
    refine ⟨?_, ?_, ?_, ?_, ?_, ?_, ?_, ?_, ?_, ?_⟩
    · simp [Loc.set, Loc.get, ownMode, slotsMode, hbn]
    · simp [hcnt]
    · simp [Loc.set, Loc.get, Handle.ok]
    · simpa [Loc.set, Loc.get] using h4
    · intro he j hj
      have hjne : j ≠ k.relSlot := hj k false (by simp [Loc.set])
      have := hkp he j (by intro k' p' hk'; rw [hpc] at hk'; injection hk' with e1 _; subst e1; exact hjne)
      rw [hi] at hjne
      cases j <;> simp_all [Loc.set, Loc.get]
    · simp [Loc.set, Loc.get]
    · intro hk; simp [Loc.set, Pc.inSession] at hk
    · intro ok m hk; simp [Loc.set] at hk
    · intro k' p hk
      simp only [Loc.set] at hk; injection hk with e1 e2; subst e1; subst e2
      refine ⟨?_, by simp [hi, Loc.set, Loc.get]⟩
      exact wf_congr (by intro j; cases j <;> simp [Loc.set, Loc.get]) hwf
    · intro w m x y z hk; simp [Loc.set] at hk
  · have han : l.ha.owns = .none := by
      apply Classical.byContradiction; intro hne; exact h5 ⟨hne, hown⟩
    refine ⟨?_, ?_, ?_, ?_, ?_, ?_, ?_, ?_, ?_, ?_⟩
    · simp [Loc.set, Loc.get, ownMode, slotsMode, han]
    · simp [hcnt]
    · simpa [Loc.set, Loc.get] using h3
    · simp [Loc.set, Loc.get, Handle.ok]
    · intro he j hj
      have hjne : j ≠ k.relSlot := hj k false (by simp [Loc.set])
      have := hkp he j (by intro k' p' hk'; rw [hpc] at hk'; injection hk' with e1 _; subst e1; exact hjne)
      rw [hi] at hjne
      cases j <;> simp_all [Loc.set, Loc.get]
    · simp [Loc.set, Loc.get]
    · intro hk; simp [Loc.set, Pc.inSession] at hk
    · intro ok m hk; simp [Loc.set] at hk
    · intro k' p hk
      simp only [Loc.set] at hk; injection hk with e1 e2; subst e1; subst e2
      refine ⟨?_, by simp [hi, Loc.set, Loc.get]⟩
      exact wf_congr (by intro j; cases j <;> simp [Loc.set, Loc.get]) hwf
    · intro w m x y z hk; simp [Loc.set] at hk

/-- facts available at the end of a handle operation -/
theorem TInv.hop_false {en : Bool} {hd : Mode} {a r : Nat} {l : Loc} {k : HopK} (h : TInv en hd a r l)
    (hpc : l.pc = .hop k false) : k.wf l ∧ (l.get k.relSlot).owns = .none ∧ hd = slotsMode l ∧
      (en = true → ∀ j, j ≠ k.relSlot → (l.get j).keeps) := by
  obtain ⟨hwf, hp⟩ := h.hopOk k false hpc
  refine ⟨hwf, ?_, ?_, ?_⟩
  · apply Classical.byContradiction; intro hne; have := hp.2 hne; cases this
  · rw [h.link]; simp [ownMode, hpc]
  · intro he j hj; apply h.keeps he j
    intro k' p' hk'; rw [hpc] at hk'; injection hk' with e1 _; subst e1; exact hj

theorem keeps_of_not_live {h : Handle} (hl : h.live = false) : h.keeps := by
  intro x; rw [hl] at x; cases x

theorem tinv_hend_destroy {en : Bool} {hd : Mode} {a r : Nat} {l : Loc} {i : Slot} (h : TInv en hd a r l)
    (hpc : l.pc = .hop (.destroy i) false) : TInv en hd a r (({ l with pc := .sess } : Loc).set i {}) := by
  obtain ⟨hwf, hown, hlink, hkeep⟩ := h.hop_false hpc
  obtain ⟨h1, h2, h3, h4, hkp, h5, h6, h7, h8, h9⟩ := h
  simp only [HopK.relSlot] at hown hkeep
  cases i <;> simp only [Loc.get] at hown
  · refine ⟨?_, h2, ?_, h4, ?_, ?_, ?_, ?_, ?_, ?_⟩
    · rw [hlink]; simp only [Loc.set, Loc.get, ownMode, slotsMode]; by_cases hx : l.ha.owns = .none <;> by_cases hy : l.hb.owns = .none <;> simp_all
    · simp [Loc.set, Handle.ok]
    · intro he j _
      cases j
      · exact keeps_of_not_live rfl
      · exact hkeep he .b (by simp)
    · intro ⟨x, _⟩; simp [Loc.set] at x
    · intro hk; simp [Loc.set, Pc.inSession] at hk
    · intro ok m hk; simp [Loc.set] at hk
    · intro k' p hk; simp [Loc.set] at hk
    · intro w m x y z hk; simp [Loc.set] at hk
  · refine ⟨?_, h2, h3, ?_, ?_, ?_, ?_, ?_, ?_, ?_⟩
    · rw [hlink]; simp only [Loc.set, Loc.get, ownMode, slotsMode]; by_cases hx : l.ha.owns = .none <;> by_cases hy : l.hb.owns = .none <;> simp_all
    · simp [Loc.set, Handle.ok]
    · intro he j _
      cases j
      · exact hkeep he .a (by simp)
      · exact keeps_of_not_live rfl
    · intro ⟨_, y⟩; simp [Loc.set] at y
    · intro hk; simp [Loc.set, Pc.inSession] at hk
    · intro ok m hk; simp [Loc.set] at hk
    · intro k' p hk; simp [Loc.set] at hk
    · intro w m x y z hk; simp [Loc.set] at hk

theorem tinv_hend_unlock {en : Bool} {hd : Mode} {a r : Nat} {l : Loc} {i : Slot} (h : TInv en hd a r l)
    (hpc : l.pc = .hop (.unlock i) false) :
    TInv en hd a r (({ l with pc := .sess } : Loc).set i { l.get i with owns := .none, nonnull := false }) := by
  obtain ⟨hwf, hown, hlink, hkeep⟩ := h.hop_false hpc
  obtain ⟨h1, h2, h3, h4, hkp, h5, h6, h7, h8, h9⟩ := h
  simp only [HopK.relSlot] at hown hkeep
  cases i <;> simp only [Loc.get] at hown
  · refine ⟨?_, h2, ?_, h4, ?_, ?_, ?_, ?_, ?_, ?_⟩
    · rw [hlink]; simp only [Loc.set, Loc.get, ownMode, slotsMode]; by_cases hx : l.ha.owns = .none <;> by_cases hy : l.hb.owns = .none <;> simp_all
    · simp [Loc.set, Handle.ok]
    · intro he j _
      cases j
      · intro _ x; simp [Loc.set, Loc.get] at x
      · exact hkeep he .b (by simp)
    · intro ⟨x, _⟩; simp [Loc.set] at x
    · intro hk; simp [Loc.set, Pc.inSession] at hk
    · intro ok m hk; simp [Loc.set] at hk
    · intro k' p hk; simp [Loc.set] at hk
    · intro w m x y z hk; simp [Loc.set] at hk
  · refine ⟨?_, h2, h3, ?_, ?_, ?_, ?_, ?_, ?_, ?_⟩
    · rw [hlink]; simp only [Loc.set, Loc.get, ownMode, slotsMode]; by_cases hx : l.ha.owns = .none <;> by_cases hy : l.hb.owns = .none <;> simp_all
    · simp [Loc.set, Handle.ok]
    · intro he j _
      cases j
      · exact hkeep he .a (by simp)
      · intro _ x; simp [Loc.set, Loc.get] at x
    · intro ⟨_, y⟩; simp [Loc.set] at y
    · intro hk; simp [Loc.set, Pc.inSession] at hk
    · intro ok m hk; simp [Loc.set] at hk
    · intro k' p hk; simp [Loc.set] at hk
    · intro w m x y z hk; simp [Loc.set] at hk

/-- end of a move (construct or assign): the destination takes over, the source becomes a husk -/
theorem tinv_hend_move {en : Bool} {hd : Mode} {a r : Nat} {l : Loc} {k : HopK} {src dst : Slot} (h : TInv en hd a r l)
    (hpc : l.pc = .hop k false) (hk : k = .movec src dst ∨ k = .movea src dst) :
    TInv en hd a r
      ((({ l with pc := .sess } : Loc).set dst (l.get src)).set src { l.get src with owns := .none, husk := true }) := by
  obtain ⟨hwf, hown, hlink, hkeep⟩ := h.hop_false hpc
  have hne : src ≠ dst := by rcases hk with hk | hk <;> subst hk <;> exact hwf.2.2
  have hrs : k.relSlot = dst := by rcases hk with hk | hk <;> subst hk <;> rfl
  rw [hrs] at hown hkeep
  obtain ⟨h1, h2, h3, h4, hkp, h5, h6, h7, h8, h9⟩ := h
  cases src <;> cases dst <;> simp only [Loc.get] at hown <;> first | exact absurd rfl hne | skip
  · -- a → b
    refine ⟨?_, h2, ?_, ?_, ?_, ?_, ?_, ?_, ?_, ?_⟩
    · rw [hlink]; simp only [Loc.set, Loc.get, ownMode, slotsMode]; by_cases hx : l.ha.owns = .none <;> by_cases hy : l.hb.owns = .none <;> simp_all
    · simp [Loc.set, Loc.get, Handle.ok]
    · simpa [Loc.set, Loc.get] using h3
    · intro he j _
      cases j
      · intro _ _ x; simp [Loc.set, Loc.get] at x
      · exact hkeep he .a (by simp)
    · intro ⟨x, _⟩; simp [Loc.set, Loc.get] at x
    · intro hk; simp [Loc.set, Pc.inSession] at hk
    · intro ok m hk; simp [Loc.set] at hk
    · intro k' p hk; simp [Loc.set] at hk
    · intro w m x y z hk; simp [Loc.set] at hk
  · -- b → a
    refine ⟨?_, h2, ?_, ?_, ?_, ?_, ?_, ?_, ?_, ?_⟩
    · rw [hlink]; simp only [Loc.set, Loc.get, ownMode, slotsMode]; by_cases hx : l.ha.owns = .none <;> by_cases hy : l.hb.owns = .none <;> simp_all
    · simpa [Loc.set, Loc.get] using h4
    · simp [Loc.set, Loc.get, Handle.ok]
    · intro he j _
      cases j
      · exact hkeep he .b (by simp)
      · intro _ _ x; simp [Loc.set, Loc.get] at x
    · intro ⟨_, y⟩; simp [Loc.set, Loc.get] at y
    · intro hk; simp [Loc.set, Pc.inSession] at hk
    · intro ok m hk; simp [Loc.set] at hk
    · intro k' p hk; simp [Loc.set] at hk
    · intro w m x y z hk; simp [Loc.set] at hk

/-- pc change inside a whole-object bracket (same mode) -/
theorem tinv_whole_setPc {en : Bool} {hd : Mode} {a r : Nat} {l : Loc} {w w' : WOp} {m : Mode} {x y x' y' : Option Int}
    {z z' : Bool} (h : TInv en hd a r l) (hpc : l.pc = .whole w m x y z) :
    TInv en hd a r { l with pc := .whole w' m x' y' z' } := by
  have hns : l.pc.inSession = false := by simp [hpc, Pc.inSession]
  refine tinv_setPc h ?_ (fun _ => h.dead hns) ?_ ?_ ?_ ?_
  · simp [ownMode, hpc]
  · intro ok m hk; cases hk
  · intro k p hk; cases hk
  · intro w0 m0 x0 y0 z0 hk; injection hk with _ e2; subst e2; exact h.wholeM w m x y z hpc
  · intro he j _; apply h.keeps he j
    intro k p hk; rw [hk] at hpc; cases hpc

/-- leaving a whole-object bracket to a plain pc -/
theorem tinv_whole_rel {en : Bool} {hd : Mode} {a r : Nat} {l : Loc} {w : WOp} {m : Mode} {x y : Option Int}
    {z : Bool} {p' : Pc} (h : TInv en hd a r l) (hpc : l.pc = .whole w m x y z) (hp' : p'.plain = true) :
    TInv en .none a (r + 1) { l with pc := p' } := by
  have hns : l.pc.inSession = false := by simp [hpc, Pc.inSession]
  have hsl := h.slots_none hns
  obtain ⟨h1, h2, h3, h4, hkp, h5, h6, h7, h8, h9⟩ := h
  have hm := h9 w m x y z hpc
  have hhd : hd ≠ .none := by rw [h1]; simpa [ownMode, hpc] using hm
  refine ⟨?_, ?_, h3, h4, ?_, h5, fun _ => h6 hns, ?_, ?_, ?_⟩
  · cases p' <;> simp [Pc.plain] at hp' <;> simp [ownMode, slotsMode, hsl.1, hsl.2]
  · rw [h2]; simp [hhd]
  · intro he j _; apply hkp he j
    intro k p hk; rw [hk] at hpc; cases hpc
  · intro ok m hk; simp only at hk; subst hk; simp [Pc.plain] at hp'
  · intro k p hk; simp only at hk; subst hk; simp [Pc.plain] at hp'
  · intro w m x y z hk; simp only at hk; subst hk; simp [Pc.plain] at hp'

theorem inv_step (s : St) (t : Tid) (e : Ev) (s' : St) (h : Inv s) (hs : step s t e = some s') : Inv s' := by
  have hl := h.l t
  unfold step at hs
  simp only at hs
  split at hs
  · -- idle, callSess
    rename_i hpc
    injection hs with hs; subst hs
    rw [setPc_eq]
    exact inv_setLoc h (tinv_plain hl (by simp [hpc, Pc.plain]) (by simp [Pc.plain]))
  · -- sessCalled, acq
    rename_i hpc
    injection hs with hs; subst hs
    rw [setPc_eq]
    exact inv_setLoc h (tinv_plain hl (by simp [hpc, Pc.plain]) (by simp [Pc.plain]))
  · -- acq, lock event
    rename_i sd how sd' how' ok hpc
    split at hs
    · rename_i hc
      split at hs
      · -- success
        cases hacq : s.acquire t sd' with
        | none => simp [hacq] at hs
        | some s1 =>
          simp [hacq] at hs; subst hs
          exact inv_acquire h hacq (by simp [hpc, Pc.plain]) (Or.inl rfl)
      · split at hs
        · contradiction
        · -- failed try / timed attempt: nothing acquired
          injection hs with hs; subst hs
          rw [setPc_eq]
          have hns : (s.loc t).pc.inSession = false := by simp [hpc, Pc.inSession]
          have hsl := hl.slots_none hns
          refine inv_setLoc h (tinv_setPc hl ?_ (fun _ => hl.dead hns) ?_ ?_ ?_ ?_)
          · simp [ownMode, hpc, slotsMode, hsl.1, hsl.2]
          · intro ok m hk; injection hk with e1 e2; subst e1; subst e2; simp
          · intro k p hk; cases hk
          · intro w m x y z hk; cases hk
          · intro he j _; apply hl.keeps he j
            intro k p hk; rw [hk] at hpc; cases hpc
    · contradiction
  · -- acq, got (locking disabled)
    rename_i sd how i nn hpc
    split at hs
    · rename_i hc; obtain ⟨hen, hi, hnn, hlive⟩ := hc
      injection hs with hs; subst hs
      have hns : (s.loc t).pc.inSession = false := by simp [hpc, Pc.inSession]
      have hsl := hl.slots_none hns
      have hd := hl.dead hns
      have hnone := hl.plain_none (by simp [hpc, Pc.plain])
      obtain ⟨h1, h2, h3, h4, hkp, h5, h6, h7, h8, h9⟩ := hl
      refine inv_setLoc h ⟨?_, h2, ?_, h4, ?_, ?_, ?_, ?_, ?_, ?_⟩
      · simp [ownMode, slotsMode, hsl.2, hnone]
      · simp [Handle.ok]
      · intro he; simp [hen] at he
      · simp
      · simp [Pc.inSession]
      · intro ok m hk; cases hk
      · intro k p hk; cases hk
      · intro w m x y z hk; cases hk
    · contradiction
  · -- acqd, got
    rename_i ok m i nn hpc
    split at hs
    · rename_i hc; obtain ⟨hi, hnn, hlive⟩ := hc
      injection hs with hs; subst hs
      have hns : (s.loc t).pc.inSession = false := by simp [hpc, Pc.inSession]
      have hsl := hl.slots_none hns
      have hd := hl.dead hns
      obtain ⟨h1, h2, h3, h4, hkp, h5, h6, h7, h8, h9⟩ := hl
      have hok := h7 ok m hpc
      refine inv_setLoc h ⟨?_, h2, ?_, h4, ?_, ?_, ?_, ?_, ?_, ?_⟩
      · rw [h1]; simp [ownMode, hpc, slotsMode, hsl.2]
      · subst hnn; simp only [Handle.ok]
        intro hm; exact ⟨trivial, hok.2 hm, trivial⟩
      · intro _ j _
        subst hnn
        cases j
        · simp only [Loc.get, Handle.keeps]; intro _ hn _; exact hok.1 hn
        · simp [Loc.get, Handle.keeps, hd.2]
      · simp [hsl.2]
      · simp [Pc.inSession]
      · intro ok m hk; cases hk
      · intro k p hk; cases hk
      · intro w m x y z hk; cases hk
    · contradiction
  · -- sess, rd
    split at hs
    · split at hs
      · injection hs with hs; subst hs; exact h
      · contradiction
    · injection hs with hs; subst hs; exact h
  · -- sess, wr
    split at hs
    · split at hs
      · injection hs with hs; subst hs; exact inv_data h rfl rfl rfl rfl rfl rfl rfl rfl
      · contradiction
    · injection hs with hs; subst hs; exact inv_data h rfl rfl rfl rfl rfl rfl rfl rfl
  · -- sess, hbegin
    rename_i k hpc
    split at hs
    · rename_i i
      split at hs
      · rename_i hlive; injection hs with hs; subst hs; rw [setPc_eq]
        have := tinv_hbegin (k := .destroy i) hl hpc (by simpa [HopK.wf] using hlive)
        exact inv_setLoc h this
      · contradiction
    · rename_i i
      split at hs
      · rename_i hlive; injection hs with hs; subst hs; rw [setPc_eq]
        have := tinv_hbegin (k := .unlock i) hl hpc (by simpa [HopK.wf] using hlive)
        exact inv_setLoc h this
      · contradiction
    · rename_i src dst
      split at hs
      · rename_i hc; injection hs with hs; subst hs; rw [setPc_eq]
        have hdn : ((s.loc t).get dst).owns = .none := by
          apply Classical.byContradiction; intro hne
          have hok : ((s.loc t).get dst).ok := by cases dst <;> first | exact hl.ha | exact hl.hb
          have := (hok hne).1; simp [hc.2.1] at this
        have := tinv_hbegin (k := .movec src dst) hl hpc (by simpa [HopK.wf] using hc)
        simp only [HopK.relSlot, hdn] at this
        exact inv_setLoc h this
      · contradiction
    · rename_i src dst
      split at hs
      · rename_i hc; injection hs with hs; subst hs; rw [setPc_eq]
        have := tinv_hbegin (k := .movea src dst) hl hpc (by simpa [HopK.wf] using hc)
        exact inv_setLoc h this
      · contradiction
  · -- hop k true, rel
    rename_i k sd hpc
    split at hs
    · rename_i hms
      cases hr : s.release t sd with
      | none => simp [hr] at hs
      | some s1 =>
        simp [hr] at hs; subst hs
        exact inv_release h hr (tinv_hop_rel hl hpc)
    · contradiction
  · -- hop k false, hend
    rename_i k r hpc
    split at hs
    · rename_i i
      split at hs
      · injection hs with hs; subst hs; exact inv_setLoc h (tinv_hend_destroy hl hpc)
      · contradiction
    · rename_i i
      split at hs
      · injection hs with hs; subst hs; exact inv_setLoc h (tinv_hend_unlock hl hpc)
      · contradiction
    · rename_i src dst
      split at hs
      · injection hs with hs; subst hs; exact inv_setLoc h (tinv_hend_move hl hpc (Or.inl rfl))
      · contradiction
    · rename_i src dst
      split at hs
      · injection hs with hs; subst hs; exact inv_setLoc h (tinv_hend_move hl hpc (Or.inr rfl))
      · contradiction
  · -- sess, retSess
    rename_i hpc
    split at hs
    · rename_i hdead
      injection hs with hs; subst hs; rw [setPc_eq]
      have hsl : (s.loc t).ha.owns = .none ∧ (s.loc t).hb.owns = .none := by
        constructor
        · apply Classical.byContradiction; intro hne; have := (hl.ha hne).1; simp [hdead.1] at this
        · apply Classical.byContradiction; intro hne; have := (hl.hb hne).1; simp [hdead.2] at this
      refine inv_setLoc h (tinv_setPc hl ?_ (fun _ => hdead) ?_ ?_ ?_ ?_)
      · simp [ownMode, hpc]
      · intro ok m hk; cases hk
      · intro k p hk; cases hk
      · intro w m x y z hk; cases hk
      · intro he j _; apply hl.keeps he j
        intro k p hk; rw [hk] at hpc; cases hpc
    · contradiction
  · -- idle, callW
    rename_i w hpc
    injection hs with hs; subst hs
    rw [setPc_eq]
    exact inv_setLoc h (tinv_plain hl (by simp [hpc, Pc.plain]) (by simp [Pc.plain]))
  · -- wCalled, lock event
    rename_i w sd how ok hpc
    split at hs
    · cases hacq : s.acquire t sd with
      | none => simp [hacq] at hs
      | some s1 =>
        simp [hacq] at hs; subst hs
        exact inv_acquire h hacq (by simp [hpc, Pc.plain]) (Or.inr ⟨w, rfl⟩)
    · contradiction
  · -- whole, rd
    rename_i w m sn wrote thrown v hpc
    split at hs
    · injection hs with hs; subst hs; rw [setPc_eq]
      exact inv_setLoc h (tinv_whole_setPc hl hpc)
    · contradiction
  · -- whole, wr
    rename_i w m sn wrote thrown v hpc
    split at hs
    · injection hs with hs; subst hs; rw [setPc_eq]
      have h' : Inv { s with val := v } := inv_data h rfl rfl rfl rfl rfl rfl rfl rfl
      exact inv_setLoc h' (tinv_whole_setPc (h'.l t) hpc)
    · contradiction
  · -- whole, uth
    rename_i w m sn wrote thrown hpc
    injection hs with hs; subst hs; rw [setPc_eq]
    exact inv_setLoc h (tinv_whole_setPc hl hpc)
  · -- whole, rel
    rename_i w m sn wrote thrown sd hpc
    split at hs
    · split at hs
      · -- after a throw
        split at hs
        · cases hr : s.release t sd with
          | none => simp [hr] at hs
          | some s1 =>
            simp [hr] at hs; subst hs
            have hloc := (release_spec hr).2.2.2.2.1
            rw [setPc_eq, hloc]
            exact inv_release h hr (tinv_whole_rel hl hpc (by simp [Pc.plain]))
        · contradiction
      · split at hs
        · -- locking enabled: the bracket must amount to the register operation
          split at hs
          · rename_i r hres
            cases hr : s.release t sd with
            | none => simp [hr] at hs
            | some s1 =>
              simp [hr] at hs; subst hs
              have hloc := (release_spec hr).2.2.2.2.1
              have hi : Inv (s1.setPc t (.wDone r)) := by
                rw [setPc_eq, hloc]
                exact inv_release h hr (tinv_whole_rel hl hpc (by simp [Pc.plain]))
              exact inv_data hi rfl rfl rfl rfl rfl rfl rfl rfl
          · contradiction
        · cases hr : s.release t sd with
          | none => simp [hr] at hs
          | some s1 =>
            simp [hr] at hs; subst hs
            have hloc := (release_spec hr).2.2.2.2.1
            rw [setPc_eq, hloc]
            exact inv_release h hr (tinv_whole_rel hl hpc (by simp [Pc.plain]))
    · contradiction
  · -- wDone, retW
    rename_i r r' hpc
    split at hs
    · injection hs with hs; subst hs; rw [setPc_eq]
      exact inv_setLoc h (tinv_plain hl (by simp [hpc, Pc.plain]) (by simp [Pc.plain]))
    · contradiction
  · -- wExc, exc
    rename_i hpc
    injection hs with hs; subst hs; rw [setPc_eq]
    exact inv_setLoc h (tinv_plain hl (by simp [hpc, Pc.plain]) (by simp [Pc.plain]))
  · -- idle, final
    split at hs
    · injection hs with hs; subst hs; exact h
    · contradiction
  · -- wCalled, uth: user code run by the call itself throws before any lock operation
    rename_i w hpc
    injection hs with hs; subst hs; rw [setPc_eq]
    exact inv_setLoc h (tinv_plain hl (by simp [hpc, Pc.plain]) (by simp [Pc.plain]))
  · contradiction

/-! ## Frame facts about one step -/

theorem acquire_held_other {s s1 : St} {u t : Tid} {sd : Side} (ha : s.acquire u sd = some s1) (hne : t ≠ u) :
    s1.held t = s.held t := by
  rw [(acquire_spec ha).2.1]; simp [upd, hne]

theorem release_held_other {s s1 : St} {u t : Tid} {sd : Side} (hr : s.release u sd = some s1) (hne : t ≠ u) :
    s1.held t = s.held t := by
  rw [(release_spec hr).2.1]; simp [upd, hne]

/-- a step of `u` never changes what another thread holds -/
theorem step_held_other {s s' : St} {u t : Tid} {e : Ev} (hs : step s u e = some s') (hne : t ≠ u) :
    s'.held t = s.held t := by
  unfold step at hs; simp only at hs
  split at hs
  all_goals (try split at hs)
  all_goals (try split at hs)
  all_goals (try split at hs)
  all_goals (try split at hs)
  all_goals (try contradiction)
  all_goals (try (injection hs with hs; subst hs; rfl))
  all_goals (simp only [Option.map_eq_some_iff] at hs; obtain ⟨s1, ha, hs⟩ := hs; subst hs)
  all_goals first
    | (have h1 := acquire_held_other ha hne; exact h1)
    | (have h1 := release_held_other ha hne; exact h1)

/-- only a payload write changes the wrapped value -/
theorem step_val {s s' : St} {u : Tid} {e : Ev} (hs : step s u e = some s') (hw : ∀ v, e ≠ .wr v) :
    s'.val = s.val := by
  unfold step at hs; simp only at hs
  split at hs
  all_goals (try split at hs)
  all_goals (try split at hs)
  all_goals (try split at hs)
  all_goals (try split at hs)
  all_goals (try contradiction)
  all_goals (try (exact absurd rfl (hw _)))
  all_goals (try (injection hs with hs; subst hs; rfl))
  all_goals (simp only [Option.map_eq_some_iff] at hs; obtain ⟨s1, ha, hs⟩ := hs; subst hs)
  all_goals first
    | (have h1 := (acquire_spec ha).2.2.2.2.2.2.2.1; exact h1)
    | (have h1 := (release_spec ha).2.2.2.2.2.2.2.1; exact h1)

theorem inv_reachable {en cap : Bool} {s : St} (h : Reachable en cap s) : Inv s := by
  obtain ⟨es, hes⟩ := h
  exact runFrom_inv inv_step (inv_init en cap) hes

end ConcVerif.LockFam
