import ConcVerif.Proof.HBRcuRec
/-! rcu_list and happens-before, part 8: every step keeps `TR1`, `IP`, `RP`, `RK`. -/
namespace ConcVerif.Rcu
open HB (HBeq Kn)

theorem nR_mono {s s' : St} {t : Tid} {e : Ev} (hS : Step s t e s') (hnd : inDtor (s.pc t) = false) : s.nR ≤ s'.nR := by
  cases hS <;> first | exact Nat.le_refl _ | (simp; done) | no_dtor

/-- a privately held record has been allocated -/
theorem priv_lt {s : St} (hi : Inv s) {t : Tid} {m : Nat} (hp : privRec (BView (s.pc t)) = some m) : m < s.nR := by
  have h1 := (hi.b.privOk t m hp).2
  have h2 := hi.b.cntR m
  simp only [bview_vpc, bview_rled, bview_nR] at h1 h2
  apply Classical.byContradiction
  intro hc
  have := h2.2 (by omega)
  rw [this] at h1
  exact privLed_ne_none _ h1.symm

theorem TR1_step {es : List (Tid × Ev)} {s s' : St} {t : Tid} {e : Ev} (hiv : Inv s) (hnd : inDtor (s.pc t) = false)
    (h : TR1 es s.nR) (hS : Step s t e s') : TR1 (es ++ [(t, e)]) s'.nR := by
  intro i u e' m hi hm
  rcases HB.lq_snoc hi with ⟨_, hi''⟩ | ⟨_, hp⟩
  · exact Nat.lt_of_lt_of_le (h i u e' m hi'' hm) (nR_mono hS hnd)
  · injection hp with h1 h2; subst h1; subst h2
    exact Nat.lt_of_lt_of_le (priv_lt hiv (buildRec_priv (initR_facts hS hm).1)) (nR_mono hS hnd)

theorem IP_step {es : List (Tid × Ev)} {s s' : St} {t : Tid} {e : Ev} (hnd : inDtor (s.pc t) = false)
    (h : IP es s) (hS : Step s t e s') : IP (es ++ [(t, e)]) s' := by
  intro i u e' m hi hm
  rcases HB.lq_snoc hi with ⟨hil, hi''⟩ | ⟨hl, hp⟩
  · rcases h i u e' m hi'' hm with h1 | ⟨p, o, a, c, h1, h2⟩
    · by_cases hu : u = t
      · subst hu
        rcases build_step hS h1 with h3 | ⟨o, a, c, h3⟩
        · exact .inl h3
        · subst h3; exact .inr ⟨es.length, o, a, c, Nat.le_of_lt hil, HB.lq_last _ _⟩
      · left; rw [pc_frame hS hnd hu]; exact h1
    · exact .inr ⟨p, o, a, c, h1, HB.lq_mono _ h2⟩
  · injection hp with h1 h2; subst h1; subst h2; subst hl
    rcases (initR_facts hS hm).2 with h3 | ⟨o, a, c, h3, _⟩
    · exact .inl h3
    · subst h3; exact .inr ⟨es.length, o, a, c, Nat.le_refl _, HB.lq_last _ _⟩

theorem RP_gen {w : Ords} {sel : Bool} {es : List (Tid × Ev)} {s s' : St} {t : Tid} {e : Ev} (h : RP w sel es s)
    (hnew : ∀ m, e.initR = some m → ∀ u, privRec (BView (s'.pc u)) = some m → u = t)
    (hpriv : ∀ u m, privRec (BView (s'.pc u)) = some m → privRec (BView (s.pc u)) = some m ∨
      (u = t ∧ ∀ (i : Nat) (x : Tid) (ei : Ev), es[i]? = some (x, ei) → ei.initR = some m →
        Kn (hbTrace w sel (es ++ [(t, e)])) t i)) :
    RP w sel (es ++ [(t, e)]) s' := by
  intro u m hp i x ei hi hinit
  rcases HB.lq_snoc hi with ⟨_, hi'⟩ | ⟨hl, hq⟩
  · rcases hpriv u m hp with h1 | ⟨h1, h2⟩
    · rw [hbTrace_append]; exact (h u m h1 i x ei hi' hinit).mono _
    · subst h1; exact h2 i x ei hi' hinit
  · injection hq with h1 h2; subst h1; subst h2; subst hl
    have := hnew m hinit u hp
    subst this
    exact .self (hbTrace_get (HB.lq_last _ _))

theorem RP_step {w : Ords} {sel : Bool} {es : List (Tid × Ev)} {s s' : St} {t : Tid} {e : Ev}
    (hi : Inv s) (hi' : Inv s') (hnd : inDtor (s.pc t) = false) (hT : TR1 es s.nR) (hK : RK w sel es s)
    (h : RP w sel es s) (hS : Step s t e s') : RP w sel (es ++ [(t, e)]) s' := by
  refine RP_gen h ?_ ?_
  · intro m hm u hu
    rcases (initR_facts hS hm).2 with h3 | ⟨o, a, c, _, h3⟩
    · have := hi'.b.privUq u t m
      simp only [bview_vpc] at this
      exact this hu (buildRec_priv h3)
    · exfalso
      have := (hi'.b.privOk u m (by simpa using hu)).1
      simp only [bview_log] at this
      rw [h3] at this; simp at this
  · intro u m hp
    by_cases hu : u = t
    · subst hu
      rcases priv_cases hi hS hnd hp with h1 | ⟨_, h1⟩ | ⟨a, h1, h2⟩
      · exact .inl h1
      · right; refine ⟨rfl, ?_⟩
        intro i x ei hi2 hinit
        have := hT i x ei m hi2 hinit
        omega
      · right; refine ⟨rfl, ?_⟩
        intro i x ei hi2 hinit
        obtain ⟨b, hb⟩ := hi.a.myr u a h1
        rw [hbTrace_append]
        exact (hK u b a hb m (.inr (head_mem_below h2)) i x ei hi2 hinit).mono _
    · left; rw [pc_frame hS hnd hu] at hp; exact hp

/-- how a thread comes to be registered -/
theorem reg_cases {s s' : St} {t : Tid} {e : Ev} (hS : Step s t e s') (hnd : inDtor (s.pc t) = false) {u : Tid} {b : Bool}
    {a : Nat} (h : s'.hnd u = .reg b a) :
    s.hnd u = .reg b a ∨ (u = t ∧ ∃ o x c, e = .cas o x (some a) true c ∧ o.isSc = true ∧
      privRec (BView (s.pc t)) = some a ∧ s'.log = a :: s.log) := by
  rcases hnd_cases hS hnd with h1 | ⟨b', h1⟩ | h1 | ⟨r, b', o, x, c, h1, h2, h3, h4, h5⟩
  · rw [h1] at h; exact .inl h
  · rw [h1] at h
    by_cases hu : u = t
    · subst hu; rw [upd_same] at h; cases h
    · rw [upd_other _ _ _ _ hu] at h; exact .inl h
  · rw [h1] at h
    by_cases hu : u = t
    · subst hu; rw [upd_same] at h; cases h
    · rw [upd_other _ _ _ _ hu] at h; exact .inl h
  · rw [h3] at h
    by_cases hu : u = t
    · subst hu; rw [upd_same] at h; injection h with h6 h7; subst h7
      exact .inr ⟨rfl, o, x, c, h1, h2, h4, h5⟩
    · rw [upd_other _ _ _ _ hu] at h; exact .inl h

/-- nothing new appears below an active record -/
theorem below_step {s s' : St} {t : Tid} {e : Ev} (hi : Inv s) (hS : Step s t e s') (hnd : inDtor (s.pc t) = false)
    {a m : Nat} (ha : a ∈ s.log) (hact : (s.recs a).owner ≠ none) (hm : m ∈ Below s'.log a) : m ∈ Below s.log a := by
  have hnodup := hi.b.logNd
  simp only [bview_log] at hnodup
  rcases log_cases hi hS hnd with h1 | ⟨r, o, x, c, _, h1, h2⟩ | ⟨a0, m0, _, _, h1, h2⟩
  · rw [h1] at hm; exact hm
  · rw [h1] at hm
    have hr := (hi.b.privOk t r (by simpa using h2)).1
    simp only [bview_log] at hr
    have : r ≠ a := fun hc => hr (hc ▸ ha)
    rw [below_cons_ne _ this] at hm; exact hm
  · rw [h1] at hm
    have : a ≠ m0 := fun hc => hact (hc ▸ h2)
    rw [below_erase hnodup this] at hm
    exact List.mem_of_mem_erase hm

theorem RK_step {w : Ords} (hw : w.OK) {sel : Bool} {es : List (Tid × Ev)} {s s' : St} {t : Tid} {e : Ev}
    (hi : Inv s) (hi' : Inv s') (hnd : inDtor (s.pc t) = false) (hscd : SCD es) (hIP : IP es s) (hP : RP w sel es s)
    (h : RK w sel es s) (hS : Step s t e s') : RK w sel (es ++ [(t, e)]) s' := by
  intro u b a hreg m hm i x ei hi2 hinit
  rcases HB.lq_snoc hi2 with ⟨_, hi3⟩ | ⟨hlen, hq⟩
  · rcases reg_cases hS hnd hreg with h1 | ⟨h1, o, y, c, h2, h3, h4, h5⟩
    · -- registered before: the set of older records has not grown
      have ho := hi.b.own1 u b a h1
      simp only [bview_log, bview_recs] at ho
      have hm' : m = a ∨ m ∈ Below s.log a := by
        rcases hm with hm | hm
        · exact .inl hm
        · exact .inr (below_step hi hS hnd ho.1 (by rw [ho.2]; simp) hm)
      rw [hbTrace_append]; exact (h u b a h1 m hm' i x ei hi3 hinit).mono _
    · -- registered by this very CAS
      subst h1; subst h2
      rw [h5, below_cons_self] at hm
      rcases hm with hm | hm
      · subst hm
        rw [hbTrace_append]; exact (hP u m h4 i x ei hi3 hinit).mono _
      · rcases hIP i x ei m hi3 hinit with h6 | ⟨p, o2, a2, c2, h6, h7⟩
        · have := (hi.b.privOk x m (by simpa using buildRec_priv h6)).1
          simp only [bview_log] at this
          exact absurd hm this
        · rw [hbTrace_snoc]
          have hb : HBeq (hbTrace w sel es) i p := by
            rcases Nat.lt_or_eq_of_le h6 with h8 | h8
            · exact .inr (po_hb h8 hi3 h7)
            · exact .inl h8
          exact .of_sw hb (sw_cas hw hscd.2.1 h7 (hscd.2.2 p x o2 a2 (some m) c2 h7) h3)
  · -- the new event initialises a record that is still private, or publishes it
    injection hq with h1 h2; subst h1; subst h2; subst hlen
    have hb1 := (initR_facts hS hinit).1
    have h4 := (hi'.b.own1 u b a hreg).1
    simp only [bview_log] at h4
    rcases (initR_facts hS hinit).2 with hb2 | ⟨o, y, c, _, hl⟩
    · exfalso
      have hp := buildRec_priv hb2
      have h3 := (hi'.b.privOk x m (by simpa using hp)).1
      simp only [bview_log] at h3
      rcases hm with hm | hm
      · subst hm; exact h3 h4
      · exact h3 (mem_of_mem_below hm)
    · by_cases hux : u = x
      · subst hux; exact .self (hbTrace_get (HB.lq_last _ _))
      · exfalso
        have h3 := (hi.b.privOk x m (by simpa using buildRec_priv hb1)).1
        simp only [bview_log] at h3
        rcases reg_cases hS hnd hreg with h5 | ⟨h5, _⟩
        · have h6 := (hi.b.own1 u b a h5).1
          simp only [bview_log] at h6
          have hma : m ≠ a := fun hc => h3 (hc ▸ h6)
          rcases hm with hm | hm
          · exact hma hm
          · rw [hl, below_cons_ne _ hma] at hm
            exact h3 (mem_of_mem_below hm)
        · exact hux h5

end ConcVerif.Rcu
