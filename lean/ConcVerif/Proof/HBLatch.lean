import ConcVerif.Proof.Latch
import ConcVerif.Proof.HBPub
/-! Connection of the Latch model to the happens-before layer: `counter_` is only ever modified by
seq_cst read-modify-writes, so every decrement heads a release sequence that is never broken, and
every later seq_cst load of the counter (the unlocked fast path of `wait` included) synchronises
with it. -/
namespace ConcVerif.Latch

/-- happens-before content of a Latch-model event (mutex = mutex 0, `counter_` = atomic 0; the model
only accepts seq_cst accesses of the counter: `Driver/Latch.lean` parses no other order) -/
def toHB : Ev → HB.Ev
  | .mlk => .acq 0 .X
  | .cwk _ => .acq 0 .X
  | .mul => .rel 0 .X
  | .cwt => .rel 0 .X
  | .dec _ => .rmw 0 .sc
  | .ld _ => .ld 0 .sc
  | _ => .nop

def hbTrace (es : List (Tid × Ev)) : HB.Trace := es.map (fun p => (p.1, toHB p.2))

theorem hbTrace_get {es : List (Tid × Ev)} {i : Nat} {t : Tid} {e : Ev} (h : es[i]? = some (t, e)) :
    (hbTrace es)[i]? = some (t, toHB e) := by
  simp [hbTrace, h]

theorem hbTrace_no_store (es : List (Tid × Ev)) (k : Nat) (v : Tid) (a : HB.Loc) (o : HB.Ord) :
    (hbTrace es)[k]? ≠ some (v, .st a o) := by
  intro h
  simp only [hbTrace, List.getElem?_map] at h
  cases hk : es[k]? with
  | none => simp [hk] at h
  | some p =>
    obtain ⟨t, e⟩ := p
    simp [hk] at h
    cases e <;> simp [toHB] at h

/-- every decrement of the counter happens before every later load of it -/
theorem dec_hb_ld (es : List (Tid × Ev)) {i j : Nat} {t u : Tid} {old v : Int} (hij : i < j)
    (hi : es[i]? = some (t, .dec old)) (hj : es[j]? = some (u, .ld v)) : HB.HB (hbTrace es) i j :=
  .sw (.atomic hij (hbTrace_get hi) (hbTrace_get hj) ⟨.sc, rfl, .inr rfl⟩ ⟨.sc, rfl, .inl rfl⟩
    (fun k v o _ _ => hbTrace_no_store es k v 0 o))

/-! ### a returning waiter has seen the arrivals -/

def isDec : Ev → Bool
  | .dec _ => true
  | _ => false

/-- number of decrements (arrivals) in a trace -/
def decs (es : List (Tid × Ev)) : Nat := es.countP (fun p => isDec p.2)

theorem step_counts {s s' : St} {t : Tid} {e : Ev} (hs : step s t e = some s') :
    s'.start = s.start ∧ s'.arrived = s.arrived + (if isDec e then 1 else 0) := by
  unfold step at hs
  split at hs
  all_goals (try split at hs)
  all_goals (try split at hs)
  all_goals (try split at hs)
  all_goals (try contradiction)
  all_goals (injection hs with hs; subst hs; simp [St.setPc, isDec])

theorem step_pc_other {s s' : St} {t u : Tid} {e : Ev} (hs : step s t e = some s') (hu : u ≠ t) : s'.pc u = s.pc u := by
  unfold step at hs
  split at hs
  all_goals (try split at hs)
  all_goals (try split at hs)
  all_goals (try split at hs)
  all_goals (try contradiction)
  all_goals (injection hs with hs; subst hs; simp [St.setPc, upd, hu])

/-- a thread gets into the "latch seen open" part of `wait` only by a load that returned `≤ 0` -/
theorem step_into_open {s s' : St} {t : Tid} {e : Ev} {k : WKind} (hs : step s t e = some s')
    (hk : s'.pc t = .wUnlock k ∨ s'.pc t = .wRet k) :
    (∃ v, e = .ld v ∧ v ≤ 0 ∧ v = s.counter) ∨ s.pc t = .wUnlock k := by
  unfold step at hs
  split at hs
  all_goals (try split at hs)
  all_goals (try split at hs)
  all_goals (try split at hs)
  all_goals (try contradiction)
  all_goals (injection hs with hs; subst hs; simp [St.setPc] at hk)
  all_goals first
    | (rename_i h1 h2; exact .inl ⟨_, rfl, by omega, h1⟩)
    | (subst hk; rename_i h1 _; exact .inr h1)

theorem run_counts {start : Int} {es : List (Tid × Ev)} {s : St} (h : run start es = some s) :
    s.start = start ∧ s.arrived = decs es := by
  induction es using HB.snoc_induction generalizing s with
  | h0 => simp [run] at h; subst h; exact ⟨rfl, rfl⟩
  | hs es x ih =>
    obtain ⟨t, e⟩ := x
    simp only [run, runFrom_append] at h
    cases h1 : runFrom step (init start) es with
    | none => simp [h1] at h
    | some s1 =>
      simp only [h1, Option.bind_some, runFrom_cons, runFrom_nil] at h
      cases h2 : step s1 t e with
      | none => simp [h2] at h
      | some s2 =>
        simp [h2] at h; subst h
        obtain ⟨i1, i2⟩ := ih h1
        obtain ⟨c1, c2⟩ := step_counts h2
        refine ⟨by rw [c1, i1], ?_⟩
        rw [c2, i2]; simp [decs, List.countP_append, List.countP_cons]

/-- thread `u` has performed a load of the counter that returned `v ≤ 0`, at a moment when exactly
`start - v ≥ start` arrivals had decremented it -/
def Seen (start : Int) (es : List (Tid × Ev)) (u : Tid) : Prop :=
  ∃ l v, es[l]? = some (u, Ev.ld v) ∧ v ≤ 0 ∧ v = start - (decs (es.take l) : Int)

theorem Seen.mono {start : Int} {es : List (Tid × Ev)} {u : Tid} (ext : List (Tid × Ev)) (h : Seen start es u) :
    Seen start (es ++ ext) u := by
  obtain ⟨l, v, h1, h2, h3⟩ := h
  have hl : l < es.length := (List.getElem?_eq_some_iff.mp h1).1
  refine ⟨l, v, by rw [List.getElem?_append_left hl]; exact h1, h2, ?_⟩
  rw [List.take_append_of_le_length (Nat.le_of_lt hl)]; exact h3

theorem seen_run {start : Int} {es : List (Tid × Ev)} {s : St} (h : run start es = some s) :
    ∀ u k, (s.pc u = .wUnlock k ∨ s.pc u = .wRet k) → Seen start es u := by
  induction es using HB.snoc_induction generalizing s with
  | h0 => simp [run] at h; subst h; intro u k hk; simp [init] at hk
  | hs es x ih =>
    obtain ⟨t, e⟩ := x
    simp only [run, runFrom_append] at h
    cases h1 : runFrom step (init start) es with
    | none => simp [h1] at h
    | some s1 =>
      simp only [h1, Option.bind_some, runFrom_cons, runFrom_nil] at h
      cases h2 : step s1 t e with
      | none => simp [h2] at h
      | some s2 =>
        simp [h2] at h; subst h
        intro u k hk
        by_cases hu : u = t
        · subst hu
          rcases step_into_open h2 hk with ⟨v, he, hv, hc⟩ | hold
          · subst he
            obtain ⟨i1, i2⟩ := run_counts h1
            have hcnt := (inv_reachable ⟨es, h1⟩).cnt
            refine ⟨es.length, v, by simp, hv, ?_⟩
            rw [List.take_left' rfl, hc, hcnt, i1, i2]
          · exact (ih h1 u k (.inl hold)).mono _
        · rw [step_pc_other h2 hu] at hk
          exact (ih h1 u k hk).mono _

theorem step_ret {s s' : St} {t : Tid} {k : Kind} (hs : step s t (.ret k) = some s') :
    k = .arrive ∨ ∃ wk : WKind, s.pc t = .wRet wk ∧ k = wk.toKind := by
  cases hp : s.pc t <;> simp [step, hp] at hs
  · cases k <;> simp at hs; exact .inl rfl
  · rename_i wk; exact .inr ⟨wk, rfl, hs.1⟩

theorem hbTrace_append (es ext : List (Tid × Ev)) : hbTrace (es ++ ext) = hbTrace es ++ hbTrace ext := by
  simp [hbTrace]

/-- **C07 for Latch (model level).**  In every trace accepted by the Latch model, when `wait` /
`arrive_and_wait` returns (position `r`), the returning thread has loaded the counter at some `l < r`
and found it `≤ 0`, at least `start` decrements precede that load, and EVERY decrement before the load
happens-before the return: the release sequence of the seq_cst RMWs on `counter_` reaches the load,
also on the lock-free fast path. -/
theorem latch_wait_hb {start : Int} {es : List (Tid × Ev)} {s : St} (h : run start es = some s) {r : Nat} {u : Tid}
    {k : Kind} (hr : es[r]? = some (u, .ret k)) (hk : k ≠ .arrive) :
    ∃ l v, l < r ∧ es[l]? = some (u, .ld v) ∧ v ≤ 0 ∧ (start - v : Int) = decs (es.take l) ∧
      ∀ i t old, i < l → es[i]? = some (t, .dec old) → HB.HB (hbTrace es) i r := by
  have hrl : r < es.length := (List.getElem?_eq_some_iff.mp hr).1
  -- split the trace at `r`
  have hsplit : es = es.take r ++ (u, Ev.ret k) :: es.drop (r + 1) := by
    conv => lhs; rw [← List.take_append_drop r es]
    congr 1
    rw [List.drop_eq_getElem_cons hrl]
    congr 1
    have := List.getElem?_eq_some_iff.mp hr
    exact this.2
  rw [hsplit] at h
  simp only [run, runFrom_append] at h
  cases h1 : runFrom step (init start) (es.take r) with
  | none => simp [h1] at h
  | some s1 =>
    simp only [h1, Option.bind_some, runFrom_cons] at h
    cases h2 : step s1 u (.ret k) with
    | none => simp [h2] at h
    | some s2 =>
      rcases step_ret h2 with hk' | ⟨wk, hpc, _⟩
      · exact absurd hk' hk
      · obtain ⟨l, v, hl, hv, hc⟩ := seen_run h1 u wk (.inr hpc)
        have hlr : l < r := by
          have := (List.getElem?_eq_some_iff.mp hl).1
          simp at this; omega
        have hl' : es[l]? = some (u, .ld v) := by
          rw [List.getElem?_take] at hl; simpa [hlr] using hl
        refine ⟨l, v, hlr, hl', hv, ?_, ?_⟩
        · rw [List.take_take, Nat.min_eq_left (Nat.le_of_lt hlr)] at hc; omega
        · intro i t old hil hi
          exact .trans (dec_hb_ld es hil hi hl') (.po hlr (hbTrace_get hl') (hbTrace_get hr))

end ConcVerif.Latch
