import ConcVerif.Model.LR
/-! Inductive invariant of the left-right protocol model (`Model/LR.lean`), part 1: the control invariant `Inv`
(registration lists = reader pcs, mutex holder = writer pcs past the lock, and the *phase promise* of the holder:
which sides the registered readers can be holding).  The promise while waiting (`PK.wait l zL zR`) is phrased over the
`zeroSeen` flags — a reader registered in a counter that has been observed at zero since the flip holds the new side —
so the proof does not depend on the order in which the counters are inspected, nor on `m_countingLeft` at all.
Structure as in the design spike: one frame lemma per role (`inv_reader`, `inv_writer`, `inv_lock`, `inv_unlock`),
then `inv_step` by one `split` per model edge. -/
namespace ConcVerif.LR

/-- the counter a reader pc is registered in -/
def Pc.regIn : Pc → Option Side
  | .rdInc c | .rdGot c _ | .rdHold c _ | .rdRel c _ => some c
  | _ => none

/-- the side a reader pc holds (its handle points to) -/
def Pc.held : Pc → Option Side
  | .rdGot _ x | .rdHold _ x | .rdRel _ x => some x
  | _ => none

theorem post_regIn {p : Pc} (h : p.post = true) : p.regIn = none := by
  cases p <;> simp_all [Pc.post, Pc.regIn]

theorem post_held {p : Pc} (h : p.post = true) : p.held = none := by
  cases p <;> simp_all [Pc.post, Pc.held]

theorem held_regIn {p : Pc} {x : Side} (h : p.held = some x) : ∃ c, p.regIn = some c := by
  cases p <;> simp_all [Pc.held, Pc.regIn]

/-- what the mutex holder's pc promises about readers, by protocol phase -/
inductive PK
  | quiet
  | pre (l : Side)                 -- rl = l: nothing flipped yet
  | wait (l : Side) (zL zR : Bool) -- rl flipped to ¬l; counters seen at zero since then
  | post2 (l : Side)               -- both counters seen at zero

def Pc.pk : Pc → PK
  | .wA _ l | .wF1 _ l | .wF1d _ l | .wRb _ l | .wRbC _ l | .wRbD _ l => .pre l
  | .wWait _ l zL zR => .wait l zL zR
  | .wF2 _ l | .wF2d _ l | .wRf _ l | .wRfC _ l | .wRfD _ l => .post2 l
  | _ => .quiet

/-- registered in a counter that has been observed at zero since the flip -/
def zReg (zL zR : Bool) (o : Option Side) : Prop := ∃ c, o = some c ∧ zOf c zL zR = true

def PhaseX (rl : Side) (pc : Tid → Pc) : PK → Prop
  | .quiet => ∀ r x, (pc r).held = some x → x = rl
  | .pre l => rl = l ∧ ∀ r x, (pc r).held = some x → x = l
  | .wait l zL zR => rl = l.flip ∧ ∀ r x, zReg zL zR (pc r).regIn → (pc r).held = some x → x = l.flip
  | .post2 l => rl = l.flip ∧ ∀ r x, (pc r).held = some x → x = l.flip

def Phase (s : St) (k : PK) : Prop := PhaseX s.rl s.pc k

structure Inv (s : St) : Prop where
  nodupL : s.regL.Nodup
  nodupR : s.regR.Nodup
  mem : ∀ t c, t ∈ s.reg c ↔ (s.pc t).regIn = some c
  holder : ∀ t, (s.pc t).post = true ↔ s.mtx = some t
  phase : ∀ t, (s.pc t).post = true → Phase s (s.pc t).pk
  quiet : s.mtx = none → Phase s .quiet

theorem inv_init (b : Bool) : Inv (init b) := by
  constructor <;> simp [init, Pc.regIn, Pc.post, Phase, PhaseX, Pc.held]
  intro t c; cases c <;> simp [St.reg]

/-! ### field lemmas -/
@[simp] theorem setPc_pc (s : St) (t u : Tid) (p : Pc) : (s.setPc t p).pc u = if u = t then p else s.pc u := rfl
@[simp] theorem setPc_strict (s : St) (t : Tid) (p : Pc) : (s.setPc t p).strict = s.strict := rfl
@[simp] theorem setReg_strict (s : St) (c : Side) (l : List Tid) : (s.setReg c l).strict = s.strict := by cases c <;> rfl
@[simp] theorem setVal_strict (s : St) (x : Side) (v : List OpId) : (s.setVal x v).strict = s.strict := by cases x <;> rfl
@[simp] theorem setPc_rl (s : St) (t : Tid) (p : Pc) : (s.setPc t p).rl = s.rl := rfl
@[simp] theorem setPc_cl (s : St) (t : Tid) (p : Pc) : (s.setPc t p).cl = s.cl := rfl
@[simp] theorem setPc_mtx (s : St) (t : Tid) (p : Pc) : (s.setPc t p).mtx = s.mtx := rfl
@[simp] theorem setPc_regL (s : St) (t : Tid) (p : Pc) : (s.setPc t p).regL = s.regL := rfl
@[simp] theorem setPc_regR (s : St) (t : Tid) (p : Pc) : (s.setPc t p).regR = s.regR := rfl
@[simp] theorem setPc_valL (s : St) (t : Tid) (p : Pc) : (s.setPc t p).valL = s.valL := rfl
@[simp] theorem setPc_valR (s : St) (t : Tid) (p : Pc) : (s.setPc t p).valR = s.valR := rfl
@[simp] theorem setPc_committed (s : St) (t : Tid) (p : Pc) : (s.setPc t p).committed = s.committed := rfl
@[simp] theorem setPc_base (s : St) (t : Tid) (p : Pc) : (s.setPc t p).base = s.base := rfl
@[simp] theorem setPc_snap (s : St) (t : Tid) (p : Pc) : (s.setPc t p).snap = s.snap := rfl
@[simp] theorem setPc_lastSeen (s : St) (t : Tid) (p : Pc) : (s.setPc t p).lastSeen = s.lastSeen := rfl
@[simp] theorem setPc_reg (s : St) (t : Tid) (p : Pc) (c : Side) : (s.setPc t p).reg c = s.reg c := by cases c <;> rfl
@[simp] theorem setPc_val (s : St) (t : Tid) (p : Pc) (x : Side) : (s.setPc t p).val x = s.val x := by cases x <;> rfl
@[simp] theorem setReg_pc (s : St) (c : Side) (l : List Tid) : (s.setReg c l).pc = s.pc := by cases c <;> rfl
@[simp] theorem setReg_rl (s : St) (c : Side) (l : List Tid) : (s.setReg c l).rl = s.rl := by cases c <;> rfl
@[simp] theorem setReg_cl (s : St) (c : Side) (l : List Tid) : (s.setReg c l).cl = s.cl := by cases c <;> rfl
@[simp] theorem setReg_mtx (s : St) (c : Side) (l : List Tid) : (s.setReg c l).mtx = s.mtx := by cases c <;> rfl
@[simp] theorem setReg_valL (s : St) (c : Side) (l : List Tid) : (s.setReg c l).valL = s.valL := by cases c <;> rfl
@[simp] theorem setReg_valR (s : St) (c : Side) (l : List Tid) : (s.setReg c l).valR = s.valR := by cases c <;> rfl
@[simp] theorem setReg_val (s : St) (c : Side) (l : List Tid) (x : Side) : (s.setReg c l).val x = s.val x := by
  cases c <;> cases x <;> rfl
@[simp] theorem setReg_committed (s : St) (c : Side) (l : List Tid) : (s.setReg c l).committed = s.committed := by
  cases c <;> rfl
@[simp] theorem setReg_base (s : St) (c : Side) (l : List Tid) : (s.setReg c l).base = s.base := by cases c <;> rfl
@[simp] theorem setReg_snap (s : St) (c : Side) (l : List Tid) : (s.setReg c l).snap = s.snap := by cases c <;> rfl
@[simp] theorem setReg_lastSeen (s : St) (c : Side) (l : List Tid) : (s.setReg c l).lastSeen = s.lastSeen := by
  cases c <;> rfl
theorem setReg_reg (s : St) (c c' : Side) (l : List Tid) : (s.setReg c l).reg c' = if c' = c then l else s.reg c' := by
  cases c <;> cases c' <;> simp [St.setReg, St.reg]
theorem setReg_self (s : St) (c : Side) : s.setReg c (s.reg c) = s := by cases c <;> rfl
@[simp] theorem setVal_pc (s : St) (x : Side) (v : List OpId) : (s.setVal x v).pc = s.pc := by cases x <;> rfl
@[simp] theorem setVal_rl (s : St) (x : Side) (v : List OpId) : (s.setVal x v).rl = s.rl := by cases x <;> rfl
@[simp] theorem setVal_cl (s : St) (x : Side) (v : List OpId) : (s.setVal x v).cl = s.cl := by cases x <;> rfl
@[simp] theorem setVal_mtx (s : St) (x : Side) (v : List OpId) : (s.setVal x v).mtx = s.mtx := by cases x <;> rfl
@[simp] theorem setVal_regL (s : St) (x : Side) (v : List OpId) : (s.setVal x v).regL = s.regL := by cases x <;> rfl
@[simp] theorem setVal_regR (s : St) (x : Side) (v : List OpId) : (s.setVal x v).regR = s.regR := by cases x <;> rfl
@[simp] theorem setVal_reg (s : St) (x : Side) (v : List OpId) (c : Side) : (s.setVal x v).reg c = s.reg c := by
  cases x <;> cases c <;> rfl
@[simp] theorem setVal_committed (s : St) (x : Side) (v : List OpId) : (s.setVal x v).committed = s.committed := by
  cases x <;> rfl
@[simp] theorem setVal_base (s : St) (x : Side) (v : List OpId) : (s.setVal x v).base = s.base := by cases x <;> rfl
@[simp] theorem setVal_snap (s : St) (x : Side) (v : List OpId) : (s.setVal x v).snap = s.snap := by cases x <;> rfl
@[simp] theorem setVal_lastSeen (s : St) (x : Side) (v : List OpId) : (s.setVal x v).lastSeen = s.lastSeen := by
  cases x <;> rfl
theorem setVal_val (s : St) (x y : Side) (v : List OpId) : (s.setVal x v).val y = if y = x then v else s.val y := by
  cases x <;> cases y <;> simp [St.setVal, St.val]
@[simp] theorem setVal_val_same (s : St) (x : Side) (v : List OpId) : (s.setVal x v).val x = v := by
  simp [setVal_val]
@[simp] theorem setVal_val_flip (s : St) (x : Side) (v : List OpId) : (s.setVal x.flip v).val x = s.val x := by
  simp [setVal_val]
@[simp] theorem setVal_val_flip' (s : St) (x : Side) (v : List OpId) : (s.setVal x v).val x.flip = s.val x.flip := by
  simp [setVal_val]

theorem side_ne_iff {a b : Side} : a ≠ b ↔ a = b.flip := by cases a <;> cases b <;> simp [Side.flip]

/-! ### `Inv` only looks at the control part of the state -/
theorem Inv.congr {s s' : St} (h : Inv s) (h1 : s'.regL = s.regL) (h2 : s'.regR = s.regR) (h3 : s'.pc = s.pc)
    (h4 : s'.mtx = s.mtx) (h5 : s'.rl = s.rl) : Inv s' := by
  obtain ⟨a, b, c, d, e, f⟩ := h
  have hreg : ∀ c, s'.reg c = s.reg c := by intro c; cases c <;> simp [St.reg, h1, h2]
  have hph : ∀ k, Phase s' k = Phase s k := by intro k; simp only [Phase, h3, h5]
  refine ⟨by rw [h1]; exact a, by rw [h2]; exact b, ?_, ?_, ?_, ?_⟩
  · intro t c'; rw [hreg, h3]; exact c t c'
  · intro t; rw [h3, h4]; exact d t
  · intro t; rw [h3, hph]; exact e t
  · rw [h4, hph]; exact f

/-! ### reader steps -/

/-- a reader-side pc change of thread `t` keeps any phase promise, provided a new hold is on the current side -/
theorem PhaseX.setPc_reader {rl : Side} {pc : Tid → Pc} {t : Tid} {p' : Pc} {k : PK}
    (hk : PhaseX rl pc k)
    (hnew : ∀ x, p'.held = some x → x = rl ∨ ((pc t).held = some x ∧ (pc t).regIn = p'.regIn)) :
    PhaseX rl (upd pc t p') k := by
  have key : ∀ (P : Side → Prop) (Q : Option Side → Prop),
      (∀ r x, Q (pc r).regIn → (pc r).held = some x → P x) → (Q p'.regIn → P rl) →
      ∀ r x, Q (upd pc t p' r).regIn → (upd pc t p' r).held = some x → P x := by
    intro P Q hold hrl r x
    by_cases hr : r = t
    · subst hr; simp only [upd_same]
      intro hQ hx
      rcases hnew x hx with h | ⟨h1, h2⟩
      · subst h; exact hrl hQ
      · exact hold r x (by rw [h2]; exact hQ) h1
    · simp only [upd_other _ _ _ _ hr]; exact hold r x
  cases k with
  | quiet =>
    intro r x; exact key (fun x => x = rl) (fun _ => True) (fun r x _ h => hk r x h) (fun _ => rfl) r x trivial
  | pre l =>
    obtain ⟨h1, h2⟩ := hk
    refine ⟨h1, fun r x => key (fun x => x = l) (fun _ => True) (fun r x _ h => h2 r x h) (fun _ => h1) r x trivial⟩
  | wait l zL zR =>
    obtain ⟨h1, h2⟩ := hk
    exact ⟨h1, key (fun x => x = l.flip) (zReg zL zR) h2 (fun _ => h1)⟩
  | post2 l =>
    obtain ⟨h1, h2⟩ := hk
    refine ⟨h1, fun r x => key (fun x => x = l.flip) (fun _ => True) (fun r x _ h => h2 r x h) (fun _ => h1) r x trivial⟩

theorem reg_setReg_setPc (s : St) (c c' : Side) (l : List Tid) (t : Tid) (p : Pc) :
    ((s.setReg c l).setPc t p).reg c' = if c' = c then l else s.reg c' := by
  simp [setReg_reg]

/-- generic reader step: thread `t` (not past the writer lock) moves to a reader pc `p'`,
    the registration list of counter `c` becomes `l'` -/
theorem inv_reader {s : St} {t : Tid} {c : Side} {l' : List Tid} {p' : Pc}
    (h : Inv s) (hpost : (s.pc t).post = false) (hpost' : p'.post = false)
    (hnd : l'.Nodup)
    (hmem : ∀ u, u ∈ l' ↔ (if u = t then p'.regIn = some c else u ∈ s.reg c))
    (hoth : p'.regIn = some c.flip ↔ (s.pc t).regIn = some c.flip)
    (hnew : ∀ x, p'.held = some x → x = s.rl ∨ ((s.pc t).held = some x ∧ (s.pc t).regIn = p'.regIn)) :
    Inv ((s.setReg c l').setPc t p') := by
  obtain ⟨h1, h2, h3, h4, h5, h6⟩ := h
  have hph : ∀ k, Phase s k → Phase ((s.setReg c l').setPc t p') k := by
    intro k hk
    have := PhaseX.setPc_reader (t := t) (p' := p') hk hnew
    simpa [Phase, St.setPc] using this
  refine ⟨?_, ?_, ?_, ?_, ?_, ?_⟩
  · cases c <;> simp [St.setReg] <;> assumption
  · cases c <;> simp [St.setReg] <;> assumption
  · intro u c'
    rw [reg_setReg_setPc]
    by_cases hc : c' = c
    · subst hc; simp [hmem u]; split
      · simp_all
      · simp_all
    · have hc' : c' = c.flip := side_ne_iff.1 hc
      subst hc'; simp
      by_cases hu : u = t
      · subst hu; simp [hoth, h3]
      · simp [hu, h3]
  · intro u; simp
    by_cases hu : u = t
    · subst hu; simp [hpost']; have := h4 u; simp [hpost] at this; exact this
    · simp [hu]; exact h4 u
  · intro u hu
    simp at hu
    by_cases hut : u = t
    · subst hut; simp [hpost'] at hu
    · simp [hut] at hu
      have := hph _ (h5 u hu)
      simpa [hut] using this
  · intro hm
    simp at hm
    exact hph _ (h6 hm)

theorem inv_reader_noreg {s : St} {t : Tid} {p' : Pc}
    (h : Inv s) (hpost : (s.pc t).post = false) (hpost' : p'.post = false)
    (hreg : p'.regIn = (s.pc t).regIn)
    (hnew : ∀ x, p'.held = some x → x = s.rl ∨ (s.pc t).held = some x) : Inv (s.setPc t p') := by
  have := inv_reader (s := s) (t := t) (c := .L) (l' := s.reg .L) (p' := p') h hpost hpost' h.nodupL
    (by intro u; by_cases hu : u = t
        · subst hu; simp [h.mem, hreg]
        · simp [hu])
    (by rw [hreg])
    (by intro x hx; rcases hnew x hx with h | h
        · exact Or.inl h
        · exact Or.inr ⟨h, hreg.symm⟩)
  rwa [setReg_self] at this

/-! ### steps of the mutex holder -/

theorem PhaseX.congr_pc {rl : Side} {pc pc' : Tid → Pc} (hh : ∀ r, (pc' r).held = (pc r).held)
    (hr : ∀ r, (pc' r).regIn = (pc r).regIn) (k : PK) : PhaseX rl pc' k = PhaseX rl pc k := by
  cases k <;> simp only [PhaseX, hh, hr]

theorem held_upd_post {pc : Tid → Pc} {t : Tid} {q' : Pc} (hq : (pc t).post = true) (hq' : q'.post = true) (r : Tid) :
    (upd pc t q' r).held = (pc r).held := by
  by_cases hr : r = t
  · subst hr; simp [post_held hq, post_held hq']
  · simp [hr]

theorem regIn_upd_post {pc : Tid → Pc} {t : Tid} {q' : Pc} (hq : (pc t).post = true) (hq' : q'.post = true) (r : Tid) :
    (upd pc t q' r).regIn = (pc r).regIn := by
  by_cases hr : r = t
  · subst hr; simp [post_regIn hq, post_regIn hq']
  · simp [hr]

/-- generic step of the thread that holds the writer mutex: it re-establishes its own phase promise -/
theorem inv_writer {s : St} {t : Tid} {q' : Pc} {rl' cl' : Side}
    (h : Inv s) (hq : (s.pc t).post = true) (hq' : q'.post = true)
    (hph : PhaseX rl' s.pc q'.pk) :
    Inv ({ s with rl := rl', cl := cl' }.setPc t q') := by
  obtain ⟨h1, h2, h3, h4, h5, h6⟩ := h
  have hm : s.mtx = some t := (h4 t).1 hq
  refine ⟨h1, h2, ?_, ?_, ?_, ?_⟩
  · intro u c
    have e : ({ s with rl := rl', cl := cl' }.setPc t q').reg c = s.reg c := by cases c <;> rfl
    rw [e]; simp
    by_cases hu : u = t
    · subst hu; simp [post_regIn hq', h3, post_regIn hq]
    · simp [hu, h3]
  · intro u; simp
    by_cases hu : u = t
    · subst hu; simp [hq', hm]
    · simp [hu]; exact h4 u
  · intro u hu
    simp at hu
    by_cases hut : u = t
    · subst hut
      show PhaseX rl' (upd s.pc u q') (upd s.pc u q' u).pk
      rw [PhaseX.congr_pc (held_upd_post hq hq') (regIn_upd_post hq hq')]
      simpa using hph
    · simp [hut] at hu
      have := (h4 u).1 hu
      rw [hm] at this; injection this with this; exact absurd this.symm hut
  · intro hn; simp [hm] at hn

/-- a holder step that stays in the same protocol phase and stores neither flag -/
theorem inv_writer_same {s : St} {t : Tid} {q' : Pc}
    (h : Inv s) (hq : (s.pc t).post = true) (hq' : q'.post = true) (hk : q'.pk = (s.pc t).pk) :
    Inv (s.setPc t q') := by
  have := inv_writer (rl' := s.rl) (cl' := s.cl) (q' := q') h hq hq' (by rw [hk]; exact h.phase t hq)
  exact this

theorem inv_lock {s : St} {t : Tid} {op : OpId} (h : Inv s) (hpc : (s.pc t).post = false) (hr : (s.pc t).regIn = none)
    (hm : s.mtx = none) :
    Inv ({ s with mtx := some t }.setPc t (.wA op s.rl)) := by
  obtain ⟨h1, h2, h3, h4, h5, h6⟩ := h
  have hnopost : ∀ u, (s.pc u).post = false := by
    intro u; cases hp : (s.pc u).post
    · rfl
    · have := (h4 u).1 hp; simp [hm] at this
  have hq : Phase s .quiet := h6 hm
  have hq' : PhaseX s.rl (upd s.pc t (.wA op s.rl)) (.pre s.rl) := by
    refine ⟨rfl, ?_⟩
    intro r x
    by_cases hrt : r = t
    · subst hrt; simp [Pc.held]
    · simp [hrt]; exact hq r x
  refine ⟨h1, h2, ?_, ?_, ?_, ?_⟩
  · intro u c
    have e : ({ s with mtx := some t }.setPc t (Pc.wA op s.rl)).reg c = s.reg c := by cases c <;> rfl
    rw [e]; simp
    by_cases hu : u = t
    · subst hu
      have e2 : (Pc.wA op s.rl).regIn = none := rfl
      simp [h3, hr, e2]
    · simp [hu, h3]
  · intro u; simp
    by_cases hu : u = t
    · subst hu; simp [Pc.post]
    · simp [hu, hnopost u]; exact fun e => hu e.symm
  · intro u hu
    simp at hu
    by_cases hut : u = t
    · subst hut
      show PhaseX s.rl (upd s.pc u (Pc.wA op s.rl)) (upd s.pc u (Pc.wA op s.rl) u).pk
      rw [upd_same]; exact hq'
    · simp [hut, hnopost u] at hu
  · intro hn; simp at hn

theorem inv_unlock {s : St} {t : Tid} {q' : Pc} (h : Inv s) (hq : (s.pc t).post = true) (hq' : q'.post = false)
    (hr' : q'.regIn = none)
    (hk : (∃ l, (s.pc t).pk = .pre l) ∨ (∃ l, (s.pc t).pk = .post2 l)) :
    Inv ({ s with mtx := none }.setPc t q') := by
  obtain ⟨h1, h2, h3, h4, h5, h6⟩ := h
  have hm : s.mtx = some t := (h4 t).1 hq
  have hph := h5 t hq
  have hheld' : q'.held = none := by
    cases hh : q'.held with
    | none => rfl
    | some x => obtain ⟨c, hc⟩ := held_regIn hh; rw [hr'] at hc; cases hc
  have hquiet : ∀ r x, (s.pc r).held = some x → x = s.rl := by
    rcases hk with ⟨l, hl⟩ | ⟨l, hl⟩
    · rw [hl] at hph; obtain ⟨a, b⟩ := hph; intro r x hx; rw [a]; exact b r x hx
    · rw [hl] at hph; obtain ⟨a, b⟩ := hph; intro r x hx; rw [a]; exact b r x hx
  refine ⟨h1, h2, ?_, ?_, ?_, ?_⟩
  · intro u c'
    have e : ({ s with mtx := none }.setPc t q').reg c' = s.reg c' := by cases c' <;> rfl
    rw [e]; simp
    by_cases hu : u = t
    · subst hu; simp [hr', h3, post_regIn hq]
    · simp [hu, h3]
  · intro u; simp
    by_cases hu : u = t
    · subst hu; simp [hq']
    · simp [hu]; cases hp : (s.pc u).post
      · rfl
      · have := (h4 u).1 hp; rw [hm] at this; injection this with this; exact absurd this.symm hu
  · intro u hu
    simp at hu
    by_cases hut : u = t
    · subst hut; simp [hq'] at hu
    · simp [hut] at hu; have := (h4 u).1 hu; rw [hm] at this; injection this with this; exact absurd this.symm hut
  · intro _ r x
    show (upd s.pc t q' r).held = some x → x = s.rl
    by_cases hrt : r = t
    · subst hrt; simp [hheld']
    · simp [hrt]; exact hquiet r x


/-- reader move that changes no registration -/
macro "rd_move" h:ident hpc:ident : tactic =>
  `(tactic| exact inv_reader_noreg $h (by simp [$hpc:ident, Pc.post]) (by simp [Pc.post]) (by simp [$hpc:ident, Pc.regIn])
      (by simp [$hpc:ident, Pc.held]))

/-- holder move inside one protocol phase -/
macro "w_same" h:ident hpc:ident : tactic =>
  `(tactic| exact inv_writer_same $h (by simp [$hpc:ident, Pc.post]) (by simp [Pc.post]) (by simp [$hpc:ident, Pc.pk]))

theorem inv_setVal {s : St} {t : Tid} {q' : Pc} (x : Side) (v : List OpId) (h : Inv (s.setPc t q')) :
    Inv ((s.setVal x v).setPc t q') := by
  cases x <;> exact h.congr rfl rfl rfl rfl rfl

theorem stutter_eq {s s' : St} {e : Ev} (h : stutter s e = some s') : s' = s := by
  cases e <;> simp [stutter] at h
  all_goals (obtain ⟨_, h⟩ := h; exact h.symm)

/-- a counter observed at zero: nobody is registered in it, so marking it `zeroSeen` keeps the promise -/
theorem phase_waitSeen {rl : Side} {pc : Tid → Pc} {op : OpId} {l : Side} {zL zR : Bool} {c : Side}
    (h : PhaseX rl pc (.wait l zL zR)) (hno : ∀ r, (pc r).regIn ≠ some c) :
    PhaseX rl pc (waitSeen op l zL zR c).pk := by
  obtain ⟨h1, h2⟩ := h
  cases c
  · refine ⟨h1, ?_⟩
    intro r x ⟨c', e1, e2⟩ hx
    cases c'
    · exact absurd e1 (hno r)
    · exact h2 r x ⟨.R, e1, e2⟩ hx
  · refine ⟨h1, ?_⟩
    intro r x ⟨c', e1, e2⟩ hx
    cases c'
    · exact h2 r x ⟨.L, e1, e2⟩ hx
    · exact absurd e1 (hno r)

/-- both counters observed at zero since the flip: every handle points to the new side -/
theorem phase_wait_done {rl : Side} {pc : Tid → Pc} {l : Side} (h : PhaseX rl pc (.wait l true true)) :
    PhaseX rl pc (.post2 l) := by
  obtain ⟨h1, h2⟩ := h
  refine ⟨h1, ?_⟩
  intro r x hx
  obtain ⟨c, hc⟩ := held_regIn hx
  exact h2 r x ⟨c, hc, by cases c <;> rfl⟩ hx

/-- reader move that changes no registration -/
macro "rd_move" h:ident hpc:ident : tactic =>
  `(tactic| exact inv_reader_noreg $h (by simp [$hpc:ident, Pc.post]) (by simp [Pc.post]) (by simp [$hpc:ident, Pc.regIn])
      (by simp [$hpc:ident, Pc.held]))

/-- holder move inside one protocol phase -/
macro "w_same" h:ident hpc:ident : tactic =>
  `(tactic| exact inv_writer_same $h (by simp [$hpc:ident, Pc.post]) (by simp [Pc.post]) (by simp [$hpc:ident, Pc.pk]))

theorem inv_step {s s' : St} {t : Tid} {e : Ev} (h : Inv s) (hs : step s t e = some s') : Inv s' := by
  unfold step at hs
  split at hs
  -- 1 idle, call ls
  · rename_i k hpc; injection hs with hs; subst hs
    have : Inv (s.setPc t .rdCalled) := by rd_move h hpc
    exact this.congr rfl rfl rfl rfl rfl
  -- 2 rdCalled, ldCL
  · rename_i v hpc; split at hs
    · injection hs with hs; subst hs; rd_move h hpc
    · simp at hs
  -- 3 rdCL c, inc
  · rename_i c c' old hpc; split at hs
    · rename_i hg; obtain ⟨rfl, rfl⟩ := hg
      injection hs with hs; subst hs
      have hnot : t ∉ s.reg c' := by rw [h.mem]; simp [hpc, Pc.regIn]
      have hnd : (s.reg c').Nodup := by cases c' <;> simp [St.reg, h.nodupL, h.nodupR]
      refine inv_reader h (by simp [hpc, Pc.post]) (by simp [Pc.post]) (List.nodup_cons.2 ⟨hnot, hnd⟩) ?_
        (by simp [hpc, Pc.regIn]) (by simp [Pc.held])
      intro u; by_cases hu : u = t
      · subst hu; simp [Pc.regIn]
      · simp [hu]
    · simp at hs
  -- 4 rdInc c, ldRL v
  · rename_i c v hpc; split at hs
    · rename_i hv; subst hv
      injection hs with hs; subst hs; rd_move h hpc
    · simp at hs
  -- 5 rdGot, ret
  · rename_i c x k hpc; injection hs with hs; subst hs; rd_move h hpc
  -- 6 rdHold, rd
  · rename_i c x x' v hpc; split at hs
    · injection hs with hs; subst hs
      have : Inv (s.setPc t (.rdHold c x)) := by rd_move h hpc
      exact this.congr rfl rfl rfl rfl rfl
    · simp at hs
  -- 7 rdHold, call rel
  · rename_i c x hpc; injection hs with hs; subst hs; rd_move h hpc
  -- 8 rdRel, dec
  · rename_i c x c' old hpc; split at hs
    · rename_i hg; obtain ⟨rfl, rfl⟩ := hg
      injection hs with hs; subst hs
      have hnd : (s.reg c').Nodup := by cases c' <;> simp [St.reg, h.nodupL, h.nodupR]
      refine inv_reader h (by simp [hpc, Pc.post]) (by simp [Pc.post]) (hnd.erase t) ?_ (by simp [hpc, Pc.regIn])
        (by simp [Pc.held])
      intro u; by_cases hu : u = t
      · subst hu; simp [Pc.regIn, hnd.mem_erase_iff]
      · simp [hu, hnd.mem_erase_iff]
    · simp at hs
  -- 9 rdRelD, ret rel
  · rename_i hpc; injection hs with hs; subst hs; rd_move h hpc
  -- 10 idle, call modify
  · rename_i op hpc; injection hs with hs; subst hs; rd_move h hpc
  -- 11 wCalled, lock
  · rename_i op hpc; split at hs
    · rename_i hm; injection hs with hs; subst hs
      have := inv_lock (t := t) (op := op) h (by simp [hpc, Pc.post]) (by simp [hpc, Pc.regIn]) hm
      exact this.congr rfl rfl rfl rfl rfl
    · simp at hs
  -- 12 wA, fBegin
  · rename_i op l x hpc; split at hs
    · injection hs with hs; subst hs; w_same h hpc
    · simp at hs
  -- 13 wA, uth
  · rename_i op l hpc; injection hs with hs; subst hs; w_same h hpc
  -- 14 wF1, fEnd
  · rename_i op l x v hpc; split at hs
    · injection hs with hs; subst hs; apply inv_setVal; w_same h hpc
    · simp at hs
  -- 15 wF1, uth
  · rename_i op l hpc; injection hs with hs; subst hs; w_same h hpc
  -- 16 wF1d, uth
  · rename_i op l hpc; injection hs with hs; subst hs; w_same h hpc
  -- 17 wF1d, stRL
  · rename_i op l v hpc; split at hs
    · rename_i hv; subst hv; injection hs with hs; subst hs
      have hq : (s.pc t).post = true := by simp [hpc, Pc.post]
      have := inv_writer (rl' := l.flip) (cl' := s.cl) (q' := .wWait op l false false) h hq (by simp [Pc.post])
        ⟨rfl, by intro r x ⟨c, _, hc⟩; cases c <;> simp [zOf] at hc⟩
      exact this.congr rfl rfl rfl rfl rfl
    · simp at hs
  -- 18 wRb, cpBegin
  · rename_i op l x hpc; split at hs
    · injection hs with hs; subst hs; w_same h hpc
    · simp at hs
  -- 19 wRbC, cpEnd
  · rename_i op l x v hpc; split at hs
    · injection hs with hs; subst hs; apply inv_setVal; w_same h hpc
    · simp at hs
  -- 20 wRbD, unlock
  · rename_i op l hpc; split at hs
    · injection hs with hs; subst hs
      exact inv_unlock h (by simp [hpc, Pc.post]) (by simp [Pc.post]) (by simp [Pc.regIn]) (Or.inl ⟨l, by simp [hpc, Pc.pk]⟩)
    · simp at hs
  -- 21 wWait, ldCnt
  · rename_i op l zL zR c v hpc; split at hs
    · rename_i hv; subst hv
      split at hs
      · rename_i hz; injection hs with hs; subst hs
        have hq : (s.pc t).post = true := by simp [hpc, Pc.post]
        have hph := h.phase t hq; rw [hpc] at hph
        have hq' : (waitSeen op l zL zR c).post = true := by cases c <;> rfl
        refine inv_writer (rl' := s.rl) (cl' := s.cl) h hq hq' (phase_waitSeen hph ?_)
        intro r hr
        have : r ∈ s.reg c := by rw [h.mem]; exact hr
        rw [List.length_eq_zero_iff.1 hz] at this; simp at this
      · split at hs
        · simp at hs
        · injection hs with hs; subst hs; exact h
    · simp at hs
  -- 22 wWait, yld
  · injection hs with hs; subst hs; exact h
  -- 23 wWait, stCL
  · injection hs with hs; subst hs; exact h.congr rfl rfl rfl rfl rfl
  -- 24 wWait, fBegin
  · rename_i op l zL zR x hpc; split at hs
    · rename_i hg; obtain ⟨rfl, rfl, rfl⟩ := hg
      injection hs with hs; subst hs
      have hq : (s.pc t).post = true := by simp [hpc, Pc.post]
      have hph := h.phase t hq; rw [hpc] at hph
      exact inv_writer (rl' := s.rl) (cl' := s.cl) h hq (by simp [Pc.post]) (phase_wait_done hph)
    · simp at hs
  -- 25 wWait, uth
  · rename_i op l zL zR hpc; split at hs
    · rename_i hg; obtain ⟨rfl, rfl⟩ := hg
      injection hs with hs; subst hs
      have hq : (s.pc t).post = true := by simp [hpc, Pc.post]
      have hph := h.phase t hq; rw [hpc] at hph
      exact inv_writer (rl' := s.rl) (cl' := s.cl) h hq (by simp [Pc.post]) (phase_wait_done hph)
    · simp at hs
  -- 26 wF2, fEnd
  · rename_i op l x v hpc; split at hs
    · injection hs with hs; subst hs; apply inv_setVal; w_same h hpc
    · simp at hs
  -- 27 wF2, uth
  · rename_i op l hpc; injection hs with hs; subst hs; w_same h hpc
  -- 28 wF2d, uth
  · rename_i op l hpc; injection hs with hs; subst hs; w_same h hpc
  -- 29 wF2d, unlock
  · rename_i op l hpc; split at hs
    · injection hs with hs; subst hs
      exact inv_unlock h (by simp [hpc, Pc.post]) (by simp [Pc.post]) (by simp [Pc.regIn]) (Or.inr ⟨l, by simp [hpc, Pc.pk]⟩)
    · simp at hs
  -- 30 wRf, cpBegin
  · rename_i op l x hpc; split at hs
    · injection hs with hs; subst hs; w_same h hpc
    · simp at hs
  -- 31 wRfC, cpEnd
  · rename_i op l x v hpc; split at hs
    · injection hs with hs; subst hs; apply inv_setVal; w_same h hpc
    · simp at hs
  -- 32 wRfD, unlock
  · rename_i op l hpc; split at hs
    · injection hs with hs; subst hs
      exact inv_unlock h (by simp [hpc, Pc.post]) (by simp [Pc.post]) (by simp [Pc.regIn]) (Or.inr ⟨l, by simp [hpc, Pc.pk]⟩)
    · simp at hs
  -- 33 wRet, ret
  · rename_i op op' hpc; split at hs
    · injection hs with hs; subst hs; rd_move h hpc
    · simp at hs
  -- 34 wExc, exc
  · rename_i op fwd op' hpc; split at hs
    · injection hs with hs; subst hs; rd_move h hpc
    · simp at hs
  -- 35 idle, fin
  · split at hs
    · injection hs with hs; subst hs; exact h
    · simp at hs
  -- 36 redundant loads
  · split at hs
    · rw [stutter_eq hs]; exact h
    · simp at hs

theorem inv_reachable {s : St} (h : Reachable s) : Inv s := by
  obtain ⟨b, es, hes⟩ := h
  exact runFrom_inv (fun _ _ _ _ hi hst => inv_step hi hst) (inv_init b) hes

end ConcVerif.LR
