import ConcVerif.Proof.DDAcct
import ConcVerif.Proof.DDPend
import ConcVerif.Proof.DDDtor
import ConcVerif.Proof.DDAdj
/-! The DelayedDestructor invariants together, for every reachable state. -/
namespace ConcVerif.DD

structure Inv (s : St) : Prop where
  lockI : InvL s
  acct : Acct s
  wf : Wf s
  own : Own s
  life : Life s
  pend : PendFr s
  dt : Dt s
  adjI : Adj s

theorem inv_init (cb ns nt) : Inv (init cb ns nt) :=
  ⟨invL_init cb ns nt, acct_init cb ns nt, wf_init cb ns nt, own_init cb ns nt, life_init cb ns nt,
   pendFr_init cb ns nt, dt_init cb ns nt, adjI_init cb ns nt⟩

theorem inv_step {s s' : St} {t : Tid} {e} (hI : Inv s) (h : step s t e = some s') : Inv s' :=
  ⟨invL_step hI.lockI h, acct_step hI.acct h, wf_step hI.wf h, own_step hI.own h,
   life_step hI.life hI.own hI.wf h, pendFr_step hI.pend hI.life h, dt_step hI.dt h,
   adjI_step hI.adjI hI.wf h⟩

theorem inv_reachable {cb ns nt} {s : St} (h : Reachable cb ns nt s) : Inv s := by
  obtain ⟨es, hr⟩ := h
  exact runFrom_inv (Inv := Inv) (fun _ _ _ _ hi hs => inv_step hi hs) (inv_init cb ns nt) hr

theorem reachable_step {cb ns nt} {s s' : St} {t : Tid} {e} (h : Reachable cb ns nt s) (hs : step s t e = some s') :
    Reachable cb ns nt s' := by
  obtain ⟨es, hr⟩ := h
  refine ⟨es ++ [(t, e)], ?_⟩
  unfold run at hr ⊢
  rw [runFrom_append, hr]
  simp [runFrom_cons, hs]

end ConcVerif.DD
