import ConcVerif.Proof.HBRcuScan
/-! rcu_list and happens-before, part 14 (state level): the remaining facts about single steps used by the
reclamation invariant. -/
namespace ConcVerif.Rcu

/-- a step that accesses a node changes neither the handles nor the log nor the order nor the mutex -/
theorem touch_keep {s s' : St} {t : Tid} {e : Ev} {d : Nat} (hi : Inv s) (hS : Step s t e s') (hnd : inDtor (s.pc t) = false)
    (hn : e.nodeAcc = some d) : s'.hnd = s.hnd ∧ s'.log = s.log ∧ s'.wmtx = s.wmtx ∧ (d ∉ s.order → d ∉ s'.order) := by
  cases hS <;> simp only [Ev.nodeAcc] at hn <;> first | (cases hn; done) | no_dtor | skip
  -- pB2: `h.next := n`, the node accessed is `h`, already linked
  case pB2 k n h0 o hpc ho =>
    refine ⟨rfl, rfl, rfl, ?_⟩
    injection hn with hn; subst hn
    intro h _
    have wr := hi.c.wr t
    simp only [cview_vpc, hpc, CView, WriterP, NextIs, cview_lst] at wr
    exact h (hi.c.sub _ wr.2.1.1)
  all_goals first
    | exact ⟨rfl, rfl, rfl, id⟩
    | (refine ⟨rfl, rfl, rfl, ?_⟩; injection hn with hn; subst hn; intro h; simpa using h)

/-- a freed node stays freed -/
theorem freed_keep {s s' : St} {t : Tid} {e : Ev} (hi : Inv s) (hS : Step s t e s') (hnd : inDtor (s.pc t) = false) {d : Nat}
    (h : s.nled d = .freed) : s'.nled d = .freed := by
  have hc := hi.d.cntN s.nN
  simp only [dview_nled, dview_nN] at hc
  have hn : s.nled s.nN = .none := hc.2 (Nat.le_refl _)
  have held := hi.d.held t
  simp only [dview_vpc] at held
  cases hS <;> first | exact h | (simp; exact h) | no_dtor | skip
  all_goals
    simp only [setPc_nled, setNled_nled, reapAt_nled, upd_apply]
    split
    · rename_i hx; subst hx
      first
        | rfl
        | (exfalso; rw [hn] at h; cases h)
        | (exfalso; simp only [*, DView, HeldP, dview_nled] at held
           first | (exact absurd held (by simp)) | (exact absurd held.2 (by simp)))
    · exact h

end ConcVerif.Rcu
