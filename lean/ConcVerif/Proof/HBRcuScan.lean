import ConcVerif.Proof.HBRcuOwner
/-! rcu_list and happens-before, part 13: what a scanning / reclaiming thread has acquired.  `Scanned s t x`:
thread `t` (inside `rcu_guard::unlock`) has loaded `owner == nullptr` of record `x`; `SK`: it then knows the
store that cleared it (and everything ordered before that store). -/
namespace ConcVerif.Rcu
open HB (HBeq Kn)

def Scanned (s : St) (t : Tid) (x : Nat) : Prop :=
  (∃ a c cur, s.pc t = .uOwner a c cur ∧ x ∈ Below s.log a ∧ cur ∈ Below s.log x) ∨
  (∃ a c cur, s.pc t = .uNext a c cur ∧ x ∈ Below s.log a ∧ (x = cur ∨ cur ∈ Below s.log x)) ∨
  (∃ a, reaper (BView (s.pc t)) = some a ∧ x ∈ Below s.log a)

/-- nothing new appears below a record that stays on the log -/
theorem below_step2 {s s' : St} {t : Tid} {e : Ev} (hi : Inv s) (hS : Step s t e s') (hnd : inDtor (s.pc t) = false)
    {x m : Nat} (hx : x ∈ s.log) (hx' : x ∈ s'.log) (hm : m ∈ Below s'.log x) : m ∈ Below s.log x := by
  have hnodup := hi.b.logNd
  simp only [bview_log] at hnodup
  rcases log_cases hi hS hnd with h1 | ⟨r, o, y, c, _, h1, h2⟩ | ⟨a0, m0, _, _, h1, _⟩
  · rw [h1] at hm; exact hm
  · rw [h1] at hm
    have hr := (hi.b.privOk t r (by simpa using h2)).1
    simp only [bview_log] at hr
    have : r ≠ x := fun hc => hr (hc ▸ hx)
    rw [below_cons_ne _ this] at hm; exact hm
  · rw [h1] at hm hx'
    have : x ≠ m0 := fun hc => ((List.Nodup.mem_erase_iff hnodup).1 (hc ▸ hx')).1 rfl
    rw [below_erase hnodup this] at hm
    exact List.mem_of_mem_erase hm

/-- the record directly behind an inactive record of the log is what its `next` points to -/
theorem next_is_head {s : St} (hi : Inv s) {m : Nat} (hm : m ∈ s.log) (ho : (s.recs m).owner = none) :
    (s.recs m).next = (Below s.log m).head? := by
  have := hi.b.chain m
  simp only [bview_log, bview_recs, bview_vpc] at this
  rcases this hm with h | ⟨u, hu⟩
  · exact h
  · have := (reaper_facts hi hu).2.1
    rw [ho] at this; cases this

@[simp] theorem reaper_called (k : Op) : reaper (BView (.called k)) = none := by cases k <;> rfl
@[simp] theorem reaper_retp (k : Op) : reaper (BView (.retp k)) = none := by cases k <;> rfl

theorem reaper_reapPc (r : Nat) (n : Option Nat) : reaper (BView (reapPc r n)) = some r := by cases n <;> rfl

theorem reapPc_ne_uOwner (r : Nat) (n : Option Nat) (a : Nat) (c : Option Nat) (m : Nat) : reapPc r n ≠ .uOwner a c m := by
  cases n <;> simp [reapPc]

theorem reapPc_ne_uNext (r : Nat) (n : Option Nat) (a : Nat) (c : Option Nat) (m : Nat) : reapPc r n ≠ .uNext a c m := by
  cases n <;> simp [reapPc]

/-- a record enters the scanned set only by the load that reads its `owner` as null -/
theorem scanned_step {s s' : St} {t : Tid} {e : Ev} (hi : Inv s) (hi' : Inv s') (hS : Step s t e s')
    (hnd : inDtor (s.pc t) = false) {u : Tid} {x : Nat} (h : Scanned s' u x) :
    Scanned s u x ∨ (u = t ∧ ∃ o, e = .ald (.rowner x) o none ∧ o.isSc = true) := by
  have hnodup := hi.b.logNd
  simp only [bview_log] at hnodup
  by_cases hu : u = t
  · subst hu
    have hsc := hi.b.scan u
    have hsc' := hi'.b.scan u
    have hre' := hi'.b.reap u
    simp only [bview_vpc] at hsc hsc' hre'
    have own : ∀ a, myRec (s.pc u) = some a → a ∈ s.log ∧ (s.recs a).owner ≠ none := by
      intro a ha
      obtain ⟨b, hb⟩ := hi.a.myr u a ha
      have := hi.b.own1 u b a hb
      simp only [bview_log, bview_recs] at this
      exact ⟨this.1, by rw [this.2]; simp⟩
    cases hS <;> first | exact .inl h | no_dtor | skip
    case relSome w r m o hpc hh ho hv =>
      exfalso
      simp only [setPc_pc, upd_same, BView, ScanP, bview_log] at hsc'
      rcases h with ⟨a, c, cur, h1, h2, h3⟩ | ⟨a, c, cur, h1, _⟩ | ⟨a, h1, _⟩
      · simp only [setPc_pc, upd_same] at h1; injection h1 with e1 e2 e3; subst e1; subst e3
        simp only [setPc_log] at h2 h3
        rcases mem_below_cases hnodup hsc'.2.1.symm h2 with h4 | h4
        · subst h4; exact not_mem_below_self hnodup h3
        · exact below_antisymm hnodup h4 h3
      · simp at h1
      · simp [BView, reaper] at h1
    case relNone w r o hpc hh ho hv =>
      exfalso
      simp only [setPc_pc, upd_same, BView, ReapP, bview_log] at hre'
      rcases h with ⟨a, c, cur, h1, _⟩ | ⟨a, c, cur, h1, _⟩ | ⟨a, h1, h2⟩
      · simp at h1
      · simp at h1
      · simp [BView, reaper] at h1; subst h1
        rw [hre'.2] at h2; simp at h2
    case uOwnerInactive r c m o hpc ho hv =>
      rcases h with ⟨a, c', cur, h1, _⟩ | ⟨a, c', cur, h1, h2, h3⟩ | ⟨a, h1, _⟩
      · simp at h1
      · simp only [setPc_pc, upd_same] at h1; injection h1 with e1 e2 e3; subst e1; subst e2; subst e3
        simp only [setPc_log] at h2 h3
        rcases h3 with h3 | h3
        · subst h3; exact .inr ⟨rfl, o, rfl, ho⟩
        · exact .inl (.inl ⟨_, _, _, hpc, h2, h3⟩)
      · simp [BView, reaper] at h1
    case uNextSome r c m m2 o hpc ho hv =>
      rw [hpc] at hsc; simp only [BView, ScanP, bview_log, bview_recs] at hsc
      have hml := mem_of_mem_below hsc.1
      have hhd : (Below s.log m).head? = some m2 := by rw [← next_is_head hi hml hsc.2.2.1]; exact hv
      rcases h with ⟨a, c', cur, h1, h2, h3⟩ | ⟨a, c', cur, h1, _⟩ | ⟨a, h1, _⟩
      · simp only [setPc_pc, upd_same] at h1; injection h1 with e1 e2 e3; subst e1; subst e2; subst e3
        simp only [setPc_log] at h2 h3
        left; right; left
        refine ⟨_, _, _, hpc, h2, ?_⟩
        by_cases hxm : x = m
        · exact .inl hxm
        · right
          rcases below_total (mem_of_mem_below h2) hml hxm with h4 | h4
          · exfalso
            rcases mem_below_cases hnodup hhd h4 with h5 | h5
            · subst h5; exact not_mem_below_self hnodup h3
            · exact below_antisymm hnodup h5 h3
          · exact h4
      · simp at h1
      · simp [BView, reaper] at h1
    case uNextNone r c m o hpc ho hv =>
      rw [hpc] at hsc; simp only [BView, ScanP, bview_log, bview_recs] at hsc
      have hml := mem_of_mem_below hsc.1
      have hhd : (Below s.log m).head? = none := by rw [← next_is_head hi hml hsc.2.2.1]; exact hv
      have hown := own r (by simp [hpc, myRec])
      rcases h with ⟨a, c', cur, h1, _⟩ | ⟨a, c', cur, h1, _⟩ | ⟨a, h1, h2⟩
      · rw [reapAt_pc, upd_same] at h1; exact (reapPc_ne_uOwner _ _ _ _ _ h1).elim
      · rw [reapAt_pc, upd_same] at h1; exact (reapPc_ne_uNext _ _ _ _ _ h1).elim
      · rw [reapAt_pc, upd_same, reaper_reapPc] at h1; injection h1 with h1; subst h1
        have h3 := below_step hi (Step.uNextNone r c m o hpc ho hv) hnd hown.1 hown.2 h2
        left; right; left
        refine ⟨_, _, _, hpc, h3, ?_⟩
        by_cases hxm : x = m
        · exact .inl hxm
        · right
          rcases below_total (mem_of_mem_below h3) hml hxm with h4 | h4
          · exfalso
            have : Below s.log m = [] := List.head?_eq_none_iff.1 hhd
            rw [this] at h4; simp at h4
          · exact h4
    case rFreZ r m nx hpc =>
      have hown := own r (by simp [hpc, myRec])
      rcases h with ⟨a, c', cur, h1, _⟩ | ⟨a, c', cur, h1, _⟩ | ⟨a, h1, h2⟩
      · rw [reapAt_pc, upd_same] at h1; exact (reapPc_ne_uOwner _ _ _ _ _ h1).elim
      · rw [reapAt_pc, upd_same] at h1; exact (reapPc_ne_uNext _ _ _ _ _ h1).elim
      · rw [reapAt_pc, upd_same, reaper_reapPc] at h1; injection h1 with h1; subst h1
        have h3 := below_step hi (Step.rFreZ r m nx hpc) hnd hown.1 hown.2 h2
        exact .inl (.inr (.inr ⟨r, by simp [hpc, BView, reaper], h3⟩))
    all_goals
      first
      | (exfalso
         rcases h with ⟨a, c', cur, h1, _⟩ | ⟨a, c', cur, h1, _⟩ | ⟨a, h1, _⟩
         · simp at h1
         · simp at h1
         · first | (simp at h1; done) | (simp [BView, reaper] at h1; done)
         done)
      | (rcases h with ⟨a, c', cur, h1, _⟩ | ⟨a, c', cur, h1, _⟩ | ⟨a, h1, h2⟩
         · simp at h1
         · simp at h1
         · exact .inl (.inr (.inr ⟨a, by simpa [BView, reaper, *] using h1, by simpa using h2⟩)))
  · left
    have hpc := pc_frame hS hnd hu
    have own : ∀ a, myRec (s.pc u) = some a → a ∈ s.log ∧ (s.recs a).owner ≠ none := by
      intro a ha
      obtain ⟨b, hb⟩ := hi.a.myr u a ha
      have := hi.b.own1 u b a hb
      simp only [bview_log, bview_recs] at this
      exact ⟨this.1, by rw [this.2]; simp⟩
    rcases h with ⟨a, c, cur, h1, h2, h3⟩ | ⟨a, c, cur, h1, h2, h3⟩ | ⟨a, h1, h2⟩
    · rw [hpc] at h1
      have ha := own a (by simp [h1, myRec])
      have h2' := below_step hi hS hnd ha.1 ha.2 h2
      exact .inl ⟨a, c, cur, h1, h2', below_step2 hi hS hnd (mem_of_mem_below h2') (mem_of_mem_below h2) h3⟩
    · rw [hpc] at h1
      have ha := own a (by simp [h1, myRec])
      have h2' := below_step hi hS hnd ha.1 ha.2 h2
      refine .inr (.inl ⟨a, c, cur, h1, h2', ?_⟩)
      rcases h3 with h3 | h3
      · exact .inl h3
      · exact .inr (below_step2 hi hS hnd (mem_of_mem_below h2') (mem_of_mem_below h2) h3)
    · rw [hpc] at h1
      have ha := own a (reaper_myRec h1)
      exact .inr (.inr ⟨a, h1, below_step hi hS hnd ha.1 ha.2 h2⟩)

end ConcVerif.Rcu
