import ConcVerif.Model.SOH
/-! Lemmas about the sequential specification of SearchableObjectHolder (`Model/SOH.lean`):
sorted association lists (`lookup` / `emplace` / `erase` / `pushTag`), the predicate scan, and what
`apply` does to the two maps. -/
namespace ConcVerif.SOH

/-- strictly ascending keys: the `std::map` invariant (sorted, keys unique) -/
def Sorted {α : Type} (l : List (Nat × α)) : Prop := l.Pairwise (fun a b => a.1 < b.1)

def WF (m : Maps) : Prop := Sorted m.objs ∧ Sorted m.tags

theorem sorted_nil {α : Type} : Sorted ([] : List (Nat × α)) := List.Pairwise.nil

theorem sorted_cons {α : Type} {a : Nat × α} {l : List (Nat × α)} :
    Sorted (a :: l) ↔ (∀ e ∈ l, a.1 < e.1) ∧ Sorted l := List.pairwise_cons

/-! ### lookup -/

theorem lookup_none_of_lt {α : Type} {n : Nat} {l : List (Nat × α)} (h : ∀ e ∈ l, n < e.1) : lookup n l = none := by
  induction l with
  | nil => rfl
  | cons a r ih =>
    obtain ⟨m, w⟩ := a
    have hm : n < m := h (m, w) (by simp)
    have hne : n ≠ m := Nat.ne_of_lt hm
    simp only [lookup, hne, if_false]
    exact ih (fun e he => h e (List.mem_cons_of_mem _ he))

theorem lookup_some_mem {α : Type} {n : Nat} {v : α} {l : List (Nat × α)} (h : lookup n l = some v) : (n, v) ∈ l := by
  induction l with
  | nil => simp [lookup] at h
  | cons a r ih =>
    obtain ⟨m, w⟩ := a
    simp only [lookup] at h
    split at h
    · rename_i hnm; injection h with h; subst h; subst hnm; simp
    · exact List.mem_cons_of_mem _ (ih h)

theorem lookup_none_not_mem {α : Type} {n : Nat} {l : List (Nat × α)} (h : lookup n l = none) : ∀ e ∈ l, e.1 ≠ n := by
  induction l with
  | nil => intro e he; simp at he
  | cons a r ih =>
    obtain ⟨m, w⟩ := a
    simp only [lookup] at h
    split at h
    · simp at h
    · rename_i hnm
      intro e he
      rcases List.mem_cons.mp he with he | he
      · subst he; exact fun hh => hnm hh.symm
      · exact ih h e he

theorem mem_lookup {α : Type} {n : Nat} {v : α} {l : List (Nat × α)} (hs : Sorted l) (h : (n, v) ∈ l) :
    lookup n l = some v := by
  induction l with
  | nil => simp at h
  | cons a r ih =>
    obtain ⟨m, w⟩ := a
    obtain ⟨hlt, hr⟩ := sorted_cons.mp hs
    rcases List.mem_cons.mp h with h | h
    · injection h with h1 h2; subst h1; subst h2; simp [lookup]
    · have : m < n := hlt (n, v) h
      have hne : n ≠ m := (Nat.ne_of_lt this).symm
      simp only [lookup, hne, if_false]
      exact ih hr h

/-- keys are unique in a sorted list -/
theorem sorted_key_unique {α : Type} {n : Nat} {v w : α} {l : List (Nat × α)} (hs : Sorted l)
    (h1 : (n, v) ∈ l) (h2 : (n, w) ∈ l) : v = w := by
  have a := mem_lookup hs h1
  have b := mem_lookup hs h2
  rw [a] at b; injection b

/-! ### emplace -/

theorem mem_emplace {α : Type} {n : Nat} {v : α} {l : List (Nat × α)} {e : Nat × α} (h : e ∈ emplace n v l) :
    e = (n, v) ∨ e ∈ l := by
  induction l with
  | nil => simp [emplace] at h; exact Or.inl h
  | cons a r ih =>
    obtain ⟨m, w⟩ := a
    simp only [emplace] at h
    split at h
    · rcases List.mem_cons.mp h with h | h
      · exact Or.inl h
      · exact Or.inr h
    · split at h
      · exact Or.inr h
      · rcases List.mem_cons.mp h with h | h
        · exact Or.inr (by rw [h]; simp)
        · rcases ih h with h | h
          · exact Or.inl h
          · exact Or.inr (List.mem_cons_of_mem _ h)

theorem mem_emplace_of_mem {α : Type} {n : Nat} {v : α} {l : List (Nat × α)} {e : Nat × α} (h : e ∈ l) :
    e ∈ emplace n v l := by
  induction l with
  | nil => simp at h
  | cons a r ih =>
    obtain ⟨m, w⟩ := a
    simp only [emplace]
    split
    · exact List.mem_cons_of_mem _ h
    · split
      · exact h
      · rcases List.mem_cons.mp h with h | h
        · rw [h]; simp
        · exact List.mem_cons_of_mem _ (ih h)

theorem sorted_emplace {α : Type} {n : Nat} {v : α} {l : List (Nat × α)} (hs : Sorted l) : Sorted (emplace n v l) := by
  induction l with
  | nil => exact List.pairwise_singleton _ _
  | cons a r ih =>
    obtain ⟨m, w⟩ := a
    obtain ⟨hlt, hr⟩ := sorted_cons.mp hs
    simp only [emplace]
    split
    · rename_i hnm
      refine sorted_cons.mpr ⟨?_, hs⟩
      intro e he
      rcases List.mem_cons.mp he with he | he
      · subst he; exact hnm
      · exact Nat.lt_trans hnm (hlt e he)
    · split
      · exact hs
      · rename_i h1 h2
        refine sorted_cons.mpr ⟨?_, ih hr⟩
        intro e he
        rcases mem_emplace he with he | he
        · subst he; show m < n; omega
        · exact hlt e he

/-- `emplace` never replaces: on a present key the map is unchanged -/
theorem emplace_present {α : Type} {n : Nat} {v w : α} {l : List (Nat × α)} (hs : Sorted l)
    (h : lookup n l = some w) : emplace n v l = l := by
  induction l with
  | nil => simp [lookup] at h
  | cons a r ih =>
    obtain ⟨m, u⟩ := a
    obtain ⟨hlt, hr⟩ := sorted_cons.mp hs
    simp only [lookup] at h
    split at h
    · rename_i hnm; subst hnm; simp [emplace]
    · rename_i hnm
      have hmem := lookup_some_mem h
      have : m < n := hlt _ hmem
      have h1 : ¬ n < m := by omega
      simp only [emplace, h1, hnm, if_false]
      rw [ih hr h]

theorem lookup_emplace_absent {α : Type} {n x : Nat} {v : α} {l : List (Nat × α)} (h : lookup n l = none) :
    lookup x (emplace n v l) = if x = n then some v else lookup x l := by
  induction l with
  | nil => simp [emplace, lookup]
  | cons a r ih =>
    obtain ⟨m, u⟩ := a
    simp only [lookup] at h
    split at h
    · simp at h
    · rename_i hnm
      simp only [emplace]
      split
      · simp only [lookup]
      · simp only [lookup]
        rw [ih h]
        by_cases hxm : x = m
        · simp [hxm]
          intro hh; exact absurd hh.symm hnm
        · simp [hxm]

/-! ### erase -/

theorem erase_sublist {α : Type} (n : Nat) (l : List (Nat × α)) : (erase n l).Sublist l := by
  induction l with
  | nil => exact List.Sublist.slnil
  | cons a r ih =>
    obtain ⟨m, u⟩ := a
    simp only [erase]
    split
    · exact List.sublist_cons_self _ _
    · exact List.Sublist.cons_cons _ ih

theorem mem_of_mem_erase {α : Type} {n : Nat} {l : List (Nat × α)} {e : Nat × α} (h : e ∈ erase n l) : e ∈ l :=
  (erase_sublist n l).subset h

theorem sorted_erase {α : Type} {n : Nat} {l : List (Nat × α)} (hs : Sorted l) : Sorted (erase n l) :=
  List.Pairwise.sublist (erase_sublist n l) hs

theorem lookup_erase {α : Type} {n x : Nat} {l : List (Nat × α)} (hs : Sorted l) :
    lookup x (erase n l) = if x = n then none else lookup x l := by
  induction l with
  | nil => simp [erase, lookup]
  | cons a r ih =>
    obtain ⟨m, u⟩ := a
    obtain ⟨hlt, hr⟩ := sorted_cons.mp hs
    simp only [erase]
    split
    · rename_i hnm; subst hnm
      by_cases hx : x = n
      · subst hx; simp only [if_true]; exact lookup_none_of_lt hlt
      · simp [lookup, hx]
    · rename_i hnm
      simp only [lookup]
      rw [ih hr]
      by_cases hxm : x = m
      · simp [hxm]
        intro hh; exact absurd hh.symm hnm
      · simp [hxm]

theorem erase_absent {α : Type} {n : Nat} {l : List (Nat × α)} (h : lookup n l = none) : erase n l = l := by
  induction l with
  | nil => rfl
  | cons a r ih =>
    obtain ⟨m, u⟩ := a
    simp only [lookup] at h
    split at h
    · simp at h
    · rename_i hnm; simp only [erase, hnm, if_false]; rw [ih h]

/-- a remaining entry is an old entry with a different key -/
theorem mem_erase_iff {α : Type} {n : Nat} {l : List (Nat × α)} (hs : Sorted l) {e : Nat × α} :
    e ∈ erase n l ↔ e ∈ l ∧ e.1 ≠ n := by
  obtain ⟨x, v⟩ := e
  constructor
  · intro h
    refine ⟨mem_of_mem_erase h, ?_⟩
    intro hx
    have := mem_lookup (sorted_erase hs) h
    rw [lookup_erase hs] at this
    simp at hx; simp [hx] at this
  · intro ⟨h, hx⟩
    have := mem_lookup hs h
    apply lookup_some_mem
    rw [lookup_erase hs]
    simp at hx; simp [hx, this]

/-! ### pushTag -/

theorem mem_pushTag {n : Nat} {ty : Ty} {l : List (Nat × List Ty)} {e : Nat × List Ty} (h : e ∈ pushTag n ty l) :
    e.1 = n ∨ e ∈ l := by
  induction l with
  | nil => simp [pushTag] at h; exact Or.inl (by rw [h])
  | cons a r ih =>
    obtain ⟨m, w⟩ := a
    simp only [pushTag] at h
    split at h
    · rcases List.mem_cons.mp h with h | h
      · exact Or.inl (by rw [h])
      · exact Or.inr h
    · split at h
      · rename_i hnm
        rcases List.mem_cons.mp h with h | h
        · exact Or.inl (by rw [h]; exact hnm.symm)
        · exact Or.inr (List.mem_cons_of_mem _ h)
      · rcases List.mem_cons.mp h with h | h
        · exact Or.inr (by rw [h]; simp)
        · rcases ih h with h | h
          · exact Or.inl h
          · exact Or.inr (List.mem_cons_of_mem _ h)

theorem sorted_pushTag {n : Nat} {ty : Ty} {l : List (Nat × List Ty)} (hs : Sorted l) : Sorted (pushTag n ty l) := by
  induction l with
  | nil => exact List.pairwise_singleton _ _
  | cons a r ih =>
    obtain ⟨m, w⟩ := a
    obtain ⟨hlt, hr⟩ := sorted_cons.mp hs
    simp only [pushTag]
    split
    · rename_i hnm
      refine sorted_cons.mpr ⟨?_, hs⟩
      intro e he
      rcases List.mem_cons.mp he with he | he
      · subst he; exact hnm
      · exact Nat.lt_trans hnm (hlt e he)
    · split
      · exact sorted_cons.mpr ⟨hlt, hr⟩
      · rename_i h1 h2
        refine sorted_cons.mpr ⟨?_, ih hr⟩
        intro e he
        rcases mem_pushTag he with he | he
        · show m < e.1; omega
        · exact hlt e he

/-- `typeMap[n].push_back(ty)`: the entry of `n` (created empty if missing) gets `ty` appended -/
theorem lookup_pushTag {n x : Nat} {ty : Ty} {l : List (Nat × List Ty)} (hs : Sorted l) :
    lookup x (pushTag n ty l) =
      if x = n then some ((match lookup n l with | some w => w | none => []) ++ [ty]) else lookup x l := by
  induction l with
  | nil => simp [pushTag, lookup]
  | cons a r ih =>
    obtain ⟨m, w⟩ := a
    obtain ⟨hlt, hr⟩ := sorted_cons.mp hs
    simp only [pushTag]
    split
    · rename_i hnm
      have hne : n ≠ m := Nat.ne_of_lt hnm
      have hn : lookup n r = none := lookup_none_of_lt (fun e he => Nat.lt_trans hnm (hlt e he))
      by_cases hx : x = n
      · subst hx; simp [lookup, hne, hn]
      · simp [lookup, hx]
    · split
      · rename_i h1 hnm; subst hnm
        by_cases hx : x = n
        · subst hx; simp [lookup]
        · simp [lookup, hx]
      · rename_i h1 hnm
        simp only [lookup, hnm, if_false]
        rw [ih hr]
        by_cases hxm : x = m
        · simp [hxm]
          intro hh; exact absurd hh.symm hnm
        · simp [hxm]

/-! ### the predicate scan -/

def Pred.hit (p : Pred) (ok : Name → Bool) (e : Name × ObjId) : Bool := p.base.eval e.2 && ok e.1

/-- `found`: the first entry in key order on which the predicate (and the filter) holds -/
theorem scan_found {p : Pred} {ok : Name → Bool} {c : Nat} {l : List (Name × ObjId)} {n : Name} {k : ObjId}
    (h : scan p ok c l = .found n k) :
    ∃ pre post, l = pre ++ (n, k) :: post ∧ (∀ e ∈ pre, p.hit ok e = false) ∧ p.hit ok (n, k) = true := by
  induction l generalizing c with
  | nil => simp [scan] at h
  | cons a r ih =>
    obtain ⟨m, j⟩ := a
    simp only [scan] at h
    split at h
    · simp at h
    · split at h
      · rename_i hhit
        injection h with h1 h2; subst h1; subst h2
        exact ⟨[], r, rfl, by simp, hhit⟩
      · rename_i hhit
        obtain ⟨pre, post, hl, hpre, hk⟩ := ih h
        refine ⟨(m, j) :: pre, post, by rw [hl]; rfl, ?_, hk⟩
        intro e he
        rcases List.mem_cons.mp he with he | he
        · subst he; simpa [Pred.hit] using hhit
        · exact hpre e he

theorem scan_none {p : Pred} {ok : Name → Bool} {c : Nat} {l : List (Name × ObjId)} (h : scan p ok c l = .none) :
    ∀ e ∈ l, p.hit ok e = false := by
  induction l generalizing c with
  | nil => intro e he; simp at he
  | cons a r ih =>
    obtain ⟨m, j⟩ := a
    simp only [scan] at h
    split at h
    · simp at h
    · split at h
      · simp at h
      · rename_i hhit
        intro e he
        rcases List.mem_cons.mp he with he | he
        · subst he; simpa [Pred.hit] using hhit
        · exact ih h e he

/-- a predicate that never throws: the scan finds the first hit or reports that there is none -/
theorem scan_nothrow {p : Pred} {ok : Name → Bool} {l : List (Name × ObjId)} (hp : p.thr = 0) (c : Nat) :
    scan p ok c l ≠ .threw := by
  induction l generalizing c with
  | nil => simp [scan]
  | cons a r ih =>
    obtain ⟨m, j⟩ := a
    simp only [scan]
    have : ¬ p.thr = c + 1 := by omega
    simp only [this, if_false]
    split
    · simp
    · exact ih (c + 1)

/-- completeness of the scan for a non-throwing predicate: the first hit IS found -/
theorem scan_first {p : Pred} {ok : Name → Bool} {pre post : List (Name × ObjId)} {n : Name} {k : ObjId}
    (hp : p.thr = 0) (c : Nat) (hpre : ∀ e ∈ pre, p.hit ok e = false) (hk : p.hit ok (n, k) = true) :
    scan p ok c (pre ++ (n, k) :: post) = .found n k := by
  induction pre generalizing c with
  | nil =>
    have : ¬ p.thr = c + 1 := by omega
    simp only [List.nil_append, scan, this, if_false]
    simp only [Pred.hit] at hk
    simp [hk]
  | cons a r ih =>
    obtain ⟨m, j⟩ := a
    have : ¬ p.thr = c + 1 := by omega
    have hm : p.hit ok (m, j) = false := hpre (m, j) (by simp)
    simp only [Pred.hit] at hm
    simp only [List.cons_append, scan, this, if_false, hm]
    exact ih (c + 1) (fun e he => hpre e (List.mem_cons_of_mem _ he))

/-- `threw`: the throwing invocation is reached before any hit -/
theorem scan_threw {p : Pred} {ok : Name → Bool} {c : Nat} {l : List (Name × ObjId)} (h : scan p ok c l = .threw) :
    ∃ pre e post, l = pre ++ e :: post ∧ (∀ x ∈ pre, p.hit ok x = false) ∧ p.thr = c + pre.length + 1 := by
  induction l generalizing c with
  | nil => simp [scan] at h
  | cons a r ih =>
    obtain ⟨m, j⟩ := a
    simp only [scan] at h
    split at h
    · rename_i hthr
      exact ⟨[], (m, j), r, rfl, by simp, by simpa using hthr⟩
    · split at h
      · simp at h
      · rename_i hhit
        obtain ⟨pre, e, post, hl, hpre, ht⟩ := ih h
        refine ⟨(m, j) :: pre, e, post, by rw [hl]; rfl, ?_, by simp [ht]; omega⟩
        intro x hx
        rcases List.mem_cons.mp hx with hx | hx
        · subst hx; simpa [Pred.hit] using hhit
        · exact hpre x hx

theorem scan_found_mem {p : Pred} {ok : Name → Bool} {c : Nat} {l : List (Name × ObjId)} {n : Name} {k : ObjId}
    (h : scan p ok c l = .found n k) : (n, k) ∈ l := by
  obtain ⟨pre, post, hl, _, _⟩ := scan_found h
  rw [hl]; simp

/-! ### what `apply` does -/

theorem apply_wf {m : Maps} (h : WF m) (op : Op) : WF (apply m op).1 := by
  obtain ⟨ho, ht⟩ := h
  cases op with
  | add n k => exact ⟨sorted_emplace ho, ht⟩
  | addT n k ty =>
    simp only [apply]; split
    · exact ⟨sorted_emplace ho, ht⟩
    · exact ⟨sorted_emplace ho, sorted_emplace ht⟩
  | addType n ty => exact ⟨ho, sorted_pushTag ht⟩
  | empty => exact ⟨ho, ht⟩
  | get => exact ⟨ho, ht⟩
  | rm n =>
    simp only [apply]; split
    · exact ⟨sorted_erase ho, sorted_erase ht⟩
    · exact ⟨ho, ht⟩
  | rp p =>
    simp only [apply]; split
    · exact ⟨sorted_erase ho, sorted_erase ht⟩
    · exact ⟨ho, ht⟩
    · exact ⟨ho, ht⟩
  | cp a b =>
    simp only [apply]; split
    · exact ⟨ho, ht⟩
    · split
      · exact ⟨sorted_emplace ho, ht⟩
      · refine ⟨sorted_emplace ho, ?_⟩
        split
        · exact sorted_emplace ht
        · exact ht
  | chk n ty => exact ⟨ho, ht⟩
  | find n => exact ⟨ho, ht⟩
  | fp p => exact ⟨ho, ht⟩
  | fpt p ty => exact ⟨ho, ht⟩

/-- which calls can end with an exception at all -/
def Op.hasPred : Op → Bool
  | .rp _ => true
  | .fp _ => true
  | .fpt _ _ => true
  | _ => false

/-- only calls that take a predicate can end with an exception -/
theorem apply_threw_pred {m : Maps} {op : Op} (h : (apply m op).2 = .threw) : op.hasPred = true := by
  cases op with
  | add n k => simp [apply] at h
  | addT n k ty => simp only [apply] at h; split at h <;> simp at h
  | addType n ty => simp [apply] at h
  | empty => simp [apply] at h
  | get => simp [apply] at h
  | rm n => simp only [apply] at h; split at h <;> simp at h
  | rp p => rfl
  | cp a b =>
    simp only [apply] at h; split at h
    · simp at h
    · split at h <;> simp at h
  | chk n ty => simp [apply] at h
  | find n => simp [apply] at h
  | fp p => rfl
  | fpt p ty => rfl

/-- an exception leaves both maps as they were -/
theorem apply_threw_unchanged {m : Maps} {op : Op} (h : (apply m op).2 = .threw) : (apply m op).1 = m := by
  have hp := apply_threw_pred h
  cases op <;> simp [Op.hasPred] at hp
  case rp p =>
    cases hs : scan p anyName 0 m.objs <;> simp [apply, hs] at h ⊢
  case fp p => rfl
  case fpt p ty => rfl

/-- every object in the new object map was in the old one or is the call's own argument -/
theorem apply_objs_ids {m : Maps} {op : Op} {e : Name × ObjId} (h : e ∈ (apply m op).1.objs) :
    (∃ e' ∈ m.objs, e'.2 = e.2) ∨ op.newId = some e.2 := by
  have keep : e ∈ m.objs → (∃ e' ∈ m.objs, e'.2 = e.2) ∨ op.newId = some e.2 := fun h => Or.inl ⟨e, h, rfl⟩
  cases op with
  | add n k =>
    rcases mem_emplace h with h | h
    · subst h; exact Or.inr rfl
    · exact keep h
  | addT n k ty =>
    simp only [apply] at h
    split at h <;> (rcases mem_emplace h with h | h; · subst h; exact Or.inr rfl
                    · exact keep h)
  | addType n ty => exact keep h
  | empty => exact keep h
  | get => exact keep h
  | rm n =>
    simp only [apply] at h
    split at h
    · exact keep (mem_of_mem_erase h)
    · exact keep h
  | rp p =>
    simp only [apply] at h
    split at h
    · exact keep (mem_of_mem_erase h)
    · exact keep h
    · exact keep h
  | cp a b =>
    simp only [apply] at h
    split at h
    · exact keep h
    · rename_i k hk
      have hak := lookup_some_mem hk
      split at h <;> (rcases mem_emplace h with h | h; · subst h; exact Or.inl ⟨(a, k), hak, rfl⟩
                      · exact keep h)
  | chk n ty => exact keep h
  | find n => exact keep h
  | fp p => exact keep h
  | fpt p ty => exact keep h

/-- every object handed to the caller is stored in the object map at the linearisation point -/
theorem apply_res_ids {m : Maps} {op : Op} {k : ObjId} (h : k ∈ (apply m op).2.ids) : ∃ e ∈ m.objs, e.2 = k := by
  cases op with
  | add n j => simp [apply, Res.ids] at h
  | addT n j ty => simp only [apply] at h; split at h <;> simp [Res.ids] at h
  | addType n ty => simp [apply, Res.ids] at h
  | empty => simp [apply, Res.ids] at h
  | get =>
    simp only [apply, Res.ids, List.mem_map] at h
    obtain ⟨e, he, hk⟩ := h; exact ⟨e, he, hk⟩
  | rm n => simp only [apply] at h; split at h <;> simp [Res.ids] at h
  | rp p => simp only [apply] at h; split at h <;> simp [Res.ids] at h
  | cp a b =>
    simp only [apply] at h; split at h
    · simp [Res.ids] at h
    · split at h <;> simp [Res.ids] at h
  | chk n ty => simp [apply, Res.ids] at h
  | find n =>
    cases hl : lookup n m.objs with
    | none => simp [apply, hl, Res.ids] at h
    | some j =>
      simp [apply, hl, Res.ids] at h
      exact ⟨(n, j), lookup_some_mem hl, h.symm⟩
  | fp p =>
    cases hs : scan p anyName 0 m.objs with
    | found n j =>
      simp [apply, hs, Res.ids] at h
      exact ⟨(n, j), scan_found_mem hs, h.symm⟩
    | none => simp [apply, hs, Res.ids] at h
    | threw => simp [apply, hs, Res.ids] at h
  | fpt p ty =>
    cases hs : scan p (fun n => hasType m.tags n ty) 0 m.objs with
    | found n j =>
      simp [apply, hs, Res.ids] at h
      exact ⟨(n, j), scan_found_mem hs, h.symm⟩
    | none => simp [apply, hs, Res.ids] at h
    | threw => simp [apply, hs, Res.ids] at h

end ConcVerif.SOH
