import ConcVerif.Proof.HBKn
/-! Happens-before is preserved when a trace is embedded into a longer one: `tr'` contains every synchronisation /
access event of `tr` in the same order and by the same thread (`f` maps positions; events of `tr` that carry no
happens-before content — `nop` — may be merged into a neighbouring event of the same thread), `tr'` may contain any
number of additional events as long as they are not atomic stores (an additional store could end a release sequence).
Used to transfer the left-right theorem to the cow_guarded trace, whose model delegates to the left-right model. -/
namespace ConcVerif.HB

structure Embed (tr tr' : Trace) (f : Nat → Nat) : Prop where
  mono : ∀ (i j : Nat), i ≤ j → j < tr.length → f i ≤ f j
  thr : ∀ (i : Nat) (t : Tid) (e : Ev), tr[i]? = some (t, e) → ∃ e', tr'[f i]? = some (t, e')
  ev : ∀ (i : Nat) (t : Tid) (e : Ev), tr[i]? = some (t, e) → e ≠ .nop → tr'[f i]? = some (t, e)
  inj : ∀ (i j : Nat) (t u : Tid) (e e' : Ev), i < j → tr[i]? = some (t, e) → tr[j]? = some (u, e') → e ≠ .nop →
    e' ≠ .nop → f i < f j
  st : ∀ (p : Nat) (t : Tid) (a : Loc) (o : Ord), tr'[p]? = some (t, Ev.st a o) → ∃ i, f i = p ∧ tr[i]? = some (t, Ev.st a o)
  nofork : ∀ (i : Nat) (t u : Tid), tr[i]? ≠ some (t, Ev.fork u) ∧ tr[i]? ≠ some (t, Ev.join u)

theorem relWrite_ne_nop {e : Ev} {a : Loc} (h : RelWrite e a) : e ≠ .nop := by
  obtain ⟨o, _, h | h⟩ := h <;> (subst h; simp)

theorem acqRead_ne_nop {e : Ev} {a : Loc} (h : AcqRead e a) : e ≠ .nop := by
  obtain ⟨o, _, h | h⟩ := h <;> (subst h; simp)

theorem Embed.hbeq {tr tr' : Trace} {f : Nat → Nat} (E : Embed tr tr' f) {i j : Nat} (h : HB tr i j) :
    HBeq tr' (f i) (f j) := by
  induction h with
  | po hij h1 h2 =>
    rename_i i j t e e'
    have hle := E.mono i j (Nat.le_of_lt hij) (get_lt h2)
    obtain ⟨a, ha⟩ := E.thr i t e h1
    obtain ⟨b, hb⟩ := E.thr j t e' h2
    rcases Nat.lt_or_eq_of_le hle with h | h
    · exact .inr (.po h ha hb)
    · exact .inl h
  | sw hsw =>
    cases hsw with
    | mutex hij h1 h2 hmd =>
      exact .inr (.sw (.mutex (E.inj _ _ _ _ _ _ hij h1 h2 (by simp) (by simp)) (E.ev _ _ _ h1 (by simp))
        (E.ev _ _ _ h2 (by simp)) hmd))
    | atomic hij h1 h2 hr ha hno =>
      rename_i i j t u a ei ej
      have n1 := relWrite_ne_nop hr
      have n2 := acqRead_ne_nop ha
      refine .inr (.sw (.atomic (E.inj _ _ _ _ _ _ hij h1 h2 n1 n2) (E.ev _ _ _ h1 n1) (E.ev _ _ _ h2 n2) hr ha ?_))
      intro k v o hk1 hk2 hc
      obtain ⟨i', hf, hi'⟩ := E.st k v a o hc
      subst hf
      have g1 : i < i' := by
        apply Classical.byContradiction
        intro hn
        have := E.mono i' i (by omega) (get_lt h1)
        omega
      have g2 : i' < j := by
        apply Classical.byContradiction
        intro hn
        have := E.mono j i' (by omega) (get_lt hi')
        omega
      exact hno i' v o g1 g2 hi'
    | fork hij h1 h2 => exact absurd h1 (E.nofork _ _ _).1
    | join hij h1 h2 => exact absurd h2 (E.nofork _ _ _).2
    | forkJoin hij h1 h2 => exact absurd h1 (E.nofork _ _ _).1
  | trans _ _ ih1 ih2 => exact ih1.trans ih2

/-- between two events that carry happens-before content the order is strict -/
theorem Embed.hb {tr tr' : Trace} {f : Nat → Nat} (E : Embed tr tr' f) {i j : Nat} {t u : Tid} {e e' : Ev} (h : HB tr i j)
    (hi : tr[i]? = some (t, e)) (hj : tr[j]? = some (u, e')) (n1 : e ≠ .nop) (n2 : e' ≠ .nop) : HB tr' (f i) (f j) := by
  have hlt := E.inj i j t u e e' h.lt' hi hj n1 n2
  rcases E.hbeq h with g | g
  · omega
  · exact g

end ConcVerif.HB
