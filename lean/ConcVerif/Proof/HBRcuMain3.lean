import ConcVerif.Proof.HBRcuRReclaim
/-! rcu_list and happens-before, part 24: destruction and deallocation of a log record happen-after every
access to it (`rec_reclaim`); all happens-before invariants along every accepted trace (`hinvR_run`). -/
namespace ConcVerif.Rcu
open HB (HBeq Kn)

theorem TR_step {w : Ords} {sel : Bool} {es : List (Tid × Ev)} {s s' : St} {t : Tid} {e : Ev}
    (hi : Inv s) (hi' : Inv s') (hnd : inDtor (s.pc t) = false) (hST : ST es s) (hSK : SK w sel es s)
    (h : TR w sel es s) (hS : Step s t e s') : TR w sel (es ++ [(t, e)]) s' := by
  intro j u e' m hj hacc hd'
  rcases HB.lq_snoc hj with ⟨_, hj'⟩ | ⟨hl, hp⟩
  · have hd : s.rled m ≠ .freed := fun hc => hd' (rfreed_keep hi hS hnd hc)
    cases h j u e' m hj' hacc hd with
    | build v h1 h2 => exact rcover_build hnd hS h1 h2
    | pushed p v o a c h1 h2 => exact .pushed p v o a c (HB.lq_mono _ h1) (by rw [hbTrace_append]; exact h2.mono _)
    | open_ v b x h1 h2 h3 => exact rcover_open hi hi' hnd hS h1 h2 h3
    | closed x q y o v h1 h2 h3 h4 => exact rcover_closed hi hnd hS hST hSK h1 h2 h3 h4
    | reaped t0 a h1 h2 h3 => exact rcover_reaped hi hi' hnd hS hd' h1 h2 h3
  · injection hp with g1 g2; subst g1; subst g2; subst hl
    exact rcover_new hi hi' hnd hS hacc

/-- destruction / deallocation of a log record -/
def Ev.recEnd : Ev → Option Nat
  | .des true r => some r
  | .fre true r => some r
  | _ => none

/-- the destruction / deallocation just performed happens-after every earlier access to the record -/
theorem rec_end_last {w : Ords} {sel : Bool} {es : List (Tid × Ev)} {s s' : St} {t : Tid} {e : Ev} {i m : Nat}
    (hi : Inv s) (hdt : s.dt = false) (hRP : RP w sel es s) (h : TR w sel es s) (hS : Step s t e s')
    (hend : e.recEnd = some m) {u : Tid} {ei : Ev} (hq : es[i]? = some (u, ei)) (hacc : ei.recAcc = some m) :
    HB.HB (hbTrace w sel (es ++ [(t, e)])) i es.length := by
  have hnd := not_inDtor hi hdt t
  have hil := HB.lq_lt hq
  have fin : Kn (hbTrace w sel es) t i → HB.HB (hbTrace w sel (es ++ [(t, e)])) i es.length := by
    intro hk
    rw [hbTrace_snoc]
    have := hk.hb_new (e := toHB w sel e) (by simpa using hil)
    simpa using this
  have reap : ∀ a, reaper (BView (s.pc t)) = some a → privRec (BView (s.pc t)) = some m → buildRec (s.pc t) = none →
      s.rled m ≠ .freed → HB.HB (hbTrace w sel (es ++ [(t, e)])) i es.length := by
    intro a hr hp hb hd
    have hpo := (hi.b.privOk t m (by simpa using hp)).1
    simp only [bview_log] at hpo
    have nolog : ∀ x, x ∈ s.log → SafeR s x m → False := by
      intro x hx hs
      rcases hs with g | ⟨g, _⟩
      · subst g; exact hpo hx
      · exact hpo (mem_of_mem_below g)
    cases h i u ei m hq hacc hd with
    | build v h1 _ =>
      exfalso
      have := hi.b.privUq v t m
      simp only [bview_vpc] at this
      have := this (buildRec_priv h1) hp
      subst this; rw [hb] at h1; cases h1
    | pushed p v o x c h1 h2 => exact fin (Kn.of_hbeq h2 (hRP t m hp p v _ h1 rfl))
    | open_ v b x h1 h2 _ =>
      have ox := (hi.b.own1 v b x h1).1
      simp only [bview_log] at ox
      exact (nolog x ox h2).elim
    | closed x q y o v _ _ h3 h4 => exact (nolog x h3 h4).elim
    | reaped t0 a0 h1 h2 _ =>
      have := reaper_unique hi h1 hr
      subst this; exact fin h2
  have hp := hi.b.privOk t
  simp only [bview_vpc, bview_rled] at hp
  cases hS <;> simp only [Ev.recEnd] at hend <;> first | (cases hend; done) | no_dtor | skip
  all_goals (injection hend with hend; subst hend)
  case rDesZ r m' nx hpc =>
    refine reap r (by simp [hpc, BView, reaper]) (by simp [hpc, BView, privRec]) (by simp [hpc, buildRec]) ?_
    rw [(hp m' (by simp [hpc, BView, privRec])).2]; simp [hpc, BView, privLed]
  case rFreZ r m' nx hpc =>
    refine reap r (by simp [hpc, BView, reaper]) (by simp [hpc, BView, privRec]) (by simp [hpc, buildRec]) ?_
    rw [(hp m' (by simp [hpc, BView, privRec])).2]; simp [hpc, BView, privLed]

structure HInvR (w : Ords) (sel : Bool) (es : List (Tid × Ev)) (s : St) : Prop where
  c : HInvC w sel es s
  tr : TR w sel es s

theorem hinvR_run {w : Ords} (hw : w.OK) {sel : Bool} {es : List (Tid × Ev)} {s : St} (h : run es = some s)
    (hdt : s.dt = false) : HInvR w sel es s := by
  induction es using HB.snoc_induction generalizing s with
  | h0 =>
    simp [run] at h; subst h
    exact ⟨hinvC_init w sel, by intro i u e d hi; simp at hi⟩
  | hs es x ih =>
    obtain ⟨t, e⟩ := x
    obtain ⟨s1, h1, h2⟩ := run_snoc h
    have hx : InvX s1 := invX_reachable ⟨es, h1⟩
    have hi' : Inv s := inv_reachable ⟨_, h⟩
    have hS := step_sound h2
    have hdt1 := dt_mono hS hdt
    have ih' := ih h1 hdt1
    exact ⟨hinvC_step hw hx hi' (zo_reachable ⟨es, h1⟩) hdt1 ih'.c hS,
      TR_step hx.i hi' (not_inDtor hx.i hdt1 t) ih'.c.st ih'.c.sk ih'.tr hS⟩

/-- **reclamation of records**: the destruction and the deallocation of a log record happen-after every access to it -/
theorem rec_reclaim {w : Ords} (hw : w.OK) {sel : Bool} {es : List (Tid × Ev)} {s : St} (h : run es = some s)
    (hdt : s.dt = false) {i j : Nat} {u t : Tid} {ei ej : Ev} {m : Nat} (hij : i < j) (hi : es[i]? = some (u, ei))
    (hj : es[j]? = some (t, ej)) (hacc : ei.recAcc = some m) (hend : ej.recEnd = some m) :
    HB.HB (hbTrace w sel es) i j := by
  refine at_last (P := fun a b => a.recAcc = some m ∧ b.recEnd = some m) ?_ h hdt hij hi hj ⟨hacc, hend⟩
  intro es s s' t u e ei i hr hdt' hs hq hp
  have hS := step_sound hs
  have hdt1 := dt_mono hS hdt'
  have hv := hinvR_run hw (sel := sel) hr hdt1
  exact rec_end_last (inv_reachable ⟨es, hr⟩) hdt1 hv.c.base.rp hv.tr hS hp.2 hq hp.1

end ConcVerif.Rcu
