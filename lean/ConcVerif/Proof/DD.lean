import ConcVerif.Model.DD
/-! Frame lemmas for the DelayedDestructor model: what the silent loops (`vdrain`, `drain`, `dDone`, `xTop`, `xAfter`,
`resume`, `select`) leave untouched, and the lock discipline invariant. -/
namespace ConcVerif.DD

@[simp] theorem setStk_lock (s : St) (t fs) : (s.setStk t fs).lock = s.lock := rfl
@[simp] theorem setStk_hasCb (s : St) (t fs) : (s.setStk t fs).hasCb = s.hasCb := rfl
@[simp] theorem setStk_vec (s : St) (t fs) : (s.setStk t fs).vec = s.vec := rfl
@[simp] theorem setStk_ecs (s : St) (t fs) : (s.setStk t fs).ecs = s.ecs := rfl
@[simp] theorem setStk_ext (s : St) (t fs) : (s.setStk t fs).ext = s.ext := rfl
@[simp] theorem setStk_dead (s : St) (t fs) : (s.setStk t fs).dead = s.dead := rfl
@[simp] theorem setStk_vdead (s : St) (t fs) : (s.setStk t fs).vdead = s.vdead := rfl
@[simp] theorem setStk_created (s : St) (t fs) : (s.setStk t fs).created = s.created := rfl
@[simp] theorem setStk_pend (s : St) (t fs) : (s.setStk t fs).pend = s.pend := rfl
@[simp] theorem setStk_destroyed (s : St) (t fs) : (s.setStk t fs).destroyed = s.destroyed := rfl
@[simp] theorem setStk_added (s : St) (t fs) : (s.setStk t fs).added = s.added := rfl
@[simp] theorem setStk_reaped (s : St) (t fs) : (s.setStk t fs).reaped = s.reaped := rfl
@[simp] theorem setStk_vrel (s : St) (t fs) : (s.setStk t fs).vrel = s.vrel := rfl
@[simp] theorem setStk_stk_same (s : St) (t fs) : (s.setStk t fs).stk t = fs := by simp [St.setStk]
theorem setStk_stk_other (s : St) (t fs) {u : Tid} (h : u ≠ t) : (s.setStk t fs).stk u = s.stk u := by
  simp [St.setStk, h]
theorem setStk_stk (s : St) (t fs) (u : Tid) : (s.setStk t fs).stk u = if u = t then fs else s.stk u := by
  simp [St.setStk, upd_apply]

@[simp] theorem refs_setStk (s : St) (t fs k) : refs (s.setStk t fs) k = refs s k := rfl

/-- the part of the state no silent loop touches -/
structure Same (s s' : St) (t : Tid) : Prop where
  lock : s'.lock = s.lock
  hasCb : s'.hasCb = s.hasCb
  ext : s'.ext = s.ext
  dead : s'.dead = s.dead
  created : s'.created = s.created
  destroyed : s'.destroyed = s.destroyed
  added : s'.added = s.added
  reaped : s'.reaped = s.reaped
  stk : ∀ u, u ≠ t → s'.stk u = s.stk u

theorem Same.refl (s : St) (t : Tid) : Same s s t := ⟨rfl, rfl, rfl, rfl, rfl, rfl, rfl, rfl, fun _ _ => rfl⟩

theorem Same.trans {a b c : St} {t : Tid} (h1 : Same a b t) (h2 : Same b c t) : Same a c t :=
  ⟨h2.lock.trans h1.lock, h2.hasCb.trans h1.hasCb, h2.ext.trans h1.ext, h2.dead.trans h1.dead,
   h2.created.trans h1.created, h2.destroyed.trans h1.destroyed, h2.added.trans h1.added, h2.reaped.trans h1.reaped,
   fun u hu => (h2.stk u hu).trans (h1.stk u hu)⟩

theorem same_setStk (s : St) (t fs) : Same s (s.setStk t fs) t :=
  ⟨rfl, rfl, rfl, rfl, rfl, rfl, rfl, rfl, fun _ hu => setStk_stk_other s t fs hu⟩

theorem same_vdrain (s : St) (t rest) (v : List ObjId) : Same s (vdrain s t rest v) t := by
  induction v generalizing s with
  | nil => exact Same.trans (b := { s with vec := [], vdead := true }) ⟨rfl, rfl, rfl, rfl, rfl, rfl, rfl, rfl, fun _ _ => rfl⟩ (same_setStk _ _ _)
  | cons k v ih =>
    simp only [vdrain]
    split
    · exact Same.trans (b := { s with vec := v, vrel := k :: s.vrel, pend := k :: s.pend })
        ⟨rfl, rfl, rfl, rfl, rfl, rfl, rfl, rfl, fun _ _ => rfl⟩ (same_setStk _ _ _)
    · exact Same.trans (b := { s with vec := v, vrel := k :: s.vrel }) ⟨rfl, rfl, rfl, rfl, rfl, rfl, rfl, rfl, fun _ _ => rfl⟩ (ih _)

theorem same_xTop (s : St) (t ii rest) : Same s (xTop s t ii rest) t := by
  unfold xTop; split
  · exact Same.trans (b := { s with vdead := true }) ⟨rfl, rfl, rfl, rfl, rfl, rfl, rfl, rfl, fun _ _ => rfl⟩ (same_setStk _ _ _)
  · exact same_setStk _ _ _

theorem same_xAfter (s : St) (t ii rest) : Same s (xAfter s t ii rest) t := by
  unfold xAfter; split
  · exact Same.trans (b := { s with vdead := true }) ⟨rfl, rfl, rfl, rfl, rfl, rfl, rfl, rfl, fun _ _ => rfl⟩ (same_setStk _ _ _)
  · split
    · exact same_setStk _ _ _
    · split <;> exact same_setStk _ _ _

theorem same_dDone (s : St) (t r rest) : Same s (dDone s t r rest) t := by
  unfold dDone; split
  · exact same_setStk _ _ _
  · exact same_xAfter _ _ _ _
  · exact same_vdrain _ _ _ _
  · exact same_setStk _ _ _

theorem same_drain (s : St) (t sz cbs thrown rest) (ec : List ObjId) : Same s (drain s t sz cbs thrown rest ec) t := by
  induction ec generalizing s with
  | nil => simp only [drain]; split; exact same_dDone _ _ _ _; exact same_setStk _ _ _
  | cons k ec ih =>
    simp only [drain]
    split
    · exact Same.trans (b := { s with ecs := s.ecs.erase (t, k), pend := k :: s.pend })
        ⟨rfl, rfl, rfl, rfl, rfl, rfl, rfl, rfl, fun _ _ => rfl⟩ (same_setStk _ _ _)
    · exact Same.trans (b := { s with ecs := s.ecs.erase (t, k) }) ⟨rfl, rfl, rfl, rfl, rfl, rfl, rfl, rfl, fun _ _ => rfl⟩ (ih _)

theorem same_resume (s : St) (t fs) : Same s (resume s t fs) t := by
  unfold resume; split
  · exact same_drain _ _ _ _ _ _ _
  · exact same_vdrain _ _ _ _
  · exact same_setStk _ _ _

@[simp] theorem vdrain_lock (s : St) (t rest) (v : List ObjId) : (vdrain s t rest v).lock = s.lock := (same_vdrain s t rest v).lock
@[simp] theorem vdrain_hasCb (s : St) (t rest) (v : List ObjId) : (vdrain s t rest v).hasCb = s.hasCb := (same_vdrain s t rest v).hasCb
@[simp] theorem vdrain_ext (s : St) (t rest) (v : List ObjId) : (vdrain s t rest v).ext = s.ext := (same_vdrain s t rest v).ext
@[simp] theorem vdrain_dead (s : St) (t rest) (v : List ObjId) : (vdrain s t rest v).dead = s.dead := (same_vdrain s t rest v).dead
@[simp] theorem vdrain_created (s : St) (t rest) (v : List ObjId) : (vdrain s t rest v).created = s.created := (same_vdrain s t rest v).created
@[simp] theorem vdrain_destroyed (s : St) (t rest) (v : List ObjId) : (vdrain s t rest v).destroyed = s.destroyed := (same_vdrain s t rest v).destroyed
@[simp] theorem vdrain_added (s : St) (t rest) (v : List ObjId) : (vdrain s t rest v).added = s.added := (same_vdrain s t rest v).added
@[simp] theorem vdrain_reaped (s : St) (t rest) (v : List ObjId) : (vdrain s t rest v).reaped = s.reaped := (same_vdrain s t rest v).reaped
theorem vdrain_stk_other (s : St) (t rest) (v : List ObjId) {u : Tid} (h : u ≠ t) : (vdrain s t rest v).stk u = s.stk u := (same_vdrain s t rest v).stk u h
@[simp] theorem xTop_lock (s : St) (t ii rest) : (xTop s t ii rest).lock = s.lock := (same_xTop s t ii rest).lock
@[simp] theorem xTop_hasCb (s : St) (t ii rest) : (xTop s t ii rest).hasCb = s.hasCb := (same_xTop s t ii rest).hasCb
@[simp] theorem xTop_ext (s : St) (t ii rest) : (xTop s t ii rest).ext = s.ext := (same_xTop s t ii rest).ext
@[simp] theorem xTop_dead (s : St) (t ii rest) : (xTop s t ii rest).dead = s.dead := (same_xTop s t ii rest).dead
@[simp] theorem xTop_created (s : St) (t ii rest) : (xTop s t ii rest).created = s.created := (same_xTop s t ii rest).created
@[simp] theorem xTop_destroyed (s : St) (t ii rest) : (xTop s t ii rest).destroyed = s.destroyed := (same_xTop s t ii rest).destroyed
@[simp] theorem xTop_added (s : St) (t ii rest) : (xTop s t ii rest).added = s.added := (same_xTop s t ii rest).added
@[simp] theorem xTop_reaped (s : St) (t ii rest) : (xTop s t ii rest).reaped = s.reaped := (same_xTop s t ii rest).reaped
theorem xTop_stk_other (s : St) (t ii rest) {u : Tid} (h : u ≠ t) : (xTop s t ii rest).stk u = s.stk u := (same_xTop s t ii rest).stk u h
@[simp] theorem xAfter_lock (s : St) (t ii rest) : (xAfter s t ii rest).lock = s.lock := (same_xAfter s t ii rest).lock
@[simp] theorem xAfter_hasCb (s : St) (t ii rest) : (xAfter s t ii rest).hasCb = s.hasCb := (same_xAfter s t ii rest).hasCb
@[simp] theorem xAfter_ext (s : St) (t ii rest) : (xAfter s t ii rest).ext = s.ext := (same_xAfter s t ii rest).ext
@[simp] theorem xAfter_dead (s : St) (t ii rest) : (xAfter s t ii rest).dead = s.dead := (same_xAfter s t ii rest).dead
@[simp] theorem xAfter_created (s : St) (t ii rest) : (xAfter s t ii rest).created = s.created := (same_xAfter s t ii rest).created
@[simp] theorem xAfter_destroyed (s : St) (t ii rest) : (xAfter s t ii rest).destroyed = s.destroyed := (same_xAfter s t ii rest).destroyed
@[simp] theorem xAfter_added (s : St) (t ii rest) : (xAfter s t ii rest).added = s.added := (same_xAfter s t ii rest).added
@[simp] theorem xAfter_reaped (s : St) (t ii rest) : (xAfter s t ii rest).reaped = s.reaped := (same_xAfter s t ii rest).reaped
theorem xAfter_stk_other (s : St) (t ii rest) {u : Tid} (h : u ≠ t) : (xAfter s t ii rest).stk u = s.stk u := (same_xAfter s t ii rest).stk u h
@[simp] theorem dDone_lock (s : St) (t r rest) : (dDone s t r rest).lock = s.lock := (same_dDone s t r rest).lock
@[simp] theorem dDone_hasCb (s : St) (t r rest) : (dDone s t r rest).hasCb = s.hasCb := (same_dDone s t r rest).hasCb
@[simp] theorem dDone_ext (s : St) (t r rest) : (dDone s t r rest).ext = s.ext := (same_dDone s t r rest).ext
@[simp] theorem dDone_dead (s : St) (t r rest) : (dDone s t r rest).dead = s.dead := (same_dDone s t r rest).dead
@[simp] theorem dDone_created (s : St) (t r rest) : (dDone s t r rest).created = s.created := (same_dDone s t r rest).created
@[simp] theorem dDone_destroyed (s : St) (t r rest) : (dDone s t r rest).destroyed = s.destroyed := (same_dDone s t r rest).destroyed
@[simp] theorem dDone_added (s : St) (t r rest) : (dDone s t r rest).added = s.added := (same_dDone s t r rest).added
@[simp] theorem dDone_reaped (s : St) (t r rest) : (dDone s t r rest).reaped = s.reaped := (same_dDone s t r rest).reaped
theorem dDone_stk_other (s : St) (t r rest) {u : Tid} (h : u ≠ t) : (dDone s t r rest).stk u = s.stk u := (same_dDone s t r rest).stk u h
@[simp] theorem drain_lock (s : St) (t sz cbs thrown rest) (ec : List ObjId) : (drain s t sz cbs thrown rest ec).lock = s.lock := (same_drain s t sz cbs thrown rest ec).lock
@[simp] theorem drain_hasCb (s : St) (t sz cbs thrown rest) (ec : List ObjId) : (drain s t sz cbs thrown rest ec).hasCb = s.hasCb := (same_drain s t sz cbs thrown rest ec).hasCb
@[simp] theorem drain_ext (s : St) (t sz cbs thrown rest) (ec : List ObjId) : (drain s t sz cbs thrown rest ec).ext = s.ext := (same_drain s t sz cbs thrown rest ec).ext
@[simp] theorem drain_dead (s : St) (t sz cbs thrown rest) (ec : List ObjId) : (drain s t sz cbs thrown rest ec).dead = s.dead := (same_drain s t sz cbs thrown rest ec).dead
@[simp] theorem drain_created (s : St) (t sz cbs thrown rest) (ec : List ObjId) : (drain s t sz cbs thrown rest ec).created = s.created := (same_drain s t sz cbs thrown rest ec).created
@[simp] theorem drain_destroyed (s : St) (t sz cbs thrown rest) (ec : List ObjId) : (drain s t sz cbs thrown rest ec).destroyed = s.destroyed := (same_drain s t sz cbs thrown rest ec).destroyed
@[simp] theorem drain_added (s : St) (t sz cbs thrown rest) (ec : List ObjId) : (drain s t sz cbs thrown rest ec).added = s.added := (same_drain s t sz cbs thrown rest ec).added
@[simp] theorem drain_reaped (s : St) (t sz cbs thrown rest) (ec : List ObjId) : (drain s t sz cbs thrown rest ec).reaped = s.reaped := (same_drain s t sz cbs thrown rest ec).reaped
theorem drain_stk_other (s : St) (t sz cbs thrown rest) (ec : List ObjId) {u : Tid} (h : u ≠ t) : (drain s t sz cbs thrown rest ec).stk u = s.stk u := (same_drain s t sz cbs thrown rest ec).stk u h
@[simp] theorem resume_lock (s : St) (t fs) : (resume s t fs).lock = s.lock := (same_resume s t fs).lock
@[simp] theorem resume_hasCb (s : St) (t fs) : (resume s t fs).hasCb = s.hasCb := (same_resume s t fs).hasCb
@[simp] theorem resume_ext (s : St) (t fs) : (resume s t fs).ext = s.ext := (same_resume s t fs).ext
@[simp] theorem resume_dead (s : St) (t fs) : (resume s t fs).dead = s.dead := (same_resume s t fs).dead
@[simp] theorem resume_created (s : St) (t fs) : (resume s t fs).created = s.created := (same_resume s t fs).created
@[simp] theorem resume_destroyed (s : St) (t fs) : (resume s t fs).destroyed = s.destroyed := (same_resume s t fs).destroyed
@[simp] theorem resume_added (s : St) (t fs) : (resume s t fs).added = s.added := (same_resume s t fs).added
@[simp] theorem resume_reaped (s : St) (t fs) : (resume s t fs).reaped = s.reaped := (same_resume s t fs).reaped
theorem resume_stk_other (s : St) (t fs) {u : Tid} (h : u ≠ t) : (resume s t fs).stk u = s.stk u := (same_resume s t fs).stk u h

theorem select_stk_other (s : St) (t skip rest) {u : Tid} (h : u ≠ t) : (select s t skip rest).stk u = s.stk u := by
  unfold select; dsimp only; split <;> simp [setStk_stk_other, h]
@[simp] theorem select_lock (s : St) (t skip rest) : (select s t skip rest).lock = some t := by
  unfold select; dsimp only; split <;> rfl

/-- a step of `t` leaves the other threads' stacks alone -/
theorem stepUser_stk_other {s s' : St} {t : Tid} {fs e} (h : stepUser s t fs e = some s') {u : Tid} (hu : u ≠ t) :
    s'.stk u = s.stk u := by
  unfold stepUser at h
  split at h
  all_goals (try (repeat' (split at h)))
  all_goals (first | cases h | skip)
  all_goals (first | rfl | simp [setStk_stk_other, xTop_stk_other, St.decExt, hu])

theorem step_stk_other {s s' : St} {t : Tid} {e} (h : step s t e = some s') {u : Tid} (hu : u ≠ t) :
    s'.stk u = s.stk u := by
  unfold step at h
  split at h
  all_goals (first | exact stepUser_stk_other h hu | skip)
  all_goals (try (repeat' (split at h)))
  all_goals (first | cases h | skip)
  all_goals (first | rfl | simp [setStk_stk_other, xTop_stk_other, dDone_stk_other, drain_stk_other,
    resume_stk_other, select_stk_other, unlock, hu])

/-! ### Lock discipline: the lock holder's top frame is one of the critical-section frames -/

def holdsF : Frame → Bool
  | .addLocked _ | .sizeLocked | .dUnlock0 | .dUnlock1 _ _ | .dUnlock2 | .gUnlockS _ _ _ | .gUnlockD _ _ _ | .gUnlockE => true
  | _ => false

def holds : List Frame → Bool
  | f :: _ => holdsF f
  | [] => false

@[simp] theorem holds_cons (f : Frame) (r : List Frame) : holds (f :: r) = holdsF f := rfl

def InvL (s : St) : Prop := ∀ u, s.lock = some u → holds (s.stk u) = true

theorem select_holds (s : St) (t skip rest) : holds ((select s t skip rest).stk t) = true := by
  unfold select; dsimp only; split <;> simp [holds, holdsF]

theorem gNext_holds (len dc cnt es : Nat) : holdsF (gNext len dc cnt es) = true := by
  unfold gNext gBody; repeat' split
  all_goals rfl

theorem gBody_holds (len dc cnt : Nat) : holdsF (gBody len dc cnt) = true := by
  unfold gBody; split <;> rfl

theorem stepUser_lock {s s' : St} {t : Tid} {fs e} (h : stepUser s t fs e = some s') : s'.lock = s.lock := by
  unfold stepUser at h
  split at h
  all_goals (try (repeat' (split at h)))
  all_goals (first | cases h | skip)
  all_goals (first | rfl | simp)

theorem step_lock_cases {s s' : St} {t : Tid} {e} (h : step s t e = some s') :
    (s'.lock = some t ∧ holds (s'.stk t) = true) ∨ s'.lock = none ∨ (s'.lock = s.lock ∧ holds (s.stk t) = false) := by
  unfold step at h
  split at h
  all_goals (first | (right; right; exact ⟨stepUser_lock h, by simp [*, holds, holdsF]⟩) | skip)
  all_goals (try (repeat' (split at h)))
  all_goals (first | cases h | skip)
  all_goals (first | (simp [*, holds_cons, unlock, select_holds, gNext_holds, gBody_holds]; done)
                   | simp [*, holds, holdsF, unlock])

theorem invL_init (cb ns nt) : InvL (init cb ns nt) := by intro u h; simp [init] at h

theorem invL_step {s s' : St} {t : Tid} {e} (hI : InvL s) (h : step s t e = some s') : InvL s' := by
  intro u hu
  rcases step_lock_cases h with ⟨h1, h2⟩ | h1 | ⟨h1, h2⟩
  · have : u = t := by rw [h1] at hu; exact (Option.some.inj hu).symm
    subst this; exact h2
  · rw [h1] at hu; cases hu
  · rw [h1] at hu
    by_cases hut : u = t
    · subst hut; rw [hI u hu] at h2; cases h2
    · rw [step_stk_other h hut]; exact hI u hu

theorem invL_reachable {cb ns nt} {s : St} (h : Reachable cb ns nt s) : InvL s := by
  obtain ⟨es, hr⟩ := h
  exact runFrom_inv (Inv := InvL) (fun _ _ _ _ hi hs => invL_step hi hs) (invL_init cb ns nt) hr

@[simp] theorem select_hasCb (s : St) (t skip rest) : (select s t skip rest).hasCb = s.hasCb := by
  unfold select; dsimp only; split <;> rfl

theorem stepUser_hasCb {s s' : St} {t : Tid} {fs e} (h : stepUser s t fs e = some s') : s'.hasCb = s.hasCb := by
  unfold stepUser at h
  split at h
  all_goals (try (repeat' (split at h)))
  all_goals (first | cases h | skip)
  all_goals (first | rfl | simp)

theorem step_hasCb {s s' : St} {t : Tid} {e} (h : step s t e = some s') : s'.hasCb = s.hasCb := by
  unfold step at h
  split at h
  all_goals (first | exact stepUser_hasCb h | skip)
  all_goals (try (repeat' (split at h)))
  all_goals (first | cases h | skip)
  all_goals (first | rfl | simp [unlock])

end ConcVerif.DD
