import ConcVerif.Model.Deferred
/-! Invariants of the `deferred_guarded` model.

Proof device: `Step s t s'` is a relational presentation of `step` with one constructor per *kind*
of transition (about two dozen), each carrying exactly the facts the invariants need;
`step_sound : step s t e = some s' → Step s t s'`.  Every invariant group is then proved by
`cases` on `Step`.  The invariants talk about program counters only through the classifiers below,
so all pc-only moves that keep the classifiers are one case (`Step.move`). -/
namespace ConcVerif.Deferred

/-! ## pc classifiers -/

def Ctx.task : Ctx → Option TaskId
  | .mod k _ => some k
  | .sh _ => none

/-- holds `m` exclusively -/
def Pc.holdsX : Pc → Bool
  | .dLoad _ | .dClear _ | .dQLock _ | .dSwap _ | .dRun _ | .dIn _ _ | .aIn _ _ | .mUnl _ _ _ => true
  | _ => false

/-- holds `m` shared -/
def Pc.holdsS : Pc → Bool
  | .idle true | .sGot true | .ldHold _ => true
  | _ => false

/-- holds the queue mutex -/
def Pc.holdsQ : Pc → Bool
  | .qPush _ _ | .dSwap _ => true
  | _ => false

/-- the task of the `modify_*` call the thread is inside -/
def Pc.task : Pc → Option TaskId
  | .mTry k _ | .qLock k _ | .qPush k _ | .qFlag k _ | .mRet k _ _ | .aIn k _ | .mUnl k _ _ => some k
  | .dLoad c | .dClear c | .dQLock c | .dSwap c | .dRun c | .dIn c _ => c.task
  | _ => none

/-- … and that task is still in its submitter's hands (neither queued nor applied) -/
def Pc.prePub : Pc → Option TaskId
  | .mTry k _ | .qLock k _ | .qPush k _ => some k
  | .dLoad c | .dClear c | .dQLock c | .dSwap c | .dRun c | .dIn c _ => c.task
  | _ => none

/-- a drainer that has cleared the flag and not yet swapped the queue out -/
def Pc.between : Pc → Bool
  | .dQLock _ | .dSwap _ => true
  | _ => false

/-- a submitter that has pushed its task and not yet raised the flag -/
def Pc.atFlag : Pc → Option TaskId
  | .qFlag k _ => some k
  | _ => none

/-- in the batch loop (may own a non-empty batch) -/
def Pc.runs : Pc → Bool
  | .dRun _ | .dIn _ _ => true
  | _ => false

/-- inside the function of a task -/
def Pc.running : Pc → Option TaskId
  | .dIn _ j => some j
  | .aIn k _ => some k
  | _ => none

/-- direct path after the drain check: everything that had returned before the call is applied or in
the batch -/
def Pc.promise : Pc → Option TaskId
  | .dRun c | .dIn c _ => c.task
  | _ => none

/-- about to perform the shared acquisition (the drain attempt is over or was skipped) -/
def Pc.atAcq : Pc → Bool
  | .sAcq _ => true
  | _ => false

/-- phase of a drain: 1 = holds `m`, flag not yet cleared; 2 = cleared, queue not yet swapped; 3 = batch loop -/
def Pc.drPhase : Pc → Nat
  | .dLoad _ | .dClear _ => 1
  | .dQLock _ | .dSwap _ => 2
  | .dRun _ | .dIn _ _ => 3
  | _ => 0

structure SameClass (p p' : Pc) : Prop where
  hX : p'.holdsX = p.holdsX
  hS : p'.holdsS = p.holdsS
  hQ : p'.holdsQ = p.holdsQ
  task : p'.task = p.task
  prePub : p'.prePub = p.prePub
  between : p'.between = p.between
  atFlag : p'.atFlag = p.atFlag
  runs : p'.runs = p.runs
  running : p'.running = p.running
  promise : p'.promise = p.promise
  atAcq : p'.atAcq = true → p.atAcq = true
  drPhase : p'.drPhase = p.drPhase

theorem Pc.prePub_task {p : Pc} {k : TaskId} (h : p.prePub = some k) : p.task = some k := by
  cases p <;> simp_all [Pc.prePub, Pc.task]

theorem Pc.promise_prePub {p : Pc} {k : TaskId} (h : p.promise = some k) : p.prePub = some k := by
  cases p <;> simp_all [Pc.prePub, Pc.promise]

theorem Pc.promise_runs {p : Pc} {k : TaskId} (h : p.promise = some k) : p.runs = true := by
  cases p <;> simp_all [Pc.runs, Pc.promise]

theorem Pc.runs_holdsX {p : Pc} (h : p.runs = true) : p.holdsX = true := by
  cases p <;> simp_all [Pc.runs, Pc.holdsX]

theorem Pc.between_holdsX {p : Pc} (h : p.between = true) : p.holdsX = true := by
  cases p <;> simp_all [Pc.between, Pc.holdsX]

theorem Pc.running_holdsX {p : Pc} {k : TaskId} (h : p.running = some k) : p.holdsX = true := by
  cases p <;> simp_all [Pc.running, Pc.holdsX]

theorem Pc.atFlag_task {p : Pc} {k : TaskId} (h : p.atFlag = some k) : p.task = some k := by
  cases p <;> simp_all [Pc.atFlag, Pc.task]

/-! ## relational presentation of `step` -/

inductive Step (s : St) (t : Tid) : St → Prop
  | stutter : Step s t s
  | wr (v : Int) (hr : (s.pc t).holdsX = true) (hrun : ∃ k, (s.pc t).running = some k) :
      Step s t { s with val := v }
  | move (p p' : Pc) (hp : s.pc t = p) (hc : SameClass p p') : Step s t (s.setPc t p')
  | skipDrain (c : Ctx) (hp : s.pc t = .dLoad c) (hf : s.flag = false) : Step s t (s.setPc t (.dRun c))
  | skipShared (c : SCtx) (hp : s.pc t = .sFlag c) (hf : s.flag = false) : Step s t (s.setPc t (.sAcq c))
  | failTry (p p' : Pc) (hp : s.pc t = p)
      (hpp : (∃ k a, p = .mTry k a ∧ p' = .qLock k a) ∨ (∃ c, p = .sTry c ∧ p' = .sAcq c))
      (hfail : s.spur = true ∨ s.mx ≠ none ∨ s.sh ≠ []) : Step s t (s.setPc t p')
  | call (k : TaskId) (a : Bool) (hp : s.pc t = .idle false) (hsub : s.sub k = none) :
      Step s t ({ s with sub := upd s.sub k (some t), before := upd s.before k s.done }.setPc t (.mTry k a))
  | lockX (p p' : Pc) (hp : s.pc t = p)
      (hpp : (∃ k a, p = .mTry k a ∧ p' = .dLoad (.mod k a)) ∨ (∃ c, p = .sTry c ∧ p' = .dLoad (.sh c)))
      (hm : s.mx = none) (hs : s.sh = []) : Step s t ({ s with mx := some t }.setPc t p')
  | unlockXm (k : TaskId) (a thr : Bool) (hp : s.pc t = .mUnl k a thr) (hm : s.mx = some t) :
      Step s t ({ s with mx := none }.setPc t (.mRet k a thr))
  | unlockXs (c : SCtx) (hp : s.pc t = .dRun (.sh c)) (hb : s.batch = []) (hm : s.mx = some t) :
      Step s t ({ s with mx := none }.setPc t (.sAcq c))
  | lockS (c : SCtx) (p' : Pc) (hp : s.pc t = .sAcq c) (hp' : p' = .sGot true ∨ p' = .ldHold false) (hm : s.mx = none) :
      Step s t ({ s with sh := t :: s.sh }.setPc t p')
  | unlockS (p p' : Pc) (hp : s.pc t = p)
      (hpp : (p = .idle true ∧ p' = .idle false) ∨ (∃ thr, p = .ldHold thr ∧ p' = .ldRet thr)) (hin : t ∈ s.sh) :
      Step s t ({ s with sh := s.sh.erase t }.setPc t p')
  | lockQ (p p' : Pc) (hp : s.pc t = p)
      (hpp : (∃ k a, p = .qLock k a ∧ p' = .qPush k a) ∨ (∃ c, p = .dQLock c ∧ p' = .dSwap c)) (hq : s.qm = none) :
      Step s t ({ s with qm := some t }.setPc t p')
  | push (k : TaskId) (a : Bool) (hp : s.pc t = .qPush k a) (hq : s.qm = some t) :
      Step s t ({ s with qm := none, queue := s.queue ++ [k] }.setPc t (.qFlag k a))
  | raise (k : TaskId) (a : Bool) (hp : s.pc t = .qFlag k a) :
      Step s t ({ s with flag := true }.setPc t (.mRet k a false))
  | clear (c : Ctx) (hp : s.pc t = .dClear c) : Step s t ({ s with flag := false }.setPc t (.dQLock c))
  | swap (c : Ctx) (hp : s.pc t = .dSwap c) (hq : s.qm = some t) (hb : s.batch = []) :
      Step s t ({ s with qm := none, batch := s.queue, queue := [] }.setPc t (.dRun c))
  | applyHead (c : Ctx) (j : TaskId) (rest : List TaskId) (hp : s.pc t = .dRun c) (hb : s.batch = j :: rest) :
      Step s t ({ s with batch := rest, applied := s.applied ++ [j] }.setPc t (.dIn c j))
  | applyOwn (k : TaskId) (a : Bool) (hp : s.pc t = .dRun (.mod k a)) (hb : s.batch = []) :
      Step s t ({ s with applied := s.applied ++ [k] }.setPc t (.aIn k a))
  | endHead (c : Ctx) (j : TaskId) (o : Outcome) (hp : s.pc t = .dIn c j) :
      Step s t ({ s with out := upd s.out j (some o) }.setPc t (.dRun c))
  | endOwn (k : TaskId) (a thr : Bool) (o : Outcome) (hp : s.pc t = .aIn k a) :
      Step s t ({ s with out := upd s.out k (some o) }.setPc t (.mUnl k a thr))
  | done (k : TaskId) (a thr : Bool) (hp : s.pc t = .mRet k a thr) :
      Step s t ({ s with done := k :: s.done }.setPc t (.idle false))

theorem tryX_true {s : St} (h : s.tryX true = true) : s.mx = none ∧ s.sh = [] := by
  simpa [St.tryX] using h

theorem tryX_false {s : St} (h : s.tryX false = true) : s.spur = true ∨ s.mx ≠ none ∨ s.sh ≠ [] := by
  simp only [St.tryX, Bool.false_eq_true, if_false, Bool.or_eq_true, decide_eq_true_eq] at h
  rcases h with (h | h) | h
  · exact Or.inl h
  · exact Or.inr (Or.inl h)
  · exact Or.inr (Or.inr h)

macro "same_class" : tactic =>
  `(tactic| (constructor <;> simp [Pc.holdsX, Pc.holdsS, Pc.holdsQ, Pc.task, Pc.prePub, Pc.between, Pc.atFlag, Pc.runs,
      Pc.running, Pc.promise, Pc.atAcq, Pc.drPhase, Ctx.task]))

theorem step_sound {s s' : St} {t : Tid} {e : Ev} (hs : step s t e = some s') : Step s t s' := by
  unfold step at hs
  split at hs
  · -- callMod
    rename_i k a hp; split at hs
    · rename_i hsub; injection hs with hs; subst hs; exact .call k a hp hsub
    · contradiction
  · rename_i h hp; injection hs with hs; subst hs; exact .move _ _ hp (by same_class)
  · rename_i hp; injection hs with hs; subst hs; exact .move _ _ hp (by same_class)
  · -- idle true, prd
    split at hs
    · injection hs with hs; subst hs; exact .stutter
    · contradiction
  · -- idle true, sul
    rename_i hp; split at hs
    · rename_i hin; injection hs with hs; subst hs; exact .unlockS _ _ hp (Or.inl ⟨rfl, rfl⟩) hin
    · contradiction
  · split at hs
    · injection hs with hs; subst hs; exact .stutter
    · contradiction
  · split at hs
    · injection hs with hs; subst hs; exact .stutter
    · contradiction
  · -- mTry, mtl
    rename_i k a ok hp; split at hs
    · rename_i hg; split at hs
      · rename_i hok; subst hok; injection hs with hs; subst hs
        exact .lockX _ _ hp (Or.inl ⟨k, a, rfl, rfl⟩) (tryX_true hg).1 (tryX_true hg).2
      · rename_i hok
        have hok' : ok = false := by cases ok <;> simp_all
        subst hok'
        injection hs with hs; subst hs; exact .failTry _ _ hp (Or.inl ⟨k, a, rfl, rfl⟩) (tryX_false hg)
    · contradiction
  · rename_i k a hp; split at hs
    · rename_i hq; injection hs with hs; subst hs; exact .lockQ _ _ hp (Or.inl ⟨k, a, rfl, rfl⟩) hq
    · contradiction
  · rename_i k a hp; split at hs
    · rename_i hq; injection hs with hs; subst hs; exact .push k a hp hq
    · contradiction
  · rename_i k a v hp; split at hs
    · injection hs with hs; subst hs; exact .raise k a hp
    · contradiction
  · rename_i k a thr hp; split at hs
    · injection hs with hs; subst hs; exact .done k a thr hp
    · contradiction
  · rename_i k a thr hp; split at hs
    · injection hs with hs; subst hs; exact .done k a thr hp
    · contradiction
  · -- sFlag, fld
    rename_i c v hp; split at hs
    · rename_i hv; injection hs with hs; subst hs
      cases v
      · exact .skipShared c hp hv.symm
      · exact .move _ _ hp (by same_class)
    · contradiction
  · -- sTry, mtl
    rename_i c ok hp; split at hs
    · rename_i hg; split at hs
      · rename_i hok; subst hok; injection hs with hs; subst hs
        exact .lockX _ _ hp (Or.inr ⟨c, rfl, rfl⟩) (tryX_true hg).1 (tryX_true hg).2
      · rename_i hok
        have hok' : ok = false := by cases ok <;> simp_all
        subst hok'
        injection hs with hs; subst hs; exact .failTry _ _ hp (Or.inr ⟨c, rfl, rfl⟩) (tryX_false hg)
    · contradiction
  · -- dLoad, fld
    rename_i c v hp; split at hs
    · rename_i hv; injection hs with hs; subst hs
      cases v
      · exact .skipDrain c hp hv.symm
      · exact .move _ _ hp (by same_class)
    · contradiction
  · rename_i c v hp; split at hs
    · injection hs with hs; subst hs; exact .clear c hp
    · contradiction
  · rename_i c hp; split at hs
    · rename_i hq; injection hs with hs; subst hs; exact .lockQ _ _ hp (Or.inr ⟨c, rfl, rfl⟩) hq
    · contradiction
  · rename_i c hp; split at hs
    · rename_i hq; injection hs with hs; subst hs; exact .swap c hp hq.1 hq.2
    · contradiction
  · -- dRun, ucb
    rename_i c j hp; split at hs
    · rename_i b rest hb; split at hs
      · rename_i hj; subst hj; injection hs with hs; subst hs; exact .applyHead c j rest hp hb
      · contradiction
    · rename_i hb; split at hs
      · rename_i k a; split at hs
        · rename_i hj; subst hj; injection hs with hs; subst hs; exact .applyOwn j a hp hb
        · contradiction
      · contradiction
  · rename_i c hp; split at hs
    · rename_i hq; injection hs with hs; subst hs; exact .unlockXs c hp hq.1 hq.2
    · contradiction
  · split at hs
    · injection hs with hs; subst hs; exact .stutter
    · contradiction
  · rename_i c j v hp; injection hs with hs; subst hs; exact .wr v (by simp [hp, Pc.holdsX]) ⟨j, by simp [hp, Pc.running]⟩
  · rename_i c j j' r hp; split at hs
    · injection hs with hs; subst hs; exact .endHead c j _ hp
    · contradiction
  · rename_i c j j' hp; split at hs
    · injection hs with hs; subst hs; exact .endHead c j _ hp
    · contradiction
  · split at hs
    · injection hs with hs; subst hs; exact .stutter
    · contradiction
  · rename_i k a v hp; injection hs with hs; subst hs; exact .wr v (by simp [hp, Pc.holdsX]) ⟨k, by simp [hp, Pc.running]⟩
  · rename_i k a k' r hp; split at hs
    · injection hs with hs; subst hs; exact .endOwn k a _ _ hp
    · contradiction
  · rename_i k a k' hp; split at hs
    · injection hs with hs; subst hs; exact .endOwn k a _ _ hp
    · contradiction
  · rename_i k a thr hp; split at hs
    · rename_i hm; injection hs with hs; subst hs; exact .unlockXm k a thr hp hm
    · contradiction
  · -- sAcq, slk
    rename_i c hp; split at hs
    · rename_i hg; injection hs with hs; subst hs
      refine .lockS c _ hp ?_ hg.2
      cases c <;> simp [SCtx.granted]
    · contradiction
  · rename_i ok hp; split at hs
    · split at hs
      · rename_i hm; injection hs with hs; subst hs; exact .lockS _ _ hp (Or.inl rfl) hm
      · contradiction
    · injection hs with hs; subst hs; exact .move _ _ hp (by same_class)
  · rename_i h ok hp; split at hs
    · split at hs
      · split at hs
        · rename_i hm; injection hs with hs; subst hs; exact .lockS _ _ hp (Or.inl rfl) hm
        · contradiction
      · injection hs with hs; subst hs; exact .move _ _ hp (by same_class)
    · contradiction
  · rename_i ok b hp; split at hs
    · injection hs with hs; subst hs
      cases ok <;> exact .move _ _ hp (by same_class)
    · contradiction
  · split at hs
    · injection hs with hs; subst hs; exact .stutter
    · contradiction
  · rename_i thr k hp; split at hs
    · injection hs with hs; subst hs; exact .move _ _ hp (by same_class)
    · contradiction
  · rename_i thr hp; split at hs
    · rename_i hin; injection hs with hs; subst hs; exact .unlockS _ _ hp (Or.inr ⟨thr, rfl, rfl⟩) hin
    · contradiction
  · rename_i thr hp; split at hs
    · injection hs with hs; subst hs; exact .move _ _ hp (by same_class)
    · contradiction
  · rename_i thr hp; split at hs
    · injection hs with hs; subst hs; exact .move _ _ hp (by same_class)
    · contradiction
  · contradiction

/-! ## generalities -/

@[simp] theorem setPc_pc (s : St) (t : Tid) (p : Pc) : (s.setPc t p).pc = upd s.pc t p := rfl

theorem upd_class {α : Type} (f : Pc → α) (pc : Tid → Pc) (t : Tid) (p' : Pc) (h : f p' = f (pc t)) (u : Tid) :
    f (upd pc t p' u) = f (pc u) := by
  by_cases hu : u = t
  · subst hu; simp [h]
  · simp [hu]

/-- `a` occurs strictly before `b` in `l` -/
def Prec (l : List TaskId) (a b : TaskId) : Prop := ∃ l1 l2, l = l1 ++ b :: l2 ∧ a ∈ l1

theorem Prec.append_right {l : List TaskId} {a b : TaskId} (h : Prec l a b) (r : List TaskId) : Prec (l ++ r) a b := by
  obtain ⟨l1, l2, hl, ha⟩ := h
  exact ⟨l1, l2 ++ r, by simp [hl], ha⟩

theorem Prec.snoc {l : List TaskId} {a : TaskId} (h : a ∈ l) (b : TaskId) : Prec (l ++ [b]) a b :=
  ⟨l, [], rfl, h⟩

theorem Prec.of_cons {x : TaskId} {l : List TaskId} {a b : TaskId} (h : Prec (x :: l) a b) : a = x ∨ Prec l a b := by
  obtain ⟨l1, l2, hl, ha⟩ := h
  cases l1 with
  | nil => simp at ha
  | cons y ys =>
    simp only [List.cons_append, List.cons.injEq] at hl
    obtain ⟨hxy, hl⟩ := hl
    subst hxy
    simp only [List.mem_cons] at ha
    rcases ha with ha | ha
    · exact Or.inl ha
    · exact Or.inr ⟨ys, l2, hl, ha⟩

theorem Prec.mem_left {l : List TaskId} {a b : TaskId} (h : Prec l a b) : a ∈ l := by
  obtain ⟨l1, l2, hl, ha⟩ := h
  subst hl; simp [ha]

theorem Prec.mem_right {l : List TaskId} {a b : TaskId} (h : Prec l a b) : b ∈ l := by
  obtain ⟨l1, l2, hl, _⟩ := h
  subst hl; simp

/-! ## group L: the three mutexes -/

structure InvL (s : St) : Prop where
  xs : s.mx ≠ none → s.sh = []
  shN : s.sh.Nodup
  shP : ∀ u, u ∈ s.sh ↔ (s.pc u).holdsS = true
  mxP : ∀ u, s.mx = some u ↔ (s.pc u).holdsX = true
  qmP : ∀ u, s.qm = some u ↔ (s.pc u).holdsQ = true

theorem invL_init (spur : Bool) : InvL (init spur) := by
  constructor <;> simp [init, Pc.holdsS, Pc.holdsX, Pc.holdsQ]

/-- nothing that group L mentions changes -/
theorem invL_congr {s s' : St} (h : InvL s) (hX : ∀ u, (s'.pc u).holdsX = (s.pc u).holdsX)
    (hS : ∀ u, (s'.pc u).holdsS = (s.pc u).holdsS) (hQ : ∀ u, (s'.pc u).holdsQ = (s.pc u).holdsQ)
    (hmx : s'.mx = s.mx) (hsh : s'.sh = s.sh) (hqm : s'.qm = s.qm) : InvL s' := by
  obtain ⟨h1, h2, h3, h4, h5⟩ := h
  refine ⟨?_, ?_, ?_, ?_, ?_⟩
  · rw [hmx, hsh]; exact h1
  · rw [hsh]; exact h2
  · intro u; rw [hsh, hS]; exact h3 u
  · intro u; rw [hmx, hX]; exact h4 u
  · intro u; rw [hqm, hQ]; exact h5 u

/-- pc-only move of `t` that keeps the three lock classifiers (other fields arbitrary) -/
theorem invL_move {s s' : St} {t : Tid} {p' : Pc} (h : InvL s) (hpc : s'.pc = upd s.pc t p')
    (hX : p'.holdsX = (s.pc t).holdsX) (hS : p'.holdsS = (s.pc t).holdsS) (hQ : p'.holdsQ = (s.pc t).holdsQ)
    (hmx : s'.mx = s.mx) (hsh : s'.sh = s.sh) (hqm : s'.qm = s.qm) : InvL s' := by
  refine invL_congr h ?_ ?_ ?_ hmx hsh hqm
  · intro u; rw [hpc]; exact upd_class Pc.holdsX s.pc t p' hX u
  · intro u; rw [hpc]; exact upd_class Pc.holdsS s.pc t p' hS u
  · intro u; rw [hpc]; exact upd_class Pc.holdsQ s.pc t p' hQ u

theorem invL_lockX {s s' : St} {t : Tid} {p' : Pc} (h : InvL s) (hpc : s'.pc = upd s.pc t p')
    (hm : s.mx = none) (hs : s.sh = []) (hX : p'.holdsX = true)
    (hS : p'.holdsS = (s.pc t).holdsS) (hQ : p'.holdsQ = (s.pc t).holdsQ)
    (hmx : s'.mx = some t) (hsh : s'.sh = s.sh) (hqm : s'.qm = s.qm) : InvL s' := by
  obtain ⟨h1, h2, h3, h4, h5⟩ := h
  refine ⟨?_, ?_, ?_, ?_, ?_⟩
  · intro _; rw [hsh]; exact hs
  · rw [hsh]; exact h2
  · intro u; rw [hsh, hpc, upd_class Pc.holdsS s.pc t p' hS u]; exact h3 u
  · intro u; rw [hmx, hpc]
    by_cases hu : u = t
    · subst hu; simp [hX]
    · simp only [upd_other _ _ _ _ hu]
      have := h4 u; rw [hm] at this
      constructor
      · intro h'; injection h' with h'; exact absurd h'.symm hu
      · intro h'; exact absurd (this.2 h') (by simp)
  · intro u; rw [hqm, hpc, upd_class Pc.holdsQ s.pc t p' hQ u]; exact h5 u

theorem invL_unlockX {s s' : St} {t : Tid} {p' : Pc} (h : InvL s) (hpc : s'.pc = upd s.pc t p')
    (hm : s.mx = some t) (hX : p'.holdsX = false)
    (hS : p'.holdsS = (s.pc t).holdsS) (hQ : p'.holdsQ = (s.pc t).holdsQ)
    (hmx : s'.mx = none) (hsh : s'.sh = s.sh) (hqm : s'.qm = s.qm) : InvL s' := by
  obtain ⟨h1, h2, h3, h4, h5⟩ := h
  refine ⟨?_, ?_, ?_, ?_, ?_⟩
  · intro h'; exact absurd hmx h'
  · rw [hsh]; exact h2
  · intro u; rw [hsh, hpc, upd_class Pc.holdsS s.pc t p' hS u]; exact h3 u
  · intro u; rw [hmx, hpc]
    by_cases hu : u = t
    · subst hu; simp [hX]
    · simp only [upd_other _ _ _ _ hu]
      have := h4 u; rw [hm] at this
      constructor
      · intro h'; cases h'
      · intro h'; have := this.2 h'; injection this with this; exact absurd this.symm hu
  · intro u; rw [hqm, hpc, upd_class Pc.holdsQ s.pc t p' hQ u]; exact h5 u

theorem invL_lockS {s s' : St} {t : Tid} {p' : Pc} (h : InvL s) (hpc : s'.pc = upd s.pc t p')
    (hm : s.mx = none) (hnS : (s.pc t).holdsS = false) (hS : p'.holdsS = true)
    (hX : p'.holdsX = (s.pc t).holdsX) (hQ : p'.holdsQ = (s.pc t).holdsQ)
    (hmx : s'.mx = s.mx) (hsh : s'.sh = t :: s.sh) (hqm : s'.qm = s.qm) : InvL s' := by
  obtain ⟨h1, h2, h3, h4, h5⟩ := h
  have hnin : t ∉ s.sh := by intro hin; have := (h3 t).1 hin; rw [hnS] at this; cases this
  refine ⟨?_, ?_, ?_, ?_, ?_⟩
  · intro h'; rw [hmx, hm] at h'; exact absurd rfl h'
  · rw [hsh]; exact List.nodup_cons.2 ⟨hnin, h2⟩
  · intro u; rw [hsh, hpc]
    by_cases hu : u = t
    · subst hu; simp [hS]
    · simp only [upd_other _ _ _ _ hu, List.mem_cons, hu, false_or]; exact h3 u
  · intro u; rw [hmx, hpc, upd_class Pc.holdsX s.pc t p' hX u]; exact h4 u
  · intro u; rw [hqm, hpc, upd_class Pc.holdsQ s.pc t p' hQ u]; exact h5 u

theorem invL_unlockS {s s' : St} {t : Tid} {p' : Pc} (h : InvL s) (hpc : s'.pc = upd s.pc t p')
    (hS : p'.holdsS = false)
    (hX : p'.holdsX = (s.pc t).holdsX) (hQ : p'.holdsQ = (s.pc t).holdsQ)
    (hmx : s'.mx = s.mx) (hsh : s'.sh = s.sh.erase t) (hqm : s'.qm = s.qm) : InvL s' := by
  obtain ⟨h1, h2, h3, h4, h5⟩ := h
  refine ⟨?_, ?_, ?_, ?_, ?_⟩
  · intro h'; rw [hmx] at h'; rw [hsh, h1 h']; rfl
  · rw [hsh]; exact h2.erase t
  · intro u; rw [hsh, hpc]
    by_cases hu : u = t
    · subst hu; simp [hS, h2.mem_erase_iff]
    · simp only [upd_other _ _ _ _ hu, h2.mem_erase_iff, ne_eq, hu, not_false_eq_true, true_and]; exact h3 u
  · intro u; rw [hmx, hpc, upd_class Pc.holdsX s.pc t p' hX u]; exact h4 u
  · intro u; rw [hqm, hpc, upd_class Pc.holdsQ s.pc t p' hQ u]; exact h5 u

theorem invL_lockQ {s s' : St} {t : Tid} {p' : Pc} (h : InvL s) (hpc : s'.pc = upd s.pc t p')
    (hq : s.qm = none) (hQ : p'.holdsQ = true)
    (hX : p'.holdsX = (s.pc t).holdsX) (hS : p'.holdsS = (s.pc t).holdsS)
    (hmx : s'.mx = s.mx) (hsh : s'.sh = s.sh) (hqm : s'.qm = some t) : InvL s' := by
  obtain ⟨h1, h2, h3, h4, h5⟩ := h
  refine ⟨?_, ?_, ?_, ?_, ?_⟩
  · rw [hmx, hsh]; exact h1
  · rw [hsh]; exact h2
  · intro u; rw [hsh, hpc, upd_class Pc.holdsS s.pc t p' hS u]; exact h3 u
  · intro u; rw [hmx, hpc, upd_class Pc.holdsX s.pc t p' hX u]; exact h4 u
  · intro u; rw [hqm, hpc]
    by_cases hu : u = t
    · subst hu; simp [hQ]
    · simp only [upd_other _ _ _ _ hu]
      have := h5 u; rw [hq] at this
      constructor
      · intro h'; injection h' with h'; exact absurd h'.symm hu
      · intro h'; exact absurd (this.2 h') (by simp)

theorem invL_unlockQ {s s' : St} {t : Tid} {p' : Pc} (h : InvL s) (hpc : s'.pc = upd s.pc t p')
    (hq : s.qm = some t) (hQ : p'.holdsQ = false)
    (hX : p'.holdsX = (s.pc t).holdsX) (hS : p'.holdsS = (s.pc t).holdsS)
    (hmx : s'.mx = s.mx) (hsh : s'.sh = s.sh) (hqm : s'.qm = none) : InvL s' := by
  obtain ⟨h1, h2, h3, h4, h5⟩ := h
  refine ⟨?_, ?_, ?_, ?_, ?_⟩
  · rw [hmx, hsh]; exact h1
  · rw [hsh]; exact h2
  · intro u; rw [hsh, hpc, upd_class Pc.holdsS s.pc t p' hS u]; exact h3 u
  · intro u; rw [hmx, hpc, upd_class Pc.holdsX s.pc t p' hX u]; exact h4 u
  · intro u; rw [hqm, hpc]
    by_cases hu : u = t
    · subst hu; simp [hQ]
    · simp only [upd_other _ _ _ _ hu]
      have := h5 u; rw [hq] at this
      constructor
      · intro h'; cases h'
      · intro h'; have := this.2 h'; injection this with this; exact absurd this.symm hu

macro "cls" : tactic =>
  `(tactic| simp_all [Pc.holdsX, Pc.holdsS, Pc.holdsQ, Pc.task, Pc.prePub, Pc.between, Pc.atFlag, Pc.runs,
      Pc.running, Pc.promise, Pc.atAcq, Pc.drPhase, Ctx.task])

theorem invL_step {s s' : St} {t : Tid} (h : InvL s) (hs : Step s t s') : InvL s' := by
  cases hs with
  | stutter => exact h
  | wr v hr _ => exact invL_congr h (fun _ => rfl) (fun _ => rfl) (fun _ => rfl) rfl rfl rfl
  | move p p' hp hc =>
    subst hp; exact invL_move h rfl hc.hX hc.hS hc.hQ rfl rfl rfl
  | skipDrain c hp hf => exact invL_move h rfl (by cls) (by cls) (by cls) rfl rfl rfl
  | skipShared c hp hf => exact invL_move h rfl (by cls) (by cls) (by cls) rfl rfl rfl
  | failTry p p' hp hpp hfail =>
    subst hp
    rcases hpp with ⟨k, a, h1, h2⟩ | ⟨c, h1, h2⟩ <;> subst h2 <;>
      exact invL_move h rfl (by cls) (by cls) (by cls) rfl rfl rfl
  | call k a hp hsub => exact invL_move h rfl (by cls) (by cls) (by cls) rfl rfl rfl
  | lockX p p' hp hpp hm hs =>
    subst hp
    rcases hpp with ⟨k, a, h1, h2⟩ | ⟨c, h1, h2⟩ <;> subst h2 <;>
      exact invL_lockX h rfl hm hs (by cls) (by cls) (by cls) rfl rfl rfl
  | unlockXm k a thr hp hm => exact invL_unlockX h rfl hm (by cls) (by cls) (by cls) rfl rfl rfl
  | unlockXs c hp hb hm => exact invL_unlockX h rfl hm (by cls) (by cls) (by cls) rfl rfl rfl
  | lockS c p' hp hp' hm =>
    rcases hp' with h2 | h2 <;> subst h2 <;>
      exact invL_lockS h rfl hm (by cls) (by cls) (by cls) (by cls) rfl rfl rfl
  | unlockS p p' hp hpp hin =>
    subst hp
    rcases hpp with ⟨h1, h2⟩ | ⟨thr, h1, h2⟩ <;> subst h2 <;>
      exact invL_unlockS h rfl (by cls) (by cls) (by cls) rfl rfl rfl
  | lockQ p p' hp hpp hq =>
    subst hp
    rcases hpp with ⟨k, a, h1, h2⟩ | ⟨c, h1, h2⟩ <;> subst h2 <;>
      exact invL_lockQ h rfl hq (by cls) (by cls) (by cls) rfl rfl rfl
  | push k a hp hq => exact invL_unlockQ h rfl hq (by cls) (by cls) (by cls) rfl rfl rfl
  | raise k a hp => exact invL_move h rfl (by cls) (by cls) (by cls) rfl rfl rfl
  | clear c hp => exact invL_move h rfl (by cls) (by cls) (by cls) rfl rfl rfl
  | swap c hp hq hb => exact invL_unlockQ h rfl hq (by cls) (by cls) (by cls) rfl rfl rfl
  | applyHead c j rest hp hb => exact invL_move h rfl (by cls) (by cls) (by cls) rfl rfl rfl
  | applyOwn k a hp hb => exact invL_move h rfl (by cls) (by cls) (by cls) rfl rfl rfl
  | endHead c j o hp => exact invL_move h rfl (by cls) (by cls) (by cls) rfl rfl rfl
  | endOwn k a thr o hp => exact invL_move h rfl (by cls) (by cls) (by cls) rfl rfl rfl
  | done k a thr hp => exact invL_move h rfl (by cls) (by cls) (by cls) rfl rfl rfl

/-- the exclusive holder is unique and is exactly the thread at a holding pc -/
theorem InvL.holder_eq {s : St} (h : InvL s) {t u : Tid} (ht : (s.pc t).holdsX = true) (hu : (s.pc u).holdsX = true) :
    u = t := by
  have a := (h.mxP t).2 ht
  have b := (h.mxP u).2 hu
  rw [a] at b; injection b with b; exact b.symm

end ConcVerif.Deferred
