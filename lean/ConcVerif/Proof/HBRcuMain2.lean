import ConcVerif.Proof.HBRcuReclaim
/-! rcu_list and happens-before, part 20: the reclamation invariants hold along every accepted trace that has
not entered the list destructor; destruction and deallocation of a node happen-after every access to it
(`node_reclaim`). -/
namespace ConcVerif.Rcu
open HB (HBeq Kn)

structure HInvC (w : Ords) (sel : Bool) (es : List (Tid × Ev)) (s : St) : Prop where
  base : HInv w sel es s
  st : ST es s
  uc : UC es
  sk : SK w sel es s
  tn : TN w sel es s

theorem hinvC_init (w : Ords) (sel : Bool) : HInvC w sel [] init := by
  refine ⟨hinv_init w sel, ?_, ?_, ?_, ?_⟩
  · intro q y x o v hq; simp at hq
  · intro q q' y y' x o o' v v' hq; simp at hq
  · intro t x _ q y o v hq; simp at hq
  · intro i u e d hi; simp at hi

theorem hinvC_step {w : Ords} (hw : w.OK) {sel : Bool} {es : List (Tid × Ev)} {s s' : St} {t : Tid} {e : Ev}
    (hx : InvX s) (hi' : Inv s') (hzo : ZO s) (hdt : s.dt = false) (h : HInvC w sel es s) (hS : Step s t e s') :
    HInvC w sel (es ++ [(t, e)]) s' := by
  have hi := hx.i
  have hnd := not_inDtor hi hdt t
  have hsk := SK_step hw hi hi' hnd h.base.scd h.uc h.sk hS
  exact ⟨hinv_step hw hi hi' hdt h.base hS, ST_step hi hnd h.st hS, UC_step hi h.st h.uc hS, hsk,
    TN_step hx hi' hzo hnd h.sk hsk h.tn hS⟩

theorem hinvC_run {w : Ords} (hw : w.OK) {sel : Bool} {es : List (Tid × Ev)} {s : St} (h : run es = some s)
    (hdt : s.dt = false) : HInvC w sel es s := by
  induction es using HB.snoc_induction generalizing s with
  | h0 => simp [run] at h; subst h; exact hinvC_init w sel
  | hs es x ih =>
    obtain ⟨t, e⟩ := x
    obtain ⟨s1, h1, h2⟩ := run_snoc h
    have hx : InvX s1 := invX_reachable ⟨es, h1⟩
    have hi' : Inv s := inv_reachable ⟨_, h⟩
    have hS := step_sound h2
    have hdt1 := dt_mono hS hdt
    exact hinvC_step hw hx hi' (zo_reachable ⟨es, h1⟩) hdt1 (ih h1 hdt1) hS

/-- **reclamation of nodes**: the destruction and the deallocation of a node happen-after every access to it -/
theorem node_reclaim {w : Ords} (hw : w.OK) {sel : Bool} {es : List (Tid × Ev)} {s : St} (h : run es = some s)
    (hdt : s.dt = false) {i j : Nat} {u t : Tid} {ei ej : Ev} {d : Nat} (hij : i < j) (hi : es[i]? = some (u, ei))
    (hj : es[j]? = some (t, ej)) (hacc : ei.nodeAcc = some d) (hend : ej.nodeEnd = some d) :
    HB.HB (hbTrace w sel es) i j := by
  refine at_last (P := fun a b => a.nodeAcc = some d ∧ b.nodeEnd = some d) ?_ h hdt hij hi hj ⟨hacc, hend⟩
  intro es s s' t u e ei i hr hdt' hs hq hp
  have hS := step_sound hs
  have hdt1 := dt_mono hS hdt'
  exact node_end_last (invX_reachable ⟨es, hr⟩) hdt1 (hinvC_run hw hr hdt1).tn hS hp.2 hq hp.1

end ConcVerif.Rcu
