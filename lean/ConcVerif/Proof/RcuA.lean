import ConcVerif.Proof.RcuStep
import ConcVerif.Proof.RcuList
import ConcVerif.Proof.RcuSimp
/-! Layer A of the rcu_list invariant: control state (handles, write mutex, destructor phase). -/
namespace ConcVerif.Rcu

/-- pcs at which the thread holds the write mutex -/
def holdsW : Pc → Bool
  | .pAlloc _ | .pCons .. | .pThrown _ | .pLoad .. | .pE1 .. | .pE2 .. | .pF1 .. | .pF2 .. | .pF3 .. | .pB1 .. | .pB2 ..
  | .pB3 .. | .pUnlock _ | .eOrig .. | .eDel .. | .eMark .. | .eBack .. | .eNext .. | .eUnl .. | .eFix .. | .eAlloc ..
  | .eCons .. | .eZh .. | .eUnlock _ => true
  | .pushStore (.erase _) .. | .pushCas (.erase _) .. => true
  | _ => false

def inDtor : Pc → Bool
  | .called .dtor | .dNext _ | .dDesN .. | .dFreN .. | .dZhead | .dOwner _ | .dRNext _ | .dZn .. | .dDesZN .. | .dFreZN ..
  | .dDesZ .. | .dFreZ .. | .retp .dtor => true
  | _ => false

/-- the record a release works for -/
def myRec : Pc → Option Nat
  | .uOwner r _ _ | .uNext r _ _ | .rZn r _ | .rDesN r _ _ | .rFreN r _ _ | .rNext r _ | .rDesZ r _ _ | .rFreZ r _ _
  | .uTrunc r | .uClear r => some r
  | _ => none

def needsIt : Pc → Bool
  | .called .nxt | .called .der | .called (.erase _) => true
  | _ => false

/-- what the handle must be at this pc: 0 = none, 1 = fresh, 2 = registered, 3 = any non-none, 4 = anything -/
def hcls : Pc → Nat
  | .idle => 4
  | .called (.lock _) => 0
  | .called .dtor => 0
  | .called .rel => 3 | .called .beg => 3 | .called (.push ..) => 3
  | .called _ => 2
  | .retp .rel => 0
  | .retp (.lock _) => 4
  | .retp .dtor => 0
  | .retp _ => 2
  | .regAlloc .. | .regCons .. | .pushStore (.reg _) .. | .pushCas (.reg _) .. | .rExc _ => 1
  | .dNext _ | .dDesN .. | .dFreN .. | .dZhead | .dOwner _ | .dRNext _ | .dZn .. | .dDesZN .. | .dFreZN ..
  | .dDesZ .. | .dFreZ .. => 0
  | _ => 2

def Op.isPush : Op → Bool
  | .push .. => true | _ => false
def Op.regOp : Op → Bool
  | .beg => true | .push .. => true | _ => false
/-- operations that can leave their critical section with an exception -/
def Op.canThrow : Op → Bool
  | .push .. => true | .erase _ => true | _ => false

/-- the operation a pc belongs to is of the right kind -/
def opOk : Pc → Bool
  | .pThrown k | .pExc k => k.canThrow
  | .rExc k => k.regOp
  | .pAlloc k | .pCons k _ | .pLoad k _ | .pE1 k _ | .pE2 k _ | .pF1 k _ _ | .pF2 k _ _ | .pF3 k _
  | .pB1 k _ _ | .pB2 k _ _ | .pB3 k _ | .pUnlock k => k.isPush
  | .regAlloc k _ | .regCons k _ | .pushStore (.reg k) _ _ | .pushCas (.reg k) _ _ => k.regOp
  | _ => true

def Hnd.isReg : Hnd → Bool
  | .reg _ _ => true | _ => false
def Hnd.isFresh : Hnd → Bool
  | .fresh _ => true | _ => false
def Hnd.isNone : Hnd → Bool
  | .none => true | _ => false

def hndOk (p : Pc) (h : Hnd) : Bool :=
  match hcls p with
  | 0 => h.isNone
  | 1 => h.isFresh
  | 2 => h.isReg
  | 3 => !h.isNone
  | _ => true

structure InvA (s : St) : Prop where
  liveNd : s.live.Nodup
  liveIff : ∀ t, t ∈ s.live ↔ s.hnd t ≠ .none
  hok : ∀ t, hndOk (s.pc t) (s.hnd t) = true
  wm : ∀ t, holdsW (s.pc t) = true ↔ s.wmtx = some t
  wrW : ∀ t, holdsW (s.pc t) = true → ∃ r, s.hnd t = .reg true r
  dtd : ∀ t, inDtor (s.pc t) = true → s.dt = true
  dtl : s.dt = true → s.live = []
  dtu : ∀ t u, inDtor (s.pc t) = true → inDtor (s.pc u) = true → t = u
  myr : ∀ t r, myRec (s.pc t) = some r → ∃ w, s.hnd t = .reg w r
  itr : ∀ t, s.it t ≠ none → ∃ w r, s.hnd t = .reg w r
  itc : ∀ t, needsIt (s.pc t) = true → ∃ c, s.it t = some (some c)
  opk : ∀ t, opOk (s.pc t) = true

theorem invA_init : InvA init := by
  constructor <;> simp [init, hndOk, hcls, Hnd.isNone, holdsW, inDtor, myRec, needsIt, opOk]

/-- InvA depends only on the control fields -/
theorem invA_congr {s s' : St} (h : InvA s) (h1 : s'.live = s.live) (h2 : s'.hnd = s.hnd) (h3 : s'.pc = s.pc)
    (h4 : s'.wmtx = s.wmtx) (h5 : s'.dt = s.dt) (h6 : s'.it = s.it) : InvA s' := by
  obtain ⟨a1, a2, a3, a4, a5, a6, a7, a8, a9, a10, a11, a12⟩ := h
  constructor
  all_goals simp only [h1, h2, h3, h4, h5, h6]
  all_goals assumption

/-- frame lemma: thread `t` only moves its pc -/
theorem invA_setPc {s : St} {t : Tid} (h : InvA s) (p' : Pc)
    (h1 : hndOk p' (s.hnd t) = true) (h2 : holdsW p' = holdsW (s.pc t))
    (h3 : inDtor p' = true → inDtor (s.pc t) = true)
    (h4 : ∀ r, myRec p' = some r → ∃ w, s.hnd t = .reg w r)
    (h5 : needsIt p' = true → ∃ c, s.it t = some (some c)) (h6 : opOk p' = true) : InvA (s.setPc t p') := by
  obtain ⟨a1, a2, a3, a4, a5, a6, a7, a8, a9, a10, a11, a12⟩ := h
  refine ⟨a1, a2, ?_, ?_, ?_, ?_, a7, ?_, ?_, a10, ?_, ?_⟩
  all_goals simp only [setPc_pc, setPc_hnd, setPc_wmtx, setPc_dt, setPc_it]
  · intro u; by_cases hu : u = t
    · subst hu; rw [upd_same]; exact h1
    · rw [upd_other _ _ _ _ hu]; exact a3 u
  · intro u; by_cases hu : u = t
    · subst hu; rw [upd_same, h2]; exact a4 u
    · rw [upd_other _ _ _ _ hu]; exact a4 u
  · intro u; by_cases hu : u = t
    · subst hu; rw [upd_same, h2]; exact a5 u
    · rw [upd_other _ _ _ _ hu]; exact a5 u
  · intro u; by_cases hu : u = t
    · subst hu; rw [upd_same]; intro hd; exact a6 u (h3 hd)
    · rw [upd_other _ _ _ _ hu]; exact a6 u
  · intro u v; by_cases hu : u = t <;> by_cases hv : v = t
    · subst hu; subst hv; intros; rfl
    · subst hu; rw [upd_same, upd_other _ _ _ _ hv]; intro hd hd'; exact a8 u v (h3 hd) hd'
    · subst hv; rw [upd_same, upd_other _ _ _ _ hu]; intro hd hd'; exact a8 u v hd (h3 hd')
    · rw [upd_other _ _ _ _ hu, upd_other _ _ _ _ hv]; exact a8 u v
  · intro u r; by_cases hu : u = t
    · subst hu; rw [upd_same]; exact h4 r
    · rw [upd_other _ _ _ _ hu]; exact a9 u r
  · intro u; by_cases hu : u = t
    · subst hu; rw [upd_same]; exact h5
    · rw [upd_other _ _ _ _ hu]; exact a11 u
  · intro u; by_cases hu : u = t
    · subst hu; rw [upd_same]; exact h6
    · rw [upd_other _ _ _ _ hu]; exact a12 u

end ConcVerif.Rcu

namespace ConcVerif.Rcu

/-- like `invA_setPc`, the thread also assigns its iterator (it holds a registered handle) -/
theorem invA_setPc_it {s : St} {t : Tid} (h : InvA s) (p' : Pc) (v : Option (Option Nat))
    (hr : ∃ w r, s.hnd t = .reg w r)
    (h1 : hndOk p' (s.hnd t) = true) (h2 : holdsW p' = holdsW (s.pc t))
    (h3 : inDtor p' = true → inDtor (s.pc t) = true)
    (h4 : ∀ r, myRec p' = some r → ∃ w, s.hnd t = .reg w r)
    (h5 : needsIt p' = false) (h6 : opOk p' = true) : InvA ({ s with it := upd s.it t v }.setPc t p') := by
  obtain ⟨a1, a2, a3, a4, a5, a6, a7, a8, a9, a10, a11, a12⟩ := h
  refine ⟨a1, a2, ?_, ?_, ?_, ?_, a7, ?_, ?_, ?_, ?_, ?_⟩
  all_goals simp only [setPc_pc, setPc_hnd, setPc_wmtx, setPc_dt, setPc_it]
  · intro u; by_cases hu : u = t
    · subst hu; rw [upd_same]; exact h1
    · rw [upd_other _ _ _ _ hu]; exact a3 u
  · intro u; by_cases hu : u = t
    · subst hu; rw [upd_same, h2]; exact a4 u
    · rw [upd_other _ _ _ _ hu]; exact a4 u
  · intro u; by_cases hu : u = t
    · subst hu; rw [upd_same, h2]; exact a5 u
    · rw [upd_other _ _ _ _ hu]; exact a5 u
  · intro u; by_cases hu : u = t
    · subst hu; rw [upd_same]; intro hd; exact a6 u (h3 hd)
    · rw [upd_other _ _ _ _ hu]; exact a6 u
  · intro u v; by_cases hu : u = t <;> by_cases hv : v = t
    · subst hu; subst hv; intros; rfl
    · subst hu; rw [upd_same, upd_other _ _ _ _ hv]; intro hd hd'; exact a8 u v (h3 hd) hd'
    · subst hv; rw [upd_same, upd_other _ _ _ _ hu]; intro hd hd'; exact a8 u v hd (h3 hd')
    · rw [upd_other _ _ _ _ hu, upd_other _ _ _ _ hv]; exact a8 u v
  · intro u r; by_cases hu : u = t
    · subst hu; rw [upd_same]; exact h4 r
    · rw [upd_other _ _ _ _ hu]; exact a9 u r
  · intro u; by_cases hu : u = t
    · subst hu; intro _; exact hr
    · rw [upd_other _ _ _ _ hu]; exact a10 u
  · intro u; by_cases hu : u = t
    · subst hu; rw [upd_same, h5]; intro hc; cases hc
    · rw [upd_other _ _ _ _ hu, upd_other _ _ _ _ hu]; exact a11 u
  · intro u; by_cases hu : u = t
    · subst hu; rw [upd_same]; exact h6
    · rw [upd_other _ _ _ _ hu]; exact a12 u

/-- `mlk`: a registered writer takes the free write mutex -/
theorem invA_lock {s : St} {t : Tid} (h : InvA s) (p' : Pc) (r : Nat) (hm : s.wmtx = none)
    (hh : s.hnd t = .reg true r) (h1 : hcls p' = 2) (h2 : holdsW p' = true) (h3 : inDtor p' = false)
    (h4 : myRec p' = none) (h5 : needsIt p' = false) (h7 : inDtor (s.pc t) = false) (h6 : opOk p' = true) :
    InvA ({ s with wmtx := some t }.setPc t p') := by
  obtain ⟨a1, a2, a3, a4, a5, a6, a7, a8, a9, a10, a11, a12⟩ := h
  refine ⟨a1, a2, ?_, ?_, ?_, ?_, a7, ?_, ?_, a10, ?_, ?_⟩
  all_goals simp only [setPc_pc, setPc_hnd, setPc_wmtx, setPc_dt, setPc_it]
  · intro u; by_cases hu : u = t
    · subst hu; rw [upd_same]; simp [hndOk, h1, hh, Hnd.isReg]
    · rw [upd_other _ _ _ _ hu]; exact a3 u
  · intro u; by_cases hu : u = t
    · subst hu; rw [upd_same]; simp [h2]
    · rw [upd_other _ _ _ _ hu]
      have := a4 u; rw [hm] at this
      constructor
      · intro hc; exact absurd (this.1 hc) (by simp)
      · intro hc; injection hc with hc; exact absurd hc.symm hu
  · intro u; by_cases hu : u = t
    · subst hu; intro _; exact ⟨r, hh⟩
    · rw [upd_other _ _ _ _ hu]; exact a5 u
  · intro u; by_cases hu : u = t
    · subst hu; rw [upd_same, h3]; intro hc; cases hc
    · rw [upd_other _ _ _ _ hu]; exact a6 u
  · intro u v; by_cases hu : u = t <;> by_cases hv : v = t
    · subst hu; subst hv; intros; rfl
    · subst hu; rw [upd_same, h3]; intro hc; cases hc
    · subst hv; rw [upd_same, h3]; intro _ hc; cases hc
    · rw [upd_other _ _ _ _ hu, upd_other _ _ _ _ hv]; exact a8 u v
  · intro u r'; by_cases hu : u = t
    · subst hu; rw [upd_same, h4]; intro hc; cases hc
    · rw [upd_other _ _ _ _ hu]; exact a9 u r'
  · intro u; by_cases hu : u = t
    · subst hu; rw [upd_same, h5]; intro hc; cases hc
    · rw [upd_other _ _ _ _ hu]; exact a11 u
  · intro u; by_cases hu : u = t
    · subst hu; rw [upd_same]; exact h6
    · rw [upd_other _ _ _ _ hu]; exact a12 u

/-- `mul`: the holder releases the write mutex (an erase also assigns its iterator) -/
theorem invA_unlock {s : St} {t : Tid} (h : InvA s) (p' : Pc) (it' : Tid → Option (Option Nat)) (hm : s.wmtx = some t)
    (hit : it' = s.it ∨ ∃ v, it' = upd s.it t v)
    (h1 : hcls p' = 2) (h2 : holdsW p' = false) (h3 : inDtor p' = false)
    (h4 : myRec p' = none) (h5 : needsIt p' = false) (h6 : opOk p' = true) :
    InvA ({ s with wmtx := none, it := it' }.setPc t p') := by
  have hr : ∃ r, s.hnd t = .reg true r := h.wrW t ((h.wm t).2 hm)
  obtain ⟨r, hr⟩ := hr
  obtain ⟨a1, a2, a3, a4, a5, a6, a7, a8, a9, a10, a11, a12⟩ := h
  refine ⟨a1, a2, ?_, ?_, ?_, ?_, a7, ?_, ?_, ?_, ?_, ?_⟩
  all_goals simp only [setPc_pc, setPc_hnd, setPc_wmtx, setPc_dt, setPc_it]
  · intro u; by_cases hu : u = t
    · subst hu; rw [upd_same]; simp [hndOk, h1, hr, Hnd.isReg]
    · rw [upd_other _ _ _ _ hu]; exact a3 u
  · intro u; by_cases hu : u = t
    · subst hu; rw [upd_same]; simp [h2]
    · rw [upd_other _ _ _ _ hu]
      have := a4 u; rw [hm] at this
      constructor
      · intro hc; have := this.1 hc; injection this with this; exact absurd this.symm hu
      · intro hc; cases hc
  · intro u; by_cases hu : u = t
    · subst hu; rw [upd_same, h2]; intro hc; cases hc
    · rw [upd_other _ _ _ _ hu]; exact a5 u
  · intro u; by_cases hu : u = t
    · subst hu; rw [upd_same, h3]; intro hc; cases hc
    · rw [upd_other _ _ _ _ hu]; exact a6 u
  · intro u v; by_cases hu : u = t <;> by_cases hv : v = t
    · subst hu; subst hv; intros; rfl
    · subst hu; rw [upd_same, h3]; intro hc; cases hc
    · subst hv; rw [upd_same, h3]; intro _ hc; cases hc
    · rw [upd_other _ _ _ _ hu, upd_other _ _ _ _ hv]; exact a8 u v
  · intro u r'; by_cases hu : u = t
    · subst hu; rw [upd_same, h4]; intro hc; cases hc
    · rw [upd_other _ _ _ _ hu]; exact a9 u r'
  · intro u; by_cases hu : u = t
    · subst hu; intro _; exact ⟨true, r, hr⟩
    · rcases hit with hit | ⟨v, hit⟩
      · rw [hit]; exact a10 u
      · rw [hit, upd_other _ _ _ _ hu]; exact a10 u
  · intro u; by_cases hu : u = t
    · subst hu; rw [upd_same, h5]; intro hc; cases hc
    · rw [upd_other _ _ _ _ hu]
      rcases hit with hit | ⟨v, hit⟩
      · rw [hit]; exact a11 u
      · rw [hit, upd_other _ _ _ _ hu]; exact a11 u
  · intro u; by_cases hu : u = t
    · subst hu; rw [upd_same]; exact h6
    · rw [upd_other _ _ _ _ hu]; exact a12 u

/-- the handle goes away (never used, or `owner` cleared) -/
theorem invA_dropHnd {s : St} {t : Tid} (h : InvA s) (p' : Pc)
    (h1 : hcls p' = 0 ∨ hcls p' = 4) (h2 : holdsW p' = false) (h2' : holdsW (s.pc t) = false) (h3 : inDtor p' = false)
    (h4 : myRec p' = none) (h5 : needsIt p' = false) (h6 : opOk p' = true) : InvA ((s.dropHnd t).setPc t p') := by
  obtain ⟨a1, a2, a3, a4, a5, a6, a7, a8, a9, a10, a11, a12⟩ := h
  refine ⟨?_, ?_, ?_, ?_, ?_, ?_, ?_, ?_, ?_, ?_, ?_, ?_⟩
  all_goals simp only [setPc_pc, setPc_hnd, setPc_wmtx, setPc_dt, setPc_it, setPc_live, dropHnd_hnd, dropHnd_it,
    dropHnd_live, dropHnd_pc, dropHnd_wmtx, dropHnd_dt]
  · exact a1.erase t
  · intro u; by_cases hu : u = t
    · subst hu; rw [upd_same]; simp [List.Nodup.mem_erase_iff a1]
    · rw [upd_other _ _ _ _ hu, List.Nodup.mem_erase_iff a1]; simp [hu]; exact a2 u
  · intro u; by_cases hu : u = t
    · subst hu; rw [upd_same, upd_same]; rcases h1 with h1 | h1 <;> simp [hndOk, h1, Hnd.isNone]
    · rw [upd_other _ _ _ _ hu, upd_other _ _ _ _ hu]; exact a3 u
  · intro u; by_cases hu : u = t
    · subst hu; rw [upd_same, h2]; have := a4 u; rw [h2'] at this; exact this
    · rw [upd_other _ _ _ _ hu]; exact a4 u
  · intro u; by_cases hu : u = t
    · subst hu; rw [upd_same, h2]; intro hc; cases hc
    · rw [upd_other _ _ _ _ hu, upd_other _ _ _ _ hu]; exact a5 u
  · intro u; by_cases hu : u = t
    · subst hu; rw [upd_same, h3]; intro hc; cases hc
    · rw [upd_other _ _ _ _ hu]; exact a6 u
  · intro hd; rw [a7 hd]; rfl
  · intro u v; by_cases hu : u = t <;> by_cases hv : v = t
    · subst hu; subst hv; intros; rfl
    · subst hu; rw [upd_same, h3]; intro hc; cases hc
    · subst hv; rw [upd_same, h3]; intro _ hc; cases hc
    · rw [upd_other _ _ _ _ hu, upd_other _ _ _ _ hv]; exact a8 u v
  · intro u r'; by_cases hu : u = t
    · subst hu; rw [upd_same, h4]; intro hc; cases hc
    · rw [upd_other _ _ _ _ hu, upd_other _ _ _ _ hu]; exact a9 u r'
  · intro u; by_cases hu : u = t
    · subst hu; rw [upd_same]; intro hc; exact absurd rfl hc
    · rw [upd_other _ _ _ _ hu, upd_other _ _ _ _ hu]; exact a10 u
  · intro u; by_cases hu : u = t
    · subst hu; rw [upd_same, h5]; intro hc; cases hc
    · rw [upd_other _ _ _ _ hu, upd_other _ _ _ _ hu]; exact a11 u
  · intro u; by_cases hu : u = t
    · subst hu; rw [upd_same]; exact h6
    · rw [upd_other _ _ _ _ hu]; exact a12 u

/-- `call dtor`: the destructor phase begins (no live handle) -/
theorem invA_callDtor {s : St} {t : Tid} (h : InvA s) (hpc : s.pc t = .idle) (hl : s.live = []) (hd : s.dt = false) :
    InvA ({ s with dt := true }.setPc t (.called .dtor)) := by
  have hn : ∀ u, s.hnd u = .none := by
    intro u
    have := h.liveIff u
    rw [hl] at this
    cases hh : s.hnd u
    · rfl
    · exact absurd (this.2 (by simp [hh])) (by simp)
    · exact absurd (this.2 (by simp [hh])) (by simp)
  obtain ⟨a1, a2, a3, a4, a5, a6, a7, a8, a9, a10, a11, a12⟩ := h
  refine ⟨a1, a2, ?_, ?_, ?_, ?_, ?_, ?_, ?_, a10, ?_, ?_⟩
  all_goals simp only [setPc_pc, setPc_hnd, setPc_wmtx, setPc_dt, setPc_it, setPc_live]
  · intro u; by_cases hu : u = t
    · subst hu; rw [upd_same]; simp [hndOk, hcls, hn u, Hnd.isNone]
    · rw [upd_other _ _ _ _ hu]; exact a3 u
  · intro u; by_cases hu : u = t
    · subst hu; rw [upd_same]; have := a4 u; rw [hpc] at this; simpa [holdsW] using this
    · rw [upd_other _ _ _ _ hu]; exact a4 u
  · intro u; by_cases hu : u = t
    · subst hu; rw [upd_same]; intro hc; simp [holdsW] at hc
    · rw [upd_other _ _ _ _ hu]; exact a5 u
  · intro u _; trivial
  · intro _; exact hl
  · intro u v; by_cases hu : u = t <;> by_cases hv : v = t
    · subst hu; subst hv; intros; rfl
    · subst hu; rw [upd_other _ _ _ _ hv]; intro _ hc; have := a6 v hc; rw [hd] at this; cases this
    · subst hv; rw [upd_other _ _ _ _ hu]; intro hc; have := a6 u hc; rw [hd] at this; cases this
    · rw [upd_other _ _ _ _ hu, upd_other _ _ _ _ hv]; exact a8 u v
  · intro u r; by_cases hu : u = t
    · subst hu; rw [upd_same]; intro hc; simp [myRec] at hc
    · rw [upd_other _ _ _ _ hu]; exact a9 u r
  · intro u; by_cases hu : u = t
    · subst hu; rw [upd_same]; intro hc; simp [needsIt] at hc
    · rw [upd_other _ _ _ _ hu]; exact a11 u
  · intro u; by_cases hu : u = t
    · subst hu; rw [upd_same]; rfl
    · rw [upd_other _ _ _ _ hu]; exact a12 u

/-- `ret lock`: the thread now holds an (unused) handle -/
theorem invA_retLock {s : St} {t : Tid} (h : InvA s) (w : Bool) (hpc : s.pc t = .called (.lock w)) (hdt : s.dt = false) :
    InvA ({ s with hnd := upd s.hnd t (.fresh w), live := t :: s.live }.setPc t .idle) := by
  have hn : s.hnd t = .none := by
    have := h.hok t; rw [hpc] at this
    cases hh : s.hnd t <;> simp [hndOk, hcls, hh, Hnd.isNone] at this ⊢
  have hnl : t ∉ s.live := by rw [h.liveIff t]; simp [hn]
  obtain ⟨a1, a2, a3, a4, a5, a6, a7, a8, a9, a10, a11, a12⟩ := h
  refine ⟨?_, ?_, ?_, ?_, ?_, ?_, ?_, ?_, ?_, ?_, ?_, ?_⟩
  all_goals simp only [setPc_pc, setPc_hnd, setPc_wmtx, setPc_dt, setPc_it, setPc_live]
  · exact List.nodup_cons.2 ⟨hnl, a1⟩
  · intro u; by_cases hu : u = t
    · subst hu; rw [upd_same]; simp
    · rw [upd_other _ _ _ _ hu]; simp [hu]; exact a2 u
  · intro u; by_cases hu : u = t
    · subst hu; rw [upd_same]; simp [hndOk, hcls]
    · rw [upd_other _ _ _ _ hu, upd_other _ _ _ _ hu]; exact a3 u
  · intro u; by_cases hu : u = t
    · subst hu; rw [upd_same]; have := a4 u; rw [hpc] at this; simpa [holdsW] using this
    · rw [upd_other _ _ _ _ hu]; exact a4 u
  · intro u; by_cases hu : u = t
    · subst hu; rw [upd_same]; intro hc; simp [holdsW] at hc
    · rw [upd_other _ _ _ _ hu, upd_other _ _ _ _ hu]; exact a5 u
  · intro u; by_cases hu : u = t
    · subst hu; rw [upd_same]; intro hc; simp [inDtor] at hc
    · rw [upd_other _ _ _ _ hu]; exact a6 u
  · intro hc; rw [hdt] at hc; cases hc
  · intro u v; by_cases hu : u = t <;> by_cases hv : v = t
    · subst hu; subst hv; intros; rfl
    · subst hu; rw [upd_same]; intro hc; simp [inDtor] at hc
    · subst hv; rw [upd_same]; intro _ hc; simp [inDtor] at hc
    · rw [upd_other _ _ _ _ hu, upd_other _ _ _ _ hv]; exact a8 u v
  · intro u r; by_cases hu : u = t
    · subst hu; rw [upd_same]; intro hc; simp [myRec] at hc
    · rw [upd_other _ _ _ _ hu, upd_other _ _ _ _ hu]; exact a9 u r
  · intro u; by_cases hu : u = t
    · subst hu; intro hc; have := a10 u hc; rw [hn] at this; obtain ⟨_, _, h'⟩ := this; cases h'
    · rw [upd_other _ _ _ _ hu]; exact a10 u
  · intro u; by_cases hu : u = t
    · subst hu; rw [upd_same]; intro hc; simp [needsIt] at hc
    · rw [upd_other _ _ _ _ hu]; exact a11 u
  · intro u; by_cases hu : u = t
    · subst hu; rw [upd_same]; rfl
    · rw [upd_other _ _ _ _ hu]; exact a12 u

/-- registration finished: the CAS published the thread's record -/
theorem invA_casRegOk {s : St} {t : Tid} (h : InvA s) (k : Op) (r : Nat) (exp : Option Nat)
    (hpc : s.pc t = .pushCas (.reg k) r exp) (zh : Option Nat) (lg : List Nat) :
    InvA ({ s with zhead := zh, log := lg, hnd := upd s.hnd t (.reg (s.hnd t).isW r) }.setPc t (.called k)) := by
  have hf : (s.hnd t).isFresh = true := by
    have := h.hok t; rw [hpc] at this; simpa [hndOk, hcls] using this
  have hk : k.regOp = true := by
    have := h.opk t; rw [hpc] at this; simpa [opOk] using this
  have hne : s.hnd t ≠ .none := by intro hc; rw [hc] at hf; simp [Hnd.isFresh] at hf
  obtain ⟨a1, a2, a3, a4, a5, a6, a7, a8, a9, a10, a11, a12⟩ := h
  refine ⟨a1, ?_, ?_, ?_, ?_, ?_, a7, ?_, ?_, ?_, ?_, ?_⟩
  all_goals simp only [setPc_pc, setPc_hnd, setPc_wmtx, setPc_dt, setPc_it, setPc_live]
  · intro u; by_cases hu : u = t
    · subst hu; rw [upd_same]; simp; exact (a2 u).2 hne
    · rw [upd_other _ _ _ _ hu]; exact a2 u
  · intro u; by_cases hu : u = t
    · subst hu; rw [upd_same, upd_same]; cases k <;> simp [Op.regOp] at hk <;> simp [hndOk, hcls, Hnd.isReg, Hnd.isNone]
    · rw [upd_other _ _ _ _ hu, upd_other _ _ _ _ hu]; exact a3 u
  · intro u; by_cases hu : u = t
    · subst hu; rw [upd_same]; have := a4 u; rw [hpc] at this; simpa [holdsW] using this
    · rw [upd_other _ _ _ _ hu]; exact a4 u
  · intro u; by_cases hu : u = t
    · subst hu; rw [upd_same]; intro hc; simp [holdsW] at hc
    · rw [upd_other _ _ _ _ hu, upd_other _ _ _ _ hu]; exact a5 u
  · intro u; by_cases hu : u = t
    · subst hu; rw [upd_same]; intro hc; cases k <;> simp [Op.regOp] at hk <;> simp [inDtor] at hc
    · rw [upd_other _ _ _ _ hu]; exact a6 u
  · intro u v; by_cases hu : u = t <;> by_cases hv : v = t
    · subst hu; subst hv; intros; rfl
    · subst hu; rw [upd_same]; intro hc; cases k <;> simp [Op.regOp] at hk <;> simp [inDtor] at hc
    · subst hv; rw [upd_same]; intro _ hc; cases k <;> simp [Op.regOp] at hk <;> simp [inDtor] at hc
    · rw [upd_other _ _ _ _ hu, upd_other _ _ _ _ hv]; exact a8 u v
  · intro u r'; by_cases hu : u = t
    · subst hu; rw [upd_same]; intro hc; simp [myRec] at hc
    · rw [upd_other _ _ _ _ hu, upd_other _ _ _ _ hu]; exact a9 u r'
  · intro u; by_cases hu : u = t
    · subst hu; rw [upd_same]; intro _; exact ⟨_, _, rfl⟩
    · rw [upd_other _ _ _ _ hu]; exact a10 u
  · intro u; by_cases hu : u = t
    · subst hu; rw [upd_same]; intro hc; cases k <;> simp [Op.regOp] at hk <;> simp [needsIt] at hc
    · rw [upd_other _ _ _ _ hu]; exact a11 u
  · intro u; by_cases hu : u = t
    · subst hu; rw [upd_same]; rfl
    · rw [upd_other _ _ _ _ hu]; exact a12 u

/-- the generic case: only the pc of `t` (and fields layer A does not mention) change -/
local macro "frameA" h:ident : tactic =>
  `(tactic| (refine invA_setPc ?_ _ ?_ ?_ ?_ ?_ ?_ ?_ <;>
      first
      | exact invA_congr $h rfl rfl rfl rfl rfl rfl
      | (simp_all [hndOk, hcls, holdsW, inDtor, myRec, needsIt, Hnd.isReg, Hnd.isNone, Hnd.isFresh, Hnd.isW, opOk, Op.isPush, Op.regOp, Op.canThrow]; done)))

theorem invA_step_call {s s' : St} {t : Tid} {e : Ev} (h : InvA s) (hs : Step s t e s') (he : e.kind = .call) : InvA s' := by
  have hok := h.hok t
  have hitc := h.itc t
  have hmyr := h.myr t
  have hwm := h.wm t
  have hdtd := h.dtd t
  have hopk := h.opk t
  cases hs <;> cases he
  all_goals (try (frameA h; done))
  all_goals (try exact h)
  case callDtor hpc hl hd => exact invA_callDtor h hpc hl hd
  case callPush f em v hpc hh =>
    refine invA_setPc h _ ?_ ?_ ?_ ?_ ?_ ?_
    · cases hx : s.hnd t <;> simp [hx, Hnd.isW] at hh <;> simp [hndOk, hcls, Hnd.isNone]
    all_goals simp [hpc, holdsW, inDtor, myRec, needsIt, opOk]

theorem invA_step_ret {s s' : St} {t : Tid} {e : Ev} (h : InvA s) (hs : Step s t e s') (he : e.kind = .ret) : InvA s' := by
  have hok := h.hok t
  have hitc := h.itc t
  have hmyr := h.myr t
  have hwm := h.wm t
  have hdtd := h.dtd t
  have hopk := h.opk t
  cases hs <;> cases he
  all_goals (try (frameA h; done))
  all_goals (try exact h)
  case relFresh w hpc hh =>
    exact invA_dropHnd h _ (by simp [hndOk, hcls, holdsW, inDtor, myRec, needsIt, Hnd.isReg, Hnd.isNone, Hnd.isFresh, Hnd.isW, opOk, Op.isPush, Op.regOp]) (by simp [hndOk, hcls, holdsW, inDtor, myRec, needsIt, Hnd.isReg, Hnd.isNone, Hnd.isFresh, Hnd.isW, opOk, Op.isPush, Op.regOp]) (by simp [hpc, holdsW]) (by simp [hndOk, hcls, holdsW, inDtor, myRec, needsIt, Hnd.isReg, Hnd.isNone, Hnd.isFresh, Hnd.isW, opOk, Op.isPush, Op.regOp]) (by simp [hndOk, hcls, holdsW, inDtor, myRec, needsIt, Hnd.isReg, Hnd.isNone, Hnd.isFresh, Hnd.isW, opOk, Op.isPush, Op.regOp]) (by simp [hndOk, hcls, holdsW, inDtor, myRec, needsIt, Hnd.isReg, Hnd.isNone, Hnd.isFresh, Hnd.isW, opOk, Op.isPush, Op.regOp]) (by simp [hndOk, hcls, holdsW, inDtor, myRec, needsIt, Hnd.isReg, Hnd.isNone, Hnd.isFresh, Hnd.isW, opOk, Op.isPush, Op.regOp])
  case retLock w hpc hd => exact invA_retLock h w hpc hd

theorem invA_step_exc {s s' : St} {t : Tid} {e : Ev} (h : InvA s) (hs : Step s t e s') (he : e.kind = .exc) : InvA s' := by
  have hok := h.hok t
  have hitc := h.itc t
  have hmyr := h.myr t
  have hwm := h.wm t
  have hdtd := h.dtd t
  have hopk := h.opk t
  cases hs <;> cases he
  all_goals (try (frameA h; done))
  all_goals (try exact h)

theorem invA_step_mlk {s s' : St} {t : Tid} {e : Ev} (h : InvA s) (hs : Step s t e s') (he : e.kind = .mlk) : InvA s' := by
  have hok := h.hok t
  have hitc := h.itc t
  have hmyr := h.myr t
  have hwm := h.wm t
  have hdtd := h.dtd t
  have hopk := h.opk t
  cases hs <;> cases he
  all_goals (try (frameA h; done))
  all_goals (try exact h)
  case pushLock f em v r hpc hh hm =>
    exact invA_lock h _ r hm hh (by simp [hcls]) (by simp [holdsW]) (by simp [inDtor]) (by simp [myRec]) (by simp [needsIt])
      (by simp [hpc, inDtor]) (by simp [opOk, Op.isPush])
  case eraseLock adv r c hpc hh hi hm =>
    exact invA_lock h _ r hm hh (by simp [hcls]) (by simp [holdsW]) (by simp [inDtor]) (by simp [myRec]) (by simp [needsIt])
      (by simp [hpc, inDtor]) (by simp [opOk])

theorem invA_step_mul {s s' : St} {t : Tid} {e : Ev} (h : InvA s) (hs : Step s t e s') (he : e.kind = .mul) : InvA s' := by
  have hok := h.hok t
  have hitc := h.itc t
  have hmyr := h.myr t
  have hwm := h.wm t
  have hdtd := h.dtd t
  have hopk := h.opk t
  cases hs <;> cases he
  all_goals (try (frameA h; done))
  all_goals (try exact h)
  case pThrownMul k hpc hm =>
    exact invA_unlock h _ s.it hm (Or.inl rfl) (by simp [hcls]) (by simp [holdsW]) (by simp [inDtor]) (by simp [myRec]) (by simp [needsIt])
      (by simpa [hpc, opOk] using hopk)
  case pUnlock k hpc hm =>
    have hk : k.isPush = true := by simpa [hpc, opOk] using hopk
    cases k <;> simp [Op.isPush] at hk
    exact invA_unlock h _ s.it hm (Or.inl rfl) (by simp [hcls]) (by simp [holdsW]) (by simp [inDtor]) (by simp [myRec]) (by simp [needsIt])
      (by simp [opOk])
  case eUnlock orig hpc hm =>
    exact invA_unlock h _ _ hm (Or.inr ⟨_, rfl⟩) (by simp [hcls]) (by simp [holdsW]) (by simp [inDtor]) (by simp [myRec]) (by simp [needsIt])
      (by simp [opOk])

theorem invA_step_alo {s s' : St} {t : Tid} {e : Ev} (h : InvA s) (hs : Step s t e s') (he : e.kind = .alo) : InvA s' := by
  have hok := h.hok t
  have hitc := h.itc t
  have hmyr := h.myr t
  have hwm := h.wm t
  have hdtd := h.dtd t
  have hopk := h.opk t
  cases hs <;> cases he
  all_goals (try (frameA h; done))
  all_goals (try exact h)
  case regAlo k w hpc hk hh =>
    rcases hk with rfl | ⟨f, em, v, rfl⟩ <;> frameA h

theorem invA_step_afl {s s' : St} {t : Tid} {e : Ev} (h : InvA s) (hs : Step s t e s') (he : e.kind = .afl) : InvA s' := by
  have hok := h.hok t
  have hitc := h.itc t
  have hmyr := h.myr t
  have hwm := h.wm t
  have hdtd := h.dtd t
  have hopk := h.opk t
  cases hs <;> cases he
  all_goals (try (frameA h; done))
  case regFail k w hpc hk hh =>
    rcases hk with rfl | ⟨f, em, v, rfl⟩ <;> frameA h
  case pAloFail k hpc => cases k <;> frameA h

theorem invA_step_con {s s' : St} {t : Tid} {e : Ev} (h : InvA s) (hs : Step s t e s') (he : e.kind = .con) : InvA s' := by
  have hok := h.hok t
  have hitc := h.itc t
  have hmyr := h.myr t
  have hwm := h.wm t
  have hdtd := h.dtd t
  have hopk := h.opk t
  cases hs <;> cases he
  all_goals (try (frameA h; done))
  all_goals (try exact h)

theorem invA_step_des {s s' : St} {t : Tid} {e : Ev} (h : InvA s) (hs : Step s t e s') (he : e.kind = .des) : InvA s' := by
  have hok := h.hok t
  have hitc := h.itc t
  have hmyr := h.myr t
  have hwm := h.wm t
  have hdtd := h.dtd t
  have hopk := h.opk t
  cases hs <;> cases he
  all_goals (try (frameA h; done))
  all_goals (try exact h)

theorem invA_step_fre {s s' : St} {t : Tid} {e : Ev} (h : InvA s) (hs : Step s t e s') (he : e.kind = .fre) : InvA s' := by
  have hok := h.hok t
  have hitc := h.itc t
  have hmyr := h.myr t
  have hwm := h.wm t
  have hdtd := h.dtd t
  have hopk := h.opk t
  cases hs <;> cases he
  all_goals (try (frameA h; done))
  all_goals (try exact h)
  case rFreZ r m nx hpc =>
    cases nx <;> simp only [St.reapAt] <;> frameA h
  case dFreN m nx hpc =>
    cases nx <;> simp only [St.dNodeAt] <;> frameA h
  case dFreZ m nx hpc =>
    cases nx <;> simp only [St.dRecAt] <;> frameA h

theorem invA_step_ald {s s' : St} {t : Tid} {e : Ev} (h : InvA s) (hs : Step s t e s') (he : e.kind = .ald) : InvA s' := by
  have hok := h.hok t
  have hitc := h.itc t
  have hmyr := h.myr t
  have hwm := h.wm t
  have hdtd := h.dtd t
  have hopk := h.opk t
  cases hs <;> cases he
  all_goals (try (frameA h; done))
  all_goals (try exact h)
  case beg w r o hpc hh ho =>
    exact invA_setPc_it h _ _ ⟨w, r, hh⟩ (by simp [hh, hndOk, hcls, Hnd.isReg]) (by simp [hpc, holdsW]) (by simp [inDtor])
      (by simp [myRec]) (by simp [needsIt]) (by simp [opOk])
  case nxt w r n o hpc hh hi ho =>
    exact invA_setPc_it h _ _ ⟨w, r, hh⟩ (by simp [hh, hndOk, hcls, Hnd.isReg]) (by simp [hpc, holdsW]) (by simp [inDtor])
      (by simp [myRec]) (by simp [needsIt]) (by simp [opOk])
  case uNextNone r cached m o hpc ho hv =>
    cases cached <;> simp only [St.reapAt] <;> frameA h
  case dtorHead o hpc ho =>
    cases hh : s.head <;> simp only [St.dNodeAt] <;> frameA h
  case dZhead o hpc ho =>
    cases hh : s.zhead <;> simp only [St.dRecAt] <;> frameA h

theorem invA_step_ast {s s' : St} {t : Tid} {e : Ev} (h : InvA s) (hs : Step s t e s') (he : e.kind = .ast) : InvA s' := by
  have hok := h.hok t
  have hitc := h.itc t
  have hmyr := h.myr t
  have hwm := h.wm t
  have hdtd := h.dtd t
  have hopk := h.opk t
  cases hs <;> cases he
  all_goals (try (frameA h; done))
  all_goals (try exact h)
  case pushStore c r exp o hpc =>
    cases c <;> frameA h
  case uClear r o hpc ho =>
    refine invA_dropHnd (s := s.setOwner r none) ?_ _ (by simp [hndOk, hcls, holdsW, inDtor, myRec, needsIt, Hnd.isReg, Hnd.isNone, Hnd.isFresh, Hnd.isW, opOk, Op.isPush, Op.regOp]) (by simp [hndOk, hcls, holdsW, inDtor, myRec, needsIt, Hnd.isReg, Hnd.isNone, Hnd.isFresh, Hnd.isW, opOk, Op.isPush, Op.regOp]) (by simp [hpc, holdsW]) (by simp [hndOk, hcls, holdsW, inDtor, myRec, needsIt, Hnd.isReg, Hnd.isNone, Hnd.isFresh, Hnd.isW, opOk, Op.isPush, Op.regOp])
      (by simp [hndOk, hcls, holdsW, inDtor, myRec, needsIt, Hnd.isReg, Hnd.isNone, Hnd.isFresh, Hnd.isW, opOk, Op.isPush, Op.regOp]) (by simp [hndOk, hcls, holdsW, inDtor, myRec, needsIt, Hnd.isReg, Hnd.isNone, Hnd.isFresh, Hnd.isW, opOk, Op.isPush, Op.regOp]) (by simp [hndOk, hcls, holdsW, inDtor, myRec, needsIt, Hnd.isReg, Hnd.isNone, Hnd.isFresh, Hnd.isW, opOk, Op.isPush, Op.regOp])
    exact invA_congr h rfl rfl rfl rfl rfl rfl

theorem invA_step_cas {s s' : St} {t : Tid} {e : Ev} (h : InvA s) (hs : Step s t e s') (he : e.kind = .cas) : InvA s' := by
  have hok := h.hok t
  have hitc := h.itc t
  have hmyr := h.myr t
  have hwm := h.wm t
  have hdtd := h.dtd t
  have hopk := h.opk t
  cases hs <;> cases he
  all_goals (try (frameA h; done))
  all_goals (try exact h)
  case casFail c r exp o hpc ho =>
    cases c <;> frameA h
  case casRegOk k r o hpc ho => exact invA_casRegOk h k r _ hpc _ _

theorem invA_step_plain {s s' : St} {t : Tid} {e : Ev} (h : InvA s) (hs : Step s t e s') (he : e.kind = .plain) : InvA s' := by
  have hok := h.hok t
  have hitc := h.itc t
  have hmyr := h.myr t
  have hwm := h.wm t
  have hdtd := h.dtd t
  have hopk := h.opk t
  cases hs <;> cases he
  all_goals (try (frameA h; done))
  all_goals (try exact h)

theorem invA_step {s s' : St} {t : Tid} {e : Ev} (h : InvA s) (hs : Step s t e s') : InvA s' := by
  cases hk : e.kind
  · exact invA_step_call h hs hk
  · exact invA_step_ret h hs hk
  · exact invA_step_exc h hs hk
  · exact invA_step_mlk h hs hk
  · exact invA_step_mul h hs hk
  · exact invA_step_alo h hs hk
  · exact invA_step_afl h hs hk
  · exact invA_step_con h hs hk
  · exact invA_step_des h hs hk
  · exact invA_step_fre h hs hk
  · exact invA_step_ald h hs hk
  · exact invA_step_ast h hs hk
  · exact invA_step_cas h hs hk
  · exact invA_step_plain h hs hk

end ConcVerif.Rcu
