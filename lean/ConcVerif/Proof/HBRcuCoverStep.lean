import ConcVerif.Proof.HBRcuCover
/-! rcu_list and happens-before, part 18: a cover of an earlier access survives every step. -/
namespace ConcVerif.Rcu
open HB (HBeq Kn)

variable {w : Ords} {sel : Bool} {es : List (Tid × Ev)} {s s' : St} {t : Tid} {e : Ev} {i d : Nat}

theorem cover_fresh (hi : Inv s) (hnd : inDtor (s.pc t) = false) (hS : Step s t e s') (h1 : d ∉ s.order)
    (h2 : Pub w sel es s.wmtx i) : Cover w sel (es ++ [(t, e)]) s' i d := by
  by_cases hd' : d ∈ s'.order
  · obtain ⟨g1, g2, g3, _⟩ := link_facts hi hS hnd h1 hd'
    obtain ⟨r, hr⟩ := hi.a.wrW t ((hi.a.wm t).2 g1)
    rw [g1] at h2
    refine .open_ t true r (by rw [g3]; exact hr) (.inl g2) ?_
    rw [hbTrace_append]; exact Kn.mono _ h2
  · exact .fresh hd' (Pub_step hnd h2 hS)

theorem cover_open (hi : Inv s) (hi' : Inv s') (hnd : inDtor (s.pc t) = false) (hS : Step s t e s') {v : Tid} {b : Bool}
    {x : Nat} (h1 : s.hnd v = .reg b x) (h2 : Safe s.eview x d) (h3 : Kn (hbTrace w sel es) v i) :
    Cover w sel (es ++ [(t, e)]) s' i d := by
  by_cases hreg : s'.hnd v = .reg b x
  · refine .open_ v b x hreg (safe_step_active hi hi' hS hnd h1 hreg h2) ?_
    rw [hbTrace_append]; exact h3.mono _
  · obtain ⟨g1, ⟨o, g2⟩, g3, _⟩ := unreg_cases hi hS hnd h1 hreg
    subst g1; subst g2
    have ox := (hi.b.own1 v b x h1).1
    simp only [bview_log] at ox
    have ox' : x ∈ s'.log := by rw [g3]; exact ox
    refine .closed x es.length v o none (HB.lq_last _ _) ?_ ox' ?_
    · rw [hbTrace_snoc]
      have := h3.hbeq_of_own (e := toHB w sel (.ast (.rowner x) o none))
      simpa using this
    · rcases safe_step hi hS hnd ox ox' h2 with g | ⟨a, z, g4, g5, g6, _, _⟩
      · exact g
      · exfalso
        obtain ⟨_, _, _, _, _, _, _, g7, _⟩ := taken_facts hi hS hnd (mem_of_mem_below (head_mem_below g5)) g6
        exact g7 _ _ _ rfl

theorem cover_closed (hi : Inv s) (hi' : Inv s') (hzo : ZO s) (hnd : inDtor (s.pc t) = false) (hS : Step s t e s')
    (hSK : SK w sel es s) (hSK' : SK w sel (es ++ [(t, e)]) s') {x q : Nat} {y : Tid} {o : Ord} {v : Option Nat}
    (h1 : es[q]? = some (y, Ev.ast (.rowner x) o v)) (h2 : HBeq (hbTrace w sel es) i q) (h3 : x ∈ s.log)
    (h4 : Safe s.eview x d) : Cover w sel (es ++ [(t, e)]) s' i d := by
  have hnodup := hi.b.logNd
  simp only [bview_log] at hnodup
  have h1' := HB.lq_mono [(t, e)] h1
  have h2' : HBeq (hbTrace w sel (es ++ [(t, e)])) i q := by rw [hbTrace_append]; exact h2.mono _
  by_cases hx' : x ∈ s'.log
  · rcases safe_step hi hS hnd h3 hx' h4 with g | ⟨a, z, g1, g2, g3, g4, g5⟩
    · exact .closed x q y o v h1' h2' hx' g
    · -- the zombie record naming `d` is taken off the log: its taker has scanned `x`
      have hzl := mem_of_mem_below (head_mem_below g2)
      obtain ⟨a', k1, _, _, k4, k5, _⟩ := taken_facts hi hS hnd hzl g3
      rw [g1] at k1; injection k1 with k1; subst k1
      have hr : reaper (BView (s'.pc t)) = some a := by rw [k4]; rfl
      have hxa : x ∈ Below s.log a := below_trans hnodup (head_mem_below g2) g5
      have haz : a ≠ z := by
        intro hc; rw [← hc] at g2; exact not_mem_below_self hnodup (head_mem_below g2)
      have hxz : x ≠ z := by
        intro hc; rw [hc] at g5; exact not_mem_below_self hnodup g5
      have hxa' : x ∈ Below s'.log a := by
        rw [g3, below_erase hnodup haz]; exact (List.mem_erase_of_ne hxz).2 hxa
      refine .reaped t a hr (Kn.of_hbeq h2' (hSK' t x (.inr (.inr ⟨a, hr, hxa'⟩)) q y o v h1')) (.inr ⟨z, ?_, .inr ?_⟩)
      · rw [k5]; exact g4
      · rw [k4]; rfl
  · -- `x` itself is taken off the log
    have hl := lost_log hi hS hnd h3 hx'
    obtain ⟨a, k1, k2, k3, k4, k5, k6, _, k8, _⟩ := taken_facts hi hS hnd h3 hl
    have hr : reaper (BView (s'.pc t)) = some a := by rw [k4]; rfl
    have hk : Kn (hbTrace w sel (es ++ [(t, e)])) t i := by
      refine Kn.of_hbeq h2' ?_
      rw [hbTrace_append]; exact (hSK t x k3 q y o v h1).mono _
    obtain ⟨b, hb⟩ := hi.a.myr t a k1
    have oa := hi.b.own1 t b a hb
    simp only [bview_log, bview_recs] at oa
    have hxa := head_mem_below k2
    have hax : a ≠ x := by intro hc; rw [hc] at hxa; exact not_mem_below_self hnodup hxa
    refine .reaped t a hr hk (.inl ?_)
    rcases h4 with g | ⟨u, g⟩ | ⟨z, g1, g2, g3⟩
    · exact .inl (by simp only [eview_lst] at g ⊢; rw [k6]; exact g)
    · simp only [eview_vpc] at g
      rcases pend_step hi hS hnd g with ⟨u', g'⟩ | ⟨z, o', a', c', g', _⟩
      · exact .inr (.inl ⟨u', g'⟩)
      · exact (k8 _ _ _ _ _ g').elim
    · simp only [eview_log, eview_zn] at g1 g2 g3
      have hzx : z ≠ x := by intro hc; rw [hc] at g3; exact not_mem_below_self hnodup g3
      have hza : z ≠ a := by
        intro hc; subst hc
        have := hzo z (by rw [g2]; simp)
        rw [oa.2] at this; cases this
      rcases below_total g1 oa.1 hza with g4 | g4
      · exfalso
        rcases mem_below_cases hnodup k2 g4 with g5 | g5
        · exact hzx g5
        · exact below_antisymm hnodup g5 g3
      · refine .inr (.inr ⟨z, ?_, ?_, ?_⟩)
        · simp only [eview_log, hl]; exact (List.mem_erase_of_ne hzx).2 g1
        · simp only [eview_zn, k5]; exact g2
        · simp only [eview_log, hl]; rw [below_erase hnodup hzx]; exact (List.mem_erase_of_ne hax).2 g4

end ConcVerif.Rcu
