import ConcVerif.Proof.HBLock
import ConcVerif.Proof.LockFamReg
import ConcVerif.Props.C01
/-! Connection of the lock-family model to the happens-before layer: every trace ACCEPTED by
`LockFam.step` (locking enabled), mapped to happens-before events, is consistent with mutex
semantics and makes every payload access under the wrapper's mutex (writes exclusively) — the
hypotheses of the lockset theorem. -/
namespace ConcVerif.LockFam

def sideMode : Side → HB.Mode
  | .X => .X
  | .S => .S

/-- happens-before content of a wrapper-model event (mutex = location 0, payload = location 0) -/
def toHB : Ev → HB.Ev
  | .lk sd _ true => .acq 0 (sideMode sd)
  | .rel sd => .rel 0 (sideMode sd)
  | .rd _ => .rd 0
  | .wr _ => .wr 0
  | _ => .nop

def hbTrace (es : List (Tid × Ev)) : HB.Trace := es.map (fun p => (p.1, toHB p.2))

def ofMode : Mode → Option HB.Mode
  | .none => none
  | .S => some .S
  | .X => some .X

theorem ofMode_side (sd : Side) : ofMode sd.mode = some (sideMode sd) := by cases sd <;> rfl

theorem hbTrace_snoc (es : List (Tid × Ev)) (t : Tid) (e : Ev) : hbTrace (es ++ [(t, e)]) = hbTrace es ++ [(t, toHB e)] := by
  simp [hbTrace]

/-- a step that is neither a successful lock event nor a release leaves the ghost `held` alone -/
theorem step_held_same {s s' : St} {t : Tid} {e : Ev} (hs : step s t e = some s')
    (h1 : ∀ sd how, e ≠ .lk sd how true) (h2 : ∀ sd, e ≠ .rel sd) : s'.held = s.held := by
  unfold step at hs; simp only at hs
  split at hs
  all_goals (try split at hs)
  all_goals (try split at hs)
  all_goals (try split at hs)
  all_goals (try split at hs)
  all_goals (try contradiction)
  all_goals (try (injection hs with hs; subst hs; rfl))
  all_goals (try (exact absurd rfl (h2 _)))
  all_goals first
    | (rename_i hok; subst hok; exact absurd rfl (h1 _ _))
    | (rename_i hok; obtain ⟨_, hok⟩ := hok; subst hok; exact absurd rfl (h1 _ _))

/-- a successful lock event is an `acquire` of the global mutex state -/
theorem step_lk {s s' : St} {t : Tid} {sd : Side} {how : How} (hs : step s t (.lk sd how true) = some s') :
    ∃ s1, s.acquire t sd = some s1 ∧ s'.held = s1.held := by
  cases hp : (s.loc t).pc <;> simp [step, hp] at hs
  · obtain ⟨_, s1, h1, h2⟩ := hs; exact ⟨s1, h1, by subst h2; rfl⟩
  · obtain ⟨_, s1, h1, h2⟩ := hs; exact ⟨s1, h1, by subst h2; rfl⟩

/-- a release event is a `release` of the global mutex state -/
theorem step_rel {s s' : St} {t : Tid} {sd : Side} (hs : step s t (.rel sd) = some s') :
    ∃ s1, s.release t sd = some s1 ∧ s'.held = s1.held := by
  generalize hE : Ev.rel sd = e at hs
  unfold step at hs; simp only at hs
  split at hs
  all_goals (try split at hs)
  all_goals (try split at hs)
  all_goals (try split at hs)
  all_goals (try split at hs)
  all_goals (try contradiction)
  all_goals (try (cases hE; done))
  all_goals (simp only [Option.map_eq_some_iff] at hs; obtain ⟨s1, ha, hs⟩ := hs; subst hs)
  all_goals (injection hE with hE; subst hE; exact ⟨s1, ha, rfl⟩)

/-- an acquisition is possible only when every other thread's hold is compatible -/
theorem acquire_compat {s s1 : St} {t : Tid} {sd : Side} (hg : GInv s) (ha : s.acquire t sd = some s1) (u : Tid) :
    HB.compat (ofMode (s.held u)) (sideMode sd) = true := by
  unfold St.acquire at ha
  split at ha
  · contradiction
  · cases sd <;> simp only at ha <;> split at ha
    · rename_i hfree
      have h1 : s.held u ≠ .X := by
        intro hx; have := (hg.exclHeld u).2 hx; rw [hfree.1] at this; cases this
      have h2 : s.held u ≠ .S := by
        intro hx; have := (hg.sharedHeld u).2 hx; rw [hfree.2] at this; cases this
      cases hh : s.held u
      · rfl
      · exact absurd hh h2
      · exact absurd hh h1
    · contradiction
    · rename_i hfree
      have h1 : s.held u ≠ .X := by
        intro hx; have := (hg.exclHeld u).2 hx; rw [hfree.1] at this; cases this
      cases hh : s.held u
      · rfl
      · rfl
      · exact absurd hh h1
    · contradiction

theorem ev_cases (e : Ev) : (∃ sd how, e = .lk sd how true) ∨ (∃ sd, e = .rel sd) ∨
    ((∀ sd how, e ≠ .lk sd how true) ∧ (∀ sd, e ≠ .rel sd) ∧
      ((toHB e = .nop) ∨ (∃ v, e = .rd v) ∨ (∃ v, e = .wr v))) := by
  cases e with
  | lk sd how ok =>
    cases ok
    · exact .inr (.inr ⟨(by intro _ _ h; cases h), (by intro _ h; cases h), .inl rfl⟩)
    · exact .inl ⟨sd, how, rfl⟩
  | rel sd => exact .inr (.inl ⟨sd, rfl⟩)
  | rd v => exact .inr (.inr ⟨(by intro _ _ h; cases h), (by intro _ h; cases h), .inr (.inl ⟨v, rfl⟩)⟩)
  | wr v => exact .inr (.inr ⟨(by intro _ _ h; cases h), (by intro _ h; cases h), .inr (.inr ⟨v, rfl⟩)⟩)
  | _ => exact .inr (.inr ⟨(by intro _ _ h; cases h), (by intro _ h; cases h), .inl rfl⟩)

/-- the simulation: after every accepted trace (locking enabled) the happens-before view of who holds
the wrapper's mutex is the model's ghost `held`, the mapped trace is consistent with mutex semantics,
and every payload access is made under the mutex (writes exclusively) -/
theorem hb_sim {cap : Bool} {es : List (Tid × Ev)} {s : St} (h : run true cap es = some s) :
    (∀ u, HB.held (hbTrace es) u 0 = ofMode (s.held u)) ∧ HB.MutexOK (hbTrace es) ∧ HB.LockSet (hbTrace es) 0 0 := by
  induction es using HB.snoc_induction generalizing s with
  | h0 =>
    simp [run] at h; subst h
    exact ⟨fun u => rfl, HB.mutexOK_nil, HB.lockSet_nil 0 0⟩
  | hs es x ih =>
    obtain ⟨t, e⟩ := x
    simp only [run, runFrom_append] at h
    cases h1 : runFrom step (init true cap) es with
    | none => simp [h1] at h
    | some s1 =>
      simp only [h1, Option.bind_some, runFrom_cons, runFrom_nil] at h
      cases h2 : step s1 t e with
      | none => simp [h2] at h
      | some s2 =>
        simp [h2] at h; subst h
        obtain ⟨ihH, ihM, ihL⟩ := ih h1
        have hreach : Reachable true cap s1 := ⟨es, h1⟩
        have hen : s1.enabled = true := reachable_enabled hreach
        have hg := (inv_reachable hreach).g
        rw [hbTrace_snoc]
        rcases ev_cases e with ⟨sd, how, he⟩ | ⟨sd, he⟩ | ⟨hn1, hn2, hk⟩
        · -- successful lock event
          subst he
          obtain ⟨s3, ha, hh⟩ := step_lk h2
          have hsp := acquire_spec ha
          refine ⟨?_, ?_, ?_⟩
          · intro u
            rw [HB.held_snoc, hh, hsp.2.1]
            simp only [toHB, HB.hstep, upd_apply]
            by_cases hu : u = t
            · subst hu; simp [ofMode_side]
            · simp [hu]; exact ihH u
          · apply HB.mutexOK_snoc ihM
            · intro m md he
              simp only [toHB] at he; injection he with hm hmd; subst hm; subst hmd
              refine ⟨by rw [ihH, hsp.1]; rfl, ?_⟩
              intro u _; rw [ihH]; exact acquire_compat hg ha u
            · intro m md he; simp only [toHB] at he; cases he
          · apply HB.lockSet_snoc ihL
            · intro he; simp only [toHB] at he; cases he
            · intro he; simp only [toHB] at he; cases he
        · -- release
          subst he
          obtain ⟨s3, hr, hh⟩ := step_rel h2
          have hsp := release_spec hr
          refine ⟨?_, ?_, ?_⟩
          · intro u
            rw [HB.held_snoc, hh, hsp.2.1]
            simp only [toHB, HB.hstep, upd_apply]
            by_cases hu : u = t
            · subst hu; simp [ofMode]
            · simp [hu]; exact ihH u
          · apply HB.mutexOK_snoc ihM
            · intro m md he; simp only [toHB] at he; cases he
            · intro m md he
              simp only [toHB] at he; injection he with hm hmd; subst hm; subst hmd
              rw [ihH, hsp.1]; exact ofMode_side sd
          · apply HB.lockSet_snoc ihL
            · intro he; simp only [toHB] at he; cases he
            · intro he; simp only [toHB] at he; cases he
        · have hsame := step_held_same h2 hn1 hn2
          have hheld : ∀ u, HB.held (hbTrace es ++ [(t, toHB e)]) u 0 = ofMode (s2.held u) := by
            intro u
            rw [HB.held_snoc, hsame]
            rcases hk with hk | ⟨v, hk⟩ | ⟨v, hk⟩
            · rw [hk]; exact ihH u
            · subst hk; exact ihH u
            · subst hk; exact ihH u
          refine ⟨hheld, ?_, ?_⟩
          · apply HB.mutexOK_snoc ihM
            · intro m md he
              rcases hk with hk | ⟨v, hk⟩ | ⟨v, hk⟩
              · rw [hk] at he; cases he
              · subst hk; cases he
              · subst hk; cases he
            · intro m md he
              rcases hk with hk | ⟨v, hk⟩ | ⟨v, hk⟩
              · rw [hk] at he; cases he
              · subst hk; cases he
              · subst hk; cases he
          · apply HB.lockSet_snoc ihL
            · intro he
              rcases hk with hk | ⟨v, hk⟩ | ⟨v, hk⟩
              · rw [hk] at he; cases he
              · subst hk
                have := (C01_read_protected hreach hen h2).1
                rw [ihH]; intro hc; apply this
                cases hh : s1.held t <;> simp [hh, ofMode] at hc ⊢
              · subst hk; cases he
            · intro he
              rcases hk with hk | ⟨v, hk⟩ | ⟨v, hk⟩
              · rw [hk] at he; cases he
              · subst hk; cases he
              · subst hk
                have := C01_write_exclusive hreach hen h2
                rw [ihH, this]; rfl

/-- **C07 for the lock family (model level).**  In every trace accepted by the wrapper model with
locking enabled, every payload access happens after every earlier conflicting payload access. -/
theorem lockfam_hb {cap : Bool} {es : List (Tid × Ev)} {s : St} (h : run true cap es = some s) {i j : Nat}
    (hij : i < j) (hc : HB.ConflictOn (hbTrace es) 0 i j) : HB.HB (hbTrace es) i j := by
  obtain ⟨_, hm, hl⟩ := hb_sim h
  exact HB.lockset_hb hm hl hij hc

theorem hbTrace_access {es : List (Tid × Ev)} {i : Nat} {t : Tid} {ei : HB.Ev} {x : HB.Loc}
    (h : (hbTrace es)[i]? = some (t, ei)) (ha : ei.accesses x) : x = 0 := by
  simp only [hbTrace, List.getElem?_map] at h
  cases hk : es[i]? with
  | none => simp [hk] at h
  | some p =>
    obtain ⟨u, e⟩ := p
    simp [hk] at h
    obtain ⟨_, h2⟩ := h
    subst h2
    cases e with
    | lk sd how ok => cases ok <;> rcases ha with ha | ha <;> cases ha
    | rd v => rcases ha with ha | ha <;> cases ha; rfl
    | wr v => rcases ha with ha | ha <;> cases ha; rfl
    | _ => rcases ha with ha | ha <;> cases ha

/-- no accepted trace of the wrapper model (locking enabled) contains a data race -/
theorem lockfam_no_race {cap : Bool} {es : List (Tid × Ev)} {s : St} (h : run true cap es = some s) :
    ¬ HB.Race (hbTrace es) := by
  intro ⟨i, j, hij, ⟨x, hc⟩, hn⟩
  have hx : x = 0 := by
    obtain ⟨t, u, ei, ej, h1, _, ha, _⟩ := hc
    exact hbTrace_access h1 ha
  subst hx
  exact hn (lockfam_hb h hij hc)

end ConcVerif.LockFam
