import ConcVerif.Proof.LRStep
import ConcVerif.Base.Live
/-! Ranking for `lr_guarded` (relational form of `Base/Live.lean`).

Environment events (`isEnv`): the calls (`lock_shared`, handle destruction, `modify`), the reads through a held
handle (`rd`) and the end-of-run observation `fin`.  A *progress step* (`Prog`) is a non-environment step that
changes the pc of its thread.  The only other steps are the idle steps of the holder of the write mutex, which
the stage-B writer model lets it repeat at will: a counter load that returns non-zero (a wait iteration) or a
zero already seen, `yld`, a store of `cl`, a redundant flag / counter load.  Every progress step lowers `Pc.rank`. -/
namespace ConcVerif.LR

def isEnv : Ev → Bool
  | .call _ | .rd _ _ | .fin _ _ => true
  | _ => false

def zCount (zL zR : Bool) : Nat := (if zL then 0 else 1) + (if zR then 0 else 1)

def Pc.rank : Pc → Nat
  | .idle => 0
  | .rdCalled => 4
  | .rdCL _ => 3
  | .rdInc _ => 2
  | .rdGot _ _ => 1
  | .rdHold _ _ => 0
  | .rdRel _ _ => 2
  | .rdRelD => 1
  | .wCalled _ => 13
  | .wA _ _ => 12
  | .wF1 _ _ => 11
  | .wF1d _ _ => 10
  | .wRb _ _ => 4
  | .wRbC _ _ => 3
  | .wRbD _ _ => 2
  | .wWait _ _ zL zR => 7 + zCount zL zR
  | .wF2 _ _ => 6
  | .wF2d _ _ => 5
  | .wRf _ _ => 4
  | .wRfC _ _ => 3
  | .wRfD _ _ => 2
  | .wRet _ => 1
  | .wExc _ _ => 1

def μ (s : St) (t : Tid) : Nat := (s.pc t).rank

/-- a progress step: not an environment event, and the pc of the stepping thread changes -/
def Prog (s : St) (t : Tid) (e : Ev) (s' : St) : Prop := isEnv e = false ∧ s'.pc t ≠ s.pc t

@[simp] theorem setPc_pc_self (s : St) (t : Tid) (p : Pc) : (s.setPc t p).pc t = p := by simp [St.setPc, upd]

/-- every progress step lowers the rank of the stepping thread -/
theorem prog_dec {s s' : St} {t : Tid} {e : Ev} (hs : step s t e = some s') (hP : Prog s t e s') :
    (s'.pc t).rank < (s.pc t).rank := by
  obtain ⟨he, hne⟩ := hP
  cases hp : s.pc t
  case rdGot c x =>
    cases e <;> simp [isEnv] at he
    case ret k => cases k <;> simp [step, hp, Pc.post] at hs; subst hs; simp [Pc.rank]
    all_goals simp [step, hp, Pc.post] at hs
  case rdRelD =>
    cases e <;> simp [isEnv] at he
    case ret k => cases k <;> simp [step, hp, Pc.post] at hs; subst hs; simp [Pc.rank]
    all_goals simp [step, hp, Pc.post] at hs
  case wRet op =>
    cases e <;> simp [isEnv] at he
    case ret k => cases k <;> simp [step, hp, Pc.post] at hs; obtain ⟨_, hs⟩ := hs; subst hs; simp [Pc.rank]
    all_goals simp [step, hp, Pc.post] at hs
  case wExc op fwd =>
    cases e <;> simp [isEnv] at he
    case exc k => cases k <;> simp [step, hp, Pc.post] at hs; obtain ⟨_, hs⟩ := hs; subst hs; simp [Pc.rank]
    all_goals simp [step, hp, Pc.post] at hs
  all_goals (cases e <;> simp [isEnv] at he <;> simp [step, hp, Pc.post] at hs)
  all_goals (first | (have := stutter_eq hs; subst this; exact absurd hp.symm (by rw [hp] at hne; exact fun h => hne rfl)) | skip)
  case wWait.stCL => subst hs; exact absurd rfl hne
  case wWait.yld => subst hs; exact absurd rfl hne
  case wWait.ldCnt op l zL zR c v =>
    obtain ⟨_, hs⟩ := hs
    split at hs
    · injection hs with hs; subst hs
      rw [hp] at hne
      simp only [setPc_pc_self] at hne ⊢
      cases c <;> cases zL <;> cases zR <;> simp [Pc.rank, zCount] at hne ⊢
    · split at hs
      · contradiction
      · injection hs with hs; subst hs; exact absurd rfl hne
  all_goals (try (obtain ⟨_, hs⟩ := hs))
  all_goals (try subst hs)
  all_goals (simp [Pc.rank, zCount, St.setPc, upd])
  all_goals (try (split <;> split <;> omega))

theorem rankedRel : Live.RankedRel step (fun _ => True) Prog μ where
  good := fun _ _ _ _ _ _ _ => trivial
  dec := fun _ _ _ _ _ hs hP => prog_dec hs hP
  frame := by
    intro s t e s' u _ hs _ hu
    simp [μ, step_pc_other hs hu]

/-- the events of a wait iteration / redundant load -/
def isWaitEv : Ev → Bool
  | .ldRL _ | .ldCL _ | .ldCnt _ _ | .yld | .stCL _ => true
  | _ => false

/-- a non-environment step that is not a progress step is an idle step of the holder of the write mutex: a
counter / flag load, a yield or a store of `cl` that leaves its pc where it was -/
theorem idle_is_holder {s s' : St} {t : Tid} {e : Ev} (hs : step s t e = some s') (he : isEnv e = false)
    (hpc : s'.pc t = s.pc t) : (s.pc t).post = true ∧ isWaitEv e = true := by
  cases hpost : (s.pc t).post
  · exfalso
    have hlt : ¬ ((s'.pc t).rank < (s.pc t).rank) := by rw [hpc]; exact Nat.lt_irrefl _
    cases hp : s.pc t <;> rw [hp] at hpost <;> simp [Pc.post] at hpost
    all_goals (cases e <;> simp [isEnv] at he <;> simp [step, hp, Pc.post] at hs)
    all_goals (try (rename_i k; cases k <;> simp [step, hp, Pc.post] at hs))
    all_goals (try (obtain ⟨_, hs⟩ := hs))
    all_goals (try subst hs)
    all_goals (simp [St.setPc, upd, hp] at hpc)
  · refine ⟨rfl, ?_⟩
    cases he' : isWaitEv e
    · exfalso
      have hP : Prog s t e s' → False := fun h => by
        have := prog_dec hs h; rw [hpc] at this; exact Nat.lt_irrefl _ this
      cases hp : s.pc t <;> rw [hp] at hpost <;> simp [Pc.post] at hpost
      all_goals (cases e <;> simp [isEnv] at he <;> simp [isWaitEv] at he' <;> simp [step, hp, Pc.post, stutter] at hs)
      all_goals (try (obtain ⟨_, hs⟩ := hs))
      all_goals (try subst hs)
      all_goals (simp [St.setPc, upd, hp] at hpc)
    · rfl

/-! ## Who can make progress -/

/-- `t` has an enabled progress step -/
def CanProg (s : St) (t : Tid) : Prop := ∃ e s', step s t e = some s' ∧ Prog s t e s'

/-- the client keeps a read handle in thread `t` (registered in counter `c`) -/
def HoldsHandle (s : St) (t : Tid) (c : Side) : Prop := ∃ x, s.pc t = .rdHold c x

/-- `w` waits for readers: some counter has not been seen at zero since the flip, and every such counter has a
registered reader -/
def WriterWaits (s : St) (w : Tid) : Prop :=
  ∃ op l zL zR, s.pc w = .wWait op l zL zR ∧ (∃ c, zOf c zL zR = false) ∧ ∀ c, zOf c zL zR = false → s.reg c ≠ []

theorem canProg_of {s : St} {t : Tid} (e : Ev) (p' : Pc) (s1 : St) (he : isEnv e = false)
    (hs : step s t e = some (s1.setPc t p')) (hne : p' ≠ s.pc t) : CanProg s t :=
  ⟨e, _, hs, he, by simpa using hne⟩

theorem canProg_of2 {s : St} {t : Tid} (e : Ev) (he : isEnv e = false) (hw : isWaitEv e = false)
    (hen : (step s t e).isSome = true) : CanProg s t := by
  obtain ⟨s', hs⟩ := Option.isSome_iff_exists.mp hen
  refine ⟨e, s', hs, he, fun hpc => ?_⟩
  have := (idle_is_holder hs he hpc).2
  rw [hw] at this; cases this

/-- per-thread classification of a reachable state -/
theorem thread_cases {s : St} (hi : Inv s) (t : Tid) :
    s.pc t = .idle ∨ CanProg s t ∨ (∃ c, HoldsHandle s t c) ∨
    (∃ op, s.pc t = .wCalled op ∧ ∃ w, s.mtx = some w) ∨ WriterWaits s t := by
  have hm : (s.pc t).post = true → s.mtx = some t := (hi.holder t).1
  cases hp : s.pc t
  case idle => exact Or.inl rfl
  case rdCalled => exact Or.inr (Or.inl (canProg_of (.ldCL s.cl) (.rdCL s.cl) s rfl (by simp [step, hp]) (by simp [hp])))
  case rdCL c =>
    exact Or.inr (Or.inl (canProg_of2 (.inc c (s.reg c).length) rfl rfl (by simp [step, hp])))
  case rdInc c => exact Or.inr (Or.inl (canProg_of (.ldRL s.rl) (.rdGot c s.rl) s rfl (by simp [step, hp]) (by simp [hp])))
  case rdGot c x => exact Or.inr (Or.inl (canProg_of (.ret (.ls 0)) (.rdHold c x) s rfl (by simp [step, hp]) (by simp [hp])))
  case rdHold c x => exact Or.inr (Or.inr (Or.inl ⟨c, x, hp⟩))
  case rdRel c x =>
    exact Or.inr (Or.inl (canProg_of2 (.dec c (s.reg c).length) rfl rfl (by simp [step, hp])))
  case rdRelD => exact Or.inr (Or.inl (canProg_of (.ret .rel) .idle s rfl (by simp [step, hp]) (by simp [hp])))
  case wCalled op =>
    cases hmx : s.mtx with
    | none =>
      exact Or.inr (Or.inl (canProg_of .lock (.wA op s.rl) { s with mtx := some t, base := s.committed } rfl
        (by simp [step, hp, hmx]) (by simp [hp])))
    | some w => exact Or.inr (Or.inr (Or.inr (Or.inl ⟨op, rfl, w, rfl⟩)))
  case wA op l => exact Or.inr (Or.inl (canProg_of (.fBegin l.flip) (.wF1 op l) s rfl (by simp [step, hp]) (by simp [hp])))
  case wF1 op l =>
    exact Or.inr (Or.inl (canProg_of2 (.fEnd l.flip (s.val l.flip ++ [op])) rfl rfl (by simp [step, hp])))
  case wF1d op l =>
    exact Or.inr (Or.inl (canProg_of (.stRL l.flip) (.wWait op l false false)
      { s with rl := l.flip, committed := s.committed ++ [op] } rfl (by simp [step, hp]) (by simp [hp])))
  case wRb op l => exact Or.inr (Or.inl (canProg_of (.cpBegin l.flip) (.wRbC op l) s rfl (by simp [step, hp]) (by simp [hp])))
  case wRbC op l =>
    exact Or.inr (Or.inl (canProg_of2 (.cpEnd l.flip (s.val l)) rfl rfl (by simp [step, hp])))
  case wRbD op l =>
    have := hm (by simp [hp, Pc.post])
    exact Or.inr (Or.inl (canProg_of .unlock (.wExc op false) { s with mtx := none } rfl (by simp [step, hp, this]) (by simp [hp])))
  case wF2 op l =>
    exact Or.inr (Or.inl (canProg_of2 (.fEnd l (s.val l ++ [op])) rfl rfl (by simp [step, hp])))
  case wF2d op l =>
    have := hm (by simp [hp, Pc.post])
    exact Or.inr (Or.inl (canProg_of .unlock (.wRet op) { s with mtx := none } rfl (by simp [step, hp, this]) (by simp [hp])))
  case wRf op l => exact Or.inr (Or.inl (canProg_of (.cpBegin l) (.wRfC op l) s rfl (by simp [step, hp]) (by simp [hp])))
  case wRfC op l =>
    exact Or.inr (Or.inl (canProg_of2 (.cpEnd l (s.val l.flip)) rfl rfl (by simp [step, hp])))
  case wRfD op l =>
    have := hm (by simp [hp, Pc.post])
    exact Or.inr (Or.inl (canProg_of .unlock (.wExc op true) { s with mtx := none } rfl (by simp [step, hp, this]) (by simp [hp])))
  case wRet op => exact Or.inr (Or.inl (canProg_of (.ret (.modify op)) .idle s rfl (by simp [step, hp]) (by simp [hp])))
  case wExc op fwd => exact Or.inr (Or.inl (canProg_of (.exc (.modify op)) .idle s rfl (by simp [step, hp]) (by simp [hp])))
  case wWait op l zL zR =>
    by_cases hall : zL = true ∧ zR = true
    · obtain ⟨rfl, rfl⟩ := hall
      exact Or.inr (Or.inl (canProg_of (.fBegin l) (.wF2 op l) s rfl (by simp [step, hp]) (by simp [hp])))
    · by_cases hfree : ∃ c, zOf c zL zR = false ∧ s.reg c = []
      · obtain ⟨c, hz, hr⟩ := hfree
        refine Or.inr (Or.inl (canProg_of (.ldCnt c 0) (waitSeen op l zL zR c) s rfl (by simp [step, hp, hr]) ?_))
        rw [hp]
        cases c <;> simp [zOf] at hz <;> subst hz <;> simp [waitSeen]
      · refine Or.inr (Or.inr (Or.inr (Or.inr ⟨op, l, zL, zR, hp, ?_, fun c hz hr => hfree ⟨c, hz, hr⟩⟩)))
        cases zL
        · exact ⟨.L, rfl⟩
        · cases zR
          · exact ⟨.R, rfl⟩
          · exact absurd ⟨rfl, rfl⟩ hall

end ConcVerif.LR
