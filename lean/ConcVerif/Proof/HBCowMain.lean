import ConcVerif.Proof.HBCowInvStep
/-! cow_guarded and happens-before, part 9: the invariants hold along every accepted trace; a read of the payload
of a version happens-after every write to it; the destruction of a version happens-after every read of it
through a snapshot, given the control block's guarantee. -/
namespace ConcVerif.Cow
open ConcVerif.LR (Side)

theorem cinv_run {b : Bool} {es : List (Tid × Ev)} {s : St} (h : run (init b) es = some s) : CInv es s := by
  induction es using HB.snoc_induction generalizing s with
  | h0 => simp [run] at h; subst h; exact cinv_init b
  | hs es x ih =>
    obtain ⟨t, e⟩ := x
    obtain ⟨s1, h1, h2⟩ := run_snoc h
    exact cinv_step (inv_reachable ⟨b, es, h1⟩) (inv_reachable ⟨b, _, h⟩) (ih h1) h2

/-- **a read of the payload of version `v` happens-after every write to it** -/
theorem cow_read_after_write {o : LR.Ords} (ho : o.OK) {pay b : Bool} {es : List (Tid × Ev)} {s : St}
    (h : run (init b) es = some s) {i j : Nat} {t0 u : Tid} {ei ej : Ev} {v : Ver} (hij : i < j)
    (hi : es[i]? = some (t0, ei)) (hw : ei.wrP = some v) (hj : es[j]? = some (u, ej)) (hr : ej.rdP = some v) :
    HB.HB (hbTraceC o pay es) i j := by
  have C := cinv_run h
  by_cases hut : u = t0
  · subst hut; exact .po hij (hbTraceC_get hi) (hbTraceC_get hj)
  · rcases C.kr j u ej v hj hr with ⟨r, x, hrj, hr'⟩ | ⟨c, src, k, _, hc⟩
    · rcases C.kl r u x v hr' with hz | ⟨q, t1, hqr, hq⟩
      · exact absurd hz (C.wro i t0 ei v hi hw).2.1
      · obtain ⟨g1, g2⟩ := C.kw i t0 ei v q t1 x hi hw hq
        subst g1
        have h1 : HB.HB (hbTraceC o pay es) i q := .po g2 (hbTraceC_get hi) (hbTraceC_get hq)
        have h2 : HB.HB (hbTraceC o pay es) q r :=
          cow_lr_order ho h hqr hq hr' ⟨x, .inl ⟨⟨v, rfl⟩, .inr ⟨v, rfl⟩⟩⟩
        have h3 : HB.HB (hbTraceC o pay es) r j := .po hrj (hbTraceC_get hr') (hbTraceC_get hj)
        exact .trans (.trans h1 h2) h3
    · exact absurd (C.ww i c t0 u ei _ v hi hc hw rfl).symm hut

/-- the payload is written only by the thread that holds the writer mutex -/
theorem write_holds {s s' : St} {t : Tid} {e : Ev} {v : Ver} (h : Reachable s) (hs : step s t e = some s')
    (hw : e.wrP = some v) : s.wm = some t := by
  have hi := inv_reachable h
  apply (hi.l.wmh t).1
  cases e <;> simp [Ev.wrP] at hw
  · rw [(pcp_pre hs).1]; rfl
  · subst hw; rw [(pwr_pre hs).1]; rfl

/-- a snapshot handle that has disappeared was dropped by its owner -/
theorem snap_dropped {s0 s : St} {es : List (Tid × Ev)} (h : run s0 es = some s) {u : Tid} {v : Ver}
    (h0 : (u, v) ∈ s0.snaps) (h1 : (u, v) ∉ s.snaps) : ∃ (k : Nat), es[k]? = some (u, Ev.call (.drop v)) := by
  induction es generalizing s0 with
  | nil => simp [run] at h; subst h; exact absurd h0 h1
  | cons x xs ih =>
    obtain ⟨t, e⟩ := x
    simp only [run, runFrom_cons] at h
    cases hs : step s0 t e with
    | none => simp [hs] at h
    | some s1 =>
      simp only [hs, Option.bind_some] at h
      by_cases hd : u = t ∧ e = .call (.drop v)
      · obtain ⟨rfl, rfl⟩ := hd; exact ⟨0, rfl⟩
      · obtain ⟨k, hk⟩ := ih (s0 := s1) h ((frame_step hs).snaps u v h0 hd)
        exact ⟨k + 1, by simpa using hk⟩

/-- a version is destroyed only when no snapshot of it is left -/
theorem pdt_no_snap {s s' : St} {d : Tid} {v : Ver} (hi : Inv s) (hs : step s d (.pdt v) = some s') (u : Tid) :
    (u, v) ∉ s.snaps := by
  have norefd : s.refd v = false → (u, v) ∉ s.snaps := by
    intro hr hc
    simp only [St.refd, Bool.or_eq_false_iff] at hr
    have := hr.2
    rw [List.any_eq_false] at this
    exact this (u, v) hc (by simp)
  cow_unf hs
  · obtain ⟨⟨h1, _, _, h4⟩, rfl⟩ := hs; subst h1; exact norefd h4
  · obtain ⟨⟨_, _, h3⟩, rfl⟩ := hs; exact norefd h3
  · obtain ⟨⟨h1', h2⟩, rfl⟩ := hs; subst h2; subst h1'
    intro hc
    rename_i hpc
    have h1 := (hi.h.ownOk d v (by rw [hpc]; rfl)).2.2
    exact h1 (hi.h.snapsOk u v hc).1


theorem run_split {s0 s : St} {es : List (Tid × Ev)} (h : run s0 es = some s) (n : Nat) :
    ∃ sn, run s0 (es.take n) = some sn ∧ run sn (es.drop n) = some s := by
  have : es = es.take n ++ es.drop n := (List.take_append_drop n es).symm
  rw [this, run, runFrom_append] at h
  cases h1 : runFrom step s0 (es.take n) with
  | none => simp [h1] at h
  | some sn => simp only [h1, Option.bind_some] at h; exact ⟨sn, h1, h⟩

/-- the edges the (untraced, trusted) `shared_ptr` control block provides: the release of a reference to version `v` — the
destruction of a snapshot handle, `call drop v`, an acquire-release decrement of the use count inside libstdc++ — happens-before
the destruction of `v` by the last owner -/
def CBedge (es : List (Tid × Ev)) (k j : Nat) : Prop :=
  k < j ∧ ∃ (u d : Tid) (v : Ver), es[k]? = some (u, Ev.call (.drop v)) ∧ es[j]? = some (d, Ev.pdt v)

/-- happens-before extended by the control-block edges -/
inductive HBx (tr : HB.Trace) (R : Nat → Nat → Prop) : Nat → Nat → Prop
  | base {i j : Nat} : HB.HB tr i j → HBx tr R i j
  | edge {i j : Nat} : R i j → HBx tr R i j
  | trans {i j k : Nat} : HBx tr R i j → HBx tr R j k → HBx tr R i k

/-- **destruction of a version happens-after every read of it through a snapshot**, in happens-before extended by the
control-block edges: the reader's read is program-order-before its own `call drop v`, which the control block orders
before the destruction (the model accepts `pdt v` only when no snapshot of `v` is left). -/
theorem cow_destroy_after_snapshot {o : LR.Ords} {pay b : Bool} {es : List (Tid × Ev)} {s : St} (h : run (init b) es = some s)
    {i j : Nat} {u d : Tid} {v : Ver} {c : Nat} (hij : i < j) (hi : es[i]? = some (u, .prd v c))
    (hsnap : ∀ si, run (init b) (es.take i) = some si → (u, v) ∈ si.snaps) (hj : es[j]? = some (d, .pdt v)) :
    ∃ k, i < k ∧ k < j ∧ es[k]? = some (u, Ev.call (.drop v)) ∧ HBx (hbTraceC o pay es) (CBedge es) i j := by
  have hjl := HB.lq_lt hj
  -- the states before `i` and before `j`
  obtain ⟨sj, sj', hrj, hsj⟩ := HB.runFrom_at (step := step) h hj
  obtain ⟨si, hri, hseg⟩ := run_split (s0 := init b) (es := es.take j) hrj i
  have hti : (es.take j).take i = es.take i := by rw [List.take_take]; congr 1; omega
  rw [hti] at hri
  have h0 := hsnap si hri
  have h1 := pdt_no_snap (inv_reachable ⟨b, _, hrj⟩) hsj u
  obtain ⟨k, hk⟩ := snap_dropped hseg h0 h1
  have hkl := HB.lq_lt hk
  simp only [List.length_drop, List.length_take] at hkl
  have hk' : es[i + k]? = some (u, Ev.call (.drop v)) := by
    rw [List.getElem?_drop, List.getElem?_take] at hk
    have : i + k < j := by omega
    simpa [this] using hk
  have hk0 : k ≠ 0 := by
    intro hc; subst hc
    simp at hk'
    rw [hi] at hk'; cases hk'
  have hb1 : HB.HB (hbTraceC o pay es) i (i + k) := .po (by omega) (hbTraceC_get hi) (hbTraceC_get hk')
  exact ⟨i + k, by omega, by omega, hk', .trans (.base hb1) (.edge ⟨by omega, u, d, v, hk', hj⟩)⟩

end ConcVerif.Cow
