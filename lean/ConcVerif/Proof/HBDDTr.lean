import ConcVerif.Proof.HBDDMap
/-! Trace-level lemmas for appending the events of ONE thread to a happens-before trace: what the mutex bookkeeping,
`MutexOK` and `LockSet` need from each appended block.  Nothing here depends on the DelayedDestructor model. -/
namespace ConcVerif.DD

/-- not a mutex operation -/
def Inert (x : HB.Ev) : Prop := (∀ m md, x ≠ .acq m md) ∧ (∀ m md, x ≠ .rel m md)

/-- an access to the vector -/
def IsAcc (x : HB.Ev) : Prop := x = .rd 0 ∨ x = .wr 0

/-- an event the destructor part may produce: an access to the vector or a join -/
def IsFree (x : HB.Ev) : Prop := x = .rd 0 ∨ x = .wr 0 ∨ ∃ u, x = .join u

theorem IsAcc.inert {x : HB.Ev} (h : IsAcc x) : Inert x := by
  rcases h with h | h <;> subst h <;> exact ⟨fun _ _ h => (nomatch h), fun _ _ h => (nomatch h)⟩

theorem IsFree.inert {x : HB.Ev} (h : IsFree x) : Inert x := by
  rcases h with h | h | ⟨u, h⟩ <;> subst h <;> exact ⟨fun _ _ h => (nomatch h), fun _ _ h => (nomatch h)⟩

theorem inert_nop : Inert .nop := ⟨fun _ _ h => (nomatch h), fun _ _ h => (nomatch h)⟩

theorem append_evs_cons (tr : HB.Trace) (t : Tid) (x : HB.Ev) (l : List HB.Ev) :
    tr ++ evs t (x :: l) = (tr ++ [(t, x)]) ++ evs t l := by
  simp [evs]

theorem hstep_inert (h : Tid → HB.Loc → Option HB.Mode) (t : Tid) {x : HB.Ev} (hx : Inert x) :
    HB.hstep h (t, x) = h := by
  cases x with
  | acq m md => exact absurd rfl (hx.1 m md)
  | rel m md => exact absurd rfl (hx.2 m md)
  | _ => rfl

theorem held_inert (tr : HB.Trace) (t : Tid) {l : List HB.Ev} (hl : ∀ x ∈ l, Inert x) :
    HB.held (tr ++ evs t l) = HB.held tr := by
  induction l generalizing tr with
  | nil => simp
  | cons x l ih =>
    rw [append_evs_cons, ih _ (fun y hy => hl y (List.mem_cons_of_mem _ hy)), HB.held_snoc,
      hstep_inert _ _ (hl x List.mem_cons_self)]

theorem mutexOK_inert {tr : HB.Trace} (t : Tid) {l : List HB.Ev} (h : HB.MutexOK tr) (hl : ∀ x ∈ l, Inert x) :
    HB.MutexOK (tr ++ evs t l) := by
  induction l generalizing tr with
  | nil => simpa using h
  | cons x l ih =>
    rw [append_evs_cons]
    apply ih _ (fun y hy => hl y (List.mem_cons_of_mem _ hy))
    have hx := hl x List.mem_cons_self
    exact HB.mutexOK_snoc h (fun m md he => absurd he (hx.1 m md)) (fun m md he => absurd he (hx.2 m md))

/-- accesses (and anything else that is not a mutex operation) made while the thread holds the mutex exclusively -/
theorem lockSet_locked {tr : HB.Trace} {t : Tid} {l : List HB.Ev} (h : HB.LockSet tr 0 0)
    (hh : HB.held tr t 0 = some .X) (hl : ∀ x ∈ l, Inert x) : HB.LockSet (tr ++ evs t l) 0 0 := by
  induction l generalizing tr with
  | nil => simpa using h
  | cons x l ih =>
    rw [append_evs_cons]
    have hx := hl x List.mem_cons_self
    apply ih _ _ (fun y hy => hl y (List.mem_cons_of_mem _ hy))
    · exact HB.lockSet_snoc h (fun _ => by rw [hh]; simp) (fun _ => hh)
    · rw [HB.held_snoc, hstep_inert _ _ hx]; exact hh

/-- events that are not accesses to the vector -/
theorem lockSet_noacc {tr : HB.Trace} {t : Tid} {l : List HB.Ev} (h : HB.LockSet tr 0 0) (hl : ∀ x ∈ l, ¬ IsAcc x) :
    HB.LockSet (tr ++ evs t l) 0 0 := by
  induction l generalizing tr with
  | nil => simpa using h
  | cons x l ih =>
    rw [append_evs_cons]
    have hx := hl x List.mem_cons_self
    apply ih _ (fun y hy => hl y (List.mem_cons_of_mem _ hy))
    exact HB.lockSet_snoc h (fun he => absurd (.inl he) hx) (fun he => absurd (.inr he) hx)

/-- position `n` of `tr ++ evs t l` beyond `tr` is an event of `t` from `l` -/
theorem get_evs_right {tr : HB.Trace} {t u : Tid} {l : List HB.Ev} {n : Nat} {x : HB.Ev}
    (hn : tr.length ≤ n) (h : (tr ++ evs t l)[n]? = some (u, x)) : u = t ∧ x ∈ l := by
  rw [List.getElem?_append_right hn] at h
  exact mem_evs (List.mem_of_getElem? h)

/-- from position `c` on, everything that is not a `nop` is done by thread `d` -/
def OwnedFrom (tr : HB.Trace) (c : Nat) (d : Tid) : Prop :=
  ∀ n u x, c ≤ n → tr[n]? = some (u, x) → x ≠ .nop → u = d

theorem ownedFrom_append {tr : HB.Trace} {c : Nat} {d t : Tid} {l : List HB.Ev} (h : OwnedFrom tr c d)
    (hl : t = d ∨ ∀ x ∈ l, x = .nop) : OwnedFrom (tr ++ evs t l) c d := by
  intro n u x hc hn hx
  by_cases hlt : n < tr.length
  · rw [List.getElem?_append_left hlt] at hn; exact h n u x hc hn hx
  · obtain ⟨h1, h2⟩ := get_evs_right (by omega) hn
    rcases hl with hl | hl
    · rw [h1, hl]
    · exact absurd (hl x h2) hx

theorem ownedFrom_start (tr : HB.Trace) (t : Tid) (l : List HB.Ev) : OwnedFrom (tr ++ evs t l) tr.length t := by
  intro n u x hc hn _
  exact (get_evs_right hc hn).1

/-! ### the mutex bookkeeping -/

def ofMtx (m : Option Tid) (u : Tid) : Option HB.Mode := if m = some u then some .X else none

/-- the mapped trace mirrors the model's lock and is consistent with mutex semantics -/
def TI (tr : HB.Trace) (l : Option Tid) : Prop := (∀ u, HB.held tr u 0 = ofMtx l u) ∧ HB.MutexOK tr

theorem ti_inert {tr : HB.Trace} {l : Option Tid} (t : Tid) {evl : List HB.Ev} (h : TI tr l)
    (hl : ∀ x ∈ evl, Inert x) : TI (tr ++ evs t evl) l :=
  ⟨fun u => by rw [held_inert _ _ hl]; exact h.1 u, mutexOK_inert t h.2 hl⟩

theorem ti_acq {tr : HB.Trace} {t : Tid} (h : TI tr none) : TI (tr ++ [(t, .acq 0 .X)]) (some t) := by
  refine ⟨?_, ?_⟩
  · intro u
    rw [HB.held_snoc]
    simp only [HB.hstep, ofMtx]
    by_cases hu : u = t
    · subst hu; simp
    · have : ¬ t = u := fun h => hu h.symm
      simp [hu, this]; rw [h.1]; rfl
  · apply HB.mutexOK_snoc h.2
    · intro m md he
      injection he with hm hmd; subst hm; subst hmd
      exact ⟨by rw [h.1]; rfl, fun u _ => by rw [h.1]; rfl⟩
    · intro m md he; cases he

theorem ti_rel {tr : HB.Trace} {t : Tid} (h : TI tr (some t)) : TI (tr ++ [(t, .rel 0 .X)]) none := by
  refine ⟨?_, ?_⟩
  · intro u
    rw [HB.held_snoc]
    simp only [HB.hstep, ofMtx]
    by_cases hu : u = t
    · subst hu; simp
    · simp [hu]; rw [h.1]; simp [ofMtx]; intro h'; exact hu h'.symm
  · apply HB.mutexOK_snoc h.2
    · intro m md he; cases he
    · intro m md he
      injection he with hm hmd; subst hm; subst hmd
      rw [h.1]; simp [ofMtx]

end ConcVerif.DD
