import ConcVerif.Proof.CowLR
import ConcVerif.Props.C03
/-! Invariants of the cow model (`Model/Cow.lean`), layer 1: the control skeleton `LInv` — the embedded left-right state
is a reachable state of the LR model (every cow step is a sequence of `LR.step`s), so every LR theorem applies to it, each cow pc is linked to a coarse position of
the same thread inside `m_data` (`Pc.cls`), the writer mutex `wm` is owned exactly by the threads whose pc says so, and
an open assignment window (`det`) belongs to a thread that is inside a write window of the LR model. -/
namespace ConcVerif.Cow
open ConcVerif.LR (lk LK Side)

/-! ### `cur` -/
@[simp] theorem cur_nil : cur [] = 0 := rfl
@[simp] theorem cur_single (v : Ver) : cur [v] = v := rfl
@[simp] theorem cur_cons_cons (a b : Ver) (l : List Ver) : cur (a :: b :: l) = cur (b :: l) := rfl

@[simp] theorem cur_append_single (l : List Ver) (v : Ver) : cur (l ++ [v]) = v := by
  induction l with
  | nil => rfl
  | cons a l ih =>
    cases l with
    | nil => rfl
    | cons b l => simpa using ih

theorem cur_mem (l : List Ver) : cur l = 0 ∨ cur l ∈ l := by
  induction l with
  | nil => left; rfl
  | cons a l ih =>
    cases l with
    | nil => right; simp
    | cons b l =>
      rcases ih with h | h
      · left; simpa using h
      · right; simp only [cur_cons_cons]; exact List.mem_cons_of_mem _ h

/-! ### pc attributes -/
/-- position inside `m_data`'s operations a cow pc corresponds to -/
def Pc.cls : Pc → LK
  | .rdA _ | .lkA => .pre
  | .rdH _ _ | .rdP _ _ | .lkH _ | .lkC _ | .lkT => .hold
  | .relA v => .wA v
  | .relB v _ => .wB v
  | .relC v => .wR v
  | _ => .idle

/-- the thread owns the writer mutex `wm` -/
def Pc.holds : Pc → Bool
  | .lkA | .lkH _ | .lkC _ | .lkD _ | .lkT | .lkTD | .wHold _ | .relA _ | .relB _ _ | .relC _ | .cn _ false _ => true
  | _ => false

structure LInv (s : St) : Prop where
  reach : LR.Reachable s.lr
  link : ∀ t, lk (s.lr.pc t) = (s.pc t).cls
  wmh : ∀ t, (s.pc t).holds = true ↔ s.wm = some t
  win : ∀ x, s.det = some x → ∃ w, (s.lr.pc w).writing = some x

theorem linv_init (b : Bool) : LInv (init b) := by
  refine ⟨⟨b, [], rfl⟩, ?_, ?_, ?_⟩ <;> simp [init, LR.init, lk, Pc.cls, Pc.holds]

theorem LInv.full {s : St} (h : LInv s) : LR.Full s.lr := LR.full_reachable h.reach

@[simp] theorem setPc_pc (s : St) (t u : Tid) (p : Pc) : (s.setPc t p).pc u = if u = t then p else s.pc u := rfl
@[simp] theorem setPc_lr (s : St) (t : Tid) (p : Pc) : (s.setPc t p).lr = s.lr := rfl
@[simp] theorem setPc_wm (s : St) (t : Tid) (p : Pc) : (s.setPc t p).wm = s.wm := rfl
@[simp] theorem setPc_det (s : St) (t : Tid) (p : Pc) : (s.setPc t p).det = s.det := rfl
@[simp] theorem setPc_alloc (s : St) (t : Tid) (p : Pc) : (s.setPc t p).alloc = s.alloc := rfl
@[simp] theorem setPc_dead (s : St) (t : Tid) (p : Pc) : (s.setPc t p).dead = s.dead := rfl
@[simp] theorem setPc_parent (s : St) (t : Tid) (p : Pc) : (s.setPc t p).parent = s.parent := rfl
@[simp] theorem setPc_cont (s : St) (t : Tid) (p : Pc) : (s.setPc t p).cont = s.cont := rfl
@[simp] theorem setPc_snaps (s : St) (t : Tid) (p : Pc) : (s.setPc t p).snaps = s.snaps := rfl
@[simp] theorem setPc_released (s : St) (t : Tid) (p : Pc) : (s.setPc t p).released = s.released := rfl
@[simp] theorem withLr_lr (s : St) (l : LR.St) : (withLr s l).lr = l := rfl
@[simp] theorem withLr_pc (s : St) (l : LR.St) : (withLr s l).pc = s.pc := rfl
@[simp] theorem withLr_wm (s : St) (l : LR.St) : (withLr s l).wm = s.wm := rfl
@[simp] theorem withLr_det (s : St) (l : LR.St) : (withLr s l).det = s.det := rfl
@[simp] theorem withLr_alloc (s : St) (l : LR.St) : (withLr s l).alloc = s.alloc := rfl
@[simp] theorem withLr_dead (s : St) (l : LR.St) : (withLr s l).dead = s.dead := rfl
@[simp] theorem withLr_parent (s : St) (l : LR.St) : (withLr s l).parent = s.parent := rfl
@[simp] theorem withLr_cont (s : St) (l : LR.St) : (withLr s l).cont = s.cont := rfl
@[simp] theorem withLr_snaps (s : St) (l : LR.St) : (withLr s l).snaps = s.snaps := rfl
@[simp] theorem withLr_released (s : St) (l : LR.St) : (withLr s l).released = s.released := rfl

/-- positions outside `modify` are outside every write window -/
theorem writing_none {p : LR.Pc} (h : lk p = .idle ∨ lk p = .pre ∨ lk p = .hold ∨ ∃ op, lk p = .wR op) : p.writing = none := by
  cases p <;> simp [lk] at h <;> rfl

/-- a thread inside a write window holds the LR write mutex -/
theorem writing_post {p : LR.Pc} {x : Side} (h : p.writing = some x) : p.post = true := by
  cases p <;> simp [LR.Pc.writing] at h <;> rfl

/-- generic frame lemma: thread `t` makes delegated LR steps (`s.lr ⟶ l`) and moves to cow pc `p'` -/
theorem linv_frame {s s' : St} {t : Tid} {p' : Pc} (h : LInv s)
    (hd : LR.Deleg s.lr s'.lr t) (hpc : s'.pc = upd s.pc t p')
    (hl : lk (s'.lr.pc t) = p'.cls)
    (hw : ∀ u, (if u = t then p'.holds else (s.pc u).holds) = true ↔ s'.wm = some u)
    (hdet : ∀ x, s'.det = some x → ∃ w, (s'.lr.pc w).writing = some x) : LInv s' := by
  refine ⟨hd.reach h.reach, ?_, ?_, hdet⟩
  · intro u
    rw [hpc, upd_apply]
    by_cases hu : u = t
    · subst hu; simpa using hl
    · simp only [hu, if_false]; rw [hd.other u hu]; exact h.link u
  · intro u
    rw [hpc, upd_apply, ← hw u]
    by_cases hu : u = t <;> simp [hu]

/-- the writer mutex is not touched and the thread keeps its ownership status -/
theorem wm_same {s : St} {t : Tid} {p' : Pc} {wm' : Option Tid} (h : LInv s) (hp : p'.holds = (s.pc t).holds)
    (hw : wm' = s.wm) : ∀ u, (if u = t then p'.holds else (s.pc u).holds) = true ↔ wm' = some u := by
  intro u
  by_cases hu : u = t
  · subst hu; simp only [if_true, hp, hw]; exact h.wmh u
  · simp only [hu, if_false, hw]; exact h.wmh u

theorem wm_lock {s : St} {t : Tid} {p' : Pc} (h : LInv s) (hp : p'.holds = true) (hw : s.wm = none) :
    ∀ u, (if u = t then p'.holds else (s.pc u).holds) = true ↔ some t = some u := by
  intro u
  by_cases hu : u = t
  · subst hu; simp [hp]
  · have := h.wmh u
    rw [hw] at this
    simp only [hu, if_false]
    constructor
    · intro h1; exact absurd (this.mp h1) (by simp)
    · intro h1; injection h1 with h1; exact absurd h1.symm hu

theorem wm_unlock {s : St} {t : Tid} {p' : Pc} (h : LInv s) (hp : p'.holds = false) (hw : s.wm = some t) :
    ∀ u, (if u = t then p'.holds else (s.pc u).holds) = true ↔ (none : Option Tid) = some u := by
  intro u
  by_cases hu : u = t
  · subst hu; simp [hp]
  · have := h.wmh u
    rw [hw] at this
    simp only [hu, if_false]
    constructor
    · intro h1; have := this.mp h1; injection this with h2; exact absurd h2.symm hu
    · intro h1; simp at h1

/-- the window flag is not touched and the stepping thread is (and stays) outside every write window or keeps its window -/
theorem det_same {s s' : St} {t : Tid} (h : LInv s) (hd : LR.Deleg s.lr s'.lr t) (he : s'.det = s.det)
    (hwr : ∀ x, (s.lr.pc t).writing = some x → (s'.lr.pc t).writing = some x) :
    ∀ x, s'.det = some x → ∃ w, (s'.lr.pc w).writing = some x := by
  intro x hx
  rw [he] at hx
  obtain ⟨w, hw⟩ := h.win x hx
  by_cases hwt : w = t
  · subst hwt; exact ⟨w, hwr x hw⟩
  · exact ⟨w, by rw [hd.other w hwt]; exact hw⟩

/-! ## layer 2: the version heap -/

/-- `v` is (or has been) installed on a side of `m_data`: readers may hold snapshots of it -/
def St.pub (s : St) (v : Ver) : Prop := v = 0 ∨ v ∈ s.lr.valL ∨ v ∈ s.lr.valR

/-- the private, unpublished copy a thread owns -/
def Pc.own : Pc → Option Ver
  | .lkC v | .lkD v | .wHold v | .relA v | .cn v _ false => some v
  | _ => none

structure HInv (s : St) : Prop where
  pubAlloc : ∀ v, s.pub v → v ∈ s.alloc
  deadAlloc : ∀ v, v ∈ s.dead → v ∈ s.alloc
  snapsOk : ∀ t v, (t, v) ∈ s.snaps → s.pub v ∧ v ∉ s.dead
  sidesOk : ∀ x, s.det ≠ some x → s.sv x ∉ s.dead
  ownOk : ∀ t v, (s.pc t).own = some v → v ∈ s.alloc ∧ v ∉ s.dead ∧ ¬ s.pub v
  ownUniq : ∀ t u v, t ≠ u → (s.pc t).own = some v → (s.pc u).own ≠ some v
  drPub : ∀ t v n, s.pc t = .dr v n → s.pub v

theorem hinv_init (b : Bool) : HInv (init b) := by
  refine ⟨?_, ?_, ?_, ?_, ?_, ?_, ?_⟩ <;> simp [init, LR.init, St.pub, St.sv, LR.St.val, Pc.own]

theorem sv_pub (s : St) (x : Side) : s.pub (s.sv x) := by
  rcases cur_mem (s.lr.val x) with h | h
  · left; exact h
  · right; cases x
    · left; exact h
    · right; exact h

theorem pub_congr {s s' : St} (hL : s'.lr.valL = s.lr.valL) (hR : s'.lr.valR = s.lr.valR) (v : Ver) : s'.pub v ↔ s.pub v := by
  simp [St.pub, hL, hR]

theorem sv_congr {s s' : St} (hL : s'.lr.valL = s.lr.valL) (hR : s'.lr.valR = s.lr.valR) (x : Side) : s'.sv x = s.sv x := by
  cases x <;> simp [St.sv, LR.St.val, hL, hR]

/-- no certain reference: no attached side points to it, no snapshot handle names it -/
theorem refd_false {s : St} {v : Ver} (h : s.refd v = false) :
    (∀ x, s.det ≠ some x → s.sv x ≠ v) ∧ ∀ u, (u, v) ∉ s.snaps := by
  simp only [St.refd, St.sideRef, Bool.or_eq_false_iff, Bool.and_eq_false_iff, List.any_eq_false] at h
  obtain ⟨⟨hl, hr⟩, hsn⟩ := h
  constructor
  · intro x hx
    cases x
    · rcases hl with h1 | h1
      · simpa using h1
      · exact absurd (by simpa using h1) hx
    · rcases hr with h1 | h1
      · simpa using h1
      · exact absurd (by simpa using h1) hx
  · intro u hu
    have := hsn (u, v) hu
    simp at this

/-- frame lemma: a step that leaves the values of the sides and the ledgers `alloc` / `dead` alone, may close no window
(sides attached afterwards were attached before), may only add snapshots of published, live versions, and moves `t` to a
pc that owns what the old one owned, or nothing -/
theorem hinv_frame {s s' : St} {t : Tid} {p' : Pc} (h : HInv s) (hpc : s'.pc = upd s.pc t p')
    (hL : s'.lr.valL = s.lr.valL) (hR : s'.lr.valR = s.lr.valR) (hdet : ∀ x, s'.det ≠ some x → s.det ≠ some x)
    (ha : s'.alloc = s.alloc) (hdd : s'.dead = s.dead)
    (hsn : ∀ u w, (u, w) ∈ s'.snaps → (u, w) ∈ s.snaps ∨ (s.pub w ∧ w ∉ s.dead))
    (hown : p'.own = (s.pc t).own ∨ p'.own = none) (hdr : ∀ v n, p' = .dr v n → s.pub v) : HInv s' := by
  have hpub := pub_congr hL hR
  have hsv := sv_congr hL hR
  have ownle : ∀ u v, (s'.pc u).own = some v → (s.pc u).own = some v := by
    intro u v hu
    rw [hpc, upd_apply] at hu
    by_cases hut : u = t
    · subst hut
      simp only [if_true] at hu
      rcases hown with h1 | h1
      · rw [← h1]; exact hu
      · rw [h1] at hu; simp at hu
    · simpa [hut] using hu
  refine ⟨?_, ?_, ?_, ?_, ?_, ?_, ?_⟩
  · intro v hv; rw [ha]; exact h.pubAlloc v ((hpub v).mp hv)
  · intro v hv; rw [ha]; rw [hdd] at hv; exact h.deadAlloc v hv
  · intro u v hv
    rw [hpub, hdd]
    rcases hsn u v hv with h1 | h1
    · exact h.snapsOk u v h1
    · exact h1
  · intro x hx
    rw [hsv, hdd]; exact h.sidesOk x (hdet x hx)
  · intro u v hv
    rw [ha, hdd, hpub]; exact h.ownOk u v (ownle u v hv)
  · intro a b v hab ha' hb'
    exact h.ownUniq a b v hab (ownle a v ha') (ownle b v hb')
  · intro u v n hu
    rw [hpub]
    rw [hpc, upd_apply] at hu
    by_cases hut : u = t
    · subst hut; simp only [if_true] at hu; exact hdr v n hu
    · simp only [hut, if_false] at hu; exact h.drPub u v n hu

/-! ## layer 3: the chain of committed versions -/

/-- every version of the list was copied from its predecessor (the first one from `p`) -/
def Chain (par : Ver → Ver) : Ver → List Ver → Prop
  | _, [] => True
  | p, v :: l => par v = p ∧ Chain par v l

def lastFrom : Ver → List Ver → Ver
  | p, [] => p
  | _, v :: l => lastFrom v l

theorem lastFrom_cons_ne (p a : Ver) (l : List Ver) : lastFrom p (a :: l) = lastFrom a l := rfl

theorem cur_eq_lastFrom (l : List Ver) : cur l = lastFrom 0 l := by
  have : ∀ (l : List Ver) (a p : Ver), cur (a :: l) = lastFrom p (a :: l) := by
    intro l
    induction l with
    | nil => intro a p; rfl
    | cons b l ih => intro a p; simp only [cur_cons_cons, lastFrom_cons_ne]; exact ih b a
  cases l with
  | nil => rfl
  | cons a l => exact this l a 0

theorem chain_append (par : Ver → Ver) (p : Ver) (l : List Ver) (v : Ver) :
    Chain par p (l ++ [v]) ↔ Chain par p l ∧ par v = lastFrom p l := by
  induction l generalizing p with
  | nil => simp [Chain, lastFrom]
  | cons a l ih => simp only [List.cons_append, Chain, lastFrom, ih a, and_assoc]

theorem Chain.congr {par par' : Ver → Ver} {p : Ver} {l : List Ver} (h : Chain par p l) (he : ∀ v, v ∈ l → par' v = par v) :
    Chain par' p l := by
  induction l generalizing p with
  | nil => trivial
  | cons a l ih =>
    obtain ⟨h1, h2⟩ := h
    exact ⟨by rw [he a (by simp)]; exact h1, ih h2 (fun v hv => he v (List.mem_cons_of_mem _ hv))⟩

/-- the private copy the writer-mutex holder is going to commit on top of `committed` -/
def Pc.carry : Pc → Option Ver
  | .lkC v | .lkD v | .wHold v | .relA v | .relB v false => some v
  | _ => none

/-- committed by the writer-mutex holder, writer mutex not yet released -/
def Pc.pend : Pc → Option Ver
  | .relB v true | .relC v => some v
  | _ => none

structure ChInv (s : St) : Prop where
  chain : Chain s.parent 0 s.lr.committed
  comPub : ∀ v, v ∈ s.lr.committed → s.pub v
  top : ∀ t v, (s.pc t).carry = some v → s.parent v = cur s.lr.committed
  src : ∀ t v, s.pc t = .lkH (some v) → v = cur s.lr.committed
  rel : ∀ t, s.wm = some t → s.lr.committed = s.released ++ ((s.pc t).pend).toList
  rel0 : s.wm = none → s.lr.committed = s.released
  relU : ∀ t v, s.pc t = .relU v → v ∈ s.released

theorem chinv_init (b : Bool) : ChInv (init b) := by
  refine ⟨?_, ?_, ?_, ?_, ?_, ?_, ?_⟩ <;> simp [init, LR.init, Chain, Pc.carry]

/-- frame lemma: `committed`, the sides' values, `parent`, `released`, `wm` untouched; `t` moves to a pc that carries what
the old one carried (or nothing), with the same pending publication -/
theorem chinv_frame {s s' : St} {t : Tid} {p' : Pc} (h : ChInv s) (hpc : s'.pc = upd s.pc t p')
    (hpub : ∀ v, s.pub v → s'.pub v) (hc : s'.lr.committed = s.lr.committed)
    (hpar : s'.parent = s.parent) (hrel : s'.released = s.released) (hwm : s'.wm = s.wm)
    (hcarry : p'.carry = (s.pc t).carry ∨ p'.carry = none) (hpend : p'.pend = (s.pc t).pend)
    (hsrc : ∀ v, p' = .lkH (some v) → v = cur s.lr.committed) (hU : ∀ v, p' = .relU v → s.pc t = .relU v) : ChInv s' := by
  refine ⟨?_, ?_, ?_, ?_, ?_, ?_, ?_⟩
  · rw [hpar, hc]; exact h.chain
  · intro v hv; rw [hc] at hv; exact hpub v (h.comPub v hv)
  · intro u v hu
    rw [hpar, hc]
    rw [hpc, upd_apply] at hu
    by_cases hut : u = t
    · subst hut
      simp only [if_true] at hu
      rcases hcarry with h1 | h1
      · exact h.top u v (by rw [← h1]; exact hu)
      · rw [h1] at hu; simp at hu
    · simp only [hut, if_false] at hu; exact h.top u v hu
  · intro u v hu
    rw [hc]
    rw [hpc, upd_apply] at hu
    by_cases hut : u = t
    · subst hut; simp only [if_true] at hu; exact hsrc v hu
    · simp only [hut, if_false] at hu; exact h.src u v hu
  · intro u hu
    rw [hwm] at hu
    rw [hc, hrel, hpc, upd_apply]
    by_cases hut : u = t
    · subst hut; simp only [if_true, hpend]; exact h.rel u hu
    · simp only [hut, if_false]; exact h.rel u hu
  · intro h0
    rw [hwm] at h0
    rw [hc, hrel]; exact h.rel0 h0
  · intro u v hu
    rw [hrel]
    rw [hpc, upd_apply] at hu
    by_cases hut : u = t
    · subst hut; simp only [if_true] at hu; exact h.relU u v (hU v hu)
    · simp only [hut, if_false] at hu; exact h.relU u v hu

/-! ## consequences of the control skeleton -/

theorem cls_wA {p : Pc} {v : Ver} (h : p.cls = .wA v) : p = .relA v := by
  cases p <;> simp [Pc.cls] at h
  subst h; rfl

theorem cls_wB {p : Pc} {v : Ver} (h : p.cls = .wB v) : ∃ f, p = .relB v f := by
  cases p <;> simp [Pc.cls] at h
  subst h; exact ⟨_, rfl⟩

theorem cls_ne_other (p : Pc) : p.cls ≠ .other := by cases p <;> simp [Pc.cls]

/-- a thread at a `post` position of the LR model (holding `m_data`'s write mutex) is publishing: cow pc `relA` / `relB` -/
theorem post_rel {s : St} (h : LInv s) {w : Tid} (hp : (s.lr.pc w).post = true) :
    (∃ v, s.pc w = .relA v) ∨ ∃ v f, s.pc w = .relB v f := by
  rcases LR.lk_post hp with ⟨op, h1⟩ | ⟨op, h1⟩ | h1
  · left; exact ⟨op, cls_wA (by rw [← h.link w]; exact h1)⟩
  · right
    obtain ⟨f, hf⟩ := cls_wB (by rw [← h.link w]; exact h1)
    exact ⟨op, f, hf⟩
  · exact absurd (by rw [← h.link w]; exact h1) (cls_ne_other _)

theorem post_holds {s : St} (h : LInv s) {w : Tid} (hp : (s.lr.pc w).post = true) : s.wm = some w := by
  apply (h.wmh w).mp
  rcases post_rel h hp with ⟨v, h1⟩ | ⟨v, f, h1⟩ <;> rw [h1] <;> rfl

/-- while the writer-mutex holder is not publishing, nobody holds `m_data`'s write mutex: both sides hold `committed` -/
theorem quiet_of_holder {s : St} (h : LInv s) {t : Tid} (hw : s.wm = some t) (hp : (s.lr.pc t).post = false) :
    s.lr.mtx = none := by
  cases hm : s.lr.mtx with
  | none => rfl
  | some w =>
    have hpw : (s.lr.pc w).post = true := (h.full.inv.holder w).mpr hm
    have := post_holds h hpw
    rw [hw] at this
    injection this with this
    subst this
    rw [hp] at hpw; cases hpw

theorem val_committed {s : St} (h : LInv s) (hm : s.lr.mtx = none) (x : Side) : s.lr.val x = s.lr.committed :=
  h.full.vinv.vquiet hm x

/-- the side a read handle points to is not inside an assignment window -/
theorem held_not_det {s : St} (h : LInv s) {t : Tid} {c x : Side} (hp : s.lr.pc t = .rdHold c x) : s.det ≠ some x := by
  intro hd
  obtain ⟨w, hw⟩ := h.win x hd
  exact LR.C03_no_touch h.reach hw (r := t) (by rw [hp]; rfl)

/-- the window belongs to the thread that is inside a write window -/
theorem det_of_writing {s : St} (h : LInv s) {t : Tid} {x y : Side} (hd : s.det = some x)
    (ht : (s.lr.pc t).post = true) (hy : (s.lr.pc t).writing = some y ∨ (s.lr.pc t).writing = none) :
    (s.lr.pc t).writing = some x := by
  obtain ⟨w, hw⟩ := h.win x hd
  have h1 := (h.full.inv.holder w).mp (writing_post hw)
  have h2 := (h.full.inv.holder t).mp ht
  rw [h1] at h2
  injection h2 with h2
  subst h2; exact hw

/-- the writer-mutex-side LR holder that is outside every write window: no window is open -/
theorem det_none {s : St} (h : LInv s) {t : Tid} (ht : (s.lr.pc t).post = true) (hw : (s.lr.pc t).writing = none) :
    s.det = none := by
  cases hd : s.det with
  | none => rfl
  | some y =>
    obtain ⟨w, hwy⟩ := h.win y hd
    have h1 := (h.full.inv.holder w).mp (writing_post hwy)
    have h2 := (h.full.inv.holder t).mp ht
    rw [h1] at h2
    injection h2 with h2
    subst h2
    rw [hw] at hwy; cases hwy

theorem carry_holds {p : Pc} {v : Ver} (h : p.carry = some v) : p.holds = true := by
  cases p <;> simp [Pc.carry] at h <;> first | rfl | (rename_i f; cases f <;> simp [Pc.carry] at h <;> rfl)

/-- only the owner of the writer mutex is at a pc that owns it -/
theorem only_holder {s : St} (h : LInv s) {t u : Tid} (hw : s.wm = some t) (hu : u ≠ t) : (s.pc u).holds = false := by
  cases hh : (s.pc u).holds with
  | false => rfl
  | true =>
    have := (h.wmh u).mp hh
    rw [hw] at this
    injection this with this
    exact absurd this.symm hu

/-- while thread `t` is past the first application of its release of `v`: some attached side points to `v` -/
theorem relB_side {s : St} (h : LInv s) {t : Tid} {v : Ver} {f : Bool} (hp : s.pc t = .relB v f) :
    ∃ y, s.sv y = v ∧ s.det ≠ some y := by
  have hk : lk (s.lr.pc t) = .wB v := by rw [h.link t, hp]; rfl
  obtain ⟨y, hy, hny⟩ := LR.wB_val h.full hk
  refine ⟨y, by simp [St.sv, hy], ?_⟩
  intro hd
  obtain ⟨w, hw⟩ := h.win y hd
  have h1 := (h.full.inv.holder w).mp (writing_post hw)
  have hpost : (s.lr.pc t).post = true := by
    cases hq : s.lr.pc t <;> simp [lk, hq] at hk <;> rfl
  have h2 := (h.full.inv.holder t).mp hpost
  rw [h1] at h2
  injection h2 with h2
  subst h2
  exact hny hw

end ConcVerif.Cow
