import ConcVerif.Proof.RcuTrav
/-! Invariant H: the nodes a traversal has visited (`seen`, newest first) are strictly increasing in `order`. -/
namespace ConcVerif.Rcu

structure InvH (s : St) (g : Gh) : Prop where
  /-- every newer entry lies strictly behind every older one in `order` -/
  sorted : ∀ t, (g.seen t).Pairwise (fun a b => a ∈ Below s.order b)
  /-- the iterator's node is the newest entry -/
  hd : ∀ t c, s.it t = some (some c) → (g.seen t).head? = some c
  seenOrd : ∀ t, ∀ c ∈ g.seen t, c ∈ s.order

theorem invH_init : InvH init gh0 := by
  constructor <;> simp [init, gh0]

theorem invH_frame {s s' : St} {g : Gh} (h : InvH s g) (hit : s'.it = s.it)
    (hb : ∀ a b, a ∈ Below s.order b → a ∈ Below s'.order b) (ho : ∀ y ∈ s.order, y ∈ s'.order) : InvH s' g := by
  obtain ⟨h1, h2, h3⟩ := h
  refine ⟨?_, ?_, ?_⟩
  · intro t; exact (h1 t).imp (fun {a b} hab => hb a b hab)
  · intro t c hc; rw [hit] at hc; exact h2 t c hc
  · intro t c hc; exact ho c (h3 t c hc)

theorem invH_drop {s s' : St} {g : Gh} {t : Tid} (h : InvH s g) (hit : s'.it = upd s.it t none)
    (ho : s'.order = s.order) : InvH s' g := by
  obtain ⟨h1, h2, h3⟩ := h
  refine ⟨?_, ?_, ?_⟩
  · intro u; rw [ho]; exact h1 u
  · intro u c hc
    by_cases hut : u = t
    · subst hut; rw [hit, upd_same] at hc; cases hc
    · rw [hit, upd_other _ _ _ _ hut] at hc; exact h2 u c hc
  · intro u c hc; rw [ho]; exact h3 u c hc

theorem invH_advance {s s' : St} {g : Gh} {t : Tid} (h : InvH s g) (hond : s.order.Nodup) (c : Nat) (v : Option Nat)
    (hc : s.it t = some (some c)) (hv : ∀ x, v = some x → x ∈ Below s.order c) (ho : s'.order = s.order)
    (hit : s'.it = upd s.it t (some v)) : InvH s' { g with seen := upd g.seen t (v.toList ++ g.seen t) } := by
  obtain ⟨h1, h2, h3⟩ := h
  have hhd := h2 t c hc
  refine ⟨?_, ?_, ?_⟩
  · intro u
    simp only
    rw [ho]
    by_cases hut : u = t
    · subst hut; rw [upd_same]
      cases v with
      | none => simpa using h1 u
      | some x =>
        have hx := hv x rfl
        simp only [Option.toList, List.cons_append, List.nil_append]
        refine List.Pairwise.cons ?_ (h1 u)
        intro b hb
        cases hs : g.seen u with
        | nil => rw [hs] at hb; cases hb
        | cons z zs =>
          rw [hs] at hhd hb
          simp at hhd; subst hhd
          rcases List.mem_cons.1 hb with e | e
          · subst e; exact hx
          · have hp := h1 u
            rw [hs] at hp
            have : z ∈ Below s.order b := (List.pairwise_cons.1 hp).1 b e
            exact below_trans hond this hx
    · rw [upd_other _ _ _ _ hut]; exact h1 u
  · intro u c' hc'
    simp only
    by_cases hut : u = t
    · subst hut; rw [upd_same]
      rw [hit, upd_same] at hc'; injection hc' with hc'; subst hc'
      simp
    · rw [upd_other _ _ _ _ hut]; rw [hit, upd_other _ _ _ _ hut] at hc'; exact h2 u c' hc'
  · intro u c' hc'
    simp only at hc'
    rw [ho]
    by_cases hut : u = t
    · subst hut; rw [upd_same] at hc'
      rcases List.mem_append.1 hc' with e | e
      · cases v with
        | none => simp at e
        | some x => simp at e; subst e; exact mem_of_mem_below (hv _ rfl)
      · exact h3 u c' e
    · rw [upd_other _ _ _ _ hut] at hc'; exact h3 u c' hc'

theorem below_mono_cons (n : Nat) (o : List Nat) (a b : Nat) (h : a ∈ Below o b) : a ∈ Below (n :: o) b := by
  by_cases e : n = b
  · subst e; rw [below_cons_self]; exact mem_of_mem_below h
  · rw [below_cons_ne _ e]; exact h

theorem below_mono_append (n : Nat) (o : List Nat) (a b : Nat) (h : a ∈ Below o b) : a ∈ Below (o ++ [n]) b := by
  rw [below_append_singleton (mem_of_mem_below' h)]; exact List.mem_append_left _ h

local macro "frameH" h:ident : tactic =>
  `(tactic| (exact invH_frame $h rfl (fun _ _ hab => hab) (fun _ hy => hy)))

theorem invH_step {s s' : St} {g : Gh} {t : Tid} {e : Ev} (hx : InvX s) (hf : InvF s) (hg : InvG s g) (h : InvH s g)
    (hs : Step s t e s') : InvH s' (ghUpd s g t e) := by
  have hond : s.order.Nodup := hx.i.c.ordNd
  have hitv : ∀ u c, s.it u = some (some c) → c ∈ s.order := hx.i.c.itv
  have hfwd : ∀ c ∈ s.order, ∀ x, (s.nodes c).next = some x → x ∈ Below s.order c := hf.fwd
  cases hs
  all_goals (try (
    (conv => arg 2; simp only [ghUpd, *])
    frameH h; done))
  case dtorHead o hpc ho =>
    conv => arg 2; simp only [ghUpd, hpc]
    cases hh : s.head <;> simp only [St.dNodeAt] <;> frameH h
  case dZhead o hpc ho =>
    conv => arg 2; simp only [ghUpd, hpc]
    cases hh : s.zhead <;> simp only [St.dRecAt] <;> frameH h
  case dFreZ m nx hpc =>
    conv => arg 2; simp only [ghUpd, hpc]
    cases nx <;> simp only [St.dRecAt] <;> frameH h
  case rFreZ r m nx hpc =>
    conv => arg 2; simp only [ghUpd, hpc]
    cases nx <;> simp only [St.reapAt] <;> frameH h
  case uNextNone r cached m o hpc ho hv =>
    conv => arg 2; simp only [ghUpd, hpc]
    cases cached <;> simp only [St.reapAt] <;> frameH h
  case dFreN m nx hpc =>
    conv => arg 2; simp only [ghUpd, hpc]
    cases nx <;> simp only [St.dNodeAt] <;> frameH h
  case relFresh w hpc hh =>
    conv => arg 2; simp only [ghUpd, hpc]
    exact invH_drop (t := t) h rfl rfl
  case uClear r o hpc ho =>
    conv => arg 2; simp only [ghUpd, hpc]
    exact invH_drop (t := t) h rfl rfl
  case pE1 k n o hpc ho =>
    conv => arg 2; simp only [ghUpd, hpc]
    exact invH_frame h rfl (below_mono_cons n s.order) (fun y hy => List.mem_cons_of_mem _ hy)
  case pF3 k n o hpc ho =>
    conv => arg 2; simp only [ghUpd, hpc]
    exact invH_frame h rfl (below_mono_cons n s.order) (fun y hy => List.mem_cons_of_mem _ hy)
  case pB2 k n h0 o hpc ho =>
    conv => arg 2; simp only [ghUpd, hpc]
    exact invH_frame h rfl (below_mono_append n s.order) (fun y hy => List.mem_append_left _ hy)
  case nxt w r n o hpc hh hi' ho =>
    conv => arg 2; simp only [ghUpd, hpc]
    exact invH_advance (t := t) h hond n _ hi' (fun x hx' => hfwd n (hitv t n hi') x hx') rfl rfl
  case eUnlock orig hpc hm =>
    conv => arg 2; simp only [ghUpd, hpc]
    obtain ⟨c, c1, c2⟩ := hg.eret t orig (by simp [hpc, retOf])
    by_cases hsame : s.it t = some orig
    · rw [if_pos hsame]
      have hit : ({ s with wmtx := none, it := upd s.it t (some orig) }.setPc t (.retp (.erase true))).it = s.it := by
        funext u
        simp only [setPc_it]
        by_cases hut : u = t
        · subst hut; rw [upd_same, hsame]
        · rw [upd_other _ _ _ _ hut]
      exact invH_frame h hit (fun _ _ hab => hab) (fun _ hy => hy)
    · rw [if_neg hsame]
      refine invH_advance (t := t) h hond c _ c1 ?_ rfl rfl
      intro x hx'
      rcases c2 with e | e
      · exfalso; apply hsame; rw [c1, e]
      · exact hfwd c (hitv t c c1) x (by rw [← e]; exact hx')
  case beg w r o hpc hh ho =>
    conv => arg 2; simp only [ghUpd, hpc]
    have hdt := dt_false_of_hnd hx.i.a (t := t) (by rw [hh]; simp)
    have hhd : s.head = s.lst.head? := hx.i.c.hd hdt
    obtain ⟨h1, h2, h3⟩ := h
    refine ⟨?_, ?_, ?_⟩
    · intro u
      simp only [setPc_order]
      by_cases hut : u = t
      · subst hut; rw [upd_same]; cases s.head <;> simp
      · rw [upd_other _ _ _ _ hut]; exact h1 u
    · intro u c hc
      simp only [setPc_it] at hc ⊢
      by_cases hut : u = t
      · subst hut; rw [upd_same] at hc ⊢; injection hc with hc; rw [hc]; simp
      · rw [upd_other _ _ _ _ hut] at hc ⊢; exact h2 u c hc
    · intro u c hc
      simp only [setPc_order] at hc ⊢
      by_cases hut : u = t
      · subst hut; rw [upd_same] at hc
        cases hh0 : s.head with
        | none => rw [hh0] at hc; simp at hc
        | some h0 =>
          rw [hh0] at hc hhd; simp at hc; subst hc
          exact hx.i.c.sub c (mem_of_head? hhd.symm)
      · rw [upd_other _ _ _ _ hut] at hc; exact h3 u c hc

/-- everything that holds in a reachable state of the model extended with the traversal history -/
structure InvT (sg : St × Gh) : Prop where
  x : InvX sg.1
  f : InvF sg.1
  g : InvG sg.1 sg.2
  h : InvH sg.1 sg.2

theorem invT_reachable {sg : St × Gh} (h : ReachableH sg) : InvT sg := by
  obtain ⟨es, hes⟩ := h
  exact runFrom_inv (step := stepH) (Inv := InvT)
    (fun sg t e sg' hi hs => by
      simp only [stepH] at hs
      cases h1 : step sg.1 t e with
      | none => rw [h1] at hs; cases hs
      | some s1 =>
        rw [h1] at hs; simp at hs; subst hs
        have hS := step_sound h1
        exact ⟨invX_step hi.x h1, invF_step hi.x.i hi.f hS, invG_step hi.x hi.f hi.g hS, invH_step hi.x hi.f hi.g hi.h hS⟩)
    ⟨invX_init, invF_init, invG_init, invH_init⟩ hes

theorem invF_reachable {s : St} (h : Reachable s) : InvF s := by
  obtain ⟨g, hg⟩ := reachableH_of h
  exact (invT_reachable hg).f

/-- the chain of `next` pointers only leads forward in `order` -/
theorem reach_below {s : St} (hf : InvF s) (hond : s.order.Nodup) {c y : Nat} (hc : c ∈ s.order)
    (h : Reach (fun n => (s.nodes n).next) c y) : y = c ∨ y ∈ Below s.order c := by
  revert hc
  induction h with
  | refl c => intro _; exact Or.inl rfl
  | @step a b y' hn _ ih =>
    intro hc
    have hb : b ∈ Below s.order a := hf.fwd a hc b hn
    rcases ih (mem_of_mem_below hb) with e | e
    · right; rw [e]; exact hb
    · right; exact below_trans hond hb e

end ConcVerif.Rcu
