import ConcVerif.Proof.HBDDTr
import ConcVerif.Proof.HBDDPay
/-! Per-step facts connecting the DelayedDestructor model to the happens-before layer:
* `step_cs`: the critical-section part of every accepted event is an acquisition (taken when the model's lock is free),
  a release (by the holder), or a `nop` (lock untouched) — accesses sit between an acquisition and the release;
* `xHB_free`, `xHB_ne_nil`: the destructor part consists of accesses / joins and is empty unless the event starts
  `~DelayedDestructor` or the thread is inside it;
* `toHB_other`: once the destructor runs, other threads contribute `nop`s only;
* `ti_step`, `ls_step`: one accepted event preserves the mutex bookkeeping and the lockset discipline. -/
namespace ConcVerif.DD

inductive CsShape (t : Tid) (l l' : Option Tid) : List HB.Ev → Prop
  | acq (acc : List HB.Ev) : l = none → l' = some t → (∀ x ∈ acc, IsAcc x) → CsShape t l l' (.acq 0 .X :: acc)
  | rel (pre : List HB.Ev) : l = some t → l' = none → (∀ x ∈ pre, IsAcc x) → CsShape t l l' (pre ++ [.rel 0 .X])
  | nop : l' = l → CsShape t l l' [.nop]

theorem stepUser_cs {s s' : St} {t : Tid} {fs e} (h : stepUser s t fs e = some s') (hu : userLevel fs = true) :
    CsShape t s.lock s'.lock (csOf fs e) := by
  have hl := stepUser_lock h
  cases fs with
  | nil => exact .nop hl
  | cons f fs => cases f <;> simp [userLevel] at hu <;> exact .nop hl

theorem step_cs {s s' : St} {t : Tid} {e} (h : step s t e = some s') : CsShape t s.lock s'.lock (csOf (s.stk t) e) := by
  unfold step at h
  split at h
  all_goals (try rw [show s.stk t = _ from by assumption])
  all_goals (first | exact stepUser_cs h rfl | skip)
  all_goals (try (repeat' (split at h)))
  all_goals (first | cases h | skip)
  all_goals (try simp only [Bool.not_eq_true] at *)
  all_goals (try subst_vars)
  all_goals (simp only [csOf, csHB, ↓reduceIte])
  all_goals (first
    | exact .nop (by simp)
    | exact .acq _ (by first | assumption | exact And.left (by assumption)) (by simp) (by simp [IsAcc])
    | exact .rel [] (by assumption) (by simp [unlock]) (by simp)
    | exact .rel [.rd 0] (by assumption) (by simp [unlock]) (by simp [IsAcc])
    | skip)


theorem topAcc_free (s : St) : ∀ x ∈ topAcc s, IsFree x := by
  intro x hx; unfold topAcc at hx
  split at hx <;> simp at hx
  · rcases hx with h | h <;> subst h; exact .inl rfl; exact .inr (.inl rfl)
  · subst hx; exact .inl rfl

theorem doneAcc_free (s : St) (rest : List Frame) : ∀ x ∈ doneAcc s rest, IsFree x := by
  intro x hx; unfold doneAcc at hx
  split at hx
  · exact topAcc_free s x hx
  · simp at hx; subst hx; exact .inr (.inl rfl)
  · cases hx

theorem resumeAcc_free (s : St) (t : Tid) (below : List Frame) : ∀ x ∈ resumeAcc s t below, IsFree x := by
  intro x hx; unfold resumeAcc at hx
  split at hx
  · split at hx
    · exact doneAcc_free _ _ x hx
    · cases hx
  · simp at hx; subst hx; exact .inr (.inl rfl)
  · cases hx

theorem xHB_free (js : List Tid) (s : St) (t : Tid) (fs : List Frame) (e : Ev) : ∀ x ∈ xHB js s t fs e, IsFree x := by
  intro x hx; unfold xHB at hx
  split at hx
  all_goals (try split at hx)
  all_goals (try split at hx)
  all_goals (first
    | (cases hx; done)
    | exact topAcc_free _ x hx
    | exact doneAcc_free _ _ x hx
    | exact resumeAcc_free _ _ _ x hx
    | skip)
  rcases List.mem_append.1 hx with h | h
  · simp only [List.mem_map] at h
    obtain ⟨u, _, rfl⟩ := h
    exact .inr (.inr ⟨u, rfl⟩)
  · exact topAcc_free _ x h

theorem ex_cons {f0 : Frame} {fs : List Frame} (h : ∃ f ∈ fs, isX f = true) : ∃ f ∈ f0 :: fs, isX f = true := by
  obtain ⟨f, hf, hx⟩ := h
  exact ⟨f, List.mem_cons_of_mem _ hf, hx⟩

theorem doneAcc_ne_nil {s : St} {rest : List Frame} (h : doneAcc s rest ≠ []) : ∃ f ∈ rest, isX f = true := by
  unfold doneAcc at h
  split at h
  · exact ⟨_, List.mem_cons_self, rfl⟩
  · exact ⟨_, List.mem_cons_self, rfl⟩
  · exact absurd rfl h

theorem resumeAcc_ne_nil {s : St} {t : Tid} {below : List Frame} (h : resumeAcc s t below ≠ []) :
    ∃ f ∈ below, isX f = true := by
  unfold resumeAcc at h
  split at h
  · split at h
    · exact ex_cons (doneAcc_ne_nil h)
    · exact absurd rfl h
  · exact ⟨_, List.mem_cons_self, rfl⟩
  · exact absurd rfl h

/-- the destructor part is empty unless the event starts the container's destructor or the thread is inside it -/
theorem xHB_ne_nil {js : List Tid} {s : St} {t : Tid} {fs : List Frame} {e : Ev} (h : xHB js s t fs e ≠ []) :
    (fs = [] ∧ e = .callDtor) ∨ ∃ f ∈ fs, isX f = true := by
  unfold xHB at h
  split at h
  all_goals (try split at h)
  all_goals (try split at h)
  all_goals (first
    | exact absurd rfl h
    | exact .inl ⟨rfl, rfl⟩
    | exact .inr ⟨_, List.mem_cons_self, rfl⟩
    | exact .inr (ex_cons (doneAcc_ne_nil h))
    | exact .inr (ex_cons (resumeAcc_ne_nil h))
    | skip)


/-- a thread other than the destructor's contributes nothing but `nop`s once the destructor has started -/
theorem toHB_other {js : List Tid} {s s' : St} {t d : Tid} {e : Ev} (h : step s t e = some s')
    (hd : s.dead = some d) (hI : AllPay (s.stk t)) : toHB js s t e = [.nop] := by
  unfold toHB
  cases hfs : s.stk t with
  | nil =>
    have : xHB js s t [] e = [] := by
      cases e <;> try rfl
      simp [step, hfs, stepUser, hd] at h
    simp [csOf, this]
  | cons f rest =>
    rw [hfs] at hI; simp only [allPay_cons] at hI
    cases f <;> simp [isPay] at hI
    · rfl
    · rename_i k
      have : xHB js s t (.inDt k :: rest) e = [] := by
        cases e <;> try rfl
        show resumeAcc s t rest = []
        cases rest with
        | nil => rfl
        | cons g r => simp only [allPay_cons] at hI; cases g <;> simp [isPay] at hI <;> rfl
      simp [csOf, csHB, this]

theorem ti_step {tr : HB.Trace} {t : Tid} {l l' : Option Tid} {cs x : List HB.Ev} (h : TI tr l)
    (hc : CsShape t l l' cs) (hx : ∀ y ∈ x, Inert y) : TI (tr ++ evs t (cs ++ x)) l' := by
  cases hc with
  | acq acc h1 h2 h3 =>
    subst h1; subst h2
    rw [List.cons_append, append_evs_cons]
    apply ti_inert t (ti_acq h)
    intro y hy
    rcases List.mem_append.1 hy with hy | hy
    · exact (h3 y hy).inert
    · exact hx y hy
  | rel pre h1 h2 h3 =>
    subst h1; subst h2
    rw [List.append_assoc, evs_append, ← List.append_assoc, List.singleton_append, append_evs_cons]
    exact ti_inert t (ti_rel (ti_inert t h (fun y hy => (h3 y hy).inert))) hx
  | nop h1 =>
    subst h1
    apply ti_inert t h
    intro y hy
    rcases List.mem_cons.1 hy with hy | hy
    · subst hy; exact inert_nop
    · exact hx y hy

theorem ls_step {tr : HB.Trace} {t : Tid} {l l' : Option Tid} {cs : List HB.Ev} (hl : HB.LockSet tr 0 0)
    (h : TI tr l) (hc : CsShape t l l' cs) : HB.LockSet (tr ++ evs t cs) 0 0 := by
  cases hc with
  | acq acc h1 h2 h3 =>
    subst h1
    rw [append_evs_cons]
    apply lockSet_locked _ _ (fun y hy => (h3 y hy).inert)
    · exact HB.lockSet_snoc hl (fun he => by cases he) (fun he => by cases he)
    · rw [(ti_acq h).1]; simp [ofMtx]
  | rel pre h1 h2 h3 =>
    subst h1
    rw [evs_append]
    rw [← List.append_assoc]
    apply HB.lockSet_snoc _ (fun he => by cases he) (fun he => by cases he)
    apply lockSet_locked hl _ (fun y hy => (h3 y hy).inert)
    rw [h.1]; simp [ofMtx]
  | nop h1 =>
    exact HB.lockSet_snoc hl (fun he => by cases he) (fun he => by cases he)

end ConcVerif.DD
