import ConcVerif.Proof.HBRcuCoverStep
/-! rcu_list and happens-before, part 19: `TN` is kept by every step; the destruction / deallocation of a node
happens-after every access to it. -/
namespace ConcVerif.Rcu
open HB (HBeq Kn)

variable {w : Ords} {sel : Bool} {es : List (Tid × Ev)} {s s' : St} {t : Tid} {e : Ev} {i d : Nat}

theorem cover_reaped (hi : Inv s) (hi' : Inv s') (hnd : inDtor (s.pc t) = false) (hS : Step s t e s')
    (hd : s.nled d ≠ .freed) {t0 : Tid} {a : Nat} (h1 : reaper (BView (s.pc t0)) = some a)
    (h2 : Kn (hbTrace w sel es) t0 i) (h3 : Safe s.eview a d ∨ InScope s t0 a d) :
    Cover w sel (es ++ [(t, e)]) s' i d := by
  have hnodup := hi.b.logNd
  simp only [bview_log] at hnodup
  have h2' : Kn (hbTrace w sel (es ++ [(t, e)])) t0 i := by rw [hbTrace_append]; exact h2.mono _
  have ha := (reaper_facts hi h1).1
  obtain ⟨b, hb⟩ := hi.a.myr t0 a (reaper_myRec h1)
  rcases reaper_step hS hnd h1 with hr | ⟨g1, g2, g3, g4, _⟩
  · have ha' := (reaper_facts hi' hr).1
    -- whoever takes a record off the log in this step is the reclaimer `t0` itself
    have taker : ∀ z, z ∈ s.log → s'.log = s.log.erase z →
        t = t0 ∧ (Below s.log a).head? = some z ∧ privRec (BView (s'.pc t0)) = some z := by
      intro z hz hl
      obtain ⟨a1, k1, k2, _, k4, _⟩ := taken_facts hi hS hnd hz hl
      have hr1 : reaper (BView (s'.pc t)) = some a1 := by rw [k4]; rfl
      have := reaper_unique hi' hr1 hr
      subst this
      rw [reaper_myRec h1] at k1; injection k1 with k1; subst k1
      exact ⟨rfl, k2, by rw [k4]; rfl⟩
    refine .reaped t0 a hr h2' ?_
    rcases h3 with h3 | ⟨z0, k1, k2⟩
    · rcases safe_step hi hS hnd ha ha' h3 with g | ⟨a1, z, _, g2, g3, _, g5⟩
      · exact .inl g
      · exfalso
        obtain ⟨_, k2, _⟩ := taker z (mem_of_mem_below (head_mem_below g2)) g3
        exact below_antisymm hnodup (head_mem_below k2) g5
    · right
      have hzn : (s'.recs z0).znode = (s.recs z0).znode := by
        by_cases htt : t = t0
        · subst htt; exact zn_reaper hS h1 z0
        · apply zn_frame hS hnd
          intro hc
          rcases k2 with k2 | k2
          · have := (hi.b.privOk t z0 (by simpa using hc)).1
            simp only [bview_log] at this
            exact this (mem_of_mem_below k2)
          · have := hi.b.privUq t t0 z0
            simp only [bview_vpc] at this
            exact htt (this hc k2)
      refine ⟨z0, by rw [hzn]; exact k1, ?_⟩
      rcases k2 with k2 | k2
      · by_cases hz' : z0 ∈ s'.log
        · exact .inl (below_keep hi hS hnd ha ha' k2 hz')
        · have hl := lost_log hi hS hnd (mem_of_mem_below k2) hz'
          exact .inr (taker z0 (mem_of_mem_below k2) hl).2.2
      · by_cases htt : t = t0
        · subst htt
          rcases priv_reaper_step hS h1 k2 with g | ⟨nx, g⟩
          · exact .inr g
          · exfalso
            have held := hi.d.held t
            simp only [dview_vpc, g, DView, HeldP, dview_zn, dview_nled] at held
            exact hd (held d k1)
        · right; rw [pc_frame hS hnd (Ne.symm htt)]; exact k2
  · -- the reclaimer has nothing left below its record: it is an ordinary open section again
    subst g1
    have hre := hi.b.reap t0
    simp only [bview_vpc, g2, BView, ReapP, bview_log] at hre
    have hsafe : Safe s.eview a d := by
      rcases h3 with h3 | ⟨z0, _, k2⟩
      · exact h3
      · exfalso
        rcases k2 with k2 | k2
        · rw [hre.2] at k2; simp at k2
        · simp [g2, BView, privRec] at k2
    have hb' : s'.hnd t0 = .reg b a := by rw [g4]; exact hb
    exact .open_ t0 b a hb' (safe_step_active hi hi' hS hnd hb hb' hsafe) h2'

theorem TN_step (hx : InvX s) (hi' : Inv s') (hzo : ZO s) (hnd : inDtor (s.pc t) = false) (hSK : SK w sel es s)
    (hSK' : SK w sel (es ++ [(t, e)]) s') (h : TN w sel es s) (hS : Step s t e s') : TN w sel (es ++ [(t, e)]) s' := by
  have hi := hx.i
  intro j u e' d hj hacc hd'
  rcases HB.lq_snoc hj with ⟨_, hj'⟩ | ⟨hl, hp⟩
  · have hd : s.nled d ≠ .freed := fun hc => hd' (freed_keep hi hS hnd hc)
    cases h j u e' d hj' hacc hd with
    | fresh h1 h2 => exact cover_fresh hi hnd hS h1 h2
    | open_ v b x h1 h2 h3 => exact cover_open hi hi' hnd hS h1 h2 h3
    | closed x q y o v h1 h2 h3 h4 => exact cover_closed hi hi' hzo hnd hS hSK hSK' h1 h2 h3 h4
    | reaped t0 a h1 h2 h3 => exact cover_reaped hi hi' hnd hS hd h1 h2 h3
  · injection hp with g1 g2; subst g1; subst g2; subst hl
    obtain ⟨k1, k2, k3, k4⟩ := touch_keep hi hS hnd hacc
    rcases touch_safe hx hS hnd hacc with ⟨g1, g2⟩ | ⟨b, x, g1, g2⟩
    · refine .fresh (k4 g1) ?_
      rw [k3, g2]; exact Pub.self es u e'
    · have hb' : s'.hnd u = .reg b x := by rw [k1]; exact g1
      exact .open_ u b x hb' (safe_step_active hi hi' hS hnd g1 hb' g2) (.self (hbTrace_get (HB.lq_last _ _)))

/-- destruction / deallocation of a node by the thread `t` -/
def Ev.nodeEnd : Ev → Option Nat
  | .des false n => some n
  | .fre false n => some n
  | _ => none

/-- the destruction / deallocation just performed happens-after every earlier access to the node -/
theorem node_end_last (hx : InvX s) (hdt : s.dt = false) (h : TN w sel es s) (hS : Step s t e s') (hend : e.nodeEnd = some d)
    {u : Tid} {ei : Ev} (hq : es[i]? = some (u, ei)) (hacc : ei.nodeAcc = some d) :
    HB.HB (hbTrace w sel (es ++ [(t, e)])) i es.length := by
  have hi := hx.i
  have hnd := not_inDtor hi hdt t
  have hil := HB.lq_lt hq
  have fin : Kn (hbTrace w sel es) t i → HB.HB (hbTrace w sel (es ++ [(t, e)])) i es.length := by
    intro hk
    rw [hbTrace_snoc]
    have := hk.hb_new (e := toHB w sel e) (by simpa using hil)
    simpa using this
  have held := hi.d.held t
  simp only [dview_vpc] at held
  -- the reclaimer's case: `d` is named by the zombie record `m` it holds privately
  have reap : ∀ a m, reaper (BView (s.pc t)) = some a → privRec (BView (s.pc t)) = some m → privLed (BView (s.pc t)) = .cons →
      (s.recs m).znode = some d → s.nled d ≠ .freed → HB.HB (hbTrace w sel (es ++ [(t, e)])) i es.length := by
    intro a m hr hp hl hz hd
    have hc : s.rled m = .cons := priv_live hi hp hl
    cases h i u ei d hq hacc hd with
    | fresh h1 _ =>
      exfalso
      have := hi.d.znOrd m d
      simp only [dview_zn, dview_order] at this
      exact h1 (this hz)
    | open_ v b x _ h2 _ => exact (not_safe_private hi hr hp hc hz x h2).elim
    | closed x q y o v _ _ _ h4 => exact (not_safe_private hi hr hp hc hz x h4).elim
    | reaped t0 a0 h1 h2 _ =>
      have := reaper_unique hi h1 hr
      subst this; exact fin h2
  cases hS <;> simp only [Ev.nodeEnd] at hend <;> first | (cases hend; done) | no_dtor | skip
  all_goals (injection hend with hend; subst hend)
  case rDesN r m d' hpc =>
    rw [hpc] at held; simp only [DView, HeldP, dview_zn, dview_nled] at held
    exact reap r m (by simp [hpc, BView, reaper]) (by simp [hpc, BView, privRec]) (by simp [hpc, BView, privLed]) held.1
      (by rw [held.2]; simp)
  case rFreN r m d' hpc =>
    rw [hpc] at held; simp only [DView, HeldP, dview_zn, dview_nled] at held
    exact reap r m (by simp [hpc, BView, reaper]) (by simp [hpc, BView, privRec]) (by simp [hpc, BView, privLed]) held.1
      (by rw [held.2]; simp)
  case pThrow f em y n hpc =>
    rw [hpc] at held; simp only [DView, HeldP, dview_nled] at held
    have wr := hi.c.wr t
    simp only [cview_vpc, hpc, CView, WriterP, cview_order] at wr
    have hm := (hi.a.wm t).1 (by simp [hpc, holdsW])
    cases h i u ei n hq hacc (by rw [held]; simp) with
    | fresh _ h2 => rw [hm] at h2; exact fin h2
    | open_ v b x _ h2 _ => exact (not_safe_fresh hx wr.1 x h2).elim
    | closed x q y o v _ _ _ h4 => exact (not_safe_fresh hx wr.1 x h4).elim
    | reaped t0 a0 h1 _ h3 =>
      exfalso
      rcases h3 with h3 | ⟨z, h3, _⟩
      · exact not_safe_fresh hx wr.1 a0 h3
      · have := hi.d.znOrd z n
        simp only [dview_zn, dview_order] at this
        exact wr.1 (this h3)

end ConcVerif.Rcu
