import ConcVerif.Proof.HBRcuRecStep
/-! rcu_list and happens-before, part 9: the publication invariants hold along every accepted trace that has
not entered the list destructor (`hinv_run`); every access to a node / a log record happens-after its
initialisation (`node_pub`, `rec_pub`). -/
namespace ConcVerif.Rcu
open HB (HBeq Kn)

structure HInv (w : Ords) (sel : Bool) (es : List (Tid × Ev)) (s : St) : Prop where
  scd : SCD es
  np : NP w sel es s.wmtx
  fv : FV w sel es s
  rn : RN w sel es s
  tr1 : TR1 es s.nR
  ip : IP es s
  rp : RP w sel es s
  rk : RK w sel es s

theorem hinv_init (w : Ords) (sel : Bool) : HInv w sel [] init := by
  refine ⟨⟨?_, ?_, ?_⟩, ?_, ⟨?_, ?_⟩, ?_, ?_, ?_, ?_, ?_⟩
  · intro q u f o v hq; simp at hq
  · intro k u o v hk; simp at hk
  · intro p u o a b c hp; simp at hp
  · intro i u e n hi; simp at hi
  · intro n hn; simp [init] at hn
  · intro m n _ hn; simp [init, node0] at hn
  · intro t c hc; simp [init] at hc
  · intro i u e m hi; simp at hi
  · intro i u e m hi; simp at hi
  · intro t m hp; simp [init, BView, privRec] at hp
  · intro t b a hr; simp [init] at hr

theorem hinv_step {w : Ords} (hw : w.OK) {sel : Bool} {es : List (Tid × Ev)} {s s' : St} {t : Tid} {e : Ev}
    (hi : Inv s) (hi' : Inv s') (hdt : s.dt = false) (h : HInv w sel es s) (hS : Step s t e s') :
    HInv w sel (es ++ [(t, e)]) s' := by
  have hnd := not_inDtor hi hdt t
  exact ⟨SCD_step h.scd hS, NP_step hi hnd h.np hS, FV_step hi hdt hnd h.np h.fv hS,
    RN_step hw hi hi' hnd h.scd h.np h.fv h.rn hS, TR1_step hi hnd h.tr1 hS, IP_step hnd h.ip hS,
    RP_step hi hi' hnd h.tr1 h.rk h.rp hS, RK_step hw hi hi' hnd h.scd h.ip h.rp h.rk hS⟩

theorem run_snoc {es : List (Tid × Ev)} {t : Tid} {e : Ev} {s' : St} (h : run (es ++ [(t, e)]) = some s') :
    ∃ s, run es = some s ∧ step s t e = some s' := by
  simp only [run, runFrom_append] at h
  cases h1 : runFrom step init es with
  | none => simp [h1] at h
  | some s1 =>
    simp only [h1, Option.bind_some, runFrom_cons, runFrom_nil] at h
    cases h2 : step s1 t e with
    | none => simp [h2] at h
    | some s2 => simp [h2] at h; subst h; exact ⟨s1, h1, h2⟩

/-- the happens-before invariants hold after every accepted trace that has not entered the destructor -/
theorem hinv_run {w : Ords} (hw : w.OK) {sel : Bool} {es : List (Tid × Ev)} {s : St} (h : run es = some s)
    (hdt : s.dt = false) : HInv w sel es s := by
  induction es using HB.snoc_induction generalizing s with
  | h0 => simp [run] at h; subst h; exact hinv_init w sel
  | hs es x ih =>
    obtain ⟨t, e⟩ := x
    obtain ⟨s1, h1, h2⟩ := run_snoc h
    have hi : Inv s1 := inv_reachable ⟨es, h1⟩
    have hi' : Inv s := inv_reachable ⟨_, h⟩
    have hS := step_sound h2
    have hdt1 := dt_mono hS hdt
    exact hinv_step hw hi hi' hdt1 (ih h1 hdt1) hS

/-- the access just performed to node `n` happens-after every initialisation event of `n` -/
theorem node_last {w : Ords} {sel : Bool} {es : List (Tid × Ev)} {s s' : St} {t u : Tid} {e ei : Ev} {n i : Nat}
    (hi : Inv s) (hdt : s.dt = false) (h : HInv w sel es s) (hS : Step s t e s') (hn : e.nodeAcc = some n)
    (hq : es[i]? = some (u, ei)) (hinit : ei.initN = some n) : HB.HB (hbTrace w sel (es ++ [(t, e)])) i es.length := by
  have hil := HB.lq_lt hq
  have hk : Kn (hbTrace w sel es) t i := by
    rcases nodeAcc_cases hi hS (not_inDtor hi hdt t) hn with h1 | h1
    · have := h.np i u ei n hq hinit
      rw [h1] at this; exact this
    · exact h.rn t n h1 i u ei hq hinit
  rw [hbTrace_snoc]
  have := hk.hb_new (e := toHB w sel e) (by simpa using hil)
  simpa using this

/-- the access just performed to record `m` happens-after every initialisation event of `m` -/
theorem rec_last {w : Ords} {sel : Bool} {es : List (Tid × Ev)} {s s' : St} {t u : Tid} {e ei : Ev} {m i : Nat}
    (hi : Inv s) (hdt : s.dt = false) (h : HInv w sel es s) (hS : Step s t e s') (hm : e.recAcc = some m)
    (hq : es[i]? = some (u, ei)) (hinit : ei.initR = some m) : HB.HB (hbTrace w sel (es ++ [(t, e)])) i es.length := by
  have hil := HB.lq_lt hq
  have hk : Kn (hbTrace w sel es) t i := by
    rcases recAcc_cases hi hS (not_inDtor hi hdt t) hm with h1 | ⟨b, a, h1, h2⟩
    · exact h.rp t m h1 i u ei hq hinit
    · exact h.rk t b a h1 m h2 i u ei hq hinit
  rw [hbTrace_snoc]
  have := hk.hb_new (e := toHB w sel e) (by simpa using hil)
  simpa using this

/-- lifting a statement about the last event of a trace to every position -/
theorem at_last {w : Ords} {sel : Bool} {P : Ev → Ev → Prop}
    (hlast : ∀ (es : List (Tid × Ev)) (s s' : St) (t u : Tid) (e ei : Ev) (i : Nat), run es = some s → s'.dt = false →
      step s t e = some s' → es[i]? = some (u, ei) → P ei e → HB.HB (hbTrace w sel (es ++ [(t, e)])) i es.length)
    {es : List (Tid × Ev)} {s : St} (h : run es = some s) (hdt : s.dt = false) {i j : Nat} {u t : Tid} {ei ej : Ev}
    (hij : i < j) (hi : es[i]? = some (u, ei)) (hj : es[j]? = some (t, ej)) (hp : P ei ej) :
    HB.HB (hbTrace w sel es) i j := by
  induction es using HB.snoc_induction generalizing s with
  | h0 => simp at hj
  | hs es x ih =>
    obtain ⟨t', e⟩ := x
    obtain ⟨s1, h1, h2⟩ := run_snoc h
    have hdt1 := dt_mono (step_sound h2) hdt
    rcases HB.lq_snoc hj with ⟨hjl, hj'⟩ | ⟨hjl, hq⟩
    · have hi'' : es[i]? = some (u, ei) := by
        rw [List.getElem?_append_left (by omega)] at hi; exact hi
      rw [hbTrace_append]; exact (ih h1 hdt1 hi'' hj').mono _
    · injection hq with e1 e2; subst e1; subst e2; subst hjl
      have hi'' : es[i]? = some (u, ei) := by
        rw [List.getElem?_append_left hij] at hi; exact hi
      exact hlast es s1 s t u ej ei i h1 hdt h2 hi'' hp

/-- **publication of nodes**: every access to a node happens-after every event of its initialisation -/
theorem node_pub {w : Ords} (hw : w.OK) {sel : Bool} {es : List (Tid × Ev)} {s : St} (h : run es = some s)
    (hdt : s.dt = false) {i j : Nat} {u t : Tid} {ei ej : Ev} {n : Nat} (hij : i < j) (hi : es[i]? = some (u, ei))
    (hj : es[j]? = some (t, ej)) (hinit : ei.initN = some n) (hacc : ej.nodeAcc = some n) :
    HB.HB (hbTrace w sel es) i j := by
  refine at_last (P := fun a b => a.initN = some n ∧ b.nodeAcc = some n) ?_ h hdt hij hi hj ⟨hinit, hacc⟩
  intro es s s' t u e ei i hr hdt' hs hq hp
  have hS := step_sound hs
  have hdt1 := dt_mono hS hdt'
  exact node_last (inv_reachable ⟨es, hr⟩) hdt1 (hinv_run hw hr hdt1) hS hp.2 hq hp.1

/-- **publication of records**: every access to a log record happens-after every event of its initialisation -/
theorem rec_pub {w : Ords} (hw : w.OK) {sel : Bool} {es : List (Tid × Ev)} {s : St} (h : run es = some s)
    (hdt : s.dt = false) {i j : Nat} {u t : Tid} {ei ej : Ev} {m : Nat} (hij : i < j) (hi : es[i]? = some (u, ei))
    (hj : es[j]? = some (t, ej)) (hinit : ei.initR = some m) (hacc : ej.recAcc = some m) :
    HB.HB (hbTrace w sel es) i j := by
  refine at_last (P := fun a b => a.initR = some m ∧ b.recAcc = some m) ?_ h hdt hij hi hj ⟨hinit, hacc⟩
  intro es s s' t u e ei i hr hdt' hs hq hp
  have hS := step_sound hs
  have hdt1 := dt_mono hS hdt'
  exact rec_last (inv_reachable ⟨es, hr⟩) hdt1 (hinv_run hw hr hdt1) hS hp.2 hq hp.1

end ConcVerif.Rcu
