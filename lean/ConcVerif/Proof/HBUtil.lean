import ConcVerif.Proof.HB
/-! Small shared facts for the model-level happens-before connections: positions of a list that grows
at its end (any element type), and "thread `t` knows position `i`" through an anchor of `t`
(an event of `t`, or the creation of `t`). -/
namespace ConcVerif.HB

theorem lq_lt {α : Type} {l : List α} {i : Nat} {p : α} (h : l[i]? = some p) : i < l.length :=
  (List.getElem?_eq_some_iff.mp h).1

theorem lq_mono {α : Type} {l : List α} {i : Nat} {p : α} (ext : List α) (h : l[i]? = some p) :
    (l ++ ext)[i]? = some p := by
  rw [List.getElem?_append_left (lq_lt h)]; exact h

theorem lq_snoc {α : Type} {l : List α} {x p : α} {i : Nat} (h : (l ++ [x])[i]? = some p) :
    (i < l.length ∧ l[i]? = some p) ∨ (i = l.length ∧ p = x) := by
  have hl := lq_lt h
  simp at hl
  by_cases hi : i < l.length
  · left; rw [List.getElem?_append_left hi] at h; exact ⟨hi, h⟩
  · right
    have : i = l.length := by omega
    subst this
    simp at h
    exact ⟨rfl, h.symm⟩

theorem lq_last {α : Type} (l : List α) (x : α) : (l ++ [x])[l.length]? = some x := by simp

/-- the prefix of an accepted run is accepted, and the event at each position was accepted by `step` -/
theorem runFrom_at {St Ev : Type} {step : St → Tid → Ev → Option St} {s0 s : St} {es : List (Tid × Ev)}
    (h : runFrom step s0 es = some s) {j : Nat} {t : Tid} {e : Ev} (hj : es[j]? = some (t, e)) :
    ∃ s1 s2, runFrom step s0 (es.take j) = some s1 ∧ step s1 t e = some s2 := by
  have hjl := lq_lt hj
  have hsplit : es = es.take j ++ (t, e) :: es.drop (j + 1) := by
    conv => lhs; rw [← List.take_append_drop j es]
    congr 1
    rw [List.drop_eq_getElem_cons hjl]
    congr 1
    exact (List.getElem?_eq_some_iff.mp hj).2
  rw [hsplit, runFrom_append] at h
  cases h1 : runFrom step s0 (es.take j) with
  | none => simp [h1] at h
  | some s1 =>
    simp only [h1, Option.bind_some, runFrom_cons] at h
    cases h2 : step s1 t e with
    | none => simp [h2] at h
    | some s2 => exact ⟨s1, s2, rfl, h2⟩

/-- position `i` happens-before-or-is an anchor of thread `t` -/
def KnA (tr : Trace) (t : Tid) (i : Nat) : Prop := ∃ j, Anch tr t j ∧ HBeq tr i j

theorem KnA.mono {tr : Trace} {t : Tid} {i : Nat} (ext : Trace) (h : KnA tr t i) : KnA (tr ++ ext) t i := by
  obtain ⟨j, h1, h2⟩ := h
  exact ⟨j, h1.mono ext, h2.mono ext⟩

/-- what `t` knows is ordered before its next event -/
theorem KnA.to_last {tr : Trace} {t : Tid} {i : Nat} (e : Ev) (h : KnA tr t i) : HB (tr ++ [(t, e)]) i tr.length := by
  obtain ⟨j, h1, h2⟩ := h
  exact (h2.mono _).trans_hb h1.hb_last

theorem KnA.of_last {tr : Trace} {t : Tid} {e : Ev} {i : Nat} (h : HBeq (tr ++ [(t, e)]) i tr.length) :
    KnA (tr ++ [(t, e)]) t i :=
  ⟨tr.length, ⟨t, e, get_last tr _, .inl rfl⟩, h⟩

theorem KnA.of_last_fork {tr : Trace} {t u : Tid} {i : Nat} (h : HBeq (tr ++ [(u, .fork t)]) i tr.length) :
    KnA (tr ++ [(u, .fork t)]) t i :=
  ⟨tr.length, ⟨u, .fork t, get_last tr _, .inr rfl⟩, h⟩

end ConcVerif.HB
