import ConcVerif.Proof.HBCowStep
/-! cow_guarded and happens-before, part 3: every accepted cow trace projects to an accepted left-right trace
(`P`: the delegated left-right events, each tagged with the position of the cow event it belongs to) whose
happens-before image embeds into the cow trace's; hence the left-right theorem (`C07_lr_order`) orders the accesses
of the two `shared_ptr` copies in the cow trace. -/
namespace ConcVerif.Cow
open ConcVerif.LR (Side)

abbrev PEv := Nat × Tid × LR.Ev

structure ProjP (o : LR.Ords) (pay : Bool) (b : Bool) (es : List (Tid × Ev)) (s : St) (P : List PEv) : Prop where
  run : LR.run (LR.init b) (P.map (fun x => x.2)) = some s.lr
  sorted : ∀ (i j : Nat) (a c : PEv), i ≤ j → P[i]? = some a → P[j]? = some c → a.1 ≤ c.1
  bound : ∀ (i : Nat) (a : PEv), P[i]? = some a → a.1 < es.length
  thr : ∀ (i k : Nat) (t : Tid) (e : LR.Ev), P[i]? = some (k, t, e) →
    ∃ ce, es[k]? = some (t, ce) ∧ (LR.toHB o e = .nop ∨ LR.toHB o e = toHBc o pay ce)
  one : ∀ (i j k : Nat) (t u : Tid) (e e' : LR.Ev), i < j → P[i]? = some (k, t, e) → P[j]? = some (k, u, e') →
    LR.toHB o e = .nop ∨ LR.toHB o e' = .nop
  st : ∀ (k : Nat) (t : Tid) (ce : Ev) (a : HB.Loc) (od : HB.Ord), es[k]? = some (t, ce) → toHBc o pay ce = .st a od →
    ∃ (i : Nat) (e : LR.Ev), P[i]? = some (k, t, e) ∧ LR.toHB o e = .st a od
  wr : ∀ (k : Nat) (t : Tid) (x : Side) (v : Ver), es[k]? = some (t, Ev.stPtr x v) → ∃ (i : Nat), P[i]? = some (k, t, LR.Ev.fBegin x)
  rd : ∀ (k : Nat) (t : Tid) (x : Side) (v : Ver), es[k]? = some (t, Ev.ldPtr x v) →
    ∃ (i : Nat) (val : List LR.OpId), P[i]? = some (k, t, LR.Ev.rd x val)

theorem projP_init (o : LR.Ords) (pay b : Bool) : ProjP o pay b [] (init b) [] := by
  refine ⟨rfl, ?_, ?_, ?_, ?_, ?_, ?_, ?_⟩ <;> intros <;> simp at *

theorem get_app {α : Type} {l q : List α} {i : Nat} {a : α} (h : (l ++ q)[i]? = some a) :
    (i < l.length ∧ l[i]? = some a) ∨ (l.length ≤ i ∧ q[i - l.length]? = some a) := by
  by_cases hi : i < l.length
  · left; rw [List.getElem?_append_left hi] at h; exact ⟨hi, h⟩
  · right; rw [List.getElem?_append_right (by omega)] at h; exact ⟨by omega, h⟩

theorem get_map_inv {α β : Type} {g : α → β} {l : List α} {j : Nat} {b : β} (h : (l.map g)[j]? = some b) :
    ∃ a, l[j]? = some a ∧ b = g a := by
  simp only [List.getElem?_map] at h
  cases hk : l[j]? with
  | none => simp [hk] at h
  | some a => simp [hk] at h; exact ⟨a, rfl, h.symm⟩

theorem projP_step {o : LR.Ords} {pay b : Bool} {es : List (Tid × Ev)} {s s' : St} {t : Tid} {ce : Ev} {P : List PEv}
    {block : List LR.Ev} (h : ProjP o pay b es s P) (B : Blk o pay s t ce s' block) :
    ProjP o pay b (es ++ [(t, ce)]) s' (P ++ block.map (fun e => (es.length, t, e))) := by
  -- an element of the new part
  have newp : ∀ (i : Nat) (a : PEv), (P ++ block.map (fun e => ((es.length, t, e) : PEv)))[i]? = some a → P.length ≤ i →
      ∃ e, block[i - P.length]? = some e ∧ a = (es.length, t, e) := by
    intro i a hi hl
    rcases get_app hi with ⟨h1, _⟩ | ⟨_, h2⟩
    · omega
    · exact get_map_inv h2
  refine ⟨?_, ?_, ?_, ?_, ?_, ?_, ?_, ?_⟩
  · simp only [List.map_append, List.map_map, LR.run, runFrom_append]
    have := h.run
    simp only [LR.run] at this
    rw [this]
    simpa [LR.run, Function.comp_def] using B.run
  · intro i j a c hij hi hj
    rcases get_app hi with ⟨_, h1⟩ | ⟨g1, _⟩
    · rcases get_app hj with ⟨_, h2⟩ | ⟨g2, _⟩
      · exact h.sorted i j a c hij h1 h2
      · obtain ⟨e, _, rfl⟩ := newp j c hj g2
        exact Nat.le_of_lt (h.bound i a h1)
    · obtain ⟨e, _, rfl⟩ := newp i a hi g1
      obtain ⟨e', _, rfl⟩ := newp j c hj (by omega)
      exact Nat.le_refl _
  · intro i a hi
    rcases get_app hi with ⟨_, h1⟩ | ⟨g1, _⟩
    · have := h.bound i a h1; simp; omega
    · obtain ⟨e, _, rfl⟩ := newp i a hi g1; simp
  · intro i k u e hi
    rcases get_app hi with ⟨_, h1⟩ | ⟨g1, _⟩
    · obtain ⟨ce', g2, g3⟩ := h.thr i k u e h1
      exact ⟨ce', HB.lq_mono _ g2, g3⟩
    · obtain ⟨e', g2, g3⟩ := newp i _ hi g1
      injection g3 with g3 g4; injection g4 with g4 g5; subst g3; subst g4; subst g5
      exact ⟨ce, HB.lq_last _ _, B.img e (List.mem_of_getElem? g2)⟩
  · intro i j k u u' e e' hij hi hj
    rcases get_app hi with ⟨_, h1⟩ | ⟨g1, _⟩
    · rcases get_app hj with ⟨_, h2⟩ | ⟨g2, _⟩
      · exact h.one i j k u u' e e' hij h1 h2
      · obtain ⟨e2, _, g3⟩ := newp j _ hj g2
        injection g3 with g3 _
        have := h.bound i _ h1
        simp at this; omega
    · obtain ⟨e1, k1, g3⟩ := newp i _ hi g1
      obtain ⟨e2, k2, g4⟩ := newp j _ hj (by omega)
      injection g3 with _ g3; injection g3 with _ g3; subst g3
      injection g4 with _ g4; injection g4 with _ g4; subst g4
      exact B.one (i - P.length) (j - P.length) e e' (by omega) k1 k2
  · intro k u ce' a od hk hst
    rcases HB.lq_snoc hk with ⟨_, hk'⟩ | ⟨hl, hp⟩
    · obtain ⟨i, e, g1, g2⟩ := h.st k u ce' a od hk' hst
      exact ⟨i, e, HB.lq_mono _ g1, g2⟩
    · injection hp with g1 g2; subst g1; subst g2; subst hl
      obtain ⟨e, he, g2⟩ := B.st a od hst
      obtain ⟨j, hj⟩ := List.getElem?_of_mem he
      refine ⟨P.length + j, e, ?_, g2⟩
      rw [List.getElem?_append_right (by omega)]
      simp [hj]
  · intro k u x v hk
    rcases HB.lq_snoc hk with ⟨_, hk'⟩ | ⟨hl, hp⟩
    · obtain ⟨i, g1⟩ := h.wr k u x v hk'
      exact ⟨i, HB.lq_mono _ g1⟩
    · injection hp with g1 g2; subst g1; subst g2; subst hl
      obtain ⟨j, hj⟩ := List.getElem?_of_mem (B.wr x v rfl)
      refine ⟨P.length + j, ?_⟩
      rw [List.getElem?_append_right (by omega)]
      simp [hj]
  · intro k u x v hk
    rcases HB.lq_snoc hk with ⟨_, hk'⟩ | ⟨hl, hp⟩
    · obtain ⟨i, val, g1⟩ := h.rd k u x v hk'
      exact ⟨i, val, HB.lq_mono _ g1⟩
    · injection hp with g1 g2; subst g1; subst g2; subst hl
      obtain ⟨val, hv⟩ := B.rd x v rfl
      obtain ⟨j, hj⟩ := List.getElem?_of_mem hv
      refine ⟨P.length + j, val, ?_⟩
      rw [List.getElem?_append_right (by omega)]
      simp [hj]

theorem run_snoc {b : Bool} {es : List (Tid × Ev)} {t : Tid} {e : Ev} {s' : St} (h : run (init b) (es ++ [(t, e)]) = some s') :
    ∃ s, run (init b) es = some s ∧ step s t e = some s' := by
  simp only [run, runFrom_append] at h
  cases h1 : runFrom step (init b) es with
  | none => simp [h1] at h
  | some s1 =>
    simp only [h1, Option.bind_some, runFrom_cons, runFrom_nil] at h
    cases h2 : step s1 t e with
    | none => simp [h2] at h
    | some s2 => simp [h2] at h; subst h; exact ⟨s1, h1, h2⟩

/-- every accepted cow trace has a projection -/
theorem projP_run (o : LR.Ords) (pay : Bool) {b : Bool} {es : List (Tid × Ev)} {s : St} (h : run (init b) es = some s) :
    ∃ P, ProjP o pay b es s P := by
  induction es using HB.snoc_induction generalizing s with
  | h0 => simp [run] at h; subst h; exact ⟨[], projP_init o pay b⟩
  | hs es x ih =>
    obtain ⟨t, e⟩ := x
    obtain ⟨s1, h1, h2⟩ := run_snoc h
    obtain ⟨P, hP⟩ := ih h1
    obtain ⟨block, B⟩ := blk_step (o := o) (pay := pay) h2
    exact ⟨_, projP_step hP B⟩

end ConcVerif.Cow
