import ConcVerif.Proof.DObjConc
import ConcVerif.Base.Live
/-! Two-level ranking for `DelayedObjects` (instance of the lexicographic form in `Base/Live.lean`).

Environment events: `call`, the tap observation `acc` (a stutter step of the model) and a consumer's
observation `got` of a ready future.  Library steps: `mlk`, every `set_value` (`pset`) of the critical
section, `mul`, `ret`.  The number of `set_value` calls of a critical section is fixed when the lock is
taken (`fulfillAllPromises` and the destructor walk the pending map as it is then, and other threads may
still add to it before), hence the two levels: first "has not taken the lock yet", then `todo.length + 2`. -/
namespace ConcVerif.DObj

def isEnv : Ev → Bool
  | .call _ | .acc | .got _ _ => true
  | _ => false

def Pc.alpha : Pc → Nat
  | .called _ => 1
  | _ => 0

def Pc.rank : Pc → Nat
  | .idle => 0
  | .called _ => 0
  | .locked _ _ todo => todo.length + 2
  | .unlocked _ _ => 1

def α (s : St) (t : Tid) : Nat := (s.pc t).alpha
def μ (s : St) (t : Tid) : Nat := (s.pc t).rank

theorem step_pc_other {s s' : St} {t u : Tid} {e : Ev} (hs : step s t e = some s') (hu : u ≠ t) :
    s'.pc u = s.pc u := by
  unfold step at hs
  split at hs <;> (repeat' (split at hs)) <;>
    first | contradiction | (injection hs with hs; subst hs; simp [St.setPc, upd, hu])

theorem step_dec {s s' : St} {t : Tid} {e : Ev} (hs : step s t e = some s') (he : isEnv e = false) :
    (s'.pc t).alpha < (s.pc t).alpha ∨ ((s'.pc t).alpha = (s.pc t).alpha ∧ (s'.pc t).rank < (s.pc t).rank) := by
  cases hp : s.pc t <;> cases e <;> simp [isEnv] at he <;> simp [step, hp] at hs
  case called.mlk =>
    obtain ⟨_, hs⟩ := hs
    split at hs
    · injection hs with hs; subst hs; simp [St.setPc, upd, Pc.alpha]
    · contradiction
  case locked.pset o r todo v =>
    obtain ⟨hv, hs⟩ := hs; subst hs
    have := List.length_erase_of_mem hv
    have hpos : 0 < todo.length := List.length_pos_of_mem hv
    simp [St.setPc, upd, Pc.alpha, Pc.rank, this]; omega
  case locked.mul => obtain ⟨_, hs⟩ := hs; subst hs; simp [St.setPc, upd, Pc.alpha, Pc.rank]
  case unlocked.ret => obtain ⟨_, hs⟩ := hs; subst hs; simp [St.setPc, upd, Pc.alpha, Pc.rank]

theorem rankedLex : Live.RankedLex step (fun _ => True) isEnv α μ where
  good := fun _ _ _ _ _ _ _ => trivial
  dec := by
    intro s t e s' _ hs he
    rcases step_dec hs he with h | ⟨h1, h2⟩
    · exact Or.inl h
    · exact Or.inr ⟨h1, h2, fun u hu => by simp [μ, step_pc_other hs hu]⟩
  frame := by
    intro s t e s' u _ hs _ hu
    simp [α, step_pc_other hs hu]

/-- some library step of `t` is enabled -/
def LibEnabled (s : St) (t : Tid) : Prop := ∃ e, isEnv e = false ∧ (step s t e).isSome = true

end ConcVerif.DObj
