import ConcVerif.Proof.DeferredO
import ConcVerif.Base.Live
/-! Ranking for `deferred_guarded` (shared-potential form of `Base/Live.lean`).

Environment events (`isEnv`): the calls (`callMod`, `callSh`, `callLoad`), the accesses to the wrapped object made
by task functions, by `load()`'s copy and through a held shared handle (`prd`, `pwr`; the model does not bound
their number) and the client's future operations (`fpoll`, `fget`).  Everything else is a step of the library —
or the end of a task function (`uce`, `uth`), or the release of a shared handle (`sul`) — and lowers
`2·(|batch| + |queue|) + Σ_t rank (pc t)`: every queued task pays for the start and the end of its function in
the drain loop that will run it, so the drain loop terminates whatever is queued meanwhile (tasks queued after the
swap stay in the queue for the next drain). -/
namespace ConcVerif.Deferred

def isEnv : Ev → Bool
  | .callMod _ _ | .callSh _ | .callLoad | .prd _ | .pwr _ | .fpoll _ _ | .fget _ _ => true
  | _ => false

def Pc.rank : Pc → Nat
  | .idle h => if h then 1 else 0
  | .mTry _ _ => 10
  | .qLock _ _ => 6
  | .qPush _ _ => 5
  | .qFlag _ _ => 2
  | .mRet _ _ _ => 1
  | .sFlag _ => 11
  | .sTry _ => 10
  | .dLoad _ => 9
  | .dClear _ => 8
  | .dQLock _ => 7
  | .dSwap _ => 6
  | .dRun _ => 5
  | .dIn _ _ => 6
  | .aIn _ _ => 3
  | .mUnl _ _ _ => 2
  | .sAcq _ => 4
  | .sGot ok => if ok then 2 else 1
  | .ldHold thrown => if thrown then 2 else 3
  | .ldRet _ => 1

def G (s : St) : Nat := 2 * (s.batch.length + s.queue.length)
def μ (s : St) (t : Tid) : Nat := (s.pc t).rank

theorem step_pc_other {s s' : St} {t u : Tid} {e : Ev} (hs : step s t e = some s') (hu : u ≠ t) :
    s'.pc u = s.pc u := by
  have h := step_sound hs
  cases h <;> simp [St.setPc, upd, hu]

set_option hygiene false in
macro "rank_close" : tactic =>
  `(tactic| (
    (try (repeat' (split at hs)))
    all_goals (first | contradiction | skip)
    all_goals (try (obtain ⟨_, hs⟩ := hs))
    all_goals (try (repeat' (split at hs)))
    all_goals (first | contradiction | skip)
    all_goals (try (injection hs with hs))
    all_goals (try subst hs)
    all_goals (simp [G, St.setPc, upd, Pc.rank, SCtx.granted])
    all_goals (try (first
      | omega
      | (split <;> simp_all <;> omega)
      | (simp_all; omega)
      | (simp_all; done)))))

/-- every non-environment step lowers `G + rank` of the stepping thread -/
theorem step_dec {s s' : St} {t : Tid} {e : Ev} (hs : step s t e = some s') (he : isEnv e = false) :
    G s' + (s'.pc t).rank < G s + (s.pc t).rank := by
  cases hp : s.pc t
  case idle h => cases h <;> cases e <;> simp [isEnv] at he <;> simp [step, hp] at hs <;> rank_close
  case sAcq c =>
    cases c with
    | load => cases e <;> simp [isEnv] at he <;> simp [step, hp] at hs <;> rank_close
    | acq h => cases h <;> cases e <;> simp [isEnv] at he <;> simp [step, hp] at hs <;> rank_close
  case dRun c => cases c <;> cases e <;> simp [isEnv] at he <;> simp [step, hp] at hs <;> rank_close
  all_goals (cases e <;> simp [isEnv] at he <;> simp [step, hp] at hs <;> rank_close)

theorem rankedG : Live.RankedG step (fun _ => True) isEnv G μ where
  good := fun _ _ _ _ _ _ _ => trivial
  dec := fun _ _ _ _ _ hs he => step_dec hs he
  frame := by
    intro s t e s' u _ hs _ hu
    simp [μ, step_pc_other hs hu]

/-! ## Who can move -/

/-- `t` is inside a call of the wrapper -/
def Inside (s : St) (t : Tid) : Prop := ∀ h, s.pc t ≠ .idle h

/-- `t` is inside a call and some library step of `t` is enabled -/
def LibEnabled (s : St) (t : Tid) : Prop := Inside s t ∧ ∃ e, isEnv e = false ∧ (step s t e).isSome = true

/-- the holder of the queue mutex can release it -/
theorem qholder_lib {s : St} (hi : Inv s) {w : Tid} (hq : s.qm = some w) : LibEnabled s w := by
  have hQ := (hi.L.qmP w).mp hq
  cases hp : s.pc w <;> rw [hp] at hQ <;> simp [Pc.holdsQ] at hQ
  case qPush k a => exact ⟨fun h => by simp [hp], .qul, rfl, by simp [step, hp, hq]⟩
  case dSwap c =>
    have hm : s.mx = some w := (hi.L.mxP w).mpr (by simp [hp, Pc.holdsX])
    have hb := hi.C.no_batch_unless (t := w) (Or.inr ⟨hm, by simp [hp, Pc.runs]⟩)
    exact ⟨fun h => by simp [hp], .qul, rfl, by simp [step, hp, hq, hb]⟩

/-- the exclusive holder of `m` can move when the queue mutex is free -/
theorem xholder_lib {s : St} (hi : Inv s) {u : Tid} (hm : s.mx = some u) (hq : s.qm = none) : LibEnabled s u := by
  have hX := (hi.L.mxP u).mp hm
  cases hp : s.pc u <;> rw [hp] at hX <;> simp [Pc.holdsX] at hX
  case dLoad c => exact ⟨fun h => by simp [hp], .fld s.flag, rfl, by simp [step, hp]⟩
  case dClear c => exact ⟨fun h => by simp [hp], .fst false, rfl, by simp [step, hp]⟩
  case dQLock c => exact ⟨fun h => by simp [hp], .qlk, rfl, by simp [step, hp, hq]⟩
  case dSwap c =>
    have := (hi.L.qmP u).mpr (by simp [hp, Pc.holdsQ])
    rw [hq] at this; cases this
  case dRun c =>
    cases hb : s.batch with
    | cons b rest => exact ⟨fun h => by simp [hp], .ucb b, rfl, by simp [step, hp, hb]⟩
    | nil =>
      cases c with
      | mod k a => exact ⟨fun h => by simp [hp], .ucb k, rfl, by simp [step, hp, hb]⟩
      | sh c => exact ⟨fun h => by simp [hp], .mul, rfl, by simp [step, hp, hb, hm]⟩
  case dIn c j => exact ⟨fun h => by simp [hp], .uce j 0, rfl, by simp [step, hp]⟩
  case aIn k a => exact ⟨fun h => by simp [hp], .uce k 0, rfl, by simp [step, hp]⟩
  case mUnl k a thr => exact ⟨fun h => by simp [hp], .mul, rfl, by simp [step, hp, hm]⟩

/-- when both mutexes are free, every thread inside a call can move -/
theorem free_lib {s : St} (hi : Inv s) (hm : s.mx = none) (hq : s.qm = none) {t : Tid} (ht : Inside s t) :
    LibEnabled s t := by
  refine ⟨ht, ?_⟩
  have noX : (s.pc t).holdsX = true → False := fun h => by
    have := (hi.L.mxP t).mpr h; rw [hm] at this; cases this
  have noQ : (s.pc t).holdsQ = true → False := fun h => by
    have := (hi.L.qmP t).mpr h; rw [hq] at this; cases this
  have tryOk : ∃ ok, s.tryX ok = true := by
    by_cases hs : s.sh = []
    · exact ⟨true, by simp [St.tryX, hm, hs]⟩
    · exact ⟨false, by simp [St.tryX, hs]⟩
  cases hp : s.pc t
  case idle h => exact absurd hp (ht h)
  case mTry k a =>
    obtain ⟨ok, hok⟩ := tryOk
    refine ⟨.mtl ok, rfl, ?_⟩
    cases ok <;> simp [step, hp, hok]
  case qLock k a => exact ⟨.qlk, rfl, by simp [step, hp, hq]⟩
  case qPush k a => exact absurd (by simp [hp, Pc.holdsQ]) noQ
  case qFlag k a => exact ⟨.fst true, rfl, by simp [step, hp]⟩
  case mRet k a thr =>
    cases thr
    · exact ⟨.ret, rfl, by simp [step, hp]⟩
    · exact ⟨.exc, rfl, by simp [step, hp]⟩
  case sFlag c => exact ⟨.fld s.flag, rfl, by simp [step, hp]⟩
  case sTry c =>
    obtain ⟨ok, hok⟩ := tryOk
    refine ⟨.mtl ok, rfl, ?_⟩
    cases ok <;> simp [step, hp, hok]
  case dLoad c => exact absurd (by simp [hp, Pc.holdsX]) noX
  case dClear c => exact absurd (by simp [hp, Pc.holdsX]) noX
  case dQLock c => exact absurd (by simp [hp, Pc.holdsX]) noX
  case dSwap c => exact absurd (by simp [hp, Pc.holdsX]) noX
  case dRun c => exact absurd (by simp [hp, Pc.holdsX]) noX
  case dIn c j => exact absurd (by simp [hp, Pc.holdsX]) noX
  case aIn k a => exact absurd (by simp [hp, Pc.holdsX]) noX
  case mUnl k a thr => exact absurd (by simp [hp, Pc.holdsX]) noX
  case sAcq c =>
    cases c with
    | load => exact ⟨.slk, rfl, by simp [step, hp, hm]⟩
    | acq h =>
      cases h
      · exact ⟨.slk, rfl, by simp [step, hp, hm]⟩
      · exact ⟨.stl false, rfl, by simp [step, hp]⟩
      · exact ⟨.stf false, rfl, by simp [step, hp]⟩
      · exact ⟨.stf false, rfl, by simp [step, hp]⟩
  case sGot ok => exact ⟨.got ok, rfl, by simp [step, hp]⟩
  case ldHold thr =>
    have := (hi.L.shP t).mpr (by simp [hp, Pc.holdsS])
    exact ⟨.sul, rfl, by simp [step, hp, this]⟩
  case ldRet thr =>
    cases thr
    · exact ⟨.ret, rfl, by simp [step, hp]⟩
    · exact ⟨.exc, rfl, by simp [step, hp]⟩

/-- **Deadlock-freedom**: if some thread is inside a call, some thread inside a call has an enabled library step -/
theorem progress {s : St} (hi : Inv s) {t : Tid} (ht : Inside s t) : ∃ u, LibEnabled s u := by
  cases hq : s.qm with
  | some w => exact ⟨w, qholder_lib hi hq⟩
  | none =>
    cases hm : s.mx with
    | some u => exact ⟨u, xholder_lib hi hm hq⟩
    | none => exact ⟨t, free_lib hi hm hq ht⟩

end ConcVerif.Deferred
