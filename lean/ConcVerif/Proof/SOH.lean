import ConcVerif.Proof.SOHSpec
/-! Invariants of the concurrent layer of the SearchableObjectHolder model:
* `LkInv`  — the lock is held exactly by the thread inside a critical section (mutual exclusion, no leak);
* `HInv`   — the maps are well-formed and the ghost history, replayed through the sequential
             specification from the empty maps, reproduces every recorded result and ends in the
             current maps (linearizability); each thread's pending result is its last history entry;
* `AInv`   — the reference ledger: everything stored or held was created and is not destroyed.
`step` is first turned into the relation `Tr` (one constructor per edge), once; every invariant is then
a case analysis over `Tr`. -/
namespace ConcVerif.SOH

/-! ### `step` as a relation -/

inductive Tr (s : St) (t : Tid) : Ev → St → Prop
  | pdt (k : ObjId) (hc : k ∈ s.created) (hd : k ∉ s.dead) (hm : ∀ x ∈ s.maps.objs, x.2 ≠ k)
      (hh : ∀ h ∈ s.held, h.2 ≠ k) : Tr s t (.pdt k) { s with dead := k :: s.dead }
  | callNew (op : Op) (k : ObjId) (hp : s.pc t = .idle) (hg : s.gone = false) (hn : op.newId = some k)
      (hf : k ∉ s.created) :
      Tr s t (.call op) ({ s with created := k :: s.created, held := (t, k) :: s.held }.setPc t (.called op))
  | call (op : Op) (hp : s.pc t = .idle) (hg : s.gone = false) (hn : op.newId = none) :
      Tr s t (.call op) (s.setPc t (.called op))
  | rel (k : ObjId) (hp : s.pc t = .idle) (hh : (t, k) ∈ s.held) :
      Tr s t (.rel k) { s with held := s.held.erase (t, k) }
  | lin (op : Op) (hp : s.pc t = .called op) (hl : s.lock = none) (hg : s.gone = false) :
      Tr s t .mlk ({ s with lock := some t, maps := (apply s.maps op).1,
                            hist := s.hist ++ [HEntry.mk t op (apply s.maps op).2],
                            held := heldAfter t op (apply s.maps op).2 s.held }.setPc t
                    (.cs op (apply s.maps op).2 (predCalls s.maps op)))
  | pcl (op : Op) (res : Res) (k : ObjId) (pend : List ObjId) (hp : s.pc t = .cs op res (k :: pend)) :
      Tr s t (.pcl k) (s.setPc t (.cs op res pend))
  | uth (op : Op) (hp : s.pc t = .cs op .threw []) : Tr s t .uth (s.setPc t (.thrown op))
  | mulCs (op : Op) (res : Res) (hp : s.pc t = .cs op res []) (hr : res ≠ .threw) (hl : s.lock = some t) :
      Tr s t .mul ({ s with lock := none }.setPc t (.unlocked op res))
  | mulThrown (op : Op) (hp : s.pc t = .thrown op) (hl : s.lock = some t) :
      Tr s t .mul ({ s with lock := none }.setPc t (.unlocked op .threw))
  | ret (op : Op) (res : Res) (hp : s.pc t = .unlocked op res) (hr : res ≠ .threw) :
      Tr s t (.ret res) (s.setPc t .idle)
  | exc (op : Op) (hp : s.pc t = .unlocked op .threw) : Tr s t .exc (s.setPc t .idle)
  | callD (hp : s.pc t = .idle) (hg : s.gone = false) (hd : s.dt = false) :
      Tr s t .callD ({ s with dt := true }.setPc t .dCalled)
  | dLock (hp : s.pc t = .dCalled) (hl : s.lock = none) : Tr s t .mlk ({ s with lock := some t }.setPc t (.dLocked 0))
  | dFinal (c : Nat) (hp : s.pc t = .dLocked c) (hl : s.lock = some t) (hc : s.maps.objs = [] ∨ 7 ≤ c) :
      Tr s t .mul ({ s with lock := none, maps := Maps.empty, gone := true }.setPc t .dDone)
  | dRetry (c : Nat) (hp : s.pc t = .dLocked c) (hl : s.lock = some t) (hc : ¬ (s.maps.objs = [] ∨ 7 ≤ c)) :
      Tr s t .mul ({ s with lock := none }.setPc t (.dWait (c + 1)))
  | dYld (c : Nat) (hp : s.pc t = .dWait c) (hc : c % 2 = 1) : Tr s t .yld (s.setPc t (.dRelock c))
  | dSlp (c : Nat) (hp : s.pc t = .dWait c) (hc : c % 2 = 0) : Tr s t .slp (s.setPc t (.dRelock c))
  | dRelock (c : Nat) (hp : s.pc t = .dRelock c) (hl : s.lock = none) :
      Tr s t .mlk ({ s with lock := some t }.setPc t (.dLocked c))
  | retD (hp : s.pc t = .dDone) : Tr s t .retD (s.setPc t .idle)
  | mac (hl : s.lock = some t ∨ s.pc t = .dDone) : Tr s t .mac s

theorem step_tr {s s' : St} {t : Tid} {e : Ev} (hs : step s t e = some s') : Tr s t e s' := by
  unfold step at hs
  split at hs
  · split at hs
    · rename_i h; injection hs with hs; subst hs; exact Tr.pdt _ h.1 h.2.1 h.2.2.1 h.2.2.2
    · contradiction
  · rename_i op hpc
    split at hs
    · rename_i hg
      split at hs
      · rename_i k hn
        split at hs
        · rename_i hf; injection hs with hs; subst hs; exact Tr.callNew op k hpc hg hn hf
        · contradiction
      · rename_i hn; injection hs with hs; subst hs; exact Tr.call op hpc hg hn
    · contradiction
  · rename_i k hpc
    split at hs
    · rename_i hh; injection hs with hs; subst hs; exact Tr.rel k hpc hh
    · contradiction
  · rename_i op hpc
    split at hs
    · rename_i h; injection hs with hs; subst hs; exact Tr.lin op hpc h.1 h.2
    · contradiction
  · rename_i op res k' pend k hpc
    split at hs
    · rename_i hk; injection hs with hs; subst hs; subst hk; exact Tr.pcl op res k pend hpc
    · contradiction
  · rename_i op res hpc
    split at hs
    · rename_i hr; injection hs with hs; subst hs; subst hr; exact Tr.uth op hpc
    · contradiction
  · rename_i op res hpc
    split at hs
    · rename_i h; injection hs with hs; subst hs; exact Tr.mulCs op res hpc h.1 h.2
    · contradiction
  · rename_i op hpc
    split at hs
    · rename_i h; injection hs with hs; subst hs; exact Tr.mulThrown op hpc h
    · contradiction
  · rename_i op res r hpc
    split at hs
    · rename_i h; injection hs with hs; subst hs; obtain ⟨h1, h2⟩ := h; subst h1; exact Tr.ret op _ hpc h2
    · contradiction
  · rename_i op res hpc
    split at hs
    · rename_i h; injection hs with hs; subst hs; subst h; exact Tr.exc op hpc
    · contradiction
  · rename_i hpc
    split at hs
    · rename_i h; injection hs with hs; subst hs; exact Tr.callD hpc h.1 h.2
    · contradiction
  · rename_i hpc
    split at hs
    · rename_i h; injection hs with hs; subst hs; exact Tr.dLock hpc h
    · contradiction
  · rename_i c hpc
    split at hs
    · rename_i hl
      split at hs
      · rename_i hc; injection hs with hs; subst hs; exact Tr.dFinal c hpc hl hc
      · rename_i hc; injection hs with hs; subst hs; exact Tr.dRetry c hpc hl hc
    · contradiction
  · rename_i c hpc
    split at hs
    · rename_i hc; injection hs with hs; subst hs; exact Tr.dYld c hpc hc
    · contradiction
  · rename_i c hpc
    split at hs
    · rename_i hc; injection hs with hs; subst hs; exact Tr.dSlp c hpc hc
    · contradiction
  · rename_i c hpc
    split at hs
    · rename_i h; injection hs with hs; subst hs; exact Tr.dRelock c hpc h
    · contradiction
  · rename_i hpc; injection hs with hs; subst hs; exact Tr.retD hpc
  · split at hs
    · rename_i h; injection hs with hs; subst hs; exact Tr.mac h
    · contradiction
  · contradiction

theorem tr_step {s s' : St} {t : Tid} {e : Ev} (h : Tr s t e s') : step s t e = some s' := by
  cases h with
  | pdt k hc hd hm hh =>
    have : k ∈ s.created ∧ k ∉ s.dead ∧ (∀ x ∈ s.maps.objs, x.2 ≠ k) ∧ (∀ h ∈ s.held, h.2 ≠ k) := ⟨hc, hd, hm, hh⟩
    cases hp : s.pc t <;> simp only [step] <;> exact if_pos this
  | callNew op k hp hg hn hf => simp [step, hp, hg, hn, hf]
  | call op hp hg hn => simp [step, hp, hg, hn]
  | rel k hp hh => simp [step, hp, hh]
  | lin op hp hl hg => simp [step, hp, hl, hg]
  | pcl op res k pend hp => simp [step, hp]
  | uth op hp => simp [step, hp]
  | mulCs op res hp hr hl => simp [step, hp, hr, hl]
  | mulThrown op hp hl => simp [step, hp, hl]
  | ret op res hp hr => simp [step, hp, hr]
  | exc op hp => simp [step, hp]
  | callD hp hg hd => simp [step, hp, hg, hd]
  | dLock hp hl => simp [step, hp, hl]
  | dFinal c hp hl hc => simp [step, hp, hl, hc]
  | dRetry c hp hl hc => simp [step, hp, hl, hc]
  | dYld c hp hc => simp [step, hp, hc]
  | dSlp c hp hc => simp [step, hp, hc]
  | dRelock c hp hl => simp [step, hp, hl]
  | retD hp => simp [step, hp]
  | mac hl => cases hp : s.pc t <;> simp only [step] <;> exact if_pos hl

@[simp] theorem setPc_pc_same (s : St) (t : Tid) (p : Pc) : (s.setPc t p).pc t = p := by simp [St.setPc]
theorem setPc_pc_other (s : St) (t u : Tid) (p : Pc) (h : u ≠ t) : (s.setPc t p).pc u = s.pc u := by
  simp [St.setPc, upd, h]
@[simp] theorem setPc_maps (s : St) (t : Tid) (p : Pc) : (s.setPc t p).maps = s.maps := rfl
@[simp] theorem setPc_lock (s : St) (t : Tid) (p : Pc) : (s.setPc t p).lock = s.lock := rfl
@[simp] theorem setPc_hist (s : St) (t : Tid) (p : Pc) : (s.setPc t p).hist = s.hist := rfl
@[simp] theorem setPc_held (s : St) (t : Tid) (p : Pc) : (s.setPc t p).held = s.held := rfl
@[simp] theorem setPc_created (s : St) (t : Tid) (p : Pc) : (s.setPc t p).created = s.created := rfl
@[simp] theorem setPc_dead (s : St) (t : Tid) (p : Pc) : (s.setPc t p).dead = s.dead := rfl
@[simp] theorem setPc_gone (s : St) (t : Tid) (p : Pc) : (s.setPc t p).gone = s.gone := rfl
@[simp] theorem setPc_dt (s : St) (t : Tid) (p : Pc) : (s.setPc t p).dt = s.dt := rfl

/-! ### mutual exclusion -/

def Pc.inCS : Pc → Bool
  | .cs _ _ _ => true
  | .thrown _ => true
  | .dLocked _ => true
  | _ => false

/-- the lock is held exactly by the thread that is inside a critical section -/
def LkInv (s : St) : Prop := ∀ u, s.lock = some u ↔ (s.pc u).inCS = true

theorem lk_init : LkInv init := by intro u; simp [init, Pc.inCS]

theorem lk_frame {s s' : St} {t : Tid} (h : LkInv s) (hpc : ∀ u, u ≠ t → s'.pc u = s.pc u)
    (hcase : (s'.lock = s.lock ∧ (s'.pc t).inCS = (s.pc t).inCS) ∨
             (s.lock = none ∧ s'.lock = some t ∧ (s'.pc t).inCS = true) ∨
             (s.lock = some t ∧ s'.lock = none ∧ (s'.pc t).inCS = false)) : LkInv s' := by
  intro u
  by_cases hu : u = t
  · subst hu
    rcases hcase with ⟨h1, h2⟩ | ⟨h1, h2, h3⟩ | ⟨h1, h2, h3⟩
    · rw [h1, h2]; exact h u
    · simp [h2, h3]
    · simp [h2, h3]
  · rw [hpc u hu]
    rcases hcase with ⟨h1, _⟩ | ⟨h1, h2, _⟩ | ⟨h1, h2, _⟩
    · rw [h1]; exact h u
    · have := h u
      rw [h1] at this
      rw [h2]
      constructor
      · intro hh; injection hh with hh; exact absurd hh.symm hu
      · intro hh; exact absurd (this.mpr hh) (by simp)
    · have := h u
      rw [h1] at this
      rw [h2]
      constructor
      · intro hh; simp at hh
      · intro hh; have := this.mpr hh; injection this with this; exact absurd this.symm hu

theorem lk_tr {s s' : St} {t : Tid} {e : Ev} (h : LkInv s) (htr : Tr s t e s') : LkInv s' := by
  have hidle : ∀ {p : Pc}, s.pc t = p → p.inCS = false → ∀ q : Pc, q.inCS = false →
      (s.setPc t q).lock = s.lock ∧ ((s.setPc t q).pc t).inCS = (s.pc t).inCS := by
    intro p hp hpf q hq; rw [hp]; simp [hpf, hq]
  cases htr with
  | pdt k hc hd hm hh => exact lk_frame (t := t) h (fun u _ => rfl) (Or.inl ⟨rfl, rfl⟩)
  | callNew op k hp hg hn hf =>
    exact lk_frame h (fun u hu => setPc_pc_other _ t u _ hu) (Or.inl (by simp [hp, Pc.inCS]))
  | call op hp hg hn => exact lk_frame h (fun u hu => setPc_pc_other _ t u _ hu) (Or.inl (by simp [hp, Pc.inCS]))
  | rel k hp hh => exact lk_frame (t := t) h (fun u _ => rfl) (Or.inl ⟨rfl, rfl⟩)
  | lin op hp hl hg =>
    exact lk_frame h (fun u hu => setPc_pc_other _ t u _ hu) (Or.inr (Or.inl ⟨hl, rfl, by simp [Pc.inCS]⟩))
  | pcl op res k pend hp => exact lk_frame h (fun u hu => setPc_pc_other _ t u _ hu) (Or.inl (by simp [hp, Pc.inCS]))
  | uth op hp => exact lk_frame h (fun u hu => setPc_pc_other _ t u _ hu) (Or.inl (by simp [hp, Pc.inCS]))
  | mulCs op res hp hr hl =>
    exact lk_frame h (fun u hu => setPc_pc_other _ t u _ hu) (Or.inr (Or.inr ⟨hl, rfl, by simp [Pc.inCS]⟩))
  | mulThrown op hp hl =>
    exact lk_frame h (fun u hu => setPc_pc_other _ t u _ hu) (Or.inr (Or.inr ⟨hl, rfl, by simp [Pc.inCS]⟩))
  | ret op res hp hr => exact lk_frame h (fun u hu => setPc_pc_other _ t u _ hu) (Or.inl (by simp [hp, Pc.inCS]))
  | exc op hp => exact lk_frame h (fun u hu => setPc_pc_other _ t u _ hu) (Or.inl (by simp [hp, Pc.inCS]))
  | callD hp hg hd => exact lk_frame h (fun u hu => setPc_pc_other _ t u _ hu) (Or.inl (by simp [hp, Pc.inCS]))
  | dLock hp hl =>
    exact lk_frame h (fun u hu => setPc_pc_other _ t u _ hu) (Or.inr (Or.inl ⟨hl, rfl, by simp [Pc.inCS]⟩))
  | dFinal c hp hl hc =>
    exact lk_frame h (fun u hu => setPc_pc_other _ t u _ hu) (Or.inr (Or.inr ⟨hl, rfl, by simp [Pc.inCS]⟩))
  | dRetry c hp hl hc =>
    exact lk_frame h (fun u hu => setPc_pc_other _ t u _ hu) (Or.inr (Or.inr ⟨hl, rfl, by simp [Pc.inCS]⟩))
  | dYld c hp hc => exact lk_frame h (fun u hu => setPc_pc_other _ t u _ hu) (Or.inl (by simp [hp, Pc.inCS]))
  | dSlp c hp hc => exact lk_frame h (fun u hu => setPc_pc_other _ t u _ hu) (Or.inl (by simp [hp, Pc.inCS]))
  | dRelock c hp hl =>
    exact lk_frame h (fun u hu => setPc_pc_other _ t u _ hu) (Or.inr (Or.inl ⟨hl, rfl, by simp [Pc.inCS]⟩))
  | retD hp => exact lk_frame h (fun u hu => setPc_pc_other _ t u _ hu) (Or.inl (by simp [hp, Pc.inCS]))
  | mac hl => exact h

/-! ### linearizability -/

/-- replay a history through the sequential specification; `none` if a recorded result differs -/
def replay (m : Maps) : List HEntry → Option Maps
  | [] => some m
  | e :: es => if (apply m e.op).2 = e.res then replay (apply m e.op).1 es else none

theorem replay_append (m : Maps) (a b : List HEntry) :
    replay m (a ++ b) = (replay m a).bind (fun m' => replay m' b) := by
  induction a generalizing m with
  | nil => simp [replay]
  | cons e es ih =>
    simp only [List.cons_append, replay]
    split
    · exact ih _
    · simp

/-- the last history entry of thread `t` -/
def lastOf (t : Tid) : List HEntry → Option HEntry
  | [] => none
  | e :: es =>
      match lastOf t es with
      | some x => some x
      | none => if e.t = t then some e else none

theorem lastOf_snoc (t : Tid) (h : List HEntry) (e : HEntry) :
    lastOf t (h ++ [e]) = if e.t = t then some e else lastOf t h := by
  induction h with
  | nil => simp [lastOf]
  | cons a r ih =>
    simp only [List.cons_append, lastOf, ih]
    by_cases he : e.t = t
    · simp [he]
    · simp [he]

theorem lastOf_mem {t : Tid} {h : List HEntry} {e : HEntry} (hl : lastOf t h = some e) : e ∈ h ∧ e.t = t := by
  induction h with
  | nil => simp [lastOf] at hl
  | cons a r ih =>
    simp only [lastOf] at hl
    split at hl
    · rename_i x hx
      injection hl with hl; subst hl
      exact ⟨List.mem_cons_of_mem _ (ih hx).1, (ih hx).2⟩
    · split at hl
      · rename_i hat; injection hl with hl; subst hl; exact ⟨by simp, hat⟩
      · contradiction

/-- the call a thread is executing and the result the specification gave it -/
def Pc.cur : Pc → Option (Op × Res)
  | .cs op res _ => some (op, res)
  | .thrown op => some (op, .threw)
  | .unlocked op res => some (op, res)
  | _ => none

structure HInv (s : St) : Prop where
  wf : WF s.maps
  rep : s.gone = false → replay Maps.empty s.hist = some s.maps
  goneEmpty : s.gone = true → s.maps = Maps.empty
  mine : ∀ u op res, (s.pc u).cur = some (op, res) → lastOf u s.hist = some ⟨u, op, res⟩

theorem hinv_init : HInv init := by
  refine ⟨⟨sorted_nil, sorted_nil⟩, fun _ => rfl, fun h => by simp [init] at h, ?_⟩
  intro u op res h; simp [init, Pc.cur] at h

theorem hinv_frame {s s' : St} {t : Tid} (h : HInv s) (hm : s'.maps = s.maps) (hh : s'.hist = s.hist)
    (hg : s'.gone = s.gone) (hpc : ∀ u, u ≠ t → s'.pc u = s.pc u)
    (hcur : (s'.pc t).cur = none ∨ (s'.pc t).cur = (s.pc t).cur) : HInv s' := by
  obtain ⟨h1, h2, h3, h4⟩ := h
  refine ⟨by rw [hm]; exact h1, by rw [hg, hh, hm]; exact h2, by rw [hg, hm]; exact h3, ?_⟩
  intro u op res hu
  rw [hh]
  by_cases hut : u = t
  · subst hut
    rcases hcur with hc | hc
    · rw [hc] at hu; simp at hu
    · rw [hc] at hu; exact h4 u op res hu
  · rw [hpc u hut] at hu; exact h4 u op res hu

theorem hinv_tr {s s' : St} {t : Tid} {e : Ev} (h : HInv s) (htr : Tr s t e s') : HInv s' := by
  cases htr with
  | pdt k hc hd hm hh => exact hinv_frame (t := t) h rfl rfl rfl (fun u _ => rfl) (Or.inr rfl)
  | callNew op k hp hg hn hf =>
    exact hinv_frame h rfl rfl rfl (fun u hu => setPc_pc_other _ t u _ hu) (Or.inl (by simp [Pc.cur]))
  | call op hp hg hn =>
    exact hinv_frame h rfl rfl rfl (fun u hu => setPc_pc_other _ t u _ hu) (Or.inl (by simp [Pc.cur]))
  | rel k hp hh => exact hinv_frame (t := t) h rfl rfl rfl (fun u _ => rfl) (Or.inr rfl)
  | lin op hp hl hg =>
    obtain ⟨h1, h2, h3, h4⟩ := h
    refine ⟨apply_wf h1 op, ?_, ?_, ?_⟩
    · intro _
      show replay Maps.empty (s.hist ++ [HEntry.mk t op (apply s.maps op).2]) = some (apply s.maps op).1
      rw [replay_append, h2 hg]
      simp [replay]
    · intro hgone
      have : s.gone = true := hgone
      rw [hg] at this; contradiction
    · intro u op' res' hu
      show lastOf u (s.hist ++ [HEntry.mk t op (apply s.maps op).2]) = _
      rw [lastOf_snoc]
      by_cases hut : u = t
      · subst hut
        simp [Pc.cur] at hu
        obtain ⟨ho, hr⟩ := hu
        subst ho; subst hr
        simp
      · rw [setPc_pc_other _ t u _ hut] at hu
        have hne : ¬ (HEntry.mk t op (apply s.maps op).2).t = u := fun hh => hut hh.symm
        simp only [hne, if_false]
        exact h4 u op' res' hu
  | pcl op res k pend hp =>
    exact hinv_frame h rfl rfl rfl (fun u hu => setPc_pc_other _ t u _ hu) (Or.inr (by simp [hp, Pc.cur]))
  | uth op hp =>
    exact hinv_frame h rfl rfl rfl (fun u hu => setPc_pc_other _ t u _ hu) (Or.inr (by simp [hp, Pc.cur]))
  | mulCs op res hp hr hl =>
    exact hinv_frame h rfl rfl rfl (fun u hu => setPc_pc_other _ t u _ hu) (Or.inr (by simp [hp, Pc.cur]))
  | mulThrown op hp hl =>
    exact hinv_frame h rfl rfl rfl (fun u hu => setPc_pc_other _ t u _ hu) (Or.inr (by simp [hp, Pc.cur]))
  | ret op res hp hr =>
    exact hinv_frame h rfl rfl rfl (fun u hu => setPc_pc_other _ t u _ hu) (Or.inl (by simp [Pc.cur]))
  | exc op hp =>
    exact hinv_frame h rfl rfl rfl (fun u hu => setPc_pc_other _ t u _ hu) (Or.inl (by simp [Pc.cur]))
  | callD hp hg hd =>
    exact hinv_frame h rfl rfl rfl (fun u hu => setPc_pc_other _ t u _ hu) (Or.inl (by simp [Pc.cur]))
  | dLock hp hl =>
    exact hinv_frame h rfl rfl rfl (fun u hu => setPc_pc_other _ t u _ hu) (Or.inl (by simp [Pc.cur]))
  | dFinal c hp hl hc =>
    obtain ⟨h1, h2, h3, h4⟩ := h
    refine ⟨⟨sorted_nil, sorted_nil⟩, fun hh => by simp [St.setPc] at hh, fun _ => rfl, ?_⟩
    intro u op res hu
    by_cases hut : u = t
    · subst hut; simp [Pc.cur] at hu
    · rw [setPc_pc_other _ t u _ hut] at hu; exact h4 u op res hu
  | dRetry c hp hl hc =>
    exact hinv_frame h rfl rfl rfl (fun u hu => setPc_pc_other _ t u _ hu) (Or.inl (by simp [Pc.cur]))
  | dYld c hp hc =>
    exact hinv_frame h rfl rfl rfl (fun u hu => setPc_pc_other _ t u _ hu) (Or.inl (by simp [Pc.cur]))
  | dSlp c hp hc =>
    exact hinv_frame h rfl rfl rfl (fun u hu => setPc_pc_other _ t u _ hu) (Or.inl (by simp [Pc.cur]))
  | dRelock c hp hl =>
    exact hinv_frame h rfl rfl rfl (fun u hu => setPc_pc_other _ t u _ hu) (Or.inl (by simp [Pc.cur]))
  | retD hp =>
    exact hinv_frame h rfl rfl rfl (fun u hu => setPc_pc_other _ t u _ hu) (Or.inl (by simp [Pc.cur]))
  | mac hl => exact h

/-! ### the reference ledger -/

structure AInv (s : St) : Prop where
  heldCreated : ∀ h ∈ s.held, h.2 ∈ s.created
  mapCreated : ∀ x ∈ s.maps.objs, x.2 ∈ s.created
  deadCreated : ∀ k ∈ s.dead, k ∈ s.created
  heldAlive : ∀ h ∈ s.held, h.2 ∉ s.dead
  mapAlive : ∀ x ∈ s.maps.objs, x.2 ∉ s.dead
  argHeld : ∀ u op k, s.pc u = .called op → op.newId = some k → (u, k) ∈ s.held
  resHeld : ∀ u op res, (s.pc u).cur = some (op, res) → ∀ k ∈ res.ids, (u, k) ∈ s.held

theorem ainv_init : AInv init := by
  refine ⟨?_, ?_, ?_, ?_, ?_, ?_, ?_⟩ <;> simp [init, Maps.empty, Pc.cur]

theorem ainv_frame {s s' : St} {t : Tid} (h : AInv s) (hm : s'.maps = s.maps) (hh : s'.held = s.held)
    (hc : s'.created = s.created) (hd : s'.dead = s.dead) (hpc : ∀ u, u ≠ t → s'.pc u = s.pc u)
    (hcalled : (∀ op, s'.pc t ≠ .called op) ∨ s'.pc t = s.pc t)
    (hcur : (s'.pc t).cur = none ∨ (s'.pc t).cur = (s.pc t).cur) : AInv s' := by
  obtain ⟨h1, h2, h3, h4, h5, h6, h7⟩ := h
  refine ⟨by rw [hh, hc]; exact h1, by rw [hm, hc]; exact h2, by rw [hd, hc]; exact h3, by rw [hh, hd]; exact h4,
    by rw [hm, hd]; exact h5, ?_, ?_⟩
  · intro u op k hu hn
    rw [hh]
    by_cases hut : u = t
    · subst hut
      rcases hcalled with hcl | hcl
      · exact absurd hu (hcl op)
      · rw [hcl] at hu; exact h6 u op k hu hn
    · rw [hpc u hut] at hu; exact h6 u op k hu hn
  · intro u op res hu k hk
    rw [hh]
    by_cases hut : u = t
    · subst hut
      rcases hcur with hc' | hc'
      · rw [hc'] at hu; simp at hu
      · rw [hc'] at hu; exact h7 u op res hu k hk
    · rw [hpc u hut] at hu; exact h7 u op res hu k hk

theorem mem_heldAfter {t : Tid} {op : Op} {r : Res} {held : List (Tid × ObjId)} {x : Tid × ObjId}
    (h : x ∈ heldAfter t op r held) : (x.1 = t ∧ x.2 ∈ r.ids) ∨ x ∈ held := by
  simp only [heldAfter, List.mem_append, List.mem_map] at h
  rcases h with ⟨k, hk, hx⟩ | h
  · subst hx; exact Or.inl ⟨rfl, hk⟩
  · split at h
    · exact Or.inr (List.mem_of_mem_erase h)
    · exact Or.inr h

theorem mem_heldAfter_other {t u : Tid} {op : Op} {r : Res} {held : List (Tid × ObjId)} {k : ObjId}
    (hu : u ≠ t) (h : (u, k) ∈ held) : (u, k) ∈ heldAfter t op r held := by
  simp only [heldAfter, List.mem_append]
  right
  split
  · rename_i j _
    have : (u, k) ≠ (t, j) := fun hh => hu (by injection hh)
    exact (List.mem_erase_of_ne this).mpr h
  · exact h

theorem mem_heldAfter_res {t : Tid} {op : Op} {r : Res} {held : List (Tid × ObjId)} {k : ObjId}
    (h : k ∈ r.ids) : (t, k) ∈ heldAfter t op r held := by
  simp only [heldAfter, List.mem_append, List.mem_map]
  exact Or.inl ⟨k, h, rfl⟩

theorem ainv_tr {s s' : St} {t : Tid} {e : Ev} (h : AInv s) (htr : Tr s t e s') : AInv s' := by
  cases htr with
  | pdt k hc hd hm hh =>
    obtain ⟨h1, h2, h3, h4, h5, h6, h7⟩ := h
    refine ⟨h1, h2, ?_, ?_, ?_, h6, h7⟩
    · intro j hj
      rcases List.mem_cons.mp hj with hj | hj
      · subst hj; exact hc
      · exact h3 j hj
    · intro x hx hdead
      rcases List.mem_cons.mp hdead with hk | hk
      · exact hh x hx hk
      · exact h4 x hx hk
    · intro x hx hdead
      rcases List.mem_cons.mp hdead with hk | hk
      · exact hm x hx hk
      · exact h5 x hx hk
  | callNew op k hp hg hn hf =>
    obtain ⟨h1, h2, h3, h4, h5, h6, h7⟩ := h
    refine ⟨?_, ?_, ?_, ?_, h5, ?_, ?_⟩
    · intro x hx
      rcases List.mem_cons.mp hx with hx | hx
      · subst hx; exact List.mem_cons_self
      · exact List.mem_cons_of_mem _ (h1 x hx)
    · intro x hx; exact List.mem_cons_of_mem _ (h2 x hx)
    · intro j hj; exact List.mem_cons_of_mem _ (h3 j hj)
    · intro x hx hdead
      rcases List.mem_cons.mp hx with hx | hx
      · subst hx; exact hf (h3 _ hdead)
      · exact h4 x hx hdead
    · intro u op' k' hu hn'
      by_cases hut : u = t
      · subst hut
        simp at hu; subst hu
        rw [hn] at hn'; injection hn' with hn'; subst hn'
        exact List.mem_cons_self
      · rw [setPc_pc_other _ t u _ hut] at hu
        exact List.mem_cons_of_mem _ (h6 u op' k' hu hn')
    · intro u op' res hu k' hk'
      by_cases hut : u = t
      · subst hut; simp [Pc.cur] at hu
      · rw [setPc_pc_other _ t u _ hut] at hu
        exact List.mem_cons_of_mem _ (h7 u op' res hu k' hk')
  | call op hp hg hn =>
    obtain ⟨h1, h2, h3, h4, h5, h6, h7⟩ := h
    refine ⟨h1, h2, h3, h4, h5, ?_, ?_⟩
    · intro u op' k' hu hn'
      by_cases hut : u = t
      · subst hut
        simp at hu; subst hu
        rw [hn] at hn'; contradiction
      · rw [setPc_pc_other _ t u _ hut] at hu; exact h6 u op' k' hu hn'
    · intro u op' res hu k' hk'
      by_cases hut : u = t
      · subst hut; simp [Pc.cur] at hu
      · rw [setPc_pc_other _ t u _ hut] at hu; exact h7 u op' res hu k' hk'
  | rel k hp hh =>
    obtain ⟨h1, h2, h3, h4, h5, h6, h7⟩ := h
    refine ⟨fun x hx => h1 x (List.mem_of_mem_erase hx), h2, h3, fun x hx => h4 x (List.mem_of_mem_erase hx), h5, ?_, ?_⟩
    · intro u op' k' hu hn'
      have hut : u ≠ t := by
        intro hut; subst hut
        have : s.pc u = .called op' := hu
        rw [hp] at this; contradiction
      have : (u, k') ≠ (t, k) := fun hh => hut (by injection hh)
      exact (List.mem_erase_of_ne this).mpr (h6 u op' k' hu hn')
    · intro u op' res hu k' hk'
      have hut : u ≠ t := by
        intro hut; subst hut
        have : (s.pc u).cur = some (op', res) := hu
        rw [hp] at this; simp [Pc.cur] at this
      have : (u, k') ≠ (t, k) := fun hh => hut (by injection hh)
      exact (List.mem_erase_of_ne this).mpr (h7 u op' res hu k' hk')
  | lin op hp hl hg =>
    obtain ⟨h1, h2, h3, h4, h5, h6, h7⟩ := h
    have hnew : ∀ x ∈ (apply s.maps op).1.objs, x.2 ∈ s.created ∧ x.2 ∉ s.dead := by
      intro x hx
      rcases apply_objs_ids hx with ⟨y, hy, hyx⟩ | hn
      · rw [← hyx]; exact ⟨h2 y hy, h5 y hy⟩
      · have := h6 t op x.2 hp hn
        exact ⟨h1 (t, x.2) this, h4 (t, x.2) this⟩
    have hheld : ∀ x ∈ heldAfter t op (apply s.maps op).2 s.held, x.2 ∈ s.created ∧ x.2 ∉ s.dead := by
      intro x hx
      rcases mem_heldAfter hx with ⟨_, hx⟩ | hx
      · obtain ⟨y, hy, hyx⟩ := apply_res_ids hx
        rw [← hyx]; exact ⟨h2 y hy, h5 y hy⟩
      · exact ⟨h1 x hx, h4 x hx⟩
    refine ⟨fun x hx => (hheld x hx).1, fun x hx => (hnew x hx).1, h3, fun x hx => (hheld x hx).2,
      fun x hx => (hnew x hx).2, ?_, ?_⟩
    · intro u op' k' hu hn'
      have hut : u ≠ t := by
        intro hut; subst hut; simp at hu
      rw [setPc_pc_other _ t u _ hut] at hu
      exact mem_heldAfter_other hut (h6 u op' k' hu hn')
    · intro u op' res hu k' hk'
      by_cases hut : u = t
      · subst hut
        simp [Pc.cur] at hu
        obtain ⟨ho, hr⟩ := hu
        subst ho; subst hr
        exact mem_heldAfter_res hk'
      · rw [setPc_pc_other _ t u _ hut] at hu
        exact mem_heldAfter_other hut (h7 u op' res hu k' hk')
  | pcl op res k pend hp =>
    exact ainv_frame h rfl rfl rfl rfl (fun u hu => setPc_pc_other _ t u _ hu) (Or.inl (by simp)) (Or.inr (by simp [hp, Pc.cur]))
  | uth op hp => exact ainv_frame h rfl rfl rfl rfl (fun u hu => setPc_pc_other _ t u _ hu) (Or.inl (by simp)) (Or.inr (by simp [hp, Pc.cur]))
  | mulCs op res hp hr hl =>
    exact ainv_frame h rfl rfl rfl rfl (fun u hu => setPc_pc_other _ t u _ hu) (Or.inl (by simp)) (Or.inr (by simp [hp, Pc.cur]))
  | mulThrown op hp hl =>
    exact ainv_frame h rfl rfl rfl rfl (fun u hu => setPc_pc_other _ t u _ hu) (Or.inl (by simp)) (Or.inr (by simp [hp, Pc.cur]))
  | ret op res hp hr =>
    exact ainv_frame h rfl rfl rfl rfl (fun u hu => setPc_pc_other _ t u _ hu) (Or.inl (by simp)) (Or.inl (by simp [Pc.cur]))
  | exc op hp => exact ainv_frame h rfl rfl rfl rfl (fun u hu => setPc_pc_other _ t u _ hu) (Or.inl (by simp)) (Or.inl (by simp [Pc.cur]))
  | callD hp hg hd =>
    exact ainv_frame h rfl rfl rfl rfl (fun u hu => setPc_pc_other _ t u _ hu) (Or.inl (by simp)) (Or.inl (by simp [Pc.cur]))
  | dLock hp hl => exact ainv_frame h rfl rfl rfl rfl (fun u hu => setPc_pc_other _ t u _ hu) (Or.inl (by simp)) (Or.inl (by simp [Pc.cur]))
  | dFinal c hp hl hc =>
    obtain ⟨h1, h2, h3, h4, h5, h6, h7⟩ := h
    refine ⟨h1, by simp [Maps.empty], h3, h4, by simp [Maps.empty], ?_, ?_⟩
    · intro u op' k' hu hn'
      have hut : u ≠ t := by
        intro hut; subst hut; simp at hu
      rw [setPc_pc_other _ t u _ hut] at hu
      exact h6 u op' k' hu hn'
    · intro u op' res hu k' hk'
      have hut : u ≠ t := by
        intro hut; subst hut; simp [Pc.cur] at hu
      rw [setPc_pc_other _ t u _ hut] at hu
      exact h7 u op' res hu k' hk'
  | dRetry c hp hl hc =>
    exact ainv_frame h rfl rfl rfl rfl (fun u hu => setPc_pc_other _ t u _ hu) (Or.inl (by simp)) (Or.inl (by simp [Pc.cur]))
  | dYld c hp hc => exact ainv_frame h rfl rfl rfl rfl (fun u hu => setPc_pc_other _ t u _ hu) (Or.inl (by simp)) (Or.inl (by simp [Pc.cur]))
  | dSlp c hp hc => exact ainv_frame h rfl rfl rfl rfl (fun u hu => setPc_pc_other _ t u _ hu) (Or.inl (by simp)) (Or.inl (by simp [Pc.cur]))
  | dRelock c hp hl =>
    exact ainv_frame h rfl rfl rfl rfl (fun u hu => setPc_pc_other _ t u _ hu) (Or.inl (by simp)) (Or.inl (by simp [Pc.cur]))
  | retD hp => exact ainv_frame h rfl rfl rfl rfl (fun u hu => setPc_pc_other _ t u _ hu) (Or.inl (by simp)) (Or.inl (by simp [Pc.cur]))
  | mac hl => exact h

/-! ### the destructor's teardown state -/

/-- a thread past the destructor's final release: the holder is gone -/
def DInv (s : St) : Prop := ∀ u, s.pc u = .dDone → s.gone = true

theorem dinv_init : DInv init := by intro u h; simp [init] at h

theorem dinv_tr {s s' : St} {t : Tid} {e : Ev} (h : DInv s) (htr : Tr s t e s') : DInv s' := by
  have other : ∀ (p : Pc) (s1 : St), s1.gone = s.gone → s1.pc = s.pc → p ≠ .dDone → DInv (s1.setPc t p) := by
    intro p s1 hg hpc hp u hu
    by_cases hut : u = t
    · subst hut; simp at hu; exact absurd hu hp
    · rw [setPc_pc_other _ t u _ hut, hpc] at hu
      show s1.gone = true
      rw [hg]; exact h u hu
  cases htr with
  | pdt k hc hd hm hh => exact h
  | rel k hp hh => exact h
  | mac hl => exact h
  | dFinal c hp hl hc => intro u _; rfl
  | callNew op k hp hg hn hf => exact other _ _ rfl rfl (by simp)
  | call op hp hg hn => exact other _ _ rfl rfl (by simp)
  | lin op hp hl hg => exact other _ _ rfl rfl (by simp)
  | pcl op res k pend hp => exact other _ _ rfl rfl (by simp)
  | uth op hp => exact other _ _ rfl rfl (by simp)
  | mulCs op res hp hr hl => exact other _ _ rfl rfl (by simp)
  | mulThrown op hp hl => exact other _ _ rfl rfl (by simp)
  | ret op res hp hr => exact other _ _ rfl rfl (by simp)
  | exc op hp => exact other _ _ rfl rfl (by simp)
  | callD hp hg hd => exact other _ _ rfl rfl (by simp)
  | dLock hp hl => exact other _ _ rfl rfl (by simp)
  | dRetry c hp hl hc => exact other _ _ rfl rfl (by simp)
  | dYld c hp hc => exact other _ _ rfl rfl (by simp)
  | dSlp c hp hc => exact other _ _ rfl rfl (by simp)
  | dRelock c hp hl => exact other _ _ rfl rfl (by simp)
  | retD hp => exact other _ _ rfl rfl (by simp)

/-! ### all together, for every reachable state -/

structure Inv (s : St) : Prop where
  lk : LkInv s
  h : HInv s
  a : AInv s
  d : DInv s

theorem inv_init : Inv init := ⟨lk_init, hinv_init, ainv_init, dinv_init⟩

theorem inv_step (s : St) (t : Tid) (e : Ev) (s' : St) (hi : Inv s) (hs : step s t e = some s') : Inv s' :=
  have htr := step_tr hs
  ⟨lk_tr hi.lk htr, hinv_tr hi.h htr, ainv_tr hi.a htr, dinv_tr hi.d htr⟩

theorem inv_reachable {s : St} (h : Reachable s) : Inv s := by
  obtain ⟨es, hes⟩ := h
  exact runFrom_inv inv_step inv_init hes

theorem reachable_step {s s' : St} {t : Tid} {e : Ev} (h : Reachable s) (hs : step s t e = some s') : Reachable s' := by
  obtain ⟨es, hes⟩ := h
  refine ⟨es ++ [(t, e)], ?_⟩
  simp only [run] at hes ⊢
  rw [runFrom_append, hes]
  simp [runFrom_cons, hs]

end ConcVerif.SOH
