import ConcVerif.Proof.DDDying
import ConcVerif.Proof.DDHold
import ConcVerif.Proof.DDAux
/-! The invariant `DyP` and the combined progress invariant of the DelayedDestructor model. -/
namespace ConcVerif.DD

structure DyP (s : St) : Prop where
  pend : ∀ t k r, s.stk t = .dying k :: r → k ∈ s.pend
  uniq : ∀ t u k r1 r2, s.stk t = .dying k :: r1 → s.stk u = .dying k :: r2 → t = u

theorem dyP_init (cb ns nt) : DyP (init cb ns nt) :=
  ⟨fun t k r h => by simp [init] at h, fun t u k r1 r2 h => by simp [init] at h⟩

theorem pdt_pend {s s' : St} {t : Tid} {k : ObjId} (h : step s t (.pdt k) = some s') : s'.pend = s.pend.erase k := by
  cases hfs : s.stk t with
  | nil => simp [step, hfs, stepUser] at h
  | cons f rest =>
    cases f <;> simp [step, hfs, stepUser] at h
    obtain ⟨⟨rfl, _⟩, rfl⟩ := h
    rfl

theorem dyP_step {s s' : St} {t : Tid} {e : Ev} (hI : Inv s) (hS : Shape s) (hD : DyP s)
    (h : step s t e = some s') : DyP s' := by
  by_cases hp : ∃ k0, e = .pdt k0
  · obtain ⟨k0, rfl⟩ := hp
    obtain ⟨rest, hst, _, _, hst'⟩ := pdt_inv h
    have hpe := pdt_pend h
    constructor
    · intro u k r hu
      by_cases hut : u = t
      · subst hut; rw [hst'] at hu; cases hu
      · rw [step_stk_other h hut] at hu
        have hk := hD.pend u k r hu
        have hne : k ≠ k0 := by
          intro hkk; subst hkk
          exact hut (hD.uniq u t k r rest hu hst)
        rw [hpe]; exact (List.mem_erase_of_ne hne).mpr hk
    · intro u v k r1 r2 hu hv
      have hu' : u ≠ t := by intro hut; subst hut; rw [hst'] at hu; cases hu
      have hv' : v ≠ t := by intro hvt; subst hvt; rw [hst'] at hv; cases hv
      rw [step_stk_other h hu'] at hu
      rw [step_stk_other h hv'] at hv
      exact hD.uniq u v k r1 r2 hu hv
  · have hne : ∀ k, e ≠ .pdt k := fun k hk => hp ⟨k, hk⟩
    have hP := step_push h hne (hS t)
    have hnd : s'.pend.Nodup := (List.nodup_append.mp (inv_step hI h).life.nodup).1
    have hold : ∀ u k r, u ≠ t → s'.stk u = .dying k :: r → k ∈ s.pend := by
      intro u k r hut hu
      rw [step_stk_other h hut] at hu
      exact hD.pend u k r hu
    have hfresh : ∀ k r, s'.stk t = .dying k :: r → k ∉ s.pend := by
      intro k r hr hk
      have := hP.top k r hr
      rw [this] at hnd
      exact (List.nodup_cons.mp hnd).1 hk
    constructor
    · intro u k r hu
      by_cases hut : u = t
      · subst hut; rw [hP.top k r hu]; simp
      · exact hP.mono k (hold u k r hut hu)
    · intro u v k r1 r2 hu hv
      by_cases hut : u = t
      · by_cases hvt : v = t
        · rw [hut, hvt]
        · subst hut; exact absurd (hold v k r2 hvt hv) (hfresh k r1 hu)
      · by_cases hvt : v = t
        · subst hvt; exact absurd (hold u k r1 hut hu) (hfresh k r2 hv)
        · rw [step_stk_other h hut] at hu
          rw [step_stk_other h hvt] at hv
          exact hD.uniq u v k r1 r2 hu hv

/-- everything the progress theorem needs, for every reachable state -/
structure ProgInv (s : St) : Prop where
  inv : Inv s
  shape : Shape s
  holdsL : HoldsL s
  dyP : DyP s

theorem progInv_reachable {cb ns nt} {s : St} (h : Reachable cb ns nt s) : ProgInv s := by
  obtain ⟨es, hr⟩ := h
  exact runFrom_inv (Inv := ProgInv)
    (fun _ _ _ _ hi hs => ⟨inv_step hi.inv hs, shape_step hi.shape hs, holdsL_step hi.shape hi.holdsL hs,
      dyP_step hi.inv hi.shape hi.dyP hs⟩)
    ⟨inv_init cb ns nt, shape_init cb ns nt, holdsL_init cb ns nt, dyP_init cb ns nt⟩ hr

end ConcVerif.DD
