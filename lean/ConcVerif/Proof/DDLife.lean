import ConcVerif.Proof.DDOwn
import ConcVerif.Proof.DDWf
/-! Life-cycle invariant of the DelayedDestructor model: an object's reference ledger is zero exactly when it was never
created, or is pending destruction, or has been destroyed; pending and destroyed objects are listed once. -/
namespace ConcVerif.DD

structure LifeP (r : ObjId → Nat) (c p d : List ObjId) : Prop where
  zero : ∀ k, r k = 0 ↔ (k ∉ c ∨ k ∈ p ∨ k ∈ d)
  made : ∀ k, k ∈ p ∨ k ∈ d → k ∈ c
  nodup : (p ++ d).Nodup

theorem lifeP_congr {r r' : ObjId → Nat} {c p d} (h : LifeP r c p d) (hr : ∀ k, r' k = r k) : LifeP r' c p d :=
  ⟨fun k => by rw [hr k]; exact h.zero k, h.made, h.nodup⟩

/-- a fresh object gets its first reference -/
theorem lifeP_new {r r' : ObjId → Nat} {c p d} (h : LifeP r c p d) (k : ObjId) (hk : k ∉ c)
    (hrk : r' k > 0) (hr : ∀ j, j ≠ k → r' j = r j) : LifeP r' (k :: c) p d := by
  have hnp : ¬ (k ∈ p ∨ k ∈ d) := fun hh => hk (h.made k hh)
  refine ⟨fun j => ?_, fun j hj => List.mem_cons_of_mem _ (h.made j hj), h.nodup⟩
  by_cases hj : j = k
  · subst hj
    constructor
    · intro h0; omega
    · intro hh; rcases hh with hh | hh
      · exact absurd (List.mem_cons_self) hh
      · exact absurd hh hnp
  · rw [hr j hj, h.zero j]
    simp [hj]

/-- one more reference to an object that has some -/
theorem lifeP_inc {r r' : ObjId → Nat} {c p d} (h : LifeP r c p d) (k : ObjId) (hk : r k > 0)
    (hrk : r' k > 0) (hr : ∀ j, j ≠ k → r' j = r j) : LifeP r' c p d := by
  refine ⟨fun j => ?_, h.made, h.nodup⟩
  by_cases hj : j = k
  · subst hj
    have := h.zero j
    constructor
    · intro h0; omega
    · intro hh; have := this.mpr hh; omega
  · rw [hr j hj]; exact h.zero j

/-- a reference goes away and others remain -/
theorem lifeP_rel_pos {r r' : ObjId → Nat} {c p d} (h : LifeP r c p d) (k : ObjId) (hk : r k > 0)
    (hrk : r' k ≠ 0) (hr : ∀ j, j ≠ k → r' j = r j) : LifeP r' c p d :=
  lifeP_inc h k hk (Nat.pos_of_ne_zero hrk) hr

/-- the last reference goes away: the object becomes pending -/
theorem lifeP_rel_zero {r r' : ObjId → Nat} {c p d} (h : LifeP r c p d) (k : ObjId) (hk : r k > 0)
    (hrk : r' k = 0) (hr : ∀ j, j ≠ k → r' j = r j) : LifeP r' c (k :: p) d := by
  have hz := h.zero k
  have hkc : k ∈ c := by
    apply Classical.byContradiction; intro hn; have := hz.mpr (Or.inl hn); omega
  have hnp : ¬ (k ∈ p ∨ k ∈ d) := fun hh => by have := hz.mpr (Or.inr hh); omega
  refine ⟨fun j => ?_, fun j hj => ?_, ?_⟩
  · by_cases hj : j = k
    · subst hj; simp [hrk]
    · rw [hr j hj, h.zero j]; simp [hj]
  · rcases hj with hj | hj
    · cases hj with
      | head => exact hkc
      | tail _ hj => exact h.made j (Or.inl hj)
    · exact h.made j (Or.inr hj)
  · simp only [List.cons_append, List.nodup_cons]
    refine ⟨fun hm => hnp (List.mem_append.mp hm), h.nodup⟩

/-- a pending object's destructor starts -/
theorem lifeP_pdt {r : ObjId → Nat} {c p d} (h : LifeP r c p d) (k : ObjId) (hk : k ∈ p) :
    LifeP r c (p.erase k) (k :: d) := by
  have hnd := h.nodup
  have hp : p.Nodup := (List.nodup_append.mp hnd).1
  have hmem : ∀ j, (j ∈ p.erase k ∨ j ∈ k :: d) ↔ (j ∈ p ∨ j ∈ d) := by
    intro j
    rw [hp.mem_erase_iff]
    by_cases hj : j = k
    · subst hj; simp [hk]
    · simp [hj]
  refine ⟨fun j => ?_, fun j hj => h.made j ((hmem j).mp hj), ?_⟩
  · rw [h.zero j]
    constructor
    · intro hh; rcases hh with hh | hh
      · exact Or.inl hh
      · exact Or.inr ((hmem j).mpr hh)
    · intro hh; rcases hh with hh | hh
      · exact Or.inl hh
      · exact Or.inr ((hmem j).mp hh)
  · have hperm : (p.erase k ++ k :: d).Perm (p ++ d) := by
      have h1 : (k :: p.erase k).Perm p := (List.perm_cons_erase hk).symm
      have h2 : (p.erase k ++ k :: d).Perm (k :: p.erase k ++ d) := by
        simpa using (List.perm_middle (a := k) (l₁ := p.erase k) (l₂ := d))
      exact h2.trans (List.Perm.append_right d h1)
    exact hperm.nodup_iff.mpr hnd

def Life (s : St) : Prop := LifeP (refs s) s.created s.pend s.destroyed

theorem life_vdrain {s : St} (t rest) (v : List ObjId) (hv : s.vec = v) (h : Life s) : Life (vdrain s t rest v) := by
  induction v generalizing s with
  | nil => exact lifeP_congr h (fun k => by simp [refs, hv, vdrain])
  | cons a v ih =>
    have hr : ∀ j, refs { s with vec := v, vrel := a :: s.vrel } j = refs s j - (if j = a then 1 else 0) := by
      intro j; simp only [refs, hv, List.count_cons]
      by_cases hj : j = a
      · subst hj; simp; omega
      · have : ¬ (a == j) = true := by simpa using fun h => hj h.symm
        simp [hj, this]
    have hpos : refs s a > 0 := by simp only [refs, hv, List.count_cons_self]; omega
    simp only [vdrain]
    split
    · rename_i h0
      exact lifeP_rel_zero h a hpos h0 (fun j hj => (hr j).trans (by simp [hj]))
    · rename_i h0
      exact ih rfl (lifeP_rel_pos h a hpos h0 (fun j hj => (hr j).trans (by simp [hj])))

theorem life_xTop {s : St} (t ii rest) (h : Life s) : Life (xTop s t ii rest) := by
  unfold xTop; split <;> exact h

theorem life_xAfter {s : St} (t ii rest) (h : Life s) : Life (xAfter s t ii rest) := by
  unfold xAfter; repeat' split
  all_goals exact h

theorem life_dDone {s : St} (t r rest) (h : Life s) : Life (dDone s t r rest) := by
  unfold dDone; split
  · exact h
  · exact life_xAfter _ _ _ h
  · exact life_vdrain _ _ _ rfl h
  · exact h

theorem life_drain {s : St} (t sz cbs thrown rest) (ec : List ObjId) (h : Life s)
    (hhas : ∀ j, ec.count j ≤ s.ecs.count (t, j)) : Life (drain s t sz cbs thrown rest ec) := by
  induction ec generalizing s with
  | nil => simp only [drain]; split; exact life_dDone _ _ _ h; exact h
  | cons k ec ih =>
    have hk := hhas k
    rw [List.count_cons_self] at hk
    have hmem : (t, k) ∈ s.ecs := List.count_pos_iff.mp (by omega)
    have hr : ∀ j, refs { s with ecs := s.ecs.erase (t, k) } j = refs s j - (if j = k then 1 else 0) := by
      intro j
      have hc := count_map_snd_erase s.ecs t k j hmem
      have hp : (s.ecs.map Prod.snd).count k ≥ 1 :=
        List.count_pos_iff.mpr (List.mem_map.mpr ⟨(t, k), hmem, rfl⟩)
      simp only [refs]
      by_cases hj : j = k
      · subst hj; simp only [if_true] at hc ⊢; omega
      · simp only [hj, if_false] at hc ⊢; omega
    have hpos : refs s k > 0 := by
      have hp : (s.ecs.map Prod.snd).count k ≥ 1 :=
        List.count_pos_iff.mpr (List.mem_map.mpr ⟨(t, k), hmem, rfl⟩)
      simp only [refs]; omega
    simp only [drain]
    split
    · rename_i h0
      exact lifeP_rel_zero h k hpos h0 (fun j hj => (hr j).trans (by simp [hj]))
    · rename_i h0
      refine ih (lifeP_rel_pos h k hpos h0 (fun j hj => (hr j).trans (by simp [hj]))) ?_
      intro j
      have hj := hhas j
      by_cases hjk : j = k
      · subst hjk; show ec.count j ≤ (s.ecs.erase (t, j)).count (t, j)
        rw [List.count_erase_self]; omega
      · show ec.count j ≤ (s.ecs.erase (t, k)).count (t, j)
        rw [List.count_erase_of_ne (by intro h; injection h with _ h2; exact hjk h2)]
        rw [List.count_cons] at hj
        have : ¬ (k == j) = true := by simpa using fun h => hjk h.symm
        simp [this] at hj; exact hj

theorem life_resume {s : St} (t fs) (h : Life s) (hhas : ∀ j, (owned fs).count j ≤ s.ecs.count (t, j)) :
    Life (resume s t fs) := by
  unfold resume; split
  · refine life_drain _ _ _ _ _ _ h (fun j => ?_)
    have := hhas j; simp only [owned_cons, ecOf, List.count_append] at this; omega
  · exact life_vdrain _ _ _ rfl h
  · exact h

theorem refs_select (s : St) (t skip rest) (j : ObjId) : refs (select s t skip rest) j = refs s j := by
  unfold select; dsimp only; split
  · rfl
  · have h2 := count_split s.vec (fun k => selectable s k && !skip.contains k) j
    simp only [refs, setStk_ext, setStk_vec, setStk_ecs, List.map_append, List.map_map, List.count_append]
    have : (Prod.snd ∘ fun k => (t, k)) = (id : ObjId → ObjId) := rfl
    rw [this, List.map_id]
    omega

theorem life_select {s : St} (t skip rest) (h : Life s) : Life (select s t skip rest) := by
  have hc : (select s t skip rest).created = s.created := by unfold select; dsimp only; split <;> rfl
  have hp : (select s t skip rest).pend = s.pend := by unfold select; dsimp only; split <;> rfl
  have hd : (select s t skip rest).destroyed = s.destroyed := by unfold select; dsimp only; split <;> rfl
  unfold Life; rw [hc, hp, hd]
  exact lifeP_congr h (refs_select s t skip rest)

theorem life_add {s : St} (t : Tid) (k : ObjId) (l : Option Tid) (fs) (hk : s.ext k > 0) (h : Life s) :
    Life ({ s with lock := l, vec := s.vec ++ [k], added := k :: s.added,
                   ext := fun j => if j = k then s.ext k - 1 else s.ext j }.setStk t fs) := by
  refine lifeP_congr h (fun j => ?_)
  simp only [refs, setStk_ext, setStk_vec, setStk_ecs, List.count_append, List.count_cons, List.count_nil]
  by_cases hj : j = k
  · subst hj; simp; omega
  · have : ¬ (k == j) = true := by simpa using fun h => hj h.symm
    simp [hj, this]

theorem life_pdt {s : St} (t : Tid) (k : ObjId) (fs) (hk : k ∈ s.pend) (h : Life s) :
    Life ({ s with pend := s.pend.erase k, destroyed := k :: s.destroyed }.setStk t fs) :=
  lifeP_pdt h k hk

theorem life_new {s : St} (k : ObjId) (hk : k ∉ s.created) (h : Life s) :
    Life { s with ext := fun j => if j = k then 1 else s.ext j, created := k :: s.created } :=
  lifeP_new h k hk (by simp [refs]; omega) (fun j hj => by simp [refs, hj])

theorem life_incExt {s : St} (k : ObjId) (hk : refs s k > 0) (h : Life s) :
    Life { s with ext := fun j => if j = k then s.ext k + 1 else s.ext j } :=
  lifeP_inc h k hk (by simp [refs]; omega) (fun j hj => by simp [refs, hj])

theorem refs_decExt (s : St) (k j : ObjId) : refs (s.decExt k) j = if j = k then s.ext k - 1 + s.vec.count k + (s.ecs.map Prod.snd).count k else refs s j := by
  by_cases hj : j = k
  · subst hj; simp [refs, St.decExt]
  · simp [refs, St.decExt, hj]

theorem life_drop_zero {s : St} (t : Tid) (k : ObjId) (fs) (hk : s.ext k > 0) (h0 : refs (s.decExt k) k = 0)
    (h : Life s) : Life ({ s.decExt k with pend := k :: s.pend }.setStk t fs) :=
  lifeP_rel_zero h k (by simp only [refs]; omega) h0 (fun j hj => (refs_decExt s k j).trans (by simp [hj]))

theorem life_drop_pos {s : St} (k : ObjId) (hk : s.ext k > 0) (h0 : ¬ refs (s.decExt k) k = 0)
    (h : Life s) : Life (s.decExt k) :=
  lifeP_rel_pos h k (by simp only [refs]; omega) h0 (fun j hj => by rw [refs_decExt]; simp [hj])

theorem life_stepUser {s s' : St} {t : Tid} {fs e} (h : stepUser s t fs e = some s') (hI : Life s)
    (hcb : ∀ k, inCbOf k fs = true → refs s k > 0) : Life s' := by
  unfold stepUser at h
  split at h
  all_goals (try (repeat' (split at h)))
  all_goals (first | cases h | skip)
  all_goals (first
    | exact hI
    | exact life_xTop _ _ _ hI
    | (apply life_new <;> assumption)
    | (apply life_drop_zero <;> assumption)
    | (apply life_drop_pos <;> assumption)
    | (rename_i hk; exact life_incExt _ (by simp only [refs]; omega) hI)
    | (rename_i hk; apply life_incExt (s := s) _ _ hI
       simp only [Bool.or_eq_true, decide_eq_true_eq] at hk
       rcases hk with hk | hk
       · simp only [refs]; omega
       · exact hcb _ hk))

theorem refs_pos_of_mem {s : St} {t : Tid} {k : ObjId} (h : (t, k) ∈ s.ecs) : refs s k > 0 := by
  have hp : (s.ecs.map Prod.snd).count k ≥ 1 := List.count_pos_iff.mpr (List.mem_map.mpr ⟨(t, k), h, rfl⟩)
  simp only [refs]; omega

theorem incb_refs {s : St} (hOwn : Own s) (hWf : Wf s) {t : Tid} {fs} (hfs : s.stk t = fs) (k : ObjId)
    (h : inCbOf k fs = true) : refs s k > 0 := by
  match fs, h with
  | .dInCb sz ec cbs k' todo :: rest, h =>
    simp only [inCbOf, decide_eq_true_eq] at h
    subst h
    have hmem : Frame.dInCb sz ec cbs k' todo ∈ s.stk t := by rw [hfs]; exact List.mem_cons_self
    have hw := hWf t _ hmem
    simp only [wfF] at hw
    have hk : k' ∈ ecOf (Frame.dInCb sz ec cbs k' todo) := by simp [ecOf, hw.1]
    exact refs_pos_of_mem (own_mem hOwn hmem hk)

theorem life_step {s s' : St} {t : Tid} {e} (hI : Life s) (hOwn : Own s) (hWf : Wf s) (h : step s t e = some s') :
    Life s' := by
  have hown := hOwn t
  have hcb := fun fs (hfs : s.stk t = fs) => incb_refs hOwn hWf hfs
  unfold step at h
  split at h
  all_goals (try rw [show s.stk t = _ from by assumption] at hown)
  all_goals (first | exact life_stepUser h hI (hcb _ (by assumption)) | skip)
  all_goals (try (repeat' (split at h)))
  all_goals (first | cases h | skip)
  all_goals (first
    | exact hI
    | exact life_dDone _ _ _ hI
    | exact life_xTop _ _ _ hI
    | exact life_select _ _ _ hI
    | (apply life_add; exact (by assumption : _ ∧ _).2; exact hI)
    | (apply life_pdt; exact (by assumption : _ ∧ _).2; exact hI)
    | (refine life_drain _ _ _ _ _ _ (s := unlock s) hI ?_; intro j; have := hown j
       simp only [owned_cons, ecOf, List.count_append] at this; show _ ≤ s.ecs.count (t, j); omega)
    | (apply life_drain _ _ _ _ _ _ hI; intro j; have := hown j
       simp only [owned_cons, ecOf, List.count_append] at this; show _ ≤ s.ecs.count (t, j); omega)
    | (apply life_resume _ _ hI; intro j; have := hown j
       simp only [owned_cons, ecOf, List.count_append, List.nil_append] at this; show _ ≤ s.ecs.count (t, j); omega)
    | skip)

end ConcVerif.DD
