import ConcVerif.Proof.DObj
/-! Concurrent layer of the `DelayedObjects` model: the transitions of `step` as an inductive relation,
the inductive invariant `Inv` (well-formed sequential state, linearisability, lock discipline, fresh
promise names, `set_value` log), its preservation and the lift to every reachable state. -/
namespace ConcVerif.DObj

@[simp] theorem setPc_pc (s : St) (t : Tid) (p : Pc) : (s.setPc t p).pc = upd s.pc t p := rfl
@[simp] theorem setPc_seq (s : St) (t : Tid) (p : Pc) : (s.setPc t p).seq = s.seq := rfl
@[simp] theorem setPc_lock (s : St) (t : Tid) (p : Pc) : (s.setPc t p).lock = s.lock := rfl
@[simp] theorem setPc_next (s : St) (t : Tid) (p : Pc) : (s.setPc t p).next = s.next := rfl
@[simp] theorem setPc_active (s : St) (t : Tid) (p : Pc) : (s.setPc t p).active = s.active := rfl
@[simp] theorem setPc_closer (s : St) (t : Tid) (p : Pc) : (s.setPc t p).closer = s.closer := rfl
@[simp] theorem setPc_hist (s : St) (t : Tid) (p : Pc) : (s.setPc t p).hist = s.hist := rfl
@[simp] theorem setPc_sets (s : St) (t : Tid) (p : Pc) : (s.setPc t p).sets = s.sets := rfl

/-- the transitions of `step`, one constructor per kind of event -/
inductive Tr (s : St) (t : Tid) : Ev → St → Prop
  | call (o : Op) (hpc : s.pc t = .idle) (hc : s.closer = none) (hok : callOk s o = true) :
      Tr s t (.call o)
        ({ s with next := nextAfter s.next o, active := t :: s.active,
                  closer := if o = Op.dtor then some t else s.closer }.setPc t (.called o))
  | mlk (o : Op) (σ : Seq) (r : Res) (l : List (Id × Val)) (hpc : s.pc t = .called o) (hl : s.lock = none)
      (ha : s.seq.apply o = some (σ, r, l)) :
      Tr s t .mlk
        ({ s with seq := σ, lock := some t, hist := s.hist ++ [HEntry.mk t o r], sets := s.sets ++ l }.setPc t
          (.locked o r (l.map Prod.snd)))
  | pset (o : Op) (r : Res) (todo : List Val) (v : Val) (hpc : s.pc t = .locked o r todo) (hv : v ∈ todo) :
      Tr s t (.pset v) (s.setPc t (.locked o r (todo.erase v)))
  | accL (o : Op) (r : Res) (todo : List Val) (hpc : s.pc t = .locked o r todo) : Tr s t .acc s
  | mul (o : Op) (r : Res) (hpc : s.pc t = .locked o r []) (hl : s.lock = some t) :
      Tr s t .mul ({ s with lock := none }.setPc t (.unlocked o r))
  | accD (r : Res) (hpc : s.pc t = .unlocked .dtor r) : Tr s t .acc s
  | ret (o : Op) (r : Res) (hpc : s.pc t = .unlocked o r) :
      Tr s t (.ret o r) ({ s with active := s.active.erase t }.setPc t .idle)
  | got (p : Id) (x : PState) (hpc : s.pc t = .idle) (hx : x ≠ .unset) (hp : s.seq.promise p = x) :
      Tr s t (.got p x) s

theorem step_tr {s s' : St} {t : Tid} {e : Ev} (h : step s t e = some s') : Tr s t e s' := by
  unfold step at h
  split at h
  · rename_i o hpc
    split at h
    · rename_i hc; injection h with h; subst h; exact .call o hpc hc.1 hc.2
    · cases h
  · rename_i o hpc
    split at h
    · rename_i hl
      split at h
      · rename_i σ r l ha; injection h with h; subst h; exact .mlk o σ r l hpc hl ha
      · cases h
    · cases h
  · rename_i o r todo v hpc
    split at h
    · rename_i hv; injection h with h; subst h; exact .pset o r todo v hpc hv
    · cases h
  · rename_i o r todo hpc
    injection h with h; subst h; exact .accL o r todo hpc
  · rename_i o r todo hpc
    split at h
    · rename_i hc; injection h with h; subst h
      obtain ⟨h1, h2⟩ := hc; subst h1
      exact .mul o r hpc h2
    · cases h
  · rename_i o r hpc
    split at h
    · rename_i ho; injection h with h; subst h; subst ho; exact .accD r hpc
    · cases h
  · rename_i o r o' r' hpc
    split at h
    · rename_i hc; injection h with h; subst h
      obtain ⟨h1, h2⟩ := hc; subst h1; subst h2
      exact .ret o' r' hpc
    · cases h
  · rename_i p x hpc
    split at h
    · rename_i hc; injection h with h; subst h; exact .got p x hpc hc.1 hc.2
    · cases h
  · cases h

/-! ### the invariant -/

structure Inv (s : St) : Prop where
  wf : WF s.seq
  lin : Seq.init.run s.hist = some s.seq
  lockPc : ∀ t, s.lock = some t ↔ ∃ o r td, s.pc t = .locked o r td
  act : ∀ t, t ∈ s.active ↔ s.pc t ≠ .idle
  actNodup : s.active.Nodup
  closerOnly : ∀ c, s.closer = some c → ∀ u, u ≠ c → s.pc u = .idle
  dtorCloser : ∀ t, s.pc t = .called .dtor → s.closer = some t
  deadClosed : s.seq.dead = true → s.closer ≠ none ∧ ∀ t o, s.pc t ≠ .called o
  handedLt : ∀ p, p ∈ s.seq.handed → p < s.next
  getFresh : ∀ t k p, s.pc t = .called (.get k p) → p < s.next ∧ p ∉ s.seq.handed
  getDistinct : ∀ t u k k' p, s.pc t = .called (.get k p) → s.pc u = .called (.get k' p) → t = u
  setsNodup : (s.sets.map (·.1)).Nodup
  setsIff : ∀ p v, s.seq.promise p = .val v ↔ (p, v) ∈ s.sets
  recorded : ∀ t o r, (s.pc t = .unlocked o r ∨ ∃ td, s.pc t = .locked o r td) → HEntry.mk t o r ∈ s.hist

theorem inv_init : Inv init := by
  constructor
  · exact wf_init
  all_goals simp [init, Seq.run, Seq.init]

theorem nextAfter_ge (n : Id) (o : Op) : n ≤ nextAfter n o := by
  cases o <;> simp [nextAfter]

theorem inv_call {s : St} {t : Tid} (h : Inv s) (o : Op) (hpc : s.pc t = .idle) (hc : s.closer = none)
    (hok : callOk s o = true) :
    Inv ({ s with next := nextAfter s.next o, active := t :: s.active,
                  closer := if o = Op.dtor then some t else s.closer }.setPc t (.called o)) := by
  have hge := nextAfter_ge s.next o
  constructor <;> simp only [setPc_pc, setPc_seq, setPc_lock, setPc_next, setPc_active, setPc_closer, setPc_hist,
    setPc_sets, upd_apply]
  · exact h.wf
  · exact h.lin
  · intro u
    by_cases hu : u = t
    · subst hu
      simp only [if_true]
      constructor
      · intro hl; obtain ⟨o', r, td, hp⟩ := (h.lockPc u).1 hl; rw [hpc] at hp; cases hp
      · rintro ⟨_, _, _, hp⟩; cases hp
    · simp only [hu, if_false]; exact h.lockPc u
  · intro u
    by_cases hu : u = t
    · subst hu; simp
    · simp only [List.mem_cons, hu, false_or, if_false]; exact h.act u
  · simp only [List.nodup_cons]
    exact ⟨fun hm => (h.act t).1 hm hpc, h.actNodup⟩
  · intro c hcl u huc
    by_cases ho : o = Op.dtor
    · subst ho
      simp only [if_true] at hcl
      injection hcl with hcl; subst hcl
      simp only [huc, if_false]
      simp only [callOk, decide_eq_true_eq] at hok
      cases hp : s.pc u with
      | idle => rfl
      | _ => exact absurd ((h.act u).2 (by rw [hp]; simp)) (by rw [hok]; simp)
    · simp only [ho, if_false] at hcl; rw [hc] at hcl; cases hcl
  · intro u hp
    by_cases hu : u = t
    · subst hu
      simp only [if_true] at hp
      injection hp with hp; subst hp; simp
    · simp only [hu, if_false] at hp
      have := h.dtorCloser u hp; rw [hc] at this; cases this
  · intro hd; exact absurd hc (h.deadClosed hd).1
  · intro p hp; exact Nat.lt_of_lt_of_le (h.handedLt p hp) hge
  · intro u k p hp
    by_cases hu : u = t
    · subst hu
      simp only [if_true] at hp
      injection hp with hp; subst hp
      simp only [callOk, decide_eq_true_eq] at hok
      subst hok
      exact ⟨by simp [nextAfter], fun hm => Nat.lt_irrefl _ (h.handedLt _ hm)⟩
    · simp only [hu, if_false] at hp
      obtain ⟨h1, h2⟩ := h.getFresh u k p hp
      exact ⟨Nat.lt_of_lt_of_le h1 hge, h2⟩
  · intro u1 u2 k k' p hp1 hp2
    by_cases h1 : u1 = t <;> by_cases h2 : u2 = t
    · rw [h1, h2]
    · subst h1
      simp only [if_true] at hp1; simp only [h2, if_false] at hp2
      injection hp1 with hp1; subst hp1
      simp only [callOk, decide_eq_true_eq] at hok
      subst hok
      exact absurd (h.getFresh u2 k' _ hp2).1 (Nat.lt_irrefl _)
    · subst h2
      simp only [if_true] at hp2; simp only [h1, if_false] at hp1
      injection hp2 with hp2; subst hp2
      simp only [callOk, decide_eq_true_eq] at hok
      subst hok
      exact absurd (h.getFresh u1 k _ hp1).1 (Nat.lt_irrefl _)
    · simp only [h1, if_false] at hp1; simp only [h2, if_false] at hp2
      exact h.getDistinct u1 u2 k k' p hp1 hp2
  · exact h.setsNodup
  · exact h.setsIff
  · intro u o' r hp
    by_cases hu : u = t
    · subst hu; simp at hp
    · simp only [hu, if_false] at hp; exact h.recorded u o' r hp

theorem inv_mlk {s : St} {t : Tid} (h : Inv s) (o : Op) (σ : Seq) (r : Res) (l : List (Id × Val))
    (hpc : s.pc t = .called o) (hl : s.lock = none) (ha : s.seq.apply o = some (σ, r, l)) :
    Inv ({ s with seq := σ, lock := some t, hist := s.hist ++ [HEntry.mk t o r], sets := s.sets ++ l }.setPc t
          (.locked o r (l.map Prod.snd))) := by
  obtain ⟨hs1, hs2, hs3⟩ := apply_sets h.wf ha
  have hhand := apply_handed ha
  constructor <;> simp only [setPc_pc, setPc_seq, setPc_lock, setPc_next, setPc_active, setPc_closer, setPc_hist,
    setPc_sets, upd_apply]
  · exact wf_apply h.wf ha
  · rw [run_append, h.lin]
    simp [Seq.run, ha]
  · intro u
    by_cases hu : u = t
    · subst hu; simp
    · simp only [hu, if_false]
      constructor
      · intro hh; injection hh with hh; exact absurd hh.symm hu
      · intro hh; have := (h.lockPc u).2 hh; rw [hl] at this; cases this
  · intro u
    by_cases hu : u = t
    · subst hu; simp only [if_true]
      constructor
      · intro _ hh; cases hh
      · intro _; exact (h.act u).2 (by rw [hpc]; simp)
    · simp only [hu, if_false]; exact h.act u
  · exact h.actNodup
  · intro c hcl u huc
    by_cases hu : u = t
    · subst hu
      have := h.closerOnly c hcl u huc; rw [hpc] at this; cases this
    · simp only [hu, if_false]; exact h.closerOnly c hcl u huc
  · intro u hp
    by_cases hu : u = t
    · subst hu; simp at hp
    · simp only [hu, if_false] at hp; exact h.dtorCloser u hp
  · intro hd
    have ho : o = .dtor := (apply_dead ha).2.1 hd
    subst ho
    have hcl := h.dtorCloser t hpc
    refine ⟨by rw [hcl]; simp, ?_⟩
    intro u o' hp
    by_cases hu : u = t
    · subst hu; simp at hp
    · simp only [hu, if_false] at hp
      have := h.closerOnly t hcl u hu; rw [this] at hp; cases hp
  · intro p hp
    rw [hhand, List.mem_append, mem_newIds] at hp
    rcases hp with ⟨k, hk⟩ | hp
    · subst hk; exact (h.getFresh t k p hpc).1
    · exact h.handedLt p hp
  · intro u k p hp
    by_cases hu : u = t
    · subst hu; simp at hp
    · simp only [hu, if_false] at hp
      obtain ⟨h1, h2⟩ := h.getFresh u k p hp
      refine ⟨h1, ?_⟩
      rw [hhand, List.mem_append, mem_newIds]
      rintro (⟨k', hk'⟩ | hm)
      · subst hk'; exact hu (h.getDistinct u t k k' p hp hpc)
      · exact h2 hm
  · intro u1 u2 k k' p hp1 hp2
    by_cases h1 : u1 = t
    · subst h1; simp at hp1
    · by_cases h2 : u2 = t
      · subst h2; simp at hp2
      · simp only [h1, if_false] at hp1; simp only [h2, if_false] at hp2
        exact h.getDistinct u1 u2 k k' p hp1 hp2
  · rw [List.map_append, List.nodup_append]
    refine ⟨h.setsNodup, hs2, ?_⟩
    intro a ha1 b hb1 hab
    subst hab
    obtain ⟨e1, he1, hp1⟩ := List.mem_map.1 ha1
    obtain ⟨e2, he2, hp2⟩ := List.mem_map.1 hb1
    have h1 : s.seq.promise a = .val e1.2 := (h.setsIff a e1.2).2 (by rw [← hp1]; exact he1)
    have h2 := (hs1 a e2.2 (by rw [← hp2]; exact he2)).1
    rw [h1] at h2; cases h2
  · intro p v
    rw [List.mem_append]
    constructor
    · intro hv
      rcases hs3 p v hv with h1 | h1
      · exact Or.inl ((h.setsIff p v).1 h1)
      · exact Or.inr h1
    · rintro (h1 | h1)
      · exact apply_val_stable ha ((h.setsIff p v).2 h1)
      · exact (hs1 p v h1).2
  · intro u o' r' hp
    by_cases hu : u = t
    · subst hu
      simp only [if_true] at hp
      rcases hp with hp | ⟨td, hp⟩
      · cases hp
      · injection hp with h1 h2 _; subst h1; subst h2; simp
    · simp only [hu, if_false] at hp
      exact List.mem_append_left _ (h.recorded u o' r' hp)

/-- a step of `t` that only moves its pc between two pcs inside the critical section -/
theorem inv_pset {s : St} {t : Tid} (h : Inv s) (o : Op) (r : Res) (todo todo' : List Val)
    (hpc : s.pc t = .locked o r todo) : Inv (s.setPc t (.locked o r todo')) := by
  constructor <;> simp only [setPc_pc, setPc_seq, setPc_lock, setPc_next, setPc_active, setPc_closer, setPc_hist,
    setPc_sets, upd_apply]
  · exact h.wf
  · exact h.lin
  · intro u
    by_cases hu : u = t
    · subst hu; simp only [if_true]
      constructor
      · intro _; exact ⟨o, r, todo', rfl⟩
      · intro _; exact (h.lockPc u).2 ⟨o, r, todo, hpc⟩
    · simp only [hu, if_false]; exact h.lockPc u
  · intro u
    by_cases hu : u = t
    · subst hu; simp only [if_true]
      constructor
      · intro _ hh; cases hh
      · intro _; exact (h.act u).2 (by rw [hpc]; simp)
    · simp only [hu, if_false]; exact h.act u
  · exact h.actNodup
  · intro c hcl u huc
    by_cases hu : u = t
    · subst hu
      have := h.closerOnly c hcl u huc; rw [hpc] at this; cases this
    · simp only [hu, if_false]; exact h.closerOnly c hcl u huc
  · intro u hp
    by_cases hu : u = t
    · subst hu; simp at hp
    · simp only [hu, if_false] at hp; exact h.dtorCloser u hp
  · intro hd
    refine ⟨(h.deadClosed hd).1, ?_⟩
    intro u o' hp
    by_cases hu : u = t
    · subst hu; simp at hp
    · simp only [hu, if_false] at hp; exact (h.deadClosed hd).2 u o' hp
  · exact h.handedLt
  · intro u k p hp
    by_cases hu : u = t
    · subst hu; simp at hp
    · simp only [hu, if_false] at hp; exact h.getFresh u k p hp
  · intro u1 u2 k k' p hp1 hp2
    by_cases h1 : u1 = t
    · subst h1; simp at hp1
    · by_cases h2 : u2 = t
      · subst h2; simp at hp2
      · simp only [h1, if_false] at hp1; simp only [h2, if_false] at hp2
        exact h.getDistinct u1 u2 k k' p hp1 hp2
  · exact h.setsNodup
  · exact h.setsIff
  · intro u o' r' hp
    by_cases hu : u = t
    · subst hu
      simp only [if_true] at hp
      rcases hp with hp | ⟨td, hp⟩
      · cases hp
      · injection hp with h1 h2 _; subst h1; subst h2
        exact h.recorded u o r (Or.inr ⟨todo, hpc⟩)
    · simp only [hu, if_false] at hp; exact h.recorded u o' r' hp

theorem inv_mul {s : St} {t : Tid} (h : Inv s) (o : Op) (r : Res) (hpc : s.pc t = .locked o r [])
    (hl : s.lock = some t) : Inv ({ s with lock := none }.setPc t (.unlocked o r)) := by
  constructor <;> simp only [setPc_pc, setPc_seq, setPc_lock, setPc_next, setPc_active, setPc_closer, setPc_hist,
    setPc_sets, upd_apply]
  · exact h.wf
  · exact h.lin
  · intro u
    by_cases hu : u = t
    · subst hu; simp
    · simp only [hu, if_false]
      constructor
      · intro hh; cases hh
      · intro hh
        have := (h.lockPc u).2 hh; rw [hl] at this; injection this with this; exact absurd this.symm hu
  · intro u
    by_cases hu : u = t
    · subst hu; simp only [if_true]
      constructor
      · intro _ hh; cases hh
      · intro _; exact (h.act u).2 (by rw [hpc]; simp)
    · simp only [hu, if_false]; exact h.act u
  · exact h.actNodup
  · intro c hcl u huc
    by_cases hu : u = t
    · subst hu
      have := h.closerOnly c hcl u huc; rw [hpc] at this; cases this
    · simp only [hu, if_false]; exact h.closerOnly c hcl u huc
  · intro u hp
    by_cases hu : u = t
    · subst hu; simp at hp
    · simp only [hu, if_false] at hp; exact h.dtorCloser u hp
  · intro hd
    refine ⟨(h.deadClosed hd).1, ?_⟩
    intro u o' hp
    by_cases hu : u = t
    · subst hu; simp at hp
    · simp only [hu, if_false] at hp; exact (h.deadClosed hd).2 u o' hp
  · exact h.handedLt
  · intro u k p hp
    by_cases hu : u = t
    · subst hu; simp at hp
    · simp only [hu, if_false] at hp; exact h.getFresh u k p hp
  · intro u1 u2 k k' p hp1 hp2
    by_cases h1 : u1 = t
    · subst h1; simp at hp1
    · by_cases h2 : u2 = t
      · subst h2; simp at hp2
      · simp only [h1, if_false] at hp1; simp only [h2, if_false] at hp2
        exact h.getDistinct u1 u2 k k' p hp1 hp2
  · exact h.setsNodup
  · exact h.setsIff
  · intro u o' r' hp
    by_cases hu : u = t
    · subst hu
      simp only [if_true] at hp
      rcases hp with hp | ⟨td, hp⟩
      · injection hp with h1 h2; subst h1; subst h2
        exact h.recorded u o r (Or.inr ⟨[], hpc⟩)
      · cases hp
    · simp only [hu, if_false] at hp; exact h.recorded u o' r' hp

theorem inv_ret {s : St} {t : Tid} (h : Inv s) (o : Op) (r : Res) (hpc : s.pc t = .unlocked o r) :
    Inv ({ s with active := s.active.erase t }.setPc t .idle) := by
  constructor <;> simp only [setPc_pc, setPc_seq, setPc_lock, setPc_next, setPc_active, setPc_closer, setPc_hist,
    setPc_sets, upd_apply]
  · exact h.wf
  · exact h.lin
  · intro u
    by_cases hu : u = t
    · subst hu; simp only [if_true]
      constructor
      · intro hh; obtain ⟨_, _, _, hp⟩ := (h.lockPc u).1 hh; rw [hpc] at hp; cases hp
      · rintro ⟨_, _, _, hp⟩; cases hp
    · simp only [hu, if_false]; exact h.lockPc u
  · intro u
    by_cases hu : u = t
    · subst hu; simp [h.actNodup.mem_erase_iff]
    · simp only [hu, if_false]
      rw [List.mem_erase_of_ne hu]; exact h.act u
  · exact h.actNodup.sublist List.erase_sublist
  · intro c hcl u huc
    by_cases hu : u = t
    · simp [hu]
    · simp only [hu, if_false]; exact h.closerOnly c hcl u huc
  · intro u hp
    by_cases hu : u = t
    · subst hu; simp at hp
    · simp only [hu, if_false] at hp; exact h.dtorCloser u hp
  · intro hd
    refine ⟨(h.deadClosed hd).1, ?_⟩
    intro u o' hp
    by_cases hu : u = t
    · subst hu; simp at hp
    · simp only [hu, if_false] at hp; exact (h.deadClosed hd).2 u o' hp
  · exact h.handedLt
  · intro u k p hp
    by_cases hu : u = t
    · subst hu; simp at hp
    · simp only [hu, if_false] at hp; exact h.getFresh u k p hp
  · intro u1 u2 k k' p hp1 hp2
    by_cases h1 : u1 = t
    · subst h1; simp at hp1
    · by_cases h2 : u2 = t
      · subst h2; simp at hp2
      · simp only [h1, if_false] at hp1; simp only [h2, if_false] at hp2
        exact h.getDistinct u1 u2 k k' p hp1 hp2
  · exact h.setsNodup
  · exact h.setsIff
  · intro u o' r' hp
    by_cases hu : u = t
    · subst hu; simp at hp
    · simp only [hu, if_false] at hp; exact h.recorded u o' r' hp

theorem inv_tr {s s' : St} {t : Tid} {e : Ev} (h : Inv s) (htr : Tr s t e s') : Inv s' := by
  cases htr with
  | call o hpc hc hok => exact inv_call h o hpc hc hok
  | mlk o σ r l hpc hl ha => exact inv_mlk h o σ r l hpc hl ha
  | pset o r todo v hpc hv => exact inv_pset h o r todo _ hpc
  | accL o r todo hpc => exact h
  | mul o r hpc hl => exact inv_mul h o r hpc hl
  | accD r hpc => exact h
  | ret o r hpc => exact inv_ret h o r hpc
  | got p x hpc hx hp => exact h

theorem inv_step (s : St) (t : Tid) (e : Ev) (s' : St) (h : Inv s) (hs : step s t e = some s') : Inv s' :=
  inv_tr h (step_tr hs)

theorem inv_reachable {s : St} (h : Reachable s) : Inv s := by
  obtain ⟨es, hes⟩ := h
  exact runFrom_inv inv_step inv_init hes

/-- the promise created by the `getFuture(k)` entry `e` of the history, with everything before / after it -/
structure Handed (s : St) (k : Key) (p : Id) (before after : List HEntry) : Prop where
  split : ∃ e, s.hist = before ++ e :: after ∧ e.op = .get k p

/-- two consumers, a setter and a fulfiller: `getFuture(1)`→p0, `getFuture("s2")`→p1, `set(1,5)` and
`fulfillAll(7)` interleaved, then the destructor: p0 = 5 (the set came first), p1 = 7, both set once -/
def exTrace : List (Tid × Ev) :=
  [(1, .call (.get (.i 1) 0)), (2, .call (.get (.s 2) 1)), (2, .mlk), (2, .acc), (2, .mul),
   (1, .mlk), (1, .mul), (1, .ret (.get (.i 1) 0) .unit), (2, .ret (.get (.s 2) 1) .unit),
   (3, .call (.set (.i 1) 5 false)), (4, .call (.ful 7)), (3, .mlk), (3, .pset 5), (3, .mul),
   (4, .mlk), (4, .pset 7), (4, .mul), (1, .got 0 (.val 5)), (3, .ret (.set (.i 1) 5 false) .unit),
   (4, .ret (.ful 7) .unit), (3, .call (.isComp (.i 1))), (3, .mlk), (3, .mul), (3, .ret (.isComp (.i 1)) (.bool true)),
   (0, .call .dtor), (0, .mlk), (0, .mul), (0, .acc), (0, .ret .dtor .unit), (0, .got 1 (.val 7))]

end ConcVerif.DObj
