import ConcVerif.Proof.HBRcuFrame
/-! rcu_list and happens-before, part 3: publication of list nodes — the trace invariants.

* `SCD` the stores to links and to `owner` and the successful CASes are written `seq_cst`; `m_zombie_head` is never stored to;
* `NP`  every initialisation event of a node is published through the write mutex (`Pub`);
* `FV`  whatever node `m_head` / the `next` of a linked (or about to be linked) node points to: its initialisation is
        ordered before the latest store to that link;
* `RN`  a thread whose iterator points to node `c` knows the initialisation of `c`. -/
namespace ConcVerif.Rcu
open HB (HBeq Kn)

/-! ### publication through the write mutex -/

/-- position `i` is known to the holder of the write mutex, or — while nobody holds it — ordered
before an unlock (so that the next locker will know it) -/
def Pub (w : Ords) (sel : Bool) (es : List (Tid × Ev)) : Option Tid → Nat → Prop
  | some t, i => Kn (hbTrace w sel es) t i
  | none, i => ∃ k v, es[k]? = some (v, Ev.mul) ∧ HBeq (hbTrace w sel es) i k

theorem Pub.mono {w : Ords} {sel : Bool} {es : List (Tid × Ev)} {m : Option Tid} {i : Nat} (ext : List (Tid × Ev))
    (h : Pub w sel es m i) : Pub w sel (es ++ ext) m i := by
  cases m with
  | some t => simp only [Pub, hbTrace_append] at *; exact h.mono _
  | none =>
    obtain ⟨k, v, h1, h2⟩ := h
    refine ⟨k, v, HB.lq_mono ext h1, ?_⟩
    rw [hbTrace_append]; exact h2.mono _

theorem Pub.lock {w : Ords} {sel : Bool} {es : List (Tid × Ev)} {i : Nat} (t : Tid) (h : Pub w sel es none i) :
    Pub w sel (es ++ [(t, .mlk)]) (some t) i := by
  obtain ⟨k, v, h1, h2⟩ := h
  simp only [Pub, hbTrace_snoc]
  exact .of_sw h2 (sw_mutex h1)

theorem Pub.unlock {w : Ords} {sel : Bool} {es : List (Tid × Ev)} {i : Nat} {t : Tid} (h : Pub w sel es (some t) i) :
    Pub w sel (es ++ [(t, .mul)]) none i := by
  refine ⟨es.length, t, HB.lq_last _ _, ?_⟩
  simp only [Pub] at h
  rw [hbTrace_snoc]
  have := h.hbeq_of_own (e := toHB w sel .mul)
  simpa using this

/-- the new event of the holder is known to the holder -/
theorem Pub.self {w : Ords} {sel : Bool} (es : List (Tid × Ev)) (t : Tid) (e : Ev) :
    Pub w sel (es ++ [(t, e)]) (some t) es.length := by
  simp only [Pub]
  exact .self (hbTrace_get (HB.lq_last _ _))

/-! ### the invariants -/

def SCD (es : List (Tid × Ev)) : Prop :=
  (∀ (q : Nat) (u : Tid) (f : Fld) (o : Ord) (v : Option Nat), es[q]? = some (u, Ev.ast f o v) →
      (f.isLink = true ∨ ∃ r, f = .rowner r) → o.isSc = true) ∧
  NoZhSt es ∧
  (∀ (p : Nat) (u : Tid) (o : Ord) (a b c : Option Nat), es[p]? = some (u, Ev.cas o a b true c) → o.isSc = true)

def NP (w : Ords) (sel : Bool) (es : List (Tid × Ev)) (mtx : Option Tid) : Prop :=
  ∀ (i : Nat) (u : Tid) (e : Ev) (n : Nat), es[i]? = some (u, e) → e.initN = some n → Pub w sel es mtx i

/-- the node the writer is about to link at the front: its `next` is already stored -/
def pendN : Pc → Option Nat
  | .pF2 _ n _ => some n
  | .pF3 _ n => some n
  | _ => none

/-- nodes whose `next` a reader may come to load: linked once, or about to be linked -/
def Trk (s : St) (m : Nat) : Prop := m ∈ s.order ∨ ∃ t, pendN (s.pc t) = some m

/-- the initialisation of node `n` is ordered before the latest store to field `f` -/
def PubBy (w : Ords) (sel : Bool) (es : List (Tid × Ev)) (f : Fld) (n : Nat) : Prop :=
  ∀ (i : Nat) (u : Tid) (e : Ev), es[i]? = some (u, e) → e.initN = some n →
    ∃ (q : Nat) (x : Tid) (o : Ord) (v : Option Nat), es[q]? = some (x, Ev.ast f o v) ∧ LatestSt es f q ∧
      HBeq (hbTrace w sel es) i q

def FV (w : Ords) (sel : Bool) (es : List (Tid × Ev)) (s : St) : Prop :=
  (∀ n, s.head = some n → PubBy w sel es .head n) ∧
  (∀ m n, Trk s m → (s.nodes m).next = some n → PubBy w sel es (.nnext m) n)

def RN (w : Ords) (sel : Bool) (es : List (Tid × Ev)) (s : St) : Prop :=
  ∀ (t : Tid) (c : Nat), s.it t = some (some c) → ∀ (i : Nat) (u : Tid) (e : Ev), es[i]? = some (u, e) →
    e.initN = some c → Kn (hbTrace w sel es) t i

/-! ### SCD -/

theorem ast_sc {s s' : St} {t : Tid} {f : Fld} {o : Ord} {v : Option Nat} (hS : Step s t (.ast f o v) s')
    (hf : f.isLink = true ∨ ∃ r, f = .rowner r) : o.isSc = true := by
  cases hS <;> first | assumption | (exfalso; simp [Fld.isLink] at hf; done)

theorem ast_not_zh {s s' : St} {t : Tid} {o : Ord} {v : Option Nat} (hS : Step s t (.ast .zhead o v) s') : False := by
  cases hS

theorem cas_sc {s s' : St} {t : Tid} {o : Ord} {a b c : Option Nat} (hS : Step s t (.cas o a b true c) s') :
    o.isSc = true := by
  cases hS <;> assumption

theorem SCD_step {es : List (Tid × Ev)} {s s' : St} {t : Tid} {e : Ev} (h : SCD es) (hS : Step s t e s') :
    SCD (es ++ [(t, e)]) := by
  obtain ⟨h1, h2, h3⟩ := h
  refine ⟨?_, ?_, ?_⟩
  · intro q u f o v hq hf
    rcases HB.lq_snoc hq with ⟨_, hq'⟩ | ⟨_, hp⟩
    · exact h1 q u f o v hq' hf
    · injection hp with _ hp; subst hp; exact ast_sc hS hf
  · intro k u o v hk
    rcases HB.lq_snoc hk with ⟨_, hk'⟩ | ⟨_, hp⟩
    · exact h2 k u o v hk'
    · injection hp with _ hp; subst hp; exact ast_not_zh hS
  · intro p u o a b c hp
    rcases HB.lq_snoc hp with ⟨_, hp'⟩ | ⟨_, hq⟩
    · exact h3 p u o a b c hp'
    · injection hq with _ hq; subst hq; exact cas_sc hS

/-! ### NP -/

theorem NP_snoc {w : Ords} {sel : Bool} {es : List (Tid × Ev)} {m : Option Tid} {t : Tid} {e : Ev} (h : NP w sel es m)
    (he : ∀ n, e.initN = some n → m = some t) : NP w sel (es ++ [(t, e)]) m := by
  intro i u e' n hi hn
  rcases HB.lq_snoc hi with ⟨_, hi'⟩ | ⟨hl, hp⟩
  · exact (h i u e' n hi' hn).mono _
  · injection hp with h1 h2; subst h1; subst h2; subst hl
    rw [he n hn]; exact Pub.self es u e'

theorem NP_lock {w : Ords} {sel : Bool} {es : List (Tid × Ev)} (t : Tid) (h : NP w sel es none) :
    NP w sel (es ++ [(t, .mlk)]) (some t) := by
  intro i u e' n hi hn
  rcases HB.lq_snoc hi with ⟨_, hi'⟩ | ⟨_, hp⟩
  · exact (h i u e' n hi' hn).lock t
  · injection hp with _ h2; subst h2; simp [Ev.initN] at hn

theorem NP_unlock {w : Ords} {sel : Bool} {es : List (Tid × Ev)} {t : Tid} (h : NP w sel es (some t)) :
    NP w sel (es ++ [(t, .mul)]) none := by
  intro i u e' n hi hn
  rcases HB.lq_snoc hi with ⟨_, hi'⟩ | ⟨_, hp⟩
  · exact (h i u e' n hi' hn).unlock
  · injection hp with _ h2; subst h2; simp [Ev.initN] at hn

/-- a node is initialised by the holder of the write mutex, before it is ever linked -/
theorem init_facts {s s' : St} {t : Tid} {e : Ev} {n : Nat} (hi : Inv s) (hS : Step s t e s') (hn : e.initN = some n) :
    s.wmtx = some t ∧ n ∉ s.order ∧ ∃ k, s.pc t = .pCons k n := by
  have wm : ∀ k, s.pc t = .pCons k n → s.wmtx = some t ∧ n ∉ s.order ∧ ∃ k, s.pc t = .pCons k n := by
    intro k hpc
    have h1 := (hi.a.wm t).1 (by simp [hpc, holdsW])
    have h2 := hi.c.wr t
    simp only [cview_vpc, hpc, CView, WriterP, cview_order] at h2
    exact ⟨h1, h2.1, k, hpc⟩
  cases hS <;> simp [Ev.initN] at hn
  all_goals (subst hn; exact wm _ (by assumption))

theorem NP_step {w : Ords} {sel : Bool} {es : List (Tid × Ev)} {s s' : St} {t : Tid} {e : Ev} (hi : Inv s)
    (hnd : inDtor (s.pc t) = false) (h : NP w sel es s.wmtx) (hS : Step s t e s') : NP w sel (es ++ [(t, e)]) s'.wmtx := by
  by_cases h1 : e = .mlk
  · subst h1
    cases hS <;> (rename_i hm; rw [hm] at h; exact NP_lock t h)
  by_cases h2 : e = .mul
  · subst h2
    cases hS <;> (rename_i hm; rw [hm] at h; exact NP_unlock h)
  rw [wmtx_frame hS h1 h2 hnd]
  exact NP_snoc h (fun n hn => (init_facts hi hS hn).1)

end ConcVerif.Rcu
