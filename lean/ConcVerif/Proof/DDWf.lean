import ConcVerif.Proof.DD
import ConcVerif.Proof.DDList
/-! Frame well-formedness of the DelayedDestructor model: a destroyObjects call runs its callbacks over its own
`ecall` vector, front to back, each entry once; `ecall` has no duplicates. -/
namespace ConcVerif.DD

def wfF (cb : Bool) : Frame → Prop
  | .dUnlock1 _ ec => ec.Nodup ∧ ec ≠ []
  | .dCb _ ec cbs todo => ec = cbs ++ todo ∧ ec.Nodup
  | .dInCb _ ec cbs k todo => ec = cbs ++ k :: todo ∧ ec.Nodup
  | .dClear _ ec cbs thrown => thrown = false → cb = true → (ec <:+ cbs ∧ cbs.Nodup)
  | _ => True

def AllWf (cb : Bool) (fs : List Frame) : Prop := ∀ f ∈ fs, wfF cb f

@[simp] theorem allWf_nil (cb) : AllWf cb [] := by intro f h; cases h
@[simp] theorem allWf_cons (cb f fs) : AllWf cb (f :: fs) ↔ wfF cb f ∧ AllWf cb fs := by
  simp [AllWf]

theorem allWf_vdrain (cb) (s : St) (t rest) (v : List ObjId) (h : AllWf cb rest) : AllWf cb ((vdrain s t rest v).stk t) := by
  induction v generalizing s with
  | nil => simp [vdrain, wfF, h]
  | cons a v ih =>
    simp only [vdrain]; split
    · simp [wfF, h]
    · exact ih _

theorem allWf_xTop (cb) (s : St) (t ii rest) (h : AllWf cb rest) : AllWf cb ((xTop s t ii rest).stk t) := by
  unfold xTop; split <;> simp [wfF, h]

theorem allWf_xAfter (cb) (s : St) (t ii rest) (h : AllWf cb rest) : AllWf cb ((xAfter s t ii rest).stk t) := by
  unfold xAfter; repeat' split
  all_goals simp [wfF, h]

theorem allWf_dDone (cb) (s : St) (t r rest) (h : AllWf cb rest) : AllWf cb ((dDone s t r rest).stk t) := by
  unfold dDone; split
  · simp only [allWf_cons] at h; simp [wfF, h.2]
  · simp only [allWf_cons] at h; exact allWf_xAfter _ _ _ _ _ h.2
  · simp only [allWf_cons] at h; exact allWf_vdrain _ _ _ _ _ h.2
  · simp [wfF, h]

theorem allWf_drain (cb) (s : St) (t sz cbs thrown rest) (ec : List ObjId) (h : AllWf cb rest)
    (hc : thrown = false → cb = true → (ec <:+ cbs ∧ cbs.Nodup)) :
    AllWf cb ((drain s t sz cbs thrown rest ec).stk t) := by
  induction ec generalizing s with
  | nil => simp only [drain]; split; exact allWf_dDone _ _ _ _ _ h; simp [wfF, h]
  | cons k ec ih =>
    have hc' : thrown = false → cb = true → (ec <:+ cbs ∧ cbs.Nodup) := fun h1 h2 =>
      ⟨List.IsSuffix.trans (List.suffix_cons k ec) (hc h1 h2).1, (hc h1 h2).2⟩
    simp only [drain]; split
    · simp [wfF, h]; exact hc'
    · exact ih _ hc'

theorem allWf_resume (cb) (s : St) (t fs) (h : AllWf cb fs) : AllWf cb ((resume s t fs).stk t) := by
  unfold resume; split
  · simp only [allWf_cons, wfF] at h; exact allWf_drain _ _ _ _ _ _ _ _ h.2 h.1
  · simp only [allWf_cons] at h; exact allWf_vdrain _ _ _ _ _ h.2
  · simp [h]

theorem selectable_count {s : St} {k : ObjId} (h : selectable s k = true) : s.vec.count k ≤ 1 := by
  simp [selectable, refs] at h; omega

theorem allWf_select (cb) (s : St) (t skip rest) (h : AllWf cb rest) : AllWf cb ((select s t skip rest).stk t) := by
  unfold select; dsimp only; split
  · simp [wfF, h]
  · rename_i hne
    simp only [setStk_stk_same, allWf_cons, wfF]
    refine ⟨⟨?_, hne⟩, h⟩
    apply nodup_filter_of_count
    intro k hk
    simp only [Bool.and_eq_true] at hk
    exact selectable_count hk.1

theorem wfF_gBody (cb) (len dc cnt : Nat) : wfF cb (gBody len dc cnt) := by
  unfold gBody; split <;> simp [wfF]

theorem wfF_gNext (cb) (len dc cnt es : Nat) : wfF cb (gNext len dc cnt es) := by
  unfold gNext; repeat' split
  all_goals (first | exact wfF_gBody _ _ _ _ | simp [wfF])

theorem allWf_stepUser {s s' : St} {t : Tid} {fs e} (h : stepUser s t fs e = some s') (hfs : s.stk t = fs)
    (hI : AllWf s.hasCb fs) : AllWf s.hasCb (s'.stk t) := by
  unfold stepUser at h
  split at h
  all_goals (try (repeat' (split at h)))
  all_goals (first | cases h | skip)
  all_goals (first
    | (simp [wfF, hI]; done)
    | (rw [show ∀ x : St, x.stk = s.stk → x.stk t = fs from fun x hx => by rw [hx, hfs]]; exact hI; rfl)
    | exact allWf_xTop _ _ _ _ _ (by simp))

theorem allWf_step {s s' : St} {t : Tid} {e} (h : step s t e = some s') (hI : AllWf s.hasCb (s.stk t)) :
    AllWf s.hasCb (s'.stk t) := by
  unfold step at h
  split at h
  all_goals (try rw [show s.stk t = _ from by assumption] at hI)
  all_goals (first | exact allWf_stepUser h (by assumption) hI | skip)
  all_goals (try (repeat' (split at h)))
  all_goals (first | cases h | skip)
  all_goals (simp only [allWf_cons, wfF] at hI)
  all_goals (first
    | (simp only [setStk_stk_same, allWf_cons]; exact ⟨wfF_gNext _ _ _ _ _, hI.2⟩)
    | (simp only [setStk_stk_same, allWf_cons]; exact ⟨wfF_gBody _ _ _ _, hI.2⟩)
    | (simp [wfF, hI]; done)
    | (obtain ⟨⟨h1, h2⟩, h3⟩ := hI; subst h1; simp_all [wfF]; done)
    | (apply allWf_dDone; simp [hI]; done)
    | (apply allWf_select; simp [hI]; done)
    | (apply allWf_xTop; simp [hI]; done)
    | (apply allWf_resume; simp [hI]; done)
    | (apply allWf_drain <;> simp_all <;> done)
    | (obtain ⟨⟨h1, h2⟩, h3⟩ := hI; subst h1; apply allWf_drain <;> simp_all <;> done)
    | skip)

def Wf (s : St) : Prop := ∀ t, AllWf s.hasCb (s.stk t)

theorem wf_step {s s' : St} {t : Tid} {e} (hI : Wf s) (h : step s t e = some s') : Wf s' := by
  intro u
  rw [step_hasCb h]
  by_cases hu : u = t
  · subst hu; exact allWf_step h (hI u)
  · rw [step_stk_other h hu]; exact hI u

theorem wf_init (cb ns nt) : Wf (init cb ns nt) := by intro t; simp [init]

theorem wf_reachable {cb ns nt} {s : St} (h : Reachable cb ns nt s) : Wf s := by
  obtain ⟨es, hr⟩ := h
  exact runFrom_inv (Inv := Wf) (fun _ _ _ _ hi hs => wf_step hi hs) (wf_init cb ns nt) hr

end ConcVerif.DD
