import ConcVerif.Proof.SOH
import ConcVerif.Proof.HBLock
import ConcVerif.Proof.HBUtil
import ConcVerif.Proof.HBComplete
/-! Connection of the SearchableObjectHolder model to the happens-before layer.

Every trace ACCEPTED by `SOH.step`, mapped to happens-before events (`mlk` / `mul` = exclusive
acquire / release of `mapLock`; every plain access `mac` to one of the two `std::map` objects = a WRITE
of ONE plain location, the strongest reading: any two map accesses conflict), is consistent with mutex
semantics.  While the holder exists every map access is made under `mapLock`.

The destructor is the exception the model allows: after its FINAL release of `mapLock` (the `mul`
that leaves `dLocked c` with the object map empty or after 7 rounds) the members are destroyed
WITHOUT the lock.  What the model guarantees there, and what is proved below:
* the final release is unique, and every map access before it is made under the lock;
* after it no thread ever locks or unlocks `mapLock` again, nobody holds it, and the ONLY thread that
  touches the maps is the destructor's thread;
* so each late access is ordered after every earlier access by
  `access → unlock (other thread) → lock (destructor) → final unlock (destructor) → late access`.
Hence every accepted trace is data-race free, although the lockset discipline does NOT hold for the
late accesses. -/
namespace ConcVerif.SOH
open HB (lq_lt lq_mono lq_snoc lq_last)

/-- happens-before content of a model event: `mapLock` = mutex 0, the two maps = plain location 0,
every access counted as a write -/
def toHB : Ev → HB.Ev
  | .mlk => .acq 0 .X
  | .mul => .rel 0 .X
  | .mac => .wr 0
  | _ => .nop

def hbTrace (es : List (Tid × Ev)) : HB.Trace := es.map (fun p => (p.1, toHB p.2))

theorem hbTrace_snoc (es : List (Tid × Ev)) (t : Tid) (e : Ev) :
    hbTrace (es ++ [(t, e)]) = hbTrace es ++ [(t, toHB e)] := by simp [hbTrace]

theorem hbTrace_append (es ext : List (Tid × Ev)) : hbTrace (es ++ ext) = hbTrace es ++ hbTrace ext := by
  simp [hbTrace]

@[simp] theorem hbTrace_length (es : List (Tid × Ev)) : (hbTrace es).length = es.length := by simp [hbTrace]

theorem hbTrace_get {es : List (Tid × Ev)} {i : Nat} {t : Tid} {e : Ev} (h : es[i]? = some (t, e)) :
    (hbTrace es)[i]? = some (t, toHB e) := by simp [hbTrace, h]

theorem hbTrace_take (es : List (Tid × Ev)) (n : Nat) : (hbTrace es).take n = hbTrace (es.take n) := by
  simp [hbTrace, List.map_take]

/-- a plain access of the mapped trace is a `mac` of the model trace, on location 0 -/
theorem hbTrace_access {es : List (Tid × Ev)} {i : Nat} {t : Tid} {ei : HB.Ev} {x : HB.Loc}
    (h : (hbTrace es)[i]? = some (t, ei)) (ha : ei.accesses x) : x = 0 ∧ ei = .wr 0 ∧ es[i]? = some (t, .mac) := by
  simp only [hbTrace, List.getElem?_map] at h
  cases hk : es[i]? with
  | none => simp [hk] at h
  | some p =>
    obtain ⟨u, e⟩ := p
    simp [hk] at h
    obtain ⟨h1, h2⟩ := h
    subst h2; subst h1
    cases e with
    | mac => rcases ha with ha | ha <;> cases ha; exact ⟨rfl, rfl, rfl⟩
    | _ => rcases ha with ha | ha <;> cases ha

/-! ### state invariant: one destructor, nobody inside after its final release -/

/-- the thread is inside the destructor, before its final release -/
def Pc.isD : Pc → Bool
  | .dCalled | .dLocked _ | .dWait _ | .dRelock _ => true
  | _ => false

structure JInv (s : St) : Prop where
  /-- a running destructor has set `dt` and has not made its final release -/
  run : ∀ u, (s.pc u).isD = true → s.dt = true ∧ s.gone = false
  /-- at most one thread runs the destructor -/
  one : ∀ u v, (s.pc u).isD = true → (s.pc v).isD = true → u = v
  /-- after the final release nobody holds `mapLock` -/
  free : s.gone = true → s.lock = none

theorem jinv_init : JInv init :=
  ⟨fun u h => by simp [init, Pc.isD] at h, fun u v h => by simp [init, Pc.isD] at h, fun h => by simp [init] at h⟩

/-- a step that keeps every thread's destructor status, `dt` and `gone` -/
theorem jinv_same {s s' : St} (h : JInv s) (hd : ∀ u, (s'.pc u).isD = (s.pc u).isD) (hdt : s'.dt = s.dt)
    (hg : s'.gone = s.gone) (hl : s.gone = true → s'.lock = none) : JInv s' := by
  refine ⟨?_, ?_, ?_⟩
  · intro u hu; rw [hd] at hu; rw [hdt, hg]; exact h.run u hu
  · intro u v hu hv; rw [hd] at hu hv; exact h.one u v hu hv
  · intro hg'; rw [hg] at hg'; exact hl hg'

theorem isD_setPc {s x : St} {t : Tid} {q : Pc} (hx : x.pc = s.pc) (hq : q.isD = (s.pc t).isD) :
    ∀ u, ((x.setPc t q).pc u).isD = (s.pc u).isD := by
  intro u
  by_cases hu : u = t
  · subst hu; simp [hq]
  · rw [setPc_pc_other _ t u _ hu, hx]

theorem jinv_tr {s s' : St} {t : Tid} {e : Ev} (h : JInv s) (htr : Tr s t e s') : JInv s' := by
  cases htr with
  | pdt k hc hd hm hh => exact jinv_same h (fun _ => rfl) rfl rfl h.free
  | rel k hp hh => exact jinv_same h (fun _ => rfl) rfl rfl h.free
  | mac hl => exact h
  | callNew op k hp hg hn hf => exact jinv_same h (isD_setPc rfl (by rw [hp]; rfl)) rfl rfl h.free
  | call op hp hg hn => exact jinv_same h (isD_setPc rfl (by rw [hp]; rfl)) rfl rfl h.free
  | lin op hp hl hg =>
    exact jinv_same h (isD_setPc rfl (by rw [hp]; rfl)) rfl rfl (fun hg' => by rw [hg] at hg'; cases hg')
  | pcl op res k pend hp => exact jinv_same h (isD_setPc rfl (by rw [hp]; rfl)) rfl rfl h.free
  | uth op hp => exact jinv_same h (isD_setPc rfl (by rw [hp]; rfl)) rfl rfl h.free
  | mulCs op res hp hr hl => exact jinv_same h (isD_setPc rfl (by rw [hp]; rfl)) rfl rfl (fun _ => rfl)
  | mulThrown op hp hl => exact jinv_same h (isD_setPc rfl (by rw [hp]; rfl)) rfl rfl (fun _ => rfl)
  | ret op res hp hr => exact jinv_same h (isD_setPc rfl (by rw [hp]; rfl)) rfl rfl h.free
  | exc op hp => exact jinv_same h (isD_setPc rfl (by rw [hp]; rfl)) rfl rfl h.free
  | dLock hp hl =>
    have hg := (h.run t (by rw [hp]; rfl)).2
    exact jinv_same h (isD_setPc rfl (by rw [hp]; rfl)) rfl rfl (fun hg' => by rw [hg] at hg'; cases hg')
  | dRetry c hp hl hc => exact jinv_same h (isD_setPc rfl (by rw [hp]; rfl)) rfl rfl (fun _ => rfl)
  | dYld c hp hc => exact jinv_same h (isD_setPc rfl (by rw [hp]; rfl)) rfl rfl h.free
  | dSlp c hp hc => exact jinv_same h (isD_setPc rfl (by rw [hp]; rfl)) rfl rfl h.free
  | dRelock c hp hl =>
    have hg := (h.run t (by rw [hp]; rfl)).2
    exact jinv_same h (isD_setPc rfl (by rw [hp]; rfl)) rfl rfl (fun hg' => by rw [hg] at hg'; cases hg')
  | retD hp => exact jinv_same h (isD_setPc rfl (by rw [hp]; rfl)) rfl rfl h.free
  | callD hp hg hd =>
    -- no destructor was running (`dt = false`): `t` becomes the only one
    have hno : ∀ u, (s.pc u).isD = false := by
      intro u
      cases hu : (s.pc u).isD with
      | false => rfl
      | true => have := (h.run u hu).1; rw [hd] at this; cases this
    refine ⟨?_, ?_, ?_⟩
    · intro u _; exact ⟨rfl, hg⟩
    · intro u v hu hv
      have key : ∀ w, ((St.setPc { s with dt := true } t .dCalled).pc w).isD = true → w = t := by
        intro w hw
        by_cases hwt : w = t
        · exact hwt
        · rw [setPc_pc_other _ t w _ hwt] at hw
          have := hno w; simp only at hw; rw [this] at hw; cases hw
      rw [key u hu, key v hv]
    · intro hg'; exact h.free hg'
  | dFinal c hp hl hc =>
    -- `t` was the only destructor thread: nobody is left inside
    refine ⟨?_, ?_, fun _ => rfl⟩
    · intro u hu
      exfalso
      by_cases hut : u = t
      · subst hut; simp [Pc.isD] at hu
      · rw [setPc_pc_other _ t u _ hut] at hu
        exact hut (h.one u t hu (by rw [hp]; rfl))
    · intro u v hu hv
      exfalso
      by_cases hut : u = t
      · subst hut; simp [Pc.isD] at hu
      · rw [setPc_pc_other _ t u _ hut] at hu
        exact hut (h.one u t hu (by rw [hp]; rfl))

theorem jinv_reachable {s : St} (h : Reachable s) : JInv s := by
  obtain ⟨es, hes⟩ := h
  exact runFrom_inv (fun s t e s' hi hs => jinv_tr hi (step_tr hs)) jinv_init hes

/-! ### what one accepted event does to the lock, to `gone` and to the `dDone` threads -/

theorem dd_setPc {s x : St} {t : Tid} {q : Pc} (hx : x.pc = s.pc) (hq : q ≠ .dDone) :
    ∀ u, (x.setPc t q).pc u = .dDone → s.pc u = .dDone := by
  intro u hu
  by_cases hut : u = t
  · subst hut; simp at hu; exact absurd hu hq
  · rw [setPc_pc_other _ t u _ hut, hx] at hu; exact hu

/-- classification of the edges of the model by their happens-before content -/
inductive Cls (s : St) (t : Tid) (e : Ev) (s' : St) : Prop
  | acq (he : e = .mlk) (h0 : s.lock = none) (h1 : s'.lock = some t) (hg : s'.gone = s.gone)
      (hw : s.gone = false ∨ (s.pc t).isD = true) (hdd : ∀ u, s'.pc u = .dDone → s.pc u = .dDone)
  | rel (he : e = .mul) (h0 : s.lock = some t) (h1 : s'.lock = none) (hg : s'.gone = s.gone)
      (hdd : ∀ u, s'.pc u = .dDone → s.pc u = .dDone)
  | fin (he : e = .mul) (h0 : s.lock = some t) (h1 : s'.lock = none) (hg : s'.gone = true) (c : Nat)
      (hp : s.pc t = .dLocked c) (hc : s.maps.objs = [] ∨ 7 ≤ c) (hdd : ∀ u, s'.pc u = .dDone → u = t ∨ s.pc u = .dDone)
  | acc (he : e = .mac) (hs : s' = s) (hl : s.lock = some t ∨ s.pc t = .dDone)
  | nop (he : toHB e = .nop) (hl : s'.lock = s.lock) (hg : s'.gone = s.gone)
      (hdd : ∀ u, s'.pc u = .dDone → s.pc u = .dDone)

theorem tr_cls {s s' : St} {t : Tid} {e : Ev} (htr : Tr s t e s') : Cls s t e s' := by
  cases htr with
  | pdt k hc hd hm hh => exact .nop rfl rfl rfl (fun _ h => h)
  | rel k hp hh => exact .nop rfl rfl rfl (fun _ h => h)
  | mac hl => exact .acc rfl rfl hl
  | callNew op k hp hg hn hf => exact .nop rfl rfl rfl (dd_setPc rfl (by simp))
  | call op hp hg hn => exact .nop rfl rfl rfl (dd_setPc rfl (by simp))
  | lin op hp hl hg => exact .acq rfl hl rfl rfl (.inl hg) (dd_setPc rfl (by simp))
  | pcl op res k pend hp => exact .nop rfl rfl rfl (dd_setPc rfl (by simp))
  | uth op hp => exact .nop rfl rfl rfl (dd_setPc rfl (by simp))
  | mulCs op res hp hr hl => exact .rel rfl hl rfl rfl (dd_setPc rfl (by simp))
  | mulThrown op hp hl => exact .rel rfl hl rfl rfl (dd_setPc rfl (by simp))
  | ret op res hp hr => exact .nop rfl rfl rfl (dd_setPc rfl (by simp))
  | exc op hp => exact .nop rfl rfl rfl (dd_setPc rfl (by simp))
  | callD hp hg hd => exact .nop rfl rfl rfl (dd_setPc rfl (by simp))
  | dLock hp hl => exact .acq rfl hl rfl rfl (.inr (by rw [hp]; rfl)) (dd_setPc rfl (by simp))
  | dRetry c hp hl hc => exact .rel rfl hl rfl rfl (dd_setPc rfl (by simp))
  | dYld c hp hc => exact .nop rfl rfl rfl (dd_setPc rfl (by simp))
  | dSlp c hp hc => exact .nop rfl rfl rfl (dd_setPc rfl (by simp))
  | dRelock c hp hl => exact .acq rfl hl rfl rfl (.inr (by rw [hp]; rfl)) (dd_setPc rfl (by simp))
  | retD hp => exact .nop rfl rfl rfl (dd_setPc rfl (by simp))
  | dFinal c hp hl hc =>
    refine .fin rfl hl rfl rfl c hp hc ?_
    intro u hu
    by_cases hut : u = t
    · exact .inl hut
    · rw [setPc_pc_other _ t u _ hut] at hu; exact .inr hu

/-! ### the mutex of the happens-before layer mirrors `St.lock` -/

def ofLock (l : Option Tid) (u : Tid) : Option HB.Mode := if l = some u then some .X else none

theorem ofLock_none (u : Tid) : ofLock none u = none := rfl
theorem ofLock_self (t : Tid) : ofLock (some t) t = some .X := by simp [ofLock]
theorem ofLock_other {t u : Tid} (h : u ≠ t) : ofLock (some t) u = none := by
  simp [ofLock]; exact fun h' => h h'.symm

theorem hm_acq {tr : HB.Trace} {t : Tid} (hH : ∀ u, HB.held tr u 0 = ofLock none u) (hM : HB.MutexOK tr) :
    (∀ u, HB.held (tr ++ [(t, .acq 0 .X)]) u 0 = ofLock (some t) u) ∧ HB.MutexOK (tr ++ [(t, .acq 0 .X)]) := by
  refine ⟨?_, ?_⟩
  · intro u
    rw [HB.held_snoc]
    by_cases hu : u = t
    · subst hu; simp [HB.hstep, ofLock_self]
    · simp [HB.hstep, hu, ofLock_other hu]; rw [hH]; rfl
  · apply HB.mutexOK_snoc hM
    · intro m md he
      injection he with hm hmd; subst hm; subst hmd
      exact ⟨by rw [hH]; rfl, fun u _ => by rw [hH]; rfl⟩
    · intro m md he; cases he

theorem hm_rel {tr : HB.Trace} {t : Tid} (hH : ∀ u, HB.held tr u 0 = ofLock (some t) u) (hM : HB.MutexOK tr) :
    (∀ u, HB.held (tr ++ [(t, .rel 0 .X)]) u 0 = ofLock none u) ∧ HB.MutexOK (tr ++ [(t, .rel 0 .X)]) := by
  refine ⟨?_, ?_⟩
  · intro u
    rw [HB.held_snoc]
    by_cases hu : u = t
    · subst hu; simp [HB.hstep, ofLock_none]
    · simp [HB.hstep, hu, ofLock_none]; rw [hH]; exact ofLock_other hu
  · apply HB.mutexOK_snoc hM
    · intro m md he; cases he
    · intro m md he
      injection he with hm hmd; subst hm; subst hmd
      rw [hH]; exact ofLock_self t

theorem hm_keep {tr : HB.Trace} {t : Tid} {e : HB.Ev} {l : Option Tid} (he : e = .nop ∨ e = .wr 0)
    (hH : ∀ u, HB.held tr u 0 = ofLock l u) (hM : HB.MutexOK tr) :
    (∀ u, HB.held (tr ++ [(t, e)]) u 0 = ofLock l u) ∧ HB.MutexOK (tr ++ [(t, e)]) := by
  refine ⟨?_, ?_⟩
  · intro u
    rw [HB.held_snoc]
    rcases he with he | he <;> subst he <;> exact hH u
  · apply HB.mutexOK_snoc hM
    · intro m md he'; rcases he with he | he <;> subst he <;> cases he'
    · intro m md he'; rcases he with he | he <;> subst he <;> cases he'

/-- extending by an event that is no plain access keeps the lockset discipline -/
theorem ls_keep {tr : HB.Trace} {t : Tid} {e : HB.Ev} (hL : HB.LockSet tr 0 0) (h1 : e ≠ .rd 0) (h2 : e ≠ .wr 0) :
    HB.LockSet (tr ++ [(t, e)]) 0 0 :=
  HB.lockSet_snoc hL (fun h => absurd h h1) (fun h => absurd h h2)

/-- **two holds of one mutex are ordered**: in a trace consistent with mutex semantics, if thread `t`
holds `m` at position `i`, a different thread `u` holds it at the later position `j`, and one of the
holds is exclusive, then `i` happens-before `j` (through `t`'s release and `u`'s acquisition) -/
theorem held_hb {tr : HB.Trace} (hok : HB.MutexOK tr) {i j : Nat} {t u : Tid} {ei ej : HB.Ev} {m : HB.Loc}
    {a b : HB.Mode} (hij : i < j) (h1 : tr[i]? = some (t, ei)) (h2 : tr[j]? = some (u, ej)) (htu : t ≠ u)
    (hta : HB.held (tr.take i) t m = some a) (hub : HB.held (tr.take j) u m = some b) (hX : a = .X ∨ b = .X) :
    HB.HB tr i j := by
  have hjl := HB.get_lt h2
  have hnotSS : ¬ (a = .S ∧ b = .S) := by
    intro ⟨h3, h4⟩; cases hX with
    | inl h => rw [h] at h3; cases h3
    | inr h => rw [h] at h4; cases h4
  rcases HB.held_acquired (i := i) (by omega) (by omega) hub with h3 | ⟨l, hil, hlj, hl⟩
  · exact absurd (HB.held_excl hok (by omega) htu hta h3) hnotSS
  · have hne : l ≠ i := by
      intro h; subst h; rw [h1] at hl; injection hl with hl; injection hl with hl; exact htu hl
    have hcomp := (HB.okAt_acq (hok l (by omega)) hl).2 t htu
    have hgone : HB.held (tr.take l) t m ≠ some a := by
      intro h; rw [h] at hcomp; exact hnotSS (HB.compat_some hcomp)
    obtain ⟨k, hik, hkl, hk⟩ := HB.held_released hok hil (by omega) hta hgone
    have hsw : HB.HB tr k j := .trans (.sw (.mutex hkl hk hl hX)) (.po hlj hl h2)
    by_cases hki : k = i
    · subst hki; exact hsw
    · exact .trans (.po (by omega) h1 hk) hsw

/-! ### the destructor's final release, as a position of the trace -/

/-- position `p` is the destructor's FINAL release of `mapLock`, made by thread `d`: the prefix before
`p` is accepted, leaves `d` at `dLocked c` with the object map empty or 7 rounds done, and event `p` is
`d`'s `mul` -/
def FinalAt (es : List (Tid × Ev)) (p : Nat) (d : Tid) : Prop :=
  ∃ s1 c, run (es.take p) = some s1 ∧ s1.pc d = .dLocked c ∧ (s1.maps.objs = [] ∨ 7 ≤ c) ∧ es[p]? = some (d, Ev.mul)

theorem FinalAt.lt {es : List (Tid × Ev)} {p : Nat} {d : Tid} (h : FinalAt es p d) : p < es.length := by
  obtain ⟨_, _, _, _, _, h4⟩ := h; exact lq_lt h4

theorem FinalAt.get {es : List (Tid × Ev)} {p : Nat} {d : Tid} (h : FinalAt es p d) : es[p]? = some (d, Ev.mul) := by
  obtain ⟨_, _, _, _, _, h4⟩ := h; exact h4

theorem FinalAt.mono {es : List (Tid × Ev)} {p : Nat} {d : Tid} (ext : List (Tid × Ev)) (h : FinalAt es p d) :
    FinalAt (es ++ ext) p d := by
  obtain ⟨s1, c, h1, h2, h3, h4⟩ := h
  refine ⟨s1, c, ?_, h2, h3, lq_mono ext h4⟩
  rw [List.take_append_of_le_length (Nat.le_of_lt (lq_lt h4))]; exact h1

/-- after position `p` nobody locks or unlocks `mapLock`, and only thread `d` touches the maps -/
def Quiet (es : List (Tid × Ev)) (p : Nat) (d : Tid) : Prop :=
  ∀ n u e, p < n → es[n]? = some (u, e) → e ≠ Ev.mlk ∧ e ≠ Ev.mul ∧ (e = Ev.mac → u = d)

/-- the trace-level facts about an accepted trace whose destructor made its final release at `p` -/
structure After (es : List (Tid × Ev)) (p : Nat) (d : Tid) : Prop where
  fin : FinalAt es p d
  /-- every map access before the final release is made under `mapLock` -/
  before : ∀ n, n < p → HB.lockedAt (hbTrace es) 0 0 n
  quiet : Quiet es p d
  /-- after the final release nobody holds `mapLock` -/
  free : ∀ n, p < n → n ≤ es.length → ∀ u, HB.held ((hbTrace es).take n) u 0 = none

/-- extend by an event that is no lock operation and no access by another thread -/
theorem After.snoc {es : List (Tid × Ev)} {p : Nat} {d t : Tid} {e : Ev} (h : After es p d) (h1 : e ≠ .mlk)
    (h2 : e ≠ .mul) (h3 : e = .mac → t = d) (hfree : ∀ u, HB.held (hbTrace (es ++ [(t, e)])) u 0 = none) :
    After (es ++ [(t, e)]) p d := by
  have hp := h.fin.lt
  refine ⟨h.fin.mono _, ?_, ?_, ?_⟩
  · intro n hn
    rw [hbTrace_snoc]
    exact (HB.lockedAt_old _ (by simp; omega)).mpr (h.before n hn)
  · intro n u e' hn hg
    rcases lq_snoc hg with ⟨_, hg⟩ | ⟨_, hg⟩
    · exact h.quiet n u e' hn hg
    · injection hg with hu he; subst hu; subst he; exact ⟨h1, h2, h3⟩
  · intro n hn hle u
    simp at hle
    by_cases hlt : n ≤ es.length
    · rw [hbTrace_snoc, List.take_append_of_le_length (by simp; exact hlt)]
      exact h.free n hn hlt u
    · have : n = (hbTrace (es ++ [(t, e)])).length := by simp; omega
      rw [this, List.take_length]; exact hfree u

/-! ### the simulation invariant -/

structure Sim (es : List (Tid × Ev)) (s : St) : Prop where
  /-- the happens-before layer's notion of "holds mutex 0" is the model's `lock` field -/
  H : ∀ u, HB.held (hbTrace es) u 0 = ofLock s.lock u
  M : HB.MutexOK (hbTrace es)
  /-- while the holder exists: lockset discipline for every access -/
  L : s.gone = false → HB.LockSet (hbTrace es) 0 0
  /-- afterwards: the final release is a position of the trace, … and the thread past it is its thread -/
  F : s.gone = true → ∃ p d, After es p d ∧ ∀ u, s.pc u = .dDone → u = d

theorem sim_nil : Sim [] init :=
  ⟨fun _ => rfl, HB.mutexOK_nil, fun _ => HB.lockSet_nil 0 0, fun h => by simp [init] at h⟩

/-- the invariant after one more event, stated on the mapped trace -/
theorem Sim.snoc {es : List (Tid × Ev)} {s' : St} {t : Tid} {e : Ev}
    (hH : ∀ u, HB.held (hbTrace es ++ [(t, toHB e)]) u 0 = ofLock s'.lock u)
    (hM : HB.MutexOK (hbTrace es ++ [(t, toHB e)]))
    (hL : s'.gone = false → HB.LockSet (hbTrace es ++ [(t, toHB e)]) 0 0)
    (hF : s'.gone = true → ∃ p d, After (es ++ [(t, e)]) p d ∧ ∀ u, s'.pc u = .dDone → u = d) :
    Sim (es ++ [(t, e)]) s' :=
  ⟨by rw [hbTrace_snoc]; exact hH, by rw [hbTrace_snoc]; exact hM, by rw [hbTrace_snoc]; exact hL, hF⟩

/-- steps taken while the holder exists and that leave it existing -/
theorem sim_alive {es : List (Tid × Ev)} {s s' : St} {t : Tid} {e : Ev} (hsim : Sim es s) (hd : DInv s)
    (hg : s.gone = false) (hg' : s'.gone = s.gone) (hc : Cls s t e s') : Sim (es ++ [(t, e)]) s' := by
  have hL := hsim.L hg
  have hF : s'.gone = true → ∃ p d, After (es ++ [(t, e)]) p d ∧ ∀ u, s'.pc u = .dDone → u = d := by
    intro h; rw [hg', hg] at h; cases h
  cases hc with
  | acq he h0 h1 _ _ _ =>
    subst he
    have hH := hsim.H; rw [h0] at hH
    obtain ⟨a, b⟩ := hm_acq (t := t) hH hsim.M
    exact Sim.snoc (by rw [h1]; exact a) b (fun _ => ls_keep hL (by simp [toHB]) (by simp [toHB])) hF
  | rel he h0 h1 _ _ =>
    subst he
    have hH := hsim.H; rw [h0] at hH
    obtain ⟨a, b⟩ := hm_rel (t := t) hH hsim.M
    exact Sim.snoc (by rw [h1]; exact a) b (fun _ => ls_keep hL (by simp [toHB]) (by simp [toHB])) hF
  | fin he h0 h1 hgt _ _ _ _ => rw [hg', hg] at hgt; cases hgt
  | acc he hs hl =>
    subst he; subst hs
    have hlk : s'.lock = some t := by
      rcases hl with hl | hl
      · exact hl
      · have := hd t hl; rw [hg] at this; cases this
    obtain ⟨a, b⟩ := hm_keep (t := t) (e := toHB .mac) (.inr rfl) hsim.H hsim.M
    refine Sim.snoc a b (fun _ => ?_) hF
    apply HB.lockSet_snoc hL
    · intro h; cases h
    · intro _; rw [hsim.H, hlk]; exact ofLock_self t
  | nop he hl _ _ =>
    have hab := hm_keep (t := t) (e := toHB e) (.inl he) hsim.H hsim.M
    obtain ⟨a, b⟩ := hab
    refine Sim.snoc (by rw [hl]; exact a) b (fun _ => ?_) hF
    rw [he]; exact ls_keep hL (by simp) (by simp)

/-- the destructor's final release -/
theorem sim_final {es : List (Tid × Ev)} {s s' : St} {t : Tid} {c : Nat} (hr : run es = some s) (hsim : Sim es s)
    (hd : DInv s) (hg : s.gone = false) (hg' : s'.gone = true) (h0 : s.lock = some t) (h1 : s'.lock = none)
    (hp : s.pc t = .dLocked c) (hc : s.maps.objs = [] ∨ 7 ≤ c) (hdd : ∀ u, s'.pc u = .dDone → u = t ∨ s.pc u = .dDone) :
    Sim (es ++ [(t, .mul)]) s' := by
  have hL := hsim.L hg
  have hH := hsim.H; rw [h0] at hH
  have hab := hm_rel (t := t) hH hsim.M
  have e1 : hbTrace (es ++ [(t, .mul)]) = hbTrace es ++ [(t, .rel 0 .X)] := hbTrace_snoc es t .mul
  rw [← e1] at hab
  obtain ⟨a, b⟩ := hab
  refine ⟨by rw [h1]; exact a, b, (fun h => by rw [hg'] at h; cases h), fun _ => ⟨es.length, t, ⟨?_, ?_, ?_, ?_⟩, ?_⟩⟩
  · exact ⟨s, c, by rw [List.take_left' rfl]; exact hr, hp, hc, lq_last _ _⟩
  · intro n hn
    rw [e1]
    exact (HB.lockedAt_old _ (by simp; exact hn)).mpr (hL n (by simp; exact hn))
  · intro n u e' hn hget
    have := lq_lt hget; simp at this; omega
  · intro n hn hle u
    simp at hle
    have : n = (hbTrace (es ++ [(t, .mul)])).length := by simp; omega
    rw [this, List.take_length, a]; rfl
  · intro u hu
    rcases hdd u hu with h | h
    · exact h
    · have := hd u h; rw [hg] at this; cases this

/-- steps taken after the final release: no lock operation is possible any more -/
theorem sim_gone {es : List (Tid × Ev)} {s s' : St} {t : Tid} {e : Ev} (hsim : Sim es s) (hj : JInv s)
    (hg : s.gone = true) (hc : Cls s t e s') : Sim (es ++ [(t, e)]) s' := by
  have hl0 := hj.free hg
  obtain ⟨p, d, haf, hone⟩ := hsim.F hg
  cases hc with
  | acq he _ _ _ hw _ =>
    rcases hw with hw | hw
    · rw [hg] at hw; cases hw
    · have := (hj.run t hw).2; rw [hg] at this; cases this
  | rel he h0 _ _ _ => rw [hl0] at h0; cases h0
  | fin he h0 _ _ _ _ _ _ => rw [hl0] at h0; cases h0
  | acc he hs hl =>
    subst he; subst hs
    have htd : t = d := by
      rcases hl with hl | hl
      · rw [hl0] at hl; cases hl
      · exact hone t hl
    have hab := hm_keep (t := t) (e := toHB .mac) (.inr rfl) hsim.H hsim.M
    rw [← hbTrace_snoc] at hab
    obtain ⟨a, b⟩ := hab
    refine ⟨a, b, (fun h => by rw [hg] at h; cases h), fun _ => ⟨p, d, ?_, hone⟩⟩
    exact haf.snoc (by simp) (by simp) (fun _ => htd) (fun u => by rw [a, hl0]; rfl)
  | nop he hl hg' hdd =>
    have hab := hm_keep (t := t) (e := toHB e) (.inl he) hsim.H hsim.M
    rw [← hbTrace_snoc] at hab
    obtain ⟨a, b⟩ := hab
    refine ⟨by rw [hl]; exact a, b, (fun h => by rw [hg', hg] at h; cases h), fun _ => ⟨p, d, ?_, ?_⟩⟩
    · refine haf.snoc ?_ ?_ ?_ (fun u => by rw [a, hl0]; rfl)
      · intro h; subst h; cases he
      · intro h; subst h; cases he
      · intro h; subst h; cases he
    · intro u hu; exact hone u (hdd u hu)

theorem sim_step {es : List (Tid × Ev)} {s s' : St} {t : Tid} {e : Ev} (hr : run es = some s) (hsim : Sim es s)
    (hs : step s t e = some s') : Sim (es ++ [(t, e)]) s' := by
  have hd : DInv s := (inv_reachable ⟨es, hr⟩).d
  have hj : JInv s := jinv_reachable ⟨es, hr⟩
  have hc := tr_cls (step_tr hs)
  cases hg : s.gone with
  | true => exact sim_gone hsim hj hg hc
  | false =>
    cases hc with
    | acq he h0 h1 hg' hw hdd => exact sim_alive hsim hd hg hg' (.acq he h0 h1 hg' hw hdd)
    | rel he h0 h1 hg' hdd => exact sim_alive hsim hd hg hg' (.rel he h0 h1 hg' hdd)
    | fin he h0 h1 hg' c hp hc hdd => subst he; exact sim_final hr hsim hd hg hg' h0 h1 hp hc hdd
    | acc he hs' hl => exact sim_alive hsim hd hg (by rw [hs']) (.acc he hs' hl)
    | nop he hl hg' hdd => exact sim_alive hsim hd hg hg' (.nop he hl hg' hdd)

/-- every accepted trace satisfies the simulation invariant -/
theorem soh_sim {es : List (Tid × Ev)} {s : St} (h : run es = some s) : Sim es s := by
  induction es using HB.snoc_induction generalizing s with
  | h0 => simp [run] at h; subst h; exact sim_nil
  | hs es x ih =>
    obtain ⟨t, e⟩ := x
    simp only [run, runFrom_append] at h
    cases h1 : runFrom step init es with
    | none => simp [h1] at h
    | some s1 =>
      simp only [h1, Option.bind_some, runFrom_cons, runFrom_nil] at h
      cases h2 : step s1 t e with
      | none => simp [h2] at h
      | some s2 =>
        simp [h2] at h; subst h
        exact sim_step h1 (ih h1) h2

/-! ### consequences -/

theorem lockedAt_mac {es : List (Tid × Ev)} {n : Nat} {u : Tid} (hn : es[n]? = some (u, Ev.mac))
    (h : HB.lockedAt (hbTrace es) 0 0 n) : HB.held ((hbTrace es).take n) u 0 = some .X := by
  have hget : (hbTrace es)[n]? = some (u, .wr 0) := hbTrace_get hn
  simp only [HB.lockedAt, hget] at h
  exact h trivial

/-- a map access of a trace with a final release at `p`: before `p` and under the lock, or after `p`,
by the destructor's thread, with the lock free -/
theorem After.access {es : List (Tid × Ev)} {p n : Nat} {d u : Tid} (h : After es p d) (hn : es[n]? = some (u, Ev.mac)) :
    (n < p ∧ HB.held ((hbTrace es).take n) u 0 = some .X) ∨
    (p < n ∧ u = d ∧ ∀ v, HB.held ((hbTrace es).take n) v 0 = none) := by
  rcases Nat.lt_trichotomy n p with hlt | heq | hgt
  · exact .inl ⟨hlt, lockedAt_mac hn (h.before n hlt)⟩
  · subst heq; rw [h.fin.get] at hn; cases hn
  · exact .inr ⟨hgt, (h.quiet n u _ hgt hn).2.2 rfl, h.free n hgt (Nat.le_of_lt (lq_lt hn))⟩

/-- the final release is unique -/
theorem After.unique {es : List (Tid × Ev)} {p p' : Nat} {d d' : Tid} (h : After es p d) (h' : FinalAt es p' d') :
    p' = p ∧ d' = d := by
  have hM : ∀ {q q' : Nat} {c c' : Tid}, After es q c → FinalAt es q' c' → ¬ q < q' := by
    intro q q' c c' a b hlt
    exact (a.quiet q' c' _ hlt b.get).2.1 rfl
  rcases Nat.lt_trichotomy p' p with hlt | heq | hgt
  · -- `gone` is set at `p'` and never reset, but at `p` thread `d` is still inside the destructor
    exfalso
    obtain ⟨s1, c, h1, h2, h3, h4⟩ := h'
    obtain ⟨t1, c1, k1, k2, k3, k4⟩ := h.fin
    have hsplit : es.take p = es.take p' ++ (d', Ev.mul) :: (es.take p).drop (p' + 1) := by
      have hlen : p' < (es.take p).length := by simp [List.length_take]; have := lq_lt k4; omega
      have hget : (es.take p)[p']? = some (d', Ev.mul) := by rw [List.getElem?_take]; simp [hlt, h4]
      conv => lhs; rw [← List.take_append_drop p' (es.take p)]
      rw [List.take_take, Nat.min_eq_left (Nat.le_of_lt hlt), List.drop_eq_getElem_cons hlen]
      congr 2
      exact (List.getElem?_eq_some_iff.mp hget).2
    have hrun := k1
    rw [hsplit] at hrun
    simp only [run, runFrom_append] at hrun h1
    rw [h1] at hrun
    simp only [Option.bind_some, runFrom_cons] at hrun
    cases hst : step s1 d' Ev.mul with
    | none => simp [hst] at hrun
    | some s2 =>
      simp only [hst, Option.bind_some] at hrun
      have hg2 : s2.gone = true := by
        have htr := step_tr hst
        cases htr with
        | mulCs op res hp _ _ => rw [hp] at h2; cases h2
        | mulThrown op hp _ => rw [hp] at h2; cases h2
        | dFinal c' hp hl hc => rfl
        | dRetry c' hp hl hc => rw [hp] at h2; injection h2 with h2; subst h2; exact absurd h3 hc
      have hmono : s2.gone = true → t1.gone = true :=
        runFrom_rel (R := fun a b : St => a.gone = true → b.gone = true) (fun _ h => h) (fun _ _ _ f g h => g (f h))
          (fun a t e b hs => by
            intro ha
            have hc := tr_cls (step_tr hs)
            cases hc with
            | acq _ _ _ hg _ _ => rw [hg]; exact ha
            | rel _ _ _ hg _ => rw [hg]; exact ha
            | fin _ _ _ hg _ _ _ _ => exact hg
            | acc _ hs _ => rw [hs]; exact ha
            | nop _ _ hg _ => rw [hg]; exact ha) hrun
      have hj := jinv_reachable ⟨_, k1⟩
      have := (hj.run d (by rw [k2]; rfl)).2
      rw [hmono hg2] at this; cases this
  · subst heq
    have a := h.fin.get; rw [h'.get] at a; injection a with a; injection a with a
    exact ⟨rfl, a⟩
  · exact absurd hgt (hM h h')

/-- **C07 for SearchableObjectHolder (model level).**  In every accepted trace any two map accesses
are ordered by happens-before, the destructor's late accesses included. -/
theorem soh_hb {es : List (Tid × Ev)} {s : St} (h : run es = some s) {i j : Nat} (hij : i < j)
    (hc : HB.ConflictOn (hbTrace es) 0 i j) : HB.HB (hbTrace es) i j := by
  have hsim := soh_sim h
  cases hg : s.gone with
  | false => exact HB.lockset_hb hsim.M (hsim.L hg) hij hc
  | true =>
    obtain ⟨p, d, haf, _⟩ := hsim.F hg
    obtain ⟨t, u, ei, ej, h1, h2, ha1, ha2, _⟩ := hc
    obtain ⟨_, _, hi⟩ := hbTrace_access h1 ha1
    obtain ⟨_, _, hj⟩ := hbTrace_access h2 ha2
    by_cases htu : t = u
    · subst htu; exact .po hij h1 h2
    · rcases haf.access hj with ⟨hjp, hju⟩ | ⟨hpj, hud, _⟩
      · rcases haf.access hi with ⟨_, hit⟩ | ⟨hpi, _, _⟩
        · exact held_hb hsim.M hij h1 h2 htu hit hju (.inl rfl)
        · omega
      · subst hud
        rcases haf.access hi with ⟨hip, hit⟩ | ⟨_, htd, _⟩
        · -- `i` under the lock → … → the destructor's final critical section → `j`
          have hp : (hbTrace es)[p]? = some (u, .rel 0 .X) := hbTrace_get haf.fin.get
          have hup : HB.held ((hbTrace es).take p) u 0 = some .X :=
            HB.okAt_rel (hsim.M p (HB.get_lt hp)) hp
          exact .trans (held_hb hsim.M hip h1 hp htu hit hup (.inl rfl)) (.po hpj hp h2)
        · exact absurd htd htu

/-- no accepted trace of the SearchableObjectHolder model contains a data race -/
theorem soh_no_race {es : List (Tid × Ev)} {s : St} (h : run es = some s) : ¬ HB.Race (hbTrace es) := by
  intro ⟨i, j, hij, ⟨x, hc⟩, hn⟩
  have hx : x = 0 := by
    obtain ⟨t, u, ei, ej, h1, _, ha, _⟩ := hc
    exact (hbTrace_access h1 ha).1
  subst hx
  exact hn (soh_hb h hij hc)

end ConcVerif.SOH
