import ConcVerif.Proof.RcuAll
import ConcVerif.Proof.HBKn
/-! Connection of the rcu_list model (`Model/Rcu.lean`) to the happens-before layer, part 1: the map from
model events to happens-before events and the synchronises-with edges the protocol uses:

* `unlock → lock` of the write mutex;
* a store to a link (`m_head`, `next`) → a load of that link which reads from it (publication of nodes);
* a successful CAS on `m_zombie_head` → every later successful CAS on it: `m_zombie_head` is only ever written
  by RMWs, so no release sequence on it is broken (publication of log records, however relaxed the initial
  load of `m_zombie_head` and the store of the new record's `next` are);
* `owner.store(nullptr)` → a load of that `owner` which reads from it (the grace period).

The memory orders are a parameter (`Ords`) wherever the model insists on `seq_cst` (today's code: `Ords.sc`);
the three accesses the model accepts with any order (`m_zombie_head.load` before a push, `rec->next.store`
before the publishing CAS, `m_tail.load` under the mutex) are mapped with the order the trace shows — the
proofs never use an edge through them. -/
namespace ConcVerif.Rcu
open HB (HBeq Kn)

/-- memory orders of the kinds of atomic operation of rcu_list the model requires to be `seq_cst` -/
structure Ords where
  ldLink : HB.Ord := .sc    -- loads of m_head / next / back
  stLink : HB.Ord := .sc    -- stores to m_head / m_tail / next / back
  cas : HB.Ord := .sc       -- successful CAS on m_zombie_head
  casFail : HB.Ord := .sc   -- failed CAS on m_zombie_head (a load)
  ldZh : HB.Ord := .sc      -- m_zombie_head.load() of the destructor
  ldRNext : HB.Ord := .sc   -- loads of a record's next
  stRNext : HB.Ord := .sc   -- m_zombie->next.store(n) at the end of a reclaim
  ldOwner : HB.Ord := .sc   -- loads of a record's owner
  stOwner : HB.Ord := .sc   -- m_zombie->owner.store(nullptr)

/-- what the happens-before argument needs of them -/
structure Ords.OK (o : Ords) : Prop where
  stLink : o.stLink.isRel = true
  ldLink : o.ldLink.isAcq = true
  casR : o.cas.isRel = true
  casA : o.cas.isAcq = true
  stOwner : o.stOwner.isRel = true
  ldOwner : o.ldOwner.isAcq = true

/-- today's code: everything seq_cst -/
def Ords.sc : Ords := {}

theorem Ords.sc_ok : Ords.sc.OK := ⟨rfl, rfl, rfl, rfl, rfl, rfl⟩

def cv : Ord → HB.Ord
  | .rlx => .rlx | .con => .con | .acq => .acq | .rel => .rel | .ar => .ar | .sc => .sc

/-- an access written `seq_cst` gets the order under study, any other the order it shows -/
def pick (o : Ord) (x : HB.Ord) : HB.Ord := if o.isSc = true then x else cv o

theorem pick_sc {o : Ord} (x : HB.Ord) (h : o.isSc = true) : pick o x = x := by simp [pick, h]

/-- atomic locations -/
def fldLoc : Fld → Nat
  | .head => 0 | .tail => 1 | .zhead => 2
  | .nnext n => 4 * n + 4 | .nback n => 4 * n + 5 | .rnext r => 4 * r + 6 | .rowner r => 4 * r + 7

theorem fldLoc_inj {f g : Fld} (h : fldLoc f = fldLoc g) : f = g := by
  cases f <;> cases g <;> simp only [fldLoc] at h <;> first | rfl | omega | (congr 1; omega)

def Fld.isLink : Fld → Bool
  | .head | .tail | .nnext _ | .nback _ => true
  | _ => false

def Fld.ldOrd (w : Ords) : Fld → HB.Ord
  | .head | .tail | .nnext _ | .nback _ => w.ldLink
  | .zhead => w.ldZh
  | .rnext _ => w.ldRNext
  | .rowner _ => w.ldOwner

def Fld.stOrd (w : Ords) : Fld → HB.Ord
  | .head | .tail | .nnext _ | .nback _ => w.stLink
  | .zhead => .sc
  | .rnext _ => w.stRNext
  | .rowner _ => w.stOwner

/-- plain locations: `data` and `deleted` of a node, `zombie_node` of a record -/
def dataLoc (n : Nat) : Nat := 3 * n
def delLoc (n : Nat) : Nat := 3 * n + 1
def znLoc (r : Nat) : Nat := 3 * r + 2

/-- the plain location a whole-node event (construction, destruction, deallocation) is shown at: `sel`
chooses the field, the theorems hold for both choices -/
def nodeLoc (sel : Bool) (n : Nat) : Nat := if sel = true then dataLoc n else delLoc n

/-- happens-before content of a model event (write mutex = mutex 0) -/
def toHB (w : Ords) (sel : Bool) : Ev → HB.Ev
  | .mlk => .acq 0 .X
  | .mul => .rel 0 .X
  | .ald f o _ => .ld (fldLoc f) (pick o (f.ldOrd w))
  | .ast f o _ => .st (fldLoc f) (pick o (f.stOrd w))
  | .cas o _ _ true _ => .rmw 2 (pick o w.cas)
  | .cas o _ _ false _ => .ld 2 (pick o w.casFail)
  | .conN n _ => .wr (nodeLoc sel n)
  | .des false n => .wr (nodeLoc sel n)
  | .fre false n => .wr (nodeLoc sel n)
  | .pldData n _ => .rd (dataLoc n)
  | .pstData n _ => .wr (dataLoc n)
  | .pldDel n _ => .rd (delLoc n)
  | .pstDel n _ => .wr (delLoc n)
  | .conR r _ _ => .wr (znLoc r)
  | .des true r => .wr (znLoc r)
  | .fre true r => .wr (znLoc r)
  | .pldZn r _ => .rd (znLoc r)
  | .pstZn r _ => .wr (znLoc r)
  | _ => .nop

def hbTrace (w : Ords) (sel : Bool) (es : List (Tid × Ev)) : HB.Trace := es.map (fun p => (p.1, toHB w sel p.2))

theorem hbTrace_append (w : Ords) (sel : Bool) (es ext : List (Tid × Ev)) :
    hbTrace w sel (es ++ ext) = hbTrace w sel es ++ hbTrace w sel ext := by simp [hbTrace]

theorem hbTrace_snoc (w : Ords) (sel : Bool) (es : List (Tid × Ev)) (t : Tid) (e : Ev) :
    hbTrace w sel (es ++ [(t, e)]) = hbTrace w sel es ++ [(t, toHB w sel e)] := by simp [hbTrace]

@[simp] theorem hbTrace_length (w : Ords) (sel : Bool) (es : List (Tid × Ev)) : (hbTrace w sel es).length = es.length := by
  simp [hbTrace]

theorem hbTrace_get {w : Ords} {sel : Bool} {es : List (Tid × Ev)} {i : Nat} {t : Tid} {e : Ev} (h : es[i]? = some (t, e)) :
    (hbTrace w sel es)[i]? = some (t, toHB w sel e) := by simp [hbTrace, h]

theorem hbTrace_get_inv {w : Ords} {sel : Bool} {es : List (Tid × Ev)} {i : Nat} {t : Tid} {he : HB.Ev}
    (h : (hbTrace w sel es)[i]? = some (t, he)) : ∃ e, es[i]? = some (t, e) ∧ toHB w sel e = he := by
  simp only [hbTrace, List.getElem?_map] at h
  cases hk : es[i]? with
  | none => simp [hk] at h
  | some p =>
    obtain ⟨u, e⟩ := p
    simp [hk] at h
    exact ⟨e, by rw [h.1], h.2⟩

/-- only a store to field `f` is mapped to a store of `fldLoc f` -/
theorem toHB_st {w : Ords} {sel : Bool} {e : Ev} {f : Fld} {od : HB.Ord} (h : toHB w sel e = .st (fldLoc f) od) :
    ∃ o v, e = .ast f o v := by
  cases e with
  | ast g o v =>
    simp only [toHB] at h
    injection h with h1 _
    rw [fldLoc_inj h1]; exact ⟨o, v, rfl⟩
  | cas o a b ok c => cases ok <;> simp [toHB] at h
  | des z n => cases z <;> simp [toHB] at h
  | fre z n => cases z <;> simp [toHB] at h
  | _ => simp [toHB] at h

/-- `q` holds the latest store to field `f` -/
def LatestSt (es : List (Tid × Ev)) (f : Fld) (q : Nat) : Prop := ∀ k w o v, q < k → es[k]? ≠ some (w, Ev.ast f o v)

theorem LatestSt.snoc {es : List (Tid × Ev)} {f : Fld} {q : Nat} {t : Tid} {e : Ev} (h : LatestSt es f q)
    (he : ∀ o v, e ≠ .ast f o v) : LatestSt (es ++ [(t, e)]) f q := by
  intro k w o v hqk hk
  rcases HB.lq_snoc hk with ⟨_, hk'⟩ | ⟨_, hp⟩
  · exact h k w o v hqk hk'
  · injection hp with _ h2; exact he o v h2.symm

theorem LatestSt.last (es : List (Tid × Ev)) (f : Fld) (x : Tid × Ev) : LatestSt (es ++ [x]) f es.length := by
  intro k w o v hk hc
  have := HB.lq_lt hc
  simp at this; omega

/-! ### the synchronises-with edges -/

/-- an unlock of the write mutex synchronises with the lock that has just been performed -/
theorem sw_mutex {w : Ords} {sel : Bool} {es : List (Tid × Ev)} {k : Nat} {v t : Tid} (hk : es[k]? = some (v, .mul)) :
    HB.Sw (hbTrace w sel es ++ [(t, toHB w sel .mlk)]) k (hbTrace w sel es).length := by
  have hlt : k < (hbTrace w sel es).length := by simp; exact HB.lq_lt hk
  exact .mutex (md := .X) (md' := .X) hlt (HB.get_mono _ (hbTrace_get hk)) (HB.get_last _ _) (.inl rfl)

/-- the latest store to a field synchronises with the load of it that has just been performed, when both
are written `seq_cst` and the orders under study release / acquire -/
theorem sw_st_ld {w : Ords} {sel : Bool} {es : List (Tid × Ev)} {f : Fld} {q : Nat} {u t : Tid} {o o' : Ord}
    {v v' : Option Nat} (hr : (f.stOrd w).isRel = true) (ha : (f.ldOrd w).isAcq = true)
    (hq : es[q]? = some (u, .ast f o v)) (ho : o.isSc = true) (ho' : o'.isSc = true) (hl : LatestSt es f q) :
    HB.Sw (hbTrace w sel es ++ [(t, toHB w sel (.ald f o' v'))]) q (hbTrace w sel es).length := by
  have hlt : q < (hbTrace w sel es).length := by simp; exact HB.lq_lt hq
  refine .atomic (a := fldLoc f) hlt (HB.get_mono _ (hbTrace_get hq)) (HB.get_last _ _)
    ⟨f.stOrd w, hr, .inl (by simp [toHB, pick_sc _ ho])⟩ ⟨f.ldOrd w, ha, .inl (by simp [toHB, pick_sc _ ho'])⟩ ?_
  intro k x od h1 h2 hc
  rw [List.getElem?_append_left h2] at hc
  obtain ⟨e, he, hm⟩ := hbTrace_get_inv hc
  obtain ⟨o2, v2, rfl⟩ := toHB_st hm
  exact hl k x o2 v2 h1 he

/-- `m_zombie_head` is never stored to (it is only written by CAS) -/
def NoZhSt (es : List (Tid × Ev)) : Prop := ∀ (k : Nat) (u : Tid) (o : Ord) (v : Option Nat), es[k]? ≠ some (u, Ev.ast .zhead o v)

/-- every earlier successful CAS on `m_zombie_head` synchronises with the successful CAS that has just
been performed: no release sequence on `m_zombie_head` is ever broken -/
theorem sw_cas {w : Ords} (hw : w.OK) {sel : Bool} {es : List (Tid × Ev)} (hz : NoZhSt es) {p : Nat} {u t : Tid} {o o' : Ord}
    {a b c a' b' c' : Option Nat} (hp : es[p]? = some (u, .cas o a b true c)) (ho : o.isSc = true) (ho' : o'.isSc = true) :
    HB.Sw (hbTrace w sel es ++ [(t, toHB w sel (.cas o' a' b' true c'))]) p (hbTrace w sel es).length := by
  have hlt : p < (hbTrace w sel es).length := by simp; exact HB.lq_lt hp
  refine .atomic (a := 2) hlt (HB.get_mono _ (hbTrace_get hp)) (HB.get_last _ _)
    ⟨w.cas, hw.casR, .inr (by simp [toHB, pick_sc _ ho])⟩ ⟨w.cas, hw.casA, .inr (by simp [toHB, pick_sc _ ho'])⟩ ?_
  intro k x od _ h2 hc
  rw [List.getElem?_append_left h2] at hc
  obtain ⟨e, he, hm⟩ := hbTrace_get_inv hc
  obtain ⟨o2, v2, rfl⟩ := toHB_st (f := .zhead) hm
  exact hz k x o2 v2 he

/-- program order inside the mapped trace -/
theorem po_hb {w : Ords} {sel : Bool} {es : List (Tid × Ev)} {i j : Nat} {t : Tid} {ei ej : Ev} (hij : i < j)
    (hi : es[i]? = some (t, ei)) (hj : es[j]? = some (t, ej)) : HB.HB (hbTrace w sel es) i j :=
  .po hij (hbTrace_get hi) (hbTrace_get hj)

end ConcVerif.Rcu
