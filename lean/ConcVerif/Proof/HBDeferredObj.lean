import ConcVerif.Proof.HBDeferred
import ConcVerif.Proof.HBLock
import ConcVerif.Proof.HBComplete
/-! Connection of the `deferred_guarded` model to the happens-before layer, part 2: the WRAPPED OBJECT.

`Proof/HBDeferred.lean` treats the queued closure (edge `unlock qm → lock qm`).  This file treats the
object itself (plain location 0 of `toHB`): it is written only by the modifying functions — run by the
caller of `modify_*` on the direct path or by whichever thread drains the queue — and read by them, by
`load()` and by the holders of a shared handle.  The simulation `hb_sim` shows, by induction over the
accepted trace, that the happens-before view of who holds the shared mutex `m` (mutex 0) and the queue
mutex `qm` (mutex 1) is exactly the model's `mx` / `sh` / `qm`, that the mapped trace is consistent with
(shared) mutex semantics for both, and that every write of the object is made holding `m` exclusively
and every read holding `m` in some mode.  The orders of the pending flag are an arbitrary parameter. -/
namespace ConcVerif.Deferred
open HB (lq_lt lq_mono lq_last)

/-! ### what each event does to the three lock fields -/

/-- events that leave `mx`, `sh`, `qm` alone whatever their arguments -/
def Ev.linert : Ev → Bool
  | .mtl _ | .mul | .slk | .stl _ | .stf _ | .sul | .qlk | .qul => false
  | _ => true

/-- the three lock fields are unchanged -/
def Same3 (s s' : St) : Prop := s'.mx = s.mx ∧ s'.sh = s.sh ∧ s'.qm = s.qm

theorem step_linert {s s' : St} {t : Tid} {e : Ev} (hs : step s t e = some s') (he : e.linert = true) :
    Same3 s s' := by
  unfold step at hs
  split at hs
  all_goals (try split at hs)
  all_goals (try split at hs)
  all_goals (try split at hs)
  all_goals (try split at hs)
  all_goals (try contradiction)
  all_goals (try (injection hs with hs; subst hs))
  all_goals first | exact ⟨rfl, rfl, rfl⟩ | (simp [Ev.linert] at he)

/-- exclusive try-lock of `m` -/
theorem mtl_eff {s s' : St} {t : Tid} {ok : Bool} (hs : step s t (.mtl ok) = some s') :
    (ok = false ∧ Same3 s s') ∨
    (ok = true ∧ s.mx = none ∧ s.sh = [] ∧ s'.mx = some t ∧ s'.sh = s.sh ∧ s'.qm = s.qm) := by
  cases hp : s.pc t <;> simp [step, hp] at hs
  all_goals
    obtain ⟨h1, h⟩ := hs
    cases ok
    · simp at h; subst h; exact .inl ⟨rfl, rfl, rfl, rfl⟩
    · simp at h; subst h; exact .inr ⟨rfl, (tryX_true h1).1, (tryX_true h1).2, rfl, rfl, rfl⟩

/-- exclusive unlock of `m` -/
theorem mul_eff {s s' : St} {t : Tid} (hs : step s t .mul = some s') :
    s.mx = some t ∧ s'.mx = none ∧ s'.sh = s.sh ∧ s'.qm = s.qm := by
  cases hp : s.pc t <;> simp [step, hp] at hs
  · rename_i c; cases c <;> simp at hs
    obtain ⟨h1, h⟩ := hs; subst h; exact ⟨h1.2, rfl, rfl, rfl⟩
  · obtain ⟨h1, h⟩ := hs; subst h; exact ⟨h1, rfl, rfl, rfl⟩

/-- what a granted shared acquisition does -/
def GrantS (s s' : St) (t : Tid) : Prop :=
  s.mx = none ∧ (s.pc t).holdsS = false ∧ s'.mx = s.mx ∧ s'.sh = t :: s.sh ∧ s'.qm = s.qm

theorem slk_eff {s s' : St} {t : Tid} (hs : step s t .slk = some s') : GrantS s s' t := by
  cases hp : s.pc t <;> simp [step, hp] at hs
  obtain ⟨h1, h⟩ := hs; subst h
  exact ⟨h1.2, by rw [hp]; rfl, rfl, rfl, rfl⟩

theorem stl_eff {s s' : St} {t : Tid} {ok : Bool} (hs : step s t (.stl ok) = some s') :
    (ok = false ∧ Same3 s s') ∨ (ok = true ∧ GrantS s s' t) := by
  cases hp : s.pc t <;> simp [step, hp] at hs
  rename_i c
  cases c with
  | load => simp at hs
  | acq h =>
    cases h <;> simp at hs
    cases ok
    · simp at hs; subst hs; exact .inl ⟨rfl, rfl, rfl, rfl⟩
    · simp at hs; obtain ⟨h1, h⟩ := hs; subst h
      exact .inr ⟨rfl, h1, by rw [hp]; rfl, rfl, rfl, rfl⟩

theorem stf_eff {s s' : St} {t : Tid} {ok : Bool} (hs : step s t (.stf ok) = some s') :
    (ok = false ∧ Same3 s s') ∨ (ok = true ∧ GrantS s s' t) := by
  cases hp : s.pc t <;> simp [step, hp] at hs
  rename_i c
  cases c with
  | load => simp at hs
  | acq h =>
    simp at hs
    obtain ⟨_, hs⟩ := hs
    cases ok
    · simp at hs; subst hs; exact .inl ⟨rfl, rfl, rfl, rfl⟩
    · simp at hs; obtain ⟨h1, h⟩ := hs; subst h
      exact .inr ⟨rfl, h1, by rw [hp]; rfl, rfl, rfl, rfl⟩

/-- shared unlock of `m` -/
theorem sul_eff {s s' : St} {t : Tid} (hs : step s t .sul = some s') :
    t ∈ s.sh ∧ s'.mx = s.mx ∧ s'.sh = s.sh.erase t ∧ s'.qm = s.qm := by
  cases hp : s.pc t <;> simp [step, hp] at hs
  · rename_i h; cases h <;> simp at hs
    obtain ⟨h1, h⟩ := hs; subst h; exact ⟨h1, rfl, rfl, rfl⟩
  · obtain ⟨h1, h⟩ := hs; subst h; exact ⟨h1, rfl, rfl, rfl⟩

/-- lock of the queue mutex -/
theorem qlk_eff {s s' : St} {t : Tid} (hs : step s t .qlk = some s') :
    s.qm = none ∧ s'.qm = some t ∧ s'.mx = s.mx ∧ s'.sh = s.sh := by
  cases hp : s.pc t <;> simp [step, hp] at hs
  all_goals (obtain ⟨h1, h⟩ := hs; subst h; exact ⟨h1, rfl, rfl, rfl⟩)

/-- unlock of the queue mutex -/
theorem qul_eff {s s' : St} {t : Tid} (hs : step s t .qul = some s') :
    s.qm = some t ∧ s'.qm = none ∧ s'.mx = s.mx ∧ s'.sh = s.sh := by
  cases hp : s.pc t <;> simp [step, hp] at hs
  · obtain ⟨h1, h⟩ := hs; subst h; exact ⟨h1, rfl, rfl, rfl⟩
  · obtain ⟨⟨h1, _⟩, h⟩ := hs; subst h; exact ⟨h1, rfl, rfl, rfl⟩

/-- the object is read only at a pc that holds `m` (exclusively: inside a modifying function; shared:
with a handle or inside `load()`) -/
theorem prd_pc {s s' : St} {t : Tid} {v : Int} (hs : step s t (.prd v) = some s') :
    (s.pc t).holdsX = true ∨ (s.pc t).holdsS = true := by
  cases hp : s.pc t <;> simp [step, hp] at hs
  · rename_i h; cases h <;> simp at hs
    exact .inr rfl
  · exact .inl rfl
  · exact .inl rfl
  · exact .inr rfl

/-- the object is written only inside a modifying function, which holds `m` exclusively -/
theorem pwr_pc {s s' : St} {t : Tid} {v : Int} (hs : step s t (.pwr v) = some s') : (s.pc t).holdsX = true := by
  cases hp : s.pc t <;> simp [step, hp] at hs
  all_goals rfl

/-! ### who holds what, read off the model state -/

/-- mutex 0 = `m` (exclusive holder `mx`, shared holders `sh`), mutex 1 = `qm`; nothing else exists -/
def holdOf (mx : Option Tid) (sh : List Tid) (qm : Option Tid) (u : Tid) : HB.Loc → Option HB.Mode
  | 0 => if mx = some u then some .X else if u ∈ sh then some .S else none
  | 1 => if qm = some u then some .X else none
  | _ => none

def St.hold (s : St) (u : Tid) (m : HB.Loc) : Option HB.Mode := holdOf s.mx s.sh s.qm u m

theorem hold_same3 {s s' : St} (h : Same3 s s') (u : Tid) (m : HB.Loc) : s'.hold u m = s.hold u m := by
  obtain ⟨a, b, c⟩ := h
  simp only [St.hold, a, b, c]

theorem hold_acqX (sh : List Tid) (qm : Option Tid) (t u : Tid) (l : HB.Loc) :
    holdOf (some t) sh qm u l = if u = t ∧ l = 0 then some .X else holdOf none sh qm u l := by
  rcases l with _ | _ | n
  · by_cases hu : u = t
    · subst hu; simp [holdOf]
    · have : t ≠ u := fun h => hu h.symm
      simp [holdOf, hu, this]
  · simp [holdOf]
  · simp [holdOf]

theorem hold_relX (qm : Option Tid) (t u : Tid) (l : HB.Loc) :
    holdOf none [] qm u l = if u = t ∧ l = 0 then none else holdOf (some t) [] qm u l := by
  rcases l with _ | _ | n
  · by_cases hu : u = t
    · subst hu; simp [holdOf]
    · have : t ≠ u := fun h => hu h.symm
      simp [holdOf, hu, this]
  · simp [holdOf]
  · simp [holdOf]

theorem hold_acqS {sh : List Tid} (qm : Option Tid) {t : Tid} (hn : t ∉ sh) (u : Tid) (l : HB.Loc) :
    holdOf none (t :: sh) qm u l = if u = t ∧ l = 0 then some .S else holdOf none sh qm u l := by
  rcases l with _ | _ | n
  · by_cases hu : u = t
    · subst hu; simp [holdOf]
    · simp [holdOf, hu]
  · simp [holdOf]
  · simp [holdOf]

theorem hold_relS {sh : List Tid} (qm : Option Tid) (t : Tid) (hnd : sh.Nodup) (u : Tid) (l : HB.Loc) :
    holdOf none (sh.erase t) qm u l = if u = t ∧ l = 0 then none else holdOf none sh qm u l := by
  rcases l with _ | _ | n
  · by_cases hu : u = t
    · subst hu; simp [holdOf, hnd.mem_erase_iff]
    · simp [holdOf, hu, hnd.mem_erase_iff]
  · simp [holdOf]
  · simp [holdOf]

theorem hold_acqQ (mx : Option Tid) (sh : List Tid) (t u : Tid) (l : HB.Loc) :
    holdOf mx sh (some t) u l = if u = t ∧ l = 1 then some .X else holdOf mx sh none u l := by
  rcases l with _ | _ | n
  · simp [holdOf]
  · by_cases hu : u = t
    · subst hu; simp [holdOf]
    · have : t ≠ u := fun h => hu h.symm
      simp [holdOf, hu, this]
  · simp [holdOf]

theorem hold_relQ (mx : Option Tid) (sh : List Tid) (t u : Tid) (l : HB.Loc) :
    holdOf mx sh none u l = if u = t ∧ l = 1 then none else holdOf mx sh (some t) u l := by
  rcases l with _ | _ | n
  · simp [holdOf]
  · by_cases hu : u = t
    · subst hu; simp [holdOf]
    · have : t ≠ u := fun h => hu h.symm
      simp [holdOf, hu, this]
  · simp [holdOf]

/-! ### the simulation invariant and its preservation, one lemma per kind of happens-before event -/

/-- after the accepted trace: the happens-before view of every thread's hold on every mutex is the
model's, the mapped trace respects (shared) mutex semantics, and every access of the object (plain
location 0) is made under `m` (mutex 0) — writes exclusively -/
structure Sim (tr : HB.Trace) (s : St) : Prop where
  H : ∀ u m, HB.held tr u m = s.hold u m
  M : HB.MutexOK tr
  L : HB.LockSet tr 0 0

theorem sim_init (spur : Bool) : Sim [] (init spur) := by
  refine ⟨?_, HB.mutexOK_nil, HB.lockSet_nil 0 0⟩
  intro u m
  rcases m with _ | _ | n <;> simp [HB.held, St.hold, holdOf, init]

/-- an event that is neither an acquisition nor a release -/
theorem sim_plain {tr : HB.Trace} {s s' : St} {t : Tid} {he : HB.Ev} (h : Sim tr s) (h3 : Same3 s s')
    (hna : ∀ m md, he ≠ .acq m md) (hnr : ∀ m md, he ≠ .rel m md)
    (hrd : he = .rd 0 → s.hold t 0 ≠ none) (hwr : he = .wr 0 → s.hold t 0 = some .X) :
    Sim (tr ++ [(t, he)]) s' := by
  refine ⟨?_, ?_, ?_⟩
  · intro u m
    rw [HB.held_snoc, hold_same3 h3, ← h.H]
    cases he with
    | acq m' md => exact absurd rfl (hna m' md)
    | rel m' md => exact absurd rfl (hnr m' md)
    | _ => rfl
  · exact HB.mutexOK_snoc h.M (fun m md e => absurd e (hna m md)) (fun m md e => absurd e (hnr m md))
  · exact HB.lockSet_snoc h.L (fun e => by rw [h.H]; exact hrd e) (fun e => by rw [h.H]; exact hwr e)

theorem sim_acq {tr : HB.Trace} {s s' : St} {t : Tid} {m : HB.Loc} {md : HB.Mode} (h : Sim tr s)
    (hfree : s.hold t m = none) (hcompat : ∀ u, u ≠ t → HB.compat (s.hold u m) md = true)
    (hnew : ∀ u l, s'.hold u l = if u = t ∧ l = m then some md else s.hold u l) :
    Sim (tr ++ [(t, .acq m md)]) s' := by
  refine ⟨?_, ?_, ?_⟩
  · intro u l
    rw [HB.held_snoc, hnew, ← h.H]; rfl
  · apply HB.mutexOK_snoc h.M
    · intro m' md' e
      injection e with e1 e2; subst e1; subst e2
      exact ⟨by rw [h.H]; exact hfree, fun u hu => by rw [h.H]; exact hcompat u hu⟩
    · intro m' md' e; cases e
  · exact HB.lockSet_snoc h.L (fun e => by cases e) (fun e => by cases e)

theorem sim_rel {tr : HB.Trace} {s s' : St} {t : Tid} {m : HB.Loc} {md : HB.Mode} (h : Sim tr s)
    (hheld : s.hold t m = some md)
    (hnew : ∀ u l, s'.hold u l = if u = t ∧ l = m then none else s.hold u l) :
    Sim (tr ++ [(t, .rel m md)]) s' := by
  refine ⟨?_, ?_, ?_⟩
  · intro u l
    rw [HB.held_snoc, hnew, ← h.H]; rfl
  · apply HB.mutexOK_snoc h.M
    · intro m' md' e; cases e
    · intro m' md' e
      injection e with e1 e2; subst e1; subst e2
      rw [h.H]; exact hheld
  · exact HB.lockSet_snoc h.L (fun e => by cases e) (fun e => by cases e)

/-! ### each model event preserves the simulation -/

theorem hold_of_X {s : St} {t : Tid} (hL : InvL s) (hx : (s.pc t).holdsX = true) : s.hold t 0 = some .X := by
  have := (hL.mxP t).2 hx
  simp [St.hold, holdOf, this]

theorem hold_of_S {s : St} {t : Tid} (hL : InvL s) (hx : (s.pc t).holdsS = true) : s.hold t 0 = some .S := by
  have hin := (hL.shP t).2 hx
  have hm : s.mx = none := by
    cases hmx : s.mx with
    | none => rfl
    | some w =>
      have := hL.xs (by rw [hmx]; intro h; cases h)
      rw [this] at hin; cases hin
  simp [St.hold, holdOf, hm, hin]

theorem sim_mtl {tr : HB.Trace} {o : FlagOrds} {s s' : St} {t : Tid} {ok : Bool} (h : Sim tr s)
    (hs : step s t (.mtl ok) = some s') : Sim (tr ++ [(t, toHB o (.mtl ok))]) s' := by
  rcases mtl_eff hs with ⟨hok, h3⟩ | ⟨hok, hm, hsh, hm', hsh', hq'⟩ <;> subst hok
  · exact sim_plain h h3 (fun _ _ e => by cases e) (fun _ _ e => by cases e) (fun e => by cases e) (fun e => by cases e)
  · refine sim_acq (m := 0) (md := .X) h ?_ ?_ ?_
    · simp [St.hold, holdOf, hm, hsh]
    · intro u _; simp [St.hold, holdOf, hm, hsh, HB.compat]
    · intro u l
      show holdOf s'.mx s'.sh s'.qm u l = if u = t ∧ l = 0 then some .X else holdOf s.mx s.sh s.qm u l
      rw [hm', hsh', hq', hm]; exact hold_acqX _ _ _ _ _

theorem sim_mul {tr : HB.Trace} {o : FlagOrds} {s s' : St} {t : Tid} (hL : InvL s) (h : Sim tr s)
    (hs : step s t .mul = some s') : Sim (tr ++ [(t, toHB o .mul)]) s' := by
  obtain ⟨hm, hm', hsh', hq'⟩ := mul_eff hs
  have hsh : s.sh = [] := hL.xs (by rw [hm]; intro h; cases h)
  refine sim_rel (m := 0) (md := .X) h ?_ ?_
  · simp [St.hold, holdOf, hm]
  · intro u l
    show holdOf s'.mx s'.sh s'.qm u l = if u = t ∧ l = 0 then none else holdOf s.mx s.sh s.qm u l
    rw [hm', hsh', hq', hm, hsh]; exact hold_relX _ _ _ _

theorem sim_grantS {tr : HB.Trace} {s s' : St} {t : Tid} (hL : InvL s) (h : Sim tr s) (hg : GrantS s s' t) :
    Sim (tr ++ [(t, .acq 0 .S)]) s' := by
  obtain ⟨hm, hns, hm', hsh', hq'⟩ := hg
  have hnin : t ∉ s.sh := by
    intro hin; have := (hL.shP t).1 hin; rw [hns] at this; cases this
  refine sim_acq h ?_ ?_ ?_
  · simp [St.hold, holdOf, hm, hnin]
  · intro u _
    by_cases hu : u ∈ s.sh <;> simp [St.hold, holdOf, hm, hu, HB.compat]
  · intro u l
    show holdOf s'.mx s'.sh s'.qm u l = if u = t ∧ l = 0 then some .S else holdOf s.mx s.sh s.qm u l
    rw [hm', hsh', hq', hm]; exact hold_acqS _ hnin _ _

theorem sim_slk {tr : HB.Trace} {o : FlagOrds} {s s' : St} {t : Tid} (hL : InvL s) (h : Sim tr s)
    (hs : step s t .slk = some s') : Sim (tr ++ [(t, toHB o .slk)]) s' :=
  sim_grantS hL h (slk_eff hs)

theorem sim_stl {tr : HB.Trace} {o : FlagOrds} {s s' : St} {t : Tid} {ok : Bool} (hL : InvL s) (h : Sim tr s)
    (hs : step s t (.stl ok) = some s') : Sim (tr ++ [(t, toHB o (.stl ok))]) s' := by
  rcases stl_eff hs with ⟨hok, h3⟩ | ⟨hok, hg⟩ <;> subst hok
  · exact sim_plain h h3 (fun _ _ e => by cases e) (fun _ _ e => by cases e) (fun e => by cases e) (fun e => by cases e)
  · exact sim_grantS hL h hg

theorem sim_stf {tr : HB.Trace} {o : FlagOrds} {s s' : St} {t : Tid} {ok : Bool} (hL : InvL s) (h : Sim tr s)
    (hs : step s t (.stf ok) = some s') : Sim (tr ++ [(t, toHB o (.stf ok))]) s' := by
  rcases stf_eff hs with ⟨hok, h3⟩ | ⟨hok, hg⟩ <;> subst hok
  · exact sim_plain h h3 (fun _ _ e => by cases e) (fun _ _ e => by cases e) (fun e => by cases e) (fun e => by cases e)
  · exact sim_grantS hL h hg

theorem sim_sul {tr : HB.Trace} {o : FlagOrds} {s s' : St} {t : Tid} (hL : InvL s) (h : Sim tr s)
    (hs : step s t .sul = some s') : Sim (tr ++ [(t, toHB o .sul)]) s' := by
  obtain ⟨hin, hm', hsh', hq'⟩ := sul_eff hs
  have hm : s.mx = none := by
    cases hmx : s.mx with
    | none => rfl
    | some w =>
      have := hL.xs (by rw [hmx]; intro h; cases h)
      rw [this] at hin; cases hin
  refine sim_rel (m := 0) (md := .S) h ?_ ?_
  · simp [St.hold, holdOf, hm, hin]
  · intro u l
    show holdOf s'.mx s'.sh s'.qm u l = if u = t ∧ l = 0 then none else holdOf s.mx s.sh s.qm u l
    rw [hm', hsh', hq', hm]; exact hold_relS _ _ hL.shN _ _

theorem sim_qlk {tr : HB.Trace} {o : FlagOrds} {s s' : St} {t : Tid} (h : Sim tr s)
    (hs : step s t .qlk = some s') : Sim (tr ++ [(t, toHB o .qlk)]) s' := by
  obtain ⟨hq, hq', hm', hsh'⟩ := qlk_eff hs
  refine sim_acq (m := 1) (md := .X) h ?_ ?_ ?_
  · simp [St.hold, holdOf, hq]
  · intro u _; simp [St.hold, holdOf, hq, HB.compat]
  · intro u l
    show holdOf s'.mx s'.sh s'.qm u l = if u = t ∧ l = 1 then some .X else holdOf s.mx s.sh s.qm u l
    rw [hm', hsh', hq', hq]; exact hold_acqQ _ _ _ _ _

theorem sim_qul {tr : HB.Trace} {o : FlagOrds} {s s' : St} {t : Tid} (h : Sim tr s)
    (hs : step s t .qul = some s') : Sim (tr ++ [(t, toHB o .qul)]) s' := by
  obtain ⟨hq, hq', hm', hsh'⟩ := qul_eff hs
  refine sim_rel (m := 1) (md := .X) h ?_ ?_
  · simp [St.hold, holdOf, hq]
  · intro u l
    show holdOf s'.mx s'.sh s'.qm u l = if u = t ∧ l = 1 then none else holdOf s.mx s.sh s.qm u l
    rw [hm', hsh', hq', hq]; exact hold_relQ _ _ _ _ _

theorem sim_prd {tr : HB.Trace} {o : FlagOrds} {s s' : St} {t : Tid} {v : Int} (hL : InvL s) (h : Sim tr s)
    (hs : step s t (.prd v) = some s') : Sim (tr ++ [(t, toHB o (.prd v))]) s' := by
  refine sim_plain h (step_linert hs rfl) (fun _ _ e => by cases e) (fun _ _ e => by cases e) ?_ (fun e => by cases e)
  intro _
  rcases prd_pc hs with hx | hx
  · rw [hold_of_X hL hx]; intro e; cases e
  · rw [hold_of_S hL hx]; intro e; cases e

theorem sim_pwr {tr : HB.Trace} {o : FlagOrds} {s s' : St} {t : Tid} {v : Int} (hL : InvL s) (h : Sim tr s)
    (hs : step s t (.pwr v) = some s') : Sim (tr ++ [(t, toHB o (.pwr v))]) s' :=
  sim_plain h (step_linert hs rfl) (fun _ _ e => by cases e) (fun _ _ e => by cases e) (fun e => by cases e)
    (fun _ => hold_of_X hL (pwr_pc hs))

/-- every other event: no effect on the locks, and its happens-before content is `nop` or an atomic
operation on the flag -/
theorem sim_inert {tr : HB.Trace} {o : FlagOrds} {s s' : St} {t : Tid} {e : Ev} (h : Sim tr s)
    (hs : step s t e = some s') (hin : e.linert = true) (hr : ∀ v, e ≠ .prd v) (hw : ∀ v, e ≠ .pwr v) :
    Sim (tr ++ [(t, toHB o e)]) s' := by
  refine sim_plain h (step_linert hs hin) ?_ ?_ ?_ ?_
  all_goals
    cases e <;> simp [Ev.linert] at hin
  all_goals first
    | (intro _ _ e; cases e; done)
    | (intro e; cases e; done)
    | (intro _; exact absurd rfl (hr _))
    | (intro _; exact absurd rfl (hw _))

theorem sim_step {tr : HB.Trace} {o : FlagOrds} {s s' : St} {t : Tid} {e : Ev} (hL : InvL s) (h : Sim tr s)
    (hs : step s t e = some s') : Sim (tr ++ [(t, toHB o e)]) s' := by
  cases e with
  | mtl ok => exact sim_mtl h hs
  | mul => exact sim_mul hL h hs
  | slk => exact sim_slk hL h hs
  | stl ok => exact sim_stl hL h hs
  | stf ok => exact sim_stf hL h hs
  | sul => exact sim_sul hL h hs
  | qlk => exact sim_qlk h hs
  | qul => exact sim_qul h hs
  | prd v => exact sim_prd hL h hs
  | pwr v => exact sim_pwr hL h hs
  | _ => exact sim_inert h hs rfl (fun _ e => by cases e) (fun _ e => by cases e)

/-- **the simulation**: after every accepted trace (any `spur`, any flag orders) the happens-before view
of the two mutexes is the model's, the mapped trace respects mutex semantics, and the object is
accessed under `m` only (writes exclusively) -/
theorem hb_sim {spur : Bool} (o : FlagOrds) {es : List (Tid × Ev)} {s : St} (h : run spur es = some s) :
    Sim (hbTrace o es) s := by
  induction es using HB.snoc_induction generalizing s with
  | h0 =>
    simp [run] at h; subst h
    exact sim_init spur
  | hs es x ih =>
    obtain ⟨t, e⟩ := x
    simp only [run, runFrom_append] at h
    cases h1 : runFrom step (init spur) es with
    | none => simp [h1] at h
    | some s1 =>
      simp only [h1, Option.bind_some, runFrom_cons, runFrom_nil] at h
      cases h2 : step s1 t e with
      | none => simp [h2] at h
      | some s2 =>
        simp [h2] at h; subst h
        rw [hbTrace_snoc]
        exact sim_step (inv_reachable ⟨es, h1⟩).L (ih h1) h2

/-- the happens-before view of `m`, spelled out: exclusive for the thread in `mx`, shared for the
threads in `sh`, nothing for everybody else -/
theorem held_m {spur : Bool} (o : FlagOrds) {es : List (Tid × Ev)} {s : St} (h : run spur es = some s) (u : Tid) :
    HB.held (hbTrace o es) u 0 = if s.mx = some u then some .X else if u ∈ s.sh then some .S else none :=
  (hb_sim o h).H u 0

/-- … and of `qm` -/
theorem held_qm {spur : Bool} (o : FlagOrds) {es : List (Tid × Ev)} {s : St} (h : run spur es = some s) (u : Tid) :
    HB.held (hbTrace o es) u 1 = if s.qm = some u then some .X else none :=
  (hb_sim o h).H u 1

/-- the only plain location of the mapped trace is the wrapped object -/
theorem hbTrace_access {o : FlagOrds} {es : List (Tid × Ev)} {i : Nat} {t : Tid} {ei : HB.Ev} {x : HB.Loc}
    (h : (hbTrace o es)[i]? = some (t, ei)) (ha : ei.accesses x) : x = 0 := by
  simp only [hbTrace, List.getElem?_map] at h
  cases hk : es[i]? with
  | none => simp [hk] at h
  | some p =>
    obtain ⟨u, e⟩ := p
    simp [hk] at h
    obtain ⟨_, h2⟩ := h
    subst h2
    cases e with
    | mtl ok => cases ok <;> rcases ha with ha | ha <;> cases ha
    | stl ok => cases ok <;> rcases ha with ha | ha <;> cases ha
    | stf ok => cases ok <;> rcases ha with ha | ha <;> cases ha
    | prd v => rcases ha with ha | ha <;> cases ha; rfl
    | pwr v => rcases ha with ha | ha <;> cases ha; rfl
    | _ => rcases ha with ha | ha <;> cases ha

/-- a position of the mapped trace holds a write / a read of the object exactly when the model trace
holds a `pwr` / `prd` there -/
theorem hbTrace_wr {o : FlagOrds} {es : List (Tid × Ev)} {i : Nat} {t : Tid} {x : HB.Loc}
    (h : (hbTrace o es)[i]? = some (t, .wr x)) : ∃ v, es[i]? = some (t, .pwr v) := by
  simp only [hbTrace, List.getElem?_map] at h
  cases hk : es[i]? with
  | none => simp [hk] at h
  | some p =>
    obtain ⟨u, e⟩ := p
    simp [hk] at h
    obtain ⟨h1, h2⟩ := h
    subst h1
    cases e with
    | mtl ok => cases ok <;> cases h2
    | stl ok => cases ok <;> cases h2
    | stf ok => cases ok <;> cases h2
    | pwr v => exact ⟨v, rfl⟩
    | _ => cases h2

theorem hbTrace_rd {o : FlagOrds} {es : List (Tid × Ev)} {i : Nat} {t : Tid} {x : HB.Loc}
    (h : (hbTrace o es)[i]? = some (t, .rd x)) : ∃ v, es[i]? = some (t, .prd v) := by
  simp only [hbTrace, List.getElem?_map] at h
  cases hk : es[i]? with
  | none => simp [hk] at h
  | some p =>
    obtain ⟨u, e⟩ := p
    simp [hk] at h
    obtain ⟨h1, h2⟩ := h
    subst h1
    cases e with
    | mtl ok => cases ok <;> cases h2
    | stl ok => cases ok <;> cases h2
    | stf ok => cases ok <;> cases h2
    | prd v => exact ⟨v, rfl⟩
    | _ => cases h2

/-- any two conflicting accesses of the wrapped object are ordered by happens-before -/
theorem obj_hb {spur : Bool} (o : FlagOrds) {es : List (Tid × Ev)} {s : St} (h : run spur es = some s) {i j : Nat}
    (hij : i < j) (hc : HB.ConflictOn (hbTrace o es) 0 i j) : HB.HB (hbTrace o es) i j :=
  HB.lockset_hb (hb_sim o h).M (hb_sim o h).L hij hc

/-- no accepted trace contains a data race, whatever the orders of the flag -/
theorem obj_no_race {spur : Bool} (o : FlagOrds) {es : List (Tid × Ev)} {s : St} (h : run spur es = some s) :
    ¬ HB.Race (hbTrace o es) := by
  intro ⟨i, j, hij, ⟨x, hc⟩, hn⟩
  have hx : x = 0 := by
    obtain ⟨t, u, ei, ej, h1, _, ha, _⟩ := hc
    exact hbTrace_access h1 ha
  subst hx
  exact hn (obj_hb o h hij hc)

/-- at a `pwr` the writer is the exclusive holder of `m` in the model state, at a `prd` the reader is
the exclusive holder or one of the shared holders -/
theorem obj_access_state {spur : Bool} {es : List (Tid × Ev)} {s : St} (h : run spur es = some s) {n : Nat} {t : Tid}
    {e : Ev} (hn : es[n]? = some (t, e)) :
    ∃ s1, run spur (es.take n) = some s1 ∧ (∀ v, e = .pwr v → s1.mx = some t ∧ s1.sh = []) ∧
      (∀ v, e = .prd v → s1.mx = some t ∨ (s1.mx = none ∧ t ∈ s1.sh)) := by
  obtain ⟨s1, s2, h1, h2⟩ := HB.runFrom_at h hn
  have hL : InvL s1 := (inv_reachable ⟨es.take n, h1⟩).L
  refine ⟨s1, h1, ?_, ?_⟩
  · intro v he; subst he
    have hm := (hL.mxP t).2 (pwr_pc h2)
    exact ⟨hm, hL.xs (by rw [hm]; intro h; cases h)⟩
  · intro v he; subst he
    rcases prd_pc h2 with hx | hx
    · exact .inl ((hL.mxP t).2 hx)
    · have hin := (hL.shP t).2 hx
      refine .inr ⟨?_, hin⟩
      cases hmx : s1.mx with
      | none => rfl
      | some w =>
        have := hL.xs (by rw [hmx]; intro h; cases h)
        rw [this] at hin; cases hin
/-! ### object and queue together: what a DEFERRED function does to the object comes after its push -/

theorem step_pc_frame {s s' : St} {t u : Tid} {e : Ev} (hs : step s t e = some s') (hu : u ≠ t) : s'.pc u = s.pc u := by
  have h := step_sound hs
  cases h <;> simp [St.setPc, hu]

theorem granted_ne_dIn (sc : SCtx) (c : Ctx) (j : TaskId) : sc.granted ≠ .dIn c j := by
  cases sc <;> simp [SCtx.granted]

/-- only `ucb` brings a thread into the function of a queued task -/
theorem step_dIn {s s' : St} {t : Tid} {e : Ev} (hs : step s t e = some s') (he : ∀ j, e ≠ .ucb j) {c : Ctx} {j : TaskId}
    (hp : s'.pc t = .dIn c j) : s.pc t = .dIn c j := by
  unfold step at hs
  split at hs
  all_goals (try split at hs)
  all_goals (try split at hs)
  all_goals (try split at hs)
  all_goals (try split at hs)
  all_goals (try contradiction)
  all_goals (try (injection hs with hs; subst hs))
  all_goals first
    | exact hp
    | exact absurd rfl (he _)
    | (simp [St.setPc] at hp; done)
    | (simp [St.setPc] at hp; split at hp <;> cases hp)
    | (simp [St.setPc] at hp; exact absurd hp (granted_ne_dIn _ _ _))

theorem ucb_pc {s s' : St} {t : Tid} {j : TaskId} (hs : step s t (.ucb j) = some s') :
    (∃ c rest, s.batch = j :: rest ∧ s'.pc t = .dIn c j) ∨ (∃ a, s'.pc t = .aIn j a) := by
  cases hp : s.pc t <;> simp [step, hp] at hs
  rename_i c
  cases hb : s.batch with
  | cons b rest =>
    simp [hb] at hs
    obtain ⟨h1, h⟩ := hs; subst h; subst h1
    exact .inl ⟨c, rest, rfl, by simp [St.setPc]⟩
  | nil =>
    simp [hb] at hs
    cases c with
    | mod k a =>
      simp at hs
      obtain ⟨h1, h⟩ := hs; subst h; subst h1
      exact .inr ⟨a, by simp [St.setPc]⟩
    | sh c => simp at hs

/-- every thread inside the function of a QUEUED task entered it at some `q` (its `ucb`), and the end of
the push of that task happens-before `q` -/
def InTask (spur : Bool) (o : FlagOrds) (es : List (Tid × Ev)) (pc : Tid → Pc) : Prop :=
  ∀ u c j, pc u = .dIn c j →
    ∃ q p, es[q]? = some (u, Ev.ucb j) ∧ Pushed spur es p j ∧ HB.HB (hbTrace o es) p q

theorem inTask_old {spur : Bool} {o : FlagOrds} {es : List (Tid × Ev)} {pc : Tid → Pc} (x : Tid × Ev)
    (h : InTask spur o es pc) {u : Tid} {c : Ctx} {j : TaskId} (hp : pc u = .dIn c j) :
    ∃ q p, (es ++ [x])[q]? = some (u, Ev.ucb j) ∧ Pushed spur (es ++ [x]) p j ∧ HB.HB (hbTrace o (es ++ [x])) p q := by
  obtain ⟨q, p, h1, h2, h3⟩ := h u c j hp
  exact ⟨q, p, lq_mono _ h1, h2.mono _, by rw [hbTrace_append]; exact h3.mono _⟩

theorem inTask_step {spur : Bool} {o : FlagOrds} {es : List (Tid × Ev)} {s s' : St} {t : Tid} {e : Ev}
    (hr : run spur es = some s) (h : InTask spur o es s.pc) (hs : step s t e = some s') :
    InTask spur o (es ++ [(t, e)]) s'.pc := by
  intro u c j hp
  by_cases hu : u = t
  · subst hu
    by_cases he : ∀ j', e ≠ .ucb j'
    · exact inTask_old _ h (step_dIn hs he hp)
    · have : ∃ j', e = .ucb j' := by
        cases e <;> first | exact ⟨_, rfl⟩ | (exfalso; apply he; intro _ h; cases h)
      obtain ⟨j', he'⟩ := this
      subst he'
      rcases ucb_pc hs with ⟨c', rest, hb, hp'⟩ | ⟨a, hp'⟩
      · rw [hp'] at hp; injection hp with _ hj; subst hj
        rcases closure_hb o hr hs with ⟨hb', _⟩ | ⟨p, h1, h2⟩
        · rw [hb'] at hb; cases hb
        · exact ⟨es.length, p, lq_last _ _, h1.mono _, h2⟩
      · rw [hp'] at hp; cases hp
  · rw [step_pc_frame hs hu] at hp
    exact inTask_old _ h hp

theorem inTask_run {spur : Bool} (o : FlagOrds) {es : List (Tid × Ev)} {s : St} (h : run spur es = some s) :
    InTask spur o es s.pc := by
  induction es using HB.snoc_induction generalizing s with
  | h0 =>
    simp [run] at h; subst h
    intro u c j hp; simp [init] at hp
  | hs es x ih =>
    obtain ⟨t, e⟩ := x
    simp only [run, runFrom_append] at h
    cases h1 : runFrom step (init spur) es with
    | none => simp [h1] at h
    | some s1 =>
      simp only [h1, Option.bind_some, runFrom_cons, runFrom_nil] at h
      cases h2 : step s1 t e with
      | none => simp [h2] at h
      | some s2 =>
        simp [h2] at h; subst h
        exact inTask_step h1 (ih h1) h2

/-- **a deferred function's events come after its push**: if thread `t` performs the event at position
`n` while it is inside the function of queued task `j` (pc `dIn _ j` in the state before the event —
reads and writes of the object, the return or the throw of the function), the `unlock qm` that ended the
push of `j` happens-before `n` -/
theorem deferred_after_push {spur : Bool} (o : FlagOrds) {es : List (Tid × Ev)} {s1 : St} {n : Nat} {t : Tid} {e : Ev}
    (hn : es[n]? = some (t, e)) (h1 : run spur (es.take n) = some s1) {c : Ctx} {j : TaskId}
    (hpc : s1.pc t = .dIn c j) : ∃ p, p < n ∧ Pushed spur es p j ∧ HB.HB (hbTrace o es) p n := by
  obtain ⟨q, p, hq, hp, hhb⟩ := inTask_run o h1 t c j hpc
  have hnl : n < es.length := lq_lt hn
  have hlen : (es.take n).length = n := by simp [List.length_take]; omega
  have hqn : q < n := by have := lq_lt hq; omega
  have hpn : p < n := by
    obtain ⟨_, _, _, _, _, h3⟩ := hp
    have := lq_lt h3; omega
  have hp' : Pushed spur es p j := by
    have := hp.mono (es.drop n); rwa [List.take_append_drop] at this
  have hq' : es[q]? = some (t, Ev.ucb j) := by
    have := lq_mono (es.drop n) hq; rwa [List.take_append_drop] at this
  have hhb' : HB.HB (hbTrace o es) p q := by
    have := hhb.mono (hbTrace o (es.drop n))
    rwa [← hbTrace_append, List.take_append_drop] at this
  exact ⟨p, hpn, hp', .trans hhb' (.po hqn (hbTrace_get hq') (hbTrace_get hn))⟩

/-- a write of the object is made inside the caller's own function (direct path) or inside the function
of a queued task -/
theorem pwr_origin {s s' : St} {t : Tid} {v : Int} (hs : step s t (.pwr v) = some s') :
    (∃ k a, s.pc t = .aIn k a) ∨ (∃ c j, s.pc t = .dIn c j) := by
  cases hp : s.pc t <;> simp [step, hp] at hs
  · exact .inr ⟨_, _, rfl⟩
  · exact .inl ⟨_, _, rfl⟩

/-- every write of the object: direct path, or deferred and then after the end of its push -/
theorem write_origin {spur : Bool} (o : FlagOrds) {es : List (Tid × Ev)} {s : St} (h : run spur es = some s) {n : Nat}
    {t : Tid} {v : Int} (hn : es[n]? = some (t, .pwr v)) :
    ∃ s1, run spur (es.take n) = some s1 ∧
      ((∃ k a, s1.pc t = .aIn k a) ∨
       (∃ c j, s1.pc t = .dIn c j ∧ ∃ p, p < n ∧ Pushed spur es p j ∧ HB.HB (hbTrace o es) p n)) := by
  obtain ⟨s1, s2, h1, h2⟩ := HB.runFrom_at h hn
  refine ⟨s1, h1, ?_⟩
  rcases pwr_origin h2 with hd | ⟨c, j, hpc⟩
  · exact .inl hd
  · exact .inr ⟨c, j, hpc, deferred_after_push o hn h1 hpc⟩

end ConcVerif.Deferred
