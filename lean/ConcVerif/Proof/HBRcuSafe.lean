import ConcVerif.Proof.HBRcuMain
/-! rcu_list and happens-before, part 10 (state level, no traces): protection (`Safe`, layer E) is stable
along the steps as long as the protecting record stays on the log; a node named by a zombie record that a
reclaimer holds privately is protected by nobody. -/
namespace ConcVerif.Rcu

/-- a zombie record (it names a node) has no owner -/
def ZO (s : St) : Prop := ∀ r, (s.recs r).znode ≠ none → (s.recs r).owner = none

theorem zo_init : ZO init := by intro r h; simp [init, rec0] at h

theorem zo_step {s s' : St} {t : Tid} {e : Ev} (h : ZO s) (hS : Step s t e s') : ZO s' := by
  cases hS <;> first | exact h | skip
  all_goals first
    | (simp only [St.reapAt, St.dNodeAt, St.dRecAt]; split <;> exact h)
    | (intro r hr
       simp only [setPc_recs, setRled_recs, setRNext_recs, setOwner_recs, dropHnd_recs, upd_apply] at hr ⊢
       split at hr <;> simp_all <;> exact h _ (by assumption))

theorem zo_reachable {s : St} (h : Reachable s) : ZO s := by
  obtain ⟨es, hes⟩ := h
  exact runFrom_inv (Inv := ZO) (fun s t e s' hi hs => zo_step hi (step_sound hs)) zo_init hes

/-- the `zombie_node` of a record the acting thread does not hold privately stays -/
theorem zn_frame {s s' : St} {t : Tid} {e : Ev} (hS : Step s t e s') (hnd : inDtor (s.pc t) = false) {z : Nat}
    (hz : privRec (BView (s.pc t)) ≠ some z) : (s'.recs z).znode = (s.recs z).znode := by
  cases hS <;> first | rfl | (simp; done) | no_dtor | skip
  all_goals
    simp only [setPc_recs, setRled_recs, setRNext_recs, setOwner_recs, dropHnd_recs, upd_apply]
    split
    · rename_i hc; subst hc; simp_all [BView, privRec]
    · rfl

/-- how a step changes the list -/
theorem lst_cases {s s' : St} {t : Tid} {e : Ev} (hi : Inv s) (hS : Step s t e s') (hnd : inDtor (s.pc t) = false) :
    s'.lst = s.lst ∨ (∀ x, x ∈ s.lst → x ∈ s'.lst) ∨
      (∃ c o p x z, s'.lst = s.lst.erase c ∧ s'.pc t = .eFix c o p x z ∧ (s'.recs z).znode = some c) := by
  have held := hi.d.held t
  simp only [dview_vpc] at held
  cases hS <;> first | (left; rfl) | (left; simp; done) | no_dtor | skip
  case pE1 => right; left; intro x hx; simp [hx]
  case pF3 => right; left; intro x hx; simp [hx]
  case pB2 => right; left; intro x hx; simp [hx]
  case eUnlPrev c orig pp x z o hpc ho =>
    rw [hpc] at held; simp only [DView, HeldP, dview_zn] at held
    right; right; exact ⟨c, orig, some pp, x, z, rfl, by simp, by simpa using held.1⟩
  case eUnlHead c orig x z o hpc ho =>
    rw [hpc] at held; simp only [DView, HeldP, dview_zn] at held
    right; right; exact ⟨c, orig, none, x, z, rfl, by simp, by simpa using held.1⟩

/-- an erase in progress stays in progress until its zombie record is pushed -/
theorem pend_step {s s' : St} {t : Tid} {e : Ev} (hi : Inv s) (hS : Step s t e s') (hnd : inDtor (s.pc t) = false)
    {u : Tid} {d : Nat} (h : pendNode s.eview (EView (s.pc u)) = some d) :
    (∃ u', pendNode s'.eview (EView (s'.pc u')) = some d) ∨
      (∃ z o a c, e = .cas o a (some z) true c ∧ s'.log = z :: s.log ∧ (s'.recs z).znode = some d) := by
  by_cases hu : u = t
  · subst hu
    cases hS <;> first | (exfalso; simp_all [EView, pendNode]; done) | no_dtor | skip
    case casEraseOk orig r o hpc ho =>
      right
      rw [hpc] at h; simp only [EView, pendNode, eview_zn] at h
      exact ⟨r, o, _, _, rfl, rfl, h⟩
    case pushStore c r exp o hpc =>
      left; refine ⟨u, ?_⟩
      cases c <;> simp_all [EView, pendNode]
    case casFail c r exp o hpc ho =>
      left; refine ⟨u, ?_⟩
      cases c <;> simp_all [EView, pendNode]
    all_goals (left; refine ⟨u, ?_⟩; simp_all [EView, pendNode])
  · left; refine ⟨u, ?_⟩
    rw [pc_frame hS hnd hu]
    cases hp : EView (s.pc u) with
    | eAlloc c o => rw [hp] at h; simpa [pendNode] using h
    | eZh o z =>
      rw [hp] at h; simp only [pendNode, eview_zn] at h ⊢
      rw [zn_frame hS hnd]; exact h
      intro hc
      have h1 := eview_eZh_priv hp
      have := hi.b.privUq t u z
      simp only [bview_vpc] at this
      exact hu (this hc h1).symm
    | _ => rw [hp] at h; simp [pendNode] at h

/-- protection by a record that stays on the log is stable, except that the zombie record naming the node
may be taken off the log by a reclaimer (then the protecting record lies below it) -/
theorem safe_step {s s' : St} {t : Tid} {e : Ev} (hi : Inv s) (hS : Step s t e s') (hnd : inDtor (s.pc t) = false)
    {x d : Nat} (hx : x ∈ s.log) (hx' : x ∈ s'.log) (h : Safe s.eview x d) :
    Safe s'.eview x d ∨ ∃ a z, myRec (s.pc t) = some a ∧ (Below s.log a).head? = some z ∧ s'.log = s.log.erase z ∧
      (s.recs z).znode = some d ∧ x ∈ Below s.log z := by
  have hnodup := hi.b.logNd
  simp only [bview_log] at hnodup
  have zlog : ∀ z ∈ s.log, (s'.recs z).znode = (s.recs z).znode := by
    intro z hz
    apply zn_frame hS hnd
    intro hc
    have := (hi.b.privOk t z (by simpa using hc)).1
    simp only [bview_log] at this
    exact this hz
  rcases h with g | ⟨u, g⟩ | ⟨z, g1, g2, g3⟩
  · -- linked
    simp only [eview_lst] at g
    rcases lst_cases hi hS hnd with h1 | h1 | ⟨c, o, p, y, z, h1, h2, h3⟩
    · left; left; simp only [eview_lst, h1]; exact g
    · left; left; simp only [eview_lst]; exact h1 d g
    · by_cases hdc : d = c
      · subst hdc
        left; right; left
        exact ⟨t, by simp [h2, EView, pendNode, h3]⟩
      · left; left; simp only [eview_lst, h1]; exact (List.mem_erase_of_ne hdc).2 g
  · -- erase in progress
    simp only [eview_vpc] at g
    rcases pend_step hi hS hnd g with ⟨u', h1⟩ | ⟨z, o, a, c, _, h1, h2⟩
    · left; right; left; exact ⟨u', h1⟩
    · left; right; right
      refine ⟨z, by simp [h1], h2, ?_⟩
      simp only [eview_log, h1, below_cons_self]; exact hx
  · -- zombie record on the log above `x`
    simp only [eview_log, eview_zn] at g1 g2 g3
    rcases log_cases hi hS hnd with h1 | ⟨r, o, a, c, _, h1, _⟩ | ⟨a, m, h1, h2, h3, _⟩
    · left; right; right
      exact ⟨z, by simp [h1, g1], by simp only [eview_zn]; rw [zlog z g1]; exact g2, by simp only [eview_log, h1]; exact g3⟩
    · left; right; right
      refine ⟨z, by simp [h1, g1], by simp only [eview_zn]; rw [zlog z g1]; exact g2, ?_⟩
      simp only [eview_log, h1]
      have : r ≠ z := by
        intro hc; subst hc
        rw [h1] at hx'
        have hn' := hi.b.privOk t r
        simp only [bview_vpc, bview_log] at hn'
        rename_i h4
        exact (hn' h4).1 g1
      rw [below_cons_ne _ this]; exact g3
    · by_cases hzm : z = m
      · subst hzm
        right; exact ⟨a, z, h1, h2, h3, g2, g3⟩
      · left; right; right
        have hxm : x ≠ m := by
          intro hc; subst hc
          rw [h3] at hx'
          exact ((List.Nodup.mem_erase_iff hnodup).1 hx').1 rfl
        refine ⟨z, ?_, by simp only [eview_zn]; rw [zlog z g1]; exact g2, ?_⟩
        · simp only [eview_log, h3]; exact (List.mem_erase_of_ne hzm).2 g1
        · simp only [eview_log, h3]; rw [below_erase hnodup hzm]; exact (List.mem_erase_of_ne hxm).2 g3

end ConcVerif.Rcu
