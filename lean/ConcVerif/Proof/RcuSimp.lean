import ConcVerif.Model.Rcu
/-! Projection lemmas for the state updaters of `Model/Rcu.lean` (generated; all by `rfl`). -/
namespace ConcVerif.Rcu

@[simp] theorem setPc_nodes (s : St) (t : Tid) (p : Pc) : (s.setPc t p).nodes = s.nodes := rfl
@[simp] theorem setPc_recs (s : St) (t : Tid) (p : Pc) : (s.setPc t p).recs = s.recs := rfl
@[simp] theorem setPc_nN (s : St) (t : Tid) (p : Pc) : (s.setPc t p).nN = s.nN := rfl
@[simp] theorem setPc_nR (s : St) (t : Tid) (p : Pc) : (s.setPc t p).nR = s.nR := rfl
@[simp] theorem setPc_nled (s : St) (t : Tid) (p : Pc) : (s.setPc t p).nled = s.nled := rfl
@[simp] theorem setPc_rled (s : St) (t : Tid) (p : Pc) : (s.setPc t p).rled = s.rled := rfl
@[simp] theorem setPc_head (s : St) (t : Tid) (p : Pc) : (s.setPc t p).head = s.head := rfl
@[simp] theorem setPc_tail (s : St) (t : Tid) (p : Pc) : (s.setPc t p).tail = s.tail := rfl
@[simp] theorem setPc_zhead (s : St) (t : Tid) (p : Pc) : (s.setPc t p).zhead = s.zhead := rfl
@[simp] theorem setPc_wmtx (s : St) (t : Tid) (p : Pc) : (s.setPc t p).wmtx = s.wmtx := rfl
@[simp] theorem setPc_log (s : St) (t : Tid) (p : Pc) : (s.setPc t p).log = s.log := rfl
@[simp] theorem setPc_lst (s : St) (t : Tid) (p : Pc) : (s.setPc t p).lst = s.lst := rfl
@[simp] theorem setPc_order (s : St) (t : Tid) (p : Pc) : (s.setPc t p).order = s.order := rfl
@[simp] theorem setPc_live (s : St) (t : Tid) (p : Pc) : (s.setPc t p).live = s.live := rfl
@[simp] theorem setPc_dt (s : St) (t : Tid) (p : Pc) : (s.setPc t p).dt = s.dt := rfl
@[simp] theorem setPc_hnd (s : St) (t : Tid) (p : Pc) : (s.setPc t p).hnd = s.hnd := rfl
@[simp] theorem setPc_it (s : St) (t : Tid) (p : Pc) : (s.setPc t p).it = s.it := rfl
@[simp] theorem setPc_pc (s : St) (t : Tid) (p : Pc) : (s.setPc t p).pc = upd s.pc t p := rfl

@[simp] theorem setNext_nodes (s : St) (n : Nat) (v : Option Nat) : (s.setNext n v).nodes = upd s.nodes n { s.nodes n with next := v } := rfl
@[simp] theorem setNext_recs (s : St) (n : Nat) (v : Option Nat) : (s.setNext n v).recs = s.recs := rfl
@[simp] theorem setNext_nN (s : St) (n : Nat) (v : Option Nat) : (s.setNext n v).nN = s.nN := rfl
@[simp] theorem setNext_nR (s : St) (n : Nat) (v : Option Nat) : (s.setNext n v).nR = s.nR := rfl
@[simp] theorem setNext_nled (s : St) (n : Nat) (v : Option Nat) : (s.setNext n v).nled = s.nled := rfl
@[simp] theorem setNext_rled (s : St) (n : Nat) (v : Option Nat) : (s.setNext n v).rled = s.rled := rfl
@[simp] theorem setNext_head (s : St) (n : Nat) (v : Option Nat) : (s.setNext n v).head = s.head := rfl
@[simp] theorem setNext_tail (s : St) (n : Nat) (v : Option Nat) : (s.setNext n v).tail = s.tail := rfl
@[simp] theorem setNext_zhead (s : St) (n : Nat) (v : Option Nat) : (s.setNext n v).zhead = s.zhead := rfl
@[simp] theorem setNext_wmtx (s : St) (n : Nat) (v : Option Nat) : (s.setNext n v).wmtx = s.wmtx := rfl
@[simp] theorem setNext_log (s : St) (n : Nat) (v : Option Nat) : (s.setNext n v).log = s.log := rfl
@[simp] theorem setNext_lst (s : St) (n : Nat) (v : Option Nat) : (s.setNext n v).lst = s.lst := rfl
@[simp] theorem setNext_order (s : St) (n : Nat) (v : Option Nat) : (s.setNext n v).order = s.order := rfl
@[simp] theorem setNext_live (s : St) (n : Nat) (v : Option Nat) : (s.setNext n v).live = s.live := rfl
@[simp] theorem setNext_dt (s : St) (n : Nat) (v : Option Nat) : (s.setNext n v).dt = s.dt := rfl
@[simp] theorem setNext_hnd (s : St) (n : Nat) (v : Option Nat) : (s.setNext n v).hnd = s.hnd := rfl
@[simp] theorem setNext_it (s : St) (n : Nat) (v : Option Nat) : (s.setNext n v).it = s.it := rfl
@[simp] theorem setNext_pc (s : St) (n : Nat) (v : Option Nat) : (s.setNext n v).pc = s.pc := rfl

@[simp] theorem setBack_nodes (s : St) (n : Nat) (v : Option Nat) : (s.setBack n v).nodes = upd s.nodes n { s.nodes n with back := v } := rfl
@[simp] theorem setBack_recs (s : St) (n : Nat) (v : Option Nat) : (s.setBack n v).recs = s.recs := rfl
@[simp] theorem setBack_nN (s : St) (n : Nat) (v : Option Nat) : (s.setBack n v).nN = s.nN := rfl
@[simp] theorem setBack_nR (s : St) (n : Nat) (v : Option Nat) : (s.setBack n v).nR = s.nR := rfl
@[simp] theorem setBack_nled (s : St) (n : Nat) (v : Option Nat) : (s.setBack n v).nled = s.nled := rfl
@[simp] theorem setBack_rled (s : St) (n : Nat) (v : Option Nat) : (s.setBack n v).rled = s.rled := rfl
@[simp] theorem setBack_head (s : St) (n : Nat) (v : Option Nat) : (s.setBack n v).head = s.head := rfl
@[simp] theorem setBack_tail (s : St) (n : Nat) (v : Option Nat) : (s.setBack n v).tail = s.tail := rfl
@[simp] theorem setBack_zhead (s : St) (n : Nat) (v : Option Nat) : (s.setBack n v).zhead = s.zhead := rfl
@[simp] theorem setBack_wmtx (s : St) (n : Nat) (v : Option Nat) : (s.setBack n v).wmtx = s.wmtx := rfl
@[simp] theorem setBack_log (s : St) (n : Nat) (v : Option Nat) : (s.setBack n v).log = s.log := rfl
@[simp] theorem setBack_lst (s : St) (n : Nat) (v : Option Nat) : (s.setBack n v).lst = s.lst := rfl
@[simp] theorem setBack_order (s : St) (n : Nat) (v : Option Nat) : (s.setBack n v).order = s.order := rfl
@[simp] theorem setBack_live (s : St) (n : Nat) (v : Option Nat) : (s.setBack n v).live = s.live := rfl
@[simp] theorem setBack_dt (s : St) (n : Nat) (v : Option Nat) : (s.setBack n v).dt = s.dt := rfl
@[simp] theorem setBack_hnd (s : St) (n : Nat) (v : Option Nat) : (s.setBack n v).hnd = s.hnd := rfl
@[simp] theorem setBack_it (s : St) (n : Nat) (v : Option Nat) : (s.setBack n v).it = s.it := rfl
@[simp] theorem setBack_pc (s : St) (n : Nat) (v : Option Nat) : (s.setBack n v).pc = s.pc := rfl

@[simp] theorem setDel_nodes (s : St) (n : Nat) (v : Bool) : (s.setDel n v).nodes = upd s.nodes n { s.nodes n with deleted := v } := rfl
@[simp] theorem setDel_recs (s : St) (n : Nat) (v : Bool) : (s.setDel n v).recs = s.recs := rfl
@[simp] theorem setDel_nN (s : St) (n : Nat) (v : Bool) : (s.setDel n v).nN = s.nN := rfl
@[simp] theorem setDel_nR (s : St) (n : Nat) (v : Bool) : (s.setDel n v).nR = s.nR := rfl
@[simp] theorem setDel_nled (s : St) (n : Nat) (v : Bool) : (s.setDel n v).nled = s.nled := rfl
@[simp] theorem setDel_rled (s : St) (n : Nat) (v : Bool) : (s.setDel n v).rled = s.rled := rfl
@[simp] theorem setDel_head (s : St) (n : Nat) (v : Bool) : (s.setDel n v).head = s.head := rfl
@[simp] theorem setDel_tail (s : St) (n : Nat) (v : Bool) : (s.setDel n v).tail = s.tail := rfl
@[simp] theorem setDel_zhead (s : St) (n : Nat) (v : Bool) : (s.setDel n v).zhead = s.zhead := rfl
@[simp] theorem setDel_wmtx (s : St) (n : Nat) (v : Bool) : (s.setDel n v).wmtx = s.wmtx := rfl
@[simp] theorem setDel_log (s : St) (n : Nat) (v : Bool) : (s.setDel n v).log = s.log := rfl
@[simp] theorem setDel_lst (s : St) (n : Nat) (v : Bool) : (s.setDel n v).lst = s.lst := rfl
@[simp] theorem setDel_order (s : St) (n : Nat) (v : Bool) : (s.setDel n v).order = s.order := rfl
@[simp] theorem setDel_live (s : St) (n : Nat) (v : Bool) : (s.setDel n v).live = s.live := rfl
@[simp] theorem setDel_dt (s : St) (n : Nat) (v : Bool) : (s.setDel n v).dt = s.dt := rfl
@[simp] theorem setDel_hnd (s : St) (n : Nat) (v : Bool) : (s.setDel n v).hnd = s.hnd := rfl
@[simp] theorem setDel_it (s : St) (n : Nat) (v : Bool) : (s.setDel n v).it = s.it := rfl
@[simp] theorem setDel_pc (s : St) (n : Nat) (v : Bool) : (s.setDel n v).pc = s.pc := rfl

@[simp] theorem setRNext_nodes (s : St) (r : Nat) (v : Option Nat) : (s.setRNext r v).nodes = s.nodes := rfl
@[simp] theorem setRNext_recs (s : St) (r : Nat) (v : Option Nat) : (s.setRNext r v).recs = upd s.recs r { s.recs r with next := v } := rfl
@[simp] theorem setRNext_nN (s : St) (r : Nat) (v : Option Nat) : (s.setRNext r v).nN = s.nN := rfl
@[simp] theorem setRNext_nR (s : St) (r : Nat) (v : Option Nat) : (s.setRNext r v).nR = s.nR := rfl
@[simp] theorem setRNext_nled (s : St) (r : Nat) (v : Option Nat) : (s.setRNext r v).nled = s.nled := rfl
@[simp] theorem setRNext_rled (s : St) (r : Nat) (v : Option Nat) : (s.setRNext r v).rled = s.rled := rfl
@[simp] theorem setRNext_head (s : St) (r : Nat) (v : Option Nat) : (s.setRNext r v).head = s.head := rfl
@[simp] theorem setRNext_tail (s : St) (r : Nat) (v : Option Nat) : (s.setRNext r v).tail = s.tail := rfl
@[simp] theorem setRNext_zhead (s : St) (r : Nat) (v : Option Nat) : (s.setRNext r v).zhead = s.zhead := rfl
@[simp] theorem setRNext_wmtx (s : St) (r : Nat) (v : Option Nat) : (s.setRNext r v).wmtx = s.wmtx := rfl
@[simp] theorem setRNext_log (s : St) (r : Nat) (v : Option Nat) : (s.setRNext r v).log = s.log := rfl
@[simp] theorem setRNext_lst (s : St) (r : Nat) (v : Option Nat) : (s.setRNext r v).lst = s.lst := rfl
@[simp] theorem setRNext_order (s : St) (r : Nat) (v : Option Nat) : (s.setRNext r v).order = s.order := rfl
@[simp] theorem setRNext_live (s : St) (r : Nat) (v : Option Nat) : (s.setRNext r v).live = s.live := rfl
@[simp] theorem setRNext_dt (s : St) (r : Nat) (v : Option Nat) : (s.setRNext r v).dt = s.dt := rfl
@[simp] theorem setRNext_hnd (s : St) (r : Nat) (v : Option Nat) : (s.setRNext r v).hnd = s.hnd := rfl
@[simp] theorem setRNext_it (s : St) (r : Nat) (v : Option Nat) : (s.setRNext r v).it = s.it := rfl
@[simp] theorem setRNext_pc (s : St) (r : Nat) (v : Option Nat) : (s.setRNext r v).pc = s.pc := rfl

@[simp] theorem setOwner_nodes (s : St) (r : Nat) (v : Option Tid) : (s.setOwner r v).nodes = s.nodes := rfl
@[simp] theorem setOwner_recs (s : St) (r : Nat) (v : Option Tid) : (s.setOwner r v).recs = upd s.recs r { s.recs r with owner := v } := rfl
@[simp] theorem setOwner_nN (s : St) (r : Nat) (v : Option Tid) : (s.setOwner r v).nN = s.nN := rfl
@[simp] theorem setOwner_nR (s : St) (r : Nat) (v : Option Tid) : (s.setOwner r v).nR = s.nR := rfl
@[simp] theorem setOwner_nled (s : St) (r : Nat) (v : Option Tid) : (s.setOwner r v).nled = s.nled := rfl
@[simp] theorem setOwner_rled (s : St) (r : Nat) (v : Option Tid) : (s.setOwner r v).rled = s.rled := rfl
@[simp] theorem setOwner_head (s : St) (r : Nat) (v : Option Tid) : (s.setOwner r v).head = s.head := rfl
@[simp] theorem setOwner_tail (s : St) (r : Nat) (v : Option Tid) : (s.setOwner r v).tail = s.tail := rfl
@[simp] theorem setOwner_zhead (s : St) (r : Nat) (v : Option Tid) : (s.setOwner r v).zhead = s.zhead := rfl
@[simp] theorem setOwner_wmtx (s : St) (r : Nat) (v : Option Tid) : (s.setOwner r v).wmtx = s.wmtx := rfl
@[simp] theorem setOwner_log (s : St) (r : Nat) (v : Option Tid) : (s.setOwner r v).log = s.log := rfl
@[simp] theorem setOwner_lst (s : St) (r : Nat) (v : Option Tid) : (s.setOwner r v).lst = s.lst := rfl
@[simp] theorem setOwner_order (s : St) (r : Nat) (v : Option Tid) : (s.setOwner r v).order = s.order := rfl
@[simp] theorem setOwner_live (s : St) (r : Nat) (v : Option Tid) : (s.setOwner r v).live = s.live := rfl
@[simp] theorem setOwner_dt (s : St) (r : Nat) (v : Option Tid) : (s.setOwner r v).dt = s.dt := rfl
@[simp] theorem setOwner_hnd (s : St) (r : Nat) (v : Option Tid) : (s.setOwner r v).hnd = s.hnd := rfl
@[simp] theorem setOwner_it (s : St) (r : Nat) (v : Option Tid) : (s.setOwner r v).it = s.it := rfl
@[simp] theorem setOwner_pc (s : St) (r : Nat) (v : Option Tid) : (s.setOwner r v).pc = s.pc := rfl

@[simp] theorem setNled_nodes (s : St) (n : Nat) (l : Led) : (s.setNled n l).nodes = s.nodes := rfl
@[simp] theorem setNled_recs (s : St) (n : Nat) (l : Led) : (s.setNled n l).recs = s.recs := rfl
@[simp] theorem setNled_nN (s : St) (n : Nat) (l : Led) : (s.setNled n l).nN = s.nN := rfl
@[simp] theorem setNled_nR (s : St) (n : Nat) (l : Led) : (s.setNled n l).nR = s.nR := rfl
@[simp] theorem setNled_nled (s : St) (n : Nat) (l : Led) : (s.setNled n l).nled = upd s.nled n l := rfl
@[simp] theorem setNled_rled (s : St) (n : Nat) (l : Led) : (s.setNled n l).rled = s.rled := rfl
@[simp] theorem setNled_head (s : St) (n : Nat) (l : Led) : (s.setNled n l).head = s.head := rfl
@[simp] theorem setNled_tail (s : St) (n : Nat) (l : Led) : (s.setNled n l).tail = s.tail := rfl
@[simp] theorem setNled_zhead (s : St) (n : Nat) (l : Led) : (s.setNled n l).zhead = s.zhead := rfl
@[simp] theorem setNled_wmtx (s : St) (n : Nat) (l : Led) : (s.setNled n l).wmtx = s.wmtx := rfl
@[simp] theorem setNled_log (s : St) (n : Nat) (l : Led) : (s.setNled n l).log = s.log := rfl
@[simp] theorem setNled_lst (s : St) (n : Nat) (l : Led) : (s.setNled n l).lst = s.lst := rfl
@[simp] theorem setNled_order (s : St) (n : Nat) (l : Led) : (s.setNled n l).order = s.order := rfl
@[simp] theorem setNled_live (s : St) (n : Nat) (l : Led) : (s.setNled n l).live = s.live := rfl
@[simp] theorem setNled_dt (s : St) (n : Nat) (l : Led) : (s.setNled n l).dt = s.dt := rfl
@[simp] theorem setNled_hnd (s : St) (n : Nat) (l : Led) : (s.setNled n l).hnd = s.hnd := rfl
@[simp] theorem setNled_it (s : St) (n : Nat) (l : Led) : (s.setNled n l).it = s.it := rfl
@[simp] theorem setNled_pc (s : St) (n : Nat) (l : Led) : (s.setNled n l).pc = s.pc := rfl

@[simp] theorem setRled_nodes (s : St) (r : Nat) (l : Led) : (s.setRled r l).nodes = s.nodes := rfl
@[simp] theorem setRled_recs (s : St) (r : Nat) (l : Led) : (s.setRled r l).recs = s.recs := rfl
@[simp] theorem setRled_nN (s : St) (r : Nat) (l : Led) : (s.setRled r l).nN = s.nN := rfl
@[simp] theorem setRled_nR (s : St) (r : Nat) (l : Led) : (s.setRled r l).nR = s.nR := rfl
@[simp] theorem setRled_nled (s : St) (r : Nat) (l : Led) : (s.setRled r l).nled = s.nled := rfl
@[simp] theorem setRled_rled (s : St) (r : Nat) (l : Led) : (s.setRled r l).rled = upd s.rled r l := rfl
@[simp] theorem setRled_head (s : St) (r : Nat) (l : Led) : (s.setRled r l).head = s.head := rfl
@[simp] theorem setRled_tail (s : St) (r : Nat) (l : Led) : (s.setRled r l).tail = s.tail := rfl
@[simp] theorem setRled_zhead (s : St) (r : Nat) (l : Led) : (s.setRled r l).zhead = s.zhead := rfl
@[simp] theorem setRled_wmtx (s : St) (r : Nat) (l : Led) : (s.setRled r l).wmtx = s.wmtx := rfl
@[simp] theorem setRled_log (s : St) (r : Nat) (l : Led) : (s.setRled r l).log = s.log := rfl
@[simp] theorem setRled_lst (s : St) (r : Nat) (l : Led) : (s.setRled r l).lst = s.lst := rfl
@[simp] theorem setRled_order (s : St) (r : Nat) (l : Led) : (s.setRled r l).order = s.order := rfl
@[simp] theorem setRled_live (s : St) (r : Nat) (l : Led) : (s.setRled r l).live = s.live := rfl
@[simp] theorem setRled_dt (s : St) (r : Nat) (l : Led) : (s.setRled r l).dt = s.dt := rfl
@[simp] theorem setRled_hnd (s : St) (r : Nat) (l : Led) : (s.setRled r l).hnd = s.hnd := rfl
@[simp] theorem setRled_it (s : St) (r : Nat) (l : Led) : (s.setRled r l).it = s.it := rfl
@[simp] theorem setRled_pc (s : St) (r : Nat) (l : Led) : (s.setRled r l).pc = s.pc := rfl

@[simp] theorem dropHnd_nodes (s : St) (t : Tid) : (s.dropHnd t).nodes = s.nodes := rfl
@[simp] theorem dropHnd_recs (s : St) (t : Tid) : (s.dropHnd t).recs = s.recs := rfl
@[simp] theorem dropHnd_nN (s : St) (t : Tid) : (s.dropHnd t).nN = s.nN := rfl
@[simp] theorem dropHnd_nR (s : St) (t : Tid) : (s.dropHnd t).nR = s.nR := rfl
@[simp] theorem dropHnd_nled (s : St) (t : Tid) : (s.dropHnd t).nled = s.nled := rfl
@[simp] theorem dropHnd_rled (s : St) (t : Tid) : (s.dropHnd t).rled = s.rled := rfl
@[simp] theorem dropHnd_head (s : St) (t : Tid) : (s.dropHnd t).head = s.head := rfl
@[simp] theorem dropHnd_tail (s : St) (t : Tid) : (s.dropHnd t).tail = s.tail := rfl
@[simp] theorem dropHnd_zhead (s : St) (t : Tid) : (s.dropHnd t).zhead = s.zhead := rfl
@[simp] theorem dropHnd_wmtx (s : St) (t : Tid) : (s.dropHnd t).wmtx = s.wmtx := rfl
@[simp] theorem dropHnd_log (s : St) (t : Tid) : (s.dropHnd t).log = s.log := rfl
@[simp] theorem dropHnd_lst (s : St) (t : Tid) : (s.dropHnd t).lst = s.lst := rfl
@[simp] theorem dropHnd_order (s : St) (t : Tid) : (s.dropHnd t).order = s.order := rfl
@[simp] theorem dropHnd_live (s : St) (t : Tid) : (s.dropHnd t).live = s.live.erase t := rfl
@[simp] theorem dropHnd_dt (s : St) (t : Tid) : (s.dropHnd t).dt = s.dt := rfl
@[simp] theorem dropHnd_hnd (s : St) (t : Tid) : (s.dropHnd t).hnd = upd s.hnd t .none := rfl
@[simp] theorem dropHnd_it (s : St) (t : Tid) : (s.dropHnd t).it = upd s.it t none := rfl
@[simp] theorem dropHnd_pc (s : St) (t : Tid) : (s.dropHnd t).pc = s.pc := rfl

end ConcVerif.Rcu
