import ConcVerif.Proof.RcuE
/-! The complete invariant (layers A–E) of the rcu_list model in every reachable state. -/
namespace ConcVerif.Rcu

structure InvX (s : St) : Prop where
  i : Inv s
  e : InvE s

theorem invX_init : InvX init := ⟨inv_init, invE_init⟩

theorem invX_step {s s' : St} {t : Tid} {e : Ev} (h : InvX s) (hs : step s t e = some s') : InvX s' :=
  ⟨inv_step h.i hs, invE_step h.i h.e (step_sound hs)⟩

theorem invX_reachable {s : St} (h : Reachable s) : InvX s := by
  obtain ⟨es, hes⟩ := h
  exact runFrom_inv (Inv := InvX) (fun s t e s' hi hs => invX_step hi hs) invX_init hes

/-- a node that is protected for a registered handle is constructed and not destroyed -/
theorem safe_live {s : St} (hi : Inv s) {t : Tid} {w : Bool} {r c : Nat} (hh : s.hnd t = .reg w r)
    (hs : Safe s.eview r c) : s.nled c = .cons := by
  have hdt := dt_false_of_hnd hi.a (t := t) (by rw [hh]; simp)
  rcases hs with g | ⟨u, g⟩ | ⟨z, g1, g2, g3⟩
  · rcases hi.d.lstCons c g with f | ⟨u, hu⟩
    · exact f
    · have := hi.a.dtd u (dview_dtor (Or.inr ⟨c, none, hu⟩))
      rw [hdt] at this; cases this
  · have hheld := hi.d.held u
    simp only [eview_vpc, dview_vpc] at g hheld
    cases hp : s.pc u with
    | eFix c' o p x z =>
      rw [hp] at g hheld; simp only [EView, pendNode, DView, HeldP, dview_nled, dview_zn, eview_zn] at g hheld
      obtain ⟨c', h1, h2⟩ := hheld
      rw [h1] at g; injection g with g; subst g; exact h2
    | eZh o z =>
      rw [hp] at g hheld; simp only [EView, pendNode, DView, HeldP, dview_nled, dview_zn, eview_zn] at g hheld
      obtain ⟨c', h1, h2⟩ := hheld
      rw [h1] at g; injection g with g; subst g; exact h2
    | pushStore cc z e =>
      cases cc with
      | reg k => rw [hp] at g; simp [EView, pendNode] at g
      | erase o =>
        rw [hp] at g hheld; simp only [EView, pendNode, DView, HeldP, dview_nled, dview_zn, eview_zn] at g hheld
        obtain ⟨c', h1, h2⟩ := hheld
        rw [h1] at g; injection g with g; subst g; exact h2
    | pushCas cc z e =>
      cases cc with
      | reg k => rw [hp] at g; simp [EView, pendNode] at g
      | erase o =>
        rw [hp] at g hheld; simp only [EView, pendNode, DView, HeldP, dview_nled, dview_zn, eview_zn] at g hheld
        obtain ⟨c', h1, h2⟩ := hheld
        rw [h1] at g; injection g with g; subst g; exact h2
    | _ => rw [hp] at g; simp [EView, pendNode] at g
  · exact hi.d.zlog z g1 c g2

theorem scan_cursor_live {s : St} (hi : Inv s) {t : Tid} {a : Nat} {c : Option Nat} {m : Nat}
    (hpc : s.pc t = .uOwner a c m ∨ s.pc t = .uNext a c m) : s.rled m = .cons := by
  have hsc := hi.b.scan t
  have hlc := hi.b.logCons
  simp only [bview_log, bview_rled] at hlc
  rcases hpc with hpc | hpc <;> simp only [bview_vpc, hpc, BView, ScanP, bview_log] at hsc <;>
    exact hlc m (mem_of_mem_below hsc.1)

theorem priv_live {s : St} (hi : Inv s) {t : Tid} {m : Nat} (hp : privRec (BView (s.pc t)) = some m)
    (hl : privLed (BView (s.pc t)) = .cons) : s.rled m = .cons := by
  have := (hi.b.privOk t m hp).2
  simp only [bview_vpc, bview_rled] at this
  rw [this, hl]

theorem own_live {s : St} (hi : Inv s) {t : Tid} {w : Bool} {r : Nat} (hh : s.hnd t = .reg w r) : s.rled r = .cons := by
  have hlc := hi.b.logCons
  simp only [bview_log, bview_rled] at hlc
  exact hlc r (hi.b.own1 t w r hh).1

/-- what a thread in the reclaim phase knows: its record is on the log and active, every older record is inactive -/
theorem reaper_facts {s : St} (hi : Inv s) {t : Tid} {a : Nat} (hr : reaper (BView (s.pc t)) = some a) :
    a ∈ s.log ∧ (s.recs a).owner = some t ∧ ∀ x ∈ Below s.log a, (s.recs x).owner = none := by
  obtain ⟨w, hw⟩ := hi.a.myr t a (reaper_myRec hr)
  have ho := hi.b.own1 t w a hw
  obtain ⟨f1, f2⟩ := reapP_facts (hi.b.reap t) hr
  simp only [bview_log, bview_recs] at ho f1 f2
  exact ⟨f1, ho.2, f2⟩

theorem lst_live {s : St} (hi : Inv s) (hdt : s.dt = false) {n : Nat} (hn : n ∈ s.lst) : s.nled n = .cons := by
  rcases hi.d.lstCons n hn with f | ⟨u, hu⟩
  · exact f
  · have := hi.a.dtd u (dview_dtor (Or.inr ⟨n, none, hu⟩))
    rw [hdt] at this; cases this

/-- events other than `alo / con / des / fre` leave the ledger alone -/
theorem ledger_frame {s s' : St} {t : Tid} {e : Ev} (hS : Step s t e s')
    (hk : e.kind ≠ .alo ∧ e.kind ≠ .con ∧ e.kind ≠ .des ∧ e.kind ≠ .fre) : s'.nled = s.nled ∧ s'.rled = s.rled := by
  cases hS <;> simp [Ev.kind] at hk <;> (try exact ⟨rfl, rfl⟩)
  all_goals (simp only [St.dNodeAt, St.reapAt, St.dRecAt]; split <;> exact ⟨rfl, rfl⟩)


end ConcVerif.Rcu
