import ConcVerif.Proof.HBCowFacts2
/-! cow_guarded and happens-before, part 7: the trace invariants that place the payload accesses of a version
relative to the store that publishes it and to the loads that find it. -/
namespace ConcVerif.Cow
open ConcVerif.LR (Side)

structure CInv (es : List (Tid × Ev)) (s : St) : Prop where
  /-- the payload of `v` is written by one thread only, the one that owns `v` -/
  wro : ∀ (i : Nat) (t0 : Tid) (e : Ev) (v : Ver), es[i]? = some (t0, e) → e.wrP = some v →
    v ∈ s.alloc ∧ v ≠ 0 ∧ ∀ u, (s.pc u).hasV = some v → u = t0
  hva : ∀ (u : Tid) (v : Ver), (s.pc u).hasV = some v → v ∈ s.alloc
  /-- once its publication has started a version is no longer in a thread's private hands -/
  stp : ∀ (q : Nat) (t1 : Tid) (x : Side) (v : Ver), es[q]? = some (t1, Ev.stPtr x v) →
    v ∈ s.alloc ∧ ∀ u, (s.pc u).pre ≠ some v
  /-- every write to `v` precedes, in the same thread, every store that installs `v` on a side -/
  kw : ∀ (i : Nat) (t0 : Tid) (e : Ev) (v : Ver) (q : Nat) (t1 : Tid) (x : Side), es[i]? = some (t0, e) → e.wrP = some v →
    es[q]? = some (t1, Ev.stPtr x v) → t1 = t0 ∧ i < q
  /-- all writes to the payload of `v` are made by one thread -/
  ww : ∀ (i c : Nat) (t0 u : Tid) (e e' : Ev) (v : Ver), es[i]? = some (t0, e) → es[c]? = some (u, e') → e.wrP = some v →
    e'.wrP = some v → t0 = u
  sn : ∀ (u : Tid) (v : Ver), (u, v) ∈ s.snaps → ∃ (r : Nat) (x : Side), es[r]? = some (u, Ev.ldPtr x v)
  lh : ∀ (u : Tid) (g : Ver), s.pc u = .lkH (some g) → ∃ (r : Nat) (x : Side), es[r]? = some (u, Ev.ldPtr x g)
  owc : ∀ (u : Tid) (v : Ver), (s.pc u).pre = some v → ∃ (c : Nat) (src : Ver) (k : Nat), es[c]? = some (u, Ev.pcp v src k)
  /-- a thread reads the payload of `v` after it has loaded a pointer to `v` itself, or it has made `v` -/
  kr : ∀ (j : Nat) (u : Tid) (e : Ev) (v : Ver), es[j]? = some (u, e) → e.rdP = some v →
    (∃ (r : Nat) (x : Side), r < j ∧ es[r]? = some (u, Ev.ldPtr x v)) ∨
    (∃ (c : Nat) (src : Ver) (k : Nat), c < j ∧ es[c]? = some (u, Ev.pcp v src k))
  svt : ∀ (x : Side) (v : Ver), v ∈ s.lr.val x → ∃ (q : Nat) (t0 : Tid), es[q]? = some (t0, Ev.stPtr x v)
  detw : ∀ (x : Side), s.det = some x → ∃ (q : Nat) (t0 : Tid) (v : Ver), es[q]? = some (t0, Ev.stPtr x v) ∧
    (s.pc t0 = .relA v ∨ ∃ f, s.pc t0 = .relB v f)
  /-- a pointer loaded from a side was stored there before (or is the constructor's version) -/
  kl : ∀ (r : Nat) (u : Tid) (x : Side) (v : Ver), es[r]? = some (u, Ev.ldPtr x v) →
    v = 0 ∨ ∃ (q : Nat) (t0 : Tid), q < r ∧ es[q]? = some (t0, Ev.stPtr x v)

theorem cinv_init (b : Bool) : CInv [] (init b) := by
  refine ⟨?_, ?_, ?_, ?_, ?_, ?_, ?_, ?_, ?_, ?_, ?_, ?_⟩ <;> intros <;> simp [init, LR.init, Pc.hasV, Pc.pre, LR.St.val] at *
  rename_i x v h
  cases x <;> simp at h

theorem hasV_holds {p : Pc} {v : Ver} (h : p.hasV = some v) : p.holds = true := by
  cases p <;> simp [Pc.hasV] at h <;> rfl

theorem pre_hasV {p : Pc} {v : Ver} (h : p.pre = some v) : p.hasV = some v := by
  cases p <;> simp [Pc.pre] at h <;> simp [Pc.hasV, h]

theorem rel_hasV {p : Pc} {v : Ver} (h : p = .relA v ∨ ∃ f, p = .relB v f) : p.hasV = some v := by
  rcases h with h | ⟨f, h⟩ <;> subst h <;> rfl

theorem rel_pre {p : Pc} {v : Ver} (h : p = .relA v ∨ ∃ f, p = .relB v f) (w : Ver) : p.pre ≠ some w := by
  rcases h with h | ⟨f, h⟩ <;> subst h <;> simp [Pc.pre]

theorem holds_uniq {s : St} (hi : Inv s) {u t : Tid} (h1 : (s.pc u).holds = true) (h2 : (s.pc t).holds = true) : u = t := by
  have a := (hi.l.wmh u).1 h1
  have b := (hi.l.wmh t).1 h2
  rw [a] at b; injection b

/-- the thread whose assignment window is open is publishing -/
theorem det_owner {s : St} (hi : Inv s) {x : Side} (hd : s.det = some x) :
    ∃ w v, s.pc w = .relA v ∨ ∃ f, s.pc w = .relB v f := by
  obtain ⟨w, hw⟩ := hi.l.win x hd
  rcases post_rel hi.l (writing_post hw) with ⟨v, h⟩ | ⟨v, f, h⟩
  · exact ⟨w, v, .inl h⟩
  · exact ⟨w, v, .inr ⟨f, h⟩⟩

theorem side_cases (x y : Side) : x = y ∨ x = y.flip := by cases x <;> cases y <;> simp [Side.flip]

end ConcVerif.Cow
