import ConcVerif.Proof.Latch
/-! Ties the ghost counter `St.arrived` of the Latch model (number of decrements performed) to the
*calls* that appear in the trace: every decrement belongs to exactly one `arrive` /
`arrive_and_wait` call, so `arrived` never exceeds the number of such calls that have started, and
the difference is exactly the number of callers that have not reached their decrement yet.
Any number of threads, any trace; the pending callers are carried as a ghost list. -/
namespace ConcVerif.Latch

/-- inside `arrive`, before the decrement -/
def Pc.pending : Pc → Bool
  | .aCalled _ | .aLocked _ => true
  | _ => false

/-- 1 for the call events that start an arrival -/
def acN : Ev → Nat
  | .call .arrive => 1
  | .call .aaw => 1
  | _ => 0

/-- number of `arrive` / `arrive_and_wait` calls started in a trace -/
def arriveCalls : List (Tid × Ev) → Nat
  | [] => 0
  | (_, e) :: es => acN e + arriveCalls es

structure J (s : St) (P : List Tid) (c : Nat) : Prop where
  sum : s.arrived + P.length = c
  mem : ∀ t, (s.pc t).pending = true → t ∈ P

theorem J_frame {s s' : St} {P : List Tid} {c : Nat} {t : Tid} {p' : Pc} (h : J s P c)
    (ha : s'.arrived = s.arrived) (hpc : s'.pc = upd s.pc t p')
    (hp : p'.pending = true → (s.pc t).pending = true) : J s' P c := by
  refine ⟨by rw [ha]; exact h.sum, ?_⟩
  intro u hu
  rw [hpc, upd_apply] at hu
  by_cases hut : u = t
  · subst hut; simp at hu; exact h.mem u (hp hu)
  · simp [hut] at hu; exact h.mem u hu

theorem J_call {s s' : St} {P : List Tid} {c : Nat} {t : Tid} {p' : Pc} (h : J s P c)
    (ha : s'.arrived = s.arrived) (hpc : s'.pc = upd s.pc t p') : J s' (t :: P) (c + 1) := by
  refine ⟨by rw [ha]; have := h.sum; simp; omega, ?_⟩
  intro u hu
  rw [hpc, upd_apply] at hu
  by_cases hut : u = t
  · subst hut; simp
  · simp [hut] at hu; exact List.mem_cons_of_mem _ (h.mem u hu)

theorem J_dec {s s' : St} {P : List Tid} {c : Nat} {t : Tid} {p' : Pc} (h : J s P c)
    (ha : s'.arrived = s.arrived + 1) (hpc : s'.pc = upd s.pc t p')
    (hold : (s.pc t).pending = true) (hp : p'.pending = false) : J s' (P.erase t) c := by
  have hin : t ∈ P := h.mem t hold
  have hlen : (P.erase t).length = P.length - 1 := List.length_erase_of_mem hin
  have hpos : 0 < P.length := List.length_pos_of_mem hin
  refine ⟨by rw [ha, hlen]; have := h.sum; omega, ?_⟩
  intro u hu
  rw [hpc, upd_apply] at hu
  by_cases hut : u = t
  · subst hut; simp [hp] at hu
  · simp [hut] at hu
    exact (List.mem_erase_of_ne hut).2 (h.mem u hu)

theorem J_step {s s' : St} {P : List Tid} {c : Nat} {t : Tid} {e : Ev} (h : J s P c)
    (hs : step s t e = some s') : ∃ P', J s' P' (c + acN e) := by
  unfold step at hs
  split at hs
  all_goals (try (repeat' (split at hs)))
  all_goals (try contradiction)
  all_goals (injection hs with hs; subst hs)
  all_goals rename_i hpcs _
  all_goals first
    | exact ⟨P, J_frame (t := t) h rfl rfl (by simp_all [Pc.pending])⟩
    | exact ⟨t :: P, J_call (t := t) h rfl rfl⟩
    | exact ⟨P.erase t, J_dec (t := t) h rfl rfl (by simp_all [Pc.pending]) (by simp [Pc.pending])⟩

theorem J_run {s s' : St} {P : List Tid} {c : Nat} (es : List (Tid × Ev)) (h : J s P c)
    (hr : runFrom step s es = some s') : ∃ P', J s' P' (c + arriveCalls es) := by
  induction es generalizing s P c with
  | nil => simp at hr; subst hr; exact ⟨P, h⟩
  | cons te es ih =>
    obtain ⟨t, e⟩ := te
    rw [runFrom_cons] at hr
    cases hst : step s t e with
    | none => simp [hst] at hr
    | some s1 =>
      simp [hst] at hr
      obtain ⟨P1, h1⟩ := J_step h hst
      obtain ⟨P2, h2⟩ := ih h1 hr
      exact ⟨P2, by simpa [arriveCalls, Nat.add_assoc] using h2⟩

theorem J_init (start : Int) : J (init start) [] 0 :=
  ⟨rfl, by intro t ht; simp [init, Pc.pending] at ht⟩

end ConcVerif.Latch
