import ConcVerif.Proof.Latch
/-! Ties the ghost counter `St.arrived` of the Latch model (number of decrements performed) to the
*calls* that appear in the trace: every decrement belongs to exactly one `arrive` /
`arrive_and_wait` call, so `arrived` never exceeds the number of such calls that have started, and
the difference is exactly the number of callers that have not reached their decrement yet.
Any number of threads, any trace; the pending callers are carried as a ghost list. -/
namespace ConcVerif.Latch

/-- inside `arrive`, before the decrement -/
def Pc.pending : Pc → Bool
  | .aCalled _ | .aLocked _ => true
  | _ => false

/-- 1 for the call events that start an arrival -/
def acN : Ev → Nat
  | .call .arrive => 1
  | .call .aaw => 1
  | _ => 0

/-- number of `arrive` / `arrive_and_wait` calls started in a trace -/
def arriveCalls : List (Tid × Ev) → Nat
  | [] => 0
  | (_, e) :: es => acN e + arriveCalls es

structure J (s : St) (P : List Tid) (c : Nat) : Prop where
  sum : s.arrived + P.length = c
  mem : ∀ t, (s.pc t).pending = true → t ∈ P
  only : ∀ t, t ∈ P → (s.pc t).pending = true
  nodup : P.Nodup

theorem J_frame {s s' : St} {P : List Tid} {c : Nat} {t : Tid} {p' : Pc} (h : J s P c)
    (ha : s'.arrived = s.arrived) (hpc : s'.pc = upd s.pc t p')
    (hp : p'.pending = (s.pc t).pending) : J s' P c := by
  refine ⟨by rw [ha]; exact h.sum, ?_, ?_, h.nodup⟩
  · intro u hu
    rw [hpc, upd_apply] at hu
    by_cases hut : u = t
    · subst hut; simp at hu; exact h.mem u (hp ▸ hu)
    · simp [hut] at hu; exact h.mem u hu
  · intro u hu
    rw [hpc, upd_apply]
    by_cases hut : u = t
    · subst hut; simp; rw [hp]; exact h.only u hu
    · simp [hut]; exact h.only u hu

theorem J_call {s s' : St} {P : List Tid} {c : Nat} {t : Tid} {p' : Pc} (h : J s P c)
    (ha : s'.arrived = s.arrived) (hpc : s'.pc = upd s.pc t p')
    (hold : (s.pc t).pending = false) (hp : p'.pending = true) : J s' (t :: P) (c + 1) := by
  have hnin : t ∉ P := by intro hin; have := h.only t hin; rw [hold] at this; cases this
  refine ⟨by rw [ha]; have := h.sum; simp; omega, ?_, ?_, List.nodup_cons.2 ⟨hnin, h.nodup⟩⟩
  · intro u hu
    rw [hpc, upd_apply] at hu
    by_cases hut : u = t
    · subst hut; simp
    · simp [hut] at hu; exact List.mem_cons_of_mem _ (h.mem u hu)
  · intro u hu
    rw [hpc, upd_apply]
    by_cases hut : u = t
    · subst hut; simp [hp]
    · simp [hut]
      rcases List.mem_cons.1 hu with h1 | h1
      · exact absurd h1 hut
      · exact h.only u h1

theorem J_dec {s s' : St} {P : List Tid} {c : Nat} {t : Tid} {p' : Pc} (h : J s P c)
    (ha : s'.arrived = s.arrived + 1) (hpc : s'.pc = upd s.pc t p')
    (hold : (s.pc t).pending = true) (hp : p'.pending = false) : J s' (P.erase t) c := by
  have hin : t ∈ P := h.mem t hold
  have hlen : (P.erase t).length = P.length - 1 := List.length_erase_of_mem hin
  have hpos : 0 < P.length := List.length_pos_of_mem hin
  refine ⟨by rw [ha, hlen]; have := h.sum; omega, ?_, ?_, h.nodup.erase t⟩
  · intro u hu
    rw [hpc, upd_apply] at hu
    by_cases hut : u = t
    · subst hut; simp [hp] at hu
    · simp [hut] at hu
      exact (List.mem_erase_of_ne hut).2 (h.mem u hu)
  · intro u hu
    have hu2 := (h.nodup.mem_erase_iff).1 hu
    rw [hpc, upd_apply]
    simp [hu2.1]
    exact h.only u hu2.2

theorem J_step {s s' : St} {P : List Tid} {c : Nat} {t : Tid} {e : Ev} (h : J s P c)
    (hs : step s t e = some s') : ∃ P', J s' P' (c + acN e) := by
  unfold step at hs
  split at hs
  all_goals (try (repeat' (split at hs)))
  all_goals (try contradiction)
  all_goals (injection hs with hs; subst hs)
  all_goals rename_i hpcs _
  all_goals first
    | exact ⟨P, J_frame (t := t) h rfl rfl (by simp_all [Pc.pending])⟩
    | exact ⟨t :: P, J_call (t := t) h rfl rfl (by simp_all [Pc.pending]) (by simp [Pc.pending])⟩
    | exact ⟨P.erase t, J_dec (t := t) h rfl rfl (by simp_all [Pc.pending]) (by simp [Pc.pending])⟩

theorem J_run {s s' : St} {P : List Tid} {c : Nat} (es : List (Tid × Ev)) (h : J s P c)
    (hr : runFrom step s es = some s') : ∃ P', J s' P' (c + arriveCalls es) := by
  induction es generalizing s P c with
  | nil => simp at hr; subst hr; exact ⟨P, h⟩
  | cons te es ih =>
    obtain ⟨t, e⟩ := te
    rw [runFrom_cons] at hr
    cases hst : step s t e with
    | none => simp [hst] at hr
    | some s1 =>
      simp [hst] at hr
      obtain ⟨P1, h1⟩ := J_step h hst
      obtain ⟨P2, h2⟩ := ih h1 hr
      exact ⟨P2, by simpa [arriveCalls, Nat.add_assoc] using h2⟩

theorem J_init (start : Int) : J (init start) [] 0 :=
  { sum := rfl
    mem := fun t ht => by simp [init, Pc.pending] at ht
    only := fun t ht => by cases ht
    nodup := List.nodup_nil }

/-- the constructor argument never changes -/
theorem run_start {start : Int} {es : List (Tid × Ev)} {s : St} (h : run start es = some s) : s.start = start := by
  have : ∀ (s0 s1 : St) (es : List (Tid × Ev)), runFrom step s0 es = some s1 → s1.start = s0.start := by
    intro s0 s1 es hr
    refine runFrom_rel (R := fun a b => b.start = a.start) (fun _ => rfl) (fun a b c h1 h2 => by rw [h2, h1]) ?_ hr
    intro a u e b hab
    unfold step at hab
    split at hab <;> (repeat' (split at hab)) <;> first | contradiction | (injection hab with hab; subst hab; rfl)
  exact this _ _ es h

end ConcVerif.Latch
