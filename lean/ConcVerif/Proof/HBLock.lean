import ConcVerif.Proof.HB
/-! The lockset theorem: in a trace consistent with mutex semantics, accesses made under one mutex
(exclusively for writes) are ordered by happens-before. -/
namespace ConcVerif.HB

theorem held_snoc (tr : Trace) (p : Tid × Ev) : held (tr ++ [p]) = hstep (held tr) p := by
  simp [held, List.foldl_append]

theorem take_succ_get {tr : Trace} {n : Nat} {p : Tid × Ev} (h : tr[n]? = some p) :
    tr.take (n + 1) = tr.take n ++ [p] := by
  rw [List.take_add_one, h]; rfl

theorem held_take_succ {tr : Trace} {n : Nat} {p : Tid × Ev} (h : tr[n]? = some p) :
    held (tr.take (n + 1)) = hstep (held (tr.take n)) p := by
  rw [take_succ_get h, held_snoc]

/-- how one event changes what a thread holds -/
theorem hstep_cases (h : Tid → Loc → Option Mode) (w : Tid) (e : Ev) (u : Tid) (m : Loc) :
    (∃ md, e = .acq m md ∧ w = u ∧ hstep h (w, e) u m = some md) ∨
    (∃ md, e = .rel m md ∧ w = u ∧ hstep h (w, e) u m = none) ∨
    hstep h (w, e) u m = h u m := by
  cases e with
  | acq m' md =>
    by_cases hc : u = w ∧ m = m'
    · obtain ⟨h1, h2⟩ := hc; subst h1; subst h2
      exact .inl ⟨md, rfl, rfl, by simp [hstep]⟩
    · exact .inr (.inr (by simp [hstep, hc]))
  | rel m' md =>
    by_cases hc : u = w ∧ m = m'
    · obtain ⟨h1, h2⟩ := hc; subst h1; subst h2
      exact .inr (.inl ⟨md, rfl, rfl, by simp [hstep]⟩)
    · exact .inr (.inr (by simp [hstep, hc]))
  | _ => exact .inr (.inr rfl)

/-- a thread that holds something has performed an event -/
theorem held_some_mem {tr : Trace} {u : Tid} {m : Loc} {md : Mode} (h : held tr u m = some md) :
    ∃ p ∈ tr, p.1 = u := by
  induction tr using snoc_induction with
  | h0 => simp [held] at h
  | hs tr x ih =>
    rw [held_snoc] at h
    obtain ⟨w, e⟩ := x
    by_cases hw : w = u
    · exact ⟨(w, e), by simp, hw⟩
    · have : held tr u m = some md := by
        rcases hstep_cases (held tr) w e u m with ⟨_, _, h1, _⟩ | ⟨_, _, h1, _⟩ | h1
        · exact absurd h1 hw
        · exact absurd h1 hw
        · rw [h1] at h; exact h
      obtain ⟨p, hp, hpu⟩ := ih this
      exact ⟨p, by simp [hp], hpu⟩

theorem compat_some {a b : Mode} (h : compat (some a) b = true) : a = .S ∧ b = .S := by
  cases a <;> cases b <;> simp [compat] at h ⊢

/-- the compatibility requirement of `okAt` for every other thread -/
theorem okAt_acq {tr : Trace} {n : Nat} {t : Tid} {m : Loc} {md : Mode} (hok : okAt tr n)
    (h : tr[n]? = some (t, .acq m md)) :
    held (tr.take n) t m = none ∧ ∀ u, u ≠ t → compat (held (tr.take n) u m) md = true := by
  simp only [okAt, h] at hok
  refine ⟨hok.1, ?_⟩
  intro u hu
  cases hh : held (tr.take n) u m with
  | none => rfl
  | some a =>
    obtain ⟨p, hp, hpu⟩ := held_some_mem hh
    have := hok.2 p hp (by rw [hpu]; exact hu)
    rw [hpu, hh] at this; exact this

theorem okAt_rel {tr : Trace} {n : Nat} {t : Tid} {m : Loc} {md : Mode} (hok : okAt tr n)
    (h : tr[n]? = some (t, .rel m md)) : held (tr.take n) t m = some md := by
  simp only [okAt, h] at hok; exact hok

/-- mutual exclusion follows from the per-event consistency conditions -/
theorem held_excl {tr : Trace} (hok : MutexOK tr) {n : Nat} (hn : n ≤ tr.length) {t u : Tid} {m : Loc} {a b : Mode}
    (htu : t ≠ u) (ht : held (tr.take n) t m = some a) (hu : held (tr.take n) u m = some b) : a = .S ∧ b = .S := by
  induction n generalizing t u a b with
  | zero => simp [held] at ht
  | succ n ih =>
    have hlt : n < tr.length := by omega
    obtain ⟨p, hp⟩ : ∃ p, tr[n]? = some p := ⟨tr[n], by simp [hlt]⟩
    obtain ⟨w, e⟩ := p
    rw [held_take_succ hp] at ht hu
    have hokn := hok n hlt
    rcases hstep_cases (held (tr.take n)) w e t m with ⟨md, he, hw, h1⟩ | ⟨md, he, hw, h1⟩ | h1
    · -- t acquires m
      subst he; subst hw
      rw [h1] at ht; injection ht with ht; subst ht
      rcases hstep_cases (held (tr.take n)) w (.acq m md) u m with ⟨_, _, hw2, _⟩ | ⟨_, he2, _, _⟩ | h2
      · exact absurd hw2 htu
      · cases he2
      · rw [h2] at hu
        have := (okAt_acq hokn hp).2 u (fun h => htu h.symm)
        rw [hu] at this
        have := compat_some this
        exact ⟨this.2, this.1⟩
    · rw [h1] at ht; cases ht
    · rw [h1] at ht
      rcases hstep_cases (held (tr.take n)) w e u m with ⟨md, he, hw, h2⟩ | ⟨md, he, hw, h2⟩ | h2
      · subst he; subst hw
        rw [h2] at hu; injection hu with hu; subst hu
        have := (okAt_acq hokn hp).2 t htu
        rw [ht] at this
        have := compat_some this
        exact ⟨this.1, this.2⟩
      · rw [h2] at hu; cases hu
      · rw [h2] at hu
        exact ih (by omega) htu ht hu

/-- a hold that is gone later was released in between -/
theorem held_released {tr : Trace} (hok : MutexOK tr) {t : Tid} {m : Loc} {md : Mode} {i l : Nat} (hil : i ≤ l)
    (hl : l ≤ tr.length) (hi : held (tr.take i) t m = some md) (hne : held (tr.take l) t m ≠ some md) :
    ∃ k, i ≤ k ∧ k < l ∧ tr[k]? = some (t, .rel m md) := by
  induction l with
  | zero =>
    have : i = 0 := by omega
    subst this; exact absurd hi hne
  | succ l ih =>
    by_cases heq : i = l + 1
    · subst heq; exact absurd hi hne
    · have hlt : l < tr.length := by omega
      by_cases hh : held (tr.take l) t m = some md
      · obtain ⟨p, hp⟩ : ∃ p, tr[l]? = some p := ⟨tr[l], by simp [hlt]⟩
        obtain ⟨w, e⟩ := p
        rw [held_take_succ hp] at hne
        have hokl := hok l hlt
        rcases hstep_cases (held (tr.take l)) w e t m with ⟨md', he, hw, _⟩ | ⟨md', he, hw, _⟩ | h1
        · subst he; subst hw
          have := (okAt_acq hokl hp).1
          rw [hh] at this; cases this
        · subst he; subst hw
          have := okAt_rel hokl hp
          rw [hh] at this; injection this with this; subst this
          exact ⟨l, by omega, by omega, hp⟩
        · rw [h1] at hne; exact absurd hh hne
      · obtain ⟨k, h1, h2, h3⟩ := ih (by omega) (by omega) hh
        exact ⟨k, h1, by omega, h3⟩

/-- a hold was there all along or was acquired in between -/
theorem held_acquired {tr : Trace} {u : Tid} {m : Loc} {md : Mode} {i j : Nat} (hij : i ≤ j) (hj : j ≤ tr.length)
    (h : held (tr.take j) u m = some md) :
    held (tr.take i) u m = some md ∨ ∃ l, i ≤ l ∧ l < j ∧ tr[l]? = some (u, .acq m md) := by
  induction j with
  | zero =>
    have : i = 0 := by omega
    subst this; exact .inl h
  | succ j ih =>
    by_cases heq : i = j + 1
    · subst heq; exact .inl h
    · have hlt : j < tr.length := by omega
      obtain ⟨p, hp⟩ : ∃ p, tr[j]? = some p := ⟨tr[j], by simp [hlt]⟩
      obtain ⟨w, e⟩ := p
      rw [held_take_succ hp] at h
      rcases hstep_cases (held (tr.take j)) w e u m with ⟨md', he, hw, h1⟩ | ⟨md', he, hw, h1⟩ | h1
      · subst he; subst hw
        rw [h1] at h; injection h with h; subst h
        exact .inr ⟨j, by omega, by omega, hp⟩
      · rw [h1] at h; cases h
      · rw [h1] at h
        rcases ih (by omega) (by omega) h with h2 | ⟨l, h2, h3, h4⟩
        · exact .inl h2
        · exact .inr ⟨l, h2, by omega, h4⟩

/-- **Lockset theorem.**  In a trace consistent with mutex semantics, if every access to `x` is made
while the accessing thread holds `m` (exclusively for writes), every access to `x` happens after every
earlier conflicting access. -/
theorem lockset_hb {tr : Trace} {x m : Loc} (hok : MutexOK tr) (hls : LockSet tr x m) {i j : Nat} (hij : i < j)
    (hc : ConflictOn tr x i j) : HB tr i j := by
  obtain ⟨t, u, ei, ej, h1, h2, ha1, ha2, hor⟩ := hc
  have hjl := get_lt h2
  by_cases htu : t = u
  · subst htu; exact .po hij h1 h2
  · -- what the two threads hold at their accesses
    have hi := hls i (by omega)
    have hj := hls j hjl
    simp only [lockedAt, h1] at hi
    simp only [lockedAt, h2] at hj
    obtain ⟨a, hta, hax⟩ : ∃ a, held (tr.take i) t m = some a ∧ (ei = .wr x → a = .X) := by
      cases ha1 with
      | inl h => subst h; simp only at hi
                 cases hh : held (tr.take i) t m with
                 | none => exact absurd hh (hi trivial)
                 | some a => exact ⟨a, rfl, by intro h; cases h⟩
      | inr h => subst h; simp only at hi; exact ⟨.X, hi trivial, fun _ => rfl⟩
    obtain ⟨b, hub, hbx⟩ : ∃ b, held (tr.take j) u m = some b ∧ (ej = .wr x → b = .X) := by
      cases ha2 with
      | inl h => subst h; simp only at hj
                 cases hh : held (tr.take j) u m with
                 | none => exact absurd hh (hj trivial)
                 | some b => exact ⟨b, rfl, by intro h; cases h⟩
      | inr h => subst h; simp only at hj; exact ⟨.X, hj trivial, fun _ => rfl⟩
    have hX : a = .X ∨ b = .X := by
      cases hor with
      | inl h => exact .inl (hax h)
      | inr h => exact .inr (hbx h)
    have hnotSS : ¬ (a = .S ∧ b = .S) := by
      intro ⟨h3, h4⟩; cases hX with
      | inl h => rw [h] at h3; cases h3
      | inr h => rw [h] at h4; cases h4
    rcases held_acquired (i := i) (by omega) (by omega) hub with h3 | ⟨l, hil, hlj, hl⟩
    · exact absurd (held_excl hok (by omega) htu hta h3) hnotSS
    · have hne : l ≠ i := by
        intro h; subst h; rw [h1] at hl; injection hl with hl; injection hl with hl; exact htu hl
      have hcomp := (okAt_acq (hok l (by omega)) hl).2 t htu
      have hgone : held (tr.take l) t m ≠ some a := by
        intro h; rw [h] at hcomp; exact hnotSS (compat_some hcomp)
      obtain ⟨k, hik, hkl, hk⟩ := held_released hok hil (by omega) hta hgone
      have hki : k ≠ i := by
        intro h; subst h; rw [h1] at hk; injection hk with hk; injection hk with _ hk
        cases ha1 with
        | inl h => rw [h] at hk; cases hk
        | inr h => rw [h] at hk; cases hk
      exact .trans (.po (by omega) h1 hk) (.trans (.sw (.mutex hkl hk hl hX)) (.po hlj hl h2))

/-! ## building the hypotheses event by event (used to connect component models) -/

theorem okAt_old {tr : Trace} (ext : Trace) {n : Nat} (hn : n < tr.length) : okAt (tr ++ ext) n ↔ okAt tr n := by
  simp only [okAt, List.getElem?_append_left hn, List.take_append_of_le_length (Nat.le_of_lt hn)]

theorem lockedAt_old {tr : Trace} (ext : Trace) {x m : Loc} {n : Nat} (hn : n < tr.length) :
    lockedAt (tr ++ ext) x m n ↔ lockedAt tr x m n := by
  simp only [lockedAt, List.getElem?_append_left hn, List.take_append_of_le_length (Nat.le_of_lt hn)]

theorem mutexOK_snoc {tr : Trace} {t : Tid} {e : Ev} (h : MutexOK tr)
    (hacq : ∀ m md, e = .acq m md → held tr t m = none ∧ ∀ u, u ≠ t → compat (held tr u m) md = true)
    (hrel : ∀ m md, e = .rel m md → held tr t m = some md) : MutexOK (tr ++ [(t, e)]) := by
  intro n hn
  by_cases hlt : n < tr.length
  · exact (okAt_old _ hlt).mpr (h n hlt)
  · have : n = tr.length := by simp at hn; omega
    subst this
    simp only [okAt, List.getElem?_concat_length, List.take_left']
    cases e with
    | acq m md => exact ⟨(hacq m md rfl).1, fun p _ hp => (hacq m md rfl).2 p.1 hp⟩
    | rel m md => exact hrel m md rfl
    | _ => trivial

theorem lockSet_snoc {tr : Trace} {x m : Loc} {t : Tid} {e : Ev} (h : LockSet tr x m)
    (hrd : e = .rd x → held tr t m ≠ none) (hwr : e = .wr x → held tr t m = some .X) :
    LockSet (tr ++ [(t, e)]) x m := by
  intro n hn
  by_cases hlt : n < tr.length
  · exact (lockedAt_old _ hlt).mpr (h n hlt)
  · have : n = tr.length := by simp at hn; omega
    subst this
    simp only [lockedAt, List.getElem?_concat_length, List.take_left']
    cases e with
    | rd y => intro hy; subst hy; exact hrd rfl
    | wr y => intro hy; subst hy; exact hwr rfl
    | _ => trivial

theorem mutexOK_nil : MutexOK [] := by intro n hn; simp at hn
theorem lockSet_nil (x m : Loc) : LockSet [] x m := by intro n hn; simp at hn

end ConcVerif.HB
