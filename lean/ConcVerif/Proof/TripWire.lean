import ConcVerif.Model.TripWire
/-! Invariant and helper lemmas for the TripWire model.

The whole development hangs on one characterisation of `step` (`step_lines`): a step either leaves the
three per-line fields (`line`, `msg`, `trips`) alone, or it is THE tripping store / exchange of a
destructor that entered holding line `l` — and then it changes these fields at `l` only. -/
namespace ConcVerif.TripWire

@[simp] theorem set_same {κ α : Type} [DecidableEq κ] (f : κ → α) (k : κ) (a : α) : set f k a k = a := by
  simp [set]

@[simp] theorem set_other {κ α : Type} [DecidableEq κ] (f : κ → α) (k x : κ) (a : α) (h : x ≠ k) :
    set f k a x = f x := by
  simp [set, h]

theorem set_apply {κ α : Type} [DecidableEq κ] (f : κ → α) (k x : κ) (a : α) :
    set f k a x = if x = k then a else f x := rfl

@[simp] theorem setPc_line (s : St) (t : Tid) (p : Pc) : (s.setPc t p).line = s.line := rfl
@[simp] theorem setPc_msg (s : St) (t : Tid) (p : Pc) : (s.setPc t p).msg = s.msg := rfl
@[simp] theorem setPc_trips (s : St) (t : Tid) (p : Pc) : (s.setPc t p).trips = s.trips := rfl
@[simp] theorem setPc_know (s : St) (t : Tid) (p : Pc) : (s.setPc t p).know = s.know := rfl
@[simp] theorem setPc_trig (s : St) (t : Tid) (p : Pc) : (s.setPc t p).trig = s.trig := rfl
@[simp] theorem setPc_det (s : St) (t : Tid) (p : Pc) : (s.setPc t p).det = s.det := rfl
@[simp] theorem setPc_data (s : St) (t : Tid) (p : Pc) : (s.setPc t p).data = s.data := rfl
@[simp] theorem setPc_nIdx (s : St) (t : Tid) (p : Pc) : (s.setPc t p).nIdx = s.nIdx := rfl
@[simp] theorem setPc_pc (s : St) (t : Tid) (p : Pc) : (s.setPc t p).pc = upd s.pc t p := rfl

/-- the line an atomic event is about -/
def Ev.line? : Ev → Option LineId
  | .ld l _ _ => some l
  | .st l _ _ => some l
  | .xchg l _ _ _ => some l
  | _ => none

/-- the event writes to an atomic -/
def Ev.isWrite : Ev → Bool
  | .st _ _ _ => true
  | .xchg _ _ _ _ => true
  | _ => false

/-- the per-line fields are untouched -/
def SameLines (s s' : St) : Prop := s'.line = s.line ∧ s'.msg = s.msg ∧ s'.trips = s.trips

/-- the step of thread `t` is the tripping write of a destructor that entered holding `l` -/
structure IsTrip (s : St) (t : Tid) (e : Ev) (s' : St) (l : LineId) : Prop where
  pc : ∃ id, s.pc t = .rm id (some l) false ∧ s'.pc t = .rm id (some l) true
  ev : e.line? = some l ∧ e.isWrite = true
  line : s'.line = set s.line l true
  trips : s'.trips = set s.trips l ((t, s.know t) :: s.trips l)
  msg : ∀ w ∈ s.know t, w ∈ s'.msg l
  msgOther : ∀ j, j ≠ l → s'.msg j = s.msg j
  others : ∀ u, u ≠ t → s'.pc u = s.pc u

/-- a step that does not trip keeps every pc that is a "store done" destructor pc where it was -/
def PcFrame (s s' : St) : Prop :=
  ∀ u id l, s'.pc u = .rm id (some l) true → s.pc u = .rm id (some l) true

theorem pcFrame_upd (s : St) (t : Tid) (p : Pc) (hp : ∀ id l, p ≠ .rm id (some l) true) :
    ∀ u id l, upd s.pc t p u = .rm id (some l) true → s.pc u = .rm id (some l) true := by
  intro u id l h
  by_cases hu : u = t
  · subst hu; simp at h; exact absurd h (hp id l)
  · simpa [hu] using h

/-- characterisation of `step` with respect to the per-line fields -/
theorem step_lines {s s' : St} {t : Tid} {e : Ev} (hs : step s t e = some s') :
    (SameLines s s' ∧ PcFrame s s') ∨ ∃ l, IsTrip s t e s' l := by
  unfold step at hs
  split at hs
  -- fork
  · split at hs
    · injection hs with hs; subst hs
      exact Or.inl ⟨⟨rfl, rfl, rfl⟩, fun _ _ _ h => h⟩
    · contradiction
  -- callMkT
  · split at hs
    · injection hs with hs; subst hs
      exact Or.inl ⟨⟨rfl, rfl, rfl⟩, pcFrame_upd _ _ _ (by intro _ _ h; cases h)⟩
    · contradiction
  -- retMkT
  · split at hs
    · split at hs <;> (injection hs with hs; subst hs)
      · exact Or.inl ⟨⟨rfl, rfl, rfl⟩, pcFrame_upd _ _ _ (by intro _ _ h; cases h)⟩
      · exact Or.inl ⟨⟨rfl, rfl, rfl⟩, pcFrame_upd _ _ _ (by intro _ _ h; cases h)⟩
    · contradiction
  -- callMkD
  · split at hs
    · injection hs with hs; subst hs
      exact Or.inl ⟨⟨rfl, rfl, rfl⟩, pcFrame_upd _ _ _ (by intro _ _ h; cases h)⟩
    · contradiction
  -- retMkD
  · split at hs
    · split at hs <;> (injection hs with hs; subst hs)
      · exact Or.inl ⟨⟨rfl, rfl, rfl⟩, pcFrame_upd _ _ _ (by intro _ _ h; cases h)⟩
      · exact Or.inl ⟨⟨rfl, rfl, rfl⟩, pcFrame_upd _ _ _ (by intro _ _ h; cases h)⟩
    · contradiction
  -- callMv
  · split at hs
    · injection hs with hs; subst hs
      exact Or.inl ⟨⟨rfl, rfl, rfl⟩, pcFrame_upd _ _ _ (by intro _ _ h; cases h)⟩
    · contradiction
  -- retMv
  · split at hs
    · split at hs
      · injection hs with hs; subst hs
        exact Or.inl ⟨⟨rfl, rfl, rfl⟩, pcFrame_upd _ _ _ (by intro _ _ h; cases h)⟩
      · contradiction
    · contradiction
  -- callAs
  · split at hs
    · injection hs with hs; subst hs
      exact Or.inl ⟨⟨rfl, rfl, rfl⟩, pcFrame_upd _ _ _ (by intro _ _ h; cases h)⟩
    · contradiction
  -- retAs
  · split at hs
    · split at hs
      · split at hs
        · split at hs
          · injection hs with hs; subst hs
            exact Or.inl ⟨⟨rfl, rfl, rfl⟩, pcFrame_upd _ _ _ (by intro _ _ h; cases h)⟩
          · contradiction
        · split at hs
          · injection hs with hs; subst hs
            exact Or.inl ⟨⟨rfl, rfl, rfl⟩, pcFrame_upd _ _ _ (by intro _ _ h; cases h)⟩
          · contradiction
      · contradiction
    · contradiction
  -- callCp
  · split at hs
    · injection hs with hs; subst hs
      exact Or.inl ⟨⟨rfl, rfl, rfl⟩, pcFrame_upd _ _ _ (by intro _ _ h; cases h)⟩
    · contradiction
  -- retCp
  · split at hs
    · split at hs
      · injection hs with hs; subst hs
        exact Or.inl ⟨⟨rfl, rfl, rfl⟩, pcFrame_upd _ _ _ (by intro _ _ h; cases h)⟩
      · contradiction
    · contradiction
  -- callRm
  · split at hs
    · injection hs with hs; subst hs
      exact Or.inl ⟨⟨rfl, rfl, rfl⟩, pcFrame_upd _ _ _ (by intro _ _ h; cases h)⟩
    · contradiction
  -- st
  · rename_i id l l' o v hpc
    split at hs
    · rename_i hc
      obtain ⟨h1, _, _⟩ := hc
      subst h1
      injection hs with hs; subst hs
      refine Or.inr ⟨l', ⟨⟨id, hpc, by simp⟩, ⟨rfl, rfl⟩, rfl, rfl, ?_, ?_, ?_⟩⟩
      · intro w hw; simpa [St.trip] using hw
      · intro j hj; simp [St.trip, hj]
      · intro u hu; simp [hu]; rfl
    · contradiction
  -- xchg
  · rename_i id l l' o new old hpc
    split at hs
    · rename_i hc
      obtain ⟨h1, _, _, _⟩ := hc
      subst h1
      injection hs with hs; subst hs
      refine Or.inr ⟨l', ⟨⟨id, hpc, by simp⟩, ⟨rfl, rfl⟩, rfl, rfl, ?_, ?_, ?_⟩⟩
      · intro w hw; simp [St.trip]; exact Or.inr hw
      · intro j hj; simp [St.trip, hj]
      · intro u hu; simp [hu]; rfl
    · contradiction
  -- retRm
  · split at hs
    · injection hs with hs; subst hs
      exact Or.inl ⟨⟨rfl, rfl, rfl⟩, pcFrame_upd _ _ _ (by intro _ _ h; cases h)⟩
    · contradiction
  -- callRd
  · split at hs
    · injection hs with hs; subst hs
      exact Or.inl ⟨⟨rfl, rfl, rfl⟩, pcFrame_upd _ _ _ (by intro _ _ h; cases h)⟩
    · contradiction
  -- retRd
  · split at hs
    · injection hs with hs; subst hs
      exact Or.inl ⟨⟨rfl, rfl, rfl⟩, pcFrame_upd _ _ _ (by intro _ _ h; cases h)⟩
    · contradiction
  -- callCk
  · split at hs
    · injection hs with hs; subst hs
      exact Or.inl ⟨⟨rfl, rfl, rfl⟩, pcFrame_upd _ _ _ (by intro _ _ h; cases h)⟩
    · contradiction
  -- ld
  · split at hs
    · injection hs with hs; subst hs
      exact Or.inl ⟨⟨rfl, rfl, rfl⟩, pcFrame_upd _ _ _ (by intro _ _ h; cases h)⟩
    · contradiction
  -- retCk
  · split at hs
    · injection hs with hs; subst hs
      exact Or.inl ⟨⟨rfl, rfl, rfl⟩, pcFrame_upd _ _ _ (by intro _ _ h; cases h)⟩
    · contradiction
  -- pwr
  · split at hs
    · injection hs with hs; subst hs
      exact Or.inl ⟨⟨rfl, rfl, rfl⟩, fun _ _ _ h => h⟩
    · contradiction
  -- prd
  · split at hs
    · injection hs with hs; subst hs
      exact Or.inl ⟨⟨rfl, rfl, rfl⟩, fun _ _ _ h => h⟩
    · contradiction
  · contradiction

/-! ## The invariant -/

structure Inv (s : St) : Prop where
  /-- a line is `true` exactly when some trigger destructor has stored to it -/
  tripped : ∀ l, s.line l = true ↔ s.trips l ≠ []
  /-- the view attached to a line contains what the latest storing thread knew at its store -/
  head : ∀ l t K rest, s.trips l = (t, K) :: rest → ∀ w ∈ K, w ∈ s.msg l
  /-- a destructor that has performed its store left the line tripped -/
  done : ∀ t id l, s.pc t = .rm id (some l) true → s.line l = true

theorem inv_init (n : Nat) : Inv (init n) :=
  ⟨fun l => by simp [init], fun l t K rest h => by simp [init] at h, fun t id l h => by simp [init] at h⟩

theorem inv_step {s s' : St} {t : Tid} {e : Ev} (h : Inv s) (hs : step s t e = some s') : Inv s' := by
  rcases step_lines hs with ⟨⟨hl, hm, ht⟩, hp⟩ | ⟨l, htr⟩
  · refine ⟨?_, ?_, ?_⟩
    · intro j; rw [hl, ht]; exact h.tripped j
    · intro j u K rest hj; rw [hm]; rw [ht] at hj; exact h.head j u K rest hj
    · intro u id j hu; rw [hl]; exact h.done u id j (hp u id j hu)
  · refine ⟨?_, ?_, ?_⟩
    · intro j
      rw [htr.line, htr.trips]
      by_cases hj : j = l
      · subst hj; simp
      · simp [hj]; exact h.tripped j
    · intro j u K rest hj
      rw [htr.trips] at hj
      by_cases hjl : j = l
      · subst hjl
        simp at hj
        obtain ⟨⟨_, hK⟩, _⟩ := hj
        subst hK
        exact htr.msg
      · simp [hjl] at hj
        rw [htr.msgOther j hjl]
        exact h.head j u K rest hj
    · intro u id j hu
      rw [htr.line]
      by_cases hjl : j = l
      · subst hjl; simp
      · simp [hjl]
        by_cases hut : u = t
        · subst hut
          obtain ⟨id', _, hp'⟩ := htr.pc
          rw [hp'] at hu
          injection hu with _ h2
          injection h2 with h2
          exact absurd h2.symm hjl
        · rw [htr.others u hut] at hu
          exact h.done u id j hu

theorem inv_reachable {n : Nat} {s : St} (h : Reachable n s) : Inv s := by
  obtain ⟨es, hes⟩ := h
  exact runFrom_inv (fun _ _ _ _ hi hst => inv_step hi hst) (inv_init n) hes

/-! ## Monotonicity along steps and runs -/

theorem line_mono_step {s s' : St} {t : Tid} {e : Ev} (hs : step s t e = some s') (l : LineId)
    (hl : s.line l = true) : s'.line l = true := by
  rcases step_lines hs with ⟨⟨h1, _, _⟩, _⟩ | ⟨j, htr⟩
  · rw [h1]; exact hl
  · rw [htr.line, set_apply]; split <;> simp [hl]

theorem line_mono_run {s s' : St} {es : List (Tid × Ev)} (hr : runFrom step s es = some s') (l : LineId)
    (hl : s.line l = true) : s'.line l = true :=
  runFrom_rel (R := fun a b => a.line l = true → b.line l = true) (fun _ h => h)
    (fun a b c (h1 : a.line l = true → b.line l = true) (h2 : b.line l = true → c.line l = true) h => h2 (h1 h))
    (fun _ _ _ _ hst h => line_mono_step hst l h) hr hl

theorem reachable_run {n : Nat} {s s' : St} {es : List (Tid × Ev)} (h : Reachable n s)
    (hr : runFrom step s es = some s') : Reachable n s' := by
  obtain ⟨es0, h0⟩ := h
  exact ⟨es0 ++ es, by simp [run, runFrom_append] at *; simp [h0, hr]⟩

theorem reachable_step {n : Nat} {s s' : St} {t : Tid} {e : Ev} (h : Reachable n s)
    (hs : step s t e = some s') : Reachable n s' :=
  reachable_run (es := [(t, e)]) h (by simp [runFrom_cons, hs])

/-- a thread's knowledge only grows -/
theorem know_mono_step {s s' : St} {t : Tid} {e : Ev} (hs : step s t e = some s') (u : Tid) (w : Wr)
    (hw : w ∈ s.know u) : w ∈ s'.know u := by
  unfold step at hs
  split at hs <;> (repeat' (split at hs)) <;>
    first
    | contradiction
    | (injection hs with hs; subst hs
       first
       | exact hw
       | (simp only [St.setPc, upd_apply]; split <;> simp_all))

theorem know_mono_run {s s' : St} {es : List (Tid × Ev)} (hr : runFrom step s es = some s') (u : Tid) (w : Wr)
    (hw : w ∈ s.know u) : w ∈ s'.know u :=
  runFrom_rel (R := fun a b => w ∈ a.know u → w ∈ b.know u) (fun _ h => h)
    (fun a b c (h1 : w ∈ a.know u → w ∈ b.know u) (h2 : w ∈ b.know u → w ∈ c.know u) h => h2 (h1 h))
    (fun _ _ _ _ hst h => know_mono_step hst u w h) hr hw

theorem nIdx_step {s s' : St} {t : Tid} {e : Ev} (hs : step s t e = some s') : s'.nIdx = s.nIdx := by
  unfold step at hs
  split at hs <;> (repeat' (split at hs)) <;>
    first | contradiction | (injection hs with hs; subst hs; rfl)

theorem nIdx_reachable {n : Nat} {s : St} (h : Reachable n s) : s.nIdx = n := by
  obtain ⟨es, hes⟩ := h
  exact runFrom_rel (R := fun a b => b.nIdx = a.nIdx) (fun _ => rfl) (fun _ _ _ h1 h2 => by rw [h2, h1])
    (fun _ _ _ _ hst => nIdx_step hst) hes

/-! ## Inversion of the atomic events -/

theorem ld_inv {s s' : St} {t : Tid} {l : LineId} {o : Ord} {v : Bool} (hs : step s t (.ld l o v) = some s') :
    (∃ d seen, s.pc t = .ck d l seen ∧ s'.pc t = .ck d l (some v)) ∧ o.isAcquire = true ∧ v = s.line l ∧
      s'.know t = s.know t ++ s.msg l := by
  cases hp : s.pc t <;> simp [step, hp] at hs
  rename_i d l0 seen
  obtain ⟨⟨h1, h2, h3⟩, h4⟩ := hs
  subst h1 h4
  exact ⟨⟨d, seen, rfl, by simp⟩, h2, h3, by simp⟩

theorem st_inv {s s' : St} {t : Tid} {l : LineId} {o : Ord} {v : Bool} (hs : step s t (.st l o v) = some s') :
    (∃ id, s.pc t = .rm id (some l) false) ∧ o.isRelease = true ∧ v = true ∧
      s'.trips l = (t, s.know t) :: s.trips l ∧ s'.msg l = s.know t := by
  cases hp : s.pc t <;> simp [step, hp] at hs
  rename_i id held done
  cases held <;> cases done <;> simp at hs
  rename_i l0
  obtain ⟨⟨h1, h2, h3⟩, h4⟩ := hs
  subst h1 h4
  exact ⟨⟨id, rfl⟩, h3, h2, by simp [St.trip], by simp [St.trip]⟩

/-- the pc "destructor entered holding `held`, no store yet" is reached only by the destructor call of a
live trigger object with that binding; the object's lifetime ends there -/
theorem rm_entry {s s' : St} {t : Tid} {e : Ev} {id : Nat} {held : Option LineId}
    (hs : step s t e = some s') (hp : s'.pc t = .rm id held false) (hne : s.pc t ≠ .rm id held false) :
    e = .callRm id ∧ s.trig id = some held ∧ s'.trig id = none := by
  unfold step at hs
  split at hs <;> rename_i hq
  all_goals (repeat' (split at hs))
  all_goals (first | contradiction | skip)
  all_goals (injection hs with hs; subst hs)
  all_goals (first | (simp [St.setPc, hq] at hp; done) | skip)
  rename_i id' _ b hb
  simp [St.setPc] at hp
  obtain ⟨h1, h2⟩ := hp
  subst h1 h2
  exact ⟨rfl, hb, by simp⟩

end ConcVerif.TripWire
