import ConcVerif.Proof.HBCowProj
/-! cow_guarded and happens-before, part 4: facts about single steps of the cow model used by the payload invariants. -/
namespace ConcVerif.LR

/-- only the end of a write window changes the value of a side -/
theorem step_val_keep {s s' : St} {t : Tid} {e : Ev} (x : Side) (hs : step s t e = some s')
    (h1 : ∀ y v, e ≠ .fEnd y v) (h2 : ∀ y v, e ≠ .cpEnd y v) : s'.val x = s.val x := by
  unfold step at hs
  split at hs <;> (try split at hs) <;> (try split at hs) <;> (try split at hs) <;> (try (simp at hs; done)) <;>
    (try (injection hs with hs; subst hs; cases x <;> simp [St.val]; done))
  all_goals first
    | (rw [stutter_eq hs])
    | (exfalso; exact h1 _ _ rfl)
    | (exfalso; exact h2 _ _ rfl)

end ConcVerif.LR

namespace ConcVerif.Cow
open ConcVerif.LR (Side)

/-- the payload version an event writes / reads (a copy construction does both) -/
def Ev.wrP : Ev → Option Ver
  | .pwr v _ => some v
  | .pcp new _ _ => some new
  | _ => none

def Ev.rdP : Ev → Option Ver
  | .prd v _ => some v
  | .pcp _ src _ => some src
  | _ => none

/-- pcs at which the thread owns the private copy `v` and has not started to publish it -/
def Pc.pre : Pc → Option Ver
  | .lkC v | .lkD v | .wHold v => some v
  | _ => none

variable {s s' : St} {t : Tid} {ce : Ev}

/-- `alloc` only grows, by the version a copy construction creates -/
theorem alloc_step (hs : step s t ce = some s') {v : Ver} (h : v ∈ s'.alloc) :
    v ∈ s.alloc ∨ ∃ src k, ce = .pcp v src k := by
  cow_step_cases hs ce => first
    | (subst hs; left; exact h)
    | (obtain ⟨l, hl, rfl⟩ := hs; left; exact h)
    | (obtain ⟨_, l, hl, rfl⟩ := hs; left; exact h)
    | (obtain ⟨_, rfl⟩ := hs; left; exact h)
    | (obtain ⟨_, rfl⟩ := hs
       simp only [setPc_alloc, List.mem_cons] at h
       rcases h with h | h
       · right; subst h; exact ⟨_, _, rfl⟩
       · left; exact h)

theorem alloc_mono (hs : step s t ce = some s') {v : Ver} (h : v ∈ s.alloc) : v ∈ s'.alloc := by
  cow_step_cases hs ce => first
    | (subst hs; exact h)
    | (obtain ⟨l, hl, rfl⟩ := hs; exact h)
    | (obtain ⟨_, l, hl, rfl⟩ := hs; exact h)
    | (obtain ⟨_, rfl⟩ := hs; exact h)
    | (obtain ⟨_, rfl⟩ := hs; simp only [setPc_alloc, List.mem_cons]; exact .inr h)

/-- what the payload events require -/
theorem pwr_pre {v : Ver} {c : Nat} (hs : step s t (.pwr v c) = some s') : s.pc t = .wHold v ∧ s'.pc = s.pc := by
  unfold step at hs
  split at hs <;> simp [stepIdle, stepRdA, stepRdH, stepRdP, stepRdD, stepDr, stepLkCalled, stepLkA, stepLkH, stepLkC,
    stepLkD, stepLkT, stepLkTD, stepLkExc, stepWHold, stepRelA, stepRelB, stepRelC, stepRelU, stepCn] at hs
  obtain ⟨h1, rfl⟩ := hs
  subst h1
  exact ⟨by assumption, rfl⟩


macro "cow_unf " hs:ident : tactic => `(tactic|
  (unfold step at $hs:ident
   split at $hs:ident <;> simp [stepIdle, stepRdA, stepRdH, stepRdP, stepRdD, stepDr, stepLkCalled, stepLkA, stepLkH, stepLkC,
    stepLkD, stepLkT, stepLkTD, stepLkExc, stepWHold, stepRelA, stepRelB, stepRelC, stepRelU, stepCn] at $hs:ident))

theorem pcp_pre {new src : Ver} {k : Nat} (hs : step s t (.pcp new src k) = some s') :
    s.pc t = .lkH (some src) ∧ new ∉ s.alloc ∧ s'.pc t = .lkC new := by
  cow_unf hs
  obtain ⟨⟨h1, h2, _⟩, rfl⟩ := hs
  subst h1
  exact ⟨by assumption, h2, by simp⟩

theorem prd_pre {v : Ver} {c : Nat} (hs : step s t (.prd v c) = some s') :
    ((t, v) ∈ s.snaps ∨ s.pc t = .wHold v) ∧ s' = s := by
  cow_unf hs
  · obtain ⟨⟨h1, _⟩, rfl⟩ := hs; exact ⟨.inl h1, rfl⟩
  · obtain ⟨⟨h1, _⟩, rfl⟩ := hs
    rcases h1 with h1 | h1
    · subst h1; exact ⟨.inr (by assumption), rfl⟩
    · exact ⟨.inl h1, rfl⟩

theorem stPtr_pre {x : Side} {v : Ver} (hs : step s t (.stPtr x v) = some s') :
    (s.pc t = .relA v ∨ ∃ f, s.pc t = .relB v f) ∧ s'.pc t = s.pc t ∧ s'.det = some x := by
  cow_unf hs
  · obtain ⟨h1, l, _, rfl⟩ := hs; subst h1
    rename_i hpc; exact ⟨.inl hpc, by simp [hpc], rfl⟩
  · obtain ⟨h1, l, _, rfl⟩ := hs; subst h1
    rename_i hpc; exact ⟨.inr ⟨_, hpc⟩, by simp [hpc], rfl⟩

theorem ldPtr_pre {x : Side} {v : Ver} (hs : step s t (.ldPtr x v) = some s') :
    v = s.sv x ∧ ((∃ k, s'.pc t = .rdH k (some v)) ∨ s'.pc t = .lkH (some v)) := by
  cow_unf hs
  · obtain ⟨⟨_, h1⟩, l, _, rfl⟩ := hs; exact ⟨h1, .inl ⟨_, by simp; rfl⟩⟩
  · obtain ⟨⟨_, h1⟩, l, _, rfl⟩ := hs; exact ⟨h1, .inr (by simp)⟩

end ConcVerif.Cow
