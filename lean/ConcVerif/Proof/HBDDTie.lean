import ConcVerif.Proof.HBDDStep
/-! Tie between the happens-before mapping of the DelayedDestructor model and the model's state: the mapping misses no
mutation of the vector.  (The lock side of the tie is part of the simulation invariant: `HB.held` mirrors `s.lock`.) -/
namespace ConcVerif.DD

theorem topAcc_wr {s : St} (h : HB.Ev.wr 0 ∉ topAcc s) : s.vec ≠ [] := by
  intro hv; apply h; simp [topAcc, hv]

theorem xTop_same {s : St} (t ii rest) (h : HB.Ev.wr 0 ∉ topAcc s) :
    (xTop s t ii rest).vec = s.vec ∧ (xTop s t ii rest).vdead = s.vdead := by
  unfold xTop; rw [if_neg (topAcc_wr h)]; exact ⟨rfl, rfl⟩

theorem xAfter_same {s : St} (t ii rest) (h : HB.Ev.wr 0 ∉ topAcc s) :
    (xAfter s t ii rest).vec = s.vec ∧ (xAfter s t ii rest).vdead = s.vdead := by
  unfold xAfter; rw [if_neg (topAcc_wr h)]
  repeat' split
  all_goals exact ⟨rfl, rfl⟩

theorem doneAcc_congr {s s1 : St} (h : s1.vec = s.vec) (rest : List Frame) : doneAcc s1 rest = doneAcc s rest := by
  unfold doneAcc topAcc; rw [h]

theorem dDone_same {s : St} (t r) {rest : List Frame} (h : HB.Ev.wr 0 ∉ doneAcc s rest) :
    (dDone s t r rest).vec = s.vec ∧ (dDone s t r rest).vdead = s.vdead := by
  unfold dDone; split
  · exact ⟨rfl, rfl⟩
  · exact xAfter_same _ _ _ h
  · exact absurd (by simp [doneAcc]) h
  · exact ⟨rfl, rfl⟩

theorem drain_same {s : St} (t sz cbs thrown) {rest : List Frame} (ec : List ObjId)
    (h : thrown = true → drainEnds s t ec = true → HB.Ev.wr 0 ∉ doneAcc s rest) :
    (drain s t sz cbs thrown rest ec).vec = s.vec ∧ (drain s t sz cbs thrown rest ec).vdead = s.vdead := by
  induction ec generalizing s with
  | nil =>
    simp only [drain]; split
    · exact dDone_same _ _ (h (by assumption) rfl)
    · exact ⟨rfl, rfl⟩
  | cons k ec ih =>
    simp only [drain]; split
    · exact ⟨rfl, rfl⟩
    · rename_i hne
      have := ih (s := { s with ecs := s.ecs.erase (t, k) }) (by
        intro ht hde
        rw [doneAcc_congr (s1 := { s with ecs := s.ecs.erase (t, k) }) (s := s) rfl]
        apply h ht
        simp only [drainEnds, hne, if_false]; exact hde)
      exact this

theorem resume_same {s : St} (t) {fs : List Frame} (h : HB.Ev.wr 0 ∉ resumeAcc s t fs) :
    (resume s t fs).vec = s.vec ∧ (resume s t fs).vdead = s.vdead := by
  unfold resume; split
  · apply drain_same
    intro ht hde
    simpa [resumeAcc, ht, hde] using h
  · exact absurd (by simp [resumeAcc]) h
  · exact ⟨rfl, rfl⟩

theorem stepUser_same {js : List Tid} {s s' : St} {t : Tid} {fs e} (hs : stepUser s t fs e = some s')
    (h : HB.Ev.wr 0 ∉ xHB js s t fs e) : s'.vec = s.vec ∧ s'.vdead = s.vdead := by
  unfold stepUser at hs
  split at hs
  all_goals (try (repeat' (split at hs)))
  all_goals (first | cases hs | skip)
  all_goals (first | exact ⟨rfl, rfl⟩ | skip)
  rename_i hc
  obtain ⟨rfl, _, _⟩ := hc
  exact xTop_same (s := { s with dead := some t }) _ _ _ (by
    intro hw; apply h; simp only [xHB]; exact List.mem_append_right _ hw)

/-- **the mapping misses no mutation of the vector**: an accepted event whose mapped events contain no `wr 0` leaves
`ElementsToBeDestroyed` unchanged and does not destroy the vector member -/
theorem vec_write_mapped {js : List Tid} {s s' : St} {t : Tid} {e : Ev} (hs : step s t e = some s')
    (h : HB.Ev.wr 0 ∉ toHB js s t e) : s'.vec = s.vec ∧ s'.vdead = s.vdead := by
  have hx : HB.Ev.wr 0 ∉ xHB js s t (s.stk t) e := fun hw => h (List.mem_append_right _ hw)
  have hcs : HB.Ev.wr 0 ∉ csOf (s.stk t) e := fun hw => h (List.mem_append_left _ hw)
  unfold step at hs
  split at hs
  all_goals (try rw [show s.stk t = _ from by assumption] at hx hcs)
  all_goals (first | exact stepUser_same hs hx | skip)
  all_goals (try (repeat' (split at hs)))
  all_goals (first | cases hs | skip)
  all_goals (try simp only [Bool.not_eq_true] at *)
  all_goals (try subst_vars)
  all_goals (simp only [csOf, csHB, xHB, ↓reduceIte] at hx hcs)
  all_goals (first
    | exact ⟨rfl, rfl⟩
    | (exfalso; simp at hcs; done)
    | exact dDone_same _ _ hx
    | exact drain_same _ _ _ _ _ (fun _ hde => by simpa [hde] using hx)
    | exact drain_same _ _ _ _ _ (fun ht _ => by cases ht)
    | exact resume_same _ hx
    | exact xTop_same _ _ _ hx
    | skip)

end ConcVerif.DD
