import ConcVerif.Proof.LockFam
/-! Register linearizability of the whole-object operations of the lock-based wrappers (C15):
the ghost history `hist`, ordered by the closing release of each bracket (and by each write made
through an exclusive handle), replays through the sequential register specification with exactly
the recorded results and ends in the committed value. -/
namespace ConcVerif.LockFam

/-- sequential specification: one register -/
def Reg.apply (v : Int) : WOp → Int × Res
  | .ld => (v, .val v)
  | .cv => (v, .val v)
  | .rd => (v, .val v)
  | .st x => (x, .unit)
  | .as x => (x, .unit)
  | .md => (v + 1, .unit)
  | .xc x => (x, .val v)
  | .ce e d => if v = e then (d, .cas true e) else (v, .cas false v)

/-- replay a history sequentially; `none` if some recorded result differs from the specification -/
def Reg.run (v : Int) : List HEntry → Option Int
  | [] => some v
  | e :: es => if (Reg.apply v e.op).2 = e.res then Reg.run (Reg.apply v e.op).1 es else none

theorem Reg.run_append (v : Int) (a b : List HEntry) :
    Reg.run v (a ++ b) = (Reg.run v a).bind (fun v' => Reg.run v' b) := by
  induction a generalizing v with
  | nil => simp [Reg.run]
  | cons e es ih =>
    simp only [List.cons_append, Reg.run]
    split
    · exact ih _
    · simp

/-- the accesses a bracket made amount to the register operation it claims -/
theorem wResult_sound {w : WOp} {seen wrote : Option Int} {r : Res} {v0 v1 : Int}
    (h : wResult w seen wrote = some r) (hs : ∀ c, seen = some c → c = v0)
    (hw : ∀ v, wrote = some v → v1 = v) (hn : wrote = none → v1 = v0) :
    Reg.apply v0 w = (v1, r) := by
  cases w <;> cases seen <;> cases wrote <;> simp [wResult] at h
  all_goals simp_all [Reg.apply]
  all_goals (try (obtain ⟨h1, h2⟩ := h; subst h2))
  all_goals (try simp_all)
  all_goals (try omega)

def Pc.isWhole : Pc → Bool
  | .whole _ _ _ _ _ => true
  | _ => false

def Pc.writing : Pc → Bool
  | .whole _ _ _ (some _) _ => true
  | _ => false

structure LInv (s : St) : Prop where
  rep : Reg.run 0 s.hist = some s.committed
  quiet : (∀ t, (s.loc t).pc.writing = false) → s.val = s.committed
  bracket : ∀ t w m seen wrote th, (s.loc t).pc = .whole w m seen wrote th →
      (∀ c, seen = some c → c = s.committed) ∧
      (∀ v, wrote = some v → m = .X ∧ s.val = v) ∧ (wrote = none → s.val = s.committed)

theorem linv_init (en cap : Bool) : LInv (init en cap) := by
  constructor
  · simp [init, Reg.run]
  · intro _; simp [init]
  · intro t w m seen wrote th hp; simp [init] at hp

/-- a thread inside a bracket holds the bracket's mode -/
theorem whole_held {s : St} (h : Inv s) {t : Tid} {w : WOp} {m : Mode} {a b : Option Int} {c : Bool}
    (hp : (s.loc t).pc = .whole w m a b c) : s.held t = m ∧ m ≠ .none := by
  have hl := h.l t
  exact ⟨by rw [hl.link]; simp [ownMode, hp], hl.wholeM w m a b c hp⟩

/-- exclusion at the level of held modes (from the global invariant) -/
theorem held_excl {s : St} (h : Inv s) {t u : Tid} (hx : s.held t = .X) (hne : u ≠ t) : s.held u = .none := by
  have hg := h.g
  have hex := (hg.exclHeld t).2 hx
  cases hu : s.held u with
  | none => rfl
  | X =>
    have := (hg.exclHeld u).2 hu
    rw [hex] at this; injection this with this; exact absurd this.symm hne
  | S =>
    have hin := (hg.sharedHeld u).2 hu
    have := hg.xorRW (by rw [hex]; simp)
    rw [this] at hin; simp at hin

/-- while `t` holds the mutex in any mode, no other thread is between a write and its release -/
theorem no_other_writer {s : St} (h : Inv s) (hl : LInv s) {t u : Tid} (ht : s.held t ≠ .none) (hne : u ≠ t) :
    (s.loc u).pc.writing = false := by
  cases hp : (s.loc u).pc <;> simp [Pc.writing]
  rename_i w m a b c
  cases b with
  | none => simp
  | some v =>
    exfalso
    have hm := ((hl.bracket u w m a (some v) c hp).2.1 v rfl).1
    have hu := (whole_held h hp).1
    rw [hm] at hu
    exact ht (held_excl h hu (Ne.symm hne))

/-- while `t` holds the mutex exclusively, no other thread is inside a bracket at all -/
theorem no_other_whole {s : St} (h : Inv s) {t u : Tid} (ht : s.held t = .X) (hne : u ≠ t) :
    (s.loc u).pc.isWhole = false := by
  cases hp : (s.loc u).pc <;> simp [Pc.isWhole]
  rename_i w m a b c
  have hu := whole_held h hp
  rw [held_excl h ht hne] at hu
  exact hu.2 hu.1.symm

/-- a step of `t` between pcs that are not inside a bracket, leaving the data fields alone -/
theorem linv_frame {s s' : St} {t : Tid} (hl : LInv s) (hv : s'.val = s.val) (hc : s'.committed = s.committed)
    (hh : s'.hist = s.hist) (hloc : ∀ u, u ≠ t → s'.loc u = s.loc u)
    (hold : (s.loc t).pc.isWhole = false) (hnew : (s'.loc t).pc.isWhole = false) : LInv s' := by
  obtain ⟨h1, h2, h3⟩ := hl
  refine ⟨by rw [hh, hc]; exact h1, ?_, ?_⟩
  · intro hq
    rw [hv, hc]; apply h2
    intro u
    by_cases hu : u = t
    · subst hu
      cases hp : (s.loc u).pc <;> simp [Pc.writing]
      rw [hp] at hold; simp [Pc.isWhole] at hold
    · have := hq u; rw [hloc u hu] at this; exact this
  · intro u w m seen wrote th hp
    by_cases hu : u = t
    · subst hu; rw [hp] at hnew; simp [Pc.isWhole] at hnew
    · rw [hloc u hu] at hp; rw [hv, hc]; exact h3 u w m seen wrote th hp

theorem linv_step (s : St) (t : Tid) (e : Ev) (s' : St) (he : s.enabled = true) (hi : Inv s) (hl : LInv s)
    (hs : step s t e = some s') : LInv s' := by
  unfold step at hs; simp only at hs
  split at hs
  case h_7 =>
    -- a write through an exclusive handle: linearised at once as a store
    rename_i v hpc
    simp only [he, if_true] at hs
    split at hs
    · rename_i hx
      injection hs with hs; subst hs
      obtain ⟨h1, h2, h3⟩ := hl
      refine ⟨?_, fun _ => rfl, ?_⟩
      · simp [Reg.run_append, h1, Reg.run, Reg.apply]
      · intro u w m seen wrote th hp
        exfalso
        have hne : u ≠ t := by intro hu; subst hu; simp at hp; rw [hpc] at hp; cases hp
        have := no_other_whole hi hx hne
        simp at hp; rw [hp] at this; simp [Pc.isWhole] at this
    · contradiction
  case h_13 =>
    -- entering a bracket
    rename_i w sd how ok hpc
    split at hs
    · simp only [Option.map_eq_some_iff] at hs
      obtain ⟨s1, ha, hs⟩ := hs; subst hs
      obtain ⟨hn, hheld, _, _, hloc, _, _, hval, hcom, hhist⟩ := acquire_spec ha
      obtain ⟨h1, h2, h3⟩ := hl
      -- nobody is writing: a writer would hold the mutex exclusively, but the acquisition succeeded
      have hnw : ∀ u, (s.loc u).pc.writing = false := by
        intro u
        cases hp : (s.loc u).pc <;> simp [Pc.writing]
        rename_i w' m a b c
        cases b with
        | none => simp
        | some v =>
          exfalso
          have hm := ((h3 u w' m a (some v) c hp).2.1 v rfl).1
          have hu := (whole_held hi hp).1
          rw [hm] at hu
          have hex := (hi.g.exclHeld u).2 hu
          unfold St.acquire at ha
          simp [hn] at ha
          cases sd <;> simp [hex] at ha
      have hvc := h2 hnw
      refine ⟨by simp [St.setPc, hhist, hcom, h1], ?_, ?_⟩
      · intro _; simp [St.setPc, hval, hcom, hvc]
      · intro u w' m seen wrote th hp
        by_cases hu : u = t
        · subst hu
          simp [St.setPc, St.setLoc] at hp
          obtain ⟨_, _, hs1, hs2, _⟩ := hp
          subst hs1; subst hs2
          simp [St.setPc, hval, hcom, hvc]
        · simp [St.setPc, St.setLoc, upd, hu, hloc] at hp
          simpa [St.setPc, hval, hcom] using h3 u w' m seen wrote th hp
    · contradiction
  case h_14 =>
    -- a read inside a bracket
    rename_i w m sn wrote thrown v hpc
    split at hs
    · rename_i hc
      injection hs with hs; subst hs
      obtain ⟨h1, h2, h3⟩ := hl
      have hb := h3 t w m sn wrote thrown hpc
      have hv : v = s.committed := by rw [hc.2 he]; exact hb.2.2 hc.1
      refine ⟨h1, ?_, ?_⟩
      · intro hq; apply h2
        intro u
        by_cases hu : u = t
        · subst hu; rw [hpc, hc.1]; simp [Pc.writing]
        · have := hq u; simpa [St.setPc, St.setLoc, upd, hu] using this
      · intro u w' m' seen wr th hp
        by_cases hu : u = t
        · subst hu
          simp [St.setPc, St.setLoc] at hp
          obtain ⟨_, hm, hs1, hs2, _⟩ := hp
          subst hs1; subst hs2; subst hm
          exact ⟨fun c hcc => by injection hcc with hcc; rw [← hcc]; exact hv, hb.2.1, hb.2.2⟩
        · simp [St.setPc, St.setLoc, upd, hu] at hp
          exact h3 u w' m' seen wr th hp
    · contradiction
  case h_15 =>
    -- the write inside a bracket
    rename_i w m sn wrote thrown v hpc
    split at hs
    · rename_i hc
      injection hs with hs; subst hs
      obtain ⟨h1, h2, h3⟩ := hl
      have hb := h3 t w m sn wrote thrown hpc
      have hx : s.held t = .X := by rw [(whole_held hi hpc).1]; exact hc.1
      refine ⟨h1, ?_, ?_⟩
      · intro hq
        have := hq t
        simp [St.setPc, St.setLoc, Pc.writing] at this
      · intro u w' m' seen wr th hp
        by_cases hu : u = t
        · subst hu
          simp [St.setPc, St.setLoc] at hp
          obtain ⟨_, hm, hs1, hs2, _⟩ := hp
          subst hs1; subst hs2; subst hm
          refine ⟨hb.1, ?_, ?_⟩
          · intro v' hv'; injection hv' with hv'; exact ⟨hc.1, by simp [St.setPc, hv']⟩
          · intro hcc; cases hcc
        · exfalso
          simp [St.setPc, St.setLoc, upd, hu] at hp
          have := no_other_whole hi hx hu
          rw [hp] at this; simp [Pc.isWhole] at this
    · contradiction
  case h_16 =>
    rename_i w m sn wrote thrown hpc
    injection hs with hs; subst hs
    obtain ⟨h1, h2, h3⟩ := hl
    have hb := h3 t w m sn wrote thrown hpc
    refine ⟨h1, ?_, ?_⟩
    · intro hq; apply h2
      intro u
      by_cases hu : u = t
      · subst hu; have := hq u
        simp [St.setPc, St.setLoc] at this
        rw [hpc]; cases wrote <;> simp [Pc.writing] at this ⊢
      · have := hq u; simpa [St.setPc, St.setLoc, upd, hu] using this
    · intro u w' m' seen wr th hp
      by_cases hu : u = t
      · subst hu
        simp [St.setPc, St.setLoc] at hp
        obtain ⟨_, hm, hs1, hs2, _⟩ := hp
        subst hs1; subst hs2; subst hm
        exact hb
      · simp [St.setPc, St.setLoc, upd, hu] at hp
        exact h3 u w' m' seen wr th hp
  case h_17 =>
    -- closing a bracket
    rename_i w m sn wrote thrown sd hpc
    obtain ⟨h1, h2, h3⟩ := hl
    have hb := h3 t w m sn wrote thrown hpc
    split at hs
    · split at hs
      · -- after a throw: nothing was written, nothing is recorded
        split at hs
        · rename_i hwn
          simp only [Option.map_eq_some_iff] at hs
          obtain ⟨s1, hr, hs⟩ := hs; subst hs
          obtain ⟨_, _, _, _, hloc, _, _, hval, hcom, hhist⟩ := release_spec hr
          refine ⟨by simp [St.setPc, hhist, hcom, h1], ?_, ?_⟩
          · intro _; simp [St.setPc, hval, hcom, hb.2.2 hwn]
          · intro u w' m' seen wr th hp
            by_cases hu : u = t
            · subst hu; simp [St.setPc, St.setLoc] at hp
            · simp [St.setPc, St.setLoc, upd, hu, hloc] at hp
              simpa [St.setPc, hval, hcom] using h3 u w' m' seen wr th hp
        · contradiction
      · split at hs
        · rename_i r hres
          simp only [Option.map_eq_some_iff] at hs
          obtain ⟨s1, hr, hs⟩ := hs; subst hs
          obtain ⟨_, _, _, _, hloc, _, _, hval, hcom, hhist⟩ := release_spec hr
          have happly : Reg.apply s.committed w = (s.val, r) :=
            wResult_sound hres hb.1 (fun v hv => ((hb.2.1 v hv).2).symm ▸ rfl) hb.2.2
          refine ⟨?_, ?_, ?_⟩
          · simp [St.setPc, hhist, hval, Reg.run_append, h1, Reg.run, happly]
          · intro _; simp [St.setPc]
          · intro u w' m' seen wr th hp
            by_cases hu : u = t
            · subst hu; simp [St.setPc, St.setLoc] at hp
            · simp [St.setPc, St.setLoc, upd, hu, hloc] at hp
              have hbu := h3 u w' m' seen wr th hp
              -- the committed value does not move under another open bracket
              have hsame : s.val = s.committed := by
                cases hwr : wrote with
                | none => exact hb.2.2 hwr
                | some v =>
                  exfalso
                  have hm := (hb.2.1 v hwr).1
                  have hx : s.held t = .X := by rw [(whole_held hi hpc).1]; exact hm
                  have := no_other_whole hi hx hu
                  rw [hp] at this; simp [Pc.isWhole] at this
              simp only [St.setPc, setLoc_val, setLoc_committed, hval]
              refine ⟨fun c hc => by rw [hsame]; exact hbu.1 c hc, hbu.2.1, fun _ => trivial⟩
        · contradiction
    · contradiction
  all_goals (try split at hs)
  all_goals (try split at hs)
  all_goals (try split at hs)
  all_goals first
    | contradiction
    | (injection hs with hs'
       subst hs'
       first
         | exact hl
         | exact linv_frame (t := t) hl rfl rfl rfl (by intro u hu; simp [St.setPc, St.setLoc, upd, hu])
             (by simp [*, Pc.isWhole]) (by simp [St.setPc, St.setLoc, Pc.isWhole]))
    | skip
  · -- acquisition inside a handle session
    rename_i hpc _ _
    simp only [Option.map_eq_some_iff] at hs
    obtain ⟨s1, ha, hs⟩ := hs; subst hs
    obtain ⟨_, _, _, _, hloc, _, _, hval, hcom, hhist⟩ := acquire_spec ha
    exact linv_frame (t := t) hl (by simp [St.setPc, hval]) (by simp [St.setPc, hcom]) (by simp [St.setPc, hhist])
      (by intro u hu; simp [St.setPc, St.setLoc, upd, hu, hloc]) (by simp [hpc, Pc.isWhole])
      (by simp [St.setPc, St.setLoc, Pc.isWhole])
  · -- release inside a handle operation
    rename_i hpc _
    simp only [Option.map_eq_some_iff] at hs
    obtain ⟨s1, hr, hs⟩ := hs; subst hs
    obtain ⟨_, _, _, _, hloc, _, _, hval, hcom, hhist⟩ := release_spec hr
    exact linv_frame (t := t) hl (by simp [hval]) (by simp [hcom]) (by simp [hhist])
      (by intro u hu; simp [St.setLoc, upd, hu, hloc]) (by simp [hpc, Pc.isWhole])
      (by simp [St.setLoc, Pc.isWhole])

end ConcVerif.LockFam

namespace ConcVerif.LockFam

theorem enabled_const {s s' : St} {t : Tid} {e : Ev} (hs : step s t e = some s') : s'.enabled = s.enabled := by
  unfold step at hs; simp only at hs
  split at hs
  all_goals (try split at hs)
  all_goals (try split at hs)
  all_goals (try split at hs)
  all_goals (try split at hs)
  all_goals (try contradiction)
  all_goals (try (injection hs with hs; subst hs; rfl))
  all_goals (simp only [Option.map_eq_some_iff] at hs; obtain ⟨s1, ha, hs⟩ := hs; subst hs)
  all_goals first
    | (have h1 := (acquire_spec ha).2.2.2.2.2.1; exact h1)
    | (have h1 := (release_spec ha).2.2.2.2.2.1; exact h1)

theorem reachable_enabled {en cap : Bool} {s : St} (h : Reachable en cap s) : s.enabled = en := by
  obtain ⟨es, hes⟩ := h
  exact runFrom_rel (R := fun a b => b.enabled = a.enabled) (fun _ => rfl) (fun a b c h1 h2 => by rw [h2, h1])
    (fun a u e b hab => enabled_const hab) hes

/-- `Inv ∧ LInv` is inductive when locking is enabled -/
theorem linv_reachable {cap : Bool} {s : St} (h : Reachable true cap s) : LInv s := by
  obtain ⟨es, hes⟩ := h
  have : Inv s ∧ LInv s ∧ s.enabled = true := by
    refine runFrom_inv (Inv := fun s => Inv s ∧ LInv s ∧ s.enabled = true) ?_ ⟨inv_init true cap, linv_init true cap, rfl⟩ hes
    intro a u e b ⟨h1, h2, h3⟩ hab
    exact ⟨inv_step a u e b h1 hab, linv_step a u e b h3 h1 h2 hab, by rw [enabled_const hab]; exact h3⟩
  exact this.2.1

/-- the history only grows, at its end -/
theorem hist_append_only {s s' : St} {t : Tid} {e : Ev} (hs : step s t e = some s') :
    ∃ l, s'.hist = s.hist ++ l := by
  unfold step at hs; simp only at hs
  split at hs
  all_goals (try split at hs)
  all_goals (try split at hs)
  all_goals (try split at hs)
  all_goals (try split at hs)
  all_goals (try contradiction)
  all_goals (try (injection hs with hs; subst hs; first | (refine ⟨[], ?_⟩; simp [St.setPc, St.setLoc]; done) | exact ⟨_, rfl⟩))
  all_goals (simp only [Option.map_eq_some_iff] at hs; obtain ⟨s1, ha, hs⟩ := hs; subst hs)
  all_goals first
    | (have h1 := (acquire_spec ha).2.2.2.2.2.2.2.2.2; refine ⟨[], ?_⟩; simp [St.setPc, h1]; done)
    | (have h1 := (release_spec ha).2.2.2.2.2.2.2.2.2; refine ⟨[], ?_⟩; simp [St.setPc, h1]; done)
    | (have h1 := (release_spec ha).2.2.2.2.2.2.2.2.2; refine ⟨[?_], ?_⟩ <;> try (simp [St.setPc, h1]; rfl))

end ConcVerif.LockFam
