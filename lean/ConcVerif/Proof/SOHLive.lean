import ConcVerif.Proof.SOH
import ConcVerif.Base.Live
/-! Two-level ranking for `SearchableObjectHolder` (instance of the lexicographic form in `Base/Live.lean`).

Environment events (`isEnv`): the calls (`call`, `callD`), the client dropping a reference (`rel`), the
payload destructor (`pdt`, user code) and the plain-access tap observation `mac` (a stutter step of the
model).  Library steps: `mlk`, every predicate invocation `pcl` of a scan, `uth`, `mul`, `ret`/`exc`, the
destructor's `yld`/`slp`/`retD`.

The number of predicate invocations of a scan is fixed only when the call takes `mapLock` (it is the length
of the scan over the map as it is then), and other threads may still enlarge the map before that; so the
first level `α` counts "has not taken the lock yet" and the second level `μ` is the remaining work once
inside: `pend.length + 3` in a critical section, `3·(7 − c) + …` in the destructor's retry loop. -/
namespace ConcVerif.SOH

def isEnv : Ev → Bool
  | .call _ | .callD | .rel _ | .pdt _ | .mac => true
  | _ => false

def Pc.alpha : Pc → Nat
  | .called _ => 1
  | _ => 0

def Pc.rank : Pc → Nat
  | .idle => 0
  | .called _ => 0
  | .cs _ _ pend => pend.length + 3
  | .thrown _ => 2
  | .unlocked _ _ => 1
  | .dCalled => 24
  | .dLocked c => 3 * (7 - c) + 2
  | .dWait c => 3 * (7 - c) + 4
  | .dRelock c => 3 * (7 - c) + 3
  | .dDone => 1

def α (s : St) (t : Tid) : Nat := (s.pc t).alpha
def μ (s : St) (t : Tid) : Nat := (s.pc t).rank

theorem tr_pc_other {s s' : St} {t u : Tid} {e : Ev} (h : Tr s t e s') (hu : u ≠ t) : s'.pc u = s.pc u := by
  cases h <;> simp [St.setPc, upd, hu]

/-- a library step lowers `α` of the stepping thread, or keeps it and lowers its `μ` -/
theorem tr_dec {s s' : St} {t : Tid} {e : Ev} (h : Tr s t e s') (he : isEnv e = false) :
    (s'.pc t).alpha < (s.pc t).alpha ∨ ((s'.pc t).alpha = (s.pc t).alpha ∧ (s'.pc t).rank < (s.pc t).rank) := by
  cases h <;> simp [isEnv] at he
  all_goals simp_all [St.setPc, upd, Pc.alpha, Pc.rank]
  all_goals omega

theorem rankedLex : Live.RankedLex step (fun _ => True) isEnv α μ where
  good := fun _ _ _ _ _ _ _ => trivial
  dec := by
    intro s t e s' _ hs he
    have htr := step_tr hs
    rcases tr_dec htr he with h | ⟨h1, h2⟩
    · exact Or.inl h
    · exact Or.inr ⟨h1, h2, fun u hu => by simp [μ, tr_pc_other htr hu]⟩
  frame := by
    intro s t e s' u _ hs _ hu
    simp [α, tr_pc_other (step_tr hs) hu]

/-! ## Deadlock-freedom with library steps -/

/-- some library step of `t` is enabled -/
def LibEnabled (s : St) (t : Tid) : Prop := ∃ e, isEnv e = false ∧ (step s t e).isSome = true

/-- the holder of `mapLock` always has an enabled library step -/
theorem holder_lib {s : St} (hi : Inv s) {t : Tid} (hl : s.lock = some t) : LibEnabled s t := by
  have hcs := (hi.lk t).mp hl
  cases hp : s.pc t <;> rw [hp] at hcs <;> simp [Pc.inCS] at hcs
  case cs op res pend =>
    cases pend with
    | cons k r => exact ⟨.pcl k, rfl, by simp [step, hp]⟩
    | nil =>
      by_cases hr : res = .threw
      · exact ⟨.uth, rfl, by simp [step, hp, hr]⟩
      · exact ⟨.mul, rfl, by simp [step, hp, hr, hl]⟩
  case thrown op => exact ⟨.mul, rfl, by simp [step, hp, hl]⟩
  case dLocked c =>
    by_cases hc : s.maps.objs = [] ∨ 7 ≤ c
    · exact ⟨.mul, rfl, by simp [step, hp, hl, hc]⟩
    · exact ⟨.mul, rfl, by simp [step, hp, hl, hc]⟩

/-- when `mapLock` is free, every thread inside a call has an enabled library step — except a call that
races with the completed destructor of the holder (a use after destruction by the client) -/
theorem free_lib {s : St} (hi : Inv s) (hl : s.lock = none) (t : Tid) :
    s.pc t = .idle ∨ LibEnabled s t ∨ (s.gone = true ∧ ∃ op, s.pc t = .called op) := by
  have hlk := hi.lk t
  cases hp : s.pc t
  case idle => exact Or.inl rfl
  case called op =>
    cases hg : s.gone
    · exact Or.inr (Or.inl ⟨.mlk, rfl, by simp [step, hp, hl, hg]⟩)
    · exact Or.inr (Or.inr ⟨rfl, op, rfl⟩)
  case cs => have := hlk.mpr (by simp [hp, Pc.inCS]); rw [hl] at this; cases this
  case thrown => have := hlk.mpr (by simp [hp, Pc.inCS]); rw [hl] at this; cases this
  case dLocked => have := hlk.mpr (by simp [hp, Pc.inCS]); rw [hl] at this; cases this
  case unlocked op res =>
    by_cases hr : res = .threw
    · exact Or.inr (Or.inl ⟨.exc, rfl, by simp [step, hp, hr]⟩)
    · exact Or.inr (Or.inl ⟨.ret res, rfl, by simp [step, hp, hr]⟩)
  case dCalled => exact Or.inr (Or.inl ⟨.mlk, rfl, by simp [step, hp, hl]⟩)
  case dWait c =>
    by_cases hc : c % 2 = 1
    · exact Or.inr (Or.inl ⟨.yld, rfl, by simp [step, hp, hc]⟩)
    · exact Or.inr (Or.inl ⟨.slp, rfl, by simp [step, hp]; omega⟩)
  case dRelock c => exact Or.inr (Or.inl ⟨.mlk, rfl, by simp [step, hp, hl]⟩)
  case dDone => exact Or.inr (Or.inl ⟨.retD, rfl, by simp [step, hp]⟩)

end ConcVerif.SOH
