import ConcVerif.Proof.DObjConc
import ConcVerif.Proof.HBLock
import ConcVerif.Proof.HBUtil
/-! Connection of the `DelayedObjects` model to the happens-before layer.

Mapping of the model events (`toHB`, stateless): `mlk` / `mul` = exclusive acquire / release of `promiseLock`
(mutex 0); `acc` = a plain access to one of the four map objects, counted as a WRITE of one location
(plain location 0 — the strongest reading: every two accesses conflict); `got p _` (a consumer found
future `p` ready) = an acquire load of the shared state of promise `p` (atomic location `p + 1`);
`call` / `ret` = `nop`.  The model's `pset v` event (`set_value`) does not name the promise it
satisfies, so the stateless mapping cannot place the corresponding release and drops it (`nop`: FEWER
edges, i.e. the race-freedom statements proved for `hbTrace` are the stronger ones).

`hbTraceP L` is the promise-aware mapping: the `j`-th `pset` event of the trace is the release store to
the shared state of the promise named by the `j`-th entry of the `set_value` log `L` (the model's ghost
`St.sets`; Proof/HBDObjPub.lean shows that this is the entry the critical section logged for it, with
the same value).  `std::promise::set_value` → `std::future::get` is TRUSTED to be a release/acquire
pair ([futures.state]: "synchronizes with").  All lock / access facts are proved for `hbTraceP L` with
`L` arbitrary; `hbTrace = hbTraceP []`. -/
/-! generic facts about held mutexes (kept in a sub-namespace: other components may state similar lemmas) -/
namespace ConcVerif.HB.DObjAux

/-- a hold by `t` that is gone when `u` acquires the mutex exclusively was released in between -/
theorem rel_before_acq {tr : Trace} (hok : MutexOK tr) {i l : Nat} {t u : Tid} {m : Loc} {a : Mode} (hil : i ≤ l)
    (hta : held (tr.take i) t m = some a) (hl : tr[l]? = some (u, .acq m .X)) (htu : t ≠ u) :
    ∃ k, i ≤ k ∧ k < l ∧ tr[k]? = some (t, .rel m a) := by
  have hll := get_lt hl
  have hcomp := (okAt_acq (hok l hll) hl).2 t htu
  have hgone : held (tr.take l) t m ≠ some a := by
    intro h; rw [h] at hcomp; cases a <;> simp [compat] at hcomp
  exact held_released hok hil (Nat.le_of_lt hll) hta hgone

/-- an event made while holding `m` happens-before every later exclusive acquisition of `m` by another thread -/
theorem hb_to_later_acq {tr : Trace} (hok : MutexOK tr) {i l : Nat} {t u : Tid} {m : Loc} {a : Mode} {ei : Ev}
    (hil : i ≤ l) (hi : tr[i]? = some (t, ei)) (hne : ∀ md, ei ≠ .rel m md)
    (hta : held (tr.take i) t m = some a) (hl : tr[l]? = some (u, .acq m .X)) (htu : t ≠ u) : HB tr i l := by
  obtain ⟨k, hik, hkl, hk⟩ := rel_before_acq hok hil hta hl htu
  have hki : k ≠ i := by
    intro h; subst h; rw [hi] at hk; injection hk with hk; injection hk with _ hk; exact hne a hk
  exact .trans (.po (by omega) hi hk) (.sw (.mutex hkl hk hl (.inr rfl)))

/-- two events of different threads, each made while holding `m` exclusively, are ordered -/
theorem locked_pair_hb {tr : Trace} (hok : MutexOK tr) {i j : Nat} {t u : Tid} {m : Loc} {ei ej : Ev} (hij : i < j)
    (htu : t ≠ u) (hi : tr[i]? = some (t, ei)) (hj : tr[j]? = some (u, ej)) (hne : ∀ md, ei ≠ .rel m md)
    (hta : held (tr.take i) t m = some .X) (hub : held (tr.take j) u m = some .X) : HB tr i j := by
  have hjl := get_lt hj
  rcases held_acquired (i := i) (by omega) (by omega) hub with h3 | ⟨l, hil, hlj, hl⟩
  · have := held_excl hok (by omega) htu hta h3
    cases this.1
  · exact .trans (hb_to_later_acq hok hil hi hne hta hl htu) (.po hlj hl hj)

theorem hstep_inert (h : Tid → Loc → Option Mode) (t : Tid) (e : Ev) (h1 : ∀ m md, e ≠ .acq m md)
    (h2 : ∀ m md, e ≠ .rel m md) : hstep h (t, e) = h := by
  cases e with
  | acq m md => exact absurd rfl (h1 m md)
  | rel m md => exact absurd rfl (h2 m md)
  | _ => rfl

end ConcVerif.HB.DObjAux

namespace ConcVerif.DObj

def Ev.isPset : Ev → Bool
  | .pset _ => true
  | _ => false

/-- number of `set_value` events -/
def psetCount (es : List (Tid × Ev)) : Nat := es.countP (fun p => p.2.isPset)

/-- stateless happens-before content of a model event (see the file header) -/
def toHB : Ev → HB.Ev
  | .mlk => .acq 0 .X
  | .mul => .rel 0 .X
  | .acc => .wr 0
  | .got p _ => .ld (p + 1) .acq
  | _ => .nop

def hbTrace (es : List (Tid × Ev)) : HB.Trace := es.map (fun p => (p.1, toHB p.2))

/-- promise-aware content: the `j`-th `set_value` event releases the shared state of the promise of the
`j`-th entry of the log `L` -/
def toHBP (L : List (Id × Val)) (j : Nat) : Ev → HB.Ev
  | .mlk => .acq 0 .X
  | .mul => .rel 0 .X
  | .acc => .wr 0
  | .got p _ => .ld (p + 1) .acq
  | .pset _ => match L[j]? with
      | some e => .st (e.1 + 1) .rel
      | none => .nop
  | _ => .nop

def hbGo (L : List (Id × Val)) : Nat → List (Tid × Ev) → HB.Trace
  | _, [] => []
  | j, (t, e) :: r => (t, toHBP L j e) :: hbGo L (j + (if e.isPset then 1 else 0)) r

def hbTraceP (L : List (Id × Val)) (es : List (Tid × Ev)) : HB.Trace := hbGo L 0 es

theorem psetCount_cons (x : Tid × Ev) (es : List (Tid × Ev)) :
    psetCount (x :: es) = (if x.2.isPset then 1 else 0) + psetCount es := by
  simp only [psetCount, List.countP_cons]; omega

theorem psetCount_snoc (es : List (Tid × Ev)) (x : Tid × Ev) :
    psetCount (es ++ [x]) = psetCount es + (if x.2.isPset then 1 else 0) := by
  simp [psetCount, List.countP_append, List.countP_cons]

theorem hbGo_snoc (L : List (Id × Val)) (j : Nat) (es : List (Tid × Ev)) (t : Tid) (e : Ev) :
    hbGo L j (es ++ [(t, e)]) = hbGo L j es ++ [(t, toHBP L (j + psetCount es) e)] := by
  induction es generalizing j with
  | nil => simp [hbGo, psetCount]
  | cons x r ih =>
    obtain ⟨u, f⟩ := x
    simp only [List.cons_append, hbGo, ih, psetCount_cons]
    rw [Nat.add_assoc]

theorem hbTraceP_snoc (L : List (Id × Val)) (es : List (Tid × Ev)) (t : Tid) (e : Ev) :
    hbTraceP L (es ++ [(t, e)]) = hbTraceP L es ++ [(t, toHBP L (psetCount es) e)] := by
  simp [hbTraceP, hbGo_snoc]

theorem hbGo_length (L : List (Id × Val)) (j : Nat) (es : List (Tid × Ev)) : (hbGo L j es).length = es.length := by
  induction es generalizing j with
  | nil => rfl
  | cons x r ih => obtain ⟨u, f⟩ := x; simp [hbGo, ih]

@[simp] theorem hbTraceP_length (L : List (Id × Val)) (es : List (Tid × Ev)) : (hbTraceP L es).length = es.length :=
  hbGo_length L 0 es

theorem hbGo_take (L : List (Id × Val)) (j n : Nat) (es : List (Tid × Ev)) :
    (hbGo L j es).take n = hbGo L j (es.take n) := by
  induction es generalizing j n with
  | nil => simp [hbGo]
  | cons x r ih =>
    obtain ⟨u, f⟩ := x
    cases n with
    | zero => simp [hbGo]
    | succ n => simp [hbGo, ih]

theorem hbTraceP_take (L : List (Id × Val)) (n : Nat) (es : List (Tid × Ev)) :
    (hbTraceP L es).take n = hbTraceP L (es.take n) := hbGo_take L 0 n es

theorem hbGo_get (L : List (Id × Val)) (j : Nat) {es : List (Tid × Ev)} {i : Nat} {t : Tid} {e : Ev}
    (h : es[i]? = some (t, e)) : (hbGo L j es)[i]? = some (t, toHBP L (j + psetCount (es.take i)) e) := by
  induction es generalizing j i with
  | nil => simp at h
  | cons x r ih =>
    obtain ⟨u, f⟩ := x
    cases i with
    | zero => simp at h; obtain ⟨h1, h2⟩ := h; subst h1; subst h2; simp [hbGo, psetCount]
    | succ i =>
      simp only [List.getElem?_cons_succ] at h
      simp only [hbGo, List.getElem?_cons_succ, ih _ h, List.take_succ_cons, psetCount_cons]
      rw [Nat.add_assoc]

theorem hbTraceP_get (L : List (Id × Val)) {es : List (Tid × Ev)} {i : Nat} {t : Tid} {e : Ev}
    (h : es[i]? = some (t, e)) : (hbTraceP L es)[i]? = some (t, toHBP L (psetCount (es.take i)) e) := by
  have := hbGo_get L 0 h
  simpa [hbTraceP] using this

/-- every position of the mapped trace comes from the model event at the same position -/
theorem hbTraceP_inv (L : List (Id × Val)) {es : List (Tid × Ev)} {i : Nat} {t : Tid} {h : HB.Ev}
    (hi : (hbTraceP L es)[i]? = some (t, h)) :
    ∃ e, es[i]? = some (t, e) ∧ h = toHBP L (psetCount (es.take i)) e := by
  have hl : i < es.length := by have := HB.lq_lt hi; simpa using this
  obtain ⟨p, hp⟩ : ∃ p, es[i]? = some p := ⟨es[i], by simp [hl]⟩
  obtain ⟨u, e⟩ := p
  have := hbTraceP_get L hp
  rw [this] at hi
  injection hi with hi; injection hi with h1 h2
  subst h1
  exact ⟨e, hp, h2.symm⟩

theorem toHBP_nil (j : Nat) (e : Ev) : toHBP [] j e = toHB e := by
  cases e <;> simp [toHBP, toHB]

theorem hbGo_nil (j : Nat) (es : List (Tid × Ev)) : hbGo [] j es = hbTrace es := by
  induction es generalizing j with
  | nil => rfl
  | cons x r ih => obtain ⟨u, f⟩ := x; simp [hbGo, hbTrace, toHBP_nil, ih]

/-- the stateless mapping is the promise-aware one with an empty log -/
theorem hbTrace_eq (es : List (Tid × Ev)) : hbTrace es = hbTraceP [] es := (hbGo_nil 0 es).symm

/-- only `acc` is a plain access, and it is a write of location 0 -/
theorem toHBP_access {L : List (Id × Val)} {j : Nat} {e : Ev} {x : HB.Loc} (h : (toHBP L j e).accesses x) :
    e = .acc ∧ x = 0 := by
  cases e with
  | acc => rcases h with h | h <;> cases h; exact ⟨rfl, rfl⟩
  | pset v =>
    simp only [toHBP] at h
    split at h <;> (rcases h with h | h <;> cases h)
  | _ => rcases h with h | h <;> cases h

end ConcVerif.DObj

/-! ### effect of the model's transitions on the lock, the pcs and the closer -/
namespace ConcVerif.DObj

def ofLock (m : Option Tid) (u : Tid) : Option HB.Mode := if m = some u then some .X else none

/-- effect of an event on the model's `promiseLock` -/
def lockEffect (e : Ev) (t : Tid) (b a : Option Tid) : Prop :=
  match e with
  | .mlk => b = none ∧ a = some t
  | .mul => b = some t ∧ a = none
  | _ => a = b

theorem tr_lock {s s' : St} {t : Tid} {e : Ev} (h : Tr s t e s') : lockEffect e t s.lock s'.lock := by
  cases h <;> simp [lockEffect, *]

/-- inside or after the critical section of a call -/
def Pc.inCS : Pc → Bool
  | .locked _ _ _ => true
  | .unlocked _ _ => true
  | _ => false

/-- inside the destructor -/
def Pc.isDtor : Pc → Bool
  | .called .dtor => true
  | .locked .dtor _ _ => true
  | .unlocked .dtor _ => true
  | _ => false

theorem tr_pc_other {s s' : St} {t u : Tid} {e : Ev} (h : Tr s t e s') (hu : u ≠ t) : s'.pc u = s.pc u := by
  cases h <;> simp [hu]

theorem tr_closer {s s' : St} {t : Tid} {e : Ev} (h : Tr s t e s') (hc : s.closer ≠ none) : s'.closer = s.closer := by
  cases h with
  | call o hpc hc' hok => exact absurd hc' hc
  | _ => rfl

theorem tr_idle {s s' : St} {t : Tid} {e : Ev} (h : Tr s t e s') (hpc : s.pc t = .idle) :
    (∃ o, e = .call o) ∨ ∃ p x, e = .got p x := by
  cases h with
  | call o _ _ _ => exact .inl ⟨o, rfl⟩
  | got p x _ _ _ => exact .inr ⟨p, x, rfl⟩
  | _ => simp_all

theorem tr_inCS {s s' : St} {t : Tid} {e : Ev} (h : Tr s t e s') (hin : (s'.pc t).inCS = true) :
    (s.pc t).inCS = true ∨ e = .mlk := by
  cases h with
  | mlk => exact .inr rfl
  | call o _ _ _ => simp [Pc.inCS] at hin
  | ret o r _ => simp [Pc.inCS] at hin
  | pset o r todo v hpc _ => left; rw [hpc]; rfl
  | mul o r hpc _ => left; rw [hpc]; rfl
  | accL o r todo hpc => exact .inl hin
  | accD r hpc => exact .inl hin
  | got p x hpc _ _ => exact .inl hin

theorem tr_isDtor {s s' : St} {t : Tid} {e : Ev} (h : Tr s t e s') (hin : (s'.pc t).isDtor = true) :
    (s.pc t).isDtor = true ∨ e = .call .dtor := by
  cases h with
  | call o _ _ _ =>
    right
    simp only [setPc_pc, upd_same] at hin
    cases o <;> simp [Pc.isDtor] at hin ⊢
  | mlk o σ r l hpc _ _ =>
    left
    simp only [setPc_pc, upd_same] at hin
    rw [hpc]; cases o <;> simp [Pc.isDtor] at hin ⊢
  | pset o r todo v hpc _ =>
    left
    simp only [setPc_pc, upd_same] at hin
    rw [hpc]; cases o <;> simp [Pc.isDtor] at hin ⊢
  | mul o r hpc _ =>
    left
    simp only [setPc_pc, upd_same] at hin
    rw [hpc]; cases o <;> simp [Pc.isDtor] at hin ⊢
  | ret o r _ => simp [Pc.isDtor] at hin
  | accL o r todo hpc => exact .inl hin
  | accD r hpc => exact .inl hin
  | got p x hpc _ _ => exact .inl hin

/-- a thread inside the destructor (before, inside or after its critical section) is the registered closer -/
def DInv (s : St) : Prop := ∀ t, (s.pc t).isDtor = true → s.closer = some t

theorem dinv_tr {s s' : St} {t : Tid} {e : Ev} (h : DInv s) (htr : Tr s t e s') : DInv s' := by
  intro u hu
  by_cases hut : u = t
  · subst hut
    rcases tr_isDtor htr hu with h1 | h1
    · have h2 := h u h1
      rw [tr_closer htr (by rw [h2]; simp)]; exact h2
    · subst h1
      cases htr with
      | call o _ _ _ => simp
  · rw [tr_pc_other htr hut] at hu
    have h2 := h u hu
    rw [tr_closer htr (by rw [h2]; simp)]; exact h2

theorem dinv_reachable {s : St} (h : Reachable s) : DInv s := by
  obtain ⟨es, hes⟩ := h
  refine runFrom_inv (Inv := DInv) (fun s t e s' hi hs => dinv_tr hi (step_tr hs)) ?_ hes
  intro u hu; simp [init, Pc.isDtor] at hu

/-! ### after the destructor's call the other threads only observe futures -/

/-- after position `k` every event of a thread other than `c` is a `got` -/
def OthersGot (es : List (Tid × Ev)) (k : Nat) (c : Tid) : Prop :=
  ∀ m u e, k < m → es[m]? = some (u, e) → u ≠ c → ∃ p x, e = Ev.got p x

/-- position `n` lies after the lock acquisition (`l`) of the destructor call (`k`) of thread `c`, and from the
call on no other thread did anything but observe futures -/
def DtorAt (es : List (Tid × Ev)) (c : Tid) (n : Nat) : Prop :=
  ∃ k l, k < l ∧ l < n ∧ es[k]? = some (c, Ev.call .dtor) ∧ es[l]? = some (c, Ev.mlk) ∧ OthersGot es k c

theorem othersGot_snoc {es : List (Tid × Ev)} {s s' : St} {t : Tid} {e : Ev} {k : Nat} {c : Tid}
    (h : OthersGot es k c) (hi : Inv s) (hc : s.closer = some c) (htr : Tr s t e s') :
    OthersGot (es ++ [(t, e)]) k c := by
  intro m u f hkm hm huc
  rcases HB.lq_snoc hm with ⟨_, hm'⟩ | ⟨_, hm'⟩
  · exact h m u f hkm hm' huc
  · injection hm' with h1 h2; subst h1; subst h2
    have hidle := hi.closerOnly c hc u huc
    rcases tr_idle htr hidle with ⟨o, ho⟩ | h
    · subst ho
      cases htr with
      | call o hpc hc' hok => rw [hc] at hc'; cases hc'
    · exact h

/-- the registered closer has called the destructor, since then the others only observe futures, and once it
is inside / after its critical section it has taken the lock after that call -/
def CloserQ (es : List (Tid × Ev)) (s : St) : Prop :=
  ∀ c, s.closer = some c → ∃ k, es[k]? = some (c, Ev.call .dtor) ∧ OthersGot es k c ∧
    ((s.pc c).inCS = true → ∃ l, k < l ∧ es[l]? = some (c, Ev.mlk))

theorem closerQ_step {es : List (Tid × Ev)} {s s' : St} {t : Tid} {e : Ev} (hq : CloserQ es s) (hi : Inv s)
    (htr : Tr s t e s') : CloserQ (es ++ [(t, e)]) s' := by
  intro c hc'
  by_cases hcn : s.closer = none
  · have hx : e = .call .dtor ∧ c = t := by
      cases htr with
      | call o _ _ _ =>
        simp only [setPc_closer] at hc'
        by_cases ho : o = .dtor
        · subst ho; simp at hc'; exact ⟨rfl, hc'.symm⟩
        · simp [ho, hcn] at hc'
      | _ => all_goals (have h2 : s.closer = some c := hc'; rw [hcn] at h2; cases h2)
    obtain ⟨he, hct⟩ := hx; subst he; subst hct
    refine ⟨es.length, HB.lq_last _ _, ?_, ?_⟩
    · intro m u f hkm hm _
      have := HB.lq_lt hm; simp at this; omega
    · intro hin
      cases htr with
      | call o _ _ _ => simp [Pc.inCS] at hin
  · have hc : s.closer = some c := by rw [← tr_closer htr hcn]; exact hc'
    obtain ⟨k, hk, hog, hl⟩ := hq c hc
    refine ⟨k, HB.lq_mono _ hk, othersGot_snoc hog hi hc htr, ?_⟩
    intro hin
    by_cases hct : c = t
    · subst hct
      rcases tr_inCS htr hin with h1 | h1
      · obtain ⟨l, h2, h3⟩ := hl h1; exact ⟨l, h2, HB.lq_mono _ h3⟩
      · subst h1; exact ⟨es.length, HB.lq_lt hk, HB.lq_last _ _⟩
    · rw [tr_pc_other htr hct] at hin
      obtain ⟨l, h2, h3⟩ := hl hin; exact ⟨l, h2, HB.lq_mono _ h3⟩

end ConcVerif.DObj

/-! ### the simulation: the model's `lock` field is what the mapped trace says is held -/
namespace ConcVerif.DObj

theorem toHBP_not_acq {L : List (Id × Val)} {j : Nat} {e : Ev} (he : e ≠ .mlk) (m : HB.Loc) (md : HB.Mode) :
    toHBP L j e ≠ .acq m md := by
  cases e with
  | mlk => exact absurd rfl he
  | pset v => simp only [toHBP]; split <;> simp
  | _ => simp [toHBP]

theorem toHBP_not_rel {L : List (Id × Val)} {j : Nat} {e : Ev} (he : e ≠ .mul) (m : HB.Loc) (md : HB.Mode) :
    toHBP L j e ≠ .rel m md := by
  cases e with
  | mul => exact absurd rfl he
  | pset v => simp only [toHBP]; split <;> simp
  | _ => simp [toHBP]

theorem sim_acq {tr : HB.Trace} {t : Tid} {b a : Option Tid} (ihH : ∀ u, HB.held tr u 0 = ofLock b u)
    (ihM : HB.MutexOK tr) (hb : b = none) (ha : a = some t) :
    (∀ u, HB.held (tr ++ [(t, .acq 0 .X)]) u 0 = ofLock a u) ∧ HB.MutexOK (tr ++ [(t, .acq 0 .X)]) := by
  subst hb; subst ha
  refine ⟨?_, ?_⟩
  · intro u
    rw [HB.held_snoc]
    simp only [HB.hstep, ofLock]
    by_cases hu : u = t
    · subst hu; simp
    · have : ¬ t = u := fun h => hu h.symm
      simp [hu, this]; rw [ihH]; rfl
  · apply HB.mutexOK_snoc ihM
    · intro m md he'
      injection he' with hm' hmd; subst hm'; subst hmd
      refine ⟨by rw [ihH]; rfl, ?_⟩
      intro u _; rw [ihH]; rfl
    · intro m md he'; cases he'

theorem sim_rel {tr : HB.Trace} {t : Tid} {b a : Option Tid} (ihH : ∀ u, HB.held tr u 0 = ofLock b u)
    (ihM : HB.MutexOK tr) (hb : b = some t) (ha : a = none) :
    (∀ u, HB.held (tr ++ [(t, .rel 0 .X)]) u 0 = ofLock a u) ∧ HB.MutexOK (tr ++ [(t, .rel 0 .X)]) := by
  subst hb; subst ha
  refine ⟨?_, ?_⟩
  · intro u
    rw [HB.held_snoc]
    simp only [HB.hstep, ofLock]
    by_cases hu : u = t
    · subst hu; simp
    · simp [hu]; rw [ihH]; simp [ofLock]; intro h; exact hu h.symm
  · apply HB.mutexOK_snoc ihM
    · intro m md he'; cases he'
    · intro m md he'
      injection he' with hm' hmd; subst hm'; subst hmd
      rw [ihH]; simp [ofLock]

theorem sim_inert {tr : HB.Trace} {t : Tid} {h : HB.Ev} {b a : Option Tid} (ihH : ∀ u, HB.held tr u 0 = ofLock b u)
    (ihM : HB.MutexOK tr) (h1 : ∀ m md, h ≠ .acq m md) (h2 : ∀ m md, h ≠ .rel m md) (hab : a = b) :
    (∀ u, HB.held (tr ++ [(t, h)]) u 0 = ofLock a u) ∧ HB.MutexOK (tr ++ [(t, h)]) := by
  subst hab
  refine ⟨?_, ?_⟩
  · intro u; rw [HB.held_snoc, HB.DObjAux.hstep_inert _ _ _ h1 h2]; exact ihH u
  · apply HB.mutexOK_snoc ihM
    · intro m md he'; exact absurd he' (h1 m md)
    · intro m md he'; exact absurd he' (h2 m md)

/-- one event: the hold mirror and mutex consistency are preserved -/
theorem lock_sim_step {tr : HB.Trace} {L : List (Id × Val)} {j : Nat} {t : Tid} {e : Ev} {b a : Option Tid}
    (ihH : ∀ u, HB.held tr u 0 = ofLock b u) (ihM : HB.MutexOK tr) (hm : lockEffect e t b a) :
    (∀ u, HB.held (tr ++ [(t, toHBP L j e)]) u 0 = ofLock a u) ∧ HB.MutexOK (tr ++ [(t, toHBP L j e)]) := by
  by_cases h1 : e = .mlk
  · subst h1; exact sim_acq ihH ihM hm.1 hm.2
  · by_cases h2 : e = .mul
    · subst h2; exact sim_rel ihH ihM hm.1 hm.2
    · refine sim_inert ihH ihM (toHBP_not_acq h1) (toHBP_not_rel h2) ?_
      cases e <;> first | exact hm | exact absurd rfl h1 | exact absurd rfl h2

/-- the simulation invariant between an accepted trace, its mapped trace and the state reached -/
structure Sim (L : List (Id × Val)) (es : List (Tid × Ev)) (s : St) : Prop where
  held : ∀ u, HB.held (hbTraceP L es) u 0 = ofLock s.lock u
  mok : HB.MutexOK (hbTraceP L es)
  cq : CloserQ es s
  acc : ∀ n c, es[n]? = some (c, Ev.acc) →
    HB.held ((hbTraceP L es).take n) c 0 = some .X ∨ (s.closer = some c ∧ DtorAt es c n)

theorem dtorAt_snoc {es : List (Tid × Ev)} {s s' : St} {t : Tid} {e : Ev} {c : Tid} {n : Nat}
    (h : DtorAt es c n) (hi : Inv s) (hc : s.closer = some c) (htr : Tr s t e s') : DtorAt (es ++ [(t, e)]) c n := by
  obtain ⟨k, l, h1, h2, h3, h4, h5⟩ := h
  exact ⟨k, l, h1, h2, HB.lq_mono _ h3, HB.lq_mono _ h4, othersGot_snoc h5 hi hc htr⟩

theorem sim_step {L : List (Id × Val)} {es : List (Tid × Ev)} {s s' : St} {t : Tid} {e : Ev} (hs : Sim L es s)
    (hr : run es = some s) (htr : Tr s t e s') : Sim L (es ++ [(t, e)]) s' := by
  have hi : Inv s := inv_reachable ⟨es, hr⟩
  have hd : DInv s := dinv_reachable ⟨es, hr⟩
  obtain ⟨h1, h2⟩ := lock_sim_step (L := L) (j := psetCount es) hs.held hs.mok (tr_lock htr)
  refine ⟨by rw [hbTraceP_snoc]; exact h1, by rw [hbTraceP_snoc]; exact h2, closerQ_step hs.cq hi htr, ?_⟩
  intro n c hn
  rcases HB.lq_snoc hn with ⟨hlt, hn'⟩ | ⟨hlen, hn'⟩
  · rcases hs.acc n c hn' with h | ⟨hc, hda⟩
    · left
      rw [hbTraceP_snoc, List.take_append_of_le_length (by simp; omega)]; exact h
    · right
      refine ⟨?_, dtorAt_snoc hda hi hc htr⟩
      rw [tr_closer htr (by rw [hc]; simp)]; exact hc
  · injection hn' with h3 h4; subst h3; subst h4; subst hlen
    cases htr with
    | accL o r todo hpc =>
      left
      have hl : s.lock = some c := (hi.lockPc c).2 ⟨o, r, todo, hpc⟩
      rw [hbTraceP_snoc, List.take_left' (by simp), hs.held, hl]; simp [ofLock]
    | accD r hpc =>
      right
      have hc : s.closer = some c := hd c (by rw [hpc]; rfl)
      obtain ⟨k, hk, hog, hl⟩ := hs.cq c hc
      obtain ⟨l, hkl, hl⟩ := hl (by rw [hpc]; rfl)
      exact ⟨hc, k, l, hkl, HB.lq_lt hl, HB.lq_mono _ hk, HB.lq_mono _ hl,
        othersGot_snoc hog hi hc (.accD r hpc)⟩

theorem sim_run (L : List (Id × Val)) {es : List (Tid × Ev)} {s : St} (h : run es = some s) : Sim L es s := by
  induction es using HB.snoc_induction generalizing s with
  | h0 =>
    simp [run] at h; subst h
    refine ⟨fun u => rfl, HB.mutexOK_nil, ?_, ?_⟩
    · intro c hc; simp [init] at hc
    · intro n c hn; simp at hn
  | hs es x ih =>
    obtain ⟨t, e⟩ := x
    simp only [run, runFrom_append] at h
    cases h1 : runFrom step init es with
    | none => simp [h1] at h
    | some s1 =>
      simp only [h1, Option.bind_some, runFrom_cons, runFrom_nil] at h
      cases h2 : step s1 t e with
      | none => simp [h2] at h
      | some s2 =>
        simp [h2] at h; subst h
        exact sim_step (ih h1) h1 (step_tr h2)

end ConcVerif.DObj

/-! ### consequences for every accepted trace -/
namespace ConcVerif.DObj

theorem run_take {es : List (Tid × Ev)} {s : St} (h : run es = some s) (n : Nat) : ∃ s1, run (es.take n) = some s1 := by
  have h' : runFrom step init (es.take n ++ es.drop n) = some s := by rw [List.take_append_drop]; exact h
  rw [runFrom_append] at h'
  cases h1 : runFrom step init (es.take n) with
  | none => simp [h1] at h'
  | some s1 => exact ⟨s1, h1⟩

/-- what the mapped trace says is held before position `n` is the model's `lock` field there -/
theorem held_prefix (L : List (Id × Val)) {es : List (Tid × Ev)} {s1 : St} {n : Nat} (h1 : run (es.take n) = some s1)
    (u : Tid) : HB.held ((hbTraceP L es).take n) u 0 = ofLock s1.lock u := by
  rw [hbTraceP_take]; exact (sim_run L h1).held u

/-- a plain access in the mapped trace is an `acc` of the model -/
theorem access_acc {L : List (Id × Val)} {es : List (Tid × Ev)} {i : Nat} {t : Tid} {ei : HB.Ev} {x : HB.Loc}
    (h : (hbTraceP L es)[i]? = some (t, ei)) (ha : ei.accesses x) : es[i]? = some (t, Ev.acc) ∧ x = 0 ∧ ei = .wr 0 := by
  obtain ⟨e, he, hh⟩ := hbTraceP_inv L h
  subst hh
  obtain ⟨h1, h2⟩ := toHBP_access ha
  subst h1; exact ⟨he, h2, rfl⟩

/-- **ordering of the map accesses**: in every accepted trace each access to the maps happens after every
earlier one (all of them counted as writes), the destructor's member destruction included -/
theorem dobj_hb (L : List (Id × Val)) {es : List (Tid × Ev)} {s : St} (h : run es = some s) {i j : Nat} (hij : i < j)
    (hc : HB.ConflictOn (hbTraceP L es) 0 i j) : HB.HB (hbTraceP L es) i j := by
  have S := sim_run L h
  obtain ⟨t, u, ei, ej, h1, h2, ha1, ha2, _⟩ := hc
  by_cases htu : t = u
  · subst htu; exact .po hij h1 h2
  · obtain ⟨e1, _, hw1⟩ := access_acc h1 ha1
    obtain ⟨e2, _, hw2⟩ := access_acc h2 ha2
    subst hw1; subst hw2
    rcases S.acc i t e1 with hi | ⟨_, k, l, _, hli, _, _, hog⟩
    · rcases S.acc j u e2 with hj | ⟨_, k, l, hkl, hlj, hk, hl, hog⟩
      · exact HB.DObjAux.locked_pair_hb S.mok hij htu h1 h2 (by intro md hh; cases hh) hi hj
      · -- `j` is the destructor's access after its critical section
        have hik : i ≤ k := by
          apply Classical.byContradiction
          intro hn
          obtain ⟨p, x, hh⟩ := hog i t _ (by omega) e1 htu
          cases hh
        have hl' := hbTraceP_get L hl
        exact .trans (HB.DObjAux.hb_to_later_acq S.mok (by omega) h1 (by intro md hh; cases hh) hi hl' htu)
          (.po hlj hl' h2)
    · -- `i` cannot be the destructor's: a later access by another thread is impossible
      obtain ⟨p, x, hh⟩ := hog j u _ (by omega) e2 (fun hh => htu hh.symm)
      cases hh

theorem dobj_no_race (L : List (Id × Val)) {es : List (Tid × Ev)} {s : St} (h : run es = some s) :
    ¬ HB.Race (hbTraceP L es) := by
  intro ⟨i, j, hij, ⟨x, hc⟩, hn⟩
  have hx : x = 0 := by
    obtain ⟨t, u, ei, ej, h1, _, ha, _⟩ := hc
    exact (access_acc h1 ha).2.1
  subst hx
  exact hn (dobj_hb L h hij hc)

/-- as long as the destructor has not been called every access is made under the lock -/
theorem dobj_lockset (L : List (Id × Val)) {es : List (Tid × Ev)} {s : St} (h : run es = some s)
    (hc : s.closer = none) : HB.LockSet (hbTraceP L es) 0 0 := by
  have S := sim_run L h
  intro n hn
  unfold HB.lockedAt
  split
  · rename_i t y heq
    obtain ⟨e, _, hh⟩ := hbTraceP_inv L heq
    have := toHBP_access (L := L) (j := psetCount (es.take n)) (e := e) (x := y) (.inl hh.symm)
    obtain ⟨h1, _⟩ := this; subst h1; cases hh
  · rename_i t y heq
    intro hy; subst hy
    obtain ⟨he, _, _⟩ := access_acc heq (.inr rfl)
    rcases S.acc n t he with h1 | ⟨h1, _⟩
    · exact h1
    · rw [hc] at h1; cases h1
  · trivial

/-- every `set_value` is made holding the lock -/
theorem pset_locked (L : List (Id × Val)) {es : List (Tid × Ev)} {s : St} (h : run es = some s) {q : Nat} {t : Tid}
    {v : Val} (hq : es[q]? = some (t, Ev.pset v)) : HB.held ((hbTraceP L es).take q) t 0 = some .X := by
  obtain ⟨s1, s2, h1, h2⟩ := HB.runFrom_at h hq
  have hi : Inv s1 := inv_reachable ⟨_, h1⟩
  rw [held_prefix L h1]
  cases step_tr h2 with
  | pset o r todo v hpc hv =>
    rw [(hi.lockPc t).2 ⟨o, r, todo, hpc⟩]; simp [ofLock]

end ConcVerif.DObj
