import ConcVerif.Proof.DDAux
/-! Once `~DelayedDestructor` has started (client obligation of the model: no call is in progress at that moment and
none starts afterwards), every thread other than the one running it only ever runs payload destructors: its stack
consists of `dying` / `inDt` frames.  In particular it never touches `destructionLock` or the vector again. -/
namespace ConcVerif.DD

def isPay : Frame → Bool
  | .dying _ | .inDt _ => true
  | _ => false

def AllPay (fs : List Frame) : Prop := ∀ f ∈ fs, isPay f = true

@[simp] theorem allPay_nil : AllPay [] := by intro f h; cases h
@[simp] theorem allPay_cons (f fs) : AllPay (f :: fs) ↔ isPay f = true ∧ AllPay fs := by simp [AllPay]

/-- below a payload frame with only payload frames underneath, `resume` has nothing to continue -/
theorem resume_pay (s : St) (t : Tid) {fs : List Frame} (h : AllPay fs) : resume s t fs = s.setStk t fs := by
  cases fs with
  | nil => rfl
  | cons f fs =>
    simp only [allPay_cons] at h
    cases f <;> simp [isPay] at h <;> rfl

theorem allPay_stepUser {s s' : St} {t : Tid} {fs e} (h : stepUser s t fs e = some s') (hfs : s.stk t = fs)
    (hd : s.dead ≠ none) (hI : AllPay fs) : AllPay (s'.stk t) := by
  unfold stepUser at h
  split at h
  all_goals (try (repeat' (split at h)))
  all_goals (first | cases h | skip)
  all_goals (first
    | (show AllPay (s.stk t); rw [hfs]; exact hI)
    | (simp only [setStk_stk_same, allPay_cons]; exact ⟨rfl, hI⟩)
    | (exfalso; rename_i hm; exact hd (mayCall_dead (by simpa using hm)))
    | (exfalso; rename_i hm _; exact hd (mayCall_dead (by simpa using hm)))
    | (exfalso; rename_i hm _ _; exact hd (mayCall_dead (by simpa using hm)))
    | (exfalso; rename_i hc; exact hd hc.2.2)
    | skip)

theorem allPay_step {s s' : St} {t : Tid} {e} (h : step s t e = some s') (hd : s.dead ≠ none)
    (hI : AllPay (s.stk t)) : AllPay (s'.stk t) := by
  unfold step at h
  split at h
  all_goals (try rw [show s.stk t = _ from by assumption] at hI)
  all_goals (first | exact allPay_stepUser h (by assumption) hd hI | skip)
  all_goals (first | (simp [isPay] at hI; done) | skip)
  all_goals (try (repeat' (split at h)))
  all_goals (first | cases h | skip)
  all_goals (simp only [allPay_cons] at hI)
  all_goals (first
    | (simp only [setStk_stk_same, allPay_cons]; exact ⟨rfl, hI.2⟩)
    | (rw [resume_pay _ _ hI.2]; simp only [setStk_stk_same]; exact hI.2)
    | skip)

/-- precise form of `step_dead`: the only event that changes `dead` is the start of the container's destructor -/
theorem stepUser_dead' {s s' : St} {t : Tid} {fs e} (h : stepUser s t fs e = some s') :
    s'.dead = s.dead ∨ (s.act = [] ∧ s.dead = none ∧ s'.dead = some t ∧ fs = [] ∧ e = .callDtor) := by
  unfold stepUser at h
  split at h
  all_goals (try (repeat' (split at h)))
  all_goals (first | cases h | skip)
  all_goals (first | (left; rfl) | (left; simp; done)
                   | (right; rename_i hc; exact ⟨hc.2.1, hc.2.2, by simp, hc.1, rfl⟩))

theorem stepUser_dead'' {s s' : St} {t : Tid} {fs e} (h : stepUser s t fs e = some s') (hfs : s.stk t = fs) :
    s'.dead = s.dead ∨ (s.act = [] ∧ s.dead = none ∧ s'.dead = some t ∧ s.stk t = [] ∧ e = .callDtor) := by
  rcases stepUser_dead' h with h1 | ⟨h1, h2, h3, h4, h5⟩
  · exact .inl h1
  · exact .inr ⟨h1, h2, h3, by rw [hfs, h4], h5⟩

theorem step_dead' {s s' : St} {t : Tid} {e} (h : step s t e = some s') :
    s'.dead = s.dead ∨ (s.act = [] ∧ s.dead = none ∧ s'.dead = some t ∧ s.stk t = [] ∧ e = .callDtor) := by
  unfold step at h
  split at h
  all_goals (first | exact stepUser_dead'' h (by assumption) | skip)
  all_goals (try (repeat' (split at h)))
  all_goals (first | cases h | skip)
  all_goals (left; first | rfl | simp [unlock])

/-- threads other than the destructor's run payload destructors only -/
def PY (s : St) : Prop := ∀ d, s.dead = some d → ∀ u, u ≠ d → AllPay (s.stk u)

theorem py_init (cb ns nt) : PY (init cb ns nt) := by intro d h; simp [init] at h

theorem py_step {s s' : St} {t : Tid} {e} (hA : ActOk s) (hI : PY s) (h : step s t e = some s') : PY s' := by
  intro d hd u hu
  rcases step_dead' h with h1 | ⟨h1, _, h3, _, _⟩
  · rw [h1] at hd
    by_cases hut : u = t
    · subst hut
      exact allPay_step h (by rw [hd]; simp) (hI d hd u hu)
    · rw [step_stk_other h hut]; exact hI d hd u hu
  · rw [h3] at hd; injection hd with hd; subst hd
    rw [step_stk_other h hu]
    have : s.stk u = [] := by
      apply Classical.byContradiction; intro hne
      have := (hA u).mpr hne
      rw [h1] at this; cases this
    rw [this]; simp

theorem py_reachable {cb ns nt} {s : St} (h : Reachable cb ns nt s) : PY s := by
  obtain ⟨es, hr⟩ := h
  have : Dt s ∧ PY s :=
    runFrom_inv (Inv := fun s => Dt s ∧ PY s)
      (fun _ _ _ _ hi hs => ⟨dt_step hi.1 hs, py_step hi.1.act hi.2 hs⟩) ⟨dt_init cb ns nt, py_init cb ns nt⟩ hr
  exact this.2

end ConcVerif.DD
