import ConcVerif.Proof.Trigger
import ConcVerif.Proof.HBUtil
/-! Connection of the TriggerVariable model to the happens-before layer: both flags are only ever
stored with seq_cst (the event grammar of the model has no other store) and loaded with acquire or
seq_cst, so every store of a flag synchronises with every later load that reads from it; and in every
accepted trace a load that returns a value different from the initial one reads from a store of that
value.  Client data written before `trigger()` / `activate()` and read after a `wait()` /
`waitActivation()` / `isTriggered()` … that saw the flag is therefore ordered. -/
namespace ConcVerif.Trigger
open HB (HBeq lq_lt lq_mono lq_snoc lq_last)

/-- mutex `triggerLock` / `activeLock` = 0 / 1; atomic `triggered` / `activated` = 0 / 1 -/
def sideLoc : Side → HB.Loc
  | .trig => 0
  | .act => 1

theorem sideLoc_inj {a b : Side} (h : sideLoc a = sideLoc b) : a = b := by
  cases a <;> cases b <;> simp [sideLoc] at h <;> rfl

def cvt : Ord → HB.Ord
  | .acq => .acq
  | .sc => .sc

theorem cvt_acq (o : Ord) : (cvt o).isAcq = true := by cases o <;> rfl

/-- happens-before content of a model event (a cv wait is a release followed by a re-acquisition) -/
def toHB : Ev → HB.Ev
  | .mlk m => .acq (sideLoc m) .X
  | .mul m => .rel (sideLoc m) .X
  | .cwt m => .rel (sideLoc m) .X
  | .cwk m _ => .acq (sideLoc m) .X
  | .ld a o _ => .ld (sideLoc a) (cvt o)
  | .st a _ => .st (sideLoc a) .sc
  | _ => .nop

def hbTrace (es : List (Tid × Ev)) : HB.Trace := es.map (fun p => (p.1, toHB p.2))

theorem hbTrace_get {es : List (Tid × Ev)} {i : Nat} {t : Tid} {e : Ev} (h : es[i]? = some (t, e)) :
    (hbTrace es)[i]? = some (t, toHB e) := by simp [hbTrace, h]

theorem hbTrace_st_inv {es : List (Tid × Ev)} {k : Nat} {w : Tid} {a : Side} {o : HB.Ord}
    (h : (hbTrace es)[k]? = some (w, .st (sideLoc a) o)) : ∃ v, es[k]? = some (w, Ev.st a v) := by
  simp only [hbTrace, List.getElem?_map] at h
  cases hk : es[k]? with
  | none => simp [hk] at h
  | some p =>
    obtain ⟨u, e⟩ := p
    simp [hk] at h
    cases e <;> simp [toHB] at h
    obtain ⟨h1, h2, _⟩ := h
    subst h1; rw [sideLoc_inj h2]; exact ⟨_, rfl⟩

/-- **every store of a flag synchronises with every later load that reads from it** (any event list) -/
theorem st_sw_ld (es : List (Tid × Ev)) {k l : Nat} {t r : Tid} {a : Side} {v v' : Bool} {o : Ord} (hkl : k < l)
    (hk : es[k]? = some (t, .st a v)) (hl : es[l]? = some (r, .ld a o v'))
    (hno : ∀ m w v'', k < m → m < l → es[m]? ≠ some (w, Ev.st a v'')) : HB.Sw (hbTrace es) k l := by
  refine .atomic (a := sideLoc a) hkl (hbTrace_get hk) (hbTrace_get hl) ⟨.sc, rfl, .inl rfl⟩
    ⟨cvt o, cvt_acq o, .inl rfl⟩ ?_
  intro m u od h1 h2 hc
  obtain ⟨v'', hm⟩ := hbTrace_st_inv hc
  exact hno m u v'' h1 h2 hm

/-! ### the value of a flag is the value of its latest store -/

theorem hb_step_flag {s s' : St} {t : Tid} {e : Ev} (hs : step s t e = some s') :
    (∀ a v, e = .st a v → s'.flag = updS s.flag a v) ∧ ((∀ a v, e ≠ .st a v) → s'.flag = s.flag) := by
  unfold step at hs
  split at hs
  all_goals (try simp only [St.acquire, St.release] at hs)
  all_goals (try split at hs)
  all_goals (try split at hs)
  all_goals (try split at hs)
  all_goals (try contradiction)
  all_goals (try (injection hs with hs; subst hs))
  all_goals
    refine ⟨?_, ?_⟩
    · intro a v h; cases h <;> rfl
    · intro h; first | rfl | exact absurd rfl (h _ _)

theorem ld_flag {s s' : St} {t : Tid} {a : Side} {o : Ord} {v : Bool} (hs : step s t (.ld a o v) = some s') :
    v = s.flag a := by
  unfold step at hs
  split at hs
  all_goals (try simp only [St.acquire, St.release] at hs)
  all_goals (try split at hs)
  all_goals (try split at hs)
  all_goals (try split at hs)
  all_goals (try contradiction)
  all_goals simp_all

/-- the current value `val` of flag `a` is the value of its latest store in `es`, or the initial value
when `es` contains no store of `a` -/
def LastSt (es : List (Tid × Ev)) (a : Side) (val ini : Bool) : Prop :=
  (∃ (q : Nat) (w : Tid), es[q]? = some (w, Ev.st a val) ∧ ∀ (k : Nat) (w' : Tid) (v : Bool), q < k → es[k]? ≠ some (w', Ev.st a v)) ∨
  ((∀ (k : Nat) (w : Tid) (v : Bool), es[k]? ≠ some (w, Ev.st a v)) ∧ val = ini)

theorem LastSt.snoc {es : List (Tid × Ev)} {a : Side} {val ini : Bool} (x : Tid × Ev) (h : LastSt es a val ini)
    (hx : ∀ v, x.2 ≠ .st a v) : LastSt (es ++ [x]) a val ini := by
  rcases h with ⟨q, w, h1, h2⟩ | ⟨h1, h2⟩
  · refine Or.inl ⟨q, w, lq_mono _ h1, ?_⟩
    intro k w' v hk hc
    rcases lq_snoc hc with ⟨_, hc'⟩ | ⟨_, hp⟩
    · exact h2 k w' v hk hc'
    · rw [← hp] at hx; exact hx v rfl
  · refine Or.inr ⟨?_, h2⟩
    intro k w v hc
    rcases lq_snoc hc with ⟨_, hc'⟩ | ⟨_, hp⟩
    · exact h1 k w v hc'
    · rw [← hp] at hx; exact hx v rfl

theorem lastSt_run {active : Bool} {es : List (Tid × Ev)} {s : St} (h : run active es = some s) (a : Side) :
    LastSt es a (s.flag a) ((init active).flag a) := by
  induction es using HB.snoc_induction generalizing s with
  | h0 =>
    simp [run] at h; subst h
    exact Or.inr ⟨(by intro k w v hc; simp at hc), rfl⟩
  | hs es x ih =>
    obtain ⟨t, e⟩ := x
    simp only [run, runFrom_append] at h
    cases h1 : runFrom step (init active) es with
    | none => simp [h1] at h
    | some s1 =>
      simp only [h1, Option.bind_some, runFrom_cons, runFrom_nil] at h
      cases h2 : step s1 t e with
      | none => simp [h2] at h
      | some s2 =>
        simp [h2] at h; subst h
        obtain ⟨f1, f2⟩ := hb_step_flag h2
        have ih' := ih h1
        by_cases hst : ∃ a' v, e = .st a' v
        · obtain ⟨a', v, rfl⟩ := hst
          rw [f1 a' v rfl]
          by_cases ha : a = a'
          · subst ha
            refine Or.inl ⟨es.length, t, ?_, ?_⟩
            · simp [updS]
            · intro k w' v' hk hc
              have := lq_lt hc
              simp at this; omega
          · have : updS s1.flag a' v a = s1.flag a := by simp [updS, ha]
            rw [this]
            exact ih'.snoc _ (by intro v' hc; injection hc with hc _; exact ha hc.symm)
        · have hne : ∀ a' v, e ≠ .st a' v := fun a' v hc => hst ⟨a', v, hc⟩
          rw [f2 hne]
          exact ih'.snoc _ (fun v => hne a v)

/-- **a load that returns a value other than the initial one reads from a store of that value, which
happens-before it** (every accepted trace) -/
theorem ld_reads_store {active : Bool} {es : List (Tid × Ev)} {s : St} (h : run active es = some s) {l : Nat} {r : Tid}
    {a : Side} {o : Ord} {v : Bool} (hl : es[l]? = some (r, .ld a o v)) (hv : v ≠ (init active).flag a) :
    ∃ k w, k < l ∧ es[k]? = some (w, Ev.st a v) ∧ (∀ m w' v', k < m → m < l → es[m]? ≠ some (w', Ev.st a v')) ∧
      HB.HB (hbTrace es) k l := by
  obtain ⟨s1, s2, h1, h2⟩ := HB.runFrom_at h hl
  have hval := ld_flag h2
  rcases lastSt_run (show run active (es.take l) = some s1 from h1) a with ⟨q, w, g1, g2⟩ | ⟨_, g2⟩
  · have hql : q < l := by
      have := lq_lt g1
      simp at this; omega
    have g1' : es[q]? = some (w, Ev.st a v) := by
      rw [List.getElem?_take] at g1
      rw [hval]; simpa [hql] using g1
    have g2' : ∀ m w' v', q < m → m < l → es[m]? ≠ some (w', Ev.st a v') := by
      intro m w' v' hm1 hm2 hc
      refine g2 m w' v' hm1 ?_
      rw [List.getElem?_take]; simpa [hm2] using hc
    exact ⟨q, w, hql, g1', g2', .sw (st_sw_ld es hql g1' hl g2')⟩
  · exact absurd (hval.trans g2) hv

end ConcVerif.Trigger
