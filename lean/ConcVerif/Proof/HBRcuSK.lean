import ConcVerif.Proof.HBRcuSafe4
/-! rcu_list and happens-before, part 16: `SK` — a thread knows the store that cleared `owner` of every record it
has scanned; the facts about a record being taken off the log; protection is stable for registered threads. -/
namespace ConcVerif.Rcu
open HB (HBeq Kn)

def SK (w : Ords) (sel : Bool) (es : List (Tid × Ev)) (s : St) : Prop :=
  ∀ (t : Tid) (x : Nat), Scanned s t x → ∀ (q : Nat) (y : Tid) (o : Ord) (v : Option Nat),
    es[q]? = some (y, Ev.ast (.rowner x) o v) → Kn (hbTrace w sel es) t q

/-- a scanned record is inactive -/
theorem scanned_inactive {s : St} (hi : Inv s) {t : Tid} {x : Nat} (h : Scanned s t x) : (s.recs x).owner = none := by
  have hsc := hi.b.scan t
  simp only [bview_vpc] at hsc
  rcases h with ⟨a, c, cur, h1, h2, h3⟩ | ⟨a, c, cur, h1, h2, h3⟩ | ⟨a, h1, h2⟩
  · rw [h1] at hsc; simp only [BView, ScanP, bview_log, bview_recs] at hsc
    exact hsc.2.2 x h2 h3
  · rw [h1] at hsc; simp only [BView, ScanP, bview_log, bview_recs] at hsc
    rcases h3 with h3 | h3
    · subst h3; exact hsc.2.2.1
    · exact hsc.2.2.2 x h2 h3
  · exact (reaper_facts hi h1).2.2 x h2

theorem SK_step {w : Ords} (hw : w.OK) {sel : Bool} {es : List (Tid × Ev)} {s s' : St} {t : Tid} {e : Ev}
    (hi : Inv s) (hi' : Inv s') (hnd : inDtor (s.pc t) = false) (hscd : SCD es) (huc : UC es) (h : SK w sel es s)
    (hS : Step s t e s') : SK w sel (es ++ [(t, e)]) s' := by
  intro u x hsc q y o v hq
  rcases HB.lq_snoc hq with ⟨_, hq'⟩ | ⟨_, hp⟩
  · rcases scanned_step hi hi' hS hnd hsc with h1 | ⟨h1, o', h2, h3⟩
    · rw [hbTrace_append]; exact (h u x h1 q y o v hq').mono _
    · subst h1; subst h2
      rw [hbTrace_snoc]
      exact .of_sw (.inl rfl) (sw_owner hw hscd huc hq' h3)
  · injection hp with h1 h2; subst h1; subst h2
    exfalso
    have hf := uClear_facts hi hS
    rcases scanned_step hi hi' hS hnd hsc with h1 | ⟨_, o', h2, _⟩
    · have := scanned_inactive hi h1
      rw [hf.2.2.1] at this; cases this
    · cases h2

/-- a record taken off the log: by a thread that has scanned it, which then holds it privately in the reclaim phase -/
theorem taken_facts {s s' : St} {t : Tid} {e : Ev} (hi : Inv s) (hS : Step s t e s') (hnd : inDtor (s.pc t) = false)
    {z : Nat} (hz : z ∈ s.log) (hl : s'.log = s.log.erase z) :
    ∃ a, myRec (s.pc t) = some a ∧ (Below s.log a).head? = some z ∧ Scanned s t z ∧ s'.pc t = reapPc a (some z) ∧
      s'.recs = s.recs ∧ s'.lst = s.lst ∧ (∀ f o v, e ≠ .ast f o v) ∧ (∀ o x y ok c, e ≠ .cas o x y ok c) ∧ s'.hnd = s.hnd := by
  have hnodup := hi.b.logNd
  simp only [bview_log] at hnodup
  have hne : z ∉ s.log.erase z := fun h => ((List.Nodup.mem_erase_iff hnodup).1 h).1 rfl
  rcases take_cases hi hS hnd with h1 | ⟨r, h1, _⟩ | ⟨a, m, h1, h2, h3, h4, h5, h6, h7, h8, h9, h10⟩
  · exfalso; rw [h1] at hl; rw [← hl] at hne; exact hne hz
  · exfalso; rw [h1] at hl; rw [← hl] at hne; exact hne (List.mem_cons_of_mem _ hz)
  · have hmz : m = z := by
      apply Classical.byContradiction
      intro hc
      have : z ∈ s.log.erase m := (List.mem_erase_of_ne (Ne.symm hc)).2 hz
      rw [← h3, hl] at this
      exact hne this
    subst hmz
    exact ⟨a, h1, h2, h4, h5, h6, h7, h8, h9, h10⟩

/-- protection is stable for a thread that stays registered -/
theorem safe_step_active {s s' : St} {t : Tid} {e : Ev} (hi : Inv s) (hi' : Inv s') (hS : Step s t e s')
    (hnd : inDtor (s.pc t) = false) {v : Tid} {b : Bool} {x d : Nat} (h1 : s.hnd v = .reg b x) (h2 : s'.hnd v = .reg b x)
    (h : Safe s.eview x d) : Safe s'.eview x d := by
  have hnodup := hi.b.logNd
  simp only [bview_log] at hnodup
  have o1 := hi.b.own1 v b x h1
  have o2 := hi'.b.own1 v b x h2
  simp only [bview_log, bview_recs] at o1 o2
  rcases safe_step hi hS hnd o1.1 o2.1 h with h3 | ⟨a, z, h3, h4, h5, h6, h7⟩
  · exact h3
  · exfalso
    have hz : z ∈ s.log := mem_of_mem_below (head_mem_below h4)
    obtain ⟨a', g1, g2, g3, g4, g5, _⟩ := taken_facts hi hS hnd hz h5
    rw [h3] at g1; injection g1 with g1; subst g1
    have hr : reaper (BView (s'.pc t)) = some a := by rw [g4]; rfl
    have hxa : x ∈ Below s.log a := below_trans hnodup (head_mem_below h4) h7
    obtain ⟨b', hb'⟩ := hi.a.myr t a h3
    have oa := hi.b.own1 t b' a hb'
    simp only [bview_log, bview_recs] at oa
    have haz : a ≠ z := by
      intro hc; rw [← hc] at h4
      exact not_mem_below_self hnodup (head_mem_below h4)
    have hxz : x ≠ z := by
      intro hc; rw [hc] at h7; exact not_mem_below_self hnodup h7
    have : x ∈ Below s'.log a := by
      rw [h5, below_erase hnodup haz]; exact (List.mem_erase_of_ne hxz).2 hxa
    have := (reaper_facts hi' hr).2.2 x this
    rw [o2.2] at this; cases this

end ConcVerif.Rcu
