import ConcVerif.Proof.LR
/-! Inductive invariant of the left-right model, part 2: the payload values (`VInv`: what the two copies hold,
by the mutex holder's pc; `committed`/`base` ghosts) and the reader ghosts (`RInv`: `snap`, `lastSeen`). -/
namespace ConcVerif.LR

/-- value promise of the mutex holder, by position inside `modify` -/
inductive VKd
  | none
  | same                          -- both copies = base, nothing committed
  | first (op : OpId) (l : Side)  -- side ¬l = base ++ [op], side l = base, not yet flipped
  | rb (l : Side)                 -- first application threw: side l = base (side ¬l unspecified)
  | mid (op : OpId) (l : Side)    -- flipped: committed = base ++ [op] = side ¬l, side l = base
  | rf (op : OpId) (l : Side)     -- second application threw: side ¬l = committed (side l unspecified)
  | done (op : OpId)              -- both copies = base ++ [op] = committed

def Pc.vk : Pc → VKd
  | .wA _ _ | .wF1 _ _ | .wRbD _ _ => .same
  | .wF1d op l => .first op l
  | .wRb _ l | .wRbC _ l => .rb l
  | .wWait op l _ _ | .wF2 op l => .mid op l
  | .wRf op l | .wRfC op l => .rf op l
  | .wF2d op _ | .wRfD op _ => .done op
  | _ => .none

def VX (committed base : List OpId) (val : Side → List OpId) : VKd → Prop
  | .none => True
  | .same => committed = base ∧ ∀ x, val x = base
  | .first op l => committed = base ∧ val l = base ∧ val l.flip = base ++ [op]
  | .rb l => committed = base ∧ val l = base
  | .mid op l => committed = base ++ [op] ∧ val l = base ∧ val l.flip = base ++ [op]
  | .rf op l => committed = base ++ [op] ∧ val l.flip = base ++ [op]
  | .done op => committed = base ++ [op] ∧ ∀ x, val x = base ++ [op]

structure VInv (s : St) : Prop where
  vk : ∀ t, (s.pc t).post = true → VX s.committed s.base s.val (s.pc t).vk
  vquiet : s.mtx = none → ∀ x, s.val x = s.committed

theorem vinv_init (b : Bool) : VInv (init b) := by
  constructor
  · intro t; simp [init, Pc.post]
  · intro _ x; cases x <;> rfl

/-- a step of a thread that is not (and does not become) the mutex holder and leaves values alone -/
theorem vinv_nonholder {s s' : St} {t : Tid} (h : VInv s)
    (hoth : ∀ u, u ≠ t → s'.pc u = s.pc u) (hp : (s.pc t).post = false) (hp' : (s'.pc t).post = false)
    (hv : ∀ x, s'.val x = s.val x) (hc : s'.committed = s.committed) (hb : s'.base = s.base) (hm : s'.mtx = s.mtx) :
    VInv s' := by
  have hval : s'.val = s.val := funext hv
  constructor
  · intro u hu
    by_cases hut : u = t
    · subst hut; rw [hp'] at hu; cases hu
    · rw [hoth u hut] at hu ⊢
      rw [hval, hc, hb]; exact h.vk u hu
  · intro hn x; rw [hv, hc]; exact h.vquiet (by rw [← hm]; exact hn) x

/-- a step of the mutex holder that keeps the mutex: it re-establishes its own value promise -/
theorem vinv_holder {s s' : St} {t : Tid} (hi : Inv s)
    (hoth : ∀ u, u ≠ t → s'.pc u = s.pc u) (hq : (s.pc t).post = true) (hm : s'.mtx = s.mtx)
    (hvk : VX s'.committed s'.base s'.val (s'.pc t).vk) : VInv s' := by
  have hmt : s.mtx = some t := (hi.holder t).1 hq
  constructor
  · intro u hu
    by_cases hut : u = t
    · subst hut; exact hvk
    · rw [hoth u hut] at hu
      have := (hi.holder u).1 hu
      rw [hmt] at this; injection this with this; exact absurd this.symm hut
  · intro hn; rw [hm, hmt] at hn; cases hn

theorem vinv_lock {s : St} {t : Tid} {op : OpId} (hi : Inv s) (h : VInv s) (hm : s.mtx = none) :
    VInv ({ s with mtx := some t, base := s.committed }.setPc t (.wA op s.rl)) := by
  have hnopost : ∀ u, (s.pc u).post = false := by
    intro u; cases hp : (s.pc u).post
    · rfl
    · have := (hi.holder u).1 hp; simp [hm] at this
  constructor
  · intro u hu
    by_cases hut : u = t
    · subst hut
      simp only [setPc_pc, if_true, Pc.vk, VX]
      refine ⟨rfl, ?_⟩
      intro x; have := h.vquiet hm x
      cases x <;> exact this
    · simp [hut, hnopost u] at hu
  · intro hn; simp at hn

theorem vinv_unlock {s : St} {t : Tid} {q' : Pc} (hi : Inv s) (h : VInv s) (hq : (s.pc t).post = true)
    (hq' : q'.post = false)
    (hk : (s.pc t).vk = .same ∨ ∃ op, (s.pc t).vk = .done op) :
    VInv ({ s with mtx := none }.setPc t q') := by
  have hmt : s.mtx = some t := (hi.holder t).1 hq
  have hv := h.vk t hq
  constructor
  · intro u hu
    by_cases hut : u = t
    · subst hut; simp [hq'] at hu
    · simp [hut] at hu
      have := (hi.holder u).1 hu
      rw [hmt] at this; injection this with this; exact absurd this.symm hut
  · intro _ x
    show s.val x = s.committed
    rcases hk with hk | ⟨op, hk⟩
    · rw [hk] at hv; obtain ⟨a, b⟩ := hv; rw [a]; exact b x
    · rw [hk] at hv; obtain ⟨a, b⟩ := hv; rw [a]; exact b x

/-- reader-side step for `VInv` -/
macro "v_rd" h:ident hpc:ident t:ident : tactic =>
  `(tactic| exact vinv_nonholder (t := $t) $h (by intro u hu; simp [hu]) (by simp [$hpc:ident, Pc.post]) (by simp [Pc.post])
      (by intro x; cases x <;> simp [St.val]) (by simp) (by simp) (by simp))

/-- holder step for `VInv`: reduce to the value promise of the new pc -/
macro "v_w" hi:ident h:ident hpc:ident t:ident hv:ident : tactic =>
  `(tactic| (
      have $hv:ident := ($h).vk $t (by simp [$hpc:ident, Pc.post])
      rw [$hpc:ident] at $hv:ident
      refine vinv_holder (t := $t) $hi (by intro u hu; simp [hu]) (by simp [$hpc:ident, Pc.post]) (by simp) ?_
      simp only [Pc.vk, VX] at $hv:ident
      simp only [setPc_pc, if_true, Pc.vk, VX, setPc_committed, setPc_base, setPc_val, setVal_committed, setVal_base]
      first
        | exact $hv:ident
        | (obtain ⟨h1, h2⟩ := $hv:ident; exact ⟨h1, h2 _⟩)
        | (obtain ⟨h1, h2, h3⟩ := $hv:ident; exact ⟨h1, h2⟩)
        | (obtain ⟨h1, h2, h3⟩ := $hv:ident; exact ⟨h1, h3⟩)
        | skip))

theorem vinv_step {s s' : St} {t : Tid} {e : Ev} (hi : Inv s) (h : VInv s) (hs : step s t e = some s') : VInv s' := by
  unfold step at hs
  split at hs
  -- 1 idle, call ls
  · rename_i k hpc; injection hs with hs; subst hs; v_rd h hpc t
  -- 2 rdCalled, ldCL
  · rename_i v hpc; split at hs
    · injection hs with hs; subst hs; v_rd h hpc t
    · simp at hs
  -- 3 rdCL c, inc
  · rename_i c c' old hpc; split at hs
    · injection hs with hs; subst hs; v_rd h hpc t
    · simp at hs
  -- 4 rdInc c, ldRL v
  · rename_i c v hpc; split at hs
    · injection hs with hs; subst hs; v_rd h hpc t
    · simp at hs
  -- 5 rdGot, ret
  · rename_i c x k hpc; injection hs with hs; subst hs; v_rd h hpc t
  -- 6 rdHold, rd
  · rename_i c x x' v hpc; split at hs
    · injection hs with hs; subst hs; v_rd h hpc t
    · simp at hs
  -- 7 rdHold, call rel
  · rename_i c x hpc; injection hs with hs; subst hs; v_rd h hpc t
  -- 8 rdRel, dec
  · rename_i c x c' old hpc; split at hs
    · injection hs with hs; subst hs; v_rd h hpc t
    · simp at hs
  -- 9 rdRelD, ret rel
  · rename_i hpc; injection hs with hs; subst hs; v_rd h hpc t
  -- 10 idle, call modify
  · rename_i op hpc; injection hs with hs; subst hs; v_rd h hpc t
  -- 11 wCalled, lock
  · rename_i op hpc; split at hs
    · rename_i hm; injection hs with hs; subst hs; exact vinv_lock hi h hm
    · simp at hs
  -- 12 wA, fBegin
  · rename_i op l x hpc; split at hs
    · injection hs with hs; subst hs; v_w hi h hpc t hv
    · simp at hs
  -- 13 wA, uth
  · rename_i op l hpc; injection hs with hs; subst hs; v_w hi h hpc t hv
  -- 14 wF1, fEnd
  · rename_i op l x v hpc; split at hs
    · rename_i hg; obtain ⟨rfl, rfl⟩ := hg
      injection hs with hs; subst hs; v_w hi h hpc t hv
      obtain ⟨h1, h2⟩ := hv
      simp [h1, h2]
    · simp at hs
  -- 15 wF1, uth
  · rename_i op l hpc; injection hs with hs; subst hs; v_w hi h hpc t hv
  -- 16 wF1d, uth
  · rename_i op l hpc; injection hs with hs; subst hs; v_w hi h hpc t hv
  -- 17 wF1d, stRL
  · rename_i op l v hpc; split at hs
    · injection hs with hs; subst hs; v_w hi h hpc t hv
      obtain ⟨h1, h2, h3⟩ := hv
      exact ⟨by simp [h1], h2, h3⟩
    · simp at hs
  -- 18 wRb, cpBegin
  · rename_i op l x hpc; split at hs
    · injection hs with hs; subst hs; v_w hi h hpc t hv
    · simp at hs
  -- 19 wRbC, cpEnd
  · rename_i op l x v hpc; split at hs
    · rename_i hg; obtain ⟨rfl, rfl⟩ := hg
      injection hs with hs; subst hs; v_w hi h hpc t hv
      obtain ⟨h1, h2⟩ := hv
      refine ⟨h1, ?_⟩
      intro y; by_cases hy : y = l
      · subst hy; simp [h2]
      · rw [side_ne_iff.1 hy]; simp [h2]
    · simp at hs
  -- 20 wRbD, unlock
  · rename_i op l hpc; split at hs
    · injection hs with hs; subst hs
      exact vinv_unlock hi h (by simp [hpc, Pc.post]) (by simp [Pc.post]) (Or.inl (by simp [hpc, Pc.vk]))
    · simp at hs
  -- 21 wWait, ldCnt
  · rename_i op l zL zR c v hpc; split at hs
    · split at hs
      · injection hs with hs; subst hs
        have hv := h.vk t (by simp [hpc, Pc.post]); rw [hpc] at hv
        refine vinv_holder (t := t) hi (by intro u hu; simp [hu]) (by simp [hpc, Pc.post]) (by simp) ?_
        cases c <;> simpa [waitSeen, Pc.vk, VX] using hv
      · split at hs
        · simp at hs
        · injection hs with hs; subst hs; exact h
    · simp at hs
  -- 22 wWait, yld
  · injection hs with hs; subst hs; exact h
  -- 23 wWait, stCL
  · rename_i op l zL zR v hpc; injection hs with hs; subst hs
    exact ⟨h.vk, h.vquiet⟩
  -- 24 wWait, fBegin
  · rename_i op l zL zR x hpc; split at hs
    · injection hs with hs; subst hs; v_w hi h hpc t hv
    · simp at hs
  -- 25 wWait, uth
  · rename_i op l zL zR hpc; split at hs
    · injection hs with hs; subst hs; v_w hi h hpc t hv
    · simp at hs
  -- 26 wF2, fEnd
  · rename_i op l x v hpc; split at hs
    · rename_i hg; obtain ⟨rfl, rfl⟩ := hg
      injection hs with hs; subst hs; v_w hi h hpc t hv
      obtain ⟨h1, h2, h3⟩ := hv
      refine ⟨h1, ?_⟩
      intro y; by_cases hy : y = x
      · subst hy; simp [h2]
      · rw [side_ne_iff.1 hy]; simp [h3]
    · simp at hs
  -- 27 wF2, uth
  · rename_i op l hpc; injection hs with hs; subst hs; v_w hi h hpc t hv
  -- 28 wF2d, uth
  · rename_i op l hpc; injection hs with hs; subst hs; v_w hi h hpc t hv
  -- 29 wF2d, unlock
  · rename_i op l hpc; split at hs
    · injection hs with hs; subst hs
      exact vinv_unlock hi h (by simp [hpc, Pc.post]) (by simp [Pc.post]) (Or.inr ⟨op, by simp [hpc, Pc.vk]⟩)
    · simp at hs
  -- 30 wRf, cpBegin
  · rename_i op l x hpc; split at hs
    · injection hs with hs; subst hs; v_w hi h hpc t hv
    · simp at hs
  -- 31 wRfC, cpEnd
  · rename_i op l x v hpc; split at hs
    · rename_i hg; obtain ⟨rfl, rfl⟩ := hg
      injection hs with hs; subst hs; v_w hi h hpc t hv
      obtain ⟨h1, h2⟩ := hv
      refine ⟨h1, ?_⟩
      intro y; by_cases hy : y = x
      · subst hy; simp [h2]
      · rw [side_ne_iff.1 hy]; simp [h2]
    · simp at hs
  -- 32 wRfD, unlock
  · rename_i op l hpc; split at hs
    · injection hs with hs; subst hs
      exact vinv_unlock hi h (by simp [hpc, Pc.post]) (by simp [Pc.post]) (Or.inr ⟨op, by simp [hpc, Pc.vk]⟩)
    · simp at hs
  -- 33 wRet, ret
  · rename_i op op' hpc; split at hs
    · injection hs with hs; subst hs; v_rd h hpc t
    · simp at hs
  -- 34 wExc, exc
  · rename_i op fwd op' hpc; split at hs
    · injection hs with hs; subst hs; v_rd h hpc t
    · simp at hs
  -- 35 idle, fin
  · split at hs
    · injection hs with hs; subst hs; exact h
    · simp at hs
  -- 36 redundant loads
  · split at hs
    · rw [stutter_eq hs]; exact h
    · simp at hs

theorem vinv_reachable {s : St} (h : Reachable s) : Inv s ∧ VInv s := by
  obtain ⟨b, es, hes⟩ := h
  exact runFrom_inv (Inv := fun s => Inv s ∧ VInv s)
    (fun _ _ _ _ hi hst => ⟨inv_step hi.1 hst, vinv_step hi.1 hi.2 hst⟩) ⟨inv_init b, vinv_init b⟩ hes

/-! ### consequences of `Inv` + `VInv` used by the reader-ghost invariant and by the property theorems -/

/-- the side new readers are directed to always holds `committed` -/
theorem val_rl {s : St} (hi : Inv s) (hv : VInv s) : s.val s.rl = s.committed := by
  cases hm : s.mtx with
  | none => exact hv.vquiet hm _
  | some w =>
    have hq : (s.pc w).post = true := (hi.holder w).2 hm
    have ph := hi.phase w hq
    have vk := hv.vk w hq
    cases hp : s.pc w <;> rw [hp] at hq <;> simp only [Pc.post] at hq <;> (try cases hq) <;> rw [hp] at ph vk <;>
      simp only [Pc.pk, Phase, PhaseX, Pc.vk, VX] at ph vk
    all_goals first
      | (obtain ⟨v1, v2⟩ := vk; rw [v2, v1]; done)
      | (obtain ⟨p1, _⟩ := ph; obtain ⟨v1, v2⟩ := vk; rw [p1, v1]; first | exact v2 _ | exact v2)
      | (obtain ⟨p1, _⟩ := ph; obtain ⟨v1, v2, v3⟩ := vk; rw [p1, v1]; first | exact v2 | exact v3)
      | (obtain ⟨v1, v2, v3⟩ := vk; rw [ph, v1]; exact v3)
      | (obtain ⟨p1, _⟩ := ph; obtain ⟨v1, v2⟩ := vk; rw [p1, v1, v2])
      | skip


theorem held_val_mid {s : St} {r w : Tid} {x l : Side} {op : OpId} (hx : (s.pc r).held = some x)
    (hrl : s.val s.rl = s.committed) (hm : s.mtx = some w) (hrl' : s.rl = l.flip) (hk : (s.pc w).vk = .mid op l)
    (vk : s.committed = s.base ++ [op] ∧ s.val l = s.base ∧ s.val l.flip = s.base ++ [op]) :
    s.val x = s.committed ∨
    ∃ w op l, s.mtx = some w ∧ (s.pc w).vk = .mid op l ∧ x = l ∧ s.val x ++ [op] = s.committed := by
  by_cases hxl : x = l.flip
  · subst hxl; rw [← hrl']; exact Or.inl hrl
  · have hxl' : x = l := by have := side_ne_iff.1 hxl; simpa using this
    subst hxl'
    obtain ⟨v1, v2, v3⟩ := vk
    exact Or.inr ⟨w, op, x, hm, hk, rfl, by rw [v2, v1]⟩

/-- a held side holds `committed`, or — while the holder of the write mutex is between its flip of `rl` and its
second application — `committed` without its last element, the operation in progress -/
theorem held_val {s : St} (hi : Inv s) (hv : VInv s) {r : Tid} {x : Side} (hx : (s.pc r).held = some x) :
    s.val x = s.committed ∨
    ∃ w op l, s.mtx = some w ∧ (s.pc w).vk = .mid op l ∧ x = l ∧ s.val x ++ [op] = s.committed := by
  have hrl := val_rl hi hv
  cases hm : s.mtx with
  | none => have := hi.quiet hm r x hx; subst this; exact Or.inl hrl
  | some w =>
    have hq : (s.pc w).post = true := (hi.holder w).2 hm
    have ph := hi.phase w hq
    have vk := hv.vk w hq
    cases hp : s.pc w <;> rw [hp] at hq <;> simp only [Pc.post] at hq <;> (try cases hq) <;> rw [hp] at ph vk <;>
      simp only [Pc.pk, Phase, PhaseX, Pc.vk, VX] at ph vk
    all_goals first
      | (have := ph r x hx; subst this; exact Or.inl hrl)
      | (obtain ⟨p1, p2⟩ := ph; have := p2 r x hx; subst this; rw [← p1]; exact Or.inl hrl)
      | skip
    case some.wWait.intro op l zL zR => have := held_val_mid hx hrl hm ph.1 (by rw [hp]; rfl) vk; rw [hm] at this; exact this

theorem held_val_le {s : St} (hi : Inv s) (hv : VInv s) {r : Tid} {x : Side} (hx : (s.pc r).held = some x) :
    s.val x <+: s.committed := by
  rcases held_val hi hv hx with h | ⟨_, op, _, _, _, _, h⟩
  · rw [h]; exact List.prefix_refl _
  · rw [← h]; exact List.prefix_append _ _

end ConcVerif.LR
